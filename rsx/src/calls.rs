//! Calls: paths, methods, closures, macros, derives, conversions.
use crate::interp::*;
use crate::prog::{type_head, FnDef};
use crate::value::*;
use quote::ToTokens;
use std::collections::HashMap;
use std::rc::Rc;

impl<'p> Interp<'p> {
	pub fn mk_some(&mut self, v: V) -> V {
		let c = self.cell(v);
		V::Enum("Option".into(), "Some".into(), vec![c])
	}
	pub fn mk_none(&self) -> V {
		V::Enum("Option".into(), "None".into(), vec![])
	}
	pub fn mk_ok(&mut self, v: V) -> V {
		let c = self.cell(v);
		V::Enum("Result".into(), "Ok".into(), vec![c])
	}
	pub fn mk_err(&mut self, v: V) -> V {
		let c = self.cell(v);
		V::Enum("Result".into(), "Err".into(), vec![c])
	}

	fn turbofish(&self, seg: &syn::PathSegment) -> Vec<syn::Type> {
		let mut v = Vec::new();
		if let syn::PathArguments::AngleBracketed(ab) = &seg.arguments {
			for a in &ab.args {
				if let syn::GenericArgument::Type(t) = a {
					v.push(t.clone());
				}
			}
		}
		v
	}

	pub fn eval_args(&mut self, args: &syn::punctuated::Punctuated<syn::Expr, syn::Token![,]>, def: Option<&Rc<FnDef>>, skip_self: bool) -> R<Vec<V>> {
		let mut out = Vec::new();
		let ptys: Vec<Option<syn::Type>> = match def {
			Some(d) => d
				.sig
				.inputs
				.iter()
				.filter_map(|a| match a {
					syn::FnArg::Typed(pt) => Some(Some((*pt.ty).clone())),
					syn::FnArg::Receiver(_) => {
						if skip_self {
							None
						} else {
							Some(None)
						}
					}
				})
				.collect(),
			None => Vec::new(),
		};
		for (i, a) in args.iter().enumerate() {
			let h = ptys.get(i).cloned().flatten();
			let v = self.eval_hint(a, h.as_ref())?;
			out.push(v);
		}
		Ok(out)
	}

	pub fn eval_call(&mut self, c: &syn::ExprCall, hint: Option<&syn::Type>) -> R<V> {
		// callee given by a path?
		if let syn::Expr::Path(p) = &*c.func {
			let segs: Vec<String> = p.path.segments.iter().map(|s| s.ident.to_string()).collect();
			if segs.len() == 1 && p.qself.is_none() {
				let mut name = segs[0].clone();
				if name == "Self" {
					name = self.self_ty().unwrap_or_default();
				}
				// local closure / fn value
				if let Some(cell) = self.lookup(&name) {
					let f = cell.v.borrow().clone();
					let args = self.eval_args(&c.args, None, false)?;
					return self.call_value(f, args);
				}
				if matches!(name.as_str(), "replace" | "swap" | "take") && !self.prog.free_fns.contains_key(&name) {
					let args = self.eval_args(&c.args, None, false)?;
					return self.builtin_static("mem", &name, args, hint);
				}
				match name.as_str() {
					"Some" => {
						let ih = match hint {
							Some(syn::Type::Path(tp)) => tp.path.segments.last().and_then(|s| match &s.arguments {
								syn::PathArguments::AngleBracketed(ab) => ab.args.iter().find_map(|a| if let syn::GenericArgument::Type(t) = a { Some(t.clone()) } else { None }),
								_ => None,
							}),
							_ => None,
						};
						let v = self.eval_hint(&c.args[0], ih.as_ref())?;
						return Ok(self.mk_some(v));
					}
					"Ok" => {
						let ih = match hint {
							Some(syn::Type::Path(tp)) => tp.path.segments.last().and_then(|s| match &s.arguments {
								syn::PathArguments::AngleBracketed(ab) => ab.args.iter().find_map(|a| if let syn::GenericArgument::Type(t) = a { Some(t.clone()) } else { None }),
								_ => None,
							}),
							_ => None,
						};
						let v = self.eval_hint(&c.args[0], ih.as_ref())?;
						return Ok(self.mk_ok(v));
					}
					"Err" => {
						let v = self.eval(&c.args[0])?;
						return Ok(self.mk_err(v));
					}
					"Box" => {}
					_ => {}
				}
				if let Some(d) = self.find_free_fn(&name) {
					let args = self.eval_args(&c.args, Some(&d), false)?;
					let mut tp = HashMap::new();
					let tf = self.turbofish(&p.path.segments[0]);
					for (g, t) in d.generics.iter().zip(tf.iter()) {
						tp.insert(g.clone(), self.resolve_type_head(t));
					}
					return self.call_fn(&d, None, args, tp);
				}
				// tuple struct constructor
				if let Some(sd) = self.prog.structs.get(&name).cloned() {
					if sd.tuple {
						let mut fs = Vec::new();
						for (i, a) in c.args.iter().enumerate() {
							let fty = sd.fields.get(i).map(|(_, t)| t.clone());
							let v = self.eval_hint(a, fty.as_ref())?;
							let v = match &fty {
								Some(t) => self.coerce(v, t),
								None => v,
							};
							let cc = self.cell(v);
							fs.push((Rc::from(format!("{}", i).as_str()), cc));
						}
						return Ok(V::Struct(name.as_str().into(), fs));
					}
				}
				return unsup(format!("call of unknown function {}", name));
			}
			// intrinsics: rsx::xxx(...)
			if segs.len() == 2 && segs[0] == "rsx" {
				return self.intrinsic(&segs[1], c);
			}
			let (tyname, item) = self.split_path(p)?;
			let tf_last = self.turbofish(p.path.segments.last().unwrap());
			return self.call_static(&tyname, &item, &c.args, hint, &tf_last, p);
		}
		// callee is an expression (closure value etc.)
		let f = self.eval(&c.func)?;
		let args = self.eval_args(&c.args, None, false)?;
		self.call_value(f, args)
	}

	/// Type::item(args)
	fn call_static(&mut self, tyname: &str, item: &str, argexprs: &syn::punctuated::Punctuated<syn::Expr, syn::Token![,]>, hint: Option<&syn::Type>, turbofish: &[syn::Type], p: &syn::ExprPath) -> R<V> {
		// stub override?
		if let Some(stub) = self.stubs.get(&(tyname.to_string(), item.to_string())).cloned() {
			let d = self.prog.free_fns.get(&stub).cloned().ok_or(Ctl::Unsupported(format!("stub fn {} missing", stub)))?;
			let args = self.eval_args(argexprs, Some(&d), false)?;
			return self.call_fn(&d, None, args, HashMap::new());
		}
		// enum tuple variant constructor
		if let Some(en) = self.prog.enums.get(tyname).cloned() {
			if let Some((_, tys, _)) = en.variants.iter().find(|(n, _, _)| n == item) {
				let mut cs = Vec::new();
				for (i, a) in argexprs.iter().enumerate() {
					let v = self.eval_hint(a, tys.get(i))?;
					let v = match tys.get(i) {
						Some(t) => self.coerce(v, t),
						None => v,
					};
					cs.push(self.cell(v));
				}
				return Ok(V::Enum(tyname.into(), item.into(), cs));
			}
		}
		// Trait::method(x, ..) / T::method where the "type" is a trait: dispatch on the first argument
		let unresolved_generic = !self.is_user_type(tyname) && tyname.len() <= 2 && tyname.chars().next().map_or(false, |c| c.is_uppercase()) && ITy::from_name(tyname).is_none();
		let is_trait = unresolved_generic || self.prog.trait_methods.contains_key(tyname) || matches!(tyname, "Default" | "From" | "Into" | "Clone" | "PartialEq" | "Iterator" | "ToString" | "FromStr");
		if is_trait {
			match (tyname, item) {
				("Default", "default") => {
					let target = match hint {
						Some(t) => self.resolve_type_head(t),
						None => return unsup("Default::default() without a type hint"),
					};
					return self.default_of_head(&target, hint);
				}
				("From", "from") | ("Into", "into") => {
					let args = self.eval_args(argexprs, None, false)?;
					let target = match hint {
						Some(t) => t.clone(),
						None => return unsup("From::from without a type hint"),
					};
					return self.convert(args.into_iter().next().unwrap(), &target);
				}
				_ => {}
			}
			// first argument decides
			let mut args = Vec::new();
			for (i, a) in argexprs.iter().enumerate() {
				if i == 0 && Self::is_place_expr(a) {
					let c = self.place(a)?;
					args.push(V::Ref(c));
				} else {
					args.push(self.eval(a)?);
				}
			}
			if args.is_empty() {
				// static trait fn such as Method::new called through the trait: needs the hint
				let target = match hint {
					Some(t) => self.resolve_result_inner(t),
					None => return unsup(format!("{}::{} without receiver or hint", tyname, item)),
				};
				return self.call_static_args_tr(&target, item, vec![], hint, Some(tyname));
			}
			if item == "new" || !self.sig_has_receiver(tyname, item) {
				let target = match hint {
					Some(t) => self.resolve_result_inner(t),
					None => return unsup(format!("{}::{} needs an expected type", tyname, item)),
				};
				return self.call_static_args_tr(&target, item, args, hint, Some(tyname));
			}
			let recv = args.remove(0);
			return self.call_method_value(recv, item, args, hint);
		}
		// ordinary inherent/trait impl on a concrete type
		if let Some(d) = self.pick_impl_ex(tyname, item, None, Some(argexprs.len()), None) {
			// need arg values to choose among From<..> overloads
			let overloaded = self.prog.impls.get(&(tyname.to_string(), item.to_string())).map_or(0, |v| v.iter().filter(|d| d.sig.inputs.len() == argexprs.len()).count()) > 1;
			if overloaded {
				let args = self.eval_args(argexprs, None, false)?;
				return self.call_static_args(tyname, item, args, hint);
			}
			let has_recv = d.sig.inputs.iter().next().map_or(false, |a| matches!(a, syn::FnArg::Receiver(_)));
			let mut args = Vec::new();
			if has_recv && !argexprs.is_empty() {
				let a0 = &argexprs[0];
				if Self::is_place_expr(a0) {
					let c = self.place(a0)?;
					args.push(V::Ref(c));
				} else {
					args.push(self.eval(a0)?);
				}
				let ptys: Vec<syn::Type> = d.sig.inputs.iter().filter_map(|a| if let syn::FnArg::Typed(pt) = a { Some((*pt.ty).clone()) } else { None }).collect();
				for (i, a) in argexprs.iter().enumerate().skip(1) {
					let v = self.eval_hint(a, ptys.get(i - 1))?;
					args.push(v);
				}
			} else {
				args = self.eval_args(argexprs, Some(&d), false)?;
			}
			let mut tp = HashMap::new();
			// generics of the impl bound through the turbofish on the type segment are ignored (erasure)
			let fn_generics: Vec<String> = d.sig.generics.params.iter().filter_map(|g| if let syn::GenericParam::Type(t) = g { Some(t.ident.to_string()) } else { None }).collect();
			for (g, t) in fn_generics.iter().zip(turbofish.iter()) {
				tp.insert(g.clone(), self.resolve_type_head(t));
			}
			let _ = p;
			return self.call_fn(&d, Some(tyname.to_string()), args, tp);
		}
		// module-qualified free function (harness helper libraries)
		if !self.is_user_type(tyname) {
			if let Some(d) = self.prog.free_fns.get(item).cloned() {
				if d.origin == crate::prog::Origin::Harness || tyname == "helpers" {
					let args = self.eval_args(argexprs, Some(&d), false)?;
					return self.call_fn(&d, None, args, HashMap::new());
				}
			}
		}
		// built-in static functions
		let args = self.eval_args(argexprs, None, false)?;
		self.builtin_static(tyname, item, args, hint)
	}

	fn sig_has_receiver(&self, tr: &str, item: &str) -> bool {
		// look at any impl of that trait method
		for ((_, f), v) in &self.prog.impls {
			if f == item {
				for d in v {
					if d.trait_name.as_deref() == Some(tr) {
						return d.sig.inputs.iter().next().map_or(false, |a| matches!(a, syn::FnArg::Receiver(_)));
					}
				}
			}
		}
		if let Some(d) = self.prog.trait_defaults.get(&(tr.to_string(), item.to_string())) {
			return d.sig.inputs.iter().next().map_or(false, |a| matches!(a, syn::FnArg::Receiver(_)));
		}
		true
	}

	/// `Result<X, E>` / `Option<X>` -> head of X; otherwise head of the type
	pub fn resolve_result_inner(&self, t: &syn::Type) -> String {
		if let syn::Type::Path(tp) = t {
			if let Some(seg) = tp.path.segments.last() {
				let n = seg.ident.to_string();
				if n == "Result" || n == "Option" || n == "Box" {
					if let syn::PathArguments::AngleBracketed(ab) = &seg.arguments {
						for a in &ab.args {
							if let syn::GenericArgument::Type(it) = a {
								return self.resolve_type_head(it);
							}
						}
					}
				}
			}
		}
		self.resolve_type_head(t)
	}

	pub fn call_static_args(&mut self, tyname: &str, item: &str, args: Vec<V>, hint: Option<&syn::Type>) -> R<V> {
		self.call_static_args_tr(tyname, item, args, hint, None)
	}
	pub fn call_static_args_tr(&mut self, tyname: &str, item: &str, args: Vec<V>, hint: Option<&syn::Type>, tr: Option<&str>) -> R<V> {
		if let Some(stub) = self.stubs.get(&(tyname.to_string(), item.to_string())).cloned() {
			let d = self.prog.free_fns.get(&stub).cloned().ok_or(Ctl::Unsupported(format!("stub fn {} missing", stub)))?;
			return self.call_fn(&d, None, args, HashMap::new());
		}
		if let Some(d) = self.pick_impl_ex(tyname, item, args.first(), Some(args.len()), tr) {
			let args: Vec<V> = d
				.sig
				.inputs
				.iter()
				.zip(args.into_iter())
				.map(|(p, a)| match p {
					syn::FnArg::Typed(pt) => self.coerce(a, &pt.ty),
					_ => a,
				})
				.collect();
			return self.call_fn(&d, Some(tyname.to_string()), args, HashMap::new());
		}
		if let Some(en) = self.prog.enums.get(tyname) {
			if en.variants.iter().any(|(n, _, _)| n == item) {
				let cs = args.into_iter().map(|a| self.cell(a)).collect();
				return Ok(V::Enum(tyname.into(), item.into(), cs));
			}
		}
		self.builtin_static(tyname, item, args, hint)
	}

	/// choose the impl of `item` for type `tyname`; among several (From<A>, From<B>) by the first argument
	pub fn pick_impl(&self, tyname: &str, item: &str, arg0: Option<&V>) -> Option<Rc<FnDef>> {
		self.pick_impl_ex(tyname, item, arg0, None, None)
	}
	pub fn pick_impl_ex(&self, tyname: &str, item: &str, arg0: Option<&V>, arity: Option<usize>, tr: Option<&str>) -> Option<Rc<FnDef>> {
		let all = match self.prog.impls.get(&(tyname.to_string(), item.to_string())) {
			Some(v) => v,
			None => return self.find_method(tyname, item),
		};
		let mut v: Vec<Rc<FnDef>> = all.clone();
		if let Some(t) = tr {
			let f: Vec<Rc<FnDef>> = v.iter().filter(|d| d.trait_name.as_deref() == Some(t)).cloned().collect();
			if !f.is_empty() {
				v = f;
			}
		}
		if let Some(n) = arity {
			let f: Vec<Rc<FnDef>> = v.iter().filter(|d| d.sig.inputs.len() == n).cloned().collect();
			if !f.is_empty() {
				v = f;
			}
		}
		if v.len() == 1 || arg0.is_none() {
			return v.first().cloned();
		}
		let a = arg0.unwrap();
		let mut generic: Option<Rc<FnDef>> = None;
		for d in &v {
			match d.trait_args.first() {
				Some(t) => {
					if d.generics.iter().any(|g| type_head(t).trim_start_matches('&') == g) {
						generic = Some(d.clone());
						continue;
					}
					if self.value_matches_type(a, t) {
						return Some(d.clone());
					}
				}
				None => return Some(d.clone()),
			}
		}
		generic.or_else(|| v.first().cloned())
	}

	pub fn value_matches_type(&self, v: &V, t: &syn::Type) -> bool {
		let h = self.resolve_type_head(t);
		match v {
			V::Ref(c) => {
				if let syn::Type::Reference(r) = t {
					return self.value_matches_type(&c.v.borrow(), &r.elem);
				}
				self.value_matches_type(&c.v.borrow(), t)
			}
			V::F(_) => h == "f64",
			V::Int(_, ty) | V::SInt(_, ty) => *ty == ITy::Unk && ITy::from_name(&h).is_some() || ty.name() == h,
			V::Bool(_) | V::SBool(_) => h == "bool",
			V::Str(_) => h == "str" || h == "String",
			V::Struct(n, _) => **n == *h,
			V::Enum(n, va, p) => {
				if **n != *h {
					return false;
				}
				if &**n == "Option" && &**va == "Some" {
					if let syn::Type::Path(tp) = t {
						if let Some(seg) = tp.path.segments.last() {
							if let syn::PathArguments::AngleBracketed(ab) = &seg.arguments {
								for a in &ab.args {
									if let syn::GenericArgument::Type(it) = a {
										return self.value_matches_type(&p[0].v.borrow(), it);
									}
								}
							}
						}
					}
				}
				true
			}
			V::Ite(_, a, _) => self.value_matches_type(a, t),
			V::Tuple(_) => h == "(tuple)",
			V::Unit => h == "()",
			_ => false,
		}
	}

	/// value.into() / T::from(value) towards a target type
	pub fn convert(&mut self, v: V, target: &syn::Type) -> R<V> {
		let th = self.resolve_type_head(target);
		let inner = self.deref_val(&v);
		// identity
		if self.value_matches_type(&inner, target) && !matches!(inner, V::Enum(..)) {
			return Ok(inner);
		}
		if let V::Enum(n, _, _) = &inner {
			if **n == *th && &**n != "Option" {
				return Ok(inner);
			}
		}
		// impl From<X> for Target
		let full = crate::prog::type_text(target);
		if let Some(cands) = self.prog.impls.get(&(th.clone(), "from".to_string())).cloned() {
			let mut generic = None;
			for d in &cands {
				// for Option<..> targets the full self type must agree
				if let Some(sf) = &d.self_ty_full {
					if sf.contains('<') && !full.is_empty() && full.contains('<') {
						let a = self.canon_type_text(sf);
						let b = self.canon_type_text(&full);
						if a != b {
							continue;
						}
					}
				}
				match d.trait_args.first() {
					Some(t) => {
						if d.generics.iter().any(|g| type_head(t).trim_start_matches('&') == g) {
							generic = Some(d.clone());
							continue;
						}
						if self.value_matches_type(&inner, t) {
							let arg = self.coerce(inner.clone(), t);
							return self.call_fn(d, Some(th.clone()), vec![arg], HashMap::new());
						}
					}
					None => {}
				}
			}
			if let Some(d) = generic {
				return self.call_fn(&d, Some(th.clone()), vec![v], HashMap::new());
			}
		}
		// impl Into<Target> for X
		let tag = inner.tag();
		if let Some(d) = self.find_method(&tag, "into") {
			return self.call_fn(&d, Some(tag), vec![inner], HashMap::new());
		}
		// numeric widening
		if th == "f64" {
			return self.cast(inner, target);
		}
		if ITy::from_name(&th).is_some() {
			if let V::Int(..) | V::SInt(..) | V::Bool(_) | V::SBool(_) = inner {
				return self.cast(inner, target);
			}
		}
		if th == "Option" {
			// T -> Option<T>
			return Ok(self.mk_some(inner));
		}
		if th == "String" || th == "str" {
			if let V::Str(_) = inner {
				return Ok(inner);
			}
		}
		if th == "Box" || th == "Vec" || th == "[T]" {
			return Ok(inner);
		}
		unsup(format!("conversion of {} into {}", inner.brief(), full))
	}

	fn canon_type_text(&self, s: &str) -> String {
		let mut out = s.replace(' ', "");
		for (a, t) in &self.prog.aliases {
			let rep = crate::prog::type_text(t);
			// whole-word replace
			let mut res = String::new();
			let mut i = 0;
			let b = out.as_bytes();
			while i < b.len() {
				if out[i..].starts_with(a.as_str()) {
					let before_ok = i == 0 || !(b[i - 1].is_ascii_alphanumeric() || b[i - 1] == b'_');
					let j = i + a.len();
					let after_ok = j >= b.len() || !(b[j].is_ascii_alphanumeric() || b[j] == b'_');
					if before_ok && after_ok {
						res.push_str(&rep);
						i = j;
						continue;
					}
				}
				res.push(b[i] as char);
				i += 1;
			}
			out = res;
		}
		out.replace("f32", "f64")
	}

	pub fn call_value(&mut self, f: V, args: Vec<V>) -> R<V> {
		match f {
			V::Closure(cd) => self.call_closure(&cd, args),
			V::FnPath(ty, name) => {
				if ty.is_empty() {
					match &*name {
						"Some" => return Ok(self.mk_some(args.into_iter().next().unwrap())),
						"Ok" => return Ok(self.mk_ok(args.into_iter().next().unwrap())),
						"Err" => return Ok(self.mk_err(args.into_iter().next().unwrap())),
						_ => {}
					}
					if let Some(d) = self.prog.free_fns.get(&*name).cloned() {
						return self.call_fn(&d, None, args, HashMap::new());
					}
					return unsup(format!("fn value {}", name));
				}
				self.call_static_args(&ty, &name, args, None)
			}
			V::Ref(c) => {
				let inner = c.v.borrow().clone();
				self.call_value(inner, args)
			}
			o => unsup(format!("call of non-function {}", o.brief())),
		}
	}

	pub fn call_closure(&mut self, cd: &Rc<ClosureData>, args: Vec<V>) -> R<V> {
		let mut scope = HashMap::new();
		for (k, c) in &cd.env {
			scope.insert(k.clone(), c.clone());
		}
		let tparams = cd.tparams.iter().cloned().collect();
		self.frames.push(Frame { scopes: vec![scope, HashMap::new()], self_ty: cd.self_ty.clone(), tparams, ret_hint: None, fname: "<closure>".into(), file: self.cur_file() });
		self.depth += 1;
		let mut r: R<V> = Ok(V::Unit);
		for (p, a) in cd.params.iter().zip(args.into_iter()) {
			match self.bind_pat(p, a) {
				Ok(true) => {}
				Ok(false) => {
					r = unsup("refutable closure parameter");
					break;
				}
				Err(e) => {
					r = Err(e);
					break;
				}
			}
		}
		if r.is_ok() {
			r = self.eval(&cd.body);
		}
		self.depth -= 1;
		self.frames.pop();
		match r {
			Err(Ctl::Return(v)) => Ok(v.0),
			o => o,
		}
	}

	// ------------------------------------------------------------------ method calls
	pub fn eval_method_call(&mut self, m: &syn::ExprMethodCall, hint: Option<&syn::Type>) -> R<V> {
		let name = m.method.to_string();
		// receiver: as a place when possible so that &mut self methods mutate in place
		let recv = if Self::is_place_expr(&m.receiver) {
			let c = self.place(&m.receiver)?;
			V::Ref(c)
		} else {
			self.eval(&m.receiver)?
		};
		// hint for .into()/.parse()/.collect() from turbofish
		let tf: Vec<syn::Type> = match &m.turbofish {
			Some(t) => t.args.iter().filter_map(|a| if let syn::GenericArgument::Type(t) = a { Some(t.clone()) } else { None }).collect(),
			None => Vec::new(),
		};
		let hint_owned = tf.first().cloned().or_else(|| hint.cloned());
		// find user method to get parameter type hints
		let tag = {
			let d = self.deref_val(&recv);
			let d = match d {
				V::Ite(..) => self.force(d)?,
				o => o,
			};
			d.tag()
		};
		let def = if self.is_user_type(&tag) { self.find_method(&tag, &name) } else { None };
		let args = self.eval_args(&m.args, def.as_ref(), true)?;
		self.call_method_value(recv, &name, args, hint_owned.as_ref())
	}

	pub fn is_user_type(&self, tag: &str) -> bool {
		self.prog.structs.contains_key(tag) || self.prog.enums.contains_key(tag)
	}

	pub fn call_method_value(&mut self, recv: V, name: &str, args: Vec<V>, hint: Option<&syn::Type>) -> R<V> {
		// resolve guarded unions in the receiver
		let recv = match &recv {
			V::Ite(..) => self.force(recv)?,
			V::Ref(c) => {
				let inner = self.deref_cell(c);
				let iv = inner.v.borrow().clone();
				if let V::Ite(..) = iv {
					let f = self.force(iv)?;
					if self.spec_marks.is_empty() {
						*inner.v.borrow_mut() = f;
						recv
					} else {
						f
					}
				} else {
					recv
				}
			}
			_ => recv,
		};
		let inner = self.deref_val(&recv);
		let tag = inner.tag();
		if self.is_user_type(&tag) {
			if let Some(stub) = self.stubs.get(&(tag.clone(), name.to_string())).cloned() {
				let d = self.prog.free_fns.get(&stub).cloned().ok_or(Ctl::Unsupported(format!("stub fn {} missing", stub)))?;
				let mut a = vec![recv];
				a.extend(args);
				return self.call_fn(&d, None, a, HashMap::new());
			}
			if let Some(d) = self.pick_impl(&tag, name, None) {
				let ptys: Vec<syn::Type> = d.sig.inputs.iter().filter_map(|a| if let syn::FnArg::Typed(pt) = a { Some((*pt.ty).clone()) } else { None }).collect();
				let mut a = vec![self.flatten_ref(recv)];
				for (i, x) in args.into_iter().enumerate() {
					let x = match ptys.get(i) {
						Some(t) => self.coerce(x, t),
						None => x,
					};
					a.push(x);
				}
				let mut tp = HashMap::new();
				if name == "into" || name == "try_into" {
					let _ = &mut tp;
				}
				return self.call_fn(&d, Some(tag), a, tp);
			}
			// derived / generic built-ins on user types
			match name {
				"clone" => return Ok(self.deep(inner)),
				"into" => {
					return match hint {
						Some(t) => self.convert(inner, t),
						None => {
							// the only untyped `.into()` targets in the crate are Action conversions
							unsup(format!("{}.into() without an expected type", tag))
						}
					};
				}
				"eq" => {
					let b = args.into_iter().next().unwrap();
					return self.val_eq(inner, b);
				}
				"ne" => {
					let b = args.into_iter().next().unwrap();
					let e = self.val_eq(inner, b)?;
					return self.un_not(e);
				}
				"to_owned" | "borrow" | "as_ref" | "as_mut" | "by_ref" => return Ok(recv),
				"cmp" | "partial_cmp" => {
					return self.derived_cmp(inner, args.into_iter().next().unwrap(), name == "partial_cmp");
				}
				_ => {}
			}
			// user iterator: materialise through its own `next`
			if self.find_method(&tag, "next").is_some() && self.prog.implements.contains(&(tag.clone(), "Iterator".to_string())) {
				let items = self.materialize(recv)?;
				let it = self.mk_iter(items);
				return self.builtin_method(it, name, args, hint);
			}
			return unsup(format!("method {}::{} not found", tag, name));
		}
		self.builtin_method(recv, name, args, hint)
	}

	fn flatten_ref(&self, v: V) -> V {
		match v {
			V::Ref(c) => V::Ref(self.deref_cell(&c)),
			o => o,
		}
	}

	fn derived_cmp(&mut self, a: V, b: V, partial: bool) -> R<V> {
		let b = self.deref_val(&b);
		let ord = |s: &str| V::Enum("Ordering".into(), s.into(), vec![]);
		let res = match (&a, &b) {
			(V::Enum(n, va, pa), V::Enum(_, vb, pb)) => {
				let en = self.prog.enums.get(&**n).cloned().ok_or(Ctl::Unsupported("cmp on unknown enum".into()))?;
				let ia = en.variants.iter().position(|(x, _, _)| **x == **va).unwrap_or(0);
				let ib = en.variants.iter().position(|(x, _, _)| **x == **vb).unwrap_or(0);
				if ia != ib {
					ord(if ia < ib { "Less" } else { "Greater" })
				} else if pa.is_empty() {
					ord("Equal")
				} else {
					let (x, y) = (pa[0].v.borrow().clone(), pb[0].v.borrow().clone());
					match (x, y) {
						(V::Int(p, _), V::Int(q, _)) => ord(if p < q { "Less" } else if p > q { "Greater" } else { "Equal" }),
						_ => return unsup("derived cmp on symbolic payload"),
					}
				}
			}
			_ => return unsup("derived cmp"),
		};
		if partial {
			Ok(self.mk_some(res))
		} else {
			Ok(res)
		}
	}

	// ------------------------------------------------------------------ Default
	pub fn default_of_head(&mut self, head: &str, ty: Option<&syn::Type>) -> R<V> {
		if head == "f64" {
			return Ok(V::F(self.fl_from_i(0)));
		}
		if let Some(t) = ITy::from_name(head) {
			return Ok(V::Int(0, t));
		}
		match head {
			"bool" => return Ok(V::Bool(false)),
			"()" => return Ok(V::Unit),
			"Option" => return Ok(self.mk_none()),
			"Vec" | "Box" | "[T]" => return Ok(V::Seq(vec![])),
			"String" => return Ok(V::Str("".into())),
			"(tuple)" => {
				if let Some(syn::Type::Tuple(tt)) = ty {
					let mut cs = Vec::new();
					for e in &tt.elems {
						let h = self.resolve_type_head(e);
						let v = self.default_of_head(&h, Some(e))?;
						cs.push(self.cell(v));
					}
					return Ok(V::Tuple(cs));
				}
			}
			_ => {}
		}
		// explicit impl Default
		if let Some(v) = self.prog.impls.get(&(head.to_string(), "default".to_string())) {
			if let Some(d) = v.first().cloned() {
				return self.call_fn(&d, Some(head.to_string()), vec![], HashMap::new());
			}
		}
		if let Some(sd) = self.prog.structs.get(head).cloned() {
			if sd.derives.iter().any(|d| d == "Default") {
				let mut fs = Vec::new();
				self.frames.push(Frame { scopes: vec![HashMap::new()], self_ty: Some(head.to_string()), tparams: HashMap::new(), ret_hint: None, fname: "<derive Default>".into(), file: self.cur_file() });
				let mut err = None;
				for (n, t) in &sd.fields {
					let h = self.resolve_type_head(t);
					match self.default_of_head(&h, Some(t)) {
						Ok(v) => {
							let c = self.cell(v);
							fs.push((Rc::from(n.as_str()), c));
						}
						Err(e) => {
							err = Some(e);
							break;
						}
					}
				}
				self.frames.pop();
				if let Some(e) = err {
					return Err(e);
				}
				return Ok(V::Struct(head.into(), fs));
			}
		}
		if let Some(en) = self.prog.enums.get(head).cloned() {
			if en.derives.iter().any(|d| d == "Default") {
				// #[default] attribute is not tracked: first unit variant
				if let Some((n, _, _)) = en.variants.iter().find(|(_, t, _)| t.is_empty()) {
					return Ok(V::Enum(head.into(), n.as_str().into(), vec![]));
				}
			}
		}
		unsup(format!("Default for {}", head))
	}

	// ------------------------------------------------------------------ macros
	pub fn eval_macro(&mut self, mac: &syn::Macro) -> R<V> {
		let name = mac.path.segments.last().unwrap().ident.to_string();
		let parse_args = |mac: &syn::Macro| -> Result<Vec<syn::Expr>, Ctl> {
			let parser = syn::punctuated::Punctuated::<syn::Expr, syn::Token![,]>::parse_terminated;
			mac.parse_body_with(parser).map(|p| p.into_iter().collect()).map_err(|e| Ctl::Unsupported(format!("macro {} args: {}", name, e)))
		};
		match name.as_str() {
			"assert" | "debug_assert" => {
				if name == "debug_assert" && !self.debug_assertions {
					return Ok(V::Unit);
				}
				let args = parse_args(mac)?;
				let c = self.eval(&args[0])?;
				let c = self.deref_val(&c);
				let msg = args.get(1).map(|e| e.to_token_stream().to_string()).unwrap_or_else(|| format!("assertion failed: {}", args[0].to_token_stream()));
				match c {
					V::Bool(true) => Ok(V::Unit),
					V::Bool(false) => Err(Ctl::Panic(msg)),
					V::SBool(t) => {
						if self.branch(t)? {
							Ok(V::Unit)
						} else {
							Err(Ctl::Panic(msg))
						}
					}
					o => unsup(format!("assert on {}", o.brief())),
				}
			}
			"assert_eq" | "debug_assert_eq" | "assert_ne" | "debug_assert_ne" => {
				let args = parse_args(mac)?;
				let a = self.eval(&args[0])?;
				let b = self.eval(&args[1])?;
				let mut e = self.bin_cmp("==", a, b)?;
				if name.ends_with("_ne") {
					e = self.un_not(e)?;
				}
				if self.truth(e)? {
					Ok(V::Unit)
				} else {
					Err(Ctl::Panic(format!("{} failed: {}", name, mac.tokens)))
				}
			}
			"vec" => {
				// vec![v; n] or vec![a, b, c]
				let toks = mac.tokens.clone();
				if let Ok(rep) = syn::parse2::<RepeatArgs>(toks.clone()) {
					let v = self.eval(&rep.value)?;
					let n = self.eval(&rep.len)?;
					let (n, _) = self.concretize_int(n)?;
					let mut cs = Vec::new();
					for _ in 0..n {
						let d = self.deep(v.clone());
						cs.push(self.cell(d));
					}
					return Ok(V::Seq(cs));
				}
				let args = parse_args(mac)?;
				let mut cs = Vec::new();
				for a in &args {
					let v = self.eval(a)?;
					cs.push(self.cell(v));
				}
				Ok(V::Seq(cs))
			}
			"matches" => {
				let m: MatchesArgs = syn::parse2(mac.tokens.clone()).map_err(|e| Ctl::Unsupported(format!("matches!: {}", e)))?;
				let v = self.eval(&m.expr)?;
				let v = self.force(v)?;
				self.push_scope();
				let r = self.match_pat(&m.pat, &v);
				self.pop_scope();
				Ok(match r? {
					crate::eval::MatchRes::Yes => V::Bool(true),
					crate::eval::MatchRes::No => V::Bool(false),
					crate::eval::MatchRes::Cond(t) => V::SBool(t),
				})
			}
			"cfg" => {
				let txt = mac.tokens.to_string();
				Ok(V::Bool(crate::prog::cfg_eval(&txt, &self.prog.features)))
			}
			"format" => Ok(V::Str("<formatted>".into())),
			"panic" | "unreachable" | "unimplemented" | "todo" => Err(Ctl::Panic(format!("{}!({})", name, mac.tokens))),
			"println" | "eprintln" | "print" | "dbg" => Ok(V::Unit),
			"write" | "writeln" => unsup("write! (formatting is not interpreted)"),
			o => unsup(format!("macro {}!", o)),
		}
	}
}

struct RepeatArgs {
	value: syn::Expr,
	len: syn::Expr,
}
impl syn::parse::Parse for RepeatArgs {
	fn parse(input: syn::parse::ParseStream) -> syn::Result<Self> {
		let value: syn::Expr = input.parse()?;
		input.parse::<syn::Token![;]>()?;
		let len: syn::Expr = input.parse()?;
		Ok(RepeatArgs { value, len })
	}
}
struct MatchesArgs {
	expr: syn::Expr,
	pat: syn::Pat,
}
impl syn::parse::Parse for MatchesArgs {
	fn parse(input: syn::parse::ParseStream) -> syn::Result<Self> {
		let expr: syn::Expr = input.parse()?;
		input.parse::<syn::Token![,]>()?;
		let pat = syn::Pat::parse_multi_with_leading_vert(input)?;
		Ok(MatchesArgs { expr, pat })
	}
}
