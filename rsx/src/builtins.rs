//! Built-in models of std types and functions the crate uses, plus the rsx:: intrinsics.
use crate::interp::*;
use crate::term::{Rat, Sort};
use crate::value::*;
use std::cell::RefCell;
use std::collections::VecDeque;
use std::rc::Rc;

impl<'p> Interp<'p> {
	pub fn mk_iter(&mut self, items: Vec<V>) -> V {
		V::Iter(Rc::new(RefCell::new(items.into_iter().collect::<VecDeque<V>>())))
	}

	/// all items of an iterable value (eager)
	pub fn materialize(&mut self, v: V) -> R<Vec<V>> {
		let v = match v {
			V::Ref(c) => {
				let inner = self.deref_cell(&c);
				let iv = inner.v.borrow().clone();
				match iv {
					V::Seq(cs) => return Ok(cs.iter().map(|c| V::Ref(c.clone())).collect()),
					V::Iter(_) | V::Range(..) => iv,
					V::Struct(..) => V::Ref(inner),
					o => o,
				}
			}
			o => o,
		};
		match v {
			V::Seq(cs) => {
				let mut out = Vec::new();
				for c in cs {
					out.push(self.read(&c));
				}
				Ok(out)
			}
			V::Iter(q) => Ok(q.borrow_mut().drain(..).collect()),
			V::Range(a, b, incl) => {
				let a = a.ok_or(Ctl::Unsupported("range without start".into()))?;
				let (lo, t1) = self.concretize_int(*a)?;
				let b = match b {
					Some(b) => b,
					None => return unsup("unbounded range materialised"),
				};
				let (hi, t2) = self.concretize_int(*b)?;
				let ty = if t1 == ITy::Unk { t2 } else { t1 };
				let hi = if incl { hi + 1 } else { hi };
				Ok((lo..hi).map(|i| V::Int(i, ty)).collect())
			}
			V::Ref(c) => {
				// user-defined iterator: call its next until None
				let tag = c.v.borrow().tag();
				if let Some(d) = self.find_method(&tag, "next") {
					let mut out = Vec::new();
					loop {
						let r = self.call_fn(&d, Some(tag.clone()), vec![V::Ref(c.clone())], Default::default())?;
						let r = self.force(r)?;
						match r {
							V::Enum(_, va, p) if &*va == "Some" => out.push(self.read(&p[0])),
							V::Enum(_, va, _) if &*va == "None" => break,
							o => return unsup(format!("iterator next returned {}", o.brief())),
						}
						if out.len() > 100_000 {
							return unsup("iterator longer than 100000 items");
						}
					}
					return Ok(out);
				}
				// IntoIterator for &UserType
				if let Some(d) = self.find_method(&tag, "into_iter").or_else(|| self.find_method(&tag, "iter")) {
					let r = self.call_fn(&d, Some(tag), vec![V::Ref(c)], Default::default())?;
					return self.materialize(r);
				}
				unsup(format!("cannot iterate {}", tag))
			}
			V::Struct(..) => {
				let c = self.cell(v);
				self.materialize(V::Ref(c))
			}
			V::Enum(n, va, p) if &*n == "Option" => Ok(if &*va == "Some" { vec![self.read(&p[0])] } else { vec![] }),
			o => unsup(format!("cannot iterate {}", o.brief())),
		}
	}

	pub fn builtin_static(&mut self, ty: &str, item: &str, args: Vec<V>, hint: Option<&syn::Type>) -> R<V> {
		let mut args = args;
		// serde model (see serde_model.rs)
		if item == "deserialize" && args.len() == 1 {
			if let V::Struct(n, _) = self.deref_val(&args[0]) {
				if &*n == "__Deserializer" {
					let de = args.remove(0);
					return self.serde_derived_deserialize(ty, de);
				}
			}
		}
		if item == "custom" && matches!(ty, "SerdeError" | "Error") {
			return Ok(V::Struct("__SerdeError".into(), vec![]));
		}
		match (ty, item) {
			("Vec", "new") | ("String", "new") | ("Vec", "with_capacity") | ("VecDeque", "new") => {
				if ty == "String" {
					return Ok(V::Str("".into()));
				}
				Ok(V::Seq(vec![]))
			}
			("Box", "new") | ("Some", _) => Ok(args.remove(0)),
			("mem", "replace") => {
				let new = args.remove(1);
				match args.remove(0) {
					V::Ref(c) => {
						let c = self.deref_cell(&c);
						let old = self.read(&c);
						self.write(&c, new)?;
						Ok(old)
					}
					o => unsup(format!("mem::replace on {}", o.brief())),
				}
			}
			("mem", "swap") => match (args.remove(0), args.remove(0)) {
				(V::Ref(a), V::Ref(b)) => {
					let (a, b) = (self.deref_cell(&a), self.deref_cell(&b));
					let va = self.read(&a);
					let vb = self.read(&b);
					self.write(&a, vb)?;
					self.write(&b, va)?;
					Ok(V::Unit)
				}
				_ => unsup("mem::swap"),
			},
			("mem", "take") => match args.remove(0) {
				V::Ref(c) => {
					let c = self.deref_cell(&c);
					let old = self.read(&c);
					let d = match &old {
						V::Seq(_) => V::Seq(vec![]),
						V::F(_) => V::F(self.fl_from_i(0)),
						V::Int(_, t) => V::Int(0, *t),
						V::Enum(n, _, _) if &**n == "Option" => self.mk_none(),
						o => {
							let tag = o.tag();
							self.default_of_head(&tag, None)?
						}
					};
					self.write(&c, d)?;
					Ok(old)
				}
				_ => unsup("mem::take"),
			},
			("ptr", "copy") => {
				// ptr::copy(src, dst, count) on pointers modelled as (seq cell, offset)
				let count = args.remove(2);
				let dst = args.remove(1);
				let src = args.remove(0);
				let (count, _) = self.concretize_int(count)?;
				self.ptr_copy(src, dst, count as usize)
			}
			(_, "from") => {
				let a = args.remove(0);
				let th = self.resolve_name(ty);
				if th == "f64" {
					let t: syn::Type = syn::parse_str("f64").unwrap();
					return self.cast(a, &t);
				}
				if ITy::from_name(&th).is_some() {
					let t: syn::Type = syn::parse_str(&th).unwrap();
					return self.cast(a, &t);
				}
				if th == "String" {
					return Ok(a);
				}
				let t: syn::Type = syn::parse_str(&th).map_err(|_| Ctl::Unsupported(format!("from on {}", th)))?;
				self.convert(a, &t)
			}
			(_, "default") => self.default_of_head(&self.resolve_name(ty), hint),
			("f64", "max") | ("f64", "min") => {
				let b = args.remove(1);
				let a = args.remove(0);
				self.builtin_method(a, item, vec![b], hint)
			}
			_ => {
				// method of a primitive used as a path: ValueType::abs(x), u8::max(a, b)
				let th = self.resolve_name(ty);
				if (th == "f64" || ITy::from_name(&th).is_some()) && !args.is_empty() {
					let recv = args.remove(0);
					return self.builtin_method(recv, item, args, hint);
				}
				unsup(format!("static function {}::{}", ty, item))
			}
		}
	}

	fn ptr_copy(&mut self, src: V, dst: V, count: usize) -> R<V> {
		let get = |v: &V| -> Option<(C, usize)> {
			if let V::Struct(n, fs) = v {
				if &**n == "__ptr" {
					let seq = fs[0].1.clone();
					if let V::Int(o, _) = &*fs[1].1.v.borrow() {
						return Some((seq, *o as usize));
					}
				}
			}
			None
		};
		let (s, so) = get(&src).ok_or(Ctl::Unsupported("ptr::copy source".into()))?;
		let (d, dof) = get(&dst).ok_or(Ctl::Unsupported("ptr::copy destination".into()))?;
		let scs = match &*s.v.borrow() {
			V::Seq(cs) => cs.clone(),
			_ => return unsup("ptr::copy source not a sequence"),
		};
		let dcs = match &*d.v.borrow() {
			V::Seq(cs) => cs.clone(),
			_ => return unsup("ptr::copy destination not a sequence"),
		};
		if so + count > scs.len() || dof + count > dcs.len() {
			return Err(Ctl::UB(format!("ptr::copy out of bounds: src {}+{} of {}, dst {}+{} of {}", so, count, scs.len(), dof, count, dcs.len())));
		}
		let vals: Vec<V> = (0..count).map(|i| scs[so + i].v.borrow().clone()).collect();
		for (i, v) in vals.into_iter().enumerate() {
			let dv = self.deep(v);
			self.write(&dcs[dof + i], dv)?;
		}
		Ok(V::Unit)
	}

	pub fn uf1(&mut self, name: &str, f: Fl, cf: fn(f64) -> f64) -> V {
		match f {
			Fl::C(x) => V::F(Fl::C(cf(x))),
			Fl::S { r, .. } => {
				if name == "sqrt" {
					if let Some(q) = self.tm.as_rat(r) {
						// exact rational squares stay exact
						let (n, d) = (q.n, q.d);
						if n >= 0 {
							let sn = (n as f64).sqrt().round() as i128;
							let sd = (d as f64).sqrt().round() as i128;
							if sn * sn == n && sd * sd == d {
								let t = self.tm.rat(Rat::new(sn, sd).unwrap());
								return self.mk_fl(t);
							}
						}
					}
				}
				if name == "sqrt" {
					if let Some(q) = self.tm.as_rat(r) {
						// constant argument: the correctly rounded f64 result, exactly (as the compiler folds it)
						let x = q.to_f64();
						if q.d == 1 && q.n >= 0 && q.n < (1i128 << 52) {
							if let Some(rr) = Rat::from_f64(x.sqrt()) {
								let t = self.tm.rat(rr);
								return self.mk_fl(t);
							}
						}
					}
				}
				let t = self.tm.uf(&format!("uf_{}", name), vec![r]);
				self.mk_fl(t)
			}
		}
	}

	pub fn builtin_method(&mut self, recv: V, name: &str, args: Vec<V>, hint: Option<&syn::Type>) -> R<V> {
		let mut args = args;
		let inner = self.deref_val(&recv);
		if let V::Struct(sn, _) = &inner {
			if sn.starts_with("__Ser") {
				let sn = sn.to_string();
				return self.serde_method(recv, &sn, name, args);
			}
		}
		match inner {
			V::F(f) => self.float_method(f, name, args, hint),
			V::Int(..) | V::SInt(..) => self.int_method(inner, name, args, hint),
			V::Bool(_) | V::SBool(_) => match name {
				"clone" => Ok(inner),
				"into" => match hint {
					Some(t) => self.convert(inner, t),
					None => unsup("bool.into() without hint"),
				},
				"then" | "then_some" => {
					let b = self.truth(inner)?;
					if b {
						let v = if name == "then" { self.call_value(args.remove(0), vec![])? } else { args.remove(0) };
						Ok(self.mk_some(v))
					} else {
						Ok(self.mk_none())
					}
				}
				_ => unsup(format!("bool method {}", name)),
			},
			V::Seq(_) => self.seq_method(recv, name, args, hint),
			V::Iter(_) | V::Range(..) => self.iter_method(inner, name, args, hint),
			V::Enum(ref n, _, _) if (&**n == "Option") && matches!(name, "take" | "replace" | "insert" | "get_or_insert") => {
				let holder = match &recv {
					V::Ref(c) => self.deref_cell(c),
					_ => return unsup("Option::take on a temporary"),
				};
				let old = self.read(&holder);
				match name {
					"take" => {
						let none = self.mk_none();
						self.write(&holder, none)?;
						Ok(old)
					}
					"replace" => {
						let nv = self.mk_some(args.remove(0));
						self.write(&holder, nv)?;
						Ok(old)
					}
					_ => {
						let is_some = matches!(&old, V::Enum(_, va, _) if &**va == "Some");
						if name == "insert" || !is_some {
							let nv = self.mk_some(args.remove(0));
							self.write(&holder, nv)?;
						}
						let cur = holder.v.borrow().clone();
						match cur {
							V::Enum(_, _, p) => Ok(V::Ref(p[0].clone())),
							_ => unsup("Option::insert"),
						}
					}
				}
			}
			V::Enum(ref n, _, _) if &**n == "Option" || &**n == "Result" => self.option_method(inner, name, args, hint),
			V::Enum(ref n, ref va, _) if &**n == "Ordering" => match name {
				"reverse" => Ok(V::Enum("Ordering".into(), match &**va { "Less" => "Greater", "Greater" => "Less", o => o }.into(), vec![])),
				"is_lt" => Ok(V::Bool(&**va == "Less")),
				"is_gt" => Ok(V::Bool(&**va == "Greater")),
				"is_eq" => Ok(V::Bool(&**va == "Equal")),
				_ => unsup(format!("Ordering method {}", name)),
			},
			V::Tuple(_) | V::Unit => match name {
				"clone" => Ok(self.deep(inner)),
				"into" => match hint {
					Some(t) => self.convert(inner, t),
					None => Ok(inner),
				},
				_ => {
					// trait methods implemented for tuples (OHLCV for tuples) are not modelled
					unsup(format!("tuple method {}", name))
				}
			},
			V::Str(ref s) => match name {
				"to_string" | "to_owned" | "clone" | "into" | "as_str" | "as_ref" | "borrow" => Ok(inner.clone()),
				"len" => Ok(V::Int(s.len() as i128, ITy::Usize)),
				"is_empty" => Ok(V::Bool(s.is_empty())),
				"chars" => {
					let items: Vec<V> = s.chars().map(|c| V::Str(c.to_string().as_str().into())).collect();
					Ok(self.mk_iter(items))
				}
				"starts_with" | "ends_with" | "contains" => {
					let a = match self.deref_val(&args[0]) {
						V::Str(a) => a,
						_ => return unsup("str pattern argument"),
					};
					Ok(V::Bool(match name {
						"starts_with" => s.starts_with(&*a),
						"ends_with" => s.ends_with(&*a),
						_ => s.contains(&*a),
					}))
				}
				_ => unsup(format!("str method {}", name)),
			},
			V::Closure(_) | V::FnPath(..) => match name {
				"clone" => Ok(inner),
				_ => unsup(format!("method {} on function value", name)),
			},
			V::Struct(ref n, _) if &**n == "__bits" => match name {
				"clone" => Ok(inner.clone()),
				_ => unsup("method on float bits"),
			},
			V::Struct(ref n, _) if &**n == "__bitsint_s" || &**n == "__bitsint_u" => match name {
				"clone" => Ok(inner.clone()),
				"cmp" | "partial_cmp" => {
					let b = self.deref_val(&args[0]);
					let lt = self.bin_cmp("<", inner.clone(), b.clone())?;
					let gt = self.bin_cmp(">", inner.clone(), b)?;
					let (lt, gt) = (self.bool_term(&lt), self.bool_term(&gt));
					let less = V::Enum("Ordering".into(), "Less".into(), vec![]);
					let greater = V::Enum("Ordering".into(), "Greater".into(), vec![]);
					let equal = V::Enum("Ordering".into(), "Equal".into(), vec![]);
					let (less, greater, equal) = if name == "partial_cmp" { (self.mk_some(less), self.mk_some(greater), self.mk_some(equal)) } else { (less, greater, equal) };
					let inner2 = V::Ite(gt, Rc::new(greater), Rc::new(equal));
					Ok(V::Ite(lt, Rc::new(less), Rc::new(inner2)))
				}
				_ => unsup("method on float bits viewed as integer"),
			},
			V::Struct(ref n, ref fs) if &**n == "__ptr" => match name {
				"add" | "offset" => {
					let (k, _) = self.concretize_int(args.remove(0))?;
					let seq = fs[0].1.clone();
					let off = match &*fs[1].1.v.borrow() {
						V::Int(o, _) => *o,
						_ => 0,
					};
					let oc = self.cell(V::Int(off + k, ITy::Usize));
					Ok(V::Struct("__ptr".into(), vec![("seq".into(), seq), ("off".into(), oc)]))
				}
				_ => unsup(format!("pointer method {}", name)),
			},
			o => unsup(format!("method {} on {}", name, o.brief())),
		}
	}

	fn float_method(&mut self, f: Fl, name: &str, mut args: Vec<V>, hint: Option<&syn::Type>) -> R<V> {
		let arg_f = |s: &mut Self, v: V| -> R<Fl> {
			match s.deref_val(&v) {
				V::F(x) => Ok(x),
				V::Int(i, _) => Ok(s.fl_from_i(i)),
				o => unsup(format!("float argument {}", o.brief())),
			}
		};
		if let Fl::C(x) = f {
			// concrete mode
			let a: Vec<f64> = {
				let mut v = Vec::new();
				for a in args.iter() {
					match self.deref_val(a) {
						V::F(Fl::C(y)) => v.push(y),
						V::Int(i, _) => v.push(i as f64),
						_ => {}
					}
				}
				v
			};
			if self.f32_mode {
				let xf = x as f32;
				let af: Vec<f32> = a.iter().map(|v| *v as f32).collect();
				let r32 = match name {
					"sqrt" => Some(xf.sqrt()),
					"recip" => Some(xf.recip()),
					"mul_add" => Some(xf.mul_add(af[0], af[1])),
					"powi" => Some(xf.powi(a[0] as i32)),
					"powf" => Some(xf.powf(af[0])),
					"exp" => Some(xf.exp()),
					"ln" => Some(xf.ln()),
					"tanh" => Some(xf.tanh()),
					"atanh" => Some(xf.atanh()),
					"sin" => Some(xf.sin()),
					"cos" => Some(xf.cos()),
					"tan" => Some(xf.tan()),
					_ => None,
				};
				if let Some(r) = r32 {
					return Ok(V::F(Fl::C(r as f64)));
				}
				if name == "to_bits" {
					return Ok(V::Int(xf.to_bits() as i128, ITy::U32));
				}
			}
			let r = match name {
				"abs" => x.abs(),
				"sqrt" => x.sqrt(),
				"recip" => x.recip(),
				"mul_add" => x.mul_add(a[0], a[1]),
				"max" => x.max(a[0]),
				"min" => x.min(a[0]),
				"clamp" => x.clamp(a[0], a[1]),
				"powi" => x.powi(a[0] as i32),
				"powf" => x.powf(a[0]),
				"signum" => x.signum(),
				"round" => x.round(),
				"floor" => x.floor(),
				"ceil" => x.ceil(),
				"trunc" => x.trunc(),
				"exp" => x.exp(),
				"ln" => x.ln(),
				"tanh" => x.tanh(),
				"atanh" => x.atanh(),
				"sin" => x.sin(),
				"cos" => x.cos(),
				"tan" => x.tan(),
				"copysign" => x.copysign(a[0]),
				"clone" | "into" => x,
				"is_nan" => return Ok(V::Bool(x.is_nan())),
				"is_finite" => return Ok(V::Bool(x.is_finite())),
				"is_infinite" => return Ok(V::Bool(x.is_infinite())),
				"is_sign_negative" => return Ok(V::Bool(x.is_sign_negative())),
				"is_sign_positive" => return Ok(V::Bool(x.is_sign_positive())),
				"to_bits" => return Ok(V::Int(x.to_bits() as i128, ITy::U64)),
				"partial_cmp" => {
					return Ok(match x.partial_cmp(&a[0]) {
						Some(o) => {
							let e = V::Enum("Ordering".into(), format!("{:?}", o).as_str().into(), vec![]);
							self.mk_some(e)
						}
						None => self.mk_none(),
					})
				}
				"total_cmp" => return Ok(V::Enum("Ordering".into(), format!("{:?}", x.total_cmp(&a[0])).as_str().into(), vec![])),
				_ => return unsup(format!("float method {} (concrete)", name)),
			};
			if name == "into" {
				if let Some(t) = hint {
					return self.convert(V::F(f), t);
				}
			}
			return Ok(V::F(Fl::C(r)));
		}
		let (r, z) = self.fl_parts(f);
		let zero = self.tm.real_i(0);
		match name {
			"clone" | "to_owned" => Ok(V::F(f)),
			"into" => match hint {
				Some(t) => self.convert(V::F(f), t),
				None => unsup("float.into() without an expected type"),
			},
			"abs" => {
				let neg = self.tm.lt(r, zero);
				let n = self.tm.neg(r);
				let t = self.tm.ite(neg, n, r);
				Ok(self.mk_fl(t))
			}
			"recip" => {
				let one = self.fl_from_i(1);
				self.fl_arith("/", one, f)
			}
			"mul_add" => {
				let c = arg_f(self, args.remove(1))?;
				let b = arg_f(self, args.remove(0))?;
				let p = self.fl_arith("*", f, b)?;
				match p {
					V::F(p) => self.fl_arith("+", p, c),
					_ => unreachable!(),
				}
			}
			"max" | "min" => {
				let b = arg_f(self, args.remove(0))?;
				let (rb, zb) = self.fl_parts(b);
				// a.max(b): b if a < b else a ; a.min(b): b if b < a else a
				let c = if name == "max" { self.tm.lt(r, rb) } else { self.tm.lt(rb, r) };
				let rr = self.tm.ite(c, rb, r);
				let zz = self.tm.ite(c, zb, z);
				Ok(V::F(Fl::S { r: rr, z: zz }))
			}
			"clamp" => {
				let hi = arg_f(self, args.remove(1))?;
				let lo = arg_f(self, args.remove(0))?;
				let (rl, zl) = self.fl_parts(lo);
				let (rh, zh) = self.fl_parts(hi);
				let below = self.tm.lt(r, rl);
				let above = self.tm.lt(rh, r);
				let a = self.tm.ite(above, rh, r);
				let az = self.tm.ite(above, zh, z);
				let rr = self.tm.ite(below, rl, a);
				let zz = self.tm.ite(below, zl, az);
				Ok(V::F(Fl::S { r: rr, z: zz }))
			}
			"signum" => {
				let pos = self.tm.lt(zero, r);
				let neg = self.tm.lt(r, zero);
				let one = self.tm.real_i(1);
				let mone = self.tm.real_i(-1);
				// f64::signum(+0.0) = 1.0, (-0.0) = -1.0
				let zsign = self.tm.ite(z, mone, one);
				let a = self.tm.ite(neg, mone, zsign);
				let t = self.tm.ite(pos, one, a);
				Ok(self.mk_fl(t))
			}
			"powi" => {
				let (k, _) = self.concretize_int(args.remove(0))?;
				let mut acc = self.tm.real_i(1);
				for _ in 0..k.abs() {
					acc = self.tm.mul(acc, r);
				}
				if k < 0 {
					let one = self.tm.real_i(1);
					acc = self.tm.div(one, acc);
				}
				Ok(self.mk_fl(acc))
			}
			"sqrt" => {
				let v = self.uf1("sqrt", f, f64::sqrt);
				if let V::F(Fl::S { r: s, .. }) = v {
					if self.tm.as_rat(s).is_none() {
						// axioms: x >= 0 -> s >= 0 and s*s = x
						let nonneg = self.tm.le(zero, r);
						let sge = self.tm.le(zero, s);
						let sq = self.tm.mul(s, s);
						let eq = self.tm.eq(sq, r);
						let both = self.tm.and(sge, eq);
						let nn = self.tm.not(nonneg);
						let ax = self.tm.or(nn, both);
						if let Some(sol) = self.sol.as_mut() {
							sol.axioms.insert(ax, s);
						}
						self.axiom(ax)?;
					}
				}
				Ok(v)
			}
			"exp" => Ok(self.uf1("exp", f, f64::exp)),
			"ln" => Ok(self.uf1("ln", f, f64::ln)),
			"tanh" => Ok(self.uf1("tanh", f, f64::tanh)),
			"atanh" => Ok(self.uf1("atanh", f, f64::atanh)),
			"sin" => Ok(self.uf1("sin", f, f64::sin)),
			"cos" => Ok(self.uf1("cos", f, f64::cos)),
			"tan" => Ok(self.uf1("tan", f, f64::tan)),
			"round" | "floor" | "trunc" | "ceil" => {
				// to an Int-sorted term, back to real
				let half = self.tm.rat(Rat::new(1, 2).unwrap());
				let t = match name {
					"floor" => self.tm.to_int(r),
					"ceil" => {
						let n = self.tm.neg(r);
						let f = self.tm.to_int(n);
						self.tm.neg(f)
					}
					"round" => {
						// half away from zero
						let neg = self.tm.lt(r, zero);
						let p = self.tm.add(r, half);
						let fp = self.tm.to_int(p);
						let nr = self.tm.neg(r);
						let q = self.tm.add(nr, half);
						let fq = self.tm.to_int(q);
						let nfq = self.tm.neg(fq);
						self.tm.ite(neg, nfq, fp)
					}
					_ => {
						let neg = self.tm.lt(r, zero);
						let fl = self.tm.to_int(r);
						let nr = self.tm.neg(r);
						let fl2 = self.tm.to_int(nr);
						let nfl2 = self.tm.neg(fl2);
						self.tm.ite(neg, nfl2, fl)
					}
				};
				let tr = self.tm.to_real(t);
				Ok(self.mk_fl(tr))
			}
			"is_nan" | "is_infinite" => Ok(V::Bool(false)),
			"is_finite" | "is_normal" => Ok(V::Bool(true)),
			"is_sign_negative" | "is_sign_positive" => {
				let neg = self.tm.lt(r, zero);
				let isz = self.tm.eq(r, zero);
				let zneg = self.tm.and(isz, z);
				let t = self.tm.or(neg, zneg);
				let t = if name == "is_sign_positive" { self.tm.not(t) } else { t };
				Ok(self.mk_bool(t))
			}
			"to_bits" => {
				let c = self.cell(V::F(f));
				Ok(V::Struct("__bits".into(), vec![("f".into(), c)]))
			}
			"partial_cmp" | "total_cmp" => {
				let b = arg_f(self, args.remove(0))?;
				let (rb, _) = self.fl_parts(b);
				let lt = self.tm.lt(r, rb);
				let gt = self.tm.lt(rb, r);
				let less = V::Enum("Ordering".into(), "Less".into(), vec![]);
				let greater = V::Enum("Ordering".into(), "Greater".into(), vec![]);
				let equal = V::Enum("Ordering".into(), "Equal".into(), vec![]);
				let (less, greater, equal) = if name == "partial_cmp" { (self.mk_some(less), self.mk_some(greater), self.mk_some(equal)) } else { (less, greater, equal) };
				if name == "total_cmp" && self.mode == Mode::Fp {
					// IEEE total order on finite non-NaN values: numeric order, and -0 < +0
					let (_, zb) = self.fl_parts(b);
					let zero = self.tm.real_i(0);
					let isz0 = self.tm.eq(r, zero);
					let same = self.tm.eq(r, rb);
					let isz = self.tm.and(isz0, same);
					let nzb = self.tm.not(zb);
					let nza = self.tm.not(z);
					let a_neg_b_pos = self.tm.and(z, nzb);
					let a_pos_b_neg = self.tm.and(nza, zb);
					let zlt = self.tm.and(isz, a_neg_b_pos);
					let zgt = self.tm.and(isz, a_pos_b_neg);
					let lt2 = self.tm.or(lt, zlt);
					let gt2 = self.tm.or(gt, zgt);
					let inner = V::Ite(gt2, Rc::new(greater), Rc::new(equal));
					return Ok(V::Ite(lt2, Rc::new(less), Rc::new(inner)));
				}
				let inner = V::Ite(gt, Rc::new(greater), Rc::new(equal));
				let v = if self.tm.as_bool(lt) == Some(true) {
					less
				} else if self.tm.as_bool(lt) == Some(false) {
					match self.tm.as_bool(gt) {
						Some(true) => match inner {
							V::Ite(_, a, _) => (*a).clone(),
							_ => unreachable!(),
						},
						Some(false) => match inner {
							V::Ite(_, _, b) => (*b).clone(),
							_ => unreachable!(),
						},
						None => inner,
					}
				} else {
					V::Ite(lt, Rc::new(less), Rc::new(inner))
				};
				Ok(v)
			}
			_ => unsup(format!("float method {}", name)),
		}
	}

	pub fn neg_zero(&mut self) -> V {
		match self.mode {
			Mode::Concrete => V::F(Fl::C(-0.0)),
			Mode::Fp => {
				let r = self.tm.real_i(0);
				let z = self.tm.bool_(true);
				V::F(Fl::S { r, z })
			}
			Mode::Real => V::F(self.fl_from_i(0)),
		}
	}
	/// assert a path-independent fact about an uninterpreted function (sqrt). Inside a speculative branch
	/// the assertion lives in a temporary solver scope, so it is remembered and asserted again in the
	/// enclosing scope when the branch has been merged.
	pub fn axiom(&mut self, t: crate::term::T) -> R<()> {
		if self.tm.as_bool(t) == Some(true) {
			return Ok(());
		}
		if !self.spec_marks.is_empty() {
			self.pending_axioms.push(t);
		}
		let sol = self.sol.as_mut().unwrap();
		sol.assert(&self.tm, t);
		Ok(())
	}

	fn int_method(&mut self, v: V, name: &str, mut args: Vec<V>, hint: Option<&syn::Type>) -> R<V> {
		if let V::SInt(t, ty) = v {
			return match name {
				"clone" => Ok(v),
				"into" => match hint {
					Some(h) => self.convert(v, h),
					None => unsup("symbolic int .into() without hint"),
				},
				"abs" => {
					let z = self.tm.int(0);
					let neg = self.tm.lt(t, z);
					let n = self.tm.neg(t);
					let r = self.tm.ite(neg, n, t);
					Ok(self.mk_int(r, ty))
				}
				"signum" => {
					let z = self.tm.int(0);
					let one = self.tm.int(1);
					let m = self.tm.int(-1);
					let neg = self.tm.lt(t, z);
					let pos = self.tm.lt(z, t);
					let a = self.tm.ite(neg, m, z);
					let r = self.tm.ite(pos, one, a);
					Ok(self.mk_int(r, ty))
				}
				"max" | "min" => {
					let b = self.deref_val(&args.remove(0));
					let (tb, _) = self.int_term(&b);
					let c = if name == "max" { self.tm.lt(t, tb) } else { self.tm.lt(tb, t) };
					let r = self.tm.ite(c, tb, t);
					Ok(self.mk_int(r, ty))
				}
				"saturating_sub" | "saturating_add" => {
					let b = self.deref_val(&args.remove(0));
					let (tb, _) = self.int_term(&b);
					let raw = if name == "saturating_sub" { self.tm.sub(t, tb) } else { self.tm.add(t, tb) };
					let (lo, hi) = ty.range();
					let lot = self.tm.int(lo);
					let hit = self.tm.int(hi.min(1i128 << 100));
					let below = self.tm.lt(raw, lot);
					let above = self.tm.lt(hit, raw);
					let a = self.tm.ite(above, hit, raw);
					let r = self.tm.ite(below, lot, a);
					Ok(self.mk_int(r, ty))
				}
				_ => {
					let (i, ty) = self.concretize_int(V::SInt(t, ty))?;
					self.int_method(V::Int(i, ty), name, args, hint)
				}
			};
		}
		let (i, ty) = match v {
			V::Int(i, t) => (i, t),
			_ => unreachable!(),
		};
		let argi = |s: &mut Self, v: V| -> R<i128> {
			let v = s.deref_val(&v);
			Ok(s.concretize_int(v)?.0)
		};
		let (lo, hi) = ty.range();
		match name {
			"clone" | "to_owned" => Ok(V::Int(i, ty)),
			"into" | "try_into" => {
				let r = match hint {
					Some(h) => {
						if name == "try_into" {
							let inner = self.resolve_result_inner(h);
							if let Some(t2) = ITy::from_name(&inner) {
								let (l2, h2) = t2.range();
								if i < l2 || i > h2 {
									let e = V::Str("TryFromIntError".into());
									return Ok(self.mk_err(e));
								}
								return Ok(self.mk_ok(V::Int(i, t2)));
							}
							return unsup("try_into target");
						}
						self.convert(V::Int(i, ty), h)?
					}
					None => {
						if name == "try_into" {
							// target unknown: keep the value, typed later by coerce; in the crate the target is PeriodType
							let t2 = ITy::from_name(&self.resolve_name("PeriodType")).unwrap_or(ITy::U8);
							let (l2, h2) = t2.range();
							if i < l2 || i > h2 {
								let e = V::Str("TryFromIntError".into());
								return Ok(self.mk_err(e));
							}
							return Ok(self.mk_ok(V::Int(i, t2)));
						}
						V::Int(i, ty)
					}
				};
				Ok(r)
			}
			"saturating_sub" => {
				let b = argi(self, args.remove(0))?;
				Ok(V::Int((i - b).clamp(lo, hi), ty))
			}
			"saturating_add" => {
				let b = argi(self, args.remove(0))?;
				Ok(V::Int((i + b).clamp(lo, hi), ty))
			}
			"saturating_mul" => {
				let b = argi(self, args.remove(0))?;
				Ok(V::Int(i.checked_mul(b).unwrap_or(hi).clamp(lo, hi), ty))
			}
			"wrapping_sub" => {
				let b = argi(self, args.remove(0))?;
				Ok(V::Int(ty.wrap(i - b), ty))
			}
			"wrapping_add" => {
				let b = argi(self, args.remove(0))?;
				Ok(V::Int(ty.wrap(i + b), ty))
			}
			"wrapping_mul" => {
				let b = argi(self, args.remove(0))?;
				Ok(V::Int(ty.wrap(i.wrapping_mul(b)), ty))
			}
			"checked_sub" | "checked_add" | "checked_mul" | "checked_div" => {
				let b = argi(self, args.remove(0))?;
				let r = match name {
					"checked_sub" => i.checked_sub(b),
					"checked_add" => i.checked_add(b),
					"checked_mul" => i.checked_mul(b),
					_ => {
						if b == 0 {
							None
						} else {
							i.checked_div(b)
						}
					}
				};
				Ok(match r {
					Some(x) if x >= lo && x <= hi => self.mk_some(V::Int(x, ty)),
					_ => self.mk_none(),
				})
			}
			"min" => {
				let b = self.deref_val(&args.remove(0));
				if let V::SInt(..) = b {
					return self.int_method(b, "min", vec![V::Int(i, ty)], hint);
				}
				let b = argi(self, b)?;
				Ok(V::Int(i.min(b), ty))
			}
			"max" => {
				let b = self.deref_val(&args.remove(0));
				if let V::SInt(..) = b {
					return self.int_method(b, "max", vec![V::Int(i, ty)], hint);
				}
				let b = argi(self, b)?;
				Ok(V::Int(i.max(b), ty))
			}
			"pow" => {
				let b = argi(self, args.remove(0))?;
				let r = i.checked_pow(b as u32).filter(|x| *x >= lo && *x <= hi).ok_or(Ctl::Panic("attempt to multiply with overflow".into()))?;
				Ok(V::Int(r, ty))
			}
			"abs" => Ok(V::Int(i.abs(), ty)),
			"signum" => Ok(V::Int(i.signum(), ty)),
			"is_power_of_two" => Ok(V::Bool(i > 0 && (i & (i - 1)) == 0)),
			"cmp" | "partial_cmp" => {
				let b = argi(self, args.remove(0))?;
				let o = V::Enum("Ordering".into(), (if i < b { "Less" } else if i > b { "Greater" } else { "Equal" }).into(), vec![]);
				Ok(if name == "cmp" { o } else { self.mk_some(o) })
			}
			"eq" => {
				let b = argi(self, args.remove(0))?;
				Ok(V::Bool(i == b))
			}
			"to_string" => Ok(V::Str(format!("{}", i).as_str().into())),
			"leading_zeros" => Ok(V::Int((ty.bits() as i128) - (128 - (i as u128).leading_zeros() as i128), ITy::U32)),
			"unwrap" => Ok(V::Int(i, ty)),
			_ => unsup(format!("integer method {}", name)),
		}
	}

	fn option_method(&mut self, v: V, name: &str, mut args: Vec<V>, hint: Option<&syn::Type>) -> R<V> {
		let v = self.force(v)?;
		let (en, va, p) = match v {
			V::Enum(n, va, p) => (n, va, p),
			_ => unreachable!(),
		};
		let some = &*va == "Some" || &*va == "Ok";
		let payload = |s: &mut Self| s.read(&p[0]);
		match name {
			"unwrap" | "expect" | "unwrap_unchecked" => {
				if some {
					Ok(payload(self))
				} else {
					Err(Ctl::Panic(format!("called `{}::unwrap()` on a `{}` value", en, va)))
				}
			}
			"unwrap_or" => Ok(if some { payload(self) } else { args.remove(0) }),
			"unwrap_or_default" => {
				if some {
					Ok(payload(self))
				} else {
					match hint {
						Some(h) => {
							let hh = self.resolve_type_head(h);
							self.default_of_head(&hh, hint)
						}
						None => Ok(V::Str("".into())),
					}
				}
			}
			"unwrap_or_else" => {
				if some {
					Ok(payload(self))
				} else {
					let a = if &*en == "Result" { vec![payload(self)] } else { vec![] };
					self.call_value(args.remove(0), a)
				}
			}
			"is_some" | "is_ok" => Ok(V::Bool(some)),
			"is_none" | "is_err" => Ok(V::Bool(!some)),
			"map" => {
				if some {
					let x = payload(self);
					let r = self.call_value(args.remove(0), vec![x])?;
					let c = self.cell(r);
					Ok(V::Enum(en, va, vec![c]))
				} else {
					Ok(V::Enum(en, va, p))
				}
			}
			"map_err" => {
				if some {
					Ok(V::Enum(en, va, p))
				} else {
					let x = payload(self);
					let r = self.call_value(args.remove(0), vec![x])?;
					Ok(self.mk_err(r))
				}
			}
			"map_or" => {
				if some {
					let x = payload(self);
					self.call_value(args.remove(1), vec![x])
				} else {
					Ok(args.remove(0))
				}
			}
			"map_or_else" => {
				if some {
					let x = payload(self);
					self.call_value(args.remove(1), vec![x])
				} else {
					self.call_value(args.remove(0), vec![])
				}
			}
			"and_then" => {
				if some {
					let x = payload(self);
					self.call_value(args.remove(0), vec![x])
				} else {
					Ok(V::Enum(en, va, p))
				}
			}
			"or" => Ok(if some { V::Enum(en, va, p) } else { args.remove(0) }),
			"or_else" => {
				if some {
					Ok(V::Enum(en, va, p))
				} else {
					let a = if &*en == "Result" { vec![payload(self)] } else { vec![] };
					self.call_value(args.remove(0), a)
				}
			}
			"ok" => Ok(if some { let x = payload(self); self.mk_some(x) } else { self.mk_none() }),
			"err" => Ok(if some { self.mk_none() } else { let x = payload(self); self.mk_some(x) }),
			"ok_or" => Ok(if some { let x = payload(self); self.mk_ok(x) } else { self.mk_err(args.remove(0)) }),
			"ok_or_else" => {
				if some {
					let x = payload(self);
					Ok(self.mk_ok(x))
				} else {
					let e = self.call_value(args.remove(0), vec![])?;
					Ok(self.mk_err(e))
				}
			}
			"copied" | "cloned" => {
				if some {
					let x = payload(self);
					let x = self.deref_val(&x);
					let x = self.deep(x);
					Ok(self.mk_some(x))
				} else {
					Ok(self.mk_none())
				}
			}
			"as_ref" | "as_mut" => {
				if some {
					Ok(V::Enum(en, va, vec![{
						let r = V::Ref(p[0].clone());
						self.cell(r)
					}]))
				} else {
					Ok(V::Enum(en, va, p))
				}
			}
			"clone" => {
				let v = V::Enum(en, va, p);
				Ok(self.deep(v))
			}
			"take" => unsup("Option::take needs a place"),
			"iter" | "into_iter" => {
				let items = if some { vec![payload(self)] } else { vec![] };
				Ok(self.mk_iter(items))
			}
			"filter" => {
				if some {
					let r = V::Ref(p[0].clone());
					let keep = self.call_value(args.remove(0), vec![r])?;
					if self.truth(keep)? {
						Ok(V::Enum(en, va, p))
					} else {
						Ok(self.mk_none())
					}
				} else {
					Ok(V::Enum(en, va, p))
				}
			}
			"eq" | "ne" => {
				let b = args.remove(0);
				let e = self.val_eq(V::Enum(en, va, p), b)?;
				if name == "ne" {
					self.un_not(e)
				} else {
					Ok(e)
				}
			}
			"into" => match hint {
				Some(h) => self.convert(V::Enum(en, va, p), h),
				None => Ok(V::Enum(en, va, p)),
			},
			_ => unsup(format!("{} method {}", en, name)),
		}
	}

	fn seq_method(&mut self, recv: V, name: &str, mut args: Vec<V>, hint: Option<&syn::Type>) -> R<V> {
		// the cell holding the sequence (for mutation) and its element cells
		let holder: Option<C> = match &recv {
			V::Ref(c) => Some(self.deref_cell(c)),
			_ => None,
		};
		let cs: Vec<C> = match self.deref_val(&recv) {
			V::Seq(cs) => cs,
			_ => unreachable!(),
		};
		match name {
			"len" => Ok(V::Int(cs.len() as i128, ITy::Usize)),
			"is_empty" => Ok(V::Bool(cs.is_empty())),
			"iter" | "iter_mut" => {
				let items = cs.iter().map(|c| V::Ref(c.clone())).collect();
				Ok(self.mk_iter(items))
			}
			"into_iter" | "drain" => {
				let by_ref = matches!(recv, V::Ref(_)) && name == "into_iter";
				let items: Vec<V> = if by_ref { cs.iter().map(|c| V::Ref(c.clone())).collect() } else { cs.iter().map(|c| self.read(c)).collect() };
				if name == "drain" {
					if let Some(h) = &holder {
						self.write(h, V::Seq(vec![]))?;
					}
				}
				Ok(self.mk_iter(items))
			}
			"into" | "into_boxed_slice" | "to_vec" | "to_owned" | "clone" | "into_vec" => {
				if name == "into" {
					if let Some(h) = hint {
						let hh = self.resolve_type_head(h);
						if self.is_user_type(&hh) {
							return self.convert(V::Seq(cs), h);
						}
					}
				}
				let by_ref = matches!(recv, V::Ref(_));
				if by_ref || name == "clone" || name == "to_vec" || name == "to_owned" {
					let v = V::Seq(cs);
					Ok(self.deep(v))
				} else {
					Ok(V::Seq(cs))
				}
			}
			"as_slice" | "as_ref" | "as_mut" | "as_mut_slice" | "borrow" | "by_ref" | "deref" => Ok(match recv {
				V::Ref(_) => recv,
				o => {
					let c = self.cell(o);
					V::Ref(c)
				}
			}),
			"as_ptr" | "as_mut_ptr" => {
				let h = match holder {
					Some(h) => h,
					None => self.cell(V::Seq(cs)),
				};
				let off = self.cell(V::Int(0, ITy::Usize));
				Ok(V::Struct("__ptr".into(), vec![("seq".into(), h), ("off".into(), off)]))
			}
			"first" | "last" | "first_mut" | "last_mut" => {
				let c = if name.starts_with("first") { cs.first() } else { cs.last() };
				Ok(match c {
					Some(c) => {
						let r = V::Ref(c.clone());
						self.mk_some(r)
					}
					None => self.mk_none(),
				})
			}
			"get" | "get_mut" | "get_unchecked" | "get_unchecked_mut" => {
				let unchecked = name.contains("unchecked");
				let ix = self.deref_val(&args.remove(0));
				match ix {
					V::Range(a, b, incl) => {
						let (lo, hi) = self.range_bounds(a, b, incl, cs.len())?;
						if lo > hi || hi > cs.len() {
							if unchecked {
								return Err(Ctl::UB(format!("get_unchecked range {}..{} out of bounds (len {})", lo, hi, cs.len())));
							}
							return Ok(self.mk_none());
						}
						let sub = V::Seq(cs[lo..hi].to_vec());
						let c = self.cell(sub);
						let r = V::Ref(c);
						Ok(if unchecked { r } else { self.mk_some(r) })
					}
					iv => {
						let (i, _) = self.concretize_int(iv)?;
						if i < 0 || i as usize >= cs.len() {
							if unchecked {
								return Err(Ctl::UB(format!("get_unchecked index {} out of bounds (len {})", i, cs.len())));
							}
							return Ok(self.mk_none());
						}
						let r = V::Ref(cs[i as usize].clone());
						Ok(if unchecked { r } else { self.mk_some(r) })
					}
				}
			}
			"push" | "push_back" => {
				let h = holder.ok_or(Ctl::Unsupported("push on a temporary".into()))?;
				let mut n = cs.clone();
				let v = args.remove(0);
				n.push(self.cell(v));
				self.write(&h, V::Seq(n))?;
				Ok(V::Unit)
			}
			"pop" => {
				let h = holder.ok_or(Ctl::Unsupported("pop on a temporary".into()))?;
				let mut n = cs.clone();
				let r = n.pop();
				self.write(&h, V::Seq(n))?;
				Ok(match r {
					Some(c) => {
						let v = self.read(&c);
						self.mk_some(v)
					}
					None => self.mk_none(),
				})
			}
			"insert" => {
				let h = holder.ok_or(Ctl::Unsupported("insert on a temporary".into()))?;
				let (i, _) = self.concretize_int(args.remove(0))?;
				let v = args.remove(0);
				let mut n = cs.clone();
				if i as usize > n.len() {
					return Err(Ctl::Panic("insertion index out of bounds".into()));
				}
				n.insert(i as usize, self.cell(v));
				self.write(&h, V::Seq(n))?;
				Ok(V::Unit)
			}
			"remove" => {
				let h = holder.ok_or(Ctl::Unsupported("remove on a temporary".into()))?;
				let (i, _) = self.concretize_int(args.remove(0))?;
				let mut n = cs.clone();
				if i as usize >= n.len() {
					return Err(Ctl::Panic("removal index out of bounds".into()));
				}
				let c = n.remove(i as usize);
				self.write(&h, V::Seq(n))?;
				Ok(self.read(&c))
			}
			"truncate" | "clear" => {
				let h = holder.ok_or(Ctl::Unsupported("truncate on a temporary".into()))?;
				let k = if name == "clear" { 0 } else { self.concretize_int(args.remove(0))?.0 as usize };
				let mut n = cs.clone();
				n.truncate(k);
				self.write(&h, V::Seq(n))?;
				Ok(V::Unit)
			}
			"extend" | "extend_from_slice" => {
				let h = holder.ok_or(Ctl::Unsupported("extend on a temporary".into()))?;
				let items = self.materialize(args.remove(0))?;
				let mut n = cs.clone();
				for it in items {
					let v = self.deref_val(&it);
					let v = self.deep(v);
					n.push(self.cell(v));
				}
				self.write(&h, V::Seq(n))?;
				Ok(V::Unit)
			}
			"copy_within" => {
				let r = self.deref_val(&args.remove(0));
				let (dest, _) = self.concretize_int(args.remove(0))?;
				let (lo, hi) = match r {
					V::Range(a, b, incl) => self.range_bounds(a, b, incl, cs.len())?,
					_ => return unsup("copy_within range"),
				};
				if lo > hi || hi > cs.len() || dest as usize + (hi - lo) > cs.len() {
					return Err(Ctl::Panic(format!("copy_within out of bounds: {}..{} -> {} (len {})", lo, hi, dest, cs.len())));
				}
				let vals: Vec<V> = (lo..hi).map(|i| cs[i].v.borrow().clone()).collect();
				for (k, v) in vals.into_iter().enumerate() {
					let dv = self.deep(v);
					self.write(&cs[dest as usize + k], dv)?;
				}
				Ok(V::Unit)
			}
			"copy_from_slice" | "clone_from_slice" => {
				let src = match self.deref_val(&args.remove(0)) {
					V::Seq(s) => s,
					_ => return unsup("copy_from_slice source"),
				};
				if src.len() != cs.len() {
					return Err(Ctl::Panic("source slice length does not match destination slice length".into()));
				}
				for (d, s) in cs.iter().zip(src.iter()) {
					let v = self.read(s);
					self.write(d, v)?;
				}
				Ok(V::Unit)
			}
			"fill" => {
				let v = args.remove(0);
				for d in cs.iter() {
					let dv = self.deep(v.clone());
					self.write(d, dv)?;
				}
				Ok(V::Unit)
			}
			"swap" => {
				let (a, _) = self.concretize_int(args.remove(0))?;
				let (b, _) = self.concretize_int(args.remove(0))?;
				if a as usize >= cs.len() || b as usize >= cs.len() {
					return Err(Ctl::Panic("swap index out of bounds".into()));
				}
				let va = self.read(&cs[a as usize]);
				let vb = self.read(&cs[b as usize]);
				self.write(&cs[a as usize], vb)?;
				self.write(&cs[b as usize], va)?;
				Ok(V::Unit)
			}
			"reverse" => {
				let vals: Vec<V> = cs.iter().map(|c| self.read(c)).collect();
				for (c, v) in cs.iter().zip(vals.into_iter().rev()) {
					self.write(c, v)?;
				}
				Ok(V::Unit)
			}
			"contains" => {
				let x = self.deref_val(&args.remove(0));
				let mut acc = V::Bool(false);
				for c in cs.iter() {
					let v = c.v.borrow().clone();
					let e = self.bin_cmp("==", v, x.clone())?;
					let (a, b) = (self.bool_term(&acc), self.bool_term(&e));
					let t = self.tm.or(a, b);
					acc = self.mk_bool(t);
				}
				Ok(acc)
			}
			"windows" => {
				let (k, _) = self.concretize_int(args.remove(0))?;
				let k = k as usize;
				let mut items = Vec::new();
				if k > 0 && cs.len() >= k {
					for i in 0..=cs.len() - k {
						let c = self.cell(V::Seq(cs[i..i + k].to_vec()));
						items.push(V::Ref(c));
					}
				}
				Ok(self.mk_iter(items))
			}
			"chunks" | "chunks_exact" => {
				let (k, _) = self.concretize_int(args.remove(0))?;
				let k = k as usize;
				if k == 0 {
					return Err(Ctl::Panic("chunk size must be non-zero".into()));
				}
				let mut items = Vec::new();
				let mut i = 0;
				while i < cs.len() {
					let e = (i + k).min(cs.len());
					if name == "chunks_exact" && e - i < k {
						break;
					}
					let c = self.cell(V::Seq(cs[i..e].to_vec()));
					items.push(V::Ref(c));
					i = e;
				}
				Ok(self.mk_iter(items))
			}
			"split_at" | "split_at_mut" => {
				let (k, _) = self.concretize_int(args.remove(0))?;
				let k = k as usize;
				if k > cs.len() {
					return Err(Ctl::Panic("mid > len".into()));
				}
				let a = self.cell(V::Seq(cs[..k].to_vec()));
				let b = self.cell(V::Seq(cs[k..].to_vec()));
				let (ra, rb) = (self.cell(V::Ref(a)), self.cell(V::Ref(b)));
				Ok(V::Tuple(vec![ra, rb]))
			}
			"sort_unstable_by" | "sort_by" => {
				// insertion sort driven by the user comparator (forks on symbolic comparisons)
				let cmp = args.remove(0);
				let mut vals: Vec<V> = cs.iter().map(|c| self.read(c)).collect();
				for i in 1..vals.len() {
					let mut j = i;
					while j > 0 {
						let a = self.cell(vals[j - 1].clone());
						let b = self.cell(vals[j].clone());
						let o = self.call_value(cmp.clone(), vec![V::Ref(a), V::Ref(b)])?;
						let o = self.force(o)?;
						let greater = match o {
							V::Enum(_, va, _) => &*va == "Greater",
							_ => return unsup("comparator result"),
						};
						if greater {
							vals.swap(j - 1, j);
							j -= 1;
						} else {
							break;
						}
					}
				}
				for (c, v) in cs.iter().zip(vals.into_iter()) {
					self.write(c, v)?;
				}
				Ok(V::Unit)
			}
			"partition_point" | "binary_search_by" => {
				// the standard library's binary search (size-halving form), driven by the user closure
				let f = args.remove(0);
				let mut size = cs.len();
				if size == 0 {
					return if name == "partition_point" { Ok(V::Int(0, ITy::Usize)) } else { Ok(self.mk_err(V::Int(0, ITy::Usize))) };
				}
				let mut base = 0usize;
				let cmp = |s: &mut Self, i: usize, f: &V| -> R<String> {
					let r = s.call_value(f.clone(), vec![V::Ref(cs[i].clone())])?;
					if name == "partition_point" {
						Ok(if s.truth(r)? { "Less".into() } else { "Greater".into() })
					} else {
						let r = s.force(r)?;
						match r {
							V::Enum(_, va, _) => Ok(va.to_string()),
							_ => unsup("comparator result"),
						}
					}
				};
				while size > 1 {
					let half = size / 2;
					let mid = base + half;
					let c = cmp(self, mid, &f)?;
					if c != "Greater" {
						base = mid;
					}
					size -= half;
				}
				let c = cmp(self, base, &f)?;
				if name == "partition_point" {
					Ok(V::Int((base + (c == "Less") as usize) as i128, ITy::Usize))
				} else if c == "Equal" {
					Ok(self.mk_ok(V::Int(base as i128, ITy::Usize)))
				} else {
					Ok(self.mk_err(V::Int((base + (c == "Less") as usize) as i128, ITy::Usize)))
				}
			}
			"rotate_left" | "rotate_right" => {
				let (k, _) = self.concretize_int(args.remove(0))?;
				let n = cs.len();
				if k as usize > n {
					return Err(Ctl::Panic("rotate: mid > len".into()));
				}
				let vals: Vec<V> = cs.iter().map(|c| self.read(c)).collect();
				for (i, c) in cs.iter().enumerate() {
					let src = if name == "rotate_left" { (i + k as usize) % n.max(1) } else { (i + n - k as usize) % n.max(1) };
					let v = vals[src].clone();
					self.write(c, v)?;
				}
				Ok(V::Unit)
			}
			"iter().rev" => unsup("x"),
			"eq" | "ne" => {
				let b = args.remove(0);
				let e = self.val_eq(V::Seq(cs), b)?;
				if name == "ne" {
					self.un_not(e)
				} else {
					Ok(e)
				}
			}
			"join" => Ok(V::Str("<joined>".into())),
			_ => {
				// iterator adaptors called directly on something iterable are not allowed in Rust; report
				unsup(format!("slice/Vec method {}", name))
			}
		}
	}

	fn iter_method(&mut self, it: V, name: &str, mut args: Vec<V>, hint: Option<&syn::Type>) -> R<V> {
		if name == "contains" {
			if let V::Range(a, b, incl) = &it {
				let x = self.deref_val(&args[0]);
				let mut acc = V::Bool(true);
				if let Some(lo) = a {
					let c = self.bin_cmp("<=", (**lo).clone(), x.clone())?;
					acc = self.bool_and(acc, c)?;
				}
				if let Some(hi) = b {
					let c = self.bin_cmp(if *incl { "<=" } else { "<" }, x, (**hi).clone())?;
					acc = self.bool_and(acc, c)?;
				}
				return Ok(acc);
			}
		}
		// unbounded ranges only support zip / take / next-less adaptors
		if let V::Range(Some(a), None, _) = &it {
			let (start, ty) = self.concretize_int((**a).clone())?;
			match name {
				"zip" => {
					let other = self.materialize(args.remove(0))?;
					let mut items = Vec::new();
					for (k, o) in other.into_iter().enumerate() {
						let idx = start + k as i128;
						let (_, hi) = ty.range();
						if idx > hi {
							return Err(Ctl::Panic("attempt to add with overflow (range iterator)".into()));
						}
						let (ca, cb) = (self.cell(V::Int(idx, ty)), self.cell(o));
						items.push(V::Tuple(vec![ca, cb]));
					}
					return Ok(self.mk_iter(items));
				}
				"take" => {
					let (k, _) = self.concretize_int(args.remove(0))?;
					let items = (0..k).map(|j| V::Int(start + j, ty)).collect();
					return Ok(self.mk_iter(items));
				}
				_ => return unsup(format!("unbounded range method {}", name)),
			}
		}
		if name == "next" || name == "next_back" {
			if let V::Iter(q) = &it {
				let x = if name == "next" { q.borrow_mut().pop_front() } else { q.borrow_mut().pop_back() };
				if !self.spec_marks.is_empty() {
					return Err(Ctl::Impure("iterator consumed in a speculative branch".into()));
				}
				return Ok(match x {
					Some(x) => self.mk_some(x),
					None => self.mk_none(),
				});
			}
		}
		if name == "len" || name == "size_hint" {
			if let V::Iter(q) = &it {
				let n = q.borrow().len() as i128;
				if name == "len" {
					return Ok(V::Int(n, ITy::Usize));
				}
				let s = self.mk_some(V::Int(n, ITy::Usize));
				let (a, b) = (self.cell(V::Int(n, ITy::Usize)), self.cell(s));
				return Ok(V::Tuple(vec![a, b]));
			}
		}
		if name == "by_ref" || name == "into_iter" || name == "iter" {
			return Ok(it);
		}
		let items = self.materialize(it)?;
		match name {
			"rev" => {
				let mut v = items;
				v.reverse();
				Ok(self.mk_iter(v))
			}
			"copied" | "cloned" => {
				let mut out = Vec::new();
				for x in items {
					let d = self.deref_val(&x);
					out.push(self.deep(d));
				}
				Ok(self.mk_iter(out))
			}
			"enumerate" => {
				let mut out = Vec::new();
				for (i, x) in items.into_iter().enumerate() {
					let (a, b) = (self.cell(V::Int(i as i128, ITy::Usize)), self.cell(x));
					out.push(V::Tuple(vec![a, b]));
				}
				Ok(self.mk_iter(out))
			}
			"zip" => {
				let arg = args.remove(0);
				let other = match self.deref_val(&arg) {
					V::Range(Some(a), None, _) => {
						let (start, ty) = self.concretize_int(*a)?;
						let (_, hi) = ty.range();
						let mut v = Vec::new();
						for k in 0..items.len() {
							let idx = start + k as i128;
							if idx > hi {
								return Err(Ctl::Panic("attempt to add with overflow (range iterator)".into()));
							}
							v.push(V::Int(idx, ty));
						}
						v
					}
					_ => self.materialize(arg)?,
				};
				let mut out = Vec::new();
				for (x, y) in items.into_iter().zip(other.into_iter()) {
					let (a, b) = (self.cell(x), self.cell(y));
					out.push(V::Tuple(vec![a, b]));
				}
				Ok(self.mk_iter(out))
			}
			"chain" => {
				let other = self.materialize(args.remove(0))?;
				let mut v = items;
				v.extend(other);
				Ok(self.mk_iter(v))
			}
			"skip" => {
				let (k, _) = self.concretize_int(args.remove(0))?;
				Ok(self.mk_iter(items.into_iter().skip(k as usize).collect()))
			}
			"take" => {
				let (k, _) = self.concretize_int(args.remove(0))?;
				Ok(self.mk_iter(items.into_iter().take(k as usize).collect()))
			}
			"step_by" => {
				let (k, _) = self.concretize_int(args.remove(0))?;
				Ok(self.mk_iter(items.into_iter().step_by(k as usize).collect()))
			}
			"map" => {
				let f = args.remove(0);
				let mut out = Vec::new();
				for x in items {
					out.push(self.call_value(f.clone(), vec![x])?);
				}
				Ok(self.mk_iter(out))
			}
			"inspect" => {
				let f = args.remove(0);
				for x in items.iter() {
					let r = match x {
						V::Ref(_) => x.clone(),
						o => {
							let c = self.cell(o.clone());
							V::Ref(c)
						}
					};
					self.call_value(f.clone(), vec![r])?;
				}
				Ok(self.mk_iter(items))
			}
			"filter" => {
				let f = args.remove(0);
				let mut out = Vec::new();
				for x in items {
					let r = {
						let c = self.cell(x.clone());
						V::Ref(c)
					};
					let k = self.call_value(f.clone(), vec![r])?;
					if self.truth(k)? {
						out.push(x);
					}
				}
				Ok(self.mk_iter(out))
			}
			"filter_map" => {
				let f = args.remove(0);
				let mut out = Vec::new();
				for x in items {
					let r = self.call_value(f.clone(), vec![x])?;
					let r = self.force(r)?;
					match r {
						V::Enum(_, va, p) if &*va == "Some" => out.push(self.read(&p[0])),
						_ => {}
					}
				}
				Ok(self.mk_iter(out))
			}
			"for_each" => {
				let f = args.remove(0);
				for x in items {
					self.call_value(f.clone(), vec![x])?;
				}
				Ok(V::Unit)
			}
			"fold" => {
				let f = args.remove(1);
				let mut acc = args.remove(0);
				for x in items {
					acc = self.call_value(f.clone(), vec![acc, x])?;
				}
				Ok(acc)
			}
			"reduce" => {
				let f = args.remove(0);
				let mut itx = items.into_iter();
				let mut acc = match itx.next() {
					Some(a) => a,
					None => return Ok(self.mk_none()),
				};
				for x in itx {
					acc = self.call_value(f.clone(), vec![acc, x])?;
				}
				Ok(self.mk_some(acc))
			}
			"sum" | "product" => {
				let mut itx = items.into_iter();
				let first = match itx.next() {
					Some(a) => self.deref_val(&a),
					None => {
						return match hint {
							Some(h) => {
								let hh = self.resolve_type_head(h);
								let z = self.default_of_head(&hh, hint)?;
								if name == "product" {
									self.arith("+", z, V::Int(1, ITy::Unk))
								} else {
									Ok(z)
								}
							}
							None => Ok(if name == "sum" { self.neg_zero() } else { V::F(self.fl_from_i(1)) }),
						}
					}
				};
				// std sums start from the additive identity: 0 + x0 + x1 ...
				let mut acc = match &first {
					V::F(_) => {
						// std: the float additive identity used by Sum is -0.0 (so that summing [-0.0] gives -0.0)
						let z = if name == "sum" { self.neg_zero() } else { V::F(self.fl_from_i(1)) };
						self.arith(if name == "sum" { "+" } else { "*" }, z, first)?
					}
					_ => first,
				};
				for x in itx {
					acc = self.arith(if name == "sum" { "+" } else { "*" }, acc, x)?;
				}
				Ok(acc)
			}
			"count" => Ok(V::Int(items.len() as i128, ITy::Usize)),
			"last" => Ok(match items.into_iter().last() {
				Some(x) => self.mk_some(x),
				None => self.mk_none(),
			}),
			"nth" => {
				let (k, _) = self.concretize_int(args.remove(0))?;
				Ok(match items.into_iter().nth(k as usize) {
					Some(x) => self.mk_some(x),
					None => self.mk_none(),
				})
			}
			"collect" => {
				let cs = items.into_iter().map(|x| self.cell(x)).collect();
				let v = V::Seq(cs);
				if let Some(h) = hint {
					let hh = self.resolve_type_head(h);
					if self.is_user_type(&hh) {
						return self.convert(v, h);
					}
				}
				Ok(v)
			}
			"all" | "any" => {
				let f = args.remove(0);
				let mut acc = V::Bool(name == "all");
				for x in items {
					let k = self.call_value(f.clone(), vec![x])?;
					let k = self.deref_val(&k);
					let (a, b) = (self.bool_term(&acc), self.bool_term(&k));
					let t = if name == "all" { self.tm.and(a, b) } else { self.tm.or(a, b) };
					acc = self.mk_bool(t);
					// short-circuit on concrete results only
					if let V::Bool(b) = acc {
						if b != (name == "all") {
							break;
						}
					}
				}
				Ok(acc)
			}
			"position" | "find" => {
				let f = args.remove(0);
				for (i, x) in items.into_iter().enumerate() {
					let arg = if name == "find" {
						let c = self.cell(x.clone());
						V::Ref(c)
					} else {
						x.clone()
					};
					let k = self.call_value(f.clone(), vec![arg])?;
					if self.truth(k)? {
						return Ok(if name == "find" { self.mk_some(x) } else { self.mk_some(V::Int(i as i128, ITy::Usize)) });
					}
				}
				Ok(self.mk_none())
			}
			"max_by" | "min_by" => {
				let f = args.remove(0);
				let mut best: Option<V> = None;
				for x in items {
					best = Some(match best {
						None => x,
						Some(b) => {
							let (ca, cb) = (self.cell(b.clone()), self.cell(x.clone()));
							let o = self.call_value(f.clone(), vec![V::Ref(ca), V::Ref(cb)])?;
							let o = self.force(o)?;
							let va = match &o {
								V::Enum(_, va, _) => va.to_string(),
								_ => return unsup("comparator result"),
							};
							// max_by returns the last max; min_by the first min
							if name == "max_by" {
								if va == "Greater" { b } else { x }
							} else if va == "Greater" {
								x
							} else {
								b
							}
						}
					});
				}
				Ok(match best {
					Some(b) => self.mk_some(b),
					None => self.mk_none(),
				})
			}
			"unzip" => {
				let mut a = Vec::new();
				let mut b = Vec::new();
				for x in items {
					match x {
						V::Tuple(cs) if cs.len() == 2 => {
							a.push(cs[0].clone());
							b.push(cs[1].clone());
						}
						_ => return unsup("unzip of non-pairs"),
					}
				}
				let (ca, cb) = (self.cell(V::Seq(a)), self.cell(V::Seq(b)));
				Ok(V::Tuple(vec![ca, cb]))
			}
			_ => unsup(format!("iterator method {}", name)),
		}
	}

	// ------------------------------------------------------------------ intrinsics
	pub fn intrinsic(&mut self, name: &str, c: &syn::ExprCall) -> R<V> {
		let mut args = Vec::new();
		for a in &c.args {
			args.push(self.eval(a)?);
		}
		let s = |v: &V| -> String {
			match v {
				V::Str(s) => s.to_string(),
				o => o.brief(),
			}
		};
		match name {
			"val" => {
				let n = s(&args[0]);
				self.fresh_float(&n)
			}
			"val_i" => {
				let i = self.concretize_int(args[1].clone())?.0;
				let n = format!("{}_{}", s(&args[0]), i);
				self.fresh_float(&n)
			}
			"param" => {
				let n = s(&args[0]);
				match self.params.get(&n) {
					Some(v) => {
						let i: i128 = v.parse().map_err(|_| Ctl::Stop(format!("parameter {} is not an integer", n)))?;
						Ok(V::Int(i, ITy::I64))
					}
					None => Err(Ctl::Stop(format!("missing parameter {}", n))),
				}
			}
			"param_or" => {
				let n = s(&args[0]);
				match self.params.get(&n) {
					Some(v) => {
						let i: i128 = v.parse().map_err(|_| Ctl::Stop(format!("parameter {} is not an integer", n)))?;
						Ok(V::Int(i, ITy::I64))
					}
					None => Ok(args[1].clone()),
				}
			}
			"param_str" => {
				let n = s(&args[0]);
				match self.params.get(&n) {
					Some(v) => Ok(V::Str(v.as_str().into())),
					None => Err(Ctl::Stop(format!("missing parameter {}", n))),
				}
			}
			"assume" => {
				let v = self.deref_val(&args[0]);
				match v {
					V::Bool(true) => Ok(V::Unit),
					V::Bool(false) => Err(Ctl::Infeasible),
					V::SBool(t) => {
						if !self.spec_marks.is_empty() {
							return Err(Ctl::Impure("assume in speculation".into()));
						}
						self.assume(t)?;
						// an assumption that contradicts the path ends it
						if self.pc_feasible()? {
							Ok(V::Unit)
						} else {
							Err(Ctl::Infeasible)
						}
					}
					o => unsup(format!("assume on {}", o.brief())),
				}
			}
			"check" => {
				let label = s(&args[0]);
				let v = self.deref_val(&args[1]);
				if self.mode == Mode::Concrete {
					self.outputs.push((format!("check:{}", label), v.brief()));
					return Ok(V::Unit);
				}
				self.check(&label, v)?;
				Ok(V::Unit)
			}
			"close" => {
				// close(label, a, b, scale): exact equality over the reals; concrete mode records a
				let label = s(&args[0]);
				let a = self.deref_val(&args[1]);
				let b = self.deref_val(&args[2]);
				if self.mode == Mode::Concrete {
					let bits = |v: &V| match v {
						V::F(Fl::C(x)) => format!("{:016x}", x.to_bits()),
						o => o.brief(),
					};
					self.outputs.push((format!("close:{}", label), bits(&a)));
					return Ok(V::Unit);
				}
				let scale = self.deref_val(&args[3]);
				self.check_close(&label, a, b, scale)?;
				Ok(V::Unit)
			}
			"out" => {
				let label = s(&args[0]);
				let v = self.deref_val(&args[1]);
				let txt = match &v {
					V::F(Fl::C(x)) => format!("{:016x}", x.to_bits()),
					V::Int(i, _) => format!("{}", i),
					o => o.brief(),
				};
				self.outputs.push((format!("out:{}", label), txt));
				Ok(V::Unit)
			}
			"bits_eq" => {
				// bit equality of two floats: fp mode (value, zero-sign); real mode value equality
				let a = self.deref_val(&args[0]);
				let b = self.deref_val(&args[1]);
				match (a, b) {
					(V::F(Fl::C(x)), V::F(Fl::C(y))) => Ok(V::Bool(x.to_bits() == y.to_bits())),
					(V::F(x), V::F(y)) => {
						let t = self.bits_eq(x, y);
						Ok(self.mk_bool(t))
					}
					_ => unsup("bits_eq arguments"),
				}
			}
			"is_concrete" => Ok(V::Bool(self.mode == Mode::Concrete)),
			"mode_fp" => Ok(V::Bool(self.mode == Mode::Fp)),
			"stub" => {
				// rsx::stub("Type", "fn", "harness_fn")
				self.stubs.insert((s(&args[0]), s(&args[1])), s(&args[2]));
				Ok(V::Unit)
			}
			"fresh_bool" => {
				let n = s(&args[0]);
				let t = self.tm.var(&n, Sort::Bool);
				if self.input_set.insert(n.clone()) {
					self.inputs.push((n, Sort::Bool));
				}
				Ok(V::SBool(t))
			}
			"same_term" => {
				// syntactic identity of two symbolic values after hash-consing
				let a = self.deref_val(&args[0]);
				let b = self.deref_val(&args[1]);
				Ok(V::Bool(self.same_term(&a, &b)))
			}
			"strict_div" => {
				self.div_zero_forks = true;
				Ok(V::Unit)
			}
			"serde_roundtrip" | "serde_from_parts" if !self.prog.features.contains("serde") || !self.prog.impls.contains_key(&("Window".to_string(), "deserialize".to_string())) => {
				unsup("rsx::serde_* needs --features serde (Window's hand-written Serialize/Deserialize must be in the program)")
			}
			"serde_roundtrip" => {
				// Option<T>: Some(restored) / None when deserialization returned an error
				let tok = self.serde_ser_tok(&args[0])?;
				match self.serde_de_tok(&tok)? {
					Ok(v) => Ok(self.mk_some(v)),
					Err(_) => Ok(self.mk_none()),
				}
			}
			"serde_from_parts" => {
				// adversarial serialized Window: rsx::serde_window(&buf_vec, index) -> Option<Window<T>>
				let buf = self.deref_val(&args[0]);
				let bt = self.serde_ser_tok(&buf)?;
				let idx = self.deref_val(&args[1]);
				let k1 = self.cell(V::Str("buf".into()));
				let v1 = self.cell(bt);
				let k2 = self.cell(V::Str("index".into()));
				let v2 = self.cell(idx);
				let e1 = self.cell(V::Tuple(vec![k1, v1]));
				let e2 = self.cell(V::Tuple(vec![k2, v2]));
				let map = self.cell(V::Seq(vec![e1, e2]));
				let tyc = self.cell(V::Str("Window".into()));
				let tok = V::Struct("__Tok".into(), vec![("ty".into(), tyc), ("map".into(), map)]);
				match self.serde_de_tok(&tok)? {
					Ok(v) => Ok(self.mk_some(v)),
					Err(_) => Ok(self.mk_none()),
				}
			}
			"debug" => {
				eprintln!("[rsx::debug] {}", args.iter().map(|a| self.deref_val(a).brief()).collect::<Vec<_>>().join(" "));
				Ok(V::Unit)
			}
			o => unsup(format!("intrinsic rsx::{}", o)),
		}
	}

	/// exact equality over the reals; on a counterexample ask for a robust witness
	/// (|a-b| > 2^-30 (1+scale), all inputs within [-1024, 1024]) so that the native replay is meaningful
	pub fn check_close(&mut self, label: &str, a: V, b: V, scale: V) -> R<()> {
		let e = self.bin_cmp("==", a.clone(), b.clone())?;
		let n0 = self.events.len();
		let sat0 = self.sat_count;
		self.check(label, e)?;
		if self.events.len() == n0 || self.events[self.events.len() - 1].result != "sat" {
			return Ok(());
		}
		let _ = sat0;
		let (fa, fb) = match (a, b) {
			(V::F(x), V::F(y)) => (x, y),
			_ => return Ok(()),
		};
		let (ra, _) = self.fl_parts(fa);
		let (rb, _) = self.fl_parts(fb);
		let sc = match scale {
			V::F(Fl::S { r, .. }) => self.tm.as_rat(r).map(|q| q.to_f64()).unwrap_or(1.0),
			V::F(Fl::C(x)) => x,
			V::Int(i, _) => i as f64,
			_ => 1.0,
		};
		let k = (1.0 + sc.abs()).ceil() as i128;
		let delta = self.tm.rat(Rat::new(k, 1i128 << 30).unwrap());
		let d1 = self.tm.sub(ra, rb);
		let d2 = self.tm.sub(rb, ra);
		let c1 = self.tm.lt(delta, d1);
		let c2 = self.tm.lt(delta, d2);
		let mut q = self.tm.or(c1, c2);
		let lo = self.tm.real_i(-1024);
		let hi = self.tm.real_i(1024);
		let inputs = self.inputs.clone();
		for (n, s) in &inputs {
			if *s == Sort::Real {
				let v = self.tm.var(n, Sort::Real);
				let a1 = self.tm.le(lo, v);
				let a2 = self.tm.le(v, hi);
				q = self.tm.and(q, a1);
				q = self.tm.and(q, a2);
			}
		}
		let sol = self.sol.as_mut().unwrap();
		let r = sol.check_with(&self.tm, q, true);
		let last = self.events.len() - 1;
		match r {
			crate::solver::Res::Sat => {
				if let Some(m) = sol.model(&self.tm, q, true, &inputs) {
					self.events[last].model = m;
					self.events[last].kind = "close-robust".into();
				}
			}
			crate::solver::Res::Unsat => {
				self.events[last].kind = "close-nonrobust".into();
			}
			crate::solver::Res::Unknown => {
				self.events[last].kind = "close-nonrobust".into();
			}
		}
		Ok(())
	}

	pub fn bits_eq(&mut self, x: Fl, y: Fl) -> crate::term::T {
		let (ra, za) = self.fl_parts(x);
		let (rb, zb) = self.fl_parts(y);
		let e = self.tm.eq(ra, rb);
		if self.mode != Mode::Fp {
			return e;
		}
		let zero = self.tm.real_i(0);
		let isz = self.tm.eq(ra, zero);
		let nz = self.tm.not(isz);
		let zs = self.tm.eq(za, zb);
		let o = self.tm.or(nz, zs);
		self.tm.and(e, o)
	}

	pub fn same_term(&self, a: &V, b: &V) -> bool {
		match (a, b) {
			(V::F(Fl::S { r: r1, z: z1 }), V::F(Fl::S { r: r2, z: z2 })) => r1 == r2 && z1 == z2,
			(V::F(Fl::C(x)), V::F(Fl::C(y))) => x.to_bits() == y.to_bits(),
			(V::Int(x, _), V::Int(y, _)) => x == y,
			(V::SInt(x, _), V::SInt(y, _)) => x == y,
			(V::Bool(x), V::Bool(y)) => x == y,
			(V::SBool(x), V::SBool(y)) => x == y,
			(V::Unit, V::Unit) => true,
			(V::Str(x), V::Str(y)) => x == y,
			(V::Tuple(x), V::Tuple(y)) | (V::Seq(x), V::Seq(y)) => x.len() == y.len() && x.iter().zip(y.iter()).all(|(p, q)| self.same_term(&p.v.borrow(), &q.v.borrow())),
			(V::Struct(n1, x), V::Struct(n2, y)) => n1 == n2 && x.len() == y.len() && x.iter().zip(y.iter()).all(|((_, p), (_, q))| self.same_term(&p.v.borrow(), &q.v.borrow())),
			(V::Enum(n1, v1, x), V::Enum(n2, v2, y)) => n1 == n2 && v1 == v2 && x.len() == y.len() && x.iter().zip(y.iter()).all(|(p, q)| self.same_term(&p.v.borrow(), &q.v.borrow())),
			(V::Ite(c1, a1, b1), V::Ite(c2, a2, b2)) => c1 == c2 && self.same_term(a1, a2) && self.same_term(b1, b2),
			(V::Ref(x), o) => self.same_term(&x.v.borrow(), o),
			(o, V::Ref(y)) => self.same_term(o, &y.v.borrow()),
			_ => false,
		}
	}
}
