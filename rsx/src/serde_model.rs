//! A model of serde's data flow for `rsx::serde_roundtrip(&x)`.
//!
//! The hand-written `Serialize` / `Deserialize` impls of the repository (Window, SMM) are interpreted
//! from their source; everything that `#[derive(Serialize, Deserialize)]` generates is modelled as the
//! field-wise identity (that the remaining types derive both traits without field attributes is the
//! `serde_is_derived` scan's obligation, that the derive writes and reads back every field is decided by
//! the Kani harnesses of C13). Tokens:
//!   * a value whose type has a manual impl   -> Struct("__Tok", [ty: Str, map: Seq<(Str, token)>])
//!     built by the real `serialize` body through `serialize_struct / serialize_field / end`
//!   * any other value                        -> the same shape with its children replaced by tokens
//! Deserialization walks the token: "__Tok" calls `<ty>::deserialize(__Deserializer{tok})` (the real
//! body); inside it `<DerivedStruct>::deserialize(deserializer)` rebuilds that struct from the map by
//! field name (missing field => error).
use crate::interp::*;
use crate::value::*;
use std::rc::Rc;

impl<'p> Interp<'p> {
	fn has_manual(&self, ty: &str, item: &str) -> bool {
		self.prog.impls.contains_key(&(ty.to_string(), item.to_string()))
	}

	pub fn serde_ser_tok(&mut self, v: &V) -> R<V> {
		let v = self.deref_val(v);
		Ok(match v {
			V::Struct(n, fs) => {
				if self.has_manual(&n, "serialize") {
					let holder = self.cell(V::Struct(n.clone(), fs));
					let ser = V::Struct("__Serializer".into(), vec![]);
					let r = self.call_method_value(V::Ref(holder), "serialize", vec![ser], None)?;
					match r {
						V::Enum(_, va, p) if &*va == "Ok" => p[0].v.borrow().clone(),
						o => return unsup(format!("manual Serialize of {} returned {}", n, o.brief())),
					}
				} else {
					let mut out = Vec::new();
					for (k, c) in fs.iter() {
						let inner = c.v.borrow().clone();
						let t = self.serde_ser_tok(&inner)?;
						out.push((k.clone(), self.cell(t)));
					}
					V::Struct(n, out)
				}
			}
			V::Enum(n, va, p) => {
				let mut out = Vec::new();
				for c in p.iter() {
					let inner = c.v.borrow().clone();
					let t = self.serde_ser_tok(&inner)?;
					out.push(self.cell(t));
				}
				V::Enum(n, va, out)
			}
			V::Tuple(p) => {
				let mut out = Vec::new();
				for c in p.iter() {
					let inner = c.v.borrow().clone();
					let t = self.serde_ser_tok(&inner)?;
					out.push(self.cell(t));
				}
				V::Tuple(out)
			}
			V::Seq(p) => {
				let mut out = Vec::new();
				for c in p.iter() {
					let inner = c.v.borrow().clone();
					let t = self.serde_ser_tok(&inner)?;
					out.push(self.cell(t));
				}
				V::Seq(out)
			}
			V::Ite(c, a, b) => {
				let ta = self.serde_ser_tok(&a)?;
				let tb = self.serde_ser_tok(&b)?;
				V::Ite(c, Rc::new(ta), Rc::new(tb))
			}
			V::Closure(_) | V::FnPath(..) | V::Iter(_) | V::Range(..) | V::Moved => return unsup(format!("serde model: cannot serialize {}", v.brief())),
			o => o,
		})
	}

	/// Ok(Ok(value)) / Ok(Err(serde error value))
	pub fn serde_de_tok(&mut self, v: &V) -> R<Result<V, V>> {
		let v = self.deref_val(v);
		macro_rules! kids {
			($p:expr) => {{
				let mut out = Vec::new();
				for c in $p.iter() {
					let inner = c.v.borrow().clone();
					match self.serde_de_tok(&inner)? {
						Ok(x) => out.push(self.cell(x)),
						Err(e) => return Ok(Err(e)),
					}
				}
				out
			}};
		}
		Ok(Ok(match v {
			V::Struct(n, fs) if &*n == "__Tok" => {
				let ty = match fs.iter().find(|(k, _)| &**k == "ty").map(|(_, c)| c.v.borrow().clone()) {
					Some(V::Str(s)) => s.to_string(),
					_ => return unsup("serde model: malformed token"),
				};
				if !self.has_manual(&ty, "deserialize") {
					return unsup(format!("serde model: {} has a manual Serialize but no manual Deserialize", ty));
				}
				let de = V::Struct("__Deserializer".into(), vec![("tok".into(), self.cell(V::Struct(n, fs)))]);
				let r = self.call_static_args(&ty, "deserialize", vec![de], None)?;
				match r {
					V::Enum(_, va, p) if &*va == "Ok" => p[0].v.borrow().clone(),
					V::Enum(_, va, p) if &*va == "Err" => return Ok(Err(p[0].v.borrow().clone())),
					o => return unsup(format!("manual Deserialize of {} returned {}", ty, o.brief())),
				}
			}
			V::Struct(n, fs) => {
				let mut out = Vec::new();
				for (k, c) in fs.iter() {
					let inner = c.v.borrow().clone();
					match self.serde_de_tok(&inner)? {
						Ok(x) => out.push((k.clone(), self.cell(x))),
						Err(e) => return Ok(Err(e)),
					}
				}
				V::Struct(n, out)
			}
			V::Enum(n, va, p) => V::Enum(n, va, kids!(p)),
			V::Tuple(p) => V::Tuple(kids!(p)),
			V::Seq(p) => V::Seq(kids!(p)),
			V::Ite(c, a, b) => {
				// both alternatives are restored under their guard; an error on one side only would need a fork
				let ra = self.serde_de_tok(&a)?;
				let rb = self.serde_de_tok(&b)?;
				match (ra, rb) {
					(Ok(x), Ok(y)) => V::Ite(c, Rc::new(x), Rc::new(y)),
					_ => return unsup("serde model: deserialization error under a merged value"),
				}
			}
			o => o,
		}))
	}

	/// `serializer.serialize_struct(..)`, `s.serialize_field(..)`, `s.end()`
	pub fn serde_method(&mut self, recv: V, sname: &str, name: &str, mut args: Vec<V>) -> R<V> {
		match (sname, name) {
			("__Serializer", "serialize_struct") => {
				let ty = match self.deref_val(&args[0]) {
					V::Str(s) => s,
					o => return unsup(format!("serialize_struct name {}", o.brief())),
				};
				let fields = self.cell(V::Seq(vec![]));
				let tyc = self.cell(V::Str(ty));
				let st = V::Struct("__SerStruct".into(), vec![("ty".into(), tyc), ("map".into(), fields)]);
				Ok(self.mk_ok(st))
			}
			("__SerStruct", "serialize_field") => {
				let key = match self.deref_val(&args[0]) {
					V::Str(s) => s,
					o => return unsup(format!("serialize_field name {}", o.brief())),
				};
				let val = args.remove(1);
				let tok = self.serde_ser_tok(&val)?;
				let holder = match &recv {
					V::Ref(c) => self.deref_cell(c),
					_ => return unsup("serialize_field on a temporary"),
				};
				let cur = holder.v.borrow().clone();
				let mapc = match &cur {
					V::Struct(_, fs) => fs.iter().find(|(k, _)| &**k == "map").map(|(_, c)| c.clone()).unwrap(),
					_ => return unsup("serialize_field receiver"),
				};
				let mut items = match mapc.v.borrow().clone() {
					V::Seq(p) => p,
					_ => vec![],
				};
				let kc = self.cell(V::Str(key));
				let tc = self.cell(tok);
				items.push(self.cell(V::Tuple(vec![kc, tc])));
				self.write(&mapc, V::Seq(items))?;
				let unit = V::Unit;
				Ok(self.mk_ok(unit))
			}
			("__SerStruct", "end") => {
				let cur = self.deref_val(&recv);
				match cur {
					V::Struct(_, fs) => {
						let t = V::Struct("__Tok".into(), fs);
						let t = self.deep(t);
						Ok(self.mk_ok(t))
					}
					_ => unsup("end receiver"),
				}
			}
			_ => unsup(format!("serde model: {}.{}", sname, name)),
		}
	}

	/// `<Derived>::deserialize(deserializer)` for a struct that derives Deserialize
	pub fn serde_derived_deserialize(&mut self, ty: &str, de: V) -> R<V> {
		let de = self.deref_val(&de);
		let tok = match &de {
			V::Struct(n, fs) if &**n == "__Deserializer" => fs[0].1.v.borrow().clone(),
			o => return unsup(format!("{}::deserialize on {}", ty, o.brief())),
		};
		let map = match &tok {
			V::Struct(n, fs) if &**n == "__Tok" => match fs.iter().find(|(k, _)| &**k == "map").map(|(_, c)| c.v.borrow().clone()) {
				Some(V::Seq(p)) => p,
				_ => vec![],
			},
			o => return unsup(format!("{}::deserialize: token {}", ty, o.brief())),
		};
		let mut have: Vec<(Rc<str>, V)> = Vec::new();
		for it in map.iter() {
			if let V::Tuple(kv) = it.v.borrow().clone() {
				if let V::Str(k) = kv[0].v.borrow().clone() {
					have.push((k, kv[1].v.borrow().clone()));
				}
			}
		}
		// field list: the declared struct when it is a module-level item, else the token's fields
		let decl: Vec<String> = match self.prog.structs.get(ty) {
			Some(sd) => sd.fields.iter().map(|(n, _)| n.clone()).collect(),
			None => have.iter().map(|(k, _)| k.to_string()).collect(),
		};
		let mut out = Vec::new();
		for fname in decl {
			let t = match have.iter().find(|(k, _)| **k == *fname) {
				Some((_, t)) => t.clone(),
				None => {
					let e = V::Struct("__SerdeError".into(), vec![]);
					return Ok(self.mk_err(e));
				}
			};
			match self.serde_de_tok(&t)? {
				Ok(x) => out.push((Rc::<str>::from(fname.as_str()), self.cell(x))),
				Err(e) => return Ok(self.mk_err(e)),
			}
		}
		let st = V::Struct(ty.into(), out);
		Ok(self.mk_ok(st))
	}
}
