//! Runtime values of the interpreter.
use crate::term::T;
use std::cell::RefCell;
use std::collections::VecDeque;
use std::rc::Rc;

#[derive(Clone, Copy, PartialEq, Eq, Debug, Hash)]
pub enum ITy {
	U8,
	U16,
	U32,
	U64,
	U128,
	Usize,
	I8,
	I16,
	I32,
	I64,
	I128,
	Isize,
	Unk,
}

impl ITy {
	pub fn from_name(s: &str) -> Option<ITy> {
		Some(match s {
			"u8" => ITy::U8,
			"u16" => ITy::U16,
			"u32" => ITy::U32,
			"u64" => ITy::U64,
			"u128" => ITy::U128,
			"usize" => ITy::Usize,
			"i8" => ITy::I8,
			"i16" => ITy::I16,
			"i32" => ITy::I32,
			"i64" => ITy::I64,
			"i128" => ITy::I128,
			"isize" => ITy::Isize,
			_ => return None,
		})
	}
	pub fn name(self) -> &'static str {
		match self {
			ITy::U8 => "u8",
			ITy::U16 => "u16",
			ITy::U32 => "u32",
			ITy::U64 => "u64",
			ITy::U128 => "u128",
			ITy::Usize => "usize",
			ITy::I8 => "i8",
			ITy::I16 => "i16",
			ITy::I32 => "i32",
			ITy::I64 => "i64",
			ITy::I128 => "i128",
			ITy::Isize => "isize",
			ITy::Unk => "{integer}",
		}
	}
	pub fn range(self) -> (i128, i128) {
		match self {
			ITy::U8 => (0, u8::MAX as i128),
			ITy::U16 => (0, u16::MAX as i128),
			ITy::U32 => (0, u32::MAX as i128),
			ITy::U64 | ITy::Usize => (0, u64::MAX as i128),
			ITy::U128 => (0, i128::MAX),
			ITy::I8 => (i8::MIN as i128, i8::MAX as i128),
			ITy::I16 => (i16::MIN as i128, i16::MAX as i128),
			ITy::I32 => (i32::MIN as i128, i32::MAX as i128),
			ITy::I64 | ITy::Isize => (i64::MIN as i128, i64::MAX as i128),
			ITy::I128 | ITy::Unk => (i128::MIN, i128::MAX),
		}
	}
	pub fn bits(self) -> u32 {
		match self {
			ITy::U8 | ITy::I8 => 8,
			ITy::U16 | ITy::I16 => 16,
			ITy::U32 | ITy::I32 => 32,
			ITy::U64 | ITy::I64 | ITy::Usize | ITy::Isize => 64,
			_ => 128,
		}
	}
	pub fn signed(self) -> bool {
		matches!(self, ITy::I8 | ITy::I16 | ITy::I32 | ITy::I64 | ITy::I128 | ITy::Isize | ITy::Unk)
	}
	/// wrap an arbitrary integer into the type (as-cast semantics)
	pub fn wrap(self, v: i128) -> i128 {
		let b = self.bits();
		if b >= 128 {
			return v;
		}
		let m = 1i128 << b;
		let mut r = v.rem_euclid(m);
		if self.signed() && r >= m / 2 {
			r -= m;
		}
		r
	}
}

/// a float: symbolic (real value term + sign-of-zero term) or concrete
#[derive(Clone, Copy, Debug, PartialEq)]
pub enum Fl {
	/// r: Real-sorted term; z: Bool-sorted term "sign bit when the value is zero" (fp mode) — in
	/// real mode z is the constant false
	S { r: T, z: T },
	C(f64),
}

pub type C = Rc<Cell>;

pub struct Cell {
	pub id: u64,
	pub v: RefCell<V>,
}

#[derive(Clone)]
pub enum V {
	Unit,
	Bool(bool),
	SBool(T),
	Int(i128, ITy),
	SInt(T, ITy),
	F(Fl),
	Str(Rc<str>),
	Tuple(Vec<C>),
	Struct(Rc<str>, Vec<(Rc<str>, C)>),
	/// enum type, variant, payload (tuple-like) — Option/Result/Ordering included
	Enum(Rc<str>, Rc<str>, Vec<C>),
	Seq(Vec<C>),
	Ref(C),
	Closure(Rc<ClosureData>),
	FnPath(Rc<str>, Rc<str>), // type (or "" for free fn), fn name
	Range(Option<Box<V>>, Option<Box<V>>, bool),
	Iter(Rc<RefCell<VecDeque<V>>>),
	/// guarded union produced by merging two differently shaped values
	Ite(T, Rc<V>, Rc<V>),
	/// a type used as a value (turbofish / generic binding), rarely
	Moved,
}

pub struct ClosureData {
	pub params: Vec<syn::Pat>,
	pub body: syn::Expr,
	pub env: Vec<(String, C)>,
	pub self_ty: Option<String>,
	pub tparams: Vec<(String, String)>,
}

impl V {
	pub fn tag(&self) -> String {
		match self {
			V::Unit => "()".into(),
			V::Bool(_) | V::SBool(_) => "bool".into(),
			V::Int(_, t) | V::SInt(_, t) => t.name().into(),
			V::F(_) => "f64".into(),
			V::Str(_) => "str".into(),
			V::Tuple(_) => "(tuple)".into(),
			V::Struct(n, _) => n.to_string(),
			V::Enum(n, _, _) => n.to_string(),
			V::Seq(_) => "[T]".into(),
			V::Ref(c) => c.v.borrow().tag(),
			V::Closure(_) => "closure".into(),
			V::FnPath(..) => "fn".into(),
			V::Range(..) => "Range".into(),
			V::Iter(_) => "Iter".into(),
			V::Ite(_, a, _) => a.tag(),
			V::Moved => "moved".into(),
		}
	}
	pub fn brief(&self) -> String {
		match self {
			V::Unit => "()".into(),
			V::Bool(b) => format!("{}", b),
			V::SBool(t) => format!("sbool#{}", t),
			V::Int(i, t) => format!("{}{}", i, t.name()),
			V::SInt(t, ty) => format!("sint#{}:{}", t, ty.name()),
			V::F(Fl::C(x)) => format!("{:?}", x),
			V::F(Fl::S { r, .. }) => format!("f#{}", r),
			V::Str(s) => format!("{:?}", s),
			V::Tuple(v) => format!("({})", v.iter().map(|c| c.v.borrow().brief()).collect::<Vec<_>>().join(", ")),
			V::Struct(n, f) => format!("{}{{{}}}", n, f.iter().map(|(k, c)| format!("{}:{}", k, c.v.borrow().brief())).collect::<Vec<_>>().join(",")),
			V::Enum(n, v, p) => format!("{}::{}({})", n, v, p.iter().map(|c| c.v.borrow().brief()).collect::<Vec<_>>().join(", ")),
			V::Seq(v) => format!("[{} items]", v.len()),
			V::Ref(c) => format!("&{}", c.v.borrow().brief()),
			V::Closure(_) => "closure".into(),
			V::FnPath(a, b) => format!("fn {}::{}", a, b),
			V::Range(..) => "range".into(),
			V::Iter(i) => format!("iter[{}]", i.borrow().len()),
			V::Ite(c, a, b) => format!("ite(#{}, {}, {})", c, a.brief(), b.brief()),
			V::Moved => "moved".into(),
		}
	}
}
