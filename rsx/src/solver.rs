//! One incremental z3 process ("z3 -in"), scope tracking for declares/defines, feasibility
//! cache, and standalone-script export for cross-checking with a second solver.
use crate::term::{Node, Sort, Terms, T};
use std::collections::{HashMap, HashSet};
use std::io::{BufRead, BufReader, Write};
use std::process::{Child, ChildStdin, Command, Stdio};
use std::sync::mpsc::{channel, Receiver};
use std::time::{Duration, Instant};

#[derive(Debug, Clone, Copy, PartialEq, Eq)]
pub enum Res {
	Sat,
	Unsat,
	Unknown,
}

enum Def {
	Term(T),
	Var(String),
	Uf(usize),
}

pub struct Solver {
	child: Child,
	sin: ChildStdin,
	sout: Receiver<String>,
	levels: Vec<Vec<Def>>,
	defined: HashSet<T>,
	declared: HashSet<String>,
	declared_uf: HashSet<usize>,
	/// asserted terms (the path condition + assumptions), with the level they were asserted at
	pub pc: Vec<(T, usize)>,
	oplog: Vec<usize>, // level tag of each persistent push/assert op of the current run
	skip: usize,
	temp_depth: usize,
	pub queries: u64,
	pub time: Duration,
	cache: HashMap<(u64, T, bool), Res>,
	pub error: Option<String>,
	pub timeout_ms: u64,
	pub cmd: String,
	pub unknowns: u64,
	pub hangs: u64,
	/// speculative scopes whose assumption has not been sent to the solver yet (most merged branches never
	/// need a query, so their push / assert / pop is skipped altogether)
	lazy: Vec<(T, bool)>,
	/// definitional axioms (sqrt): asserted term -> the uninterpreted application it constrains
	pub axioms: HashMap<T, T>,
	rebuild_lines: Vec<String>,
	pub prefer_standalone: bool,
	pub standalone_runs: u64,
	pub cvc5_decided: u64,
	pub abs_decided: u64,
	pub full_timeout_ms: u64,
}

fn spawn_solver(cmd: &str) -> (Child, ChildStdin, Receiver<String>) {
	let mut parts = cmd.split_whitespace();
	let prog = parts.next().unwrap();
	let mut c = Command::new(prog);
	for a in parts {
		c.arg(a);
	}
	let mut child = c.stdin(Stdio::piped()).stdout(Stdio::piped()).stderr(Stdio::null()).spawn().expect("cannot start solver");
	let sin = child.stdin.take().unwrap();
	let out = child.stdout.take().unwrap();
	let (tx, rx) = channel();
	std::thread::spawn(move || {
		let mut r = BufReader::new(out);
		loop {
			let mut l = String::new();
			match r.read_line(&mut l) {
				Ok(0) | Err(_) => break,
				Ok(_) => {
					if tx.send(l).is_err() {
						break;
					}
				}
			}
		}
	});
	(child, sin, rx)
}

impl Solver {
	pub fn new(cmd: &str, timeout_ms: u64) -> Solver {
		let (child, sin, sout) = spawn_solver(cmd);
		let mut s = Solver {
			child,
			sin,
			sout,
			levels: vec![Vec::new()],
			defined: HashSet::new(),
			declared: HashSet::new(),
			declared_uf: HashSet::new(),
			pc: Vec::new(),
			oplog: Vec::new(),
			skip: 0,
			temp_depth: 0,
			queries: 0,
			time: Duration::ZERO,
			cache: HashMap::new(),
			error: None,
			timeout_ms,
			cmd: cmd.to_string(),
			unknowns: 0,
			hangs: 0,
			lazy: Vec::new(),
			axioms: HashMap::new(),
			rebuild_lines: Vec::new(),
			prefer_standalone: false,
			standalone_runs: 0,
			cvc5_decided: 0,
			abs_decided: 0,
			full_timeout_ms: timeout_ms,
		};
		s.send("(set-option :print-success false)");
		s.send(&format!("(set-option :timeout {})", timeout_ms.min(2500 * tscale())));
		s
	}
	fn send(&mut self, line: &str) {
		if self.error.is_some() {
			return;
		}
		if let Ok(f) = std::env::var("RSX_SMTLOG") {
			use std::io::Write as W2;
			if let Ok(mut fh) = std::fs::OpenOptions::new().create(true).append(true).open(f) {
				let _ = writeln!(fh, "{}", line);
			}
		}
		// keep what is needed to rebuild the assertion stack after a restart
		if line.starts_with("(push") {
			self.rebuild_lines.push(line.to_string());
		} else if line.starts_with("(pop") {
			while let Some(l) = self.rebuild_lines.pop() {
				if l.starts_with("(push") {
					break;
				}
			}
		} else if line.starts_with("(declare") || line.starts_with("(define") || line.starts_with("(assert") {
			self.rebuild_lines.push(line.to_string());
		}
		if writeln!(self.sin, "{}", line).is_err() {
			self.error = Some("solver pipe closed".into());
		}
	}
	fn read_line(&mut self) -> String {
		let _ = self.sin.flush();
		let wait = Duration::from_millis(self.timeout_ms.min(2500 * tscale()) + 3000);
		let l = match self.sout.recv_timeout(wait) {
			Ok(l) => l,
			Err(std::sync::mpsc::RecvTimeoutError::Timeout) => {
				// the solver ignores its own time limit (non-linear core): restart it and rebuild the
				// assertion stack; the query is then decided by the standalone fallback
				self.hangs += 1;
				self.restart();
				return "unknown".to_string();
			}
			Err(_) => {
				self.error = Some("solver closed its output".into());
				String::new()
			}
		};
		if l.starts_with("(error") {
			self.error = Some(format!("solver reported {}", l.trim()));
		}
		l
	}
	/// kill the solver process, start a fresh one and re-send declarations / definitions / assertions of
	/// every open level
	fn restart(&mut self) {
		let _ = self.child.kill();
		let _ = self.child.wait();
		let (child, sin, sout) = spawn_solver(&self.cmd);
		self.child = child;
		self.sin = sin;
		self.sout = sout;
		self.prefer_standalone = true;
		self.send("(set-option :print-success false)");
		let t = self.timeout_ms.min(2500 * tscale());
		self.send(&format!("(set-option :timeout {})", t));
		let script = std::mem::take(&mut self.rebuild_lines);
		for l in script {
			self.send(&l);
		}
	}
	pub fn level(&self) -> usize {
		self.levels.len() - 1
	}

	/// make every App node / variable reachable from t known to the solver at the current level
	pub fn ensure(&mut self, tm: &Terms, t: T) {
		if self.defined.contains(&t) {
			return;
		}
		// iterative post-order
		let mut stack = vec![(t, false)];
		while let Some((x, done)) = stack.pop() {
			if self.defined.contains(&x) {
				continue;
			}
			match tm.node(x) {
				Node::Var(n, s) => {
					if !self.declared.contains(n) {
						let line = format!("(declare-const {} {})", n, Terms::sort_smt(*s));
						self.send(&line);
						self.declared.insert(n.clone());
						self.levels.last_mut().unwrap().push(Def::Var(n.clone()));
					}
				}
				Node::App(op, args) => {
					if done {
						if let crate::term::Op::Uf(i) = op {
							let i = *i as usize;
							if !self.declared_uf.contains(&i) {
								let (name, ar) = &tm.ufs[i];
								let line = format!("(declare-fun {} ({}) Real)", name, vec!["Real"; *ar].join(" "));
								self.send(&line);
								self.declared_uf.insert(i);
								self.levels.last_mut().unwrap().push(Def::Uf(i));
							}
						}
						let line = format!("(define-fun t{} () {} {})", x, Terms::sort_smt(tm.sort(x)), tm.app_smt(x));
						self.send(&line);
						self.defined.insert(x);
						self.levels.last_mut().unwrap().push(Def::Term(x));
					} else {
						stack.push((x, true));
						for a in args {
							if !self.defined.contains(a) {
								stack.push((*a, false));
							}
						}
					}
				}
				_ => {}
			}
		}
	}

	fn raw_push(&mut self) {
		self.send("(push 1)");
		self.levels.push(Vec::new());
	}
	fn raw_pop(&mut self) {
		self.send("(pop 1)");
		for d in self.levels.pop().unwrap() {
			match d {
				Def::Term(t) => {
					self.defined.remove(&t);
				}
				Def::Var(n) => {
					self.declared.remove(&n);
				}
				Def::Uf(i) => {
					self.declared_uf.remove(&i);
				}
			}
		}
		let lvl = self.levels.len() - 1;
		while self.pc.last().map_or(false, |(_, l)| *l > lvl) {
			self.pc.pop();
		}
	}

	/// start a new run of the program keeping the first `keep` decision levels of the previous run
	pub fn begin_run(&mut self, keep: usize) {
		while self.levels.len() - 1 > keep {
			self.raw_pop();
		}
		self.temp_depth = 0;
		self.lazy.clear();
		self.oplog.retain(|l| *l <= keep);
		self.skip = self.oplog.len();
	}

	/// persistent: new decision level
	pub fn push(&mut self) {
		if self.temp_depth > 0 || !self.lazy.is_empty() {
			// decisions are never taken inside a speculative scope (the interpreter reports Impure instead)
			self.error = Some("internal: decision level opened inside a speculative scope".into());
			return;
		}
		if self.skip > 0 {
			self.skip -= 1;
			return;
		}
		self.raw_push();
		let l = self.level();
		self.oplog.push(l);
	}
	/// persistent (or temp when inside a temp scope): assert a Bool term at the current level
	pub fn assert(&mut self, tm: &Terms, t: T) {
		self.materialize(tm);
		if self.temp_depth == 0 {
			if self.skip > 0 {
				self.skip -= 1;
				return;
			}
			let l = self.level();
			self.oplog.push(l);
		}
		self.ensure(tm, t);
		let line = format!("(assert {})", tm.ref_smt(t));
		self.send(&line);
		let l = self.level();
		self.pc.push((t, l));
	}
	pub fn replaying(&self) -> bool {
		self.skip > 0
	}
	/// temporary scope (speculative evaluation) under the assumption c; sent to the solver only when a
	/// query needs it
	pub fn temp_push_assume(&mut self, c: T) {
		self.lazy.push((c, false));
	}
	pub fn temp_pop(&mut self) {
		if let Some((_, mat)) = self.lazy.pop() {
			if mat {
				self.raw_pop();
				self.temp_depth -= 1;
			}
		}
	}
	fn materialize(&mut self, tm: &Terms) {
		for i in 0..self.lazy.len() {
			if !self.lazy[i].1 {
				let c = self.lazy[i].0;
				self.lazy[i].1 = true;
				self.raw_push();
				self.temp_depth += 1;
				self.ensure(tm, c);
				let line = format!("(assert {})", tm.ref_smt(c));
				self.send(&line);
				let l = self.level();
				self.pc.push((c, l));
			}
		}
	}
	pub fn in_temp(&self) -> bool {
		!self.lazy.is_empty()
	}

	fn pc_hash(&self) -> u64 {
		// order-sensitive FNV over asserted term ids
		let mut h: u64 = 0xcbf29ce484222325;
		for (t, _) in &self.pc {
			h ^= *t as u64 + 1;
			h = h.wrapping_mul(0x100000001b3);
		}
		h
	}

	/// is PC ∧ (t == want) satisfiable?
	pub fn check_with(&mut self, tm: &Terms, t: T, want: bool) -> Res {
		self.materialize(tm);
		if let Some(b) = tm.as_bool(t) {
			return if b == want { self.check_pc() } else { Res::Unsat };
		}
		let key = (self.pc_hash(), t, want);
		if let Some(r) = self.cache.get(&key) {
			return *r;
		}
		self.ensure(tm, t);
		let lit = if want { tm.ref_smt(t) } else { format!("(not {})", tm.ref_smt(t)) };
		let t0 = Instant::now();
		let mut r = Res::Unknown;
		if !self.prefer_standalone {
			self.send(&format!("(check-sat-assuming ({}))", lit));
			r = self.read_res();
			if r == Res::Unknown {
				self.unknowns -= 1;
			}
		}
		if r == Res::Unknown && self.error.is_none() {
			// the incremental core has weak non-linear support: decide the same query with a fresh
			// solver process (full tactic pipeline) on the standalone script
			r = self.standalone(tm, &[(t, want)]);
			if r != Res::Unknown {
				self.prefer_standalone = true;
			} else {
				self.unknowns += 1;
			}
		}
		self.time += t0.elapsed();
		self.queries += 1;
		if r != Res::Unknown {
			self.cache.insert(key, r);
		}
		r
	}
	pub fn standalone(&mut self, tm: &Terms, extra: &[(T, bool)]) -> Res {
		self.standalone_runs += 1;
		// 1. sound abstraction (products/quotients of symbolic terms uninterpreted): unsat is final
		let abs_script = self.script_ex(tm, extra, true);
		if abs_script.contains("abs_mul ") || abs_script.contains("abs_div ") {
			let a = run_script(&format!("{} -in", self.cmd.split_whitespace().next().unwrap_or("z3")), &abs_script, 10 * tscale());
			if a == "unsat" {
				self.abs_decided += 1;
				return Res::Unsat;
			}
		}
		let script = self.script(tm, extra);
		let prog = self.cmd.split_whitespace().next().unwrap_or("z3").to_string();
		let secs = (self.full_timeout_ms / 1000).max(1) * tscale();
		let mut ans;
		if self.cvc5_decided > 0 {
			ans = run_script("cvc5 --lang smt2", &script, secs.min(10 * tscale()));
			if ans == "sat" || ans == "unsat" {
				self.cvc5_decided += 1;
			} else {
				ans = run_script(&format!("{} -in", prog), &script, secs);
			}
		} else {
			ans = run_script(&format!("{} -in", prog), &script, secs.min(6 * tscale()));
			if ans != "sat" && ans != "unsat" && !ans.starts_with("error") {
				// second standalone attempt with the other solver (different non-linear procedure)
				let a2 = run_script("cvc5 --lang smt2", &script, secs);
				if a2 == "sat" || a2 == "unsat" {
					self.cvc5_decided += 1;
					ans = a2;
				}
			}
		}
		if let Ok(d) = std::env::var("RSX_DUMP") {
			let _ = std::fs::write(format!("{}/standalone{}_{}.smt2", d, self.standalone_runs, ans.replace(|c: char| !c.is_alphanumeric(), "_")), &script);
		}
		match ans.as_str() {
			"sat" => Res::Sat,
			"unsat" => Res::Unsat,
			a if a.starts_with("error") => {
				self.error = Some(format!("standalone solver {}", a));
				Res::Unknown
			}
			_ => Res::Unknown,
		}
	}
	pub fn check_pc(&mut self) -> Res {
		let t0 = Instant::now();
		self.send("(check-sat)");
		let r = self.read_res();
		self.time += t0.elapsed();
		self.queries += 1;
		r
	}
	pub fn check_pc_tm(&mut self, tm: &Terms) -> Res {
		self.materialize(tm);
		let mut r = Res::Unknown;
		if !self.prefer_standalone {
			r = self.check_pc();
			if r == Res::Unknown {
				self.unknowns -= 1;
			}
		}
		if r == Res::Unknown && self.error.is_none() {
			r = self.standalone(tm, &[]);
			if r == Res::Unknown {
				self.unknowns += 1;
			}
		}
		r
	}
	fn read_res(&mut self) -> Res {
		let l = self.read_line();
		match l.trim() {
			"sat" => Res::Sat,
			"unsat" => Res::Unsat,
			"unknown" | "timeout" => {
				self.unknowns += 1;
				Res::Unknown
			}
			other => {
				if self.error.is_none() {
					self.error = Some(format!("unexpected solver answer '{}'", other));
				}
				Res::Unknown
			}
		}
	}

	/// after a Sat answer of check_with(t, want): values of the given variables. The query is repeated
	/// inside a temp scope so that the model belongs to it.
	pub fn model(&mut self, tm: &Terms, t: T, want: bool, vars: &[(String, Sort)]) -> Option<Vec<(String, String)>> {
		self.materialize(tm);
		self.ensure(tm, t);
		self.raw_push();
		let lit = if want { tm.ref_smt(t) } else { format!("(not {})", tm.ref_smt(t)) };
		self.send(&format!("(assert {})", lit));
		for (n, s) in vars {
			if !self.declared.contains(n) {
				let line = format!("(declare-const {} {})", n, Terms::sort_smt(*s));
				self.send(&line);
				self.declared.insert(n.clone());
				self.levels.last_mut().unwrap().push(Def::Var(n.clone()));
			}
		}
		self.send("(check-sat)");
		let r = self.read_res();
		let mut out = None;
		if r == Res::Sat && !vars.is_empty() {
			let names: Vec<&str> = vars.iter().map(|(n, _)| n.as_str()).collect();
			self.send(&format!("(get-value ({}))", names.join(" ")));
			// read a balanced s-expression
			let mut text = String::new();
			let mut depth = 0i32;
			loop {
				let l = self.read_line();
				if l.is_empty() {
					break;
				}
				for ch in l.chars() {
					if ch == '(' {
						depth += 1
					} else if ch == ')' {
						depth -= 1
					}
				}
				text.push_str(&l);
				if depth <= 0 {
					break;
				}
			}
			out = parse_values(&text);
		} else if r == Res::Sat {
			out = Some(Vec::new());
		}
		self.raw_pop();
		out
	}

	/// standalone SMT-LIB script for "PC ∧ extra": used for the cross-check with a second solver
	pub fn script(&self, tm: &Terms, extra: &[(T, bool)]) -> String {
		self.script_ex(tm, extra, false)
	}
	pub fn script_ex(&self, tm: &Terms, extra: &[(T, bool)], abstract_nl: bool) -> String {
		// cone of influence: a definitional axiom (s >= 0 and s*s = x for s = sqrt(x)) is only included when
		// its sqrt application occurs in the rest of the query. Dropping it otherwise is sound in both
		// directions (it constrains a value nothing else mentions and a witness always exists) and keeps
		// queries that do not involve the sqrt out of non-linear arithmetic.
		let reach = |roots: &[T]| -> HashSet<T> {
			let mut seen: HashSet<T> = HashSet::new();
			let mut st: Vec<T> = roots.to_vec();
			while let Some(x) = st.pop() {
				if seen.insert(x) {
					for c in tm.children(x) {
						st.push(*c);
					}
				}
			}
			seen
		};
		let mut base: Vec<T> = self.pc.iter().map(|(t, _)| *t).filter(|t| !self.axioms.contains_key(t)).collect();
		base.extend(extra.iter().map(|(t, _)| *t));
		let mut cone = reach(&base);
		let mut included: Vec<T> = Vec::new();
		loop {
			let mut changed = false;
			for (ax, uf) in &self.axioms {
				if !included.contains(ax) && cone.contains(uf) && self.pc.iter().any(|(t, _)| t == ax) {
					included.push(*ax);
					for x in reach(&[*ax]) {
						cone.insert(x);
					}
					changed = true;
				}
			}
			if !changed {
				break;
			}
		}
		let pc_used: Vec<T> = self.pc.iter().map(|(t, _)| *t).filter(|t| !self.axioms.contains_key(t) || included.contains(t)).collect();
		let mut need: Vec<T> = pc_used.clone();
		need.extend(extra.iter().map(|(t, _)| *t));
		let mut seen = HashSet::new();
		let mut order = Vec::new();
		let mut stack: Vec<(T, bool)> = need.iter().map(|t| (*t, false)).collect();
		while let Some((x, done)) = stack.pop() {
			if seen.contains(&x) {
				continue;
			}
			if done {
				seen.insert(x);
				order.push(x);
			} else {
				stack.push((x, true));
				for c in tm.children(x) {
					if !seen.contains(c) {
						stack.push((*c, false));
					}
				}
			}
		}
		let mut s = String::from("(set-logic ALL)\n");
		if abstract_nl {
			s.push_str("(declare-fun abs_mul (Real Real) Real)\n(declare-fun abs_div (Real Real) Real)\n");
		}
		let mut ufs = HashSet::new();
		for x in &order {
			match tm.node(*x) {
				Node::Var(n, so) => s.push_str(&format!("(declare-const {} {})\n", n, Terms::sort_smt(*so))),
				Node::App(op, _) => {
					if let crate::term::Op::Uf(i) = op {
						if ufs.insert(*i) {
							let (name, ar) = &tm.ufs[*i as usize];
							s.push_str(&format!("(declare-fun {} ({}) Real)\n", name, vec!["Real"; *ar].join(" ")));
						}
					}
					let body = if abstract_nl { tm.app_smt_abs(*x) } else { tm.app_smt(*x) };
					s.push_str(&format!("(define-fun t{} () {} {})\n", x, Terms::sort_smt(tm.sort(*x)), body));
				}
				_ => {}
			}
		}
		for t in &pc_used {
			s.push_str(&format!("(assert {})\n", tm.ref_smt(*t)));
		}
		for (t, w) in extra {
			if *w {
				s.push_str(&format!("(assert {})\n", tm.ref_smt(*t)));
			} else {
				s.push_str(&format!("(assert (not {}))\n", tm.ref_smt(*t)));
			}
		}
		s.push_str("(check-sat)\n");
		s
	}
}

impl Drop for Solver {
	fn drop(&mut self) {
		let _ = writeln!(self.sin, "(exit)");
		let _ = self.child.kill();
		let _ = self.child.wait();
	}
}

/// run a standalone script through another solver command; returns its first answer line
/// RSX_TIME_SCALE=k multiplies every solver time cap (the driver re-runs an undecided core job alone with k = 4)
pub fn tscale() -> u64 {
	std::env::var("RSX_TIME_SCALE").ok().and_then(|v| v.parse::<u64>().ok()).unwrap_or(1).max(1)
}

pub fn run_script(cmd: &str, script: &str, timeout_s: u64) -> String {
	let mut parts = cmd.split_whitespace();
	let prog = parts.next().unwrap();
	let mut c = Command::new("timeout");
	c.arg(format!("{}", timeout_s)).arg(prog);
	for a in parts {
		c.arg(a);
	}
	let mut child = match c.stdin(Stdio::piped()).stdout(Stdio::piped()).stderr(Stdio::piped()).spawn() {
		Ok(c) => c,
		Err(e) => return format!("spawn-failed {}", e),
	};
	{
		let mut sin = child.stdin.take().unwrap();
		let _ = sin.write_all(script.as_bytes());
	}
	let out = match child.wait_with_output() {
		Ok(o) => o,
		Err(e) => return format!("wait-failed {}", e),
	};
	let s = String::from_utf8_lossy(&out.stdout).to_string();
	if s.contains("(error") {
		return format!("error: {}", s.trim());
	}
	s.lines().next().unwrap_or("no-output").trim().to_string()
}

// ---- tiny s-expression reader for get-value output

#[derive(Debug)]
enum Sx {
	A(String),
	L(Vec<Sx>),
}

fn parse_sx(s: &[char], i: &mut usize) -> Option<Sx> {
	while *i < s.len() && s[*i].is_whitespace() {
		*i += 1;
	}
	if *i >= s.len() {
		return None;
	}
	if s[*i] == '(' {
		*i += 1;
		let mut v = Vec::new();
		loop {
			while *i < s.len() && s[*i].is_whitespace() {
				*i += 1;
			}
			if *i >= s.len() {
				return None;
			}
			if s[*i] == ')' {
				*i += 1;
				return Some(Sx::L(v));
			}
			v.push(parse_sx(s, i)?);
		}
	} else {
		let st = *i;
		while *i < s.len() && !s[*i].is_whitespace() && s[*i] != '(' && s[*i] != ')' {
			*i += 1;
		}
		Some(Sx::A(s[st..*i].iter().collect()))
	}
}

/// value as a string "n/d" (exact) or "true"/"false" or an integer
fn sx_value(x: &Sx) -> Option<String> {
	fn rat(x: &Sx) -> Option<(i128, i128)> {
		match x {
			Sx::A(a) => {
				if let Some(p) = a.find('.') {
					let (ip, fp) = (&a[..p], &a[p + 1..]);
					let fp = fp.trim_end_matches('?');
					let digits = format!("{}{}", ip, fp);
					let n: i128 = digits.parse().ok()?;
					let mut d: i128 = 1;
					for _ in 0..fp.len() {
						d = d.checked_mul(10)?;
					}
					Some((n, d))
				} else {
					Some((a.parse().ok()?, 1))
				}
			}
			Sx::L(v) => {
				let op = match &v[0] {
					Sx::A(a) => a.as_str(),
					_ => return None,
				};
				match (op, v.len()) {
					("-", 2) => {
						let (n, d) = rat(&v[1])?;
						Some((-n, d))
					}
					("/", 3) => {
						let (n1, d1) = rat(&v[1])?;
						let (n2, d2) = rat(&v[2])?;
						if n2 == 0 {
							return None;
						}
						Some((n1.checked_mul(d2)?, d1.checked_mul(n2)?))
					}
					_ => None,
				}
			}
		}
	}
	match x {
		Sx::A(a) if a == "true" || a == "false" => Some(a.clone()),
		_ => {
			let (n, d) = rat(x)?;
			let r = crate::term::Rat::new(n, d)?;
			Some(format!("{}/{}", r.n, r.d))
		}
	}
}

pub fn parse_values(text: &str) -> Option<Vec<(String, String)>> {
	let chars: Vec<char> = text.chars().collect();
	let mut i = 0;
	let sx = parse_sx(&chars, &mut i)?;
	let mut out = Vec::new();
	if let Sx::L(items) = sx {
		for it in items {
			if let Sx::L(p) = it {
				if p.len() == 2 {
					if let Sx::A(name) = &p[0] {
						match sx_value(&p[1]) {
							Some(v) => out.push((name.clone(), v)),
							None => out.push((name.clone(), "?".to_string())),
						}
					}
				}
			}
		}
	}
	Some(out)
}
