//! Expression / statement / pattern evaluation.
use crate::interp::*;
use crate::prog::type_head;
use crate::term::{Rat, Sort, T};
use crate::value::*;
use quote::ToTokens;
use std::collections::HashMap;
use std::rc::Rc;

fn site<X>(x: &X) -> usize {
	x as *const X as usize
}

fn loc(sp: proc_macro2::Span) -> String {
	let s = sp.start();
	format!("line {}", s.line)
}

pub enum MatchRes {
	No,
	Yes,
	Cond(T),
}

impl<'p> Interp<'p> {
	pub fn eval_block(&mut self, b: &syn::Block) -> R<V> {
		self.push_scope();
		let r = self.eval_stmts(&b.stmts);
		self.pop_scope();
		r
	}

	/// body of a function: a top-level `if c { ...; return a; }` on a symbolic c is evaluated as
	/// `if c { a } else { rest of the body }` so that early returns merge instead of forking
	pub fn eval_fn_body(&mut self, b: &syn::Block) -> R<V> {
		self.push_scope();
		let r = self.eval_stmts_ex(&b.stmts, true);
		self.pop_scope();
		r
	}

	fn eval_stmts(&mut self, stmts: &[syn::Stmt]) -> R<V> {
		self.eval_stmts_ex(stmts, false)
	}

	fn then_block_returns(b: &syn::Block) -> bool {
		match b.stmts.last() {
			Some(syn::Stmt::Expr(syn::Expr::Return(_), _)) => true,
			_ => false,
		}
	}

	fn eval_stmts_ex(&mut self, stmts: &[syn::Stmt], fn_body: bool) -> R<V> {
		let mut last = V::Unit;
		for (i, s) in stmts.iter().enumerate() {
			let is_last = i + 1 == stmts.len();
			if fn_body && !is_last && self.merge_enabled && self.mode != Mode::Concrete {
				if let syn::Stmt::Expr(syn::Expr::If(ifx), _) = s {
					if ifx.else_branch.is_none() && !matches!(&*ifx.cond, syn::Expr::Let(_)) && Self::then_block_returns(&ifx.then_branch) {
						let c = self.eval(&ifx.cond)?;
						let cv = match &c {
							V::Ref(cc) => self.read(cc),
							o => o.clone(),
						};
						if let V::SBool(t) = cv {
							let rest = &stmts[i + 1..];
							let nt = self.tm.not(t);
							let key = ifx as *const syn::ExprIf as usize + 1;
							let merged = self.spec_unit(key, &mut |s2: &mut Self| {
								let v1 = match s2.speculate_w(t, &mut |s3: &mut Self| match s3.eval_block(&ifx.then_branch) {
									Err(Ctl::Return(v)) => Ok(v.0),
									Ok(_) => Err(Ctl::Impure("then-branch fell through".into())),
									Err(e) => Err(e),
								}) {
									Err(Ctl::Infeasible) => None,
									r => Some(r?),
								};
								let v2 = match s2.speculate_w(nt, &mut |s3: &mut Self| match s3.eval_stmts_ex(rest, true) {
									Err(Ctl::Return(v)) => Ok(v.0),
									o => o,
								}) {
									Err(Ctl::Infeasible) => None,
									r => Some(r?),
								};
								match (v1, v2) {
									(Some((a, wa)), Some((b, wb))) => {
										let v = s2.merge(t, a, b)?;
										s2.apply_merged_writes(t, wa, wb)?;
										Ok(v)
									}
									(Some((a, wa)), None) => {
										for (cell, val) in wa {
											s2.write(&cell, val)?;
										}
										Ok(a)
									}
									(None, Some((b, wb))) => {
										for (cell, val) in wb {
											s2.write(&cell, val)?;
										}
										Ok(b)
									}
									(None, None) => Err(Ctl::Infeasible),
								}
							})?;
							if let Some(v) = merged {
								return Ok(v);
							}
							// not mergeable: ordinary semantics on the already evaluated condition
							self.eval_if_cond(ifx, V::SBool(t), None)?;
							continue;
						} else {
							self.eval_if_cond(ifx, cv, None)?;
							continue;
						}
					}
				}
			}
			match s {
				syn::Stmt::Local(l) => {
					if !self.attrs_ok(&l.attrs) {
						continue;
					}
					let (pat, ty) = match &l.pat {
						syn::Pat::Type(pt) => ((*pt.pat).clone(), Some((*pt.ty).clone())),
						p => (p.clone(), None),
					};
					let v = match &l.init {
						Some(init) => {
							let v = self.eval_hint(&init.expr, ty.as_ref())?;
							match &ty {
								Some(t) => self.coerce(v, t),
								None => v,
							}
						}
						None => V::Moved,
					};
					if !self.bind_pat(&pat, v)? {
						return unsup("refutable let pattern did not match");
					}
					last = V::Unit;
				}
				syn::Stmt::Item(it) => {
					if let syn::Item::Const(c) = it {
						let v = self.eval_hint(&c.expr, Some(&c.ty))?;
						let v = self.coerce(v, &c.ty);
						self.bind(&c.ident.to_string(), v);
					}
					last = V::Unit;
				}
				syn::Stmt::Expr(e, semi) => {
					let hint = if is_last && semi.is_none() { self.frames.last().and_then(|f| f.ret_hint.clone()) } else { None };
					let v = self.eval_hint(e, hint.as_ref())?;
					last = if semi.is_some() { V::Unit } else { v };
				}
				syn::Stmt::Macro(m) => {
					let v = self.eval_macro(&m.mac)?;
					last = if m.semi_token.is_some() { V::Unit } else { v };
				}
			}
		}
		Ok(last)
	}

	pub fn attrs_ok(&self, attrs: &[syn::Attribute]) -> bool {
		for a in attrs {
			if a.path().is_ident("cfg") {
				if let syn::Meta::List(l) = &a.meta {
					if !crate::prog::cfg_eval(&l.tokens.to_string(), &self.prog.features) {
						return false;
					}
				}
			}
		}
		true
	}

	pub fn eval(&mut self, e: &syn::Expr) -> R<V> {
		self.eval_hint(e, None)
	}

	pub fn eval_hint(&mut self, e: &syn::Expr, hint: Option<&syn::Type>) -> R<V> {
		self.steps += 1;
		if self.steps > self.max_steps {
			return Err(Ctl::Stop("step budget exhausted".into()));
		}
		match e {
			syn::Expr::Lit(l) => self.eval_lit(&l.lit, hint),
			syn::Expr::Paren(p) => self.eval_hint(&p.expr, hint),
			syn::Expr::Group(p) => self.eval_hint(&p.expr, hint),
			syn::Expr::Path(p) => self.eval_path(p, hint),
			syn::Expr::Field(_) | syn::Expr::Index(_) => {
				let c = self.place(e)?;
				Ok(self.read(&c))
			}
			syn::Expr::Unary(u) => match u.op {
				syn::UnOp::Deref(_) => {
					let c = self.place(e)?;
					Ok(self.read(&c))
				}
				syn::UnOp::Neg(_) => {
					let v = self.eval_hint(&u.expr, hint)?;
					self.un_neg(v)
				}
				syn::UnOp::Not(_) => {
					let v = self.eval(&u.expr)?;
					self.un_not(v)
				}
				_ => unsup("unary operator"),
			},
			syn::Expr::Binary(b) => self.eval_binary(b, hint),
			syn::Expr::Assign(a) => {
				let v = self.eval(&a.right)?;
				self.assign_to(&a.left, v)?;
				Ok(V::Unit)
			}
			syn::Expr::Block(b) => {
				if !self.attrs_ok(&b.attrs) {
					return Ok(V::Unit);
				}
				self.eval_block(&b.block)
			}
			syn::Expr::Unsafe(u) => self.eval_block(&u.block),
			syn::Expr::Reference(r) => {
				if Self::is_place_expr(&r.expr) {
					let c = self.place(&r.expr)?;
					Ok(V::Ref(c))
				} else {
					let inner_hint = match hint {
						Some(syn::Type::Reference(tr)) => Some((*tr.elem).clone()),
						_ => None,
					};
					let v = self.eval_hint(&r.expr, inner_hint.as_ref())?;
					let c = self.cell(v);
					Ok(V::Ref(c))
				}
			}
			syn::Expr::Tuple(t) => {
				let mut cs = Vec::new();
				for (i, x) in t.elems.iter().enumerate() {
					let h = match hint {
						Some(syn::Type::Tuple(tt)) => tt.elems.iter().nth(i).cloned(),
						_ => None,
					};
					let v = self.eval_hint(x, h.as_ref())?;
					let v = match &h {
						Some(t) => self.coerce(v, t),
						None => v,
					};
					cs.push(self.cell(v));
				}
				if cs.is_empty() {
					Ok(V::Unit)
				} else {
					Ok(V::Tuple(cs))
				}
			}
			syn::Expr::Array(a) => {
				let eh = match hint {
					Some(syn::Type::Array(t)) => Some((*t.elem).clone()),
					Some(syn::Type::Slice(t)) => Some((*t.elem).clone()),
					Some(syn::Type::Reference(r)) => match &*r.elem {
						syn::Type::Slice(t) => Some((*t.elem).clone()),
						syn::Type::Array(t) => Some((*t.elem).clone()),
						_ => None,
					},
					_ => None,
				};
				// elements written as `x.into()` take their target type from a sibling element when the
				// context gives no element type (`[s1.into(), s2]` with s2: Action)
				let mut vals: Vec<(V, bool)> = Vec::new();
				let mut sibling_tag: Option<String> = None;
				for x in &a.elems {
					let pending_into = eh.is_none()
						&& match x {
							syn::Expr::MethodCall(m) => m.method == "into" && m.args.is_empty() && m.turbofish.is_none(),
							_ => false,
						};
					if pending_into {
						if let syn::Expr::MethodCall(m) = x {
							let v = self.eval(&m.receiver)?;
							vals.push((v, true));
						}
					} else {
						let v = self.eval_hint(x, eh.as_ref())?;
						if sibling_tag.is_none() {
							let t = self.deref_val(&v).tag();
							if self.is_user_type(&t) {
								sibling_tag = Some(t);
							}
						}
						vals.push((v, false));
					}
				}
				let mut cs = Vec::new();
				for (v, pending) in vals {
					let v = if pending {
						match &sibling_tag {
							Some(t) => {
								let ty: syn::Type = syn::parse_str(t).map_err(|_| Ctl::Unsupported("sibling type".into()))?;
								let inner = self.deref_val(&v);
								self.convert(inner, &ty)?
							}
							None => return unsup("`.into()` inside an array literal without any element of known type"),
						}
					} else {
						v
					};
					cs.push(self.cell(v));
				}
				Ok(V::Seq(cs))
			}
			syn::Expr::Repeat(r) => {
				let v = self.eval(&r.expr)?;
				let n = self.eval(&r.len)?;
				let (n, _) = self.concretize_int(n)?;
				let mut cs = Vec::new();
				for _ in 0..n {
					let d = self.deep(v.clone());
					cs.push(self.cell(d));
				}
				Ok(V::Seq(cs))
			}
			syn::Expr::Cast(c) => {
				let v = self.eval(&c.expr)?;
				self.cast(v, &c.ty)
			}
			syn::Expr::If(i) => self.eval_if(i, hint),
			syn::Expr::Match(m) => self.eval_match(m, hint),
			syn::Expr::Return(r) => {
				let h = self.frames.last().and_then(|f| f.ret_hint.clone());
				let v = match &r.expr {
					Some(x) => self.eval_hint(x, h.as_ref())?,
					None => V::Unit,
				};
				Err(Ctl::Return(V2(v)))
			}
			syn::Expr::Break(_) => Err(Ctl::Break),
			syn::Expr::Continue(_) => Err(Ctl::Continue),
			syn::Expr::Try(t) => {
				let v = self.eval_hint(&t.expr, hint)?;
				let v = self.force(v)?;
				match v {
					V::Enum(n, var, p) => match (&*n, &*var) {
						("Result", "Ok") | ("Option", "Some") => Ok(self.read(&p[0])),
						("Result", "Err") => {
							let e = self.read(&p[0]);
							let c = self.cell(e);
							Err(Ctl::Return(V2(V::Enum("Result".into(), "Err".into(), vec![c]))))
						}
						("Option", "None") => Err(Ctl::Return(V2(V::Enum("Option".into(), "None".into(), vec![])))),
						_ => unsup("? on non Result/Option"),
					},
					o => unsup(format!("? on {}", o.brief())),
				}
			}
			syn::Expr::Closure(c) => {
				let env = self.visible_env();
				let f = self.frames.last().unwrap();
				let tparams = f.tparams.iter().map(|(a, b)| (a.clone(), b.clone())).collect();
				Ok(V::Closure(Rc::new(ClosureData { params: c.inputs.iter().cloned().collect(), body: (*c.body).clone(), env, self_ty: f.self_ty.clone(), tparams })))
			}
			syn::Expr::Struct(s) => self.eval_struct_lit(s),
			syn::Expr::Call(c) => self.eval_call(c, hint),
			syn::Expr::MethodCall(m) => self.eval_method_call(m, hint),
			syn::Expr::Macro(m) => self.eval_macro(&m.mac),
			syn::Expr::Range(r) => {
				let a = match &r.start {
					Some(x) => Some(Box::new(self.eval(x)?)),
					None => None,
				};
				let b = match &r.end {
					Some(x) => Some(Box::new(self.eval(x)?)),
					None => None,
				};
				Ok(V::Range(a, b, matches!(r.limits, syn::RangeLimits::Closed(_))))
			}
			syn::Expr::ForLoop(f) => {
				let it = self.eval(&f.expr)?;
				let items = self.materialize(it)?;
				for item in items {
					self.push_scope();
					let ok = self.bind_pat(&f.pat, item)?;
					if !ok {
						self.pop_scope();
						return unsup("refutable for pattern");
					}
					let r = self.eval_block(&f.body);
					self.pop_scope();
					match r {
						Ok(_) => {}
						Err(Ctl::Break) => break,
						Err(Ctl::Continue) => continue,
						Err(e) => return Err(e),
					}
				}
				Ok(V::Unit)
			}
			syn::Expr::While(w) => {
				loop {
					let c = self.eval(&w.cond)?;
					let b = self.truth(c)?;
					if !b {
						break;
					}
					match self.eval_block(&w.body) {
						Ok(_) => {}
						Err(Ctl::Break) => break,
						Err(Ctl::Continue) => continue,
						Err(e) => return Err(e),
					}
				}
				Ok(V::Unit)
			}
			syn::Expr::Loop(l) => {
				loop {
					match self.eval_block(&l.body) {
						Ok(_) => {}
						Err(Ctl::Break) => break,
						Err(Ctl::Continue) => continue,
						Err(e) => return Err(e),
					}
				}
				Ok(V::Unit)
			}
			syn::Expr::Let(_) => unsup("let expression outside if"),
			o => unsup(format!("expression kind {} at {}", o.to_token_stream().to_string().chars().take(60).collect::<String>(), loc(syn::spanned::Spanned::span(o)))),
		}
	}

	/// a concrete truth value, forking if symbolic
	pub fn truth(&mut self, v: V) -> R<bool> {
		match v {
			V::Bool(b) => Ok(b),
			V::SBool(t) => self.branch(t),
			V::Ref(c) => {
				let v = self.read(&c);
				self.truth(v)
			}
			o => unsup(format!("condition is not boolean: {}", o.brief())),
		}
	}

	pub fn is_place_expr(e: &syn::Expr) -> bool {
		match e {
			syn::Expr::Path(p) => p.path.segments.len() == 1 && p.qself.is_none(),
			syn::Expr::Field(_) | syn::Expr::Index(_) => true,
			syn::Expr::Unary(u) => matches!(u.op, syn::UnOp::Deref(_)),
			syn::Expr::Paren(p) => Self::is_place_expr(&p.expr),
			_ => false,
		}
	}

	/// the cell an lvalue expression denotes (temporaries for rvalues)
	pub fn place(&mut self, e: &syn::Expr) -> R<C> {
		match e {
			syn::Expr::Paren(p) => self.place(&p.expr),
			syn::Expr::Group(p) => self.place(&p.expr),
			syn::Expr::Path(p) if p.path.segments.len() == 1 && p.qself.is_none() => {
				let name = p.path.segments[0].ident.to_string();
				if let Some(c) = self.lookup(&name) {
					return Ok(c);
				}
				let v = self.eval_path(p, None)?;
				Ok(self.cell(v))
			}
			syn::Expr::Field(f) => {
				let base = self.place(&f.base)?;
				let base = self.deref_cell(&base);
				{
					let bv = base.v.borrow().clone();
					if let V::Ite(..) = bv {
						let fv = self.force(bv)?;
						self.write(&base, fv)?;
					}
				}
				let name = match &f.member {
					syn::Member::Named(i) => i.to_string(),
					syn::Member::Unnamed(i) => i.index.to_string(),
				};
				let bv = base.v.borrow();
				match &*bv {
					V::Struct(_, fs) => {
						for (k, c) in fs {
							if **k == *name {
								return Ok(c.clone());
							}
						}
						unsup(format!("no field {} in {}", name, bv.brief()))
					}
					V::Tuple(cs) => {
						let i: usize = name.parse().map_err(|_| Ctl::Unsupported("tuple field".into()))?;
						cs.get(i).cloned().ok_or(Ctl::Unsupported("tuple index".into()))
					}
					o => unsup(format!("field {} of {}", name, o.brief())),
				}
			}
			syn::Expr::Index(ix) => {
				let base = self.place(&ix.expr)?;
				let base = self.deref_cell(&base);
				let iv = self.eval(&ix.index)?;
				let bv = base.v.borrow().clone();
				match (&bv, iv) {
					(V::Seq(cs), V::Range(a, b, incl)) => {
						let (lo, hi) = self.range_bounds(a, b, incl, cs.len())?;
						if lo > hi || hi > cs.len() {
							return Err(Ctl::Panic(format!("slice index {}..{} out of range for length {}", lo, hi, cs.len())));
						}
						Ok(self.cell(V::Seq(cs[lo..hi].to_vec())))
					}
					(V::Seq(cs), iv) => {
						let (i, _) = self.concretize_int(iv)?;
						if i < 0 || i as usize >= cs.len() {
							return Err(Ctl::Panic(format!("index out of bounds: the len is {} but the index is {}", cs.len(), i)));
						}
						Ok(cs[i as usize].clone())
					}
					(V::Struct(n, _), iv) => {
						// user-defined Index
						let d = match self.find_method(n, "index") {
							Some(d) => d,
							None => return unsup(format!("Index on {}", n)),
						};
						let r = self.call_fn(&d, Some(n.to_string()), vec![V::Ref(base.clone()), iv], HashMap::new())?;
						match r {
							V::Ref(c) => Ok(c),
							o => Ok(self.cell(o)),
						}
					}
					(o, _) => unsup(format!("index into {}", o.brief())),
				}
			}
			syn::Expr::Unary(u) if matches!(u.op, syn::UnOp::Deref(_)) => {
				let inner = if Self::is_place_expr(&u.expr) {
					self.place(&u.expr)?
				} else {
					let v = self.eval(&u.expr)?;
					self.cell(v)
				};
				let v = inner.v.borrow().clone();
				match v {
					V::Ref(c) => Ok(c),
					// Box / already a value: deref is identity
					_ => Ok(inner),
				}
			}
			o => {
				let v = self.eval(o)?;
				match v {
					V::Ref(c) => {
						// a temporary holding a reference: keep the reference semantics
						Ok(self.cell(V::Ref(c)))
					}
					v => Ok(self.cell(v)),
				}
			}
		}
	}

	pub fn range_bounds(&mut self, a: Option<Box<V>>, b: Option<Box<V>>, incl: bool, len: usize) -> R<(usize, usize)> {
		let lo = match a {
			Some(x) => self.concretize_int(*x)?.0 as usize,
			None => 0,
		};
		let hi = match b {
			Some(x) => {
				let h = self.concretize_int(*x)?.0;
				if h < 0 {
					return Err(Ctl::Panic("negative slice end".into()));
				}
				(h as usize) + if incl { 1 } else { 0 }
			}
			None => len,
		};
		Ok((lo, hi))
	}

	pub fn assign_to(&mut self, left: &syn::Expr, v: V) -> R<()> {
		if let syn::Expr::Tuple(t) = left {
			// destructuring assignment
			if let V::Tuple(cs) = v {
				for (l, c) in t.elems.iter().zip(cs.iter()) {
					let x = self.read(c);
					self.assign_to(l, x)?;
				}
				return Ok(());
			}
		}
		if let syn::Expr::Index(ix) = left {
			// user-defined IndexMut is not used by the crate; fall through to place()
			let _ = ix;
		}
		let c = self.place(left)?;
		let old = c.v.borrow().clone();
		let v = match (&old, &v) {
			(V::Int(_, t), V::Int(i, ITy::Unk)) => V::Int(*i, *t),
			(V::SInt(_, t), V::Int(i, ITy::Unk)) => V::Int(*i, *t),
			(V::Int(_, t), V::SInt(x, ITy::Unk)) => V::SInt(*x, *t),
			_ => v,
		};
		self.write(&c, v)
	}

	fn eval_lit(&mut self, l: &syn::Lit, hint: Option<&syn::Type>) -> R<V> {
		match l {
			syn::Lit::Int(i) => {
				let suffix = i.suffix();
				let n: i128 = i.base10_parse::<i128>().map_err(|_| Ctl::Unsupported("int literal".into()))?;
				if suffix == "f64" || suffix == "f32" {
					return Ok(V::F(self.fl_from_i(n)));
				}
				if let Some(t) = ITy::from_name(suffix) {
					return Ok(V::Int(n, t));
				}
				if let Some(h) = hint {
					let hh = self.resolve_type_head(h);
					if hh == "f64" {
						return Ok(V::F(self.fl_from_i(n)));
					}
					if let Some(t) = ITy::from_name(&hh) {
						return Ok(V::Int(n, t));
					}
				}
				Ok(V::Int(n, ITy::Unk))
			}
			syn::Lit::Float(f) => {
				let digits = f.base10_digits();
				let approx: f64 = digits.parse().map_err(|_| Ctl::Unsupported("float literal".into()))?;
				let r = match Rat::parse_decimal(digits) {
					Some(r) => r,
					None => Rat::from_f64(approx).ok_or(Ctl::Unsupported(format!("float literal {} not representable", digits)))?,
				};
				Ok(V::F(self.fl_const(r, approx)))
			}
			syn::Lit::Bool(b) => Ok(V::Bool(b.value)),
			syn::Lit::Str(s) => Ok(V::Str(s.value().into())),
			syn::Lit::Char(c) => Ok(V::Str(c.value().to_string().into())),
			_ => unsup("literal kind"),
		}
	}

	fn eval_path(&mut self, p: &syn::ExprPath, hint: Option<&syn::Type>) -> R<V> {
		let segs: Vec<String> = p.path.segments.iter().map(|s| s.ident.to_string()).collect();
		if segs.len() == 1 && p.qself.is_none() {
			let name = &segs[0];
			if let Some(c) = self.lookup(name) {
				return Ok(self.read(&c));
			}
			if let Some((ty, e)) = self.find_const(name) {
				let file = if self.prog.consts_by_file.contains_key(&(self.cur_file(), name.to_string())) { self.cur_file() } else { self.prog.const_file.get(name.as_str()).cloned().unwrap_or_default() };
				let v = self.eval_const_in(&e, &ty, None, file)?;
				return Ok(v);
			}
			if name == "None" {
				return Ok(V::Enum("Option".into(), "None".into(), vec![]));
			}
			if self.prog.structs.get(name).map_or(false, |s| s.fields.is_empty()) {
				return Ok(V::Struct(name.as_str().into(), vec![]));
			}
			if self.prog.free_fns.contains_key(name) {
				return Ok(V::FnPath("".into(), name.as_str().into()));
			}
			if name == "Some" || name == "Ok" || name == "Err" {
				return Ok(V::FnPath("".into(), name.as_str().into()));
			}
			return unsup(format!("unknown name {}", name));
		}
		// Type::Item
		let (tyname, item) = self.split_path(p)?;
		// enum variant (unit)
		if let Some(en) = self.prog.enums.get(&tyname) {
			if let Some((_, tys, _)) = en.variants.iter().find(|(n, _, _)| *n == item) {
				if tys.is_empty() {
					return Ok(V::Enum(tyname.as_str().into(), item.as_str().into(), vec![]));
				} else {
					return Ok(V::FnPath(tyname.as_str().into(), item.as_str().into()));
				}
			}
		}
		if tyname == "Ordering" {
			return Ok(V::Enum("Ordering".into(), item.as_str().into(), vec![]));
		}
		if tyname == "Option" && item == "None" {
			return Ok(V::Enum("Option".into(), "None".into(), vec![]));
		}
		// associated const
		if let Some((ty, e)) = self.prog.assoc_consts.get(&(tyname.clone(), item.clone())).cloned() {
			let file = self.prog.assoc_const_file.get(&(tyname.clone(), item.clone())).cloned().unwrap_or_default();
			return self.eval_const_in(&e, &ty, Some(tyname.clone()), file);
		}
		// trait-level const for a type implementing the trait
		for ((t, n), (ty, e)) in self.prog.assoc_consts.clone().iter() {
			if n == &item && self.prog.implements.contains(&(tyname.clone(), t.clone())) {
				let file = self.prog.assoc_const_file.get(&(t.clone(), n.clone())).cloned().unwrap_or_default();
				return self.eval_const_in(e, ty, Some(tyname.clone()), file);
			}
		}
		// numeric consts
		if let Some(t) = ITy::from_name(&tyname) {
			let (lo, hi) = t.range();
			match item.as_str() {
				"MAX" => return Ok(V::Int(hi, t)),
				"MIN" => return Ok(V::Int(lo, t)),
				_ => {}
			}
		}
		if tyname == "f64" {
			match item.as_str() {
				"EPSILON" => return Ok(V::F(self.fl_const(Rat::new(1, 1i128 << 52).unwrap(), f64::EPSILON))),
				"MAX" | "INFINITY" | "NAN" | "MIN" | "NEG_INFINITY" | "MIN_POSITIVE" => {
					if self.mode == Mode::Concrete {
						return Ok(V::F(Fl::C(match item.as_str() {
							"MAX" => f64::MAX,
							"MIN" => f64::MIN,
							"INFINITY" => f64::INFINITY,
							"NEG_INFINITY" => f64::NEG_INFINITY,
							"MIN_POSITIVE" => f64::MIN_POSITIVE,
							_ => f64::NAN,
						})));
					}
					if item == "NAN" {
						// used by the crate only to fill fields that are never read (empty RenkoOutput): an
						// unconstrained value; is_nan() on it is not modelled
						let r = self.tm.var("__nan_placeholder", crate::term::Sort::Real);
						let z = self.tm.bool_(false);
						return Ok(V::F(Fl::S { r, z }));
					}
					return unsup(format!("f64::{} in symbolic mode", item));
				}
				_ => {}
			}
		}
		let _ = hint;
		// function item
		Ok(V::FnPath(tyname.as_str().into(), item.as_str().into()))
	}

	fn eval_const(&mut self, e: &syn::Expr, ty: &syn::Type, self_ty: Option<String>) -> R<V> {
		let f = self.cur_file();
		self.eval_const_in(e, ty, self_ty, f)
	}
	fn eval_const_in(&mut self, e: &syn::Expr, ty: &syn::Type, self_ty: Option<String>, file: String) -> R<V> {
		self.frames.push(Frame { scopes: vec![HashMap::new()], self_ty, tparams: HashMap::new(), ret_hint: None, fname: "<const>".into(), file });
		let r = self.eval_hint(e, Some(ty));
		self.frames.pop();
		let v = r?;
		Ok(self.coerce(v, ty))
	}

	/// split `A::B::item` / `<T as Tr>::item` / `Self::X::item` into (resolved type head, item)
	pub fn split_path(&mut self, p: &syn::ExprPath) -> R<(String, String)> {
		let segs: Vec<String> = p.path.segments.iter().map(|s| s.ident.to_string()).collect();
		let item = segs.last().unwrap().clone();
		if let Some(q) = &p.qself {
			let base = self.resolve_type_head(&q.ty);
			return Ok((base, item));
		}
		if segs.len() < 2 {
			return Ok(("".into(), item));
		}
		let tyseg = &segs[segs.len() - 2];
		// Self::Instance::X style
		if segs.len() >= 3 {
			let first = &segs[segs.len() - 3];
			let base = if first == "Self" { self.self_ty().unwrap_or_default() } else { self.resolve_name(first) };
			if let Some(t) = self.prog.assoc_types.get(&(base, tyseg.clone())) {
				let h = self.resolve_type_head(&t.clone());
				return Ok((h, item));
			}
		}
		let ty = if tyseg == "Self" { self.self_ty().unwrap_or_default() } else { self.resolve_name(tyseg) };
		Ok((ty, item))
	}

	fn eval_struct_lit(&mut self, s: &syn::ExprStruct) -> R<V> {
		// resolve the struct name
		let segs: Vec<String> = s.path.segments.iter().map(|x| x.ident.to_string()).collect();
		let name = if segs.len() == 1 {
			if segs[0] == "Self" {
				self.self_ty().unwrap_or_default()
			} else {
				self.resolve_name(&segs[0])
			}
		} else {
			// Self::Instance / Type::Assoc / module::Type
			let first = &segs[segs.len() - 2];
			let last = &segs[segs.len() - 1];
			let base = if first == "Self" { self.self_ty().unwrap_or_default() } else { self.resolve_name(first) };
			match self.prog.assoc_types.get(&(base, last.clone())) {
				Some(t) => {
					let t = t.clone();
					self.resolve_type_head(&t)
				}
				None => self.resolve_name(last),
			}
		};
		let def = match self.prog.structs.get(&name) {
			Some(d) => d.clone(),
			None => return unsup(format!("struct literal of unknown struct {}", name)),
		};
		let mut given: HashMap<String, V> = HashMap::new();
		for f in &s.fields {
			if !self.attrs_ok(&f.attrs) {
				continue;
			}
			let fname = match &f.member {
				syn::Member::Named(i) => i.to_string(),
				syn::Member::Unnamed(i) => i.index.to_string(),
			};
			let fty = def.fields.iter().find(|(n, _)| *n == fname).map(|(_, t)| t.clone());
			let v = self.eval_hint(&f.expr, fty.as_ref())?;
			let v = match &fty {
				Some(t) => self.coerce(v, t),
				None => v,
			};
			given.insert(fname, v);
		}
		let mut rest: Option<V> = None;
		if let Some(r) = &s.rest {
			rest = Some(self.eval(r)?);
		}
		let mut fields = Vec::new();
		for (fname, _) in &def.fields {
			let v = match given.remove(fname) {
				Some(v) => v,
				None => match &rest {
					Some(V::Struct(_, fs)) => {
						let c = fs.iter().find(|(k, _)| **k == **fname).map(|(_, c)| c.clone());
						match c {
							Some(c) => self.read(&c),
							None => return unsup("missing field in ..rest"),
						}
					}
					_ => return unsup(format!("missing field {} in struct literal {}", fname, name)),
				},
			};
			let c = self.cell(v);
			fields.push((Rc::from(fname.as_str()), c));
		}
		Ok(V::Struct(name.as_str().into(), fields))
	}

	fn eval_if(&mut self, i: &syn::ExprIf, hint: Option<&syn::Type>) -> R<V> {
		// if let
		if let syn::Expr::Let(l) = &*i.cond {
			let v = self.eval(&l.expr)?;
			let v = self.force(v)?;
			self.push_scope();
			let m = self.match_pat(&l.pat, &v)?;
			let yes = match m {
				MatchRes::Yes => true,
				MatchRes::No => false,
				MatchRes::Cond(t) => self.branch(t)?,
			};
			if yes {
				let r = self.eval_block(&i.then_branch);
				self.pop_scope();
				return r;
			}
			self.pop_scope();
			return match &i.else_branch {
				Some((_, e)) => self.eval_hint(e, hint),
				None => Ok(V::Unit),
			};
		}
		let c = self.eval(&i.cond)?;
		self.eval_if_cond(i, c, hint)
	}

	fn eval_if_cond(&mut self, i: &syn::ExprIf, c: V, hint: Option<&syn::Type>) -> R<V> {
		let c = match c {
			V::Ref(cc) => self.read(&cc),
			o => o,
		};
		match c {
			V::Bool(true) => self.eval_block(&i.then_branch),
			V::Bool(false) => match &i.else_branch {
				Some((_, e)) => self.eval_hint(e, hint),
				None => Ok(V::Unit),
			},
			V::SBool(t) => {
				let h1 = hint.cloned();
				let h2 = hint.cloned();
				let _ = h1;
				let mut f1 = |s: &mut Self| s.eval_block(&i.then_branch);
				let mut f2 = |s: &mut Self| match &i.else_branch {
					Some((_, e)) => s.eval_hint(e, h2.as_ref()),
					None => Ok(V::Unit),
				};
				self.choice(t, site(i), &mut f1, &mut f2)
			}
			o => unsup(format!("if condition {}", o.brief())),
		}
	}

	fn eval_match(&mut self, m: &syn::ExprMatch, hint: Option<&syn::Type>) -> R<V> {
		let scrut = if Self::is_place_expr(&m.expr) {
			let c = self.place(&m.expr)?;
			let holds_ref = matches!(&*c.v.borrow(), V::Ref(_));
			if holds_ref {
				// the scrutinee is a reference: default binding mode binds by reference
				V::Ref(self.deref_cell(&c))
			} else if Self::pat_has_ref(&m.arms) {
				V::Ref(c)
			} else {
				// by-value scrutinee: bindings copy out of it
				self.read(&c)
			}
		} else {
			self.eval(&m.expr)?
		};
		let scrut = self.force(scrut)?;
		self.match_arms(m, 0, scrut, hint)
	}

	fn pat_has_ref(arms: &[syn::Arm]) -> bool {
		use quote::ToTokens;
		arms.iter().any(|a| {
			let t = a.pat.to_token_stream().to_string();
			t.contains("ref ") || t.starts_with("ref")
		})
	}

	fn match_arms(&mut self, m: &syn::ExprMatch, from: usize, scrut: V, hint: Option<&syn::Type>) -> R<V> {
		for (ai, arm) in m.arms.iter().enumerate().skip(from) {
			self.push_scope();
			let r = self.match_pat(&arm.pat, &scrut);
			let mut res = match r {
				Ok(x) => x,
				Err(e) => {
					self.pop_scope();
					return Err(e);
				}
			};
			if let MatchRes::No = res {
				self.pop_scope();
				continue;
			}
			if let Some((_, g)) = &arm.guard {
				let gv = match self.eval(g) {
					Ok(x) => x,
					Err(e) => {
						self.pop_scope();
						return Err(e);
					}
				};
				res = match (res, gv) {
					(_, V::Bool(false)) => MatchRes::No,
					(r, V::Bool(true)) => r,
					(MatchRes::Yes, V::SBool(t)) => MatchRes::Cond(t),
					(MatchRes::Cond(c), V::SBool(t)) => MatchRes::Cond(self.tm.and(c, t)),
					_ => {
						self.pop_scope();
						return unsup("match guard value");
					}
				};
			}
			match res {
				MatchRes::No => {
					self.pop_scope();
					continue;
				}
				MatchRes::Yes => {
					let r = self.eval_hint(&arm.body, hint);
					self.pop_scope();
					return r;
				}
				MatchRes::Cond(t) => {
					// bindings made by this arm live in the scope just pushed; capture it
					let scope = self.frame().scopes.pop().unwrap();
					let h = hint.cloned();
					let h2 = hint.cloned();
					let sc2 = scrut.clone();
					let mut f1 = |s: &mut Self| {
						s.frame().scopes.push(scope.clone());
						let r = s.eval_hint(&arm.body, h.as_ref());
						s.frame().scopes.pop();
						r
					};
					let mut f2 = |s: &mut Self| s.match_arms(m, ai + 1, sc2.clone(), h2.as_ref());
					return self.choice(t, site(arm), &mut f1, &mut f2);
				}
			}
		}
		Err(Ctl::Panic("no match arm matched (unreachable in well-typed code)".into()))
	}

	/// match `v` against `pat`, binding names in the current scope
	pub fn match_pat(&mut self, pat: &syn::Pat, v: &V) -> R<MatchRes> {
		match pat {
			syn::Pat::Wild(_) => Ok(MatchRes::Yes),
			syn::Pat::Rest(_) => Ok(MatchRes::Yes),
			syn::Pat::Paren(p) => self.match_pat(&p.pat, v),
			syn::Pat::Type(t) => {
				let v2 = self.coerce(v.clone(), &t.ty);
				self.match_pat(&t.pat, &v2)
			}
			syn::Pat::Ident(i) => {
				let name = i.ident.to_string();
				// a path to a const / unit variant written as a bare ident
				if i.subpat.is_none() && i.by_ref.is_none() && i.mutability.is_none() {
					if name == "None" {
						return self.match_variant("Option", "None", &[], v);
					}
					if let Some((ty, e)) = self.find_const(&name) {
						let cv = self.eval_const(&e, &ty, None)?;
						return self.match_value(&cv, v);
					}
				}
				let res = match &i.subpat {
					Some((_, sp)) => self.match_pat(sp, v)?,
					None => MatchRes::Yes,
				};
				if i.by_ref.is_some() {
					match v {
						V::Ref(c) => self.bind(&name, V::Ref(c.clone())),
						o => {
							let c = self.cell(o.clone());
							self.bind(&name, V::Ref(c));
						}
					}
				} else {
					let val = match v {
						// binding a matched-by-reference scrutinee: default binding mode gives a reference
						V::Ref(c) => V::Ref(c.clone()),
						o => self.deep(o.clone()),
					};
					self.bind(&name, val);
				}
				Ok(res)
			}
			syn::Pat::Reference(r) => match v {
				V::Ref(c) => {
					let inner = self.read(c);
					self.match_pat(&r.pat, &inner)
				}
				o => {
					let o = o.clone();
					self.match_pat(&r.pat, &o)
				}
			},
			syn::Pat::Lit(l) => {
				let lv = self.eval_lit(&l.lit, None)?;
				self.match_value(&lv, v)
			}
			syn::Pat::Range(r) => {
				let inner = self.deref_val(v);
				let lo = match &r.start {
					Some(e) => Some(self.eval(e)?),
					None => None,
				};
				let hi = match &r.end {
					Some(e) => Some(self.eval(e)?),
					None => None,
				};
				let incl = matches!(r.limits, syn::RangeLimits::Closed(_));
				let mut cond = V::Bool(true);
				if let Some(lo) = lo {
					let c = self.bin_cmp("<=", lo, inner.clone())?;
					cond = self.bool_and(cond, c)?;
				}
				if let Some(hi) = hi {
					let c = self.bin_cmp(if incl { "<=" } else { "<" }, inner.clone(), hi)?;
					cond = self.bool_and(cond, c)?;
				}
				Ok(match cond {
					V::Bool(true) => MatchRes::Yes,
					V::Bool(false) => MatchRes::No,
					V::SBool(t) => MatchRes::Cond(t),
					_ => return unsup("range pattern"),
				})
			}
			syn::Pat::Or(o) => {
				// first alternative that can match; symbolic alternatives are or-ed (only when they bind nothing new)
				let mut acc: Option<T> = None;
				for c in &o.cases {
					match self.match_pat(c, v)? {
						MatchRes::Yes => return Ok(MatchRes::Yes),
						MatchRes::No => {}
						MatchRes::Cond(t) => {
							acc = Some(match acc {
								Some(a) => self.tm.or(a, t),
								None => t,
							});
						}
					}
				}
				Ok(match acc {
					Some(t) => MatchRes::Cond(t),
					None => MatchRes::No,
				})
			}
			syn::Pat::Tuple(t) => {
				let inner = self.deref_val(v);
				let by_ref = matches!(v, V::Ref(_));
				match inner {
					V::Tuple(cs) => {
						if cs.len() != t.elems.len() {
							return unsup("tuple pattern arity");
						}
						self.match_seq(t.elems.iter(), &cs, by_ref)
					}
					V::Unit if t.elems.is_empty() => Ok(MatchRes::Yes),
					o => unsup(format!("tuple pattern on {}", o.brief())),
				}
			}
			syn::Pat::TupleStruct(ts) => {
				let (tyname, var) = self.pat_path(&ts.path, ts.qself.as_ref())?;
				let inner = self.deref_val(v);
				let inner = self.force(inner)?;
				let by_ref = matches!(v, V::Ref(_));
				match inner {
					V::Enum(n, va, cs) => {
						if !Self::enum_name_eq(&n, &tyname) || *va != *var {
							return Ok(MatchRes::No);
						}
						self.match_seq(ts.elems.iter(), &cs, by_ref)
					}
					V::Struct(n, fs) if *n == *var || *n == *tyname => {
						let cs: Vec<C> = fs.iter().map(|(_, c)| c.clone()).collect();
						self.match_seq(ts.elems.iter(), &cs, by_ref)
					}
					o => unsup(format!("tuple-struct pattern {}::{} on {}", tyname, var, o.brief())),
				}
			}
			syn::Pat::Path(p) => {
				let (tyname, var) = self.pat_path(&p.path, p.qself.as_ref())?;
				// associated const?
				if let Some((ty, e)) = self.prog.assoc_consts.get(&(tyname.clone(), var.clone())).cloned() {
					let file = self.prog.assoc_const_file.get(&(tyname.clone(), var.clone())).cloned().unwrap_or_default();
					let cv = self.eval_const_in(&e, &ty, Some(tyname), file)?;
					return self.match_value(&cv, v);
				}
				// numeric constants such as PeriodType::MAX
				if ITy::from_name(&tyname).is_some() || tyname == "f64" {
					let ep = syn::ExprPath { attrs: vec![], qself: p.qself.clone(), path: p.path.clone() };
					let cv = self.eval_path(&ep, None)?;
					return self.match_value(&cv, v);
				}
				self.match_variant(&tyname, &var, &[], v)
			}
			syn::Pat::Struct(s) => {
				let inner = self.deref_val(v);
				let by_ref = matches!(v, V::Ref(_));
				match inner {
					V::Struct(_, fs) => {
						let mut acc = MatchRes::Yes;
						for fp in &s.fields {
							let name = match &fp.member {
								syn::Member::Named(i) => i.to_string(),
								syn::Member::Unnamed(i) => i.index.to_string(),
							};
							let c = match fs.iter().find(|(k, _)| **k == *name) {
								Some((_, c)) => c.clone(),
								None => return unsup("struct pattern field"),
							};
							let fv = if by_ref { V::Ref(c) } else { self.read(&c) };
							let r = self.match_pat(&fp.pat, &fv)?;
							acc = self.and_res(acc, r);
						}
						Ok(acc)
					}
					o => unsup(format!("struct pattern on {}", o.brief())),
				}
			}
			syn::Pat::Slice(_) => unsup("slice pattern"),
			o => unsup(format!("pattern kind {}", o.to_token_stream())),
		}
	}

	fn enum_name_eq(a: &str, b: &str) -> bool {
		a == b || b.is_empty() || b == "Self"
	}

	fn and_res(&mut self, a: MatchRes, b: MatchRes) -> MatchRes {
		match (a, b) {
			(MatchRes::No, _) | (_, MatchRes::No) => MatchRes::No,
			(MatchRes::Yes, x) | (x, MatchRes::Yes) => x,
			(MatchRes::Cond(x), MatchRes::Cond(y)) => MatchRes::Cond(self.tm.and(x, y)),
		}
	}

	fn match_seq<'a>(&mut self, pats: impl Iterator<Item = &'a syn::Pat>, cs: &[C], by_ref: bool) -> R<MatchRes> {
		let mut acc = MatchRes::Yes;
		for (p, c) in pats.zip(cs.iter()) {
			let fv = if by_ref { V::Ref(c.clone()) } else { self.read(c) };
			let r = self.match_pat(p, &fv)?;
			acc = self.and_res(acc, r);
			if let MatchRes::No = acc {
				return Ok(MatchRes::No);
			}
		}
		Ok(acc)
	}

	fn pat_path(&mut self, path: &syn::Path, qself: Option<&syn::QSelf>) -> R<(String, String)> {
		let ep = syn::ExprPath { attrs: vec![], qself: qself.cloned(), path: path.clone() };
		let segs: Vec<String> = path.segments.iter().map(|s| s.ident.to_string()).collect();
		if segs.len() == 1 {
			let n = &segs[0];
			return Ok(match n.as_str() {
				"Some" | "None" => ("Option".into(), n.clone()),
				"Ok" | "Err" => ("Result".into(), n.clone()),
				_ => ("".into(), n.clone()),
			});
		}
		self.split_path(&ep)
	}

	fn match_variant(&mut self, tyname: &str, var: &str, _p: &[syn::Pat], v: &V) -> R<MatchRes> {
		let inner = self.deref_val(v);
		let inner = self.force(inner)?;
		match inner {
			V::Enum(n, va, _) => Ok(if Self::enum_name_eq(&n, tyname) && *va == *var { MatchRes::Yes } else { MatchRes::No }),
			V::Struct(n, fs) if fs.is_empty() => Ok(if *n == *var { MatchRes::Yes } else { MatchRes::No }),
			o => unsup(format!("path pattern {}::{} on {}", tyname, var, o.brief())),
		}
	}

	fn match_value(&mut self, lit: &V, v: &V) -> R<MatchRes> {
		let inner = self.deref_val(v);
		let c = self.bin_cmp("==", inner, lit.clone())?;
		Ok(match c {
			V::Bool(true) => MatchRes::Yes,
			V::Bool(false) => MatchRes::No,
			V::SBool(t) => MatchRes::Cond(t),
			_ => return unsup("literal pattern compare"),
		})
	}

	/// irrefutable binding (let / fn params / closure params); returns false if it did not match
	pub fn bind_pat(&mut self, pat: &syn::Pat, v: V) -> R<bool> {
		// by-value binding of a plain identifier keeps the value as is (no extra reference)
		if let syn::Pat::Ident(i) = pat {
			if i.subpat.is_none() && i.by_ref.is_none() {
				let name = i.ident.to_string();
				self.bind(&name, v);
				return Ok(true);
			}
		}
		match self.match_pat(pat, &v)? {
			MatchRes::Yes => Ok(true),
			MatchRes::No => Ok(false),
			MatchRes::Cond(t) => self.branch(t),
		}
	}
}
