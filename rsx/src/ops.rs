//! Operators, casts, comparisons.
use crate::interp::*;
use crate::term::{Rat, T};
use crate::value::*;
use std::collections::HashMap;

impl<'p> Interp<'p> {
	pub fn fl_parts(&mut self, f: Fl) -> (T, T) {
		match f {
			Fl::S { r, z } => (r, z),
			Fl::C(x) => {
				let r = Rat::from_f64(x).unwrap_or(Rat::int(0));
				let rt = self.tm.rat(r);
				let z = self.tm.bool_(x == 0.0 && x.is_sign_negative());
				(rt, z)
			}
		}
	}
	pub fn mk_fl(&mut self, r: T) -> V {
		let z = self.tm.bool_(false);
		V::F(Fl::S { r, z })
	}

	pub fn un_neg(&mut self, v: V) -> R<V> {
		let v = self.deref_val(&v);
		match v {
			V::F(Fl::C(x)) => Ok(V::F(Fl::C(-x))),
			V::F(Fl::S { r, z }) => {
				let r2 = self.tm.neg(r);
				let z2 = if self.mode == Mode::Fp { self.tm.not(z) } else { z };
				Ok(V::F(Fl::S { r: r2, z: z2 }))
			}
			V::Int(i, t) => {
				let n = i.checked_neg().ok_or(Ctl::Panic("attempt to negate with overflow".into()))?;
				let (lo, hi) = t.range();
				if self.overflow_checks && (n < lo || n > hi) {
					return Err(Ctl::Panic("attempt to negate with overflow".into()));
				}
				Ok(V::Int(n, t))
			}
			V::SInt(t, ty) => {
				let n = self.tm.neg(t);
				Ok(self.mk_int(n, ty))
			}
			V::Struct(..) | V::Enum(..) | V::Ite(..) => {
				let v = self.force(v)?;
				let tag = v.tag();
				match self.find_method(&tag, "neg") {
					Some(d) => self.call_fn(&d, Some(tag), vec![v], HashMap::new()),
					None => unsup(format!("neg on {}", tag)),
				}
			}
			o => unsup(format!("neg on {}", o.brief())),
		}
	}
	pub fn un_not(&mut self, v: V) -> R<V> {
		let v = self.deref_val(&v);
		match v {
			V::Bool(b) => Ok(V::Bool(!b)),
			V::SBool(t) => {
				let n = self.tm.not(t);
				Ok(self.mk_bool(n))
			}
			V::Int(i, t) => Ok(V::Int(t.wrap(!i), t)),
			o => unsup(format!("not on {}", o.brief())),
		}
	}
	pub fn bool_and(&mut self, a: V, b: V) -> R<V> {
		match (a, b) {
			(V::Bool(x), V::Bool(y)) => Ok(V::Bool(x && y)),
			(a, b) => {
				let x = self.bool_term(&a);
				let y = self.bool_term(&b);
				let t = self.tm.and(x, y);
				Ok(self.mk_bool(t))
			}
		}
	}

	pub fn eval_binary(&mut self, b: &syn::ExprBinary, hint: Option<&syn::Type>) -> R<V> {
		use syn::BinOp::*;
		match &b.op {
			And(_) | Or(_) => {
				let is_and = matches!(b.op, And(_));
				let l = self.eval(&b.left)?;
				let l = self.deref_val(&l);
				match l {
					V::Bool(x) => {
						if x != is_and {
							return Ok(V::Bool(x));
						}
						let r = self.eval(&b.right)?;
						Ok(self.deref_val(&r))
					}
					V::SBool(t) => {
						// evaluate the right side speculatively under the guard; fall back to a fork
						let guard = if is_and { t } else { self.tm.not(t) };
						match self.decided(guard)? {
							Some(true) => {
								let r = self.eval(&b.right)?;
								return Ok(self.deref_val(&r));
							}
							Some(false) => return Ok(V::Bool(!is_and)),
							None => {}
						}
						let right = &b.right;
						let key = b as *const syn::ExprBinary as usize;
						let r = self.spec_unit(key, &mut |s: &mut Self| match s.speculate(guard, &mut |s2: &mut Self| s2.eval(right)) {
							Ok(v) => Ok(Some(v)),
							Err(Ctl::Infeasible) => Ok(None),
							Err(e) => Err(e),
						})?;
						match r {
							Some(Some(rv)) => {
								let rv = self.deref_val(&rv);
								let rt = match rv {
									V::Bool(_) | V::SBool(_) => self.bool_term(&rv),
									_ => return unsup("non-boolean operand of &&/||"),
								};
								let res = if is_and { self.tm.and(t, rt) } else { self.tm.or(t, rt) };
								return Ok(self.mk_bool(res));
							}
							Some(None) => return Ok(V::Bool(!is_and)),
							None => {}
						}
						if !self.spec_marks.is_empty() {
							return Err(Ctl::Impure("short-circuit with impure right side in speculation".into()));
						}
						let go = self.branch(guard)?;
						if go {
							let r = self.eval(&b.right)?;
							Ok(self.deref_val(&r))
						} else {
							Ok(V::Bool(!is_and))
						}
					}
					o => unsup(format!("&&/|| on {}", o.brief())),
				}
			}
			AddAssign(_) | SubAssign(_) | MulAssign(_) | DivAssign(_) | RemAssign(_) | BitAndAssign(_) | BitOrAssign(_) | BitXorAssign(_) | ShlAssign(_) | ShrAssign(_) => {
				let op = match &b.op {
					AddAssign(_) => "+",
					SubAssign(_) => "-",
					MulAssign(_) => "*",
					DivAssign(_) => "/",
					RemAssign(_) => "%",
					BitAndAssign(_) => "&",
					BitOrAssign(_) => "|",
					BitXorAssign(_) => "^",
					ShlAssign(_) => "<<",
					_ => ">>",
				};
				let r = self.eval(&b.right)?;
				let c = self.place(&b.left)?;
				let c = self.deref_cell(&c);
				let l = c.v.borrow().clone();
				let v = self.arith(op, l, r)?;
				self.write(&c, v)?;
				Ok(V::Unit)
			}
			_ => {
				let l = self.eval_hint(&b.left, None)?;
				// literal on the right adopts the left type
				let r = self.eval_hint(&b.right, None)?;
				let _ = hint;
				let op = match &b.op {
					Add(_) => "+",
					Sub(_) => "-",
					Mul(_) => "*",
					Div(_) => "/",
					Rem(_) => "%",
					BitAnd(_) => "&",
					BitOr(_) => "|",
					BitXor(_) => "^",
					Shl(_) => "<<",
					Shr(_) => ">>",
					Eq(_) => "==",
					Ne(_) => "!=",
					Lt(_) => "<",
					Le(_) => "<=",
					Gt(_) => ">",
					Ge(_) => ">=",
					_ => return unsup("binary operator"),
				};
				match op {
					"==" | "!=" | "<" | "<=" | ">" | ">=" => self.bin_cmp(op, l, r),
					_ => self.arith(op, l, r),
				}
			}
		}
	}

	pub fn arith(&mut self, op: &str, l: V, r: V) -> R<V> {
		let l = self.deref_val(&l);
		let r = self.deref_val(&r);
		match (l, r) {
			(V::F(a), V::F(b)) => self.fl_arith(op, a, b),
			(V::F(a), V::Int(i, ITy::Unk)) => {
				let b = self.fl_from_i(i);
				self.fl_arith(op, a, b)
			}
			(V::Int(i, ITy::Unk), V::F(b)) => {
				let a = self.fl_from_i(i);
				self.fl_arith(op, a, b)
			}
			(V::Int(a, ta), V::Int(b, tb)) => {
				let ty = if ta == ITy::Unk { tb } else { ta };
				self.int_arith(op, a, b, ty)
			}
			(a @ (V::Int(..) | V::SInt(..)), b @ (V::Int(..) | V::SInt(..))) => {
				let (x, ta) = self.int_term(&a);
				let (y, tb) = self.int_term(&b);
				let ty = if ta == ITy::Unk { tb } else { ta };
				let t = match op {
					"+" => self.tm.add(x, y),
					"-" => self.tm.sub(x, y),
					"*" => self.tm.mul(x, y),
					"/" => {
						// Rust integer division truncates; only non-negative operands are expected here
						self.tm.idiv(x, y)
					}
					"%" => self.tm.imod(x, y),
					_ => return unsup(format!("operator {} on symbolic integers", op)),
				};
				Ok(self.mk_int(t, ty))
			}
			(a @ (V::Bool(_) | V::SBool(_)), b @ (V::Bool(_) | V::SBool(_))) => {
				let x = self.bool_term(&a);
				let y = self.bool_term(&b);
				let t = match op {
					"&" => self.tm.and(x, y),
					"|" => self.tm.or(x, y),
					"^" => {
						let e = self.tm.eq(x, y);
						self.tm.not(e)
					}
					_ => return unsup("bool operator"),
				};
				Ok(self.mk_bool(t))
			}
			(l @ (V::Struct(..) | V::Enum(..) | V::Ite(..)), r) => {
				let l = self.force(l)?;
				let r = self.force(r)?;
				let name = match op {
					"+" => "add",
					"-" => "sub",
					"*" => "mul",
					"/" => "div",
					_ => return unsup("operator on user type"),
				};
				let tag = l.tag();
				match self.find_method(&tag, name) {
					Some(d) => self.call_fn(&d, Some(tag), vec![l, r], HashMap::new()),
					None => unsup(format!("{} on {}", name, tag)),
				}
			}
			(a, b) => unsup(format!("arith {} on {} and {}", op, a.brief(), b.brief())),
		}
	}

	pub fn int_arith(&mut self, op: &str, a: i128, b: i128, ty: ITy) -> R<V> {
		let (lo, hi) = ty.range();
		let chk = |s: &Self, v: Option<i128>, what: &str| -> R<V> {
			match v {
				Some(x) if x >= lo && x <= hi => Ok(V::Int(x, ty)),
				Some(x) if !s.overflow_checks => Ok(V::Int(ty.wrap(x), ty)),
				_ => Err(Ctl::Panic(format!("attempt to {} with overflow", what))),
			}
		};
		match op {
			"+" => chk(self, a.checked_add(b), "add"),
			"-" => chk(self, a.checked_sub(b), "subtract"),
			"*" => chk(self, a.checked_mul(b), "multiply"),
			"/" => {
				if b == 0 {
					return Err(Ctl::Panic("attempt to divide by zero".into()));
				}
				chk(self, a.checked_div(b), "divide")
			}
			"%" => {
				if b == 0 {
					return Err(Ctl::Panic("attempt to calculate the remainder with a divisor of zero".into()));
				}
				chk(self, a.checked_rem(b), "calculate the remainder")
			}
			"&" => Ok(V::Int(a & b, ty)),
			"|" => Ok(V::Int(a | b, ty)),
			"^" => Ok(V::Int(a ^ b, ty)),
			"<<" => {
				if b < 0 || b as u32 >= ty.bits() {
					return Err(Ctl::Panic("attempt to shift left with overflow".into()));
				}
				Ok(V::Int(ty.wrap(a << b), ty))
			}
			">>" => {
				if b < 0 || b as u32 >= ty.bits() {
					return Err(Ctl::Panic("attempt to shift right with overflow".into()));
				}
				Ok(V::Int(a >> b, ty))
			}
			_ => unsup(format!("int operator {}", op)),
		}
	}

	pub fn fl_arith(&mut self, op: &str, a: Fl, b: Fl) -> R<V> {
		if let (Fl::C(x), Fl::C(y)) = (a, b) {
			let r = match op {
				"+" => x + y,
				"-" => x - y,
				"*" => x * y,
				"/" => x / y,
				"%" => x % y,
				_ => return unsup("float operator"),
			};
			return Ok(V::F(Fl::C(self.rf(r))));
		}
		let (ra, _) = self.fl_parts(a);
		let (rb, _) = self.fl_parts(b);
		let r = match op {
			"+" => self.tm.add(ra, rb),
			"-" => self.tm.sub(ra, rb),
			"*" => self.tm.mul(ra, rb),
			"/" => {
				// division by a value that can be zero: NaN/inf in IEEE; over the reals we require the
				// divisor to be non-zero on this path (otherwise the path is reported)
				if self.tm.as_rat(rb).map_or(false, |q| q.is_zero()) {
					return Err(Ctl::Panic("float division by constant zero (NaN/inf)".into()));
				}
				if self.tm.as_rat(rb).is_none() {
					let zero = self.tm.real_i(0);
					let isz = self.tm.eq(rb, zero);
					match self.decided(isz)? {
						Some(false) => {}
						Some(true) => return Err(Ctl::Panic("float division by zero (NaN/inf)".into())),
						None => {
							if self.div_zero_forks {
								if self.branch(isz)? {
									return Err(Ctl::Panic("float division by zero (NaN/inf)".into()));
								}
							} else {
								// outside the claim: assume the divisor non-zero and record it
								let nz = self.tm.not(isz);
								if !self.spec_marks.is_empty() {
									return Err(Ctl::Impure("division guard inside speculation".into()));
								}
								self.assume(nz)?;
								self.div_assumptions += 1;
							}
						}
					}
				}
				self.tm.div(ra, rb)
			}
			_ => return unsup(format!("float operator {}", op)),
		};
		Ok(self.mk_fl(r))
	}

	/// a < b for the IEEE bit patterns of two finite floats read as signed / unsigned integers
	fn bits_lt(&mut self, x: Fl, y: Fl, signed: bool) -> T {
		let (ra, za) = self.fl_parts(x);
		let (rb, zb) = self.fl_parts(y);
		let zero = self.tm.real_i(0);
		// sign bit set: negative value or -0.0
		let a_lt0 = self.tm.lt(ra, zero);
		let a_is0 = self.tm.eq(ra, zero);
		let a_nz = self.tm.and(a_is0, za);
		let sa = self.tm.or(a_lt0, a_nz);
		let b_lt0 = self.tm.lt(rb, zero);
		let b_is0 = self.tm.eq(rb, zero);
		let b_nz = self.tm.and(b_is0, zb);
		let sb = self.tm.or(b_lt0, b_nz);
		let nsa = self.tm.not(sa);
		let nsb = self.tm.not(sb);
		// both sign bits clear: numeric order; both set: the magnitude bits order |a| vs |b|, i.e. a > b numerically
		let num_lt = self.tm.lt(ra, rb);
		let num_gt = self.tm.lt(rb, ra);
		let both_pos = self.tm.and(nsa, nsb);
		let both_neg = self.tm.and(sa, sb);
		let c1 = self.tm.and(both_pos, num_lt);
		let c2 = self.tm.and(both_neg, num_gt);
		// mixed signs: signed view: the one with the sign bit is smaller; unsigned view: it is larger
		let mixed = if signed { self.tm.and(sa, nsb) } else { self.tm.and(nsa, sb) };
		let c12 = self.tm.or(c1, c2);
		self.tm.or(c12, mixed)
	}

	pub fn bin_cmp(&mut self, op: &str, l: V, r: V) -> R<V> {
		let l = self.deref_val(&l);
		let r = self.deref_val(&r);
		if let (V::Struct(n1, f1), V::Struct(n2, f2)) = (&l, &r) {
			if n1 == n2 && (&**n1 == "__bitsint_s" || &**n1 == "__bitsint_u") {
				let (x, y) = (f1[0].1.v.borrow().clone(), f2[0].1.v.borrow().clone());
				if let (V::F(x), V::F(y)) = (x, y) {
					let signed = &**n1 == "__bitsint_s";
					let t = match op {
						"==" => self.bits_eq(x, y),
						"!=" => {
							let e = self.bits_eq(x, y);
							self.tm.not(e)
						}
						"<" => self.bits_lt(x, y, signed),
						">" => self.bits_lt(y, x, signed),
						"<=" => {
							let g = self.bits_lt(y, x, signed);
							self.tm.not(g)
						}
						_ => {
							let g = self.bits_lt(x, y, signed);
							self.tm.not(g)
						}
					};
					return Ok(self.mk_bool(t));
				}
			}
		}
		let res = match (&l, &r) {
			(V::F(Fl::C(x)), V::F(Fl::C(y))) => V::Bool(match op {
				"==" => x == y,
				"!=" => x != y,
				"<" => x < y,
				"<=" => x <= y,
				">" => x > y,
				_ => x >= y,
			}),
			(V::F(_), V::F(_)) | (V::F(_), V::Int(_, ITy::Unk)) | (V::Int(_, ITy::Unk), V::F(_)) => {
				let fa = match &l {
					V::F(a) => *a,
					V::Int(i, _) => self.fl_from_i(*i),
					_ => unreachable!(),
				};
				let fb = match &r {
					V::F(a) => *a,
					V::Int(i, _) => self.fl_from_i(*i),
					_ => unreachable!(),
				};
				let (x, _) = self.fl_parts(fa);
				let (y, _) = self.fl_parts(fb);
				let t = self.cmp_term(op, x, y);
				self.mk_bool(t)
			}
			(V::Int(a, _), V::Int(b, _)) => V::Bool(match op {
				"==" => a == b,
				"!=" => a != b,
				"<" => a < b,
				"<=" => a <= b,
				">" => a > b,
				_ => a >= b,
			}),
			(V::Int(..) | V::SInt(..), V::Int(..) | V::SInt(..)) => {
				let (x, _) = self.int_term(&l);
				let (y, _) = self.int_term(&r);
				let t = self.cmp_term(op, x, y);
				self.mk_bool(t)
			}
			(V::Bool(_) | V::SBool(_), V::Bool(_) | V::SBool(_)) => {
				let x = self.bool_term(&l);
				let y = self.bool_term(&r);
				let e = self.tm.eq(x, y);
				let t = match op {
					"==" => e,
					"!=" => self.tm.not(e),
					_ => return unsup("ordering on bools"),
				};
				self.mk_bool(t)
			}
			(V::Str(a), V::Str(b)) => V::Bool(match op {
				"==" => a == b,
				"!=" => a != b,
				_ => return unsup("string ordering"),
			}),
			(V::Unit, V::Unit) => V::Bool(op == "==" || op == "<=" || op == ">="),
			_ => {
				// structural / user-defined equality
				match op {
					"==" | "!=" => {
						let e = self.val_eq(l.clone(), r.clone())?;
						if op == "==" {
							e
						} else {
							self.un_not(e)?
						}
					}
					_ => {
						// PartialOrd on user types through partial_cmp / derived: only enums without payload order
						return unsup(format!("ordering {} on {} and {}", op, l.brief(), r.brief()));
					}
				}
			}
		};
		Ok(res)
	}

	pub fn cmp_term(&mut self, op: &str, x: T, y: T) -> T {
		match op {
			"==" => self.tm.eq(x, y),
			"!=" => {
				let e = self.tm.eq(x, y);
				self.tm.not(e)
			}
			"<" => self.tm.lt(x, y),
			"<=" => self.tm.le(x, y),
			">" => self.tm.lt(y, x),
			_ => self.tm.le(y, x),
		}
	}

	/// `==` on compound values: user PartialEq impl if present, derived structural equality otherwise.
	/// Guarded unions are expanded leaf-wise (no fork).
	pub fn val_eq(&mut self, a: V, b: V) -> R<V> {
		let a = self.deref_val(&a);
		let b = self.deref_val(&b);
		if let V::Ite(c, x, y) = &a {
			let e1 = self.val_eq((**x).clone(), b.clone())?;
			let e2 = self.val_eq((**y).clone(), b)?;
			let (t1, t2) = (self.bool_term(&e1), self.bool_term(&e2));
			let t = self.tm.ite(*c, t1, t2);
			return Ok(self.mk_bool(t));
		}
		if let V::Ite(c, x, y) = &b {
			let e1 = self.val_eq(a.clone(), (**x).clone())?;
			let e2 = self.val_eq(a, (**y).clone())?;
			let (t1, t2) = (self.bool_term(&e1), self.bool_term(&e2));
			let t = self.tm.ite(*c, t1, t2);
			return Ok(self.mk_bool(t));
		}
		if let (V::Struct(n1, f1), V::Struct(n2, f2)) = (&a, &b) {
			if &**n1 == "__bits" && &**n2 == "__bits" {
				let (x, y) = (f1[0].1.v.borrow().clone(), f2[0].1.v.borrow().clone());
				if let (V::F(x), V::F(y)) = (x, y) {
					let t = self.bits_eq(x, y);
					return Ok(self.mk_bool(t));
				}
			}
		}
		match (&a, &b) {
			(V::Struct(n, _), _) | (V::Enum(n, _, _), _) if self.prog.impls.contains_key(&(n.to_string(), "eq".to_string())) => {
				let d = self.find_method(n, "eq").unwrap();
				let ca = self.cell(a.clone());
				let cb = self.cell(b.clone());
				let tag = n.to_string();
				// the user impl is a pure function: evaluate it with merging so that no fork happens
				let r = self.call_fn(&d, Some(tag), vec![V::Ref(ca), V::Ref(cb)], HashMap::new())?;
				Ok(self.deref_val(&r))
			}
			(V::Struct(n1, f1), V::Struct(n2, f2)) if n1 == n2 => {
				let mut acc = V::Bool(true);
				for ((_, p), (_, q)) in f1.iter().zip(f2.iter()) {
					let (pv, qv) = (p.v.borrow().clone(), q.v.borrow().clone());
					let e = self.bin_cmp("==", pv, qv)?;
					acc = self.bool_and(acc, e)?;
				}
				Ok(acc)
			}
			(V::Enum(n1, v1, p1), V::Enum(n2, v2, p2)) => {
				if n1 != n2 || v1 != v2 || p1.len() != p2.len() {
					return Ok(V::Bool(false));
				}
				let mut acc = V::Bool(true);
				for (p, q) in p1.iter().zip(p2.iter()) {
					let (pv, qv) = (p.v.borrow().clone(), q.v.borrow().clone());
					let e = self.bin_cmp("==", pv, qv)?;
					acc = self.bool_and(acc, e)?;
				}
				Ok(acc)
			}
			(V::Tuple(p1), V::Tuple(p2)) | (V::Seq(p1), V::Seq(p2)) => {
				if p1.len() != p2.len() {
					return Ok(V::Bool(false));
				}
				let mut acc = V::Bool(true);
				for (p, q) in p1.iter().zip(p2.iter()) {
					let (pv, qv) = (p.v.borrow().clone(), q.v.borrow().clone());
					let e = self.bin_cmp("==", pv, qv)?;
					acc = self.bool_and(acc, e)?;
				}
				Ok(acc)
			}
			(a, b) => unsup(format!("== on {} and {}", a.brief(), b.brief())),
		}
	}

	pub fn cast(&mut self, v: V, ty: &syn::Type) -> R<V> {
		let v = self.deref_val(&v);
		let h = self.resolve_type_head(ty);
		if let V::Struct(n, fs) = &v {
			if &**n == "__bits" && (h == "i64" || h == "u64" || h == "i32" || h == "u32") {
				// the bit pattern of a float viewed as an integer: kept symbolic, only ordered comparisons and
				// equality are supported (order of IEEE bit patterns of finite non-NaN values)
				let name = if h.starts_with('i') { "__bitsint_s" } else { "__bitsint_u" };
				return Ok(V::Struct(name.into(), fs.clone()));
			}
		}
		if h == "f64" {
			return match v {
				V::F(f) => Ok(V::F(f)),
				V::Int(i, _) => Ok(V::F(self.fl_from_i(i))),
				V::SInt(t, _) => {
					let r = self.tm.to_real(t);
					Ok(self.mk_fl(r))
				}
				V::Bool(b) => Ok(V::F(self.fl_from_i(b as i128))),
				o => unsup(format!("cast {} as float", o.brief())),
			};
		}
		if let Some(it) = ITy::from_name(&h) {
			return match v {
				V::Int(i, _) => Ok(V::Int(it.wrap(i), it)),
				V::SInt(t, _) => Ok(V::SInt(t, it)),
				V::Bool(b) => Ok(V::Int(b as i128, it)),
				V::SBool(t) => {
					let one = self.tm.int(1);
					let zero = self.tm.int(0);
					let r = self.tm.ite(t, one, zero);
					Ok(self.mk_int(r, it))
				}
				V::F(Fl::C(x)) => {
					// saturating float -> int cast
					let (lo, hi) = it.range();
					let r = if x.is_nan() {
						0
					} else if x <= lo as f64 {
						lo
					} else if x >= hi as f64 {
						hi
					} else {
						x.trunc() as i128
					};
					Ok(V::Int(r, it))
				}
				V::F(Fl::S { r, .. }) => {
					if let Some(q) = self.tm.as_rat(r) {
						let (lo, hi) = it.range();
						let tr = if q.n >= 0 { q.n / q.d } else { -((-q.n) / q.d) };
						return Ok(V::Int(tr.clamp(lo, hi), it));
					}
					// trunc toward zero then saturate
					let zero = self.tm.real_i(0);
					let neg = self.tm.lt(r, zero);
					let fl = self.tm.to_int(r);
					let nr = self.tm.neg(r);
					let fl2 = self.tm.to_int(nr);
					let nfl2 = self.tm.neg(fl2);
					let tr = self.tm.ite(neg, nfl2, fl);
					let (lo, hi) = it.range();
					let (lo, hi) = (lo.max(-(1i128 << 100)), hi.min(1i128 << 100));
					let lot = self.tm.int(lo);
					let hit = self.tm.int(hi);
					let below = self.tm.lt(tr, lot);
					let above = self.tm.lt(hit, tr);
					let a = self.tm.ite(above, hit, tr);
					let res = self.tm.ite(below, lot, a);
					Ok(self.mk_int(res, it))
				}
				o => unsup(format!("cast {} as {}", o.brief(), h)),
			};
		}
		// cast to the same user type / pointer casts are not used
		unsup(format!("cast to {}", h))
	}
}
