//! Hash-consed term DAG over SMT sorts Real / Int / Bool with light simplification.
use std::collections::HashMap;

pub type T = u32;

#[derive(Clone, Copy, PartialEq, Eq, Hash, Debug)]
pub enum Sort {
	Real,
	Int,
	Bool,
}

/// exact rational, normalised, den > 0
#[derive(Clone, Copy, PartialEq, Eq, Hash, Debug)]
pub struct Rat {
	pub n: i128,
	pub d: i128,
}

fn gcd(a: i128, b: i128) -> i128 {
	let (mut a, mut b) = (a.abs(), b.abs());
	while b != 0 {
		let t = a % b;
		a = b;
		b = t;
	}
	a
}

impl Rat {
	pub fn new(n: i128, d: i128) -> Option<Rat> {
		if d == 0 {
			return None;
		}
		let g = gcd(n, d);
		let (mut n, mut d) = if g == 0 { (0, 1) } else { (n / g, d / g) };
		if d < 0 {
			n = n.checked_neg()?;
			d = d.checked_neg()?;
		}
		Some(Rat { n, d })
	}
	pub fn int(n: i128) -> Rat {
		Rat { n, d: 1 }
	}
	pub fn add(self, o: Rat) -> Option<Rat> {
		let n = self.n.checked_mul(o.d)?.checked_add(o.n.checked_mul(self.d)?)?;
		Rat::new(n, self.d.checked_mul(o.d)?)
	}
	pub fn neg(self) -> Option<Rat> {
		Some(Rat { n: self.n.checked_neg()?, d: self.d })
	}
	pub fn sub(self, o: Rat) -> Option<Rat> {
		self.add(o.neg()?)
	}
	pub fn mul(self, o: Rat) -> Option<Rat> {
		// cross-reduce first to delay overflow
		let g1 = gcd(self.n, o.d).max(1);
		let g2 = gcd(o.n, self.d).max(1);
		let n = (self.n / g1).checked_mul(o.n / g2)?;
		let d = (self.d / g2).checked_mul(o.d / g1)?;
		Rat::new(n, d)
	}
	pub fn div(self, o: Rat) -> Option<Rat> {
		if o.n == 0 {
			return None;
		}
		self.mul(Rat::new(o.d, o.n)?)
	}
	pub fn is_zero(self) -> bool {
		self.n == 0
	}
	pub fn lt(self, o: Rat) -> Option<bool> {
		Some(self.n.checked_mul(o.d)? < o.n.checked_mul(self.d)?)
	}
	pub fn to_f64(self) -> f64 {
		self.n as f64 / self.d as f64
	}
	/// exact rational value of a finite f64
	pub fn from_f64(x: f64) -> Option<Rat> {
		if !x.is_finite() {
			return None;
		}
		if x == 0.0 {
			return Some(Rat::int(0));
		}
		let bits = x.to_bits();
		let sign = if bits >> 63 == 1 { -1i128 } else { 1 };
		let exp = ((bits >> 52) & 0x7ff) as i32;
		let frac = (bits & ((1u64 << 52) - 1)) as i128;
		let (m, e) = if exp == 0 { (frac, -1074) } else { (frac | (1i128 << 52), exp - 1075) };
		if e >= 0 {
			if e > 60 {
				return None;
			}
			Rat::new(sign * m.checked_mul(1i128 << e)?, 1)
		} else {
			if -e > 120 {
				return None;
			}
			Rat::new(sign * m, 1i128 << (-e))
		}
	}
	/// parse a Rust float literal (decimal, optional exponent) exactly
	pub fn parse_decimal(s: &str) -> Option<Rat> {
		let s: String = s.chars().filter(|c| *c != '_').collect();
		let (mant, exp) = match s.find(|c| c == 'e' || c == 'E') {
			Some(i) => (&s[..i], s[i + 1..].parse::<i32>().ok()?),
			None => (&s[..], 0),
		};
		let (ip, fp) = match mant.find('.') {
			Some(i) => (&mant[..i], &mant[i + 1..]),
			None => (mant, ""),
		};
		let digits = format!("{}{}", ip, fp);
		let digits = if digits.is_empty() { "0".to_string() } else { digits };
		let n: i128 = digits.parse().ok()?;
		let e = exp - fp.len() as i32;
		let mut r = Rat::int(n);
		let ten = Rat::int(10);
		for _ in 0..e.abs() {
			r = if e > 0 { r.mul(ten)? } else { r.div(ten)? };
		}
		Some(r)
	}
	pub fn smt(self) -> String {
		let a = |v: i128| -> String {
			if v < 0 {
				format!("(- {}.0)", v.unsigned_abs())
			} else {
				format!("{}.0", v)
			}
		};
		if self.d == 1 {
			a(self.n)
		} else {
			format!("(/ {} {}.0)", a(self.n), self.d)
		}
	}
}

#[derive(Clone, Copy, PartialEq, Eq, Hash, Debug)]
pub enum Op {
	Add,
	Sub,
	Mul,
	Div,
	Neg,
	Ite,
	Lt,
	Le,
	Eq,
	And,
	Or,
	Not,
	ToReal,
	ToInt,
	IDiv,
	IMod,
	Uf(u32), // index into uf names
}

#[derive(Clone, PartialEq, Eq, Hash, Debug)]
pub enum Node {
	R(Rat),
	I(i128),
	B(bool),
	Var(String, Sort),
	App(Op, Vec<T>),
}

pub struct Terms {
	pub nodes: Vec<(Node, Sort)>,
	map: HashMap<Node, T>,
	pub ufs: Vec<(String, usize)>, // name, arity (Real^k -> Real)
	pub simplify: bool,
}

impl Terms {
	pub fn new() -> Self {
		Terms { nodes: Vec::new(), map: HashMap::new(), ufs: Vec::new(), simplify: true }
	}
	fn mk(&mut self, n: Node, s: Sort) -> T {
		if let Some(&t) = self.map.get(&n) {
			return t;
		}
		let id = self.nodes.len() as T;
		self.nodes.push((n.clone(), s));
		self.map.insert(n, id);
		id
	}
	pub fn sort(&self, t: T) -> Sort {
		self.nodes[t as usize].1
	}
	pub fn node(&self, t: T) -> &Node {
		&self.nodes[t as usize].0
	}
	pub fn rat(&mut self, r: Rat) -> T {
		self.mk(Node::R(r), Sort::Real)
	}
	pub fn real_i(&mut self, n: i128) -> T {
		self.rat(Rat::int(n))
	}
	pub fn int(&mut self, n: i128) -> T {
		self.mk(Node::I(n), Sort::Int)
	}
	pub fn bool_(&mut self, b: bool) -> T {
		self.mk(Node::B(b), Sort::Bool)
	}
	pub fn var(&mut self, name: &str, s: Sort) -> T {
		self.mk(Node::Var(name.to_string(), s), s)
	}
	pub fn as_rat(&self, t: T) -> Option<Rat> {
		match self.node(t) {
			Node::R(r) => Some(*r),
			_ => None,
		}
	}
	pub fn as_int(&self, t: T) -> Option<i128> {
		match self.node(t) {
			Node::I(r) => Some(*r),
			_ => None,
		}
	}
	pub fn as_bool(&self, t: T) -> Option<bool> {
		match self.node(t) {
			Node::B(r) => Some(*r),
			_ => None,
		}
	}
	fn app(&mut self, op: Op, args: Vec<T>, s: Sort) -> T {
		self.mk(Node::App(op, args), s)
	}
	pub fn uf(&mut self, name: &str, args: Vec<T>) -> T {
		let idx = match self.ufs.iter().position(|(n, _)| n == name) {
			Some(i) => i,
			None => {
				self.ufs.push((name.to_string(), args.len()));
				self.ufs.len() - 1
			}
		};
		self.app(Op::Uf(idx as u32), args, Sort::Real)
	}

	// ---- arithmetic (Real or Int by the sort of the operands)
	pub fn add(&mut self, a: T, b: T) -> T {
		let s = self.sort(a);
		debug_assert_eq!(s, self.sort(b));
		if s == Sort::Real {
			if let (Some(x), Some(y)) = (self.as_rat(a), self.as_rat(b)) {
				if let Some(r) = x.add(y) {
					return self.rat(r);
				}
			}
			if self.simplify {
				if self.as_rat(a).map_or(false, |r| r.is_zero()) {
					return b;
				}
				if self.as_rat(b).map_or(false, |r| r.is_zero()) {
					return a;
				}
			}
		} else {
			if let (Some(x), Some(y)) = (self.as_int(a), self.as_int(b)) {
				if let Some(r) = x.checked_add(y) {
					return self.int(r);
				}
			}
			if self.as_int(a) == Some(0) {
				return b;
			}
			if self.as_int(b) == Some(0) {
				return a;
			}
		}
		self.app(Op::Add, vec![a, b], s)
	}
	pub fn sub(&mut self, a: T, b: T) -> T {
		let s = self.sort(a);
		if s == Sort::Real {
			if let (Some(x), Some(y)) = (self.as_rat(a), self.as_rat(b)) {
				if let Some(r) = x.sub(y) {
					return self.rat(r);
				}
			}
			if self.simplify {
				if self.as_rat(b).map_or(false, |r| r.is_zero()) {
					return a;
				}
				if a == b {
					return self.real_i(0);
				}
			}
		} else {
			if let (Some(x), Some(y)) = (self.as_int(a), self.as_int(b)) {
				if let Some(r) = x.checked_sub(y) {
					return self.int(r);
				}
			}
			if self.as_int(b) == Some(0) {
				return a;
			}
		}
		self.app(Op::Sub, vec![a, b], s)
	}
	pub fn mul(&mut self, a: T, b: T) -> T {
		let s = self.sort(a);
		if s == Sort::Real {
			if let (Some(x), Some(y)) = (self.as_rat(a), self.as_rat(b)) {
				if let Some(r) = x.mul(y) {
					return self.rat(r);
				}
			}
			if self.simplify {
				for (p, q) in [(a, b), (b, a)] {
					if let Some(r) = self.as_rat(p) {
						if r.is_zero() {
							return p;
						}
						if r == Rat::int(1) {
							return q;
						}
					}
				}
				// (ite c k1 k2) * x with constant branches: keep the product piecewise linear
				for (p, q) in [(a, b), (b, a)] {
					if self.as_rat(q).is_some() {
						continue;
					}
					if let Node::App(Op::Ite, args) = self.node(p).clone() {
						if self.as_rat(args[1]).is_some() && self.as_rat(args[2]).is_some() {
							let x = self.mul(args[1], q);
							let y = self.mul(args[2], q);
							return self.ite(args[0], x, y);
						}
					}
				}
			}
		} else {
			if let (Some(x), Some(y)) = (self.as_int(a), self.as_int(b)) {
				if let Some(r) = x.checked_mul(y) {
					return self.int(r);
				}
			}
			for (p, q) in [(a, b), (b, a)] {
				if self.as_int(p) == Some(0) {
					return p;
				}
				if self.as_int(p) == Some(1) {
					return q;
				}
			}
		}
		self.app(Op::Mul, vec![a, b], s)
	}
	pub fn div(&mut self, a: T, b: T) -> T {
		if let (Some(x), Some(y)) = (self.as_rat(a), self.as_rat(b)) {
			if let Some(r) = x.div(y) {
				return self.rat(r);
			}
		}
		if self.simplify && self.as_rat(b) == Some(Rat::int(1)) {
			return a;
		}
		self.app(Op::Div, vec![a, b], Sort::Real)
	}
	pub fn neg(&mut self, a: T) -> T {
		let s = self.sort(a);
		if let Some(x) = self.as_rat(a) {
			if let Some(r) = x.neg() {
				return self.rat(r);
			}
		}
		if let Some(x) = self.as_int(a) {
			return self.int(-x);
		}
		if let Node::App(Op::Neg, args) = self.node(a) {
			return args[0];
		}
		self.app(Op::Neg, vec![a], s)
	}
	pub fn to_real(&mut self, a: T) -> T {
		if let Some(x) = self.as_int(a) {
			return self.real_i(x);
		}
		if let Node::App(Op::Ite, args) = self.node(a).clone() {
			if let (Some(x), Some(y)) = (self.as_int(args[1]), self.as_int(args[2])) {
				let (rx, ry) = (self.real_i(x), self.real_i(y));
				return self.ite(args[0], rx, ry);
			}
		}
		self.app(Op::ToReal, vec![a], Sort::Real)
	}
	pub fn to_int(&mut self, a: T) -> T {
		// floor
		if let Some(x) = self.as_rat(a) {
			return self.int(x.n.div_euclid(x.d));
		}
		self.app(Op::ToInt, vec![a], Sort::Int)
	}
	pub fn idiv(&mut self, a: T, b: T) -> T {
		self.app(Op::IDiv, vec![a, b], Sort::Int)
	}
	pub fn imod(&mut self, a: T, b: T) -> T {
		self.app(Op::IMod, vec![a, b], Sort::Int)
	}

	// ---- comparisons
	pub fn lt(&mut self, a: T, b: T) -> T {
		if let (Some(x), Some(y)) = (self.as_rat(a), self.as_rat(b)) {
			if let Some(r) = x.lt(y) {
				return self.bool_(r);
			}
		}
		if let (Some(x), Some(y)) = (self.as_int(a), self.as_int(b)) {
			return self.bool_(x < y);
		}
		if a == b {
			return self.bool_(false);
		}
		self.app(Op::Lt, vec![a, b], Sort::Bool)
	}
	pub fn le(&mut self, a: T, b: T) -> T {
		if let (Some(x), Some(y)) = (self.as_rat(a), self.as_rat(b)) {
			if let Some(r) = y.lt(x) {
				return self.bool_(!r);
			}
		}
		if let (Some(x), Some(y)) = (self.as_int(a), self.as_int(b)) {
			return self.bool_(x <= y);
		}
		if a == b {
			return self.bool_(true);
		}
		self.app(Op::Le, vec![a, b], Sort::Bool)
	}
	pub fn eq(&mut self, a: T, b: T) -> T {
		if a == b {
			return self.bool_(true);
		}
		if let (Some(x), Some(y)) = (self.as_rat(a), self.as_rat(b)) {
			return self.bool_(x == y);
		}
		if let (Some(x), Some(y)) = (self.as_int(a), self.as_int(b)) {
			return self.bool_(x == y);
		}
		if let (Some(x), Some(y)) = (self.as_bool(a), self.as_bool(b)) {
			return self.bool_(x == y);
		}
		if self.sort(a) == Sort::Bool {
			if let Some(x) = self.as_bool(a) {
				return if x { b } else { self.not(b) };
			}
			if let Some(y) = self.as_bool(b) {
				return if y { a } else { self.not(a) };
			}
		}
		let (a, b) = if a <= b { (a, b) } else { (b, a) };
		self.app(Op::Eq, vec![a, b], Sort::Bool)
	}
	pub fn not(&mut self, a: T) -> T {
		if let Some(x) = self.as_bool(a) {
			return self.bool_(!x);
		}
		if let Node::App(Op::Not, args) = self.node(a) {
			return args[0];
		}
		self.app(Op::Not, vec![a], Sort::Bool)
	}
	pub fn and(&mut self, a: T, b: T) -> T {
		match (self.as_bool(a), self.as_bool(b)) {
			(Some(false), _) | (_, Some(false)) => return self.bool_(false),
			(Some(true), _) => return b,
			(_, Some(true)) => return a,
			_ => {}
		}
		if a == b {
			return a;
		}
		self.app(Op::And, vec![a, b], Sort::Bool)
	}
	pub fn or(&mut self, a: T, b: T) -> T {
		match (self.as_bool(a), self.as_bool(b)) {
			(Some(true), _) | (_, Some(true)) => return self.bool_(true),
			(Some(false), _) => return b,
			(_, Some(false)) => return a,
			_ => {}
		}
		if a == b {
			return a;
		}
		self.app(Op::Or, vec![a, b], Sort::Bool)
	}
	pub fn ite(&mut self, c: T, a: T, b: T) -> T {
		if let Some(x) = self.as_bool(c) {
			return if x { a } else { b };
		}
		if a == b {
			return a;
		}
		let s = self.sort(a);
		if s == Sort::Bool {
			if let (Some(x), Some(y)) = (self.as_bool(a), self.as_bool(b)) {
				if x && !y {
					return c;
				}
				if !x && y {
					return self.not(c);
				}
			}
		}
		self.app(Op::Ite, vec![c, a, b], s)
	}

	pub fn leaf_smt(&self, t: T) -> Option<String> {
		match self.node(t) {
			Node::R(r) => Some(r.smt()),
			Node::I(i) => Some(if *i < 0 { format!("(- {})", i.unsigned_abs()) } else { format!("{}", i) }),
			Node::B(b) => Some(format!("{}", b)),
			Node::Var(n, _) => Some(n.clone()),
			Node::App(..) => None,
		}
	}
	pub fn ref_smt(&self, t: T) -> String {
		self.leaf_smt(t).unwrap_or_else(|| format!("t{}", t))
	}
	pub fn sort_smt(s: Sort) -> &'static str {
		match s {
			Sort::Real => "Real",
			Sort::Int => "Int",
			Sort::Bool => "Bool",
		}
	}
	/// body of the define-fun of an App node
	pub fn app_smt(&self, t: T) -> String {
		match self.node(t) {
			Node::App(op, args) => {
				let a: Vec<String> = args.iter().map(|x| self.ref_smt(*x)).collect();
				let name = match op {
					Op::Add => "+".to_string(),
					Op::Sub => "-".to_string(),
					Op::Mul => "*".to_string(),
					Op::Div => "/".to_string(),
					Op::Neg => "-".to_string(),
					Op::Ite => "ite".to_string(),
					Op::Lt => "<".to_string(),
					Op::Le => "<=".to_string(),
					Op::Eq => "=".to_string(),
					Op::And => "and".to_string(),
					Op::Or => "or".to_string(),
					Op::Not => "not".to_string(),
					Op::ToReal => "to_real".to_string(),
					Op::ToInt => "to_int".to_string(),
					Op::IDiv => "div".to_string(),
					Op::IMod => "mod".to_string(),
					Op::Uf(i) => self.ufs[*i as usize].0.clone(),
				};
				format!("({} {})", name, a.join(" "))
			}
			_ => self.ref_smt(t),
		}
	}
	/// like app_smt, but products of two non-constants and quotients by a non-constant become
	/// uninterpreted functions (a sound over-approximation: unsat here implies unsat exactly)
	pub fn app_smt_abs(&self, t: T) -> String {
		if let Node::App(op, args) = self.node(t) {
			match op {
				Op::Mul if self.sort(t) == Sort::Real && self.as_rat(args[0]).is_none() && self.as_rat(args[1]).is_none() => {
					let (x, y) = if args[0] <= args[1] { (args[0], args[1]) } else { (args[1], args[0]) };
					return format!("(abs_mul {} {})", self.ref_smt(x), self.ref_smt(y));
				}
				Op::Div if self.as_rat(args[1]).is_none() => {
					return format!("(abs_div {} {})", self.ref_smt(args[0]), self.ref_smt(args[1]));
				}
				_ => {}
			}
		}
		self.app_smt(t)
	}
	pub fn children(&self, t: T) -> &[T] {
		match self.node(t) {
			Node::App(_, a) => a,
			_ => &[],
		}
	}
	/// evaluate under an assignment of variables (exact rationals); None if not evaluable
	pub fn size(&self) -> usize {
		self.nodes.len()
	}
}
