//! rsx — symbolic executor for the Rust subset amv-dev/yata is written in.
//!
//! rsx run --repo /repo/src --harness-dir DIR --entry FN [--param k=v]... [--mode real|fp|concrete]
//!         [--features a,b] [--solver "z3 -in"] [--second "cvc5 --lang smt2"] [--seed N]
//!         [--max-paths N] [--timeout-ms N] [--inputs file.json] [--no-merge]
//! rsx scan --repo /repo/src [--features a,b]        (static inventory used by C09/C13/C19)
mod builtins;
mod calls;
mod eval;
mod interp;
mod ops;
mod prog;
mod serde_model;
mod solver;
mod term;
mod value;

use interp::*;
use prog::{Origin, Program};
use serde_json::json;
use std::collections::HashMap;
use std::time::Instant;

fn main() {
	let args: Vec<String> = std::env::args().collect();
	if args.len() < 2 {
		eprintln!("usage: rsx run|scan ...");
		std::process::exit(2);
	}
	let mut opt: HashMap<String, Vec<String>> = HashMap::new();
	let mut i = 2;
	while i < args.len() {
		let k = args[i].trim_start_matches("--").to_string();
		if i + 1 < args.len() && !args[i + 1].starts_with("--") {
			opt.entry(k).or_default().push(args[i + 1].clone());
			i += 2;
		} else {
			opt.entry(k).or_default().push("true".into());
			i += 1;
		}
	}
	let get = |k: &str, d: &str| -> String { opt.get(k).and_then(|v| v.last().cloned()).unwrap_or_else(|| d.to_string()) };
	let features: Vec<String> = get("features", "").split(',').filter(|s| !s.is_empty()).map(|s| s.to_string()).collect();
	let repo = get("repo", "/repo/src");
	let mut prog = Program::new(&features);
	if let Err(e) = prog.load_dir(&repo, Origin::Repo) {
		println!("{}", json!({"status": "error", "detail": format!("loading {}: {}", repo, e)}));
		std::process::exit(2);
	}
	match args[1].as_str() {
		"scan" => scan(&prog),
		"run" => {
			let hd = get("harness-dir", "");
			if !hd.is_empty() {
				if let Err(e) = prog.load_dir(&hd, Origin::Harness) {
					println!("{}", json!({"status": "error", "detail": format!("loading harness: {}", e)}));
					std::process::exit(2);
				}
			}
			run(&prog, &opt);
		}
		_ => {
			eprintln!("unknown command");
			std::process::exit(2);
		}
	}
}

fn scan(prog: &Program) {
	let structs: Vec<_> = prog
		.structs
		.values()
		.filter(|s| !s.file.contains("/harness"))
		.map(|s| json!({"name": s.name, "file": s.file, "derives": s.derives, "fields": s.fields.iter().map(|(n, t)| json!([n, prog::type_text(t)])).collect::<Vec<_>>(), "attrs": s.attrs_text}))
		.collect();
	let enums: Vec<_> = prog.enums.values().map(|s| json!({"name": s.name, "file": s.file, "derives": s.derives, "attrs": s.attrs_text, "variants": s.variants.iter().map(|(n, _, _)| n.clone()).collect::<Vec<_>>()})).collect();
	let manual: Vec<_> = prog.manual_impls.iter().map(|(t, tr, f)| json!([t, tr, f])).collect();
	println!(
		"{}",
		json!({"structs": structs, "enums": enums, "manual_impls": manual, "unsafe_sites": prog.unsafe_sites, "suspicious": prog.suspicious,
			"files": prog.files.len()})
	);
}

fn run(prog: &Program, opt: &HashMap<String, Vec<String>>) {
	let get = |k: &str, d: &str| -> String { opt.get(k).and_then(|v| v.last().cloned()).unwrap_or_else(|| d.to_string()) };
	let mode = match get("mode", "real").as_str() {
		"real" => Mode::Real,
		"fp" => Mode::Fp,
		"concrete" => Mode::Concrete,
		o => {
			eprintln!("unknown mode {}", o);
			std::process::exit(2);
		}
	};
	let entry = get("entry", "main");
	let max_paths: usize = get("max-paths", "200000").parse().unwrap();
	let timeout_ms: u64 = get("timeout-ms", "30000").parse().unwrap();
	let wall_s: u64 = get("wall-s", "100000").parse().unwrap();
	let seed: u64 = get("seed", "0").parse().unwrap_or(0);
	let solver_cmd = get("solver", "z3 -in");
	let sol = if mode == Mode::Concrete { None } else { Some(solver::Solver::new(&solver_cmd, timeout_ms)) };
	let mut it = Interp::new(prog, mode, sol);
	it.seed = seed;
	it.f32_mode = prog.features.contains("value_type_f32");
	it.rng ^= seed.wrapping_mul(0x2545F4914F6CDD1D);
	if let Some(v) = opt.get("max-steps").and_then(|v| v.last()) {
		it.max_steps = v.parse().unwrap_or(it.max_steps);
	}
	if opt.contains_key("no-merge") {
		it.merge_enabled = false;
	}
	if opt.contains_key("release") {
		it.debug_assertions = false;
		it.overflow_checks = false;
	}
	let second = get("second", "");
	if !second.is_empty() {
		it.second_solver = Some(second);
	}
	for p in opt.get("param").cloned().unwrap_or_default() {
		if let Some((k, v)) = p.split_once('=') {
			it.params.insert(k.to_string(), v.to_string());
		}
	}
	let inputs_file = get("inputs", "");
	if !inputs_file.is_empty() {
		let txt = std::fs::read_to_string(&inputs_file).expect("inputs file");
		let v: serde_json::Value = serde_json::from_str(&txt).expect("inputs json");
		if let Some(m) = v.as_object() {
			for (k, x) in m {
				// values are hex bit patterns of f64 or plain numbers
				let f = match x {
					serde_json::Value::String(s) => f64::from_bits(u64::from_str_radix(s, 16).expect("hex bits")),
					o => o.as_f64().unwrap_or(0.0),
				};
				it.concrete_inputs.insert(k.clone(), f);
			}
		}
	}
	let def = match prog.free_fns.get(&entry) {
		Some(d) => d.clone(),
		None => {
			println!("{}", json!({"status": "error", "detail": format!("entry fn {} not found", entry)}));
			std::process::exit(2);
		}
	};
	let t0 = Instant::now();
	let mut paths = 0usize;
	let mut infeasible = 0usize;
	let mut status = "done".to_string();
	let mut detail = String::new();
	let mut unsupported: Vec<String> = Vec::new();
	let mut panics = 0usize;
	let mut keep = 0usize;
	loop {
		if let Some(s) = it.sol.as_mut() {
			s.begin_run(keep);
		}
		it.frames.clear();
		it.tpos = 0;
		it.spec_marks.clear();
		it.stubs.clear();
		it.depth = 0;
		it.path_no = paths;
		it.div_zero_forks = false;
		it.pending_axioms.clear();
		let r = it.call_fn(&def, None, vec![], HashMap::new());
		let mut stop = false;
		match r {
			Ok(_) => paths += 1,
			Err(Ctl::Infeasible) => infeasible += 1,
			Err(Ctl::Panic(m)) => {
				paths += 1;
				panics += 1;
				it.record_event("panic", &m);
			}
			Err(Ctl::UB(m)) => {
				paths += 1;
				panics += 1;
				it.record_event("ub", &m);
			}
			Err(Ctl::Unsupported(m)) => {
				paths += 1;
				if !unsupported.contains(&m) {
					unsupported.push(m);
				}
				if unsupported.len() > 5 {
					status = "unsupported".into();
					stop = true;
				}
			}
			Err(Ctl::Unknown(m)) => {
				paths += 1;
				it.events.push(Event { kind: "unknown".into(), label: m, result: "unknown".into(), model: vec![], path: paths, ms: 0.0 });
			}
			Err(Ctl::Stop(m)) => {
				if m == "counterexample cap" {
					paths += 1;
					status = "done".into();
				} else {
					status = "stopped".into();
				}
				detail = m;
				stop = true;
			}
			Err(Ctl::Impure(m)) => {
				status = "error".into();
				detail = format!("internal: impure escaped: {}", m);
				stop = true;
			}
			Err(Ctl::Return(_)) | Err(Ctl::Break) | Err(Ctl::Continue) => {
				paths += 1;
			}
		}
		if let Some(s) = it.sol.as_ref() {
			if let Some(e) = &s.error {
				status = "error".into();
				detail = e.clone();
				stop = true;
			}
		}
		if stop {
			break;
		}
		if mode == Mode::Concrete {
			break;
		}
		if std::env::var("RSX_TRACE").is_ok() {
			eprintln!("path {} trace {:?}", paths, it.trace);
		}
		// next path: flip the deepest fork whose other side is untried
		let upto = it.tpos.min(it.trace.len());
		it.trace.truncate(upto);
		loop {
			match it.trace.last() {
				Some(Rec::Branch { fork: true, tried: false, .. }) => break,
				Some(_) => {
					it.trace.pop();
				}
				None => break,
			}
		}
		match it.trace.last_mut() {
			None => break,
			Some(Rec::Branch { taken, tried, .. }) => {
				*taken = !*taken;
				*tried = true;
			}
			_ => unreachable!(),
		}
		keep = it.trace.iter().filter(|r| matches!(r, Rec::Branch { fork: true, .. })).count() - 1;
		if paths + infeasible >= max_paths {
			status = "path-budget".into();
			break;
		}
		if t0.elapsed().as_secs() > wall_s {
			status = "time-budget".into();
			break;
		}
	}
	if !unsupported.is_empty() && status == "done" {
		status = "unsupported".into();
	}
	let sat: Vec<_> = it.events.iter().filter(|e| e.result == "sat").take(40).map(|e| json!({"kind": e.kind, "label": e.label, "path": e.path, "model": e.model.iter().map(|(k, v)| json!([k, v])).collect::<Vec<_>>()})).collect();
	let unknown = it.events.iter().filter(|e| e.result == "unknown").count();
	let sample: Vec<_> = it.events.iter().filter(|e| e.result == "unsat").take(3).map(|e| json!({"label": e.label, "path": e.path, "result": e.result, "ms": e.ms})).collect();
	let (queries, stime, cmd, standalone, cvc5d) = match it.sol.as_ref() {
		Some(s) => (s.queries, s.time.as_secs_f64(), s.cmd.clone(), s.standalone_runs, s.cvc5_decided + s.abs_decided * 0),
		None => (0, 0.0, "none".into(), 0, 0),
	};
	let out = json!({
		"status": status,
		"detail": detail,
		"entry": entry,
		"mode": get("mode", "real"),
		"params": it.params,
		"paths": paths,
		"infeasible_prefixes": infeasible,
		"obligations": it.obligations,
		"nontrivial": it.nontrivial,
		"sat": it.sat_count,
		"unknown": unknown,
		"panics": panics,
		"unsupported": unsupported,
		"sat_events": sat,
		"sample": sample,
		"queries": queries,
		"solver_s": stime,
		"solver": cmd,
		"standalone_queries": standalone,
		"decided_by_cvc5": cvc5d,
		"wall_s": t0.elapsed().as_secs_f64(),
		"terms": it.tm.size(),
		"functions": it.fn_used.iter().cloned().collect::<Vec<_>>(),
		"outputs": it.outputs.iter().map(|(k, v)| json!([k, v])).collect::<Vec<_>>(),
		"inputs": it.inputs.iter().map(|(n, _)| n.clone()).collect::<Vec<_>>(),
		"cross_checked": it.cross_checked,
		"cross_disagree": it.cross_disagree,
		"div_assumptions": it.div_assumptions,
		"steps": it.steps,
	});
	println!("{}", out);
}
