//! Loading: parse every .rs file under a source tree with syn and index its items.
use quote::ToTokens;
use std::collections::{HashMap, HashSet};
use std::rc::Rc;

pub struct FnDef {
	pub name: String,
	pub sig: syn::Signature,
	pub block: syn::Block,
	pub self_ty: Option<String>,     // head of the impl's self type
	pub self_ty_full: Option<String>, // canonical full text of the impl's self type
	pub trait_name: Option<String>,
	pub trait_args: Vec<syn::Type>,
	pub file: String,
	pub generics: Vec<String>,
	pub origin: Origin,
}

#[derive(Clone, Copy, PartialEq, Eq, Debug)]
pub enum Origin {
	Repo,
	Harness,
}

pub struct StructDef {
	pub name: String,
	pub fields: Vec<(String, syn::Type)>,
	pub tuple: bool,
	pub derives: Vec<String>,
	pub generics: Vec<String>,
	pub attrs_text: String,
	pub file: String,
}

pub struct EnumDef {
	pub name: String,
	pub variants: Vec<(String, Vec<syn::Type>, Option<syn::Expr>)>,
	pub derives: Vec<String>,
	pub attrs_text: String,
	pub file: String,
}

#[derive(Default)]
pub struct Program {
	pub structs: HashMap<String, Rc<StructDef>>,
	pub enums: HashMap<String, Rc<EnumDef>>,
	pub impls: HashMap<(String, String), Vec<Rc<FnDef>>>,
	pub trait_defaults: HashMap<(String, String), Rc<FnDef>>,
	pub trait_methods: HashMap<String, Vec<String>>, // trait -> method names (all, incl. required)
	pub implements: HashSet<(String, String)>,        // (type head, trait)
	pub manual_impls: Vec<(String, String, String)>,  // (type head, trait, file)
	pub assoc_types: HashMap<(String, String), syn::Type>,
	pub assoc_consts: HashMap<(String, String), (syn::Type, syn::Expr)>,
	pub consts: HashMap<String, (syn::Type, syn::Expr)>,
	pub consts_by_file: HashMap<(String, String), (syn::Type, syn::Expr)>,
	pub const_file: HashMap<String, String>,
	pub assoc_const_file: HashMap<(String, String), String>,
	pub fns_by_file: HashMap<(String, String), Rc<FnDef>>,
	pub aliases: HashMap<String, syn::Type>,
	pub free_fns: HashMap<String, Rc<FnDef>>,
	pub features: HashSet<String>,
	pub unsafe_sites: Vec<String>,
	pub files: Vec<String>,
	pub suspicious: Vec<String>, // Rc/RefCell/static mut/thread_local occurrences
}

pub fn type_head(t: &syn::Type) -> String {
	match t {
		syn::Type::Path(p) => p.path.segments.last().map(|s| s.ident.to_string()).unwrap_or_default(),
		syn::Type::Reference(r) => format!("&{}", type_head(&r.elem)),
		syn::Type::Tuple(t) => {
			if t.elems.is_empty() {
				"()".into()
			} else {
				"(tuple)".into()
			}
		}
		syn::Type::Slice(_) => "[T]".into(),
		syn::Type::Array(_) => "[T]".into(),
		syn::Type::Paren(p) => type_head(&p.elem),
		syn::Type::Group(p) => type_head(&p.elem),
		_ => t.to_token_stream().to_string(),
	}
}

pub fn type_text(t: &syn::Type) -> String {
	t.to_token_stream().to_string().replace(' ', "")
}

fn attr_cfg_ok(attrs: &[syn::Attribute], feats: &HashSet<String>) -> bool {
	for a in attrs {
		if a.path().is_ident("cfg") {
			if let syn::Meta::List(l) = &a.meta {
				if !cfg_eval(&l.tokens.to_string(), feats) {
					return false;
				}
			}
		}
	}
	true
}

/// evaluate a cfg predicate given as token text, e.g. `feature = "serde"`, `not (any (...))`, `test`
pub fn cfg_eval(text: &str, feats: &HashSet<String>) -> bool {
	let toks = tokenize(text);
	let mut i = 0;
	let r = cfg_pred(&toks, &mut i, feats);
	r
}

fn tokenize(s: &str) -> Vec<String> {
	let mut v = Vec::new();
	let cs: Vec<char> = s.chars().collect();
	let mut i = 0;
	while i < cs.len() {
		let c = cs[i];
		if c.is_whitespace() {
			i += 1;
		} else if c == '"' {
			let st = i;
			i += 1;
			while i < cs.len() && cs[i] != '"' {
				i += 1;
			}
			i += 1;
			v.push(cs[st..i].iter().collect());
		} else if c.is_alphanumeric() || c == '_' {
			let st = i;
			while i < cs.len() && (cs[i].is_alphanumeric() || cs[i] == '_') {
				i += 1;
			}
			v.push(cs[st..i].iter().collect());
		} else {
			v.push(c.to_string());
			i += 1;
		}
	}
	v
}

fn cfg_pred(t: &[String], i: &mut usize, feats: &HashSet<String>) -> bool {
	let id = t[*i].clone();
	*i += 1;
	match id.as_str() {
		"not" | "all" | "any" => {
			// '('
			*i += 1;
			let mut vals = Vec::new();
			while *i < t.len() && t[*i] != ")" {
				vals.push(cfg_pred(t, i, feats));
				if *i < t.len() && t[*i] == "," {
					*i += 1;
				}
			}
			*i += 1;
			match id.as_str() {
				"not" => !vals[0],
				"all" => vals.iter().all(|x| *x),
				_ => vals.iter().any(|x| *x),
			}
		}
		"feature" => {
			*i += 1; // '='
			let f = t[*i].trim_matches('"').to_string();
			*i += 1;
			feats.contains(&f)
		}
		"test" => false,
		"kani" => false,
		"debug_assertions" => true,
		_ => {
			// unknown key = value or flag: treat as false
			if *i < t.len() && t[*i] == "=" {
				*i += 2;
			}
			false
		}
	}
}

fn derives(attrs: &[syn::Attribute], feats: &HashSet<String>) -> Vec<String> {
	let mut v = Vec::new();
	for a in attrs {
		if a.path().is_ident("derive") {
			if let syn::Meta::List(l) = &a.meta {
				for t in tokenize(&l.tokens.to_string()) {
					if t.chars().next().map_or(false, |c| c.is_alphabetic()) {
						v.push(t);
					}
				}
			}
		} else if a.path().is_ident("cfg_attr") {
			if let syn::Meta::List(l) = &a.meta {
				let txt = l.tokens.to_string();
				// cfg_attr(pred, derive(A, B))
				if let Some(p) = txt.find("derive") {
					let pred = txt[..p].trim().trim_end_matches(',').to_string();
					if cfg_eval(&pred, feats) {
						for t in tokenize(&txt[p + 6..]) {
							if t.chars().next().map_or(false, |c| c.is_alphabetic()) {
								v.push(t);
							}
						}
					}
				}
			}
		}
	}
	v
}

fn generics_names(g: &syn::Generics) -> Vec<String> {
	g.params
		.iter()
		.filter_map(|p| match p {
			syn::GenericParam::Type(t) => Some(t.ident.to_string()),
			_ => None,
		})
		.collect()
}

impl Program {
	pub fn new(features: &[String]) -> Program {
		let mut p = Program::default();
		for f in features {
			p.features.insert(f.clone());
		}
		p
	}

	pub fn load_dir(&mut self, dir: &str, origin: Origin) -> Result<(), String> {
		let mut files = Vec::new();
		collect_rs(std::path::Path::new(dir), &mut files);
		files.sort();
		for f in files {
			self.load_file(&f, origin)?;
		}
		Ok(())
	}

	pub fn load_file(&mut self, path: &str, origin: Origin) -> Result<(), String> {
		let text = std::fs::read_to_string(path).map_err(|e| format!("{}: {}", path, e))?;
		let file = syn::parse_file(&text).map_err(|e| format!("{}: parse error {}", path, e))?;
		self.files.push(path.to_string());
		if origin == Origin::Repo {
			for (ln, l) in text.lines().enumerate() {
				let lt = l.trim_start();
				if lt.starts_with("//") {
					continue;
				}
				if l.contains("unsafe ") && !l.contains("allow(unsafe_code)") && !l.contains("forbid(unsafe_code)") && !l.contains("deny(unsafe_code)") {
					self.unsafe_sites.push(format!("{}:{}", path, ln + 1));
				}
				for pat in ["Rc<", "Arc<", "RefCell<", "Cell<", "static mut", "thread_local!", "*mut ", "*const ", "UnsafeCell", "lazy_static", "OnceCell", "Mutex<", "AtomicU"] {
					if l.contains(pat) {
						self.suspicious.push(format!("{}:{}: {}", path, ln + 1, pat.trim()));
					}
				}
			}
		}
		self.load_items(&file.items, path, origin);
		Ok(())
	}

	fn load_items(&mut self, items: &[syn::Item], path: &str, origin: Origin) {
		let feats = self.features.clone();
		for it in items {
			match it {
				syn::Item::Struct(s) => {
					if !attr_cfg_ok(&s.attrs, &feats) {
						continue;
					}
					let mut fields = Vec::new();
					let mut tuple = false;
					match &s.fields {
						syn::Fields::Named(n) => {
							for f in &n.named {
								if attr_cfg_ok(&f.attrs, &feats) {
									fields.push((f.ident.as_ref().unwrap().to_string(), f.ty.clone()));
								}
							}
						}
						syn::Fields::Unnamed(u) => {
							tuple = true;
							for (i, f) in u.unnamed.iter().enumerate() {
								fields.push((format!("{}", i), f.ty.clone()));
							}
						}
						syn::Fields::Unit => {}
					}
					let attrs_text = s.attrs.iter().map(|a| a.to_token_stream().to_string()).collect::<Vec<_>>().join("\n");
					self.structs.insert(
						s.ident.to_string(),
						Rc::new(StructDef { name: s.ident.to_string(), fields, tuple, derives: derives(&s.attrs, &feats), generics: generics_names(&s.generics), attrs_text, file: path.into() }),
					);
				}
				syn::Item::Enum(e) => {
					if !attr_cfg_ok(&e.attrs, &feats) {
						continue;
					}
					let mut variants = Vec::new();
					for v in &e.variants {
						let tys: Vec<syn::Type> = match &v.fields {
							syn::Fields::Unnamed(u) => u.unnamed.iter().map(|f| f.ty.clone()).collect(),
							syn::Fields::Named(n) => n.named.iter().map(|f| f.ty.clone()).collect(),
							syn::Fields::Unit => Vec::new(),
						};
						variants.push((v.ident.to_string(), tys, v.discriminant.as_ref().map(|d| d.1.clone())));
					}
					let attrs_text = e.attrs.iter().map(|a| a.to_token_stream().to_string()).collect::<Vec<_>>().join("\n");
					self.enums.insert(e.ident.to_string(), Rc::new(EnumDef { name: e.ident.to_string(), variants, derives: derives(&e.attrs, &feats), attrs_text, file: path.into() }));
				}
				syn::Item::Impl(im) => {
					if !attr_cfg_ok(&im.attrs, &feats) {
						continue;
					}
					let head = type_head(&im.self_ty);
					let full = type_text(&im.self_ty);
					let (tname, targs) = match &im.trait_ {
						Some((_, p, _)) => {
							let seg = p.segments.last().unwrap();
							let mut args = Vec::new();
							if let syn::PathArguments::AngleBracketed(ab) = &seg.arguments {
								for a in &ab.args {
									if let syn::GenericArgument::Type(t) = a {
										args.push(t.clone());
									}
								}
							}
							(Some(seg.ident.to_string()), args)
						}
						None => (None, Vec::new()),
					};
					if let Some(t) = &tname {
						self.implements.insert((head.clone(), t.clone()));
						if origin == Origin::Repo {
							self.manual_impls.push((head.clone(), t.clone(), path.to_string()));
						}
					}
					let ig = generics_names(&im.generics);
					for ii in &im.items {
						match ii {
							syn::ImplItem::Fn(f) => {
								if !attr_cfg_ok(&f.attrs, &feats) {
									continue;
								}
								let mut g = ig.clone();
								g.extend(generics_names(&f.sig.generics));
								let d = Rc::new(FnDef {
									name: f.sig.ident.to_string(),
									sig: f.sig.clone(),
									block: f.block.clone(),
									self_ty: Some(head.clone()),
									self_ty_full: Some(full.clone()),
									trait_name: tname.clone(),
									trait_args: targs.clone(),
									file: path.into(),
									generics: g,
									origin,
								});
								self.impls.entry((head.clone(), f.sig.ident.to_string())).or_default().push(d);
							}
							syn::ImplItem::Type(t) => {
								self.assoc_types.insert((head.clone(), t.ident.to_string()), t.ty.clone());
							}
							syn::ImplItem::Const(c) => {
								self.assoc_const_file.insert((head.clone(), c.ident.to_string()), path.to_string());
								self.assoc_consts.insert((head.clone(), c.ident.to_string()), (c.ty.clone(), c.expr.clone()));
							}
							_ => {}
						}
					}
				}
				syn::Item::Trait(tr) => {
					if !attr_cfg_ok(&tr.attrs, &feats) {
						continue;
					}
					let tn = tr.ident.to_string();
					let mut names = Vec::new();
					for ti in &tr.items {
						match ti {
							syn::TraitItem::Fn(f) => {
								names.push(f.sig.ident.to_string());
								if let Some(b) = &f.default {
									let d = Rc::new(FnDef {
										name: f.sig.ident.to_string(),
										sig: f.sig.clone(),
										block: b.clone(),
										self_ty: None,
										self_ty_full: None,
										trait_name: Some(tn.clone()),
										trait_args: Vec::new(),
										file: path.into(),
										generics: generics_names(&f.sig.generics),
										origin,
									});
									self.trait_defaults.insert((tn.clone(), f.sig.ident.to_string()), d);
								}
							}
							syn::TraitItem::Const(c) => {
								if let Some((_, e)) = &c.default {
									self.assoc_const_file.insert((tn.clone(), c.ident.to_string()), path.to_string());
									self.assoc_consts.insert((tn.clone(), c.ident.to_string()), (c.ty.clone(), e.clone()));
								}
							}
							_ => {}
						}
					}
					self.trait_methods.insert(tn, names);
				}
				syn::Item::Fn(f) => {
					if !attr_cfg_ok(&f.attrs, &feats) {
						continue;
					}
					let d = Rc::new(FnDef {
						name: f.sig.ident.to_string(),
						sig: f.sig.clone(),
						block: (*f.block).clone(),
						self_ty: None,
						self_ty_full: None,
						trait_name: None,
						trait_args: Vec::new(),
						file: path.into(),
						generics: generics_names(&f.sig.generics),
						origin,
					});
					self.fns_by_file.insert((path.to_string(), f.sig.ident.to_string()), d.clone());
					self.free_fns.insert(f.sig.ident.to_string(), d);
				}
				syn::Item::Const(c) => {
					if attr_cfg_ok(&c.attrs, &feats) {
						self.consts_by_file.insert((path.to_string(), c.ident.to_string()), (*c.ty.clone(), *c.expr.clone()));
						self.const_file.insert(c.ident.to_string(), path.to_string());
						self.consts.insert(c.ident.to_string(), (*c.ty.clone(), *c.expr.clone()));
					}
				}
				syn::Item::Type(t) => {
					if attr_cfg_ok(&t.attrs, &feats) {
						self.aliases.insert(t.ident.to_string(), *t.ty.clone());
					}
				}
				syn::Item::Mod(m) => {
					if !attr_cfg_ok(&m.attrs, &feats) {
						continue;
					}
					if let Some((_, items)) = &m.content {
						self.load_items(items, path, origin);
					}
				}
				_ => {}
			}
		}
	}

	/// resolve aliases on a type head
	pub fn resolve_head(&self, h: &str) -> String {
		let mut h = h.to_string();
		for _ in 0..8 {
			match self.aliases.get(&h) {
				Some(t) => h = type_head(t),
				None => break,
			}
		}
		h
	}
}

fn collect_rs(dir: &std::path::Path, out: &mut Vec<String>) {
	if let Ok(rd) = std::fs::read_dir(dir) {
		for e in rd.flatten() {
			let p = e.path();
			if p.is_dir() {
				collect_rs(&p, out);
			} else if p.extension().map_or(false, |x| x == "rs") {
				out.push(p.to_string_lossy().to_string());
			}
		}
	}
}
