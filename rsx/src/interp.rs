//! The interpreter: state, control, branching/merging, calls. Expression evaluation is in eval.rs,
//! built-in methods in builtins.rs.
use crate::prog::{FnDef, Origin, Program};
use crate::solver::{Res, Solver};
use crate::term::{Sort, Terms, T};
use crate::value::*;
use std::cell::RefCell;
use std::collections::{BTreeSet, HashMap, HashSet};
use std::rc::Rc;

#[derive(Clone, Copy, PartialEq, Eq, Debug)]
pub enum Mode {
	Real,
	Fp,
	Concrete,
}

#[derive(Debug)]
pub enum Ctl {
	Return(V2),
	Break,
	Continue,
	Panic(String),
	UB(String),
	Unsupported(String),
	Infeasible,
	Impure(String),
	Unknown(String),
	Stop(String),
}

/// wrapper so that Ctl can derive Debug
pub struct V2(pub V);
impl std::fmt::Debug for V2 {
	fn fmt(&self, f: &mut std::fmt::Formatter<'_>) -> std::fmt::Result {
		write!(f, "{}", self.0.brief())
	}
}

pub type R<X> = Result<X, Ctl>;

pub fn unsup<X>(s: impl Into<String>) -> R<X> {
	let s = s.into();
	if std::env::var("RSX_TRACE").is_ok() {
		eprintln!("unsupported: {}\n{}", s, std::backtrace::Backtrace::force_capture());
	}
	Err(Ctl::Unsupported(s))
}

pub struct Frame {
	pub scopes: Vec<HashMap<String, C>>,
	pub self_ty: Option<String>,
	pub tparams: HashMap<String, String>,
	pub ret_hint: Option<syn::Type>,
	pub fname: String,
	pub file: String,
}

/// one solver-dependent control decision of a run; replayed verbatim when a prefix is re-executed
#[derive(Clone, Copy, Debug, PartialEq)]
pub enum Rec {
	Branch { taken: bool, fork: bool, tried: bool },
	/// result of a feasibility question: 1 only-true, 0 only-false, -1 both
	Decided(i8),
	/// a speculative unit starts here: true = it merged (its inner records follow), false = impure
	Spec(bool),
}

#[derive(Clone, Debug)]
pub struct Event {
	pub kind: String, // "check", "panic", "ub", "unknown"
	pub label: String,
	pub result: String, // "unsat" | "sat" | "unknown" | "trivial"
	pub model: Vec<(String, String)>,
	pub path: usize,
	pub ms: f64,
}

pub struct Interp<'p> {
	pub prog: &'p Program,
	pub tm: Terms,
	pub sol: Option<Solver>,
	pub mode: Mode,
	pub frames: Vec<Frame>,
	pub next_cell: u64,
	pub trace: Vec<Rec>,
	pub tpos: usize,
	pub spec_marks: Vec<u64>,
	/// undo log of writes to cells older than the innermost speculative branch (state merging)
	pub spec_undo: Vec<Vec<(C, V)>>,
	pub no_merge_sites: HashSet<usize>,
	pub events: Vec<Event>,
	pub params: HashMap<String, String>,
	pub inputs: Vec<(String, Sort)>,
	pub input_set: HashSet<String>,
	pub concrete_inputs: HashMap<String, f64>,
	pub outputs: Vec<(String, String)>,
	pub fn_used: BTreeSet<String>,
	pub path_no: usize,
	pub obligations: u64,
	pub nontrivial: u64,
	pub sat_count: u64,
	pub debug_assertions: bool,
	pub overflow_checks: bool,
	pub steps: u64,
	pub max_steps: u64,
	pub stubs: HashMap<(String, String), String>, // (type, fn) -> harness free fn replacing it
	pub second_solver: Option<String>,
	pub cross_checked: u64,
	pub cross_disagree: Vec<String>,
	pub seed: u64,
	pub rng: u64,
	pub merge_enabled: bool,
	pub stop_on_sat: bool,
	pub depth: usize,
	pub div_zero_forks: bool,
	pub div_assumptions: u64,
	pub f32_mode: bool,
	pub pending_axioms: Vec<T>,
}

impl<'p> Interp<'p> {
	pub fn new(prog: &'p Program, mode: Mode, sol: Option<Solver>) -> Self {
		Interp {
			prog,
			tm: Terms::new(),
			sol,
			mode,
			frames: Vec::new(),
			next_cell: 1,
			trace: Vec::new(),
			tpos: 0,
			spec_marks: Vec::new(),
			spec_undo: Vec::new(),
			no_merge_sites: HashSet::new(),
			events: Vec::new(),
			params: HashMap::new(),
			inputs: Vec::new(),
			input_set: HashSet::new(),
			concrete_inputs: HashMap::new(),
			outputs: Vec::new(),
			fn_used: BTreeSet::new(),
			path_no: 0,
			obligations: 0,
			nontrivial: 0,
			sat_count: 0,
			debug_assertions: true,
			overflow_checks: true,
			steps: 0,
			max_steps: 200_000_000,
			stubs: HashMap::new(),
			second_solver: None,
			cross_checked: 0,
			cross_disagree: Vec::new(),
			seed: 0,
			rng: 0x9E3779B97F4A7C15,
			merge_enabled: true,
			stop_on_sat: false,
			depth: 0,
			div_zero_forks: false,
			div_assumptions: 0,
			f32_mode: false,
			pending_axioms: Vec::new(),
		}
	}

	// ---------------------------------------------------------------- cells
	pub fn cell(&mut self, v: V) -> C {
		let id = self.next_cell;
		self.next_cell += 1;
		Rc::new(Cell { id, v: RefCell::new(v) })
	}
	pub fn write(&mut self, c: &C, v: V) -> R<()> {
		if let Some(m) = self.spec_marks.last() {
			if c.id < *m {
				// state merging: perform the write, remember how to undo it
				let old = c.v.borrow().clone();
				self.spec_undo.last_mut().unwrap().push((c.clone(), old));
			}
		}
		*c.v.borrow_mut() = v;
		Ok(())
	}
	/// by-value read: containers are deep-copied
	pub fn read(&mut self, c: &C) -> V {
		let v = c.v.borrow().clone();
		self.deep(v)
	}
	pub fn deep(&mut self, v: V) -> V {
		match v {
			V::Tuple(cs) => {
				let n = cs.iter().map(|c| self.read_cell(c)).collect();
				V::Tuple(n)
			}
			V::Struct(n, fs) => {
				let f = fs.iter().map(|(k, c)| (k.clone(), self.read_cell(c))).collect();
				V::Struct(n, f)
			}
			V::Enum(n, va, cs) => {
				let p = cs.iter().map(|c| self.read_cell(c)).collect();
				V::Enum(n, va, p)
			}
			V::Seq(cs) => {
				let n = cs.iter().map(|c| self.read_cell(c)).collect();
				V::Seq(n)
			}
			V::Ite(c, a, b) => {
				let a2 = self.deep((*a).clone());
				let b2 = self.deep((*b).clone());
				V::Ite(c, Rc::new(a2), Rc::new(b2))
			}
			o => o,
		}
	}
	fn read_cell(&mut self, c: &C) -> C {
		let v = self.read(c);
		self.cell(v)
	}
	/// follow references
	pub fn deref_cell(&self, c: &C) -> C {
		let mut c = c.clone();
		loop {
			let n = match &*c.v.borrow() {
				V::Ref(i) => i.clone(),
				_ => break,
			};
			c = n;
		}
		c
	}
	pub fn deref_val(&self, v: &V) -> V {
		match v {
			V::Ref(c) => {
				let c = self.deref_cell(c);
				let x = c.v.borrow().clone();
				x
			}
			o => o.clone(),
		}
	}

	// ---------------------------------------------------------------- environment
	pub fn frame(&mut self) -> &mut Frame {
		self.frames.last_mut().unwrap()
	}
	pub fn lookup(&self, name: &str) -> Option<C> {
		let f = self.frames.last()?;
		for s in f.scopes.iter().rev() {
			if let Some(c) = s.get(name) {
				return Some(c.clone());
			}
		}
		None
	}
	pub fn bind(&mut self, name: &str, v: V) {
		let c = self.cell(v);
		self.frame().scopes.last_mut().unwrap().insert(name.to_string(), c);
	}
	pub fn bind_cell(&mut self, name: &str, c: C) {
		self.frame().scopes.last_mut().unwrap().insert(name.to_string(), c);
	}
	pub fn push_scope(&mut self) {
		self.frame().scopes.push(HashMap::new());
	}
	pub fn pop_scope(&mut self) {
		self.frame().scopes.pop();
	}
	pub fn cur_file(&self) -> String {
		self.frames.last().map(|f| f.file.clone()).unwrap_or_default()
	}
	/// module-level const by name, preferring the file of the function being executed
	pub fn find_const(&self, name: &str) -> Option<(syn::Type, syn::Expr)> {
		if let Some(c) = self.prog.consts_by_file.get(&(self.cur_file(), name.to_string())) {
			return Some(c.clone());
		}
		self.prog.consts.get(name).cloned()
	}
	pub fn find_free_fn(&self, name: &str) -> Option<Rc<FnDef>> {
		if let Some(c) = self.prog.fns_by_file.get(&(self.cur_file(), name.to_string())) {
			return Some(c.clone());
		}
		self.prog.free_fns.get(name).cloned()
	}
	pub fn self_ty(&self) -> Option<String> {
		self.frames.last().and_then(|f| f.self_ty.clone())
	}
	pub fn visible_env(&self) -> Vec<(String, C)> {
		let mut out: Vec<(String, C)> = Vec::new();
		if let Some(f) = self.frames.last() {
			let mut seen = HashSet::new();
			for s in f.scopes.iter().rev() {
				for (k, c) in s {
					if seen.insert(k.clone()) {
						out.push((k.clone(), c.clone()));
					}
				}
			}
		}
		out
	}

	// ---------------------------------------------------------------- symbolic inputs
	pub fn fresh_float(&mut self, name: &str) -> R<V> {
		match self.mode {
			Mode::Concrete => {
				let x = match self.concrete_inputs.get(name) {
					Some(x) => self.rf(*x),
					None => return Err(Ctl::Stop(format!("no concrete value for input '{}'", name))),
				};
				Ok(V::F(Fl::C(x)))
			}
			Mode::Real => {
				let r = self.tm.var(name, Sort::Real);
				self.note_input(name, Sort::Real);
				let z = self.tm.bool_(false);
				Ok(V::F(Fl::S { r, z }))
			}
			Mode::Fp => {
				let r = self.tm.var(name, Sort::Real);
				let zn = format!("{}__neg0", name);
				let z = self.tm.var(&zn, Sort::Bool);
				self.note_input(name, Sort::Real);
				self.note_input(&zn, Sort::Bool);
				Ok(V::F(Fl::S { r, z }))
			}
		}
	}
	fn note_input(&mut self, name: &str, s: Sort) {
		if self.input_set.insert(name.to_string()) {
			self.inputs.push((name.to_string(), s));
		}
	}
	/// value_type_f32 builds: round a concrete result to binary32 (double rounding through binary64 is
	/// innocuous for + - * / sqrt)
	pub fn rf(&self, x: f64) -> f64 {
		if self.f32_mode {
			x as f32 as f64
		} else {
			x
		}
	}
	pub fn fl_const(&mut self, x: crate::term::Rat, approx: f64) -> Fl {
		match self.mode {
			Mode::Concrete => Fl::C(self.rf(approx)),
			_ => {
				let r = self.tm.rat(x);
				let z = self.tm.bool_(false);
				Fl::S { r, z }
			}
		}
	}
	pub fn fl_from_i(&mut self, i: i128) -> Fl {
		self.fl_const(crate::term::Rat::int(i), i as f64)
	}

	// ---------------------------------------------------------------- branching
	/// decide a symbolic condition: returns the side taken; may record a fork
	pub fn branch(&mut self, c: T) -> R<bool> {
		if let Some(b) = self.tm.as_bool(c) {
			return Ok(b);
		}
		let nc = self.tm.not(c);
		if std::env::var("RSX_TRACE").is_ok() {
			eprintln!("  branch c=t{} tpos={} len={} spec={}", c, self.tpos, self.trace.len(), self.spec_marks.len());
		}
		if self.tpos < self.trace.len() {
			match self.trace[self.tpos] {
				Rec::Branch { taken, fork, .. } => {
					self.tpos += 1;
					if fork {
						let sol = self.sol.as_mut().unwrap();
						sol.push();
						sol.assert(&self.tm, if taken { c } else { nc });
					}
					return Ok(taken);
				}
				Rec::Decided(2) => {
					self.tpos += 1;
					return Err(Ctl::Infeasible);
				}
				o => return Err(Ctl::Stop(format!("internal: trace mismatch at branch ({:?})", o))),
			}
		}
		let sol = self.sol.as_mut().unwrap();
		let ft = sol.check_with(&self.tm, c, true);
		let ff = sol.check_with(&self.tm, c, false);
		match (ft, ff) {
			(Res::Sat, Res::Unsat) => {
				self.trace.push(Rec::Branch { taken: true, fork: false, tried: true });
				self.tpos += 1;
				Ok(true)
			}
			(Res::Unsat, Res::Sat) => {
				self.trace.push(Rec::Branch { taken: false, fork: false, tried: true });
				self.tpos += 1;
				Ok(false)
			}
			(Res::Unsat, Res::Unsat) => {
				self.trace.push(Rec::Decided(2));
				self.tpos += 1;
				Err(Ctl::Infeasible)
			}
			(Res::Sat, Res::Sat) => {
				if !self.spec_marks.is_empty() {
					return Err(Ctl::Impure("fork inside a speculative branch".into()));
				}
				self.trace.push(Rec::Branch { taken: true, fork: true, tried: false });
				self.tpos += 1;
				sol.push();
				sol.assert(&self.tm, c);
				Ok(true)
			}
			_ => Err(Ctl::Unknown("solver answered unknown at a branch".into())),
		}
	}
	/// is the condition decided by the path condition? Some(side) if only one side is feasible
	pub fn decided(&mut self, c: T) -> R<Option<bool>> {
		if let Some(b) = self.tm.as_bool(c) {
			return Ok(Some(b));
		}
		if self.tpos < self.trace.len() {
			match self.trace[self.tpos] {
				Rec::Decided(2) => {
					self.tpos += 1;
					return Err(Ctl::Infeasible);
				}
				Rec::Decided(x) => {
					self.tpos += 1;
					return Ok(match x {
						1 => Some(true),
						0 => Some(false),
						_ => None,
					});
				}
				o => return Err(Ctl::Stop(format!("internal: trace mismatch at decided ({:?})", o))),
			}
		}
		let sol = self.sol.as_mut().unwrap();
		let ft = sol.check_with(&self.tm, c, true);
		let ff = sol.check_with(&self.tm, c, false);
		let r = match (ft, ff) {
			(Res::Sat, Res::Unsat) => Some(true),
			(Res::Unsat, Res::Sat) => Some(false),
			(Res::Unsat, Res::Unsat) => {
				self.trace.push(Rec::Decided(2));
				self.tpos += 1;
				return Err(Ctl::Infeasible);
			}
			(Res::Sat, Res::Sat) => None,
			_ => return Err(Ctl::Unknown("solver answered unknown at a branch".into())),
		};
		self.trace.push(Rec::Decided(match r {
			Some(true) => 1,
			Some(false) => 0,
			None => -1,
		}));
		self.tpos += 1;
		Ok(r)
	}
	/// is the current path condition satisfiable (recorded, so that replays agree)
	pub fn pc_feasible(&mut self) -> R<bool> {
		if self.tpos < self.trace.len() {
			match self.trace[self.tpos] {
				Rec::Decided(x) => {
					self.tpos += 1;
					return Ok(x != 0);
				}
				o => return Err(Ctl::Stop(format!("internal: trace mismatch at pc_feasible ({:?})", o))),
			}
		}
		let r = {
			let Interp { sol, tm, .. } = self;
			sol.as_mut().unwrap().check_pc_tm(tm)
		};
		let ok = match r {
			Res::Unsat => false,
			Res::Sat => true,
			Res::Unknown => return Err(Ctl::Unknown("solver answered unknown on the path condition".into())),
		};
		self.trace.push(Rec::Decided(ok as i8));
		self.tpos += 1;
		Ok(ok)
	}
	/// run a speculative unit; Ok(None) if it turned out impure (recorded so that replays skip it)
	pub fn spec_unit<X>(&mut self, site: usize, f: &mut dyn FnMut(&mut Self) -> R<X>) -> R<Option<X>> {
		if !self.merge_enabled {
			return Ok(None);
		}
		let replaying = self.tpos < self.trace.len();
		if replaying {
			match self.trace[self.tpos] {
				Rec::Spec(false) => {
					self.tpos += 1;
					return Ok(None);
				}
				Rec::Spec(true) => {
					self.tpos += 1;
				}
				o => return Err(Ctl::Stop(format!("internal: trace mismatch at speculation ({:?})", o))),
			}
		} else if self.no_merge_sites.contains(&site) {
			self.trace.push(Rec::Spec(false));
			self.tpos += 1;
			return Ok(None);
		} else {
			self.trace.push(Rec::Spec(true));
			self.tpos += 1;
		}
		let start = self.tpos - 1;
		match f(self) {
			Ok(x) => Ok(Some(x)),
			Err(Ctl::Impure(m)) => {
				if replaying {
					return Err(Ctl::Stop(format!("internal: speculation failed during replay: {}", m)));
				}
				self.no_merge_sites.insert(site);
				self.trace.truncate(start);
				self.trace.push(Rec::Spec(false));
				self.tpos = start + 1;
				Ok(None)
			}
			Err(e) => Err(e),
		}
	}
	pub fn assume(&mut self, c: T) -> R<()> {
		if let Some(b) = self.tm.as_bool(c) {
			return if b { Ok(()) } else { Err(Ctl::Infeasible) };
		}
		let sol = self.sol.as_mut().unwrap();
		sol.assert(&self.tm, c);
		Ok(())
	}

	/// evaluate f under the extra assumption c; writes to older cells are undone afterwards and returned
	/// as (cell, final value) pairs so that the caller can merge them
	pub fn speculate_w<X>(&mut self, c: T, f: &mut dyn FnMut(&mut Self) -> R<X>) -> R<(X, Vec<(C, V)>)> {
		let mark = self.next_cell;
		self.spec_marks.push(mark);
		self.spec_undo.push(Vec::new());
		self.sol.as_mut().unwrap().temp_push_assume(c);
		let nframes = self.frames.len();
		let nscopes = self.frames.last().map(|f| f.scopes.len()).unwrap_or(0);
		let r = f(self);
		self.frames.truncate(nframes);
		if let Some(fr) = self.frames.last_mut() {
			fr.scopes.truncate(nscopes);
		}
		self.sol.as_mut().unwrap().temp_pop();
		self.spec_marks.pop();
		// facts about uninterpreted functions made inside the branch hold on every path: keep them
		let ax = std::mem::take(&mut self.pending_axioms);
		for t in ax {
			if !self.spec_marks.is_empty() {
				self.pending_axioms.push(t);
			}
			let sol = self.sol.as_mut().unwrap();
			sol.assert(&self.tm, t);
		}
		let log = self.spec_undo.pop().unwrap();
		// final values of the written cells, then undo in reverse order
		let mut writes: Vec<(C, V)> = Vec::new();
		for (cell, _) in log.iter() {
			if !writes.iter().any(|(c2, _)| Rc::ptr_eq(c2, cell)) {
				let cur = cell.v.borrow().clone();
				writes.push((cell.clone(), cur));
			}
		}
		for (cell, old) in log.into_iter().rev() {
			*cell.v.borrow_mut() = old;
		}
		match r {
			Ok(x) => Ok((x, writes)),
			Err(Ctl::Panic(m)) => Err(Ctl::Impure(format!("panic in speculative branch: {}", m))),
			Err(Ctl::UB(m)) => Err(Ctl::Impure(format!("UB in speculative branch: {}", m))),
			Err(Ctl::Return(_)) => Err(Ctl::Impure("return in speculative branch".into())),
			Err(Ctl::Break) | Err(Ctl::Continue) => Err(Ctl::Impure("break/continue in speculative branch".into())),
			Err(e) => Err(e),
		}
	}
	/// pure speculation (no writes allowed to survive): used where a merge of side effects is not wanted
	pub fn speculate<X>(&mut self, c: T, f: &mut dyn FnMut(&mut Self) -> R<X>) -> R<X> {
		let (x, w) = self.speculate_w(c, f)?;
		if !w.is_empty() {
			return Err(Ctl::Impure("write to a cell older than the speculative branch".into()));
		}
		Ok(x)
	}
	/// apply the merged writes of two speculative sides: cell := ite(c, value on side 1, value on side 2)
	pub fn apply_merged_writes(&mut self, c: T, w1: Vec<(C, V)>, w2: Vec<(C, V)>) -> R<()> {
		let mut cells: Vec<C> = Vec::new();
		for (cell, _) in w1.iter().chain(w2.iter()) {
			if !cells.iter().any(|c2| Rc::ptr_eq(c2, cell)) {
				cells.push(cell.clone());
			}
		}
		let mut merged: Vec<(C, V)> = Vec::new();
		for cell in cells {
			let old = cell.v.borrow().clone();
			let a = w1.iter().find(|(c2, _)| Rc::ptr_eq(c2, &cell)).map(|(_, v)| v.clone()).unwrap_or_else(|| old.clone());
			let b = w2.iter().find(|(c2, _)| Rc::ptr_eq(c2, &cell)).map(|(_, v)| v.clone()).unwrap_or_else(|| old.clone());
			let m = self.merge(c, a, b)?;
			merged.push((cell, m));
		}
		for (cell, m) in merged {
			self.write(&cell, m)?;
		}
		Ok(())
	}

	/// two-way choice on a symbolic condition: merge if both sides are pure, otherwise fork
	pub fn choice(&mut self, c: T, site: usize, f1: &mut dyn FnMut(&mut Self) -> R<V>, f2: &mut dyn FnMut(&mut Self) -> R<V>) -> R<V> {
		let nc = self.tm.not(c);
		let merged = self.spec_unit(site, &mut |s: &mut Self| {
			// a side whose guard contradicts the path condition simply does not exist
			let v1 = match s.speculate_w(c, f1) {
				Err(Ctl::Infeasible) => None,
				r => Some(r?),
			};
			let v2 = match s.speculate_w(nc, f2) {
				Err(Ctl::Infeasible) => None,
				r => Some(r?),
			};
			match (v1, v2) {
				(Some((a, wa)), Some((b, wb))) => {
					let v = s.merge(c, a, b)?;
					s.apply_merged_writes(c, wa, wb)?;
					Ok(v)
				}
				(Some((a, wa)), None) => {
					for (cell, val) in wa {
						s.write(&cell, val)?;
					}
					Ok(a)
				}
				(None, Some((b, wb))) => {
					for (cell, val) in wb {
						s.write(&cell, val)?;
					}
					Ok(b)
				}
				(None, None) => Err(Ctl::Infeasible),
			}
		})?;
		if let Some(v) = merged {
			return Ok(v);
		}
		match self.decided(c)? {
			Some(true) => return f1(self),
			Some(false) => return f2(self),
			None => {}
		}
		if !self.spec_marks.is_empty() {
			return Err(Ctl::Impure("unmergeable choice inside a speculative branch".into()));
		}
		if self.branch(c)? {
			f1(self)
		} else {
			f2(self)
		}
	}

	pub fn merge(&mut self, c: T, a: V, b: V) -> R<V> {
		Ok(match (a, b) {
			(V::Unit, V::Unit) => V::Unit,
			(V::F(x), V::F(y)) => match (x, y) {
				(Fl::S { r: r1, z: z1 }, Fl::S { r: r2, z: z2 }) => {
					let r = self.tm.ite(c, r1, r2);
					let z = self.tm.ite(c, z1, z2);
					V::F(Fl::S { r, z })
				}
				_ => return unsup("merge of concrete floats"),
			},
			(a @ (V::Bool(_) | V::SBool(_)), b @ (V::Bool(_) | V::SBool(_))) => {
				let x = self.bool_term(&a);
				let y = self.bool_term(&b);
				let t = self.tm_ite(c, x, y);
				self.mk_bool(t)
			}
			(a @ (V::Int(..) | V::SInt(..)), b @ (V::Int(..) | V::SInt(..))) => {
				let (ta, ty1) = self.int_term(&a);
				let (tb, ty2) = self.int_term(&b);
				let ty = if ty1 == ITy::Unk { ty2 } else { ty1 };
				let t = self.tm.ite(c, ta, tb);
				self.mk_int(t, ty)
			}
			(V::Tuple(x), V::Tuple(y)) if x.len() == y.len() => {
				let mut out = Vec::new();
				for (p, q) in x.iter().zip(y.iter()) {
					let (pv, qv) = (p.v.borrow().clone(), q.v.borrow().clone());
					let m = self.merge(c, pv, qv)?;
					out.push(self.cell(m));
				}
				V::Tuple(out)
			}
			(V::Struct(n1, x), V::Struct(n2, y)) if n1 == n2 && x.len() == y.len() => {
				let mut out = Vec::new();
				for ((k, p), (_, q)) in x.iter().zip(y.iter()) {
					let (pv, qv) = (p.v.borrow().clone(), q.v.borrow().clone());
					let m = self.merge(c, pv, qv)?;
					out.push((k.clone(), self.cell(m)));
				}
				V::Struct(n1, out)
			}
			(V::Enum(n1, v1, x), V::Enum(n2, v2, y)) if n1 == n2 && v1 == v2 && x.len() == y.len() => {
				let mut out = Vec::new();
				for (p, q) in x.iter().zip(y.iter()) {
					let (pv, qv) = (p.v.borrow().clone(), q.v.borrow().clone());
					let m = self.merge(c, pv, qv)?;
					out.push(self.cell(m));
				}
				V::Enum(n1, v1, out)
			}
			(V::Seq(x), V::Seq(y)) if x.len() == y.len() => {
				let mut out = Vec::new();
				for (p, q) in x.iter().zip(y.iter()) {
					let (pv, qv) = (p.v.borrow().clone(), q.v.borrow().clone());
					let m = self.merge(c, pv, qv)?;
					out.push(self.cell(m));
				}
				V::Seq(out)
			}
			(a @ (V::Enum(..) | V::Ite(..)), b @ (V::Enum(..) | V::Ite(..))) => V::Ite(c, Rc::new(a), Rc::new(b)),
			(a, b) => return Err(Ctl::Impure(format!("cannot merge {} with {}", a.brief(), b.brief()))),
		})
	}
	fn tm_ite(&mut self, c: T, a: T, b: T) -> T {
		self.tm.ite(c, a, b)
	}
	pub fn mk_bool(&self, t: T) -> V {
		match self.tm.as_bool(t) {
			Some(b) => V::Bool(b),
			None => V::SBool(t),
		}
	}
	pub fn mk_int(&self, t: T, ty: ITy) -> V {
		match self.tm.as_int(t) {
			Some(i) => V::Int(i, ty),
			None => V::SInt(t, ty),
		}
	}
	pub fn bool_term(&mut self, v: &V) -> T {
		match v {
			V::Bool(b) => self.tm.bool_(*b),
			V::SBool(t) => *t,
			_ => panic!("bool_term on {}", v.brief()),
		}
	}
	pub fn int_term(&mut self, v: &V) -> (T, ITy) {
		match v {
			V::Int(i, ty) => (self.tm.int(*i), *ty),
			V::SInt(t, ty) => (*t, *ty),
			_ => panic!("int_term on {}", v.brief()),
		}
	}
	/// resolve a guarded union by deciding its guard (may fork)
	pub fn force(&mut self, v: V) -> R<V> {
		let mut v = v;
		loop {
			match v {
				V::Ite(c, a, b) => {
					v = if self.branch(c)? { (*a).clone() } else { (*b).clone() };
				}
				V::Ref(ref cell) => {
					let inner = cell.v.borrow().clone();
					if let V::Ite(..) = inner {
						let f = self.force(inner)?;
						// collapsing the union in place is a write only if not speculative
						if self.spec_marks.is_empty() {
							*cell.v.borrow_mut() = f;
						} else {
							return Ok(f);
						}
					}
					return Ok(v);
				}
				o => return Ok(o),
			}
		}
	}
	/// make a symbolic small integer concrete by forking over candidate values
	pub fn concretize_int(&mut self, v: V) -> R<(i128, ITy)> {
		match v {
			V::Int(i, t) => Ok((i, t)),
			V::SInt(t, ty) => {
				let mut cands: Vec<i128> = vec![0, 1];
				for k in 2..=300i128 {
					cands.push(k);
				}
				if ty.signed() {
					for k in 1..=300i128 {
						cands.push(-k);
					}
				}
				for k in cands {
					let kt = self.tm.int(k);
					let e = self.tm.eq(t, kt);
					if self.branch(e)? {
						return Ok((k, ty));
					}
				}
				unsup("symbolic integer outside -300..=300 used where a concrete value is needed")
			}
			o => unsup(format!("expected integer, got {}", o.brief())),
		}
	}

	// ---------------------------------------------------------------- obligations
	pub fn check(&mut self, label: &str, cond: V) -> R<()> {
		if !self.spec_marks.is_empty() {
			return Err(Ctl::Impure("obligation inside a speculative branch".into()));
		}
		self.obligations += 1;
		let t = match cond {
			V::Bool(true) => {
				self.events.push(Event { kind: "check".into(), label: label.into(), result: "trivial".into(), model: vec![], path: self.path_no, ms: 0.0 });
				return Ok(());
			}
			V::Bool(false) => self.tm.bool_(false),
			V::SBool(t) => t,
			o => return unsup(format!("rsx::check on non-boolean {}", o.brief())),
		};
		self.nontrivial += 1;
		let t0 = std::time::Instant::now();
		if let Ok(d) = std::env::var("RSX_DUMP") {
			let script = self.sol.as_ref().unwrap().script(&self.tm, &[(t, false)]);
			let _ = std::fs::write(format!("{}/q{}_{}.smt2", d, self.obligations, label.replace(|c: char| !c.is_alphanumeric(), "_")), script);
		}
		let sol = self.sol.as_mut().unwrap();
		let r = if self.tm.as_bool(t) == Some(false) { sol.check_pc_tm(&self.tm) } else { sol.check_with(&self.tm, t, false) };
		let mut ev = Event { kind: "check".into(), label: label.into(), result: String::new(), model: vec![], path: self.path_no, ms: 0.0 };
		match r {
			Res::Unsat => ev.result = "unsat".into(),
			Res::Unknown => ev.result = "unknown".into(),
			Res::Sat => {
				ev.result = "sat".into();
				self.sat_count += 1;
				let inputs = self.inputs.clone();
				if let Some(m) = sol.model(&self.tm, t, false, &inputs) {
					ev.model = m;
				}
			}
		}
		// cross-check with the second solver: every sat, and a seeded sample of the others
		let sample = {
			self.rng ^= self.rng << 13;
			self.rng ^= self.rng >> 7;
			self.rng ^= self.rng << 17;
			(self.rng.wrapping_add(self.seed)) % 20 == 0
		};
		if let Some(cmd) = self.second_solver.clone() {
			if r == Res::Sat || (sample && r == Res::Unsat) {
				let script = self.sol.as_ref().unwrap().script(&self.tm, &[(t, false)]);
				let ans = crate::solver::run_script(&cmd, &script, 20);
				self.cross_checked += 1;
				let want = if r == Res::Sat { "sat" } else { "unsat" };
				if (ans == "sat" || ans == "unsat") && ans != want {
					self.cross_disagree.push(format!("{}: z3 {} vs {} {}", label, want, cmd, ans));
				}
				if ans.starts_with("error") {
					self.cross_disagree.push(format!("{}: second solver {}", label, ans));
				}
			}
		}
		ev.ms = t0.elapsed().as_secs_f64() * 1000.0;
		let sat = ev.result == "sat";
		self.events.push(ev);
		if sat && self.stop_on_sat {
			return Err(Ctl::Stop("counterexample found".into()));
		}
		if sat && self.sat_count >= 60 {
			// more counterexamples than are ever reported or replayed: stop exploring (the run counts as complete
			// for the purpose of reporting; a long symbolic stream on changed code otherwise spends its whole
			// budget collecting further witnesses)
			return Err(Ctl::Stop("counterexample cap".into()));
		}
		Ok(())
	}

	/// a panic / UB event on the current (feasible) path
	pub fn record_event(&mut self, kind: &str, msg: &str) {
		let mut ev = Event { kind: kind.into(), label: msg.into(), result: "sat".into(), model: vec![], path: self.path_no, ms: 0.0 };
		if self.mode != Mode::Concrete {
			let inputs = self.inputs.clone();
			let tt = self.tm.bool_(true);
			let sol = self.sol.as_mut().unwrap();
			let _ = tt;
			// model of the path condition
			let v = self.tm.var("__dummy_true", Sort::Bool);
			if let Some(m) = sol.model(&self.tm, v, true, &inputs) {
				ev.model = m.into_iter().filter(|(n, _)| n != "__dummy_true").collect();
			}
		}
		self.sat_count += 1;
		self.events.push(ev);
	}

	// ---------------------------------------------------------------- calls
	pub fn call_fn(&mut self, def: &Rc<FnDef>, self_ty: Option<String>, args: Vec<V>, tparams: HashMap<String, String>) -> R<V> {
		self.steps += 1;
		if self.steps > self.max_steps {
			return Err(Ctl::Stop("step budget exhausted".into()));
		}
		if self.depth > 200 {
			return unsup("call depth > 200");
		}
		if def.origin == Origin::Repo {
			let n = format!("{}: {}{}", def.file.rsplit("/src/").next().map(|s| format!("src/{}", s)).unwrap_or_default(), def.self_ty.as_ref().map(|s| format!("{}::", s)).unwrap_or_default(), def.name);
			if !self.fn_used.contains(&n) {
				self.fn_used.insert(n);
			}
		}
		let sty = self_ty.or_else(|| def.self_ty.clone());
		let ret_hint = match &def.sig.output {
			syn::ReturnType::Type(_, t) => Some((**t).clone()),
			_ => None,
		};
		self.frames.push(Frame { scopes: vec![HashMap::new()], self_ty: sty, tparams, ret_hint, fname: def.name.clone(), file: def.file.clone() });
		self.depth += 1;
		let r = self.call_body(def, args);
		self.depth -= 1;
		self.frames.pop();
		match r {
			Ok(v) => Ok(v),
			Err(Ctl::Return(v)) => Ok(v.0),
			Err(e) => Err(e),
		}
	}
	fn call_body(&mut self, def: &Rc<FnDef>, args: Vec<V>) -> R<V> {
		let mut ai = args.into_iter();
		for p in def.sig.inputs.iter() {
			match p {
				syn::FnArg::Receiver(r) => {
					let a = match ai.next() {
						Some(a) => a,
						None => return unsup(format!("missing receiver for {}", def.name)),
					};
					let v = if r.reference.is_some() {
						match a {
							V::Ref(_) => a,
							o => {
								let c = self.cell(o);
								V::Ref(c)
							}
						}
					} else {
						// by value: copy out of a reference if needed
						match a {
							V::Ref(c) => {
								let c = self.deref_cell(&c);
								self.read(&c)
							}
							o => o,
						}
					};
					self.bind("self", v);
				}
				syn::FnArg::Typed(pt) => {
					let a = match ai.next() {
						Some(a) => a,
						None => return unsup(format!("missing argument for {}", def.name)),
					};
					let a = self.coerce(a, &pt.ty);
					if !self.bind_pat(&pt.pat, a)? {
						return unsup("refutable pattern in fn parameter");
					}
				}
			}
		}
		let v = self.eval_fn_body(&def.block)?;
		let v = match &def.sig.output {
			syn::ReturnType::Type(_, t) => self.coerce(v, t),
			_ => v,
		};
		Ok(v)
	}

	/// adapt an untyped integer literal to a declared integer type
	pub fn coerce(&mut self, v: V, ty: &syn::Type) -> V {
		match &v {
			V::Int(i, ITy::Unk) => {
				if let Some(t) = self.int_ty_of(ty) {
					return V::Int(*i, t);
				}
				v
			}
			V::SInt(t, ITy::Unk) => {
				if let Some(it) = self.int_ty_of(ty) {
					return V::SInt(*t, it);
				}
				v
			}
			_ => v,
		}
	}
	pub fn int_ty_of(&self, ty: &syn::Type) -> Option<ITy> {
		let h = self.resolve_type_head(ty);
		ITy::from_name(&h)
	}
	/// head of a type after resolving aliases, Self, generic params and associated types
	pub fn resolve_type_head(&self, ty: &syn::Type) -> String {
		match ty {
			syn::Type::Path(p) => {
				let segs: Vec<String> = p.path.segments.iter().map(|s| s.ident.to_string()).collect();
				if let Some(q) = &p.qself {
					// <X as Trait>::Name
					let base = self.resolve_type_head(&q.ty);
					let name = segs.last().cloned().unwrap_or_default();
					if let Some(t) = self.prog.assoc_types.get(&(base.clone(), name.clone())) {
						return self.with_self(&base, |s| s.resolve_type_head(t));
					}
					return name;
				}
				if segs.len() >= 2 {
					let first = segs[segs.len() - 2].clone();
					let name = segs[segs.len() - 1].clone();
					let base = if first == "Self" { self.self_ty().unwrap_or_default() } else { self.resolve_name(&first) };
					if let Some(t) = self.prog.assoc_types.get(&(base.clone(), name.clone())) {
						return self.with_self(&base, |s| s.resolve_type_head(t));
					}
					return self.resolve_name(&name);
				}
				let name = segs.last().cloned().unwrap_or_default();
				if name == "Self" {
					return self.self_ty().unwrap_or_default();
				}
				self.resolve_name(&name)
			}
			syn::Type::Reference(r) => self.resolve_type_head(&r.elem),
			syn::Type::Paren(p) => self.resolve_type_head(&p.elem),
			syn::Type::Group(p) => self.resolve_type_head(&p.elem),
			o => crate::prog::type_head(o),
		}
	}
	fn with_self<X>(&self, _base: &str, f: impl Fn(&Self) -> X) -> X {
		f(self)
	}
	pub fn resolve_name(&self, name: &str) -> String {
		let mut n = name.to_string();
		for _ in 0..8 {
			if let Some(f) = self.frames.last() {
				if let Some(t) = f.tparams.get(&n) {
					n = t.clone();
					continue;
				}
			}
			if let Some(t) = self.prog.aliases.get(&n) {
				n = self.resolve_type_head(t);
				continue;
			}
			break;
		}
		if n == "f32" {
			n = "f64".into();
		}
		n
	}

	/// find an implementation of `name` for values of type head `ty`
	pub fn find_method(&self, ty: &str, name: &str) -> Option<Rc<FnDef>> {
		if let Some(v) = self.prog.impls.get(&(ty.to_string(), name.to_string())) {
			if let Some(d) = v.first() {
				return Some(d.clone());
			}
		}
		// trait default of a trait the type implements
		for ((tr, f), d) in &self.prog.trait_defaults {
			if f == name && self.prog.implements.contains(&(ty.to_string(), tr.clone())) {
				return Some(d.clone());
			}
		}
		// blanket: trait default where a generic impl exists (impl<T: X> Y for T)
		for ((tr, f), d) in &self.prog.trait_defaults {
			if f == name {
				for (h, t) in &self.prog.implements {
					if t == tr && h.len() == 1 && h.chars().next().unwrap().is_uppercase() {
						return Some(d.clone());
					}
				}
			}
		}
		None
	}
}
