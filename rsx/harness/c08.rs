//! C08 — the construction value acts as an infinite constant prehistory (arithmetic kinds, over
//! the reals): constant in => constant out; extra leading copies of the first element change nothing.
use crate::reflib::*;
use crate::rsx;
use yata::core::{Candle, Method, MovingAverageConstructor, PeriodType, ValueType};
use yata::helpers::Peekable;
use yata::methods::*;

/// MA kinds: feed the construction value k times: every output equals the first output and the value
pub fn c08_ma_constant() {
	let kind = rsx::param_str("kind");
	let n = rsx::param("n") as PeriodType;
	let k = rsx::param("k") as usize;
	let v = rsx::val("v");
	let mut m = ma_by_name(&kind, n).init(v).unwrap();
	let first = m.next(&v);
	rsx::close("ma.const.first", first, v, 8.0);
	for _i in 1..k {
		let y = m.next(&v);
		rsx::close("ma.const", y, first, 8.0);
	}
}

/// MA kinds: j extra leading copies of the first element, then the same stream: same outputs
pub fn c08_ma_prefix() {
	let kind = rsx::param_str("kind");
	let n = rsx::param("n") as PeriodType;
	let j = rsx::param("j") as usize;
	let m_len = rsx::param("m") as usize;
	let v = rsx::val("v");
	let mut a = ma_by_name(&kind, n).init(v).unwrap();
	let mut b = ma_by_name(&kind, n).init(v).unwrap();
	// both streams start with their first element (the API prescribes it)
	a.next(&v);
	b.next(&v);
	for _q in 0..j {
		a.next(&v);
	}
	for i in 0..m_len {
		let s = rsx::val_i("s", i);
		let ya = a.next(&s);
		let yb = b.next(&s);
		rsx::close("ma.prefix", ya, yb, (n as usize + j + m_len + 8) as ValueType * 8.0);
	}
}

fn const_check(label: &str, first: ValueType, y: ValueType) {
	rsx::close(label, y, first, 64.0);
}

/// the remaining arithmetic methods on a constant input
pub fn c08_method_constant() {
	let kind = rsx::param_str("kind");
	let n = rsx::param("n") as PeriodType;
	let k = rsx::param("k") as usize;
	let v = rsx::val("v");
	match kind.as_str() {
		"integral" => {
			let mut m = Integral::new(n, &v).unwrap();
			let first = m.next(&v);
			for _i in 1..k {
				const_check("integral.const", first, m.next(&v));
			}
		}
		"derivative" => {
			let mut m = Derivative::new(n, &v).unwrap();
			let first = m.next(&v);
			rsx::close("derivative.const0", first, 0.0, 8.0);
			for _i in 1..k {
				const_check("derivative.const", first, m.next(&v));
			}
		}
		"momentum" => {
			let mut m = Momentum::new(n, &v).unwrap();
			let first = m.next(&v);
			rsx::close("momentum.const0", first, 0.0, 8.0);
			for _i in 1..k {
				const_check("momentum.const", first, m.next(&v));
			}
		}
		"roc" => {
			rsx::assume(v > 0.001);
			let mut m = RateOfChange::new(n, &v).unwrap();
			let first = m.next(&v);
			rsx::close("roc.const0", first, 0.0, 8.0);
			for _i in 1..k {
				const_check("roc.const", first, m.next(&v));
			}
		}
		"stdev" => {
			let mut m = StDev::new(n, &v).unwrap();
			let first = m.next(&v);
			rsx::close("stdev.const0", first * first, 0.0, 8.0);
			for _i in 1..k {
				let y = m.next(&v);
				rsx::close("stdev.const", y * y, first * first, 64.0);
			}
		}
		"meanabsdev" => {
			let mut m = MeanAbsDev::new(n, &v).unwrap();
			let first = m.next(&v);
			rsx::close("meanabsdev.const0", first, 0.0, 8.0);
			for _i in 1..k {
				const_check("meanabsdev.const", first, m.next(&v));
			}
		}
		"medianabsdev" => {
			let mut m = MedianAbsDev::new(n, &v).unwrap();
			let first = m.next(&v);
			rsx::close("medianabsdev.const0", first, 0.0, 8.0);
			for _i in 1..k {
				const_check("medianabsdev.const", first, m.next(&v));
			}
		}
		"cci" => {
			let mut m = CCI::new(n, &v).unwrap();
			let first = m.next(&v);
			rsx::close("cci.const0", first, 0.0, 8.0);
			for _i in 1..k {
				const_check("cci.const", first, m.next(&v));
			}
		}
		"linvol" => {
			let mut m = LinearVolatility::new(n, &v).unwrap();
			let first = m.next(&v);
			rsx::close("linvol.const0", first, 0.0, 8.0);
			for _i in 1..k {
				const_check("linvol.const", first, m.next(&v));
			}
		}
		"tsi" => {
			let mut m = TSI::new(n, n + 1, &v).unwrap();
			let first = m.next(&v);
			rsx::close("tsi.const0", first, 0.0, 8.0);
			for _i in 1..k {
				const_check("tsi.const", first, m.next(&v));
			}
		}
		"conv" => {
			let mut w: Vec<ValueType> = Vec::new();
			let mut ws = 0.0;
			for q in 0..(n as usize) {
				let x = rsx::val_i("w", q);
				w.push(x);
				ws += x;
			}
			rsx::assume(ws > 0.001 || ws < -0.001);
			let mut m = Conv::new(w, &v).unwrap();
			let first = m.next(&v);
			rsx::close("conv.const.value", first, v, 1024.0);
			for _i in 1..k {
				rsx::close("conv.const", m.next(&v), first, 1024.0);
			}
		}
		_ => {
			// vwma
			let q = rsx::val("q");
			rsx::assume(q > 0.001);
			let mut m = VWMA::new(n, &(v, q)).unwrap();
			let first = m.next(&(v, q));
			rsx::close("vwma.const.value", first, v, 1024.0);
			for _i in 1..k {
				rsx::close("vwma.const", m.next(&(v, q)), first, 1024.0);
			}
		}
	}
}

/// candle-input methods on a constant valid candle
pub fn c08_candle_method_constant() {
	let n = rsx::param("n") as PeriodType;
	let k = rsx::param("k") as usize;
	let c = valid_candle_i(0);
	let mut adi = ADI::new(n, &c).unwrap();
	let mut tr = TR::new(&c).unwrap();
	let mut ha = HeikinAshi::new((), &c).unwrap();
	let a0 = adi.next(&c);
	let t0 = tr.next(&c);
	let h0 = ha.next(&c);
	rsx::close("tr.const.value", t0, c.high - c.low, 8.0);
	for _i in 1..k {
		rsx::close("adi.const", adi.next(&c), a0, 1024.0);
		rsx::close("tr.const", tr.next(&c), t0, 8.0);
		let h = ha.next(&c);
		rsx::close("ha.const.open", h.open, h0.open, 8.0);
		rsx::close("ha.const.close", h.close, h0.close, 8.0);
		rsx::close("ha.const.high", h.high, h0.high, 8.0);
		rsx::close("ha.const.low", h.low, h0.low, 8.0);
	}
}

/// windowed non-MA methods: j extra leading copies of the first element change nothing
pub fn c08_method_prefix() {
	let kind = rsx::param_str("kind");
	let n = rsx::param("n") as PeriodType;
	let j = rsx::param("j") as usize;
	let m_len = rsx::param("m") as usize;
	let v = rsx::val("v");
	let scale = (n as usize + j + m_len + 8) as ValueType * 1024.0;
	match kind.as_str() {
		"integral" => {
			let mut a = Integral::new(n, &v).unwrap();
			let mut b = Integral::new(n, &v).unwrap();
			a.next(&v);
			b.next(&v);
			for _q in 0..j {
				a.next(&v);
			}
			for i in 0..m_len {
				let s = rsx::val_i("s", i);
				rsx::close("integral.prefix", a.next(&s), b.next(&s), scale);
			}
		}
		"derivative" => {
			let mut a = Derivative::new(n, &v).unwrap();
			let mut b = Derivative::new(n, &v).unwrap();
			a.next(&v);
			b.next(&v);
			for _q in 0..j {
				a.next(&v);
			}
			for i in 0..m_len {
				let s = rsx::val_i("s", i);
				rsx::close("derivative.prefix", a.next(&s), b.next(&s), scale);
			}
		}
		"stdev" => {
			let mut a = StDev::new(n, &v).unwrap();
			let mut b = StDev::new(n, &v).unwrap();
			a.next(&v);
			b.next(&v);
			for _q in 0..j {
				a.next(&v);
			}
			for i in 0..m_len {
				let s = rsx::val_i("s", i);
				let (ya, yb) = (a.next(&s), b.next(&s));
				rsx::close("stdev.prefix", ya * ya, yb * yb, scale);
			}
		}
		"linvol" => {
			let mut a = LinearVolatility::new(n, &v).unwrap();
			let mut b = LinearVolatility::new(n, &v).unwrap();
			a.next(&v);
			b.next(&v);
			for _q in 0..j {
				a.next(&v);
			}
			for i in 0..m_len {
				let s = rsx::val_i("s", i);
				rsx::close("linvol.prefix", a.next(&s), b.next(&s), scale);
			}
		}
		"meanabsdev" => {
			let mut a = MeanAbsDev::new(n, &v).unwrap();
			let mut b = MeanAbsDev::new(n, &v).unwrap();
			a.next(&v);
			b.next(&v);
			for _q in 0..j {
				a.next(&v);
			}
			for i in 0..m_len {
				let s = rsx::val_i("s", i);
				rsx::close("meanabsdev.prefix", a.next(&s), b.next(&s), scale);
			}
		}
		_ => {
			let mut a = Momentum::new(n, &v).unwrap();
			let mut b = Momentum::new(n, &v).unwrap();
			a.next(&v);
			b.next(&v);
			for _q in 0..j {
				a.next(&v);
			}
			for i in 0..m_len {
				let s = rsx::val_i("s", i);
				rsx::close("momentum.prefix", a.next(&s), b.next(&s), scale);
			}
		}
	}
}
