//! C07(b) — a long past is forgotten: a finite-window instance with an arbitrary (symbolic) past
//! behaves like a fresh instance primed with the last window.
use crate::reflib::*;
use crate::rsx;
use yata::core::{Action, Candle, IndicatorConfig, IndicatorInstance, Method, MovingAverageConstructor, PeriodType, ValueType};
use yata::indicators::ParabolicSAR;
use yata::helpers::Peekable;
use yata::methods::*;

/// finite-window MA kinds
pub fn c07_ma_forgets() {
	let kind = rsx::param_str("kind");
	let n = rsx::param("n") as PeriodType;
	let p = rsx::param("p") as usize; // length of the arbitrary past
	let w = rsx::param("w") as usize; // priming length (>= the method's memory)
	let k = rsx::param("k") as usize;
	let a0 = rsx::val("a0");
	let mut a = ma_by_name(&kind, n).init(a0).unwrap();
	a.next(&a0);
	for i in 0..p {
		let x = rsx::val_i("past", i);
		a.next(&x);
	}
	let mut win: Vec<ValueType> = Vec::new();
	for i in 0..w {
		win.push(rsx::val_i("w", i));
	}
	let mut b = ma_by_name(&kind, n).init(win[0]).unwrap();
	for i in 0..w {
		a.next(&win[i]);
		b.next(&win[i]);
	}
	let scale = (n as usize + p + w + k + 8) as ValueType * 64.0;
	for i in 0..k {
		let x = rsx::val_i("x", i);
		let ya = a.next(&x);
		let yb = b.next(&x);
		if rsx::mode_fp() {
			rsx::check("forgets.exact", ya == yb);
		} else {
			rsx::close("forgets", ya, yb, scale);
		}
	}
}

/// other windowed methods
pub fn c07_method_forgets() {
	let kind = rsx::param_str("kind");
	let n = rsx::param("n") as PeriodType;
	let p = rsx::param("p") as usize;
	let w = rsx::param("w") as usize;
	let k = rsx::param("k") as usize;
	let a0 = rsx::val("a0");
	let mut past: Vec<ValueType> = Vec::new();
	for i in 0..p {
		past.push(rsx::val_i("past", i));
	}
	let mut win: Vec<ValueType> = Vec::new();
	for i in 0..w {
		win.push(rsx::val_i("w", i));
	}
	let mut xs: Vec<ValueType> = Vec::new();
	for i in 0..k {
		xs.push(rsx::val_i("x", i));
	}
	let scale = (n as usize + p + w + k + 8) as ValueType * 1024.0;
	match kind.as_str() {
		"integral" => {
			let mut a = Integral::new(n, &a0).unwrap();
			let mut b = Integral::new(n, &win[0]).unwrap();
			a.next(&a0);
			for x in past.iter() {
				a.next(x);
			}
			for x in win.iter() {
				a.next(x);
				b.next(x);
			}
			for x in xs.iter() {
				rsx::close("integral.forgets", a.next(x), b.next(x), scale);
			}
		}
		"derivative" => {
			let mut a = Derivative::new(n, &a0).unwrap();
			let mut b = Derivative::new(n, &win[0]).unwrap();
			a.next(&a0);
			for x in past.iter() {
				a.next(x);
			}
			for x in win.iter() {
				a.next(x);
				b.next(x);
			}
			for x in xs.iter() {
				rsx::close("derivative.forgets", a.next(x), b.next(x), scale);
			}
		}
		"stdev" => {
			let mut a = StDev::new(n, &a0).unwrap();
			let mut b = StDev::new(n, &win[0]).unwrap();
			a.next(&a0);
			for x in past.iter() {
				a.next(x);
			}
			for x in win.iter() {
				a.next(x);
				b.next(x);
			}
			for x in xs.iter() {
				let (ya, yb) = (a.next(x), b.next(x));
				rsx::close("stdev.forgets", ya * ya, yb * yb, scale);
			}
		}
		"meanabsdev" => {
			let mut a = MeanAbsDev::new(n, &a0).unwrap();
			let mut b = MeanAbsDev::new(n, &win[0]).unwrap();
			a.next(&a0);
			for x in past.iter() {
				a.next(x);
			}
			for x in win.iter() {
				a.next(x);
				b.next(x);
			}
			for x in xs.iter() {
				rsx::close("meanabsdev.forgets", a.next(x), b.next(x), scale);
			}
		}
		"linvol" => {
			let mut a = LinearVolatility::new(n, &a0).unwrap();
			let mut b = LinearVolatility::new(n, &win[0]).unwrap();
			a.next(&a0);
			for x in past.iter() {
				a.next(x);
			}
			for x in win.iter() {
				a.next(x);
				b.next(x);
			}
			for x in xs.iter() {
				rsx::close("linvol.forgets", a.next(x), b.next(x), scale);
			}
		}
		_ => {
			let mut a = Momentum::new(n, &a0).unwrap();
			let mut b = Momentum::new(n, &win[0]).unwrap();
			a.next(&a0);
			for x in past.iter() {
				a.next(x);
			}
			for x in win.iter() {
				a.next(x);
				b.next(x);
			}
			for x in xs.iter() {
				rsx::close("momentum.forgets", a.next(x), b.next(x), scale);
			}
		}
	}
}

/// definitional pivot rule: the element `right` steps back is >= each of the `left` older and > each of
/// the `right` newer elements (newest of equal extrema wins); hist has enough prehistory copies
fn c07_is_upper_pivot(h: &[ValueType], left: usize, right: usize) -> bool {
	let p = h.len() - 1 - right;
	let mut ok = true;
	for q in 1..=left {
		ok = ok && h[p] >= h[p - q];
	}
	for q in 1..=right {
		ok = ok && h[p] > h[p + q];
	}
	ok
}
fn c07_is_lower_pivot(h: &[ValueType], left: usize, right: usize) -> bool {
	let p = h.len() - 1 - right;
	let mut ok = true;
	for q in 1..=left {
		ok = ok && h[p] <= h[p - q];
	}
	for q in 1..=right {
		ok = ok && h[p] < h[p + q];
	}
	ok
}

/// C07(a): position counters far beyond PeriodType::MAX — `pre` concrete zig-zag inputs, then `t`
/// symbolic ones; the reversal detectors and the arg-extremum trackers must stay definitional
pub fn c07_long_stream() {
	let pre = rsx::param("pre") as usize;
	let t = rsx::param("t") as usize;
	let left = rsx::param("left") as PeriodType;
	let right = rsx::param("right") as PeriodType;
	let n = rsx::param("n") as PeriodType;
	let v0: ValueType = 0.0;
	let mut up = UpperReversalSignal::new(left, right, &v0).unwrap();
	let mut lo = LowerReversalSignal::new(left, right, &v0).unwrap();
	let mut rs = ReversalSignal::new(left, right, &v0).unwrap();
	let mut hi = HighestIndex::new(n, &v0).unwrap();
	let mut li = LowestIndex::new(n, &v0).unwrap();
	let depth = (left as usize) + (right as usize) + (n as usize) + 2;
	let mut hist: Vec<ValueType> = vec![v0; depth];
	let mut steps = 0;
	for i in 0..(pre + t) {
		let x: ValueType = if i == 0 {
			v0
		} else if i < pre {
			// expanding zig-zag: no plateaus, pivots at every step
			let m = (i % 7) as ValueType;
			if i % 2 == 0 {
				m
			} else {
				-m - 1.0
			}
		} else {
			rsx::val_i("x", i - pre)
		};
		hist.push(x);
		if hist.len() > depth + 4 {
			hist.remove(0);
		}
		let u = up.next(&x);
		let l = lo.next(&x);
		let r = rs.next(&x);
		let h = hi.next(&x);
		let g = li.next(&x);
		steps += 1;
		if i + 4 >= pre {
			let can = steps > right as usize;
			let eu = can && c07_is_upper_pivot(&hist, left as usize, right as usize);
			let el = can && c07_is_lower_pivot(&hist, left as usize, right as usize);
			rsx::check("long.upper", u.analog() == eu as i8);
			rsx::check("long.lower", l.analog() == el as i8);
			rsx::check("long.signal", r.analog() == (el as i8) - (eu as i8));
			rsx::check("long.highest_index", h == r_highest_age(r_last(&hist, n as usize)) as PeriodType);
			rsx::check("long.lowest_index", g == r_lowest_age(r_last(&hist, n as usize)) as PeriodType);
		}
	}
}

/// C07(a) for the indicator-level counter: ParabolicSAR's `trend_inc` (number of acceleration steps of the
/// running trend) after a single uninterrupted trend of `pre` concrete bars that each make a new extreme,
/// with af_max/af_step = ratio > 255 so that the acceleration factor is still growing beyond step 255.
/// Then `t` symbolic valid candles (continuation or stop-and-reverse): SAR/trend equal Wilder's state machine.
pub fn c07_psar_long() {
	let pre = rsx::param("pre") as usize;
	let t = rsx::param("t") as usize;
	let step_den = rsx::param("step_den") as ValueType;
	let ratio = rsx::param("ratio") as ValueType;
	let down = rsx::param("down") != 0;
	let af_step = 1.0 / step_den;
	let af_max = af_step * ratio;
	let cfg = ParabolicSAR { af_step, af_max };
	let base: ValueType = 100000.0;
	let c0 = Candle { open: base, high: base + 1.0, low: base - 1.0, close: base, volume: 1.0 };
	let mut ind = cfg.init(&c0).unwrap();
	let mut up = true;
	let mut ep = c0.high;
	let mut sar = c0.low;
	let mut k: usize = 1;
	let mut prev = c0;
	for i in 0..(pre + t) {
		let c = if i < pre {
			// every bar makes a new extreme in the direction of the trend while its other side stays on the
			// SAR (so the SAR itself stays put and all numbers stay small); the last two concrete bars leave
			// the SAR behind, so that from then on the SAR moves with the accumulated acceleration factor.
			// down = 1: bar 0 reverses the initial up trend, then the mirrored staircase
			let far = i + 2 >= pre;
			let j = i as ValueType;
			if down {
				let (lo, hi) = if i == 0 { (base - 10.0, base + 1.0) } else { (base - 10.0 - j / 64.0, if far { base - 5.0 } else { base + 1.0 }) };
				Candle { open: hi, high: hi, low: lo, close: lo, volume: 1.0 }
			} else {
				let (lo, hi) = (if far { base + 5.0 } else { base - 1.0 }, base + 2.0 + j / 64.0);
				Candle { open: lo, high: hi, low: lo, close: hi, volume: 1.0 }
			}
		} else {
			let c = valid_candle_i(i - pre);
			rsx::assume(c.low > base / 4.0 && c.high < base * 4.0);
			c
		};
		let r = ind.next(&c);
		if up {
			if c.high > ep {
				ep = c.high;
				k += 1;
			}
			if c.low < sar {
				up = false;
				sar = ep;
				ep = c.low;
				k = 1;
			}
		} else {
			if c.low < ep {
				ep = c.low;
				k += 1;
			}
			if c.high > sar {
				up = true;
				sar = ep;
				ep = c.high;
				k = 1;
			}
		}
		let trend: ValueType = if up { 1.0 } else { -1.0 };
		if i + 3 >= pre {
			rsx::close("psar_long.sar", r.value(0), sar, 256.0);
			rsx::check("psar_long.trend", r.value(1) == trend);
		}
		let afk = af_max.min(af_step * (k as ValueType));
		sar = sar + afk * (ep - sar);
		if up {
			sar = sar.min(c.low).min(prev.low);
		} else {
			sar = sar.max(c.high).max(prev.high);
		}
		prev = c;
	}
}

/// C10 / C07(a): AwesomeOscillator's consecutive-peak counters (u8, saturating) on an accepted instance with
/// conseq_peaks = 255: `pre` concrete candles whose oscillator value is a saw-tooth that never crosses zero
/// (a local extremum every second bar, so the counter passes 255), then `t` symbolic valid candles: no panic
/// event on any path, and once 255 peaks have been counted every further confirmed peak on that side signals
pub fn c10_awesome_long() {
	let pre = rsx::param("pre") as usize;
	let t = rsx::param("t") as usize;
	let down = rsx::param("down") != 0;
	let cfg = yata::indicators::AwesomeOscillator {
		ma1: yata::helpers::MA::SMA(3),
		ma2: yata::helpers::MA::SMA(2),
		source: yata::core::Source::Close,
		left: 1,
		right: 1,
		conseq_peaks: 255,
	};
	let base: ValueType = 100000.0;
	let c0 = Candle { open: base, high: base, low: base, close: base, volume: 1.0 };
	let mut ind = cfg.init(&c0).unwrap();
	let mut fired = 0;
	for i in 0..(pre + t) {
		let c = if i < pre {
			// x_i = base + a*i + b*(i mod 2): SMA2 - SMA3 = (3a +- b)/6 alternates without changing sign
			let a: ValueType = if down { -2.0 } else { 2.0 };
			let x = base + a * (i as ValueType) + 3.0 * ((i % 2) as ValueType);
			Candle { open: x, high: x, low: x, close: x, volume: 1.0 }
		} else {
			let c = valid_candle_i(i - pre);
			rsx::assume(c.low > base / 4.0 && c.high < base * 4.0);
			c
		};
		let r = ind.next(&c);
		rsx::check("ao_long.shape", r.values().len() == 1 && r.signals().len() == 2);
		if i < pre && i >= 520 {
			// more than 255 peaks on one side have been confirmed: every second bar confirms another one
			if r.signal(0) != Action::None {
				fired += 1;
			}
		}
	}
	rsx::check("ao_long.signals_after_255_peaks", pre < 560 || fired >= 10);
}
