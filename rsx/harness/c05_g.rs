//! Indicator harnesses, group G (C05 values / C06 signals / C12 ranges): Aroon, AverageDirectionalIndex,
//! AwesomeOscillator, BollingerBands, ChaikinMoneyFlow, ChaikinOscillator, ChandeKrollStop,
//! ChandeMomentumOscillator, CommodityChannelIndex.
//! One entry per indicator; `what` selects the aspect. The reference formulas are written from the doc
//! comments / linked references over explicit histories (oldest first); windows are pre-filled with the
//! value of the initial candle exactly as the crate's windows are (documented behaviour of Window::new).
use crate::reflib::*;
use crate::rsx;
use yata::core::{Action, Candle, IndicatorConfig, IndicatorInstance, Method, MovingAverageConstructor, PeriodType, Source, ValueType, OHLCV};
use yata::indicators::*;
use yata::methods::*;

/// n copies of v (a window right after initialisation)
fn c05g_pre(v: ValueType, n: usize) -> Vec<ValueType> {
	let mut h = Vec::new();
	let mut i = 0;
	while i < n {
		h.push(v);
		i += 1;
	}
	h
}
fn c05g_source(name: &str) -> Source {
	match name {
		"close" => Source::Close,
		"open" => Source::Open,
		"high" => Source::High,
		"low" => Source::Low,
		"hl2" => Source::HL2,
		_ => Source::TP,
	}
}
/// the documented meaning of the sources (independent of OHLCV::source)
fn c05g_src(c: &Candle, name: &str) -> ValueType {
	match name {
		"close" => c.close,
		"open" => c.open,
		"high" => c.high,
		"low" => c.low,
		"hl2" => (c.high + c.low) / 2.0,
		_ => (c.high + c.low + c.close) / 3.0,
	}
}
/// true range: the largest of high-low, |high-prev_close|, |low-prev_close|
fn c05g_tr(c: &Candle, prev_close: ValueType) -> ValueType {
	r_max(r_max(c.high - c.low, r_abs(c.high - prev_close)), r_abs(c.low - prev_close))
}
/// (period - age of the newest maximal element) / period over a window of `period` elements (oldest first)
fn c05g_aroon_up(w: &[ValueType]) -> ValueType {
	let n = w.len();
	let m = r_highest(w);
	let mut res = 0.0;
	let mut k = n;
	while k > 0 {
		k -= 1;
		// age k: element n-1-k; newer (smaller k) assignments come later and win
		res = if w[n - 1 - k] == m { ((n - k) as ValueType) / (n as ValueType) } else { res };
	}
	res
}
fn c05g_aroon_down(w: &[ValueType]) -> ValueType {
	let n = w.len();
	let m = r_lowest(w);
	let mut res = 0.0;
	let mut k = n;
	while k > 0 {
		k -= 1;
		res = if w[n - 1 - k] == m { ((n - k) as ValueType) / (n as ValueType) } else { res };
	}
	res
}

pub fn c05_aroon() {
	let what = rsx::param_str("what");
	let t = rsx::param("t") as usize;
	let n = rsx::param("n") as usize;
	let ozp = rsx::param("ozp") as usize;
	// signal zone in percent; 50 with n = 2 and 25 with n = 4 put the zone borders ON attainable values of up/down
	let zone = (rsx::param("z") as ValueType) / 100.0;
	let cfg = Aroon { period: n as PeriodType, signal_zone: zone, over_zone_period: ozp as PeriodType };
	let c0 = valid_candle_i(1000);
	let mut ind = cfg.init(&c0).unwrap();
	let mut hh = c05g_pre(c0.high, n);
	let mut ll = c05g_pre(c0.low, n);
	let mut prev_d = 0.0;
	let mut up_run: i64 = 0;
	let mut down_run: i64 = 0;
	for i in 0..t {
		let c = valid_candle_i(i);
		let r = ind.next(&c);
		hh.push(c.high);
		ll.push(c.low);
		if what == "values" {
			rsx::check("aroon.nvalues", r.values().len() == 2);
			rsx::close("aroon.up = (period - age of highest high)/period", r.value(0), c05g_aroon_up(r_last(&hh, n)), 64.0);
			rsx::close("aroon.down = (period - age of lowest low)/period", r.value(1), c05g_aroon_down(r_last(&ll, n)), 64.0);
		}
		if what == "ranges" {
			rsx::check("aroon.up >= 0", r.value(0) >= 0.0);
			rsx::check("aroon.up <= 1", r.value(0) <= 1.0);
			rsx::check("aroon.down >= 0", r.value(1) >= 0.0);
			rsx::check("aroon.down <= 1", r.value(1) <= 1.0);
		}
		if what == "signals" {
			let (up, down) = (r.value(0), r.value(1));
			rsx::check("aroon.nsignals", r.signals().len() == 3);
			let d = up - down;
			rsx::check("aroon.signal0 = up crosses down", r.signal(0) == r_action(r_cross(prev_d, d)));
			prev_d = d;
			// rule asserted (code; the doc says "rises up to 1.0"): +1 on every step where up is 1.0, -1 where down is 1.0
			let edge = ((up == 1.0) as i8) - ((down == 1.0) as i8);
			rsx::check("aroon.signal1 = (up is 1) - (down is 1)", r.signal(1) == r_action(edge));
			// lengths of the current runs "up >= 1-zone and down <= zone" / mirrored, difference scaled by over_zone_period
			let in_up = up >= 1.0 - zone && down <= zone;
			let in_down = down >= 1.0 - zone && up <= zone;
			up_run = if in_up { up_run + 1 } else { 0 };
			down_run = if in_down { down_run + 1 } else { 0 };
			let strength = ((up_run - down_run) as ValueType) / (ozp as ValueType);
			rsx::check("aroon.signal2 = (run in up zone - run in down zone)/over_zone_period", r.signal(2) == Action::from(strength));
		}
	}
}

/// Bollinger bands: middle = mean of the last n sources, upper/lower = middle +- sigma * stdev.
/// The standard deviation is compared through its square (sample variance, divisor n-1, which is the
/// crate's documented StDev) so that no square root is needed on the reference side.
pub fn c05_bollinger_bands() {
	let what = rsx::param_str("what");
	let t = rsx::param("t") as usize;
	let n = rsx::param("n") as usize;
	let sname = rsx::param_str("src");
	// with n = 3 the source can be at most (n-1)/sqrt(n) = 1.1547 sample deviations from the mean: sigma must be below that for band touches to exist
	let sigma = 1.125;
	let cfg = BollingerBands { avg_size: n as PeriodType, sigma, source: c05g_source(&sname) };
	let c0 = valid_candle_i(1000);
	let mut ind = cfg.init(&c0).unwrap();
	let mut hist = c05g_pre(c05g_src(&c0, &sname), n);
	for i in 0..t {
		let c = valid_candle_i(i);
		let r = ind.next(&c);
		let src = c05g_src(&c, &sname);
		hist.push(src);
		let (upper, middle, lower) = (r.value(0), r.value(1), r.value(2));
		if what == "values" {
			let w = r_last(&hist, n);
			let mu = r_mean(w);
			let mut ss = 0.0;
			for a in w {
				ss += (*a - mu) * (*a - mu);
			}
			let var = ss / ((n - 1) as ValueType);
			rsx::check("bollinger.nvalues", r.values().len() == 3);
			rsx::close("bollinger.middle = mean of the last n sources", middle, mu, 64.0);
			let du = (upper - middle) / sigma;
			let dl = (middle - lower) / sigma;
			rsx::check("bollinger.upper - middle >= 0", upper - middle >= 0.0);
			rsx::close("bollinger.((upper-middle)/sigma)^2 = sample variance", du * du, r_abs(var), 4096.0);
			rsx::close("bollinger.middle-lower = upper-middle", dl, du, 64.0);
		}
		if what == "ranges" {
			rsx::check("bollinger.upper >= middle", upper >= middle);
			rsx::check("bollinger.middle >= lower", middle >= lower);
		}
		if what == "signals" {
			// documented: full buy above the upper bound, full sell under the lower bound, otherwise the relative
			// position of the source between the bounds mapped to [-1, 1]; (code) zero-width band: position 0.5 => 0
			let range = upper - lower;
			let rel = if range == 0.0 { 0.5 } else { (src - lower) / range };
			rsx::check("bollinger.nsignals", r.signals().len() == 1);
			rsx::check("bollinger.signal = Action(2*(src-lower)/(upper-lower) - 1)", r.signal(0) == Action::from(rel.mul_add(2.0, -1.0)));
			// at/above the upper bound the position is >= 1, at/below the lower bound <= -1 (Action::from clamps
			// to full buy / full sell: C16); stated on the position so that no integer rounding enters the query
			let pos = rel.mul_add(2.0, -1.0);
			if rsx::param("touch") == 1 {
				rsx::check("bollinger.position >= 1 at/above upper", !(src >= upper && range > 0.0) || pos >= 1.0);
				rsx::check("bollinger.position <= -1 at/below lower", !(src <= lower && range > 0.0) || pos <= -1.0);
			}
			rsx::check("bollinger.Action(1) is full buy, Action(-1) full sell", Action::from(1.0) == Action::BUY_ALL && Action::from(-1.0) == Action::SELL_ALL);
		}
	}
}

/// Chaikin money flow = sum(clv * volume) / sum(volume) over the last n candles
pub fn c05_chaikin_money_flow() {
	let what = rsx::param_str("what");
	let t = rsx::param("t") as usize;
	let n = rsx::param("n") as usize;
	let cfg = ChaikinMoneyFlow { size: n as PeriodType };
	let c0 = valid_candle_i(1000);
	let mut ind = cfg.init(&c0).unwrap();
	let mut mfv = c05g_pre(r_clv(&c0) * c0.volume, n);
	let mut vol = c05g_pre(c0.volume, n);
	let mut prev = 0.0;
	for i in 0..t {
		let c = valid_candle_i(i);
		mfv.push(r_clv(&c) * c.volume);
		vol.push(c.volume);
		let vs = r_sum(r_last(&vol, n));
		// precondition of the formula: the total volume of the window is not zero
		rsx::assume(vs > 0.001);
		let r = ind.next(&c);
		let v = r.value(0);
		if what == "values" {
			rsx::check("cmf.nvalues", r.values().len() == 1);
			rsx::close("cmf.value = sum(clv*volume)/sum(volume)", v, r_sum(r_last(&mfv, n)) / vs, 64.0);
		}
		if what == "ranges" {
			rsx::check("cmf.value >= -1", v >= -1.0);
			rsx::check("cmf.value <= 1", v <= 1.0);
		}
		if what == "signals" {
			rsx::check("cmf.nsignals", r.signals().len() == 1);
			rsx::check("cmf.signal = value crosses zero", r.signal(0) == r_action(r_cross(prev, v)));
			prev = v;
		}
	}
}

/// Chande momentum oscillator = (Su - Sd)/(Su + Sd), Su / Sd = sums of the up / down moves of the source
/// over the last n steps; 0 when there was no move at all
pub fn c05_chande_momentum_oscillator() {
	let what = rsx::param_str("what");
	let t = rsx::param("t") as usize;
	let n = rsx::param("n") as usize;
	let sname = rsx::param_str("src");
	let zone = 0.5;
	let cfg = ChandeMomentumOscillator { period: n as PeriodType, zone, source: c05g_source(&sname) };
	let c0 = valid_candle_i(1000);
	let mut ind = cfg.init(&c0).unwrap();
	let mut ups = c05g_pre(0.0, n);
	let mut downs = c05g_pre(0.0, n);
	let mut prev_src = c05g_src(&c0, &sname);
	let mut prev_lo = 0.0;
	let mut prev_hi = 0.0;
	for i in 0..t {
		let c = valid_candle_i(i);
		let r = ind.next(&c);
		let src = c05g_src(&c, &sname);
		let ch = src - prev_src;
		prev_src = src;
		ups.push(r_max(ch, 0.0));
		downs.push(r_max(-ch, 0.0));
		let v = r.value(0);
		if what == "values" {
			let su = r_sum(r_last(&ups, n));
			let sd = r_sum(r_last(&downs, n));
			let e = if su + sd == 0.0 { 0.0 } else { (su - sd) / (su + sd) };
			rsx::check("cmo.nvalues", r.values().len() == 1);
			rsx::close("cmo.value = (Su-Sd)/(Su+Sd)", v, e, 64.0);
		}
		if what == "ranges" {
			rsx::check("cmo.value >= -1", v >= -1.0);
			rsx::check("cmo.value <= 1", v <= 1.0);
		}
		if what == "signals" {
			// documented: above `zone` => full sell, below `-zone` => full buy; asserted as crossings (code):
			// buy when value+zone was > 0 and is <= 0, sell when value-zone was < 0 and is >= 0
			let lo = v + zone;
			let hi = v - zone;
			let buy = prev_lo > 0.0 && lo <= 0.0;
			let sell = prev_hi < 0.0 && hi >= 0.0;
			rsx::check("cmo.nsignals", r.signals().len() == 1);
			rsx::check("cmo.signal = buy on crossing -zone downwards, sell on crossing +zone upwards", r.signal(0) == r_action((buy as i8) - (sell as i8)));
			prev_lo = lo;
			prev_hi = hi;
		}
	}
}

/// Average directional index (Wilder): +DM / -DM from the highs / lows `period1` steps apart, smoothed by
/// method1 and divided by the equally smoothed true range (+DI, -DI); DX = |+DI - -DI| / (+DI + -DI),
/// ADX = method2(DX). Seeds (undocumented, taken from the code): TR average starts from the range of the
/// first candle, the DM averages and the ADX average start from 0.
pub fn c05_average_directional_index() {
	let what = rsx::param_str("what");
	let kind = rsx::param_str("ma");
	let t = rsx::param("t") as usize;
	let n1 = rsx::param("n1") as PeriodType;
	let n2 = rsx::param("n2") as PeriodType;
	let p1 = rsx::param("p1") as usize;
	let zone = 0.2;
	let cfg = AverageDirectionalIndex { method1: ma_by_name(&kind, n1), method2: ma_by_name(&kind, n2), period1: p1 as PeriodType, zone };
	let c0 = valid_candle_i(1000);
	let mut ind = cfg.init(&c0).unwrap();
	let mut tr_ma = ma_by_name(&kind, n1).init(c05g_tr(&c0, c0.close)).unwrap();
	let mut pdm_ma = ma_by_name(&kind, n1).init(0.0).unwrap();
	let mut mdm_ma = ma_by_name(&kind, n1).init(0.0).unwrap();
	let mut adx_ma = ma_by_name(&kind, n2).init(0.0).unwrap();
	let mut hh = c05g_pre(c0.high, p1);
	let mut ll = c05g_pre(c0.low, p1);
	let mut prev_close = c0.close;
	for i in 0..t {
		let c = valid_candle_i(i);
		let tr = c05g_tr(&c, prev_close);
		prev_close = c.close;
		let atr = tr_ma.next(&tr);
		// precondition of the formula: the smoothed true range (divisor of +DI / -DI) is not zero
		rsx::assume(atr != 0.0);
		let r = ind.next(&c);
		let up = c.high - hh[hh.len() - p1];
		let dn = ll[ll.len() - p1] - c.low;
		hh.push(c.high);
		ll.push(c.low);
		let pdm = if up > dn && up > 0.0 { up } else { 0.0 };
		let mdm = if dn > up && dn > 0.0 { dn } else { 0.0 };
		let pdi = pdm_ma.next(&pdm) / atr;
		let mdi = mdm_ma.next(&mdm) / atr;
		let s = pdi + mdi;
		let dx = if s == 0.0 { 0.0 } else { r_abs(pdi - mdi) / s };
		let adx = adx_ma.next(&dx);
		if what == "values" {
			rsx::check("adx.nvalues", r.values().len() == 3);
			rsx::close("adx.+DI = ma1(+DM)/ma1(TR)", r.value(1), pdi, 64.0);
			rsx::close("adx.-DI = ma1(-DM)/ma1(TR)", r.value(2), mdi, 64.0);
			rsx::close("adx.ADX = ma2(|+DI - -DI|/(+DI + -DI))", r.value(0), adx, 64.0);
		}
		if what == "ranges" {
			rsx::check("adx.+DI >= 0", r.value(1) >= 0.0);
			rsx::check("adx.-DI >= 0", r.value(2) >= 0.0);
			if p1 == 1 {
				rsx::check("adx.+DI <= 1", r.value(1) <= 1.0);
				rsx::check("adx.-DI <= 1", r.value(2) <= 1.0);
			} else {
				// the documented range [0, 1] of +DI / -DI when the directional movement spans period1 > 1 steps
				rsx::check("adx.DI.range.documented.period1>1", r.value(1) <= 1.0 && r.value(2) <= 1.0);
			}
			rsx::check("adx.ADX >= 0", r.value(0) >= 0.0);
			rsx::check("adx.ADX <= 1", r.value(0) <= 1.0);
		}
		if what == "signals" {
			let (a, p, m) = (r.value(0), r.value(1), r.value(2));
			let dir = ((p > m) as i8) - ((p < m) as i8);
			let s1 = if a > zone { dir } else { 0 };
			rsx::check("adx.nsignals", r.signals().len() == 2);
			rsx::check("adx.signal0 = sign(+DI - -DI) when ADX > zone", r.signal(0) == r_action(s1));
			rsx::check("adx.signal1 = Action(+DI - -DI)", r.signal(1) == Action::from(p - m));
		}
	}
}

/// Awesome oscillator = fast average - slow average of the source (ma2 is the fast one)
pub fn c05_awesome_oscillator() {
	let what = rsx::param_str("what");
	let kind = rsx::param_str("ma");
	let sname = rsx::param_str("src");
	let t = rsx::param("t") as usize;
	let cp = rsx::param("cp") as u8;
	let (slow_n, fast_n) = (3, 2);
	let cfg = AwesomeOscillator { ma1: ma_by_name(&kind, slow_n), ma2: ma_by_name(&kind, fast_n), source: c05g_source(&sname), left: 1, right: 1, conseq_peaks: cp };
	let c0 = valid_candle_i(1000);
	let mut ind = cfg.init(&c0).unwrap();
	let s0 = c05g_src(&c0, &sname);
	let mut slow = ma_by_name(&kind, slow_n).init(s0).unwrap();
	let mut fast = ma_by_name(&kind, fast_n).init(s0).unwrap();
	// pivot detector of the crate on the RETURNED values (its own correctness is C04): +1 = a local minimum
	// confirmed `right` steps later, -1 = a local maximum
	let mut pivots = ReversalSignal::new(1, 1, &0.0).unwrap();
	let mut n_min: u8 = 0;
	let mut n_max: u8 = 0;
	let mut prev = 0.0;
	for i in 0..t {
		let c = valid_candle_i(i);
		let r = ind.next(&c);
		let src = c05g_src(&c, &sname);
		let e = fast.next(&src) - slow.next(&src);
		let v = r.value(0);
		if what == "values" {
			rsx::check("ao.nvalues", r.values().len() == 1);
			rsx::close("ao.value = fast average - slow average", v, e, 64.0);
		}
		if what == "signals" {
			// rule asserted (code; the doc text "lower peaks"/"higher peaks" is ambiguous): local maxima are counted
			// while the value has not been above zero, local minima while it has not been below zero; the n-th
			// (n >= conseq_peaks) counted local maximum gives +1, the n-th counted local minimum gives -1; the
			// counters are cleared AFTER the step when the value is on the other side of zero
			let pv: i8 = pivots.next(&v).into();
			n_min = n_min.saturating_add((pv > 0) as u8);
			n_max = n_max.saturating_add((pv < 0) as u8);
			let s1 = ((pv < 0 && n_max >= cp) as i8) - ((pv > 0 && n_min >= cp) as i8);
			rsx::check("ao.nsignals", r.signals().len() == 2);
			rsx::check("ao.signal0 = twin peaks", r.signal(0) == r_action(s1));
			rsx::check("ao.signal1 = value crosses zero", r.signal(1) == r_action(r_cross(prev, v)));
			// documented: the positive signal is given "when value is below zero line", the negative one "when value is above zero line"
			let buy = r.signal(0) == Action::BUY_ALL;
			let sell = r.signal(0) == Action::SELL_ALL;
			rsx::check("ao.signal0.documented.side_of_zero", (!buy || v <= 0.0) && (!sell || v >= 0.0));
			if v < 0.0 {
				n_min = 0;
			}
			if v > 0.0 {
				n_max = 0;
			}
			prev = v;
		}
	}
}

/// Chaikin oscillator = short average - long average of the accumulation/distribution index
/// (ADI = running sum of clv*volume; window w > 0: sum over the last w candles)
pub fn c05_chaikin_oscillator() {
	let what = rsx::param_str("what");
	let kind = rsx::param_str("ma");
	let t = rsx::param("t") as usize;
	let w = rsx::param("w") as usize;
	let (short_n, long_n) = (2, 3);
	let cfg = ChaikinOscillator { ma1: ma_by_name(&kind, short_n), ma2: ma_by_name(&kind, long_n), window: w as PeriodType };
	let c0 = valid_candle_i(1000);
	let mut ind = cfg.init(&c0).unwrap();
	// windowless: the initial candle is not accumulated (ADI starts from 0); windowed: the window is pre-filled
	let mut mfv = c05g_pre(r_clv(&c0) * c0.volume, w);
	let adi0 = r_sum(&mfv);
	let mut short = ma_by_name(&kind, short_n).init(adi0).unwrap();
	let mut long = ma_by_name(&kind, long_n).init(adi0).unwrap();
	let mut prev = 0.0;
	for i in 0..t {
		let c = valid_candle_i(i);
		let r = ind.next(&c);
		mfv.push(r_clv(&c) * c.volume);
		let adi = if w == 0 { r_sum(&mfv) } else { r_sum(r_last(&mfv, w)) };
		let e = short.next(&adi) - long.next(&adi);
		let v = r.value(0);
		if what == "values" {
			rsx::check("chaikin_osc.nvalues", r.values().len() == 1);
			rsx::close("chaikin_osc.value = short average - long average of ADI", v, e, 4096.0);
		}
		if what == "ranges" {
			// the doc comment states "Range in [-1.0; 1.0]"
			rsx::check("chaikin_osc.range.documented", v >= -1.0 && v <= 1.0);
		}
		if what == "signals" {
			rsx::check("chaikin_osc.nsignals", r.signals().len() == 1);
			rsx::check("chaikin_osc.signal = value crosses zero", r.signal(0) == r_action(r_cross(prev, v)));
			prev = v;
		}
	}
}

/// Chande Kroll stop (TradingView): first_high_stop = highest(high, p) - x*ATR(p), first_low_stop = lowest(low, p) + x*ATR(p),
/// stop_short = highest(first_high_stop, q), stop_long = lowest(first_low_stop, q); values = [stop_long, source, stop_short]
pub fn c05_chande_kroll_stop() {
	let what = rsx::param_str("what");
	let kind = rsx::param_str("ma");
	let sname = rsx::param_str("src");
	let t = rsx::param("t") as usize;
	let p = rsx::param("p") as usize;
	let q = rsx::param("q") as usize;
	let x = 1.5;
	let cfg = ChandeKrollStop { ma: ma_by_name(&kind, p as PeriodType), x, q: q as PeriodType, source: c05g_source(&sname) };
	let c0 = valid_candle_i(1000);
	let mut ind = cfg.init(&c0).unwrap();
	let tr0 = c0.high - c0.low;
	let mut atr_ma = ma_by_name(&kind, p as PeriodType).init(tr0).unwrap();
	let mut hh = c05g_pre(c0.high, p);
	let mut ll = c05g_pre(c0.low, p);
	let mut fhs = c05g_pre(c0.high - x * tr0, q);
	let mut fls = c05g_pre(c0.low + x * tr0, q);
	let mut prev_close = c0.close;
	let mut prev_short = c0.high - x * tr0;
	let mut prev_long = c0.low + x * tr0;
	for i in 0..t {
		let c = valid_candle_i(i);
		let r = ind.next(&c);
		let src = c05g_src(&c, &sname);
		let (stop_long, stop_short) = (r.value(0), r.value(2));
		if what == "values" {
			let atr = atr_ma.next(&c05g_tr(&c, prev_close));
			prev_close = c.close;
			hh.push(c.high);
			ll.push(c.low);
			fhs.push(r_highest(r_last(&hh, p)) - x * atr);
			fls.push(r_lowest(r_last(&ll, p)) + x * atr);
			rsx::check("cks.nvalues", r.values().len() == 3);
			rsx::close("cks.stop_long = lowest(lowest(low,p) + x*ATR, q)", stop_long, r_lowest(r_last(&fls, q)), 64.0);
			rsx::close("cks.source", r.value(1), src, 64.0);
			rsx::close("cks.stop_short = highest(highest(high,p) - x*ATR, q)", stop_short, r_highest(r_last(&fhs, q)), 64.0);
		}
		if what == "signals" {
			// signal 0 (doc: relative position of the source between the stops, full buy at stop short, full sell at
			// stop long): position = (src - mid)/(mid - stop_long), mid = (stop_short + stop_long)/2; 0 when the stops coincide
			let mid = (stop_short + stop_long) * 0.5;
			let size = mid - stop_long;
			let pos = if size == 0.0 { 0.0 } else { (r.value(1) - mid) / size };
			rsx::check("cks.nsignals", r.signals().len() == 2);
			rsx::check("cks.signal0 = Action((src - mid)/(mid - stop_long))", r.signal(0) == Action::from(pos));
			if rsx::param("doc") == 1 {
				// documented: "When source value goes above stop short, then returns full buy signal. When source value goes
				// below stop long, then returns full sell signal"; asserted where the two sentences cannot collide: the source
				// is above BOTH stops / below BOTH stops
				let sv = r.value(1);
				// (margins of 1/4 keep the solver's counterexamples away from exact ties, so that they survive rounding to f64)
				let apart = r_abs(stop_short - stop_long) > 0.25;
				let above = apart && sv > stop_short + 0.25 && sv > stop_long + 0.25;
				let below = apart && sv < stop_short - 0.25 && sv < stop_long - 0.25;
				let buy = r.signal(0) == Action::BUY_ALL;
				let sell = r.signal(0) == Action::SELL_ALL;
				rsx::check("cks.signal0.documented.beyond_both_stops", (!above || buy) && (!below || sell));
			}
			// signal 1 (doc): only when stop long crosses stop short upwards (and ends strictly above it: code);
			// direction = sign of the cumulative move of both stops since the previous step
			let d_prev = prev_long - prev_short;
			let d = stop_long - stop_short;
			let crossed = d_prev < 0.0 && d >= 0.0 && stop_short < stop_long;
			let mv = (stop_short - prev_short) + (stop_long - prev_long);
			let dir = ((mv > 0.0) as i8) - ((mv < 0.0) as i8);
			let s2 = if crossed { dir } else { 0 };
			rsx::check("cks.signal1 = direction of the stops' move when stop long crosses stop short upwards", r.signal(1) == r_action(s2));
			prev_short = stop_short;
			prev_long = stop_long;
		}
	}
}

/// Commodity channel index scaled to "around [-1, 1]": (src - mean) / (1.5 * mean absolute deviation) over the
/// last n sources (the classic 1/0.015 constant divided by 100); 0 when the deviation is 0
pub fn c05_commodity_channel_index() {
	let what = rsx::param_str("what");
	let sname = rsx::param_str("src");
	let t = rsx::param("t") as usize;
	let n = rsx::param("n") as usize;
	let zone = 0.5;
	let cfg = CommodityChannelIndex { period: n as PeriodType, zone, source: c05g_source(&sname) };
	let c0 = valid_candle_i(1000);
	let mut ind = cfg.init(&c0).unwrap();
	let mut hist = c05g_pre(c05g_src(&c0, &sname), n);
	let mut prev = 0.0;
	for i in 0..t {
		let c = valid_candle_i(i);
		let r = ind.next(&c);
		hist.push(c05g_src(&c, &sname));
		let v = r.value(0);
		if what == "values" {
			let w = r_last(&hist, n);
			let mu = r_mean(w);
			let mut s = 0.0;
			for a in w {
				s += r_abs(*a - mu);
			}
			let mad = s / (n as ValueType);
			let e = if mad == 0.0 { 0.0 } else { (w[n - 1] - mu) / (1.5 * mad) };
			rsx::check("cci.nvalues", r.values().len() == 1);
			rsx::close("cci.value = (src - mean)/(1.5*mean abs deviation)", v, e, 64.0);
		}
		if what == "signals" {
			// documented: above `zone` => full sell, below `-zone` => full buy; asserted on consecutive returned values
			// (previous value before the first step: 0): sell when v > zone and prev <= zone, buy when v < -zone and prev >= -zone
			let sell = v > zone && prev <= zone;
			let buy = v < -zone && prev >= -zone;
			rsx::check("cci.nsignals", r.signals().len() == 1);
			rsx::check("cci.signal = entering the zone beyond +-zone", r.signal(0) == r_action((buy as i8) - (sell as i8)));
			prev = v;
		}
	}
}
