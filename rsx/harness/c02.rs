use crate::rsx;
use yata::core::{Method, PeriodType, ValueType};
use yata::helpers::Peekable;
use yata::methods::*;

pub fn c02_sma() {
	let n = rsx::param("n") as PeriodType;
	let t = rsx::param("t") as usize;
	let v0 = rsx::val("v0");
	let mut m = SMA::new(n, &v0).unwrap();
	let mut hist: Vec<ValueType> = vec![v0; n as usize];
	for i in 0..t {
		let x = rsx::val_i("x", i);
		hist.push(x);
		let y = m.next(&x);
		let w = &hist[hist.len() - n as usize..];
		let mut s = 0.0;
		for a in w {
			s += *a;
		}
		let r = s / (n as ValueType);
		rsx::close("sma.next", y, r, 1.0);
		rsx::close("sma.peek", m.peek(), r, 1.0);
	}
}
