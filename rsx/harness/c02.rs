//! C02 — sliding-window numeric methods equal their from-scratch definition.
//! Every entry: symbolic construction value v0, t symbolic inputs, history = enough copies of v0
//! followed by the inputs; at every step next() and peek() are compared with the definition.
use crate::reflib::*;
use crate::rsx;
use yata::core::{Candle, Method, PeriodType, ValueType};
use yata::helpers::Peekable;
use yata::methods::*;

fn c02_params() -> (PeriodType, usize, ValueType) {
	let n = rsx::param("n") as PeriodType;
	let t = rsx::param("t") as usize;
	// scale of the rounding allowance for native replay: (n + t + 8), kappa applied per method
	let scale = (n as usize + t + 8) as ValueType;
	(n, t, scale)
}

fn prehistory(v0: ValueType, copies: usize) -> Vec<ValueType> {
	vec![v0; copies]
}

pub fn c02_sma() {
	let (n, t, scale) = c02_params();
	let v0 = rsx::val("v0");
	let mut m = SMA::new(n, &v0).unwrap();
	let mut hist = prehistory(v0, n as usize);
	for i in 0..t {
		let x = rsx::val_i("x", i);
		hist.push(x);
		let y = m.next(&x);
		let r = r_mean(r_last(&hist, n as usize));
		rsx::close("sma.next", y, r, scale);
		rsx::close("sma.peek", m.peek(), r, scale);
	}
}

pub fn c02_wma() {
	let (n, t, scale) = c02_params();
	let v0 = rsx::val("v0");
	let mut m = WMA::new(n, &v0).unwrap();
	let mut hist = prehistory(v0, n as usize);
	for i in 0..t {
		let x = rsx::val_i("x", i);
		hist.push(x);
		let y = m.next(&x);
		let r = r_wma(r_last(&hist, n as usize));
		rsx::close("wma.next", y, r, scale);
		rsx::close("wma.peek", m.peek(), r, scale);
	}
}

pub fn c02_swma() {
	let (n, t, scale) = c02_params();
	let v0 = rsx::val("v0");
	let mut m = SWMA::new(n, &v0).unwrap();
	let mut hist = prehistory(v0, n as usize);
	for i in 0..t {
		let x = rsx::val_i("x", i);
		hist.push(x);
		let y = m.next(&x);
		let r = r_swma(r_last(&hist, n as usize));
		rsx::close("swma.next", y, r, scale);
		if n > 1 {
			rsx::close("swma.peek", m.peek(), r, scale);
		}
	}
}

pub fn c02_trima() {
	let (n, t, scale) = c02_params();
	let v0 = rsx::val("v0");
	let mut m = TRIMA::new(n, &v0).unwrap();
	let mut hist = prehistory(v0, 2 * n as usize);
	for i in 0..t {
		let x = rsx::val_i("x", i);
		hist.push(x);
		let y = m.next(&x);
		let inner = r_sma_series(&hist, n as usize, n as usize);
		let r = r_mean(&inner);
		rsx::close("trima.next", y, r, scale);
		rsx::close("trima.peek", m.peek(), r, scale);
	}
}

pub fn c02_hma() {
	let (n, t, scale) = c02_params();
	let v0 = rsx::val("v0");
	let mut m = HMA::new(n, &v0).unwrap();
	let nn = n as usize;
	// integer square root, rounded down
	let mut s = 1;
	while (s + 1) * (s + 1) <= nn {
		s += 1;
	}
	let mut hist = prehistory(v0, nn + s + 1);
	for i in 0..t {
		let x = rsx::val_i("x", i);
		hist.push(x);
		let y = m.next(&x);
		let a = r_wma_series(&hist, nn / 2, s);
		let b = r_wma_series(&hist, nn, s);
		let mut d = Vec::new();
		for k in 0..s {
			d.push(2.0 * a[k] - b[k]);
		}
		let r = r_wma(&d);
		rsx::close("hma.next", y, r, 4.0 * scale);
		rsx::close("hma.peek", m.peek(), r, 4.0 * scale);
	}
}

pub fn c02_linreg() {
	let (n, t, scale) = c02_params();
	let v0 = rsx::val("v0");
	let mut m = LinReg::new(n, &v0).unwrap();
	let mut hist = prehistory(v0, n as usize);
	for i in 0..t {
		let x = rsx::val_i("x", i);
		hist.push(x);
		let y = m.next(&x);
		let r = r_linreg(r_last(&hist, n as usize));
		rsx::close("linreg.next", y, r, 4.0 * scale);
		rsx::close("linreg.peek", m.peek(), r, 4.0 * scale);
	}
}

pub fn c02_conv() {
	let (n, t, scale) = c02_params();
	let v0 = rsx::val("v0");
	let mut weights: Vec<ValueType> = Vec::new();
	let mut wsum = 0.0;
	for j in 0..(n as usize) {
		let k = rsx::val_i("k", j);
		weights.push(k);
		wsum += k;
	}
	// the documented formula divides by the weight sum
	rsx::assume(wsum > 0.001 || wsum < -0.001);
	let mut m = Conv::new(weights.clone(), &v0).unwrap();
	let mut hist = prehistory(v0, n as usize);
	for i in 0..t {
		let x = rsx::val_i("x", i);
		hist.push(x);
		let y = m.next(&x);
		let w = r_last(&hist, n as usize);
		// weights[j] applies to the j-th oldest element (the last weight to the newest value)
		let mut num = 0.0;
		for j in 0..(n as usize) {
			num += weights[j] * w[j];
		}
		let r = num / wsum;
		rsx::close("conv.next", y, r, scale);
		rsx::close("conv.peek", m.peek(), r, scale);
	}
}

pub fn c02_vwma() {
	let (n, t, scale) = c02_params();
	let p0 = rsx::val("p0");
	let q0 = rsx::val("q0");
	rsx::assume(q0 > 0.001);
	let mut m = VWMA::new(n, &(p0, q0)).unwrap();
	let mut hp = prehistory(p0, n as usize);
	let mut hq = prehistory(q0, n as usize);
	for i in 0..t {
		let p = rsx::val_i("p", i);
		let q = rsx::val_i("q", i);
		rsx::assume(q >= 0.0);
		hp.push(p);
		hq.push(q);
		let wp = r_last(&hp, n as usize);
		let wq = r_last(&hq, n as usize);
		let mut num = 0.0;
		let mut den = 0.0;
		for j in 0..(n as usize) {
			num += wp[j] * wq[j];
			den += wq[j];
		}
		// defined only for non-zero total volume
		rsx::assume(den > 0.001);
		let y = m.next(&(p, q));
		let r = num / den;
		rsx::close("vwma.next", y, r, scale);
		rsx::close("vwma.peek", m.peek(), r, scale);
	}
}

pub fn c02_integral() {
	let (n, t, scale) = c02_params();
	let v0 = rsx::val("v0");
	let mut m = Integral::new(n, &v0).unwrap();
	let mut hist = prehistory(v0, n as usize);
	for i in 0..t {
		let x = rsx::val_i("x", i);
		hist.push(x);
		let y = m.next(&x);
		let r = r_sum(r_last(&hist, n as usize));
		rsx::close("integral.next", y, r, (n as ValueType) * scale);
		rsx::close("integral.peek", m.peek(), r, (n as ValueType) * scale);
	}
}

pub fn c02_derivative() {
	let (n, t, scale) = c02_params();
	let v0 = rsx::val("v0");
	let mut m = Derivative::new(n, &v0).unwrap();
	let mut hist = prehistory(v0, n as usize + 1);
	for i in 0..t {
		let x = rsx::val_i("x", i);
		hist.push(x);
		let y = m.next(&x);
		let r = (x - hist[hist.len() - 1 - n as usize]) / (n as ValueType);
		rsx::close("derivative.next", y, r, 2.0 * scale);
	}
}

pub fn c02_momentum() {
	let (n, t, scale) = c02_params();
	let v0 = rsx::val("v0");
	let mut m = Momentum::new(n, &v0).unwrap();
	let mut hist = prehistory(v0, n as usize + 1);
	for i in 0..t {
		let x = rsx::val_i("x", i);
		hist.push(x);
		let y = m.next(&x);
		let r = x - hist[hist.len() - 1 - n as usize];
		rsx::close("momentum.next", y, r, 2.0 * scale);
	}
}

pub fn c02_roc() {
	let (n, t, scale) = c02_params();
	let v0 = rsx::val("v0");
	rsx::assume(v0 > 0.001);
	let mut m = RateOfChange::new(n, &v0).unwrap();
	let mut hist = prehistory(v0, n as usize + 1);
	for i in 0..t {
		let x = rsx::val_i("x", i);
		rsx::assume(x > 0.001);
		hist.push(x);
		let y = m.next(&x);
		let old = hist[hist.len() - 1 - n as usize];
		let r = (x - old) / old;
		rsx::close("roc.next", y, r, 1024.0 * scale);
	}
}

pub fn c02_past() {
	let (n, t, _scale) = c02_params();
	let v0 = rsx::val("v0");
	let mut m = Past::new(n, &v0).unwrap();
	let mut hist = prehistory(v0, n as usize + 1);
	for i in 0..t {
		let x = rsx::val_i("x", i);
		hist.push(x);
		let y = m.next(&x);
		let r = hist[hist.len() - 1 - n as usize];
		rsx::check("past.next", rsx::bits_eq(y, r));
	}
}

pub fn c02_stdev() {
	let (n, t, scale) = c02_params();
	let v0 = rsx::val("v0");
	let mut m = StDev::new(n, &v0).unwrap();
	let mut hist = prehistory(v0, n as usize);
	for i in 0..t {
		let x = rsx::val_i("x", i);
		hist.push(x);
		let y = m.next(&x);
		let w = r_last(&hist, n as usize);
		let mu = r_mean(w);
		let mut ss = 0.0;
		for a in w {
			ss += (*a - mu) * (*a - mu);
		}
		let var = ss / ((n - 1) as ValueType);
		// sqrt is compared through its argument: y >= 0 and y^2 = |var|. The variance of the
		// definition is a sum of squares, hence |var| = var; writing the absolute value spares the
		// solver the (non-linear) proof of that sign fact and loses nothing.
		rsx::check("stdev.nonneg", y >= 0.0);
		rsx::close("stdev.next^2", y * y, r_abs(var), 4096.0 * scale);
		let p = m.peek();
		rsx::close("stdev.peek^2", p * p, r_abs(var), 4096.0 * scale);
	}
}

pub fn c02_meanabsdev() {
	let (n, t, scale) = c02_params();
	let v0 = rsx::val("v0");
	let mut m = MeanAbsDev::new(n, &v0).unwrap();
	let mut hist = prehistory(v0, n as usize);
	for i in 0..t {
		let x = rsx::val_i("x", i);
		hist.push(x);
		let y = m.next(&x);
		let w = r_last(&hist, n as usize);
		let mu = r_mean(w);
		let mut s = 0.0;
		for a in w {
			s += r_abs(*a - mu);
		}
		let r = s / (n as ValueType);
		rsx::close("meanabsdev.next", y, r, 2.0 * scale);
		rsx::close("meanabsdev.peek", m.peek(), r, 2.0 * scale);
	}
}

pub fn c02_medianabsdev() {
	let (n, t, scale) = c02_params();
	let v0 = rsx::val("v0");
	let mut m = MedianAbsDev::new(n, &v0).unwrap();
	let mut hist = prehistory(v0, n as usize);
	for i in 0..t {
		let x = rsx::val_i("x", i);
		hist.push(x);
		let y = m.next(&x);
		let w = r_last(&hist, n as usize);
		let med = r_median(w);
		let mut s = 0.0;
		for a in w {
			s += r_abs(*a - med);
		}
		let r = s / (n as ValueType);
		rsx::close("medianabsdev.next", y, r, 2.0 * scale);
		rsx::close("medianabsdev.peek", m.peek(), r, 2.0 * scale);
	}
}

pub fn c02_cci() {
	let (n, t, scale) = c02_params();
	let v0 = rsx::val("v0");
	let mut m = CCI::new(n, &v0).unwrap();
	let mut hist = prehistory(v0, n as usize);
	let pattern = rsx::param_str("shape");
	for i in 0..t {
		let x = shaped_input(&pattern, i, &hist);
		hist.push(x);
		let w = r_last(&hist, n as usize);
		let mu = r_mean(w);
		let mut s = 0.0;
		for a in w {
			s += r_abs(*a - mu);
		}
		let mad = s / (n as ValueType);
		// the quotient is exempt where its denominator is within the allowance of zero (DESIGN §4)
		// (relative to the magnitude of the history: the allowance scales with it)
		rsx::assume(mad == 0.0 || mad > 0.001 * r_maxabs(&hist));
		let y = m.next(&x);
		let r = if mad > 0.0 { (x - mu) / mad } else { 0.0 };
		rsx::close("cci.next", y, r, 4096.0 * scale);
	}
}

pub fn c02_linvol() {
	let (n, t, scale) = c02_params();
	let v0 = rsx::val("v0");
	let mut m = LinearVolatility::new(n, &v0).unwrap();
	let mut hist = prehistory(v0, n as usize + 1);
	for i in 0..t {
		let x = rsx::val_i("x", i);
		hist.push(x);
		let y = m.next(&x);
		let w = r_last(&hist, n as usize + 1);
		let mut s = 0.0;
		for j in 1..w.len() {
			s += r_abs(w[j] - w[j - 1]);
		}
		rsx::close("linvol.next", y, s, (n as ValueType) * scale);
		rsx::close("linvol.peek", m.peek(), s, (n as ValueType) * scale);
	}
}

pub fn c02_adi() {
	let (n, t, scale) = c02_params();
	let c0 = valid_candle_i(1000);
	let mut m = ADI::new(n, &c0).unwrap();
	let mut hist: Vec<ValueType> = prehistory(r_clv(&c0) * c0.volume, n as usize);
	for i in 0..t {
		let c = valid_candle_i(i);
		hist.push(r_clv(&c) * c.volume);
		let y = m.next(&c);
		let r = r_sum(r_last(&hist, n as usize));
		rsx::close("adi.next", y, r, 1024.0 * (n as ValueType) * scale);
		rsx::close("adi.peek", m.peek(), r, 1024.0 * (n as ValueType) * scale);
	}
}
