//! Generic indicator harnesses (all 34 indicators through the IndicatorConfig / IndicatorInstance
//! traits): C08 constant candle => constant result; C09 determinism; C10 no panic on valid streams.
use crate::reflib::*;
use crate::rsx;
use yata::core::{Action, Candle, IndicatorConfig, IndicatorInstance, IndicatorResult, ValueType};
use yata::indicators::*;

fn ind_constant<C: IndicatorConfig + Default>() {
	let k = rsx::param("k") as usize;
	let c = valid_candle_i(0);
	let cfg = C::default();
	let mut inst = cfg.init(&c).unwrap();
	let skip = rsx::param("skip") as usize;
	let mut first: Option<IndicatorResult> = None;
	for i in 0..k {
		let r = inst.next(&c);
		if i < skip {
			continue;
		}
		match first {
			None => first = Some(r),
			Some(f) => {
				let (fv, rv) = (f.values(), r.values());
				rsx::check("ind.const.nvalues", fv.len() == rv.len());
				for q in 0..rv.len() {
					rsx::close("ind.const.value", rv[q], fv[q], 4096.0);
				}
				let (fs, rs) = (f.signals(), r.signals());
				rsx::check("ind.const.nsignals", fs.len() == rs.len());
				for q in 0..rs.len() {
					rsx::check("ind.const.signal", rs[q] == fs[q]);
				}
			}
		}
	}
}

pub fn ind_constant_dispatch() {
	let kind = rsx::param_str("kind");
	match kind.as_str() {
		"Aroon" => ind_constant::<Aroon>(),
		"AverageDirectionalIndex" => ind_constant::<AverageDirectionalIndex>(),
		"AwesomeOscillator" => ind_constant::<AwesomeOscillator>(),
		"BollingerBands" => ind_constant::<BollingerBands>(),
		"ChaikinMoneyFlow" => ind_constant::<ChaikinMoneyFlow>(),
		"ChaikinOscillator" => ind_constant::<ChaikinOscillator>(),
		"ChandeKrollStop" => ind_constant::<ChandeKrollStop>(),
		"ChandeMomentumOscillator" => ind_constant::<ChandeMomentumOscillator>(),
		"CommodityChannelIndex" => ind_constant::<CommodityChannelIndex>(),
		"CoppockCurve" => ind_constant::<CoppockCurve>(),
		"DetrendedPriceOscillator" => ind_constant::<DetrendedPriceOscillator>(),
		"DonchianChannel" => ind_constant::<DonchianChannel>(),
		"EaseOfMovement" => ind_constant::<EaseOfMovement>(),
		"EldersForceIndex" => ind_constant::<EldersForceIndex>(),
		"Envelopes" => ind_constant::<Envelopes>(),
		"FisherTransform" => ind_constant::<FisherTransform>(),
		"HullMovingAverage" => ind_constant::<HullMovingAverage>(),
		"IchimokuCloud" => ind_constant::<IchimokuCloud>(),
		"Kaufman" => ind_constant::<Kaufman>(),
		"KeltnerChannel" => ind_constant::<KeltnerChannel>(),
		"KlingerVolumeOscillator" => ind_constant::<KlingerVolumeOscillator>(),
		"KnowSureThing" => ind_constant::<KnowSureThing>(),
		"MACD" => ind_constant::<MACD>(),
		"MomentumIndex" => ind_constant::<MomentumIndex>(),
		"MoneyFlowIndex" => ind_constant::<MoneyFlowIndex>(),
		"ParabolicSAR" => ind_constant::<ParabolicSAR>(),
		"PivotReversalStrategy" => ind_constant::<PivotReversalStrategy>(),
		"PriceChannelStrategy" => ind_constant::<PriceChannelStrategy>(),
		"RelativeStrengthIndex" => ind_constant::<RelativeStrengthIndex>(),
		"RelativeVigorIndex" => ind_constant::<RelativeVigorIndex>(),
		"SMIErgodicIndicator" => ind_constant::<SMIErgodicIndicator>(),
		"StochasticOscillator" => ind_constant::<StochasticOscillator>(),
		"Trix" => ind_constant::<Trix>(),
		"TrendStrengthIndex" => ind_constant::<TrendStrengthIndex>(),
		"TrueStrengthIndex" => ind_constant::<TrueStrengthIndex>(),
		_ => ind_constant::<WoodiesCCI>(),
	}
}
