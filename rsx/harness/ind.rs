//! Generic indicator harnesses (all 34 indicators through the IndicatorConfig / IndicatorInstance
//! traits): C08 constant candle => constant result; C09 determinism; C10 no panic on valid streams.
use crate::reflib::*;
use crate::rsx;
use yata::core::{Action, Candle, IndicatorConfig, IndicatorInstance, IndicatorResult, ValueType};
use yata::indicators::*;

fn ind_constant<C: IndicatorConfig + Default>() {
	let k = rsx::param("k") as usize;
	let c = valid_candle_i(0);
	let cfg = C::default();
	let mut inst = cfg.init(&c).unwrap();
	let skip = rsx::param("skip") as usize;
	let mut first: Option<IndicatorResult> = None;
	for i in 0..k {
		let r = inst.next(&c);
		if i < skip {
			continue;
		}
		match first {
			None => first = Some(r),
			Some(f) => {
				let (fv, rv) = (f.values(), r.values());
				rsx::check("ind.const.nvalues", fv.len() == rv.len());
				for q in 0..rv.len() {
					rsx::close("ind.const.value", rv[q], fv[q], 4096.0);
				}
				let (fs, rs) = (f.signals(), r.signals());
				rsx::check("ind.const.nsignals", fs.len() == rs.len());
				for q in 0..rs.len() {
					rsx::check("ind.const.signal", rs[q] == fs[q]);
				}
			}
		}
	}
}

pub fn ind_constant_dispatch() {
	let kind = rsx::param_str("kind");
	match kind.as_str() {
		"Aroon" => ind_constant::<Aroon>(),
		"AverageDirectionalIndex" => ind_constant::<AverageDirectionalIndex>(),
		"AwesomeOscillator" => ind_constant::<AwesomeOscillator>(),
		"BollingerBands" => ind_constant::<BollingerBands>(),
		"ChaikinMoneyFlow" => ind_constant::<ChaikinMoneyFlow>(),
		"ChaikinOscillator" => ind_constant::<ChaikinOscillator>(),
		"ChandeKrollStop" => ind_constant::<ChandeKrollStop>(),
		"ChandeMomentumOscillator" => ind_constant::<ChandeMomentumOscillator>(),
		"CommodityChannelIndex" => ind_constant::<CommodityChannelIndex>(),
		"CoppockCurve" => ind_constant::<CoppockCurve>(),
		"DetrendedPriceOscillator" => ind_constant::<DetrendedPriceOscillator>(),
		"DonchianChannel" => ind_constant::<DonchianChannel>(),
		"EaseOfMovement" => ind_constant::<EaseOfMovement>(),
		"EldersForceIndex" => ind_constant::<EldersForceIndex>(),
		"Envelopes" => ind_constant::<Envelopes>(),
		"FisherTransform" => ind_constant::<FisherTransform>(),
		"HullMovingAverage" => ind_constant::<HullMovingAverage>(),
		"IchimokuCloud" => ind_constant::<IchimokuCloud>(),
		"Kaufman" => ind_constant::<Kaufman>(),
		"KeltnerChannel" => ind_constant::<KeltnerChannel>(),
		"KlingerVolumeOscillator" => ind_constant::<KlingerVolumeOscillator>(),
		"KnowSureThing" => ind_constant::<KnowSureThing>(),
		"MACD" => ind_constant::<MACD>(),
		"MomentumIndex" => ind_constant::<MomentumIndex>(),
		"MoneyFlowIndex" => ind_constant::<MoneyFlowIndex>(),
		"ParabolicSAR" => ind_constant::<ParabolicSAR>(),
		"PivotReversalStrategy" => ind_constant::<PivotReversalStrategy>(),
		"PriceChannelStrategy" => ind_constant::<PriceChannelStrategy>(),
		"RelativeStrengthIndex" => ind_constant::<RelativeStrengthIndex>(),
		"RelativeVigorIndex" => ind_constant::<RelativeVigorIndex>(),
		"SMIErgodicIndicator" => ind_constant::<SMIErgodicIndicator>(),
		"StochasticOscillator" => ind_constant::<StochasticOscillator>(),
		"Trix" => ind_constant::<Trix>(),
		"TrendStrengthIndex" => ind_constant::<TrendStrengthIndex>(),
		"TrueStrengthIndex" => ind_constant::<TrueStrengthIndex>(),
		_ => ind_constant::<WoodiesCCI>(),
	}
}

/// C10 / C09 (X part): an accepted instance processes a stream of valid symbolic candles without
/// panicking; a second, identically built instance produces syntactically identical results
/// (no hidden state); the result shape matches size()
fn ind_stream<C: IndicatorConfig + Default + Clone>()
where
	C::Instance: Clone,
{
	let t = rsx::param("t") as usize;
	// cvol=1: volumes are the concrete numbers 1, 2, 3, .. (keeps price * volume products linear; used for
	// MoneyFlowIndex, whose fully symbolic version is a deepening job)
	let cvol = rsx::param_or("cvol", 0) != 0;
	let mut c0 = valid_candle_i(1000);
	if cvol {
		c0.volume = 1.0;
	}
	let cfg = C::default();
	let cfg2 = cfg.clone();
	let (nv, ns) = cfg.size();
	let mut a = cfg.init(&c0).unwrap();
	let mut b = cfg2.init(&c0).unwrap();
	for i in 0..t {
		let mut c = valid_candle_i(i);
		if cvol {
			c.volume = (i + 2) as ValueType;
		}
		let ra = a.next(&c);
		let rb = b.next(&c);
		rsx::check("ind.shape.values", ra.values().len() == nv as usize);
		rsx::check("ind.shape.signals", ra.signals().len() == ns as usize);
		// no hidden state: two identically built instances agree (decided by the solver on the two
		// result terms; bit-identical is modelled as equal real values / equal zero signs)
		for q in 0..ra.values().len() {
			rsx::check("ind.determinism.value", rsx::bits_eq(ra.values()[q], rb.values()[q]));
		}
		for q in 0..ra.signals().len() {
			rsx::check("ind.determinism.signal", ra.signals()[q] == rb.signals()[q]);
		}
		if i + 2 == t {
			// a clone taken now continues identically
			let mut cl = a.clone();
			let mut cn = valid_candle_i(i + 1);
			if cvol {
				cn.volume = (i + 3) as ValueType;
			}
			let r1 = cl.next(&cn);
			let r2 = b.clone().next(&cn);
			for q in 0..r1.values().len() {
				rsx::check("ind.clone.value", rsx::bits_eq(r1.values()[q], r2.values()[q]));
			}
			for q in 0..r1.signals().len() {
				rsx::check("ind.clone.signal", r1.signals()[q] == r2.signals()[q]);
			}
		}
	}
}
pub fn ind_stream_dispatch() {
	let kind = rsx::param_str("kind");
	match kind.as_str() {
		"Aroon" => ind_stream::<Aroon>(),
		"AverageDirectionalIndex" => ind_stream::<AverageDirectionalIndex>(),
		"AwesomeOscillator" => ind_stream::<AwesomeOscillator>(),
		"BollingerBands" => ind_stream::<BollingerBands>(),
		"ChaikinMoneyFlow" => ind_stream::<ChaikinMoneyFlow>(),
		"ChaikinOscillator" => ind_stream::<ChaikinOscillator>(),
		"ChandeKrollStop" => ind_stream::<ChandeKrollStop>(),
		"ChandeMomentumOscillator" => ind_stream::<ChandeMomentumOscillator>(),
		"CommodityChannelIndex" => ind_stream::<CommodityChannelIndex>(),
		"CoppockCurve" => ind_stream::<CoppockCurve>(),
		"DetrendedPriceOscillator" => ind_stream::<DetrendedPriceOscillator>(),
		"DonchianChannel" => ind_stream::<DonchianChannel>(),
		"EaseOfMovement" => ind_stream::<EaseOfMovement>(),
		"EldersForceIndex" => ind_stream::<EldersForceIndex>(),
		"Envelopes" => ind_stream::<Envelopes>(),
		"FisherTransform" => ind_stream::<FisherTransform>(),
		"HullMovingAverage" => ind_stream::<HullMovingAverage>(),
		"IchimokuCloud" => ind_stream::<IchimokuCloud>(),
		"Kaufman" => ind_stream::<Kaufman>(),
		"KeltnerChannel" => ind_stream::<KeltnerChannel>(),
		"KlingerVolumeOscillator" => ind_stream::<KlingerVolumeOscillator>(),
		"KnowSureThing" => ind_stream::<KnowSureThing>(),
		"MACD" => ind_stream::<MACD>(),
		"MomentumIndex" => ind_stream::<MomentumIndex>(),
		"MoneyFlowIndex" => ind_stream::<MoneyFlowIndex>(),
		"ParabolicSAR" => ind_stream::<ParabolicSAR>(),
		"PivotReversalStrategy" => ind_stream::<PivotReversalStrategy>(),
		"PriceChannelStrategy" => ind_stream::<PriceChannelStrategy>(),
		"RelativeStrengthIndex" => ind_stream::<RelativeStrengthIndex>(),
		"RelativeVigorIndex" => ind_stream::<RelativeVigorIndex>(),
		"SMIErgodicIndicator" => ind_stream::<SMIErgodicIndicator>(),
		"StochasticOscillator" => ind_stream::<StochasticOscillator>(),
		"Trix" => ind_stream::<Trix>(),
		"TrendStrengthIndex" => ind_stream::<TrendStrengthIndex>(),
		"TrueStrengthIndex" => ind_stream::<TrueStrengthIndex>(),
		_ => ind_stream::<WoodiesCCI>(),
	}
}
