//! Generic indicator harnesses (all 34 indicators through the IndicatorConfig / IndicatorInstance
//! traits): C08 constant candle => constant result; C09 determinism; C10 no panic on valid streams.
use crate::reflib::*;
use crate::rsx;
use yata::core::{Action, Candle, Source, IndicatorConfig, IndicatorInstance, IndicatorResult, ValueType};
use yata::indicators::*;

fn ind_constant<C: IndicatorConfig + Default>() {
	ind_constant_cfg(C::default());
}

fn ind_constant_cfg<C: IndicatorConfig>(cfg: C) {
	let k = rsx::param("k") as usize;
	let c = valid_candle_i(0);
	let mut inst = cfg.init(&c).unwrap();
	let skip = rsx::param("skip") as usize;
	let mut first: Option<IndicatorResult> = None;
	for i in 0..k {
		let r = inst.next(&c);
		if i < skip {
			continue;
		}
		match first {
			None => first = Some(r),
			Some(f) => {
				let (fv, rv) = (f.values(), r.values());
				rsx::check("ind.const.nvalues", fv.len() == rv.len());
				for q in 0..rv.len() {
					rsx::close("ind.const.value", rv[q], fv[q], 4096.0);
				}
				let (fs, rs) = (f.signals(), r.signals());
				rsx::check("ind.const.nsignals", fs.len() == rs.len());
				for q in 0..rs.len() {
					rsx::check("ind.const.signal", rs[q] == fs[q]);
				}
			}
		}
	}
}

pub fn ind_constant_dispatch() {
	let kind = rsx::param_str("kind");
	match kind.as_str() {
		"Aroon" => ind_constant::<Aroon>(),
		"AverageDirectionalIndex" => ind_constant::<AverageDirectionalIndex>(),
		"AwesomeOscillator" => ind_constant::<AwesomeOscillator>(),
		"BollingerBands" => ind_constant::<BollingerBands>(),
		"ChaikinMoneyFlow" => ind_constant::<ChaikinMoneyFlow>(),
		"ChaikinOscillator" => ind_constant::<ChaikinOscillator>(),
		"ChandeKrollStop" => ind_constant::<ChandeKrollStop>(),
		"ChandeMomentumOscillator" => ind_constant::<ChandeMomentumOscillator>(),
		"CommodityChannelIndex" => ind_constant::<CommodityChannelIndex>(),
		"CoppockCurve" => ind_constant::<CoppockCurve>(),
		"DetrendedPriceOscillator" => ind_constant::<DetrendedPriceOscillator>(),
		"DonchianChannel" => ind_constant::<DonchianChannel>(),
		"EaseOfMovement" => ind_constant::<EaseOfMovement>(),
		"EldersForceIndex" => ind_constant::<EldersForceIndex>(),
		"Envelopes" => ind_constant::<Envelopes>(),
		"FisherTransform" => ind_constant::<FisherTransform>(),
		"HullMovingAverage" => ind_constant::<HullMovingAverage>(),
		"IchimokuCloud" => ind_constant::<IchimokuCloud>(),
		"Kaufman" => ind_constant::<Kaufman>(),
		"KeltnerChannel" => ind_constant::<KeltnerChannel>(),
		"KlingerVolumeOscillator" => ind_constant::<KlingerVolumeOscillator>(),
		"KnowSureThing" => ind_constant::<KnowSureThing>(),
		"MACD" => ind_constant::<MACD>(),
		"MomentumIndex" => ind_constant::<MomentumIndex>(),
		"MoneyFlowIndex" => ind_constant::<MoneyFlowIndex>(),
		"ParabolicSAR" => ind_constant::<ParabolicSAR>(),
		"PivotReversalStrategy" => ind_constant::<PivotReversalStrategy>(),
		"PriceChannelStrategy" => ind_constant::<PriceChannelStrategy>(),
		"RelativeStrengthIndex" => ind_constant::<RelativeStrengthIndex>(),
		"RelativeVigorIndex" => ind_constant::<RelativeVigorIndex>(),
		"SMIErgodicIndicator" => ind_constant::<SMIErgodicIndicator>(),
		"StochasticOscillator" => ind_constant::<StochasticOscillator>(),
		"Trix" => ind_constant::<Trix>(),
		"TrendStrengthIndex" => ind_constant::<TrendStrengthIndex>(),
		"TrueStrengthIndex" => ind_constant::<TrueStrengthIndex>(),
		_ => ind_constant::<WoodiesCCI>(),
	}
}

/// C08 on a non-default source: every indicator with a public `source` field, set to `Source::Open` (the
/// default is `Close` almost everywhere, where "seeded with the source" and "seeded with the close" coincide)
pub fn ind_constant_open_dispatch() {
	let kind = rsx::param_str("kind");
	match kind.as_str() {
		"AwesomeOscillator" => {
			let mut cfg = AwesomeOscillator::default();
			cfg.source = Source::Open;
			ind_constant_cfg(cfg)
		}
		"BollingerBands" => {
			let mut cfg = BollingerBands::default();
			cfg.source = Source::Open;
			ind_constant_cfg(cfg)
		}
		"ChandeKrollStop" => {
			let mut cfg = ChandeKrollStop::default();
			cfg.source = Source::Open;
			ind_constant_cfg(cfg)
		}
		"ChandeMomentumOscillator" => {
			let mut cfg = ChandeMomentumOscillator::default();
			cfg.source = Source::Open;
			ind_constant_cfg(cfg)
		}
		"CommodityChannelIndex" => {
			let mut cfg = CommodityChannelIndex::default();
			cfg.source = Source::Open;
			ind_constant_cfg(cfg)
		}
		"CoppockCurve" => {
			let mut cfg = CoppockCurve::default();
			cfg.source = Source::Open;
			ind_constant_cfg(cfg)
		}
		"DetrendedPriceOscillator" => {
			let mut cfg = DetrendedPriceOscillator::default();
			cfg.source = Source::Open;
			ind_constant_cfg(cfg)
		}
		"EldersForceIndex" => {
			let mut cfg = EldersForceIndex::default();
			cfg.source = Source::Open;
			ind_constant_cfg(cfg)
		}
		"Envelopes" => {
			let mut cfg = Envelopes::default();
			cfg.source = Source::Open;
			ind_constant_cfg(cfg)
		}
		"FisherTransform" => {
			let mut cfg = FisherTransform::default();
			cfg.source = Source::Open;
			ind_constant_cfg(cfg)
		}
		"HullMovingAverage" => {
			let mut cfg = HullMovingAverage::default();
			cfg.source = Source::Open;
			ind_constant_cfg(cfg)
		}
		"IchimokuCloud" => {
			let mut cfg = IchimokuCloud::default();
			cfg.source = Source::Open;
			ind_constant_cfg(cfg)
		}
		"Kaufman" => {
			let mut cfg = Kaufman::default();
			cfg.source = Source::Open;
			ind_constant_cfg(cfg)
		}
		"KeltnerChannel" => {
			let mut cfg = KeltnerChannel::default();
			cfg.source = Source::Open;
			ind_constant_cfg(cfg)
		}
		"MACD" => {
			let mut cfg = MACD::default();
			cfg.source = Source::Open;
			ind_constant_cfg(cfg)
		}
		"MomentumIndex" => {
			let mut cfg = MomentumIndex::default();
			cfg.source = Source::Open;
			ind_constant_cfg(cfg)
		}
		"RelativeStrengthIndex" => {
			let mut cfg = RelativeStrengthIndex::default();
			cfg.source = Source::Open;
			ind_constant_cfg(cfg)
		}
		"SMIErgodicIndicator" => {
			let mut cfg = SMIErgodicIndicator::default();
			cfg.source = Source::Open;
			ind_constant_cfg(cfg)
		}
		"TrendStrengthIndex" => {
			let mut cfg = TrendStrengthIndex::default();
			cfg.source = Source::Open;
			ind_constant_cfg(cfg)
		}
		"Trix" => {
			let mut cfg = Trix::default();
			cfg.source = Source::Open;
			ind_constant_cfg(cfg)
		}
		"TrueStrengthIndex" => {
			let mut cfg = TrueStrengthIndex::default();
			cfg.source = Source::Open;
			ind_constant_cfg(cfg)
		}
		"WoodiesCCI" => {
			let mut cfg = WoodiesCCI::default();
			cfg.source = Source::Open;
			ind_constant_cfg(cfg)
		}
		_ => rsx::check("ind.const.unknown_kind", false),
	}
}

/// C10 / C09 (X part): an accepted instance processes a stream of valid symbolic candles without
/// panicking; a second, identically built instance produces syntactically identical results
/// (no hidden state); the result shape matches size()
fn ind_stream<C: IndicatorConfig + Default + Clone>()
where
	C::Instance: Clone,
{
	let t = rsx::param("t") as usize;
	// cvol=1: volumes are the concrete numbers 1, 2, 3, .. (keeps price * volume products linear; used for
	// MoneyFlowIndex, whose fully symbolic version is a deepening job)
	let cvol = rsx::param_or("cvol", 0) != 0;
	let mut c0 = valid_candle_i(1000);
	if cvol {
		c0.volume = 1.0;
	}
	let cfg = C::default();
	let cfg2 = cfg.clone();
	let (nv, ns) = cfg.size();
	let mut a = cfg.init(&c0).unwrap();
	let mut b = cfg2.init(&c0).unwrap();
	for i in 0..t {
		let mut c = valid_candle_i(i);
		if cvol {
			c.volume = (i + 2) as ValueType;
		}
		let ra = a.next(&c);
		let rb = b.next(&c);
		rsx::check("ind.shape.values", ra.values().len() == nv as usize);
		rsx::check("ind.shape.signals", ra.signals().len() == ns as usize);
		// no hidden state: two identically built instances agree (decided by the solver on the two
		// result terms; bit-identical is modelled as equal real values / equal zero signs)
		for q in 0..ra.values().len() {
			rsx::check("ind.determinism.value", rsx::bits_eq(ra.values()[q], rb.values()[q]));
		}
		for q in 0..ra.signals().len() {
			rsx::check("ind.determinism.signal", ra.signals()[q] == rb.signals()[q]);
		}
		if i + 2 == t {
			// a clone taken now continues identically
			let mut cl = a.clone();
			let mut cn = valid_candle_i(i + 1);
			if cvol {
				cn.volume = (i + 3) as ValueType;
			}
			let r1 = cl.next(&cn);
			let r2 = b.clone().next(&cn);
			for q in 0..r1.values().len() {
				rsx::check("ind.clone.value", rsx::bits_eq(r1.values()[q], r2.values()[q]));
			}
			for q in 0..r1.signals().len() {
				rsx::check("ind.clone.signal", r1.signals()[q] == r2.signals()[q]);
			}
		}
	}
}
pub fn ind_stream_dispatch() {
	let kind = rsx::param_str("kind");
	match kind.as_str() {
		"Aroon" => ind_stream::<Aroon>(),
		"AverageDirectionalIndex" => ind_stream::<AverageDirectionalIndex>(),
		"AwesomeOscillator" => ind_stream::<AwesomeOscillator>(),
		"BollingerBands" => ind_stream::<BollingerBands>(),
		"ChaikinMoneyFlow" => ind_stream::<ChaikinMoneyFlow>(),
		"ChaikinOscillator" => ind_stream::<ChaikinOscillator>(),
		"ChandeKrollStop" => ind_stream::<ChandeKrollStop>(),
		"ChandeMomentumOscillator" => ind_stream::<ChandeMomentumOscillator>(),
		"CommodityChannelIndex" => ind_stream::<CommodityChannelIndex>(),
		"CoppockCurve" => ind_stream::<CoppockCurve>(),
		"DetrendedPriceOscillator" => ind_stream::<DetrendedPriceOscillator>(),
		"DonchianChannel" => ind_stream::<DonchianChannel>(),
		"EaseOfMovement" => ind_stream::<EaseOfMovement>(),
		"EldersForceIndex" => ind_stream::<EldersForceIndex>(),
		"Envelopes" => ind_stream::<Envelopes>(),
		"FisherTransform" => ind_stream::<FisherTransform>(),
		"HullMovingAverage" => ind_stream::<HullMovingAverage>(),
		"IchimokuCloud" => ind_stream::<IchimokuCloud>(),
		"Kaufman" => ind_stream::<Kaufman>(),
		"KeltnerChannel" => ind_stream::<KeltnerChannel>(),
		"KlingerVolumeOscillator" => ind_stream::<KlingerVolumeOscillator>(),
		"KnowSureThing" => ind_stream::<KnowSureThing>(),
		"MACD" => ind_stream::<MACD>(),
		"MomentumIndex" => ind_stream::<MomentumIndex>(),
		"MoneyFlowIndex" => ind_stream::<MoneyFlowIndex>(),
		"ParabolicSAR" => ind_stream::<ParabolicSAR>(),
		"PivotReversalStrategy" => ind_stream::<PivotReversalStrategy>(),
		"PriceChannelStrategy" => ind_stream::<PriceChannelStrategy>(),
		"RelativeStrengthIndex" => ind_stream::<RelativeStrengthIndex>(),
		"RelativeVigorIndex" => ind_stream::<RelativeVigorIndex>(),
		"SMIErgodicIndicator" => ind_stream::<SMIErgodicIndicator>(),
		"StochasticOscillator" => ind_stream::<StochasticOscillator>(),
		"Trix" => ind_stream::<Trix>(),
		"TrendStrengthIndex" => ind_stream::<TrendStrengthIndex>(),
		"TrueStrengthIndex" => ind_stream::<TrueStrengthIndex>(),
		_ => ind_stream::<WoodiesCCI>(),
	}
}
