//! Indicator harnesses (C05 values / C06 signals / C12 ranges), agent I:
//! Kaufman, KeltnerChannel, KlingerVolumeOscillator, KnowSureThing, MomentumIndex, MoneyFlowIndex,
//! ParabolicSAR, PivotReversalStrategy.
use crate::reflib::*;
use crate::rsx;
use yata::core::{Action, Candle, IndicatorConfig, IndicatorInstance, Method, MovingAverageConstructor, PeriodType, Source, ValueType, OHLCV};
use yata::indicators::*;

/// true range from the definition: the largest of high-low, |high - previous close|, |previous close - low|
fn c05i_true_range(c: &Candle, prev_close: ValueType) -> ValueType {
	r_max(r_max(c.high - c.low, r_abs(c.high - prev_close)), r_abs(prev_close - c.low))
}
fn c05i_tp(c: &Candle) -> ValueType {
	(c.high + c.low + c.close) / 3.0
}
fn c05i_source(name: &str) -> Source {
	match name {
		"open" => Source::Open,
		"high" => Source::High,
		"low" => Source::Low,
		"hl2" => Source::HL2,
		"tp" => Source::TP,
		_ => Source::Close,
	}
}
/// the documented meaning of the source kinds
fn c05i_src_value(c: &Candle, name: &str) -> ValueType {
	match name {
		"open" => c.open,
		"high" => c.high,
		"low" => c.low,
		"hl2" => (c.high + c.low) / 2.0,
		"tp" => (c.high + c.low + c.close) / 3.0,
		_ => c.close,
	}
}
/// upward crossing of a difference: was negative, is non-negative now
fn c05i_up(prev_delta: ValueType, cur_delta: ValueType) -> i8 {
	(prev_delta < 0.0 && cur_delta >= 0.0) as i8
}
/// downward crossing of a difference: was positive, is non-positive now
fn c05i_down(prev_delta: ValueType, cur_delta: ValueType) -> i8 {
	(prev_delta > 0.0 && cur_delta <= 0.0) as i8
}

// ---------------------------------------------------------------------------------------------
// KeltnerChannel: middle = MA(source), bounds = middle +- sigma * SMA(true range)
pub fn c05_keltner_channel() {
	let what = rsx::param_str("what");
	let kind = rsx::param_str("ma");
	let t = rsx::param("t") as usize;
	let n: PeriodType = rsx::param("n") as PeriodType;
	let sigma = 0.5;
	let sname = rsx::param_str("src");
	let order = rsx::param_str("order");
	// shape=free: all candles symbolic; shape=flat: after a symbolic first candle closing at p every candle is exactly
	// flat at p (open = high = low = close = p): the true ranges die out and the band collapses onto the source
	let shape = rsx::param_str("shape");
	let cfg = KeltnerChannel { ma: ma_by_name(&kind, n), sigma, source: c05i_source(&sname) };
	let c0 = valid_candle_i(1000);
	let mut ind = cfg.init(&c0).unwrap();
	// reference
	let mut mid = ma_by_name(&kind, n).init(c05i_src_value(&c0, &sname)).unwrap();
	let mut trs: Vec<ValueType> = vec![c0.high - c0.low; n as usize];
	let mut prev_close = c0.close;
	let mut prev_du = 0.0;
	let mut prev_dl = 0.0;
	for i in 0..t {
		let mut c = valid_candle_i(i);
		if shape == "flat" {
			c = Candle { open: c0.close, high: c0.close, low: c0.close, close: c0.close, volume: c.volume };
		}
		let r = ind.next(&c);
		let src = c05i_src_value(&c, &sname);
		let m = mid.next(&src);
		trs.push(c05i_true_range(&c, prev_close));
		prev_close = c.close;
		let atr = r_mean(r_last(&trs, n as usize));
		let upper = m + sigma * atr;
		let lower = m - sigma * atr;
		// positions of the roles in the returned values: order=code (source, upper, lower) as returned by the
		// code; order=doc (upper, source, lower) as listed in the documentation
		let (is, iu, il) = if order == "doc" { (1, 0, 2) } else { (0, 1, 2) };
		if what == "values" {
			rsx::check("keltner.nvalues", r.values().len() == 3);
			if order == "doc" {
				rsx::close("keltner.doc_order.value1_is_source", r.value(is), src, 64.0);
				rsx::close("keltner.doc_order.value0_is_upper", r.value(iu), upper, 256.0);
				rsx::close("keltner.doc_order.value2_is_lower", r.value(il), lower, 256.0);
			} else {
				rsx::close("keltner.source", r.value(is), src, 64.0);
				rsx::close("keltner.upper", r.value(iu), upper, 256.0);
				rsx::close("keltner.lower", r.value(il), lower, 256.0);
			}
		}
		if what == "signals" {
			// rule on the returned values: source going above the upper bound => buy, under the lower bound => sell
			let (s, u, l) = (r.value(is), r.value(iu), r.value(il));
			let du = s - u;
			let dl = s - l;
			let above = c05i_up(prev_du, du);
			let under = c05i_down(prev_dl, dl);
			let sg = r.signal(0);
			rsx::check("keltner.nsignals", r.signals().len() == 1);
			// fires exactly when one of the two events happens (independent of the polarity)
			rsx::check("keltner.signal.fires", (sg.analog() != 0) == (above != under));
			// documented polarity: above the upper bound => buy (+1), under the lower bound => sell (-1).
			// Asserted where no deciding difference is within 0.001 of its threshold (C06 exempts those steps;
			// it also keeps the counterexamples reproducible after rounding the model to f64)
			let eps = 0.001;
			let robust = r_abs(prev_du) > eps && r_abs(du) > eps && r_abs(prev_dl) > eps && r_abs(dl) > eps;
			rsx::check("keltner.signal.sign", !robust || sg.analog() == above - under);
			// a fired signal is a full one
			rsx::check("keltner.signal.full", above == under || sg == Action::BUY_ALL || sg == Action::SELL_ALL);
			// no event => no signal at all
			rsx::check("keltner.signal.none_without_event", above != 0 || under != 0 || sg == Action::None);
			if shape == "flat" {
				// both events at once (the band collapses onto the source): still "no signal"
				rsx::check("keltner.signal.none_when_both", above != 1 || under != 1 || sg == Action::None);
			}
			prev_du = du;
			prev_dl = dl;
		}
		if what == "ranges" {
			rsx::check("keltner.upper>=lower", r.value(iu) >= r.value(il));
			// the middle line (the moving average) is not returned; it is taken from the reference
			rsx::check("keltner.upper>=middle", r.value(iu) >= m);
			rsx::check("keltner.middle>=lower", m >= r.value(il));
		}
	}
}

// ---------------------------------------------------------------------------------------------
// MoneyFlowIndex: typical price tp = (h+l+c)/3, raw money flow = tp * volume, positive / negative
// flow = sum over the last `period` bars of the raw flow of the bars whose tp rose / fell,
// MFI = 1 - 1/(1 + pos/neg) = pos / (pos + neg)   (scaled to [0,1])
pub fn c05_money_flow_index() {
	let what = rsx::param_str("what");
	let t = rsx::param("t") as usize;
	let n = rsx::param("n") as usize;
	let flow = rsx::param_str("flow");
	let zone = 0.25;
	let cfg = MoneyFlowIndex { period: n as PeriodType, zone };
	let c0 = valid_candle_i(1000);
	let mut ind = cfg.init(&c0).unwrap();
	let mut tps: Vec<ValueType> = vec![c05i_tp(&c0); n + 1];
	let mut pos: Vec<ValueType> = vec![0.0; n];
	let mut neg: Vec<ValueType> = vec![0.0; n];
	let mut posv: Vec<ValueType> = vec![0.0; n];
	let mut negv: Vec<ValueType> = vec![0.0; n];
	let mut prev_du = 0.0;
	let mut prev_dl = 0.0;
	for i in 0..t {
		let mut c = valid_candle_i(i);
		if rsx::param_str("vol") == "const" {
			// concrete volumes 1, 2, 3, ..: keeps tp * volume linear for the solver
			c.volume = (i + 1) as ValueType;
		}
		let r = ind.next(&c);
		let tp = c05i_tp(&c);
		let last_tp = tps[tps.len() - 1];
		tps.push(tp);
		// "published": raw money flow = typical price * volume; "volume": the flow is the bare volume
		let raw = if flow == "published" { tp * c.volume } else { c.volume };
		pos.push(if tp > last_tp { raw } else { 0.0 });
		neg.push(if tp < last_tp { raw } else { 0.0 });
		posv.push(if tp > last_tp { c.volume } else { 0.0 });
		negv.push(if tp < last_tp { c.volume } else { 0.0 });
		let p = r_sum(r_last(&pos, n));
		let q = r_sum(r_last(&neg, n));
		// total volume of the rising / falling bars of the window: p > 0 <=> pv > 0 and q > 0 <=> qv > 0 because
		// typical prices are positive; used for the case distinction only (keeps those conditions linear)
		let pv = r_sum(r_last(&posv, n));
		let qv = r_sum(r_last(&negv, n));
		if what == "values" {
			rsx::check("mfi.nvalues", r.values().len() == 3);
			rsx::close("mfi.upper_bound", r.value(0), 1.0 - zone, 4.0);
			rsx::close("mfi.lower_bound", r.value(2), zone, 4.0);
			// the quotient is exempt where a denominator is within the allowance of zero
			rsx::assume(qv == 0.0 || q > 0.001);
			rsx::assume(pv == 0.0 || p > 0.001);
			let v = r.value(1);
			// written as published: 1 - 1/(1 + money ratio)   (= p/(p+q)); the three cases are selected
			// without branching on the harness side (both sides of the comparison collapse to a constant elsewhere)
			let formula = if qv > 0.0 { 1.0 - 1.0 / (1.0 + p / q) } else { 0.0 };
			rsx::close("mfi.value", if qv > 0.0 { v } else { 0.0 }, formula, 4096.0);
			// no negative flow at all but some positive flow: ratio = +inf, MFI = 1 (100 %)
			rsx::close("mfi.value.no_negative_flow", if qv == 0.0 && pv > 0.0 { v } else { 1.0 }, 1.0, 4096.0);
			// no flow at all: 0/0, undefined by the formula; the code returns the neutral 0.5
			rsx::close("mfi.value.no_flow", if qv == 0.0 && pv == 0.0 { v } else { 0.5 }, 0.5, 4.0);
		}
		if what == "signals" {
			let v = r.value(1);
			let du = v - r.value(0);
			let dl = v - r.value(2);
			// slot 0: enters a zone (lower bound downwards => buy, upper bound upwards => sell)
			let enters = c05i_down(prev_dl, dl) - c05i_up(prev_du, du);
			// slot 1: leaves a zone (lower bound upwards => buy, upper bound downwards => sell)
			let leaves = c05i_up(prev_dl, dl) - c05i_down(prev_du, du);
			rsx::check("mfi.nsignals", r.signals().len() == 2);
			rsx::check("mfi.signal.enters_zone", r.signal(0) == r_action(enters));
			rsx::check("mfi.signal.leaves_zone", r.signal(1) == r_action(leaves));
			prev_du = du;
			prev_dl = dl;
		}
		if what == "ranges" {
			rsx::check("mfi.value>=0", r.value(1) >= 0.0);
			rsx::check("mfi.value<=1", r.value(1) <= 1.0);
			rsx::check("mfi.upper_in_[0.5,1]", r.value(0) >= 0.5 && r.value(0) <= 1.0);
			rsx::check("mfi.lower_in_[0,0.5]", r.value(2) >= 0.0 && r.value(2) <= 0.5);
		}
	}
}

// ---------------------------------------------------------------------------------------------
// ParabolicSAR (Wilder): state = trend, extreme point EP, acceleration factor AF, SAR.
//   new extreme in the direction of the trend: EP := it, AF := min(AF + step, max)
//   price penetrates the SAR: trend flips, SAR := previous EP, EP := the bar's opposite extreme, AF := step
//   SAR(next) = SAR + AF * (EP - SAR), never inside the range of the last two bars
pub fn c05_parabolic_sar() {
	let what = rsx::param_str("what");
	let t = rsx::param("t") as usize;
	let (af_step, af_max) = (0.125, 0.3);
	let cfg = ParabolicSAR { af_step, af_max };
	let c0 = valid_candle_i(1000);
	let mut ind = cfg.init(&c0).unwrap();
	// reference state: the first bar starts an up trend with SAR at its low and EP at its high
	let mut up = true;
	let mut ep = c0.high;
	let mut sar = c0.low;
	let mut k: usize = 1; // number of AF steps
	let mut prev = c0;
	let mut prev_trend_value = 0.0;
	let mut prev_trend_ref: ValueType = 0.0;
	for i in 0..t {
		let c = valid_candle_i(i);
		let r = ind.next(&c);
		if up {
			if c.high > ep {
				ep = c.high;
				k += 1;
			}
			if c.low < sar {
				up = false;
				sar = ep;
				ep = c.low;
				k = 1;
			}
		} else {
			if c.low < ep {
				ep = c.low;
				k += 1;
			}
			if c.high > sar {
				up = true;
				sar = ep;
				ep = c.high;
				k = 1;
			}
		}
		let trend: ValueType = if up { 1.0 } else { -1.0 };
		if what == "values" {
			rsx::check("psar.nvalues", r.values().len() == 2);
			rsx::close("psar.sar", r.value(0), sar, 256.0);
			rsx::check("psar.trend", r.value(1) == trend);
		}
		if what == "signals" {
			// rule on the returned trend values: a change of the trend value (0 before the first step)
			let tv = r.value(1);
			let sig: i8 = if tv != prev_trend_value { (tv > 0.0) as i8 - (tv < 0.0) as i8 } else { 0 };
			rsx::check("psar.nsignals", r.signals().len() == 1);
			rsx::check("psar.signal.trend_flip", r.signal(0) == r_action(sig));
			// ... and on the trend of the definition (Wilder's state machine above): the flip is signalled on
			// the bar that penetrates the SAR, not later
			let sig_ref: i8 = if trend != prev_trend_ref { (trend > 0.0) as i8 - (trend < 0.0) as i8 } else { 0 };
			rsx::check("psar.signal.flip_on_penetration", r.signal(0) == r_action(sig_ref));
			prev_trend_ref = trend;
			prev_trend_value = tv;
		}
		if what == "ranges" {
			let tv = r.value(1);
			rsx::check("psar.trend_in_{-1,1}", tv == 1.0 || tv == -1.0);
			// the SAR is on the side of the bar opposite to the trend
			rsx::check("psar.uptrend_sar<=low", !(tv > 0.0) || r.value(0) <= c.low);
			rsx::check("psar.downtrend_sar>=high", !(tv < 0.0) || r.value(0) >= c.high);
		}
		// next SAR
		// (f64::min / max: no branching in the executor; this entry runs with state merging disabled)
		let afk = af_max.min(af_step * (k as ValueType));
		sar = sar + afk * (ep - sar);
		if up {
			sar = sar.min(c.low).min(prev.low);
		} else {
			sar = sar.max(c.high).max(prev.high);
		}
		prev = c;
	}
}

// ---------------------------------------------------------------------------------------------
// KlingerVolumeOscillator. The crate documents no formula; it implements the simplified oscillator
// (as in common charting packages): signed volume sv = sign(tp - previous tp) * volume,
// KO = MA1(sv) - MA2(sv), signal line = MA3(KO), all averages started from 0.
// (The original Klinger volume force V*|2*dm/cm - 1|*T*100 is NOT what is computed.)
pub fn c05_klinger_volume_oscillator() {
	let what = rsx::param_str("what");
	let kind = rsx::param_str("ma");
	let t = rsx::param("t") as usize;
	let (p1, p2, p3) = (2, 4, 3);
	let cfg = KlingerVolumeOscillator { ma1: ma_by_name(&kind, p1), ma2: ma_by_name(&kind, p2), signal: ma_by_name(&kind, p3) };
	let c0 = valid_candle_i(1000);
	let mut ind = cfg.init(&c0).unwrap();
	let mut fast = ma_by_name(&kind, p1).init(0.0).unwrap();
	let mut slow = ma_by_name(&kind, p2).init(0.0).unwrap();
	let mut sig = ma_by_name(&kind, p3).init(0.0).unwrap();
	let mut last_tp = c05i_tp(&c0);
	let mut prev_d0 = 0.0;
	let mut prev_ds = 0.0;
	for i in 0..t {
		let c = valid_candle_i(i);
		let r = ind.next(&c);
		let tp = c05i_tp(&c);
		let sv = if tp > last_tp {
			c.volume
		} else if tp < last_tp {
			-c.volume
		} else {
			0.0
		};
		last_tp = tp;
		let ko = fast.next(&sv) - slow.next(&sv);
		let sl = sig.next(&ko);
		if what == "values" {
			rsx::check("klinger.nvalues", r.values().len() == 2);
			rsx::close("klinger.main", r.value(0), ko, 256.0);
			rsx::close("klinger.signal_line", r.value(1), sl, 256.0);
		}
		if what == "signals" {
			let d0 = r.value(0);
			let ds = r.value(0) - r.value(1);
			rsx::check("klinger.nsignals", r.signals().len() == 2);
			rsx::check("klinger.signal.cross_zero", r.signal(0) == r_action(r_cross(prev_d0, d0)));
			rsx::check("klinger.signal.cross_signal_line", r.signal(1) == r_action(r_cross(prev_ds, ds)));
			prev_d0 = d0;
			prev_ds = ds;
		}
	}
}

// ---------------------------------------------------------------------------------------------
// KnowSureThing: ROC_k = (close - close[period_k ago]) / close[period_k ago],
// KST = 1*MA1(ROC_1) + 2*MA2(ROC_2) + 3*MA3(ROC_3) + 4*MA4(ROC_4), signal line = MA5(KST); averages start from 0
pub fn c05_know_sure_thing() {
	let what = rsx::param_str("what");
	let kind = rsx::param_str("ma");
	let t = rsx::param("t") as usize;
	let per: [usize; 4] = [1, 2, 3, 4];
	let (m1, m2, m3, m4, m5) = (2, 3, 2, 3, 4);
	let cfg = KnowSureThing {
		period1: per[0] as PeriodType,
		period2: per[1] as PeriodType,
		period3: per[2] as PeriodType,
		period4: per[3] as PeriodType,
		ma1: ma_by_name(&kind, m1),
		ma2: ma_by_name(&kind, m2),
		ma3: ma_by_name(&kind, m3),
		ma4: ma_by_name(&kind, m4),
		signal: ma_by_name(&kind, m5),
	};
	let c0 = valid_candle_i(1000);
	let mut ind = cfg.init(&c0).unwrap();
	let mut a1 = ma_by_name(&kind, m1).init(0.0).unwrap();
	let mut a2 = ma_by_name(&kind, m2).init(0.0).unwrap();
	let mut a3 = ma_by_name(&kind, m3).init(0.0).unwrap();
	let mut a4 = ma_by_name(&kind, m4).init(0.0).unwrap();
	let mut a5 = ma_by_name(&kind, m5).init(0.0).unwrap();
	let mut hist: Vec<ValueType> = vec![c0.close; per[3] + 1];
	let mut prev_d = 0.0;
	for i in 0..t {
		let c = valid_candle_i(i);
		let r = ind.next(&c);
		hist.push(c.close);
		let last = hist.len() - 1;
		let o1 = hist[last - per[0]];
		let o2 = hist[last - per[1]];
		let o3 = hist[last - per[2]];
		let o4 = hist[last - per[3]];
		let r1 = a1.next(&((c.close - o1) / o1));
		let r2 = a2.next(&((c.close - o2) / o2));
		let r3 = a3.next(&((c.close - o3) / o3));
		let r4 = a4.next(&((c.close - o4) / o4));
		let kst = r1 + 2.0 * r2 + 3.0 * r3 + 4.0 * r4;
		let sl = a5.next(&kst);
		if what == "values" {
			rsx::check("kst.nvalues", r.values().len() == 2);
			rsx::close("kst.value", r.value(0), kst, 4096.0);
			rsx::close("kst.signal_line", r.value(1), sl, 4096.0);
		}
		if what == "signals" {
			let d = r.value(0) - r.value(1);
			rsx::check("kst.nsignals", r.signals().len() == 1);
			rsx::check("kst.signal.cross_signal_line", r.signal(0) == r_action(r_cross(prev_d, d)));
			prev_d = d;
		}
	}
}

// ---------------------------------------------------------------------------------------------
// MomentumIndex: values (slow momentum, fast momentum) = (x - x[period1 ago], x - x[period2 ago]);
// signal: both positive => buy, both negative => sell
pub fn c05_momentum_index() {
	let what = rsx::param_str("what");
	let t = rsx::param("t") as usize;
	let sname = rsx::param_str("src");
	let (p1, p2): (usize, usize) = (3, 1);
	let cfg = MomentumIndex { period1: p1 as PeriodType, period2: p2 as PeriodType, source: c05i_source(&sname) };
	let c0 = valid_candle_i(1000);
	let mut ind = cfg.init(&c0).unwrap();
	let mut hist: Vec<ValueType> = vec![c05i_src_value(&c0, &sname); p1 + 1];
	for i in 0..t {
		let c = valid_candle_i(i);
		let r = ind.next(&c);
		let x = c05i_src_value(&c, &sname);
		hist.push(x);
		let last = hist.len() - 1;
		if what == "values" {
			rsx::check("momentum_index.nvalues", r.values().len() == 2);
			rsx::close("momentum_index.slow", r.value(0), x - hist[last - p1], 64.0);
			rsx::close("momentum_index.fast", r.value(1), x - hist[last - p2], 64.0);
		}
		if what == "signals" {
			let (v, s) = (r.value(0), r.value(1));
			let sig = (v > 0.0 && s > 0.0) as i8 - (v < 0.0 && s < 0.0) as i8;
			rsx::check("momentum_index.nsignals", r.signals().len() == 1);
			rsx::check("momentum_index.signal.both_same_sign", r.signal(0) == r_action(sig));
		}
	}
}

// ---------------------------------------------------------------------------------------------
// Kaufman adaptive moving average:
//   ER = |x - x[period1 ago]| / sum of the last period1 absolute one-step changes   (0 when the sum is 0)
//   SC = ER * (fastest - slowest) + slowest, fastest = 2/(period2+1), slowest = 2/(period3+1); squared if square_smooth
//   KAMA = previous KAMA + SC * (x - previous KAMA), started at the first source value
// signal (filter_period < 2): crossing of the source and KAMA (source upwards => buy);
// signal (filter_period >= 2): a crossing is remembered (direction and the KAMA value at that moment) and emits
//   nothing itself; on a later step without a new crossing, once |KAMA - remembered KAMA| > k * StDev(KAMA, filter_period),
//   the remembered direction is emitted once and forgotten. (The doc only says "additional filtering using
//   standard deviation": the latch is read from the code.)
fn c05i_concrete_candle(x: ValueType) -> Candle {
	Candle { open: x, high: x + 1.0, low: x - 1.0, close: x, volume: 1.0 }
}
/// a fixed concrete price path with crossings of a slow average
fn c05i_zigzag(i: usize) -> ValueType {
	let tab = [12.0, 8.0, 11.0, 10.0, 10.125, 10.5, 9.0, 9.75];
	tab[i % 8]
}
pub fn c05_kaufman() {
	let what = rsx::param_str("what");
	let t = rsx::param("t") as usize;
	let sname = rsx::param_str("src");
	let filter = rsx::param("filter") as PeriodType;
	let square = rsx::param("square") != 0;
	let (p1, p2, p3): (usize, PeriodType, PeriodType) = if rsx::param_str("per") == "a" { (2, 1, 3) } else { (2, 2, 4) };
	let k = (rsx::param("k10") as ValueType) / 10.0;
	let cfg = Kaufman { period1: p1 as PeriodType, period2: p2, period3: p3, filter_period: filter, square_smooth: square, k, source: c05i_source(&sname) };
	// symat = -1: all candles symbolic; symat = j >= 0: only the candle of step j is symbolic, the initial and all other
	// candles are concrete (a fixed zig-zag with crossings): with filter_period >= 2 the square root inside StDev over
	// a fully symbolic KAMA history is beyond the solvers, with one symbolic candle the problem is univariate
	let symat = rsx::param("symat");
	let c0 = if symat >= 0 { c05i_concrete_candle(10.0) } else { valid_candle_i(1000) };
	// the documented range of filter_period starts at 0 (unfiltered mode): validate() accepts it, init must too
	rsx::check("kaufman.validate", cfg.validate());
	let mut ind = match cfg.init(&c0) {
		Ok(x) => x,
		Err(_) => {
			rsx::check("kaufman.init_accepts_valid_config", false);
			return;
		}
	};
	let x0 = c05i_src_value(&c0, &sname);
	let mut hist: Vec<ValueType> = vec![x0; p1 + 1];
	let mut kama = x0;
	let fastest = 2.0 / ((p2 + 1) as ValueType);
	let slowest = 2.0 / ((p3 + 1) as ValueType);
	// signals
	let mut prev_delta = 0.0;
	let mut latched: i8 = 0;
	let mut latched_value = x0;
	let mut sd = yata::methods::StDev::new(if filter > 1 { filter } else { 2 }, &x0).unwrap();
	for i in 0..t {
		let c = if symat >= 0 && (i as i64) != symat { c05i_concrete_candle(c05i_zigzag(i)) } else { valid_candle_i(i) };
		let r = ind.next(&c);
		let x = c05i_src_value(&c, &sname);
		hist.push(x);
		let w = r_last(&hist, p1 + 1);
		let direction = r_abs(w[p1] - w[0]);
		let mut vol = 0.0;
		for j in 1..w.len() {
			vol += r_abs(w[j] - w[j - 1]);
		}
		// the quotient is exempt where its denominator is within the allowance of zero
		rsx::assume(vol == 0.0 || vol > 0.001);
		let er = if vol == 0.0 { 0.0 } else { direction / vol };
		let mut sc = er * (fastest - slowest) + slowest;
		if square {
			sc = sc * sc;
		}
		kama = kama + sc * (x - kama);
		if what == "values" {
			rsx::check("kaufman.nvalues", r.values().len() == 1);
			rsx::close("kaufman.kama", r.value(0), kama, 4096.0);
		}
		if what == "signals" {
			let v = r.value(0);
			let delta = x - v;
			let cross = r_cross(prev_delta, delta);
			prev_delta = delta;
			rsx::check("kaufman.nsignals", r.signals().len() == 1);
			if filter > 1 {
				let dev = sd.next(&v);
				let mut expect: i8 = 0;
				if cross != 0 {
					latched = cross;
					latched_value = v;
				} else if latched != 0 && r_abs(v - latched_value) > dev * k {
					expect = latched;
					latched = 0;
				}
				rsx::check("kaufman.signal.filtered_latch", r.signal(0) == r_action(expect));
			} else {
				rsx::check("kaufman.signal.cross_source", r.signal(0) == r_action(cross));
			}
		}
	}
}

// ---------------------------------------------------------------------------------------------
// PivotReversalStrategy: no values; signal: low pivot => buy, high pivot => sell, otherwise none.
// A pivot "happens" on the step where the crate's Upper/LowerReversalSignal(left, right) over the highs / lows
// confirms it (right bars after the extreme bar); the detectors themselves are the subject of C14.
pub fn c05_pivot_reversal_strategy() {
	let what = rsx::param_str("what");
	let t = rsx::param("t") as usize;
	let left = rsx::param("left") as PeriodType;
	let right = rsx::param("right") as PeriodType;
	let rule = rsx::param_str("rule");
	let cfg = PivotReversalStrategy { left, right };
	let c0 = valid_candle_i(1000);
	let mut ind = cfg.init(&c0).unwrap();
	let mut ph = yata::methods::UpperReversalSignal::new(left, right, &c0.high).unwrap();
	let mut pl = yata::methods::LowerReversalSignal::new(left, right, &c0.low).unwrap();
	// candle history for the code-following rule (rule=code)
	let mut highs: Vec<ValueType> = vec![c0.high; right as usize + 1];
	let mut lows: Vec<ValueType> = vec![c0.low; right as usize + 1];
	let mut hprice = 0.0;
	let mut lprice = 0.0;
	for i in 0..t {
		let c = valid_candle_i(i);
		let r = ind.next(&c);
		let swh = ph.next(&c.high).analog();
		let swl = pl.next(&c.low).analog();
		highs.push(c.high);
		lows.push(c.low);
		if what == "values" {
			rsx::check("pivot_reversal.nvalues", r.values().len() == 0);
			rsx::check("pivot_reversal.nsignals", r.signals().len() == 1);
		}
		if what == "signals" {
			rsx::check("pivot_reversal.nsignals", r.signals().len() == 1);
			if rule == "doc" {
				rsx::check("pivot_reversal.signal.pivot", r.signal(0) == r_action(swl - swh));
			} else {
				// what the code computes instead: after a high pivot its price is remembered; "le" holds on the
				// pivot step and whenever the high does not exceed the remembered pivot high (mirrored for lows,
				// remembered prices start at 0); signal = se - le
				let past = highs.len() - 1 - right as usize;
				if swh > 0 {
					hprice = highs[past];
				}
				if swl > 0 {
					lprice = lows[past];
				}
				let le = (swh > 0 || c.high <= hprice) as i8;
				let se = (swl > 0 || c.low >= lprice) as i8;
				rsx::check("pivot_reversal.signal.code_rule", r.signal(0) == r_action(se - le));
			}
		}
	}
}
