//! requires-feature: serde
//! C13 (X part): behavioural serde round trips. An instance is snapshotted after `j` symbolic steps
//! (`rsx::serde_roundtrip`: natively a real round trip through the token format of kani/src/tok.rs; in
//! the executor the hand-written Serialize/Deserialize bodies of Window and SMM are interpreted from the
//! source and derived impls are the field-wise identity), then original and restored instance are fed the
//! same `t - j` further symbolic inputs: outputs must be bit-identical (real mode: equal values; fp mode:
//! also equal zero signs). Adversarial {buf, index} forms of a Window<ValueType> must be rejected, never panic.
use crate::reflib::*;
use crate::rsx;
use yata::core::{Candle, IndicatorConfig, IndicatorInstance, Method, PeriodType, ValueType, Window};
use yata::helpers::Peekable;
use yata::indicators::*;
use yata::methods::*;

fn c13_run<M>()
where
	M: Method<Params = PeriodType, Input = ValueType, Output = ValueType> + serde::Serialize + serde::de::DeserializeOwned,
{
	let n = rsx::param("n") as PeriodType;
	let j = rsx::param("j") as usize; // snapshot point
	let t = rsx::param("t") as usize;
	let v0 = rsx::val("v0");
	let mut a = M::new(n, &v0).unwrap();
	for i in 0..j {
		let x = rsx::val_i("x", i);
		a.next(&x);
	}
	let r = rsx::serde_roundtrip(&a);
	rsx::check("serde.restores", r.is_some());
	if let Some(mut b) = r {
		for i in j..t {
			let x = rsx::val_i("x", i);
			let ya = a.next(&x);
			let yb = b.next(&x);
			rsx::check("serde.continues_identically", rsx::bits_eq(ya, yb));
		}
	}
}

pub fn c13_method() {
	let kind = rsx::param_str("kind");
	match kind.as_str() {
		"SMA" => c13_run::<SMA>(),
		"WMA" => c13_run::<WMA>(),
		"EMA" => c13_run::<EMA>(),
		"DMA" => c13_run::<DMA>(),
		"TMA" => c13_run::<TMA>(),
		"DEMA" => c13_run::<DEMA>(),
		"TEMA" => c13_run::<TEMA>(),
		"RMA" => c13_run::<RMA>(),
		"WSMA" => c13_run::<WSMA>(),
		"SMM" => c13_run::<SMM>(),
		"HMA" => c13_run::<HMA>(),
		"LinReg" => c13_run::<LinReg>(),
		"SWMA" => c13_run::<SWMA>(),
		"TRIMA" => c13_run::<TRIMA>(),
		"Vidya" => c13_run::<Vidya>(),
		"Integral" => c13_run::<Integral>(),
		"Derivative" => c13_run::<Derivative>(),
		"Momentum" => c13_run::<Momentum>(),
		"RateOfChange" => c13_run::<RateOfChange>(),
		"StDev" => c13_run::<StDev>(),
		"MeanAbsDev" => c13_run::<MeanAbsDev>(),
		"MedianAbsDev" => c13_run::<MedianAbsDev>(),
		"CCI" => c13_run::<CCI>(),
		"LinearVolatility" => c13_run::<LinearVolatility>(),
		"Highest" => c13_run::<Highest>(),
		"Lowest" => c13_run::<Lowest>(),
		"HighestLowestDelta" => c13_run::<HighestLowestDelta>(),
		_ => c13_run::<Past<ValueType>>(),
	}
}

/// SMM: the restored instance must also peek identically right after the restore (the sorted slice and the
/// middle indices are recomputed by the hand-written Deserialize), and a window holding a NaN is rejected
pub fn c13_smm() {
	let n = rsx::param("n") as PeriodType;
	let j = rsx::param("j") as usize;
	let t = rsx::param("t") as usize;
	let v0 = rsx::val("v0");
	let mut a = SMM::new(n, &v0).unwrap();
	for i in 0..j {
		let x = rsx::val_i("x", i);
		a.next(&x);
	}
	let r = rsx::serde_roundtrip(&a);
	rsx::check("serde.restores", r.is_some());
	if let Some(mut b) = r {
		rsx::check("serde.smm.peek_after_restore", rsx::bits_eq(a.peek(), b.peek()));
		for i in j..t {
			let x = rsx::val_i("x", i);
			let ya = a.next(&x);
			let yb = b.next(&x);
			rsx::check("serde.continues_identically", rsx::bits_eq(ya, yb));
		}
	}
}

/// Window<ValueType>: adversarial {buf: n symbolic values, index}: accepted iff index < n (and n > 0);
/// an accepted window observes buf from `index` on as its oldest-first order and continues like from_parts
pub fn c13_window_adversarial() {
	let n = rsx::param("n") as usize;
	let idx = rsx::param("idx") as PeriodType;
	let mut buf: Vec<ValueType> = Vec::new();
	for i in 0..n {
		buf.push(rsx::val_i("b", i));
	}
	let r = rsx::serde_from_parts(&buf, idx);
	// the empty window serializes as (no elements, index 0): the only accepted form of length 0
	rsx::check("serde.window.accepted_iff_index_in_range", r.is_some() == ((idx as usize) < n || (n == 0 && idx == 0)));
	if n == 0 {
		if let Some(w) = r {
			rsx::check("serde.window.empty_restored_empty", w.is_empty() && w.len() == 0);
		}
		return;
	}
	if let Some(mut w) = r {
		rsx::check("serde.window.len", w.len() as usize == n);
		for k in 0..n {
			// oldest first: storage position (idx + k) mod n
			let e = buf[(idx as usize + k) % n];
			rsx::check("serde.window.order", rsx::bits_eq(w[(n - 1 - k) as PeriodType], e));
		}
		let x = rsx::val("x");
		let old = w.push(x);
		rsx::check("serde.window.push_returns_oldest", rsx::bits_eq(old, buf[idx as usize]));
		rsx::check("serde.window.newest_after_push", rsx::bits_eq(w[0], x));
	}
}

fn c13_ind<C: IndicatorConfig + Default>()
where
	C::Instance: serde::Serialize + serde::de::DeserializeOwned,
{
	let j = rsx::param("j") as usize;
	let t = rsx::param("t") as usize;
	let cfg = C::default();
	let c0 = valid_candle_i(1000);
	let mut a = cfg.init(&c0).unwrap();
	for i in 0..j {
		let c = valid_candle_i(i);
		a.next(&c);
	}
	let r = rsx::serde_roundtrip(&a);
	rsx::check("serde.restores", r.is_some());
	if let Some(mut b) = r {
		for i in j..t {
			let c = valid_candle_i(i);
			let ra = a.next(&c);
			let rb = b.next(&c);
			for q in 0..ra.values().len() {
				rsx::check("serde.ind.value", rsx::bits_eq(ra.values()[q], rb.values()[q]));
			}
			for q in 0..ra.signals().len() {
				rsx::check("serde.ind.signal", ra.signals()[q] == rb.signals()[q]);
			}
		}
	}
}

pub fn c13_indicator() {
	let kind = rsx::param_str("kind");
	match kind.as_str() {
		"Aroon" => c13_ind::<Aroon>(),
		"AverageDirectionalIndex" => c13_ind::<AverageDirectionalIndex>(),
		"AwesomeOscillator" => c13_ind::<AwesomeOscillator>(),
		"ChaikinMoneyFlow" => c13_ind::<ChaikinMoneyFlow>(),
		"ChaikinOscillator" => c13_ind::<ChaikinOscillator>(),
		"ChandeMomentumOscillator" => c13_ind::<ChandeMomentumOscillator>(),
		"CommodityChannelIndex" => c13_ind::<CommodityChannelIndex>(),
		"CoppockCurve" => c13_ind::<CoppockCurve>(),
		"DetrendedPriceOscillator" => c13_ind::<DetrendedPriceOscillator>(),
		"DonchianChannel" => c13_ind::<DonchianChannel>(),
		"EaseOfMovement" => c13_ind::<EaseOfMovement>(),
		"EldersForceIndex" => c13_ind::<EldersForceIndex>(),
		"Envelopes" => c13_ind::<Envelopes>(),
		"HullMovingAverage" => c13_ind::<HullMovingAverage>(),
		"KeltnerChannel" => c13_ind::<KeltnerChannel>(),
		"KlingerVolumeOscillator" => c13_ind::<KlingerVolumeOscillator>(),
		"KnowSureThing" => c13_ind::<KnowSureThing>(),
		"MACD" => c13_ind::<MACD>(),
		"MomentumIndex" => c13_ind::<MomentumIndex>(),
		"MoneyFlowIndex" => c13_ind::<MoneyFlowIndex>(),
		"ParabolicSAR" => c13_ind::<ParabolicSAR>(),
		"PivotReversalStrategy" => c13_ind::<PivotReversalStrategy>(),
		"PriceChannelStrategy" => c13_ind::<PriceChannelStrategy>(),
		"RelativeStrengthIndex" => c13_ind::<RelativeStrengthIndex>(),
		"RelativeVigorIndex" => c13_ind::<RelativeVigorIndex>(),
		"SMIErgodicIndicator" => c13_ind::<SMIErgodicIndicator>(),
		"Trix" => c13_ind::<Trix>(),
		"TrueStrengthIndex" => c13_ind::<TrueStrengthIndex>(),
		_ => c13_ind::<WoodiesCCI>(),
	}
}
