//! Worked example for the indicator harnesses (C05 values / C06 signals / C12 ranges): MACD.
//! One entry per indicator; `what` selects which aspect is asserted so that the same code can be
//! registered under C05, C06 and C12. The moving averages are taken from the crate (their own
//! correctness is C02/C03/C15); what is decided here is the indicator's formula and wiring.
use crate::reflib::*;
use crate::rsx;
use yata::core::{Action, IndicatorConfig, IndicatorInstance, Method, MovingAverageConstructor, Source, ValueType, OHLCV};
use yata::indicators::*;

pub fn c05_macd() {
	let what = rsx::param_str("what");
	let kind = rsx::param_str("ma");
	let t = rsx::param("t") as usize;
	let (p1, p2, p3) = (2, 3, 2);
	let cfg = MACD { ma1: ma_by_name(&kind, p1), ma2: ma_by_name(&kind, p2), signal: ma_by_name(&kind, p3), source: Source::Close };
	let c0 = valid_candle_i(1000);
	let mut ind = cfg.init(&c0).unwrap();
	// reference: documented formula on the close prices
	let mut fast = ma_by_name(&kind, p1).init(c0.close).unwrap();
	let mut slow = ma_by_name(&kind, p2).init(c0.close).unwrap();
	let mut sig = ma_by_name(&kind, p3).init(0.0).unwrap();
	let mut prev_d1 = 0.0;
	let mut prev_d2 = 0.0;
	for i in 0..t {
		let c = valid_candle_i(i);
		let r = ind.next(&c);
		let macd = fast.next(&c.close) - slow.next(&c.close);
		let sline = sig.next(&macd);
		if what == "values" {
			rsx::check("macd.nvalues", r.values().len() == 2);
			rsx::close("macd.value", r.value(0), macd, 64.0);
			rsx::close("macd.signal_line", r.value(1), sline, 64.0);
		}
		if what == "signals" {
			// rules evaluated on the indicator's own returned values
			let d1 = r.value(0) - r.value(1);
			let d2 = r.value(0);
			rsx::check("macd.nsignals", r.signals().len() == 2);
			rsx::check("macd.signal.cross_signal_line", r.signal(0) == r_action(r_cross(prev_d1, d1)));
			rsx::check("macd.signal.cross_zero", r.signal(1) == r_action(r_cross(prev_d2, d2)));
			prev_d1 = d1;
			prev_d2 = d2;
		}
	}
}
