//! C09 (per type, X part): two identically built instances fed identical input agree; a clone taken
//! at any moment continues identically and is unaffected by what happens to the original afterwards
//! (and vice versa).  Equality is decided by the solver on the output terms (bit-identical is
//! modelled as equal real values, in fp mode additionally equal zero signs).
use crate::reflib::*;
use crate::rsx;
use yata::core::{Method, MovingAverageConstructor, PeriodType, ValueType};
use yata::helpers::Peekable;
use yata::methods::*;

fn c09_run<M: Method<Params = PeriodType, Input = ValueType, Output = ValueType> + Clone>() {
	let n = rsx::param("n") as PeriodType;
	let j = rsx::param("j") as usize; // clone point
	let t = rsx::param("t") as usize;
	let v0 = rsx::val("v0");
	let mut a = M::new(n, &v0).unwrap();
	let mut b = M::new(n, &v0).unwrap();
	let mut d = M::new(n, &v0).unwrap();
	for i in 0..j {
		let x = rsx::val_i("x", i);
		let ya = a.next(&x);
		let yb = b.next(&x);
		d.next(&x);
		rsx::check("determinism", rsx::bits_eq(ya, yb));
	}
	let mut c = a.clone();
	for i in j..t {
		let x = rsx::val_i("x", i);
		let y = rsx::val_i("y", i);
		// the original goes on with y, the clone with x
		let ya = a.next(&y);
		let yc = c.next(&x);
		let yb = b.next(&x);
		let yd = d.next(&y);
		rsx::check("clone.continues", rsx::bits_eq(yc, yb));
		rsx::check("original.unaffected", rsx::bits_eq(ya, yd));
	}
}

pub fn c09_method() {
	let kind = rsx::param_str("kind");
	match kind.as_str() {
		"SMA" => c09_run::<SMA>(),
		"WMA" => c09_run::<WMA>(),
		"EMA" => c09_run::<EMA>(),
		"DMA" => c09_run::<DMA>(),
		"TMA" => c09_run::<TMA>(),
		"DEMA" => c09_run::<DEMA>(),
		"TEMA" => c09_run::<TEMA>(),
		"RMA" => c09_run::<RMA>(),
		"WSMA" => c09_run::<WSMA>(),
		"SMM" => c09_run::<SMM>(),
		"HMA" => c09_run::<HMA>(),
		"LinReg" => c09_run::<LinReg>(),
		"SWMA" => c09_run::<SWMA>(),
		"TRIMA" => c09_run::<TRIMA>(),
		"Vidya" => c09_run::<Vidya>(),
		"Integral" => c09_run::<Integral>(),
		"Derivative" => c09_run::<Derivative>(),
		"Momentum" => c09_run::<Momentum>(),
		"RateOfChange" => c09_run::<RateOfChange>(),
		"StDev" => c09_run::<StDev>(),
		"MeanAbsDev" => c09_run::<MeanAbsDev>(),
		"MedianAbsDev" => c09_run::<MedianAbsDev>(),
		"CCI" => c09_run::<CCI>(),
		"LinearVolatility" => c09_run::<LinearVolatility>(),
		"Highest" => c09_run::<Highest>(),
		"Lowest" => c09_run::<Lowest>(),
		"HighestLowestDelta" => c09_run::<HighestLowestDelta>(),
		_ => c09_run::<Past<ValueType>>(),
	}
}

/// C09 (peek clause): after every `next`, `peek()` returns the value that `next` just returned —
/// also through `&T`, and without disturbing the instance (the next output is unaffected by peeking).
fn c09_peek_run<M: Method<Params = PeriodType, Input = ValueType, Output = ValueType> + Peekable<ValueType>>() {
	let n = rsx::param("n") as PeriodType;
	let t = rsx::param("t") as usize;
	let v0 = rsx::val("v0");
	let mut a = M::new(n, &v0).unwrap();
	let mut b = M::new(n, &v0).unwrap();
	for i in 0..t {
		let x = rsx::val_i("x", i);
		let ya = a.next(&x);
		let p = a.peek();
		rsx::check("peek.is_last_output", rsx::bits_eq(p, ya));
		let r = &a;
		rsx::check("peek.through_ref", rsx::bits_eq(r.peek(), ya));
		// b is never peeked: peeking must not change what comes next
		let yb = b.next(&x);
		rsx::check("peek.does_not_disturb", rsx::bits_eq(ya, yb));
	}
}

pub fn c09_peek() {
	let kind = rsx::param_str("kind");
	match kind.as_str() {
		"SMA" => c09_peek_run::<SMA>(),
		"WMA" => c09_peek_run::<WMA>(),
		"EMA" => c09_peek_run::<EMA>(),
		"DMA" => c09_peek_run::<DMA>(),
		"TMA" => c09_peek_run::<TMA>(),
		"DEMA" => c09_peek_run::<DEMA>(),
		"TEMA" => c09_peek_run::<TEMA>(),
		"RMA" => c09_peek_run::<RMA>(),
		"WSMA" => c09_peek_run::<WSMA>(),
		"SMM" => c09_peek_run::<SMM>(),
		"HMA" => c09_peek_run::<HMA>(),
		"LinReg" => c09_peek_run::<LinReg>(),
		"SWMA" => c09_peek_run::<SWMA>(),
		"TRIMA" => c09_peek_run::<TRIMA>(),
		"Vidya" => c09_peek_run::<Vidya>(),
		"Integral" => c09_peek_run::<Integral>(),
		"StDev" => c09_peek_run::<StDev>(),
		"MeanAbsDev" => c09_peek_run::<MeanAbsDev>(),
		"MedianAbsDev" => c09_peek_run::<MedianAbsDev>(),
		"LinearVolatility" => c09_peek_run::<LinearVolatility>(),
		"Highest" => c09_peek_run::<Highest>(),
		"Lowest" => c09_peek_run::<Lowest>(),
		_ => c09_peek_run::<HighestLowestDelta>(),
	}
}
