//! C03 — recursive methods follow their documented recurrences (over the reals, every step).
use crate::reflib::*;
use crate::rsx;
use yata::core::{Candle, Method, PeriodType, ValueType, OHLCV};
use yata::helpers::Peekable;
use yata::methods::*;

fn c03_params() -> (PeriodType, usize, ValueType) {
	let n = rsx::param("n") as PeriodType;
	let t = rsx::param("t") as usize;
	(n, t, (n as usize + t + 8) as ValueType)
}

/// one step of an exponential average with smoothing a
fn ema_step(prev: ValueType, x: ValueType, a: ValueType) -> ValueType {
	a * x + (1.0 - a) * prev
}

pub fn c03_ema() {
	let (n, t, scale) = c03_params();
	let v0 = rsx::val("v0");
	let a = 2.0 / ((n as ValueType) + 1.0);
	let mut m = EMA::new(n, &v0).unwrap();
	let mut e = v0;
	let pattern = rsx::param_str("shape");
	let mut hist_in: Vec<ValueType> = vec![v0];
	for i in 0..t {
		let x = shaped_input(&pattern, i, &hist_in);
		hist_in.push(x);
		e = ema_step(e, x, a);
		rsx::close("ema.next", m.next(&x), e, scale);
		rsx::close("ema.peek", m.peek(), e, scale);
	}
}

pub fn c03_dma() {
	let (n, t, scale) = c03_params();
	let v0 = rsx::val("v0");
	let a = 2.0 / ((n as ValueType) + 1.0);
	let mut m = DMA::new(n, &v0).unwrap();
	let mut e1 = v0;
	let mut e2 = v0;
	for i in 0..t {
		let x = rsx::val_i("x", i);
		e1 = ema_step(e1, x, a);
		e2 = ema_step(e2, e1, a);
		rsx::close("dma.next", m.next(&x), e2, scale);
		rsx::close("dma.peek", m.peek(), e2, scale);
	}
}

pub fn c03_tma() {
	let (n, t, scale) = c03_params();
	let v0 = rsx::val("v0");
	let a = 2.0 / ((n as ValueType) + 1.0);
	let mut m = TMA::new(n, &v0).unwrap();
	let mut e1 = v0;
	let mut e2 = v0;
	let mut e3 = v0;
	for i in 0..t {
		let x = rsx::val_i("x", i);
		e1 = ema_step(e1, x, a);
		e2 = ema_step(e2, e1, a);
		e3 = ema_step(e3, e2, a);
		rsx::close("tma.next", m.next(&x), e3, scale);
		rsx::close("tma.peek", m.peek(), e3, scale);
	}
}

pub fn c03_dema() {
	let (n, t, scale) = c03_params();
	let v0 = rsx::val("v0");
	let a = 2.0 / ((n as ValueType) + 1.0);
	let mut m = DEMA::new(n, &v0).unwrap();
	let mut e1 = v0;
	let mut e2 = v0;
	for i in 0..t {
		let x = rsx::val_i("x", i);
		e1 = ema_step(e1, x, a);
		e2 = ema_step(e2, e1, a);
		let r = 2.0 * e1 - e2;
		rsx::close("dema.next", m.next(&x), r, 3.0 * scale);
		rsx::close("dema.peek", m.peek(), r, 3.0 * scale);
	}
}

pub fn c03_tema() {
	let (n, t, scale) = c03_params();
	let v0 = rsx::val("v0");
	let a = 2.0 / ((n as ValueType) + 1.0);
	let mut m = TEMA::new(n, &v0).unwrap();
	let mut e1 = v0;
	let mut e2 = v0;
	let mut e3 = v0;
	for i in 0..t {
		let x = rsx::val_i("x", i);
		e1 = ema_step(e1, x, a);
		e2 = ema_step(e2, e1, a);
		e3 = ema_step(e3, e2, a);
		let r = 3.0 * (e1 - e2) + e3;
		rsx::close("tema.next", m.next(&x), r, 7.0 * scale);
		rsx::close("tema.peek", m.peek(), r, 7.0 * scale);
	}
}

pub fn c03_rma() {
	let (n, t, scale) = c03_params();
	let v0 = rsx::val("v0");
	let a = 1.0 / (n as ValueType);
	let mut m = RMA::new(n, &v0).unwrap();
	let mut e = v0;
	for i in 0..t {
		let x = rsx::val_i("x", i);
		e = ema_step(e, x, a);
		rsx::close("rma.next", m.next(&x), e, scale);
		rsx::close("rma.peek", m.peek(), e, scale);
	}
}

pub fn c03_wsma() {
	let (n, t, scale) = c03_params();
	let v0 = rsx::val("v0");
	// Wilder's smoothing: smoothing 1/n (documented as an EMA over 2n-1 periods: 2/(2n-1+1) = 1/n)
	let a = 1.0 / (n as ValueType);
	let mut m = WSMA::new(n, &v0).unwrap();
	let mut e = v0;
	for i in 0..t {
		let x = rsx::val_i("x", i);
		e = ema_step(e, x, a);
		rsx::close("wsma.next", m.next(&x), e, scale);
		rsx::close("wsma.peek", m.peek(), e, scale);
	}
}

pub fn c03_tsi() {
	let s = rsx::param("s") as PeriodType;
	let l = rsx::param("l") as PeriodType;
	let t = rsx::param("t") as usize;
	let scale = (s as usize + l as usize + t + 8) as ValueType;
	let v0 = rsx::val("v0");
	let al = 2.0 / ((l as ValueType) + 1.0);
	let a_s = 2.0 / ((s as ValueType) + 1.0);
	let mut m = TSI::new(s, l, &v0).unwrap();
	let mut last = v0;
	let (mut n1, mut n2, mut d1, mut d2) = (0.0, 0.0, 0.0, 0.0);
	let pattern = rsx::param_str("shape");
	let mut hist_in: Vec<ValueType> = vec![v0];
	for i in 0..t {
		let x = shaped_input(&pattern, i, &hist_in);
		hist_in.push(x);
		let mom = x - last;
		last = x;
		n1 = ema_step(n1, mom, al);
		n2 = ema_step(n2, n1, a_s);
		d1 = ema_step(d1, mom.abs(), al);
		d2 = ema_step(d2, d1, a_s);
		// the quotient is exempt where the denominator is within the allowance of zero
		rsx::assume(d2 == 0.0 || d2 > 0.001 * r_maxabs(&hist_in));
		let r = if d2 > 0.0 { n2 / d2 } else { 0.0 };
		rsx::close("tsi.next", m.next(&x), r, 4096.0 * scale);
		rsx::close("tsi.peek", m.peek(), r, 4096.0 * scale);
	}
}

pub fn c03_vidya() {
	let (n, t, scale) = c03_params();
	let v0 = rsx::val("v0");
	let f = 2.0 / ((n as ValueType) + 1.0);
	let mut m = Vidya::new(n, &v0).unwrap();
	let mut changes: Vec<ValueType> = vec![0.0; n as usize];
	let mut last_in = v0;
	let mut y = v0;
	let pattern = rsx::param_str("shape");
	let mut hist_in: Vec<ValueType> = vec![v0];
	for i in 0..t {
		let x = shaped_input(&pattern, i, &hist_in);
		hist_in.push(x);
		changes.push(x - last_in);
		last_in = x;
		let w = r_last(&changes, n as usize);
		let mut up = 0.0;
		let mut dn = 0.0;
		for c in w {
			up += r_max(*c, 0.0);
			dn += r_max(-*c, 0.0);
		}
		// the adaptive factor is a quotient: exempt where up+dn is within the allowance of zero
		rsx::assume(up + dn == 0.0 || up + dn > 0.001 * r_maxabs(&hist_in));
		y = if up + dn > 0.0 {
			let k = f * ((up - dn) / (up + dn)).abs();
			k * x + (1.0 - k) * y
		} else {
			x
		};
		rsx::close("vidya.next", m.next(&x), y, 4096.0 * scale);
		rsx::close("vidya.peek", m.peek(), y, 4096.0 * scale);
	}
}

pub fn c03_tr() {
	let t = rsx::param("t") as usize;
	let c0 = valid_candle_i(1000);
	let mut m = TR::new(&c0).unwrap();
	let mut pc = c0.close;
	for i in 0..t {
		let c = valid_candle_i(i);
		let a = c.high - c.low;
		let b = (c.high - pc).abs();
		let d = (c.low - pc).abs();
		let r = r_max(r_max(a, b), d);
		rsx::close("tr.next", m.next(&c), r, 8.0);
		rsx::close("tr.tr_close", c.tr_close(pc), r, 8.0);
		pc = c.close;
	}
}

pub fn c03_heikin_ashi() {
	let t = rsx::param("t") as usize;
	let c0 = valid_candle_i(1000);
	let mut m = HeikinAshi::new((), &c0).unwrap();
	let mut open = (c0.open + c0.high + c0.low + c0.close) / 4.0;
	for i in 0..t {
		let c = valid_candle_i(i);
		let close = (c.open + c.high + c.low + c.close) / 4.0;
		let y = m.next(&c);
		rsx::close("ha.open", y.open, open, 8.0);
		rsx::close("ha.close", y.close, close, 8.0);
		rsx::close("ha.high", y.high, r_max(c.high, open), 8.0);
		rsx::close("ha.low", y.low, r_min(c.low, open), 8.0);
		rsx::close("ha.volume", y.volume, c.volume, 8.0);
		// valid in -> valid out
		rsx::check("ha.valid", y.low <= y.open && y.low <= y.close && y.open <= y.high && y.close <= y.high && y.low > 0.0);
		open = (open + close) / 2.0;
	}
}

pub fn c03_integral0() {
	let t = rsx::param("t") as usize;
	let v0 = rsx::val("v0");
	let mut m = Integral::new(0, &v0).unwrap();
	let mut s = 0.0;
	for i in 0..t {
		let x = rsx::val_i("x", i);
		s += x;
		rsx::close("integral0.next", m.next(&x), s, (t + 8) as ValueType);
		rsx::close("integral0.peek", m.peek(), s, (t + 8) as ValueType);
	}
}

pub fn c03_adi0() {
	let t = rsx::param("t") as usize;
	let c0 = valid_candle_i(1000);
	let mut m = ADI::new(0, &c0).unwrap();
	let mut s = 0.0;
	for i in 0..t {
		let c = valid_candle_i(i);
		s += r_clv(&c) * c.volume;
		rsx::close("adi0.next", m.next(&c), s, 1024.0 * (t + 8) as ValueType);
		rsx::close("adi0.peek", m.peek(), s, 1024.0 * (t + 8) as ValueType);
	}
}

pub fn c03_candle_helpers() {
	let c = valid_candle_i(0);
	rsx::close("clv", c.clv(), r_clv(&c), 1024.0);
	rsx::close("ohlc4", c.ohlc4(), (c.open + c.high + c.low + c.close) / 4.0, 8.0);
	rsx::close("tp", c.tp(), (c.high + c.low + c.close) / 3.0, 8.0);
	rsx::close("hl2", c.hl2(), (c.high + c.low) / 2.0, 8.0);
	rsx::close("volumed_price", c.volumed_price(), (c.high + c.low + c.close) / 3.0 * c.volume, 8.0);
	rsx::check("clv.range", c.clv() >= -1.0 && c.clv() <= 1.0);
}
