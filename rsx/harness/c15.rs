//! C15 — moving averages are averages: affine equivariance, constants, range containment,
//! superposition, impulse response.
use crate::reflib::*;
use crate::rsx;
use yata::core::{Method, MovingAverageConstructor, PeriodType, ValueType};
use yata::helpers::Peekable;
use yata::methods::*;

fn c15_params() -> (String, PeriodType, usize) {
	(rsx::param_str("kind"), rsx::param("n") as PeriodType, rsx::param("t") as usize)
}

/// averaging a*x+b gives a*average+b; `a` symbolic when param a_num is 0, else the rational a_num/a_den
pub fn c15_affine() {
	let (kind, n, t) = c15_params();
	let an = rsx::param("a_num");
	let a: ValueType = if an == 0 { rsx::val("a") } else { (an as ValueType) / (rsx::param("a_den") as ValueType) };
	let b = rsx::val("b");
	let v0 = rsx::val("v0");
	let mut m1 = ma_by_name(&kind, n).init(v0).unwrap();
	let mut m2 = ma_by_name(&kind, n).init(a * v0 + b).unwrap();
	let scale = (n as usize + t + 8) as ValueType * 8.0;
	for i in 0..t {
		let x = rsx::val_i("x", i);
		let y1 = m1.next(&x);
		let y2 = m2.next(&(a * x + b));
		rsx::close("affine", y2, a * y1 + b, scale * 1024.0);
	}
}

/// a constant stream is reproduced exactly
pub fn c15_constant() {
	let (kind, n, t) = c15_params();
	let v0 = rsx::val("v0");
	let mut m = ma_by_name(&kind, n).init(v0).unwrap();
	for _i in 0..t {
		let y = m.next(&v0);
		rsx::close("constant", y, v0, 8.0);
	}
}

/// non-negative-weight kinds stay inside the interval spanned by the values given so far
pub fn c15_range() {
	let (kind, n, t) = c15_params();
	let v0 = rsx::val("v0");
	let mut m = ma_by_name(&kind, n).init(v0).unwrap();
	let mut lo = v0;
	let mut hi = v0;
	for i in 0..t {
		let x = rsx::val_i("x", i);
		lo = r_min(lo, x);
		hi = r_max(hi, x);
		let y = m.next(&x);
		rsx::check("range.lo", y >= lo);
		rsx::check("range.hi", y <= hi);
	}
}

/// linear kinds: the average of a sum of two streams is the sum of the averages
pub fn c15_superposition() {
	let (kind, n, t) = c15_params();
	let v0 = rsx::val("v0");
	let w0 = rsx::val("w0");
	let mut m1 = ma_by_name(&kind, n).init(v0).unwrap();
	let mut m2 = ma_by_name(&kind, n).init(w0).unwrap();
	let mut m3 = ma_by_name(&kind, n).init(v0 + w0).unwrap();
	let scale = (n as usize + t + 8) as ValueType * 8.0;
	for i in 0..t {
		let x = rsx::val_i("x", i);
		let y = rsx::val_i("y", i);
		let a = m1.next(&x);
		let b = m2.next(&y);
		let c = m3.next(&(x + y));
		rsx::close("superposition", c, a + b, scale);
	}
}

fn weight(kind: &str, n: usize, j: usize) -> ValueType {
	let nf = n as ValueType;
	match kind {
		"sma" => {
			if j < n {
				1.0 / nf
			} else {
				0.0
			}
		}
		"wma" => {
			if j < n {
				((n - j) as ValueType) / (nf * (nf + 1.0) / 2.0)
			} else {
				0.0
			}
		}
		"swma" => {
			if j < n {
				let a = j + 1;
				let b = n - j;
				let k = if a < b { a } else { b };
				let mut den = 0;
				for q in 0..n {
					let a2 = q + 1;
					let b2 = n - q;
					den += if a2 < b2 { a2 } else { b2 };
				}
				(k as ValueType) / (den as ValueType)
			} else {
				0.0
			}
		}
		"trima" => {
			if j < 2 * n - 1 {
				let a = j + 1;
				let b = 2 * n - 1 - j;
				let k = if a < b { a } else { b };
				(k as ValueType) / (nf * nf)
			} else {
				0.0
			}
		}
		_ => {
			// exponential kinds: alpha (1-alpha)^j
			let alpha = if kind == "ema" { 2.0 / (nf + 1.0) } else { 1.0 / nf };
			let mut w = alpha;
			for _q in 0..j {
				w *= 1.0 - alpha;
			}
			w
		}
	}
}

/// impulse of symbolic height h on a symbolic background level b: the response is b + w_j h with the
/// documented weight profile w
pub fn c15_impulse() {
	let (kind, n, t) = c15_params();
	let b = rsx::val("b");
	let h = rsx::val("h");
	let mut m = ma_by_name(&kind, n).init(b).unwrap();
	for j in 0..t {
		let x = if j == 0 { b + h } else { b };
		let y = m.next(&x);
		rsx::close("impulse", y, b + weight(&kind, n as usize, j) * h, 64.0);
	}
}

/// Conv and VWMA (not part of the MA constructor): affine equivariance / superposition / range
pub fn c15_conv() {
	let n = rsx::param("n") as usize;
	let t = rsx::param("t") as usize;
	let mut weights: Vec<ValueType> = Vec::new();
	let mut wsum = 0.0;
	for j in 0..n {
		let k = rsx::val_i("k", j);
		rsx::assume(k >= 0.0);
		weights.push(k);
		wsum += k;
	}
	rsx::assume(wsum > 0.001);
	let a = rsx::param("a_num") as ValueType / rsx::param("a_den") as ValueType;
	let b = rsx::val("b");
	let v0 = rsx::val("v0");
	let w0 = rsx::val("w0");
	let mut m1 = Conv::new(weights.clone(), &v0).unwrap();
	let mut m2 = Conv::new(weights.clone(), &(a * v0 + b)).unwrap();
	let mut m3 = Conv::new(weights.clone(), &w0).unwrap();
	let mut m4 = Conv::new(weights.clone(), &(v0 + w0)).unwrap();
	let mut lo = v0;
	let mut hi = v0;
	let scale = (n + t + 8) as ValueType * 1024.0;
	for i in 0..t {
		let x = rsx::val_i("x", i);
		let y = rsx::val_i("y", i);
		lo = r_min(lo, x);
		hi = r_max(hi, x);
		let o1 = m1.next(&x);
		rsx::close("conv.affine", m2.next(&(a * x + b)), a * o1 + b, scale);
		rsx::close("conv.superposition", m4.next(&(x + y)), o1 + m3.next(&y), scale);
		rsx::check("conv.range.lo", o1 >= lo);
		rsx::check("conv.range.hi", o1 <= hi);
	}
}

pub fn c15_vwma() {
	let n = rsx::param("n") as PeriodType;
	let t = rsx::param("t") as usize;
	let a = rsx::param("a_num") as ValueType / rsx::param("a_den") as ValueType;
	let b = rsx::val("b");
	let p0 = rsx::val("p0");
	let q0 = rsx::val("q0");
	rsx::assume(q0 > 0.001);
	let mut m1 = VWMA::new(n, &(p0, q0)).unwrap();
	let mut m2 = VWMA::new(n, &(a * p0 + b, q0)).unwrap();
	let mut lo = p0;
	let mut hi = p0;
	let scale = (n as usize + t + 8) as ValueType * 1024.0;
	for i in 0..t {
		let p = rsx::val_i("p", i);
		let q = rsx::val_i("q", i);
		rsx::assume(q > 0.001);
		lo = r_min(lo, p);
		hi = r_max(hi, p);
		let o1 = m1.next(&(p, q));
		rsx::close("vwma.affine", m2.next(&(a * p + b, q)), a * o1 + b, scale);
		rsx::check("vwma.range.lo", o1 >= lo);
		rsx::check("vwma.range.hi", o1 <= hi);
	}
}
