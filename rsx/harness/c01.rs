//! C01 (X part) — Window as a FIFO, concrete capacity and phase (integers are concrete in the
//! executor), symbolic labels: every observer against the abstract sequence. Complements the
//! Kani harnesses (which cover all capacities symbolically) where the implementation loops over the
//! buffer (normalisation / rotation), which CBMC does not digest.
use crate::reflib::*;
use crate::rsx;
use yata::core::{PeriodType, ValueType, Window};

pub fn c01_from_parts() {
	let n = rsx::param("n") as usize;
	let idx = rsx::param("idx") as usize;
	let pushes = rsx::param("pushes") as usize;
	let mut buf: Vec<ValueType> = Vec::new();
	for i in 0..n {
		buf.push(rsx::val_i("b", i));
	}
	// abstract sequence, oldest first
	let mut s: Vec<ValueType> = Vec::new();
	for j in 0..n {
		s.push(buf[(idx + j) % n]);
	}
	let mut w = Window::from_parts(buf.clone().into_boxed_slice(), idx as PeriodType);
	for p in 0..(pushes + 1) {
		rsx::check("len", w.len() as usize == n && !w.is_empty());
		rsx::check("oldest", rsx::bits_eq(*w.oldest(), s[0]));
		rsx::check("newest", rsx::bits_eq(*w.newest(), s[n - 1]));
		for k in 0..n {
			rsx::check("index", rsx::bits_eq(w[k as PeriodType], s[n - 1 - k]));
			rsx::check("get", rsx::bits_eq(*w.get(k as PeriodType).unwrap(), s[n - 1 - k]));
		}
		rsx::check("get.out_of_range", w.get(n as PeriodType).is_none() && w.get((n + 1) as PeriodType).is_none());
		// both iterators, with every split into consumed / unconsumed part
		let fwd: Vec<ValueType> = w.iter().copied().collect();
		let rev: Vec<ValueType> = w.iter_rev().copied().collect();
		rsx::check("iter.len", fwd.len() == n && rev.len() == n);
		for k in 0..n {
			rsx::check("iter.order", rsx::bits_eq(fwd[k], s[n - 1 - k]));
			rsx::check("iter_rev.order", rsx::bits_eq(rev[k], s[k]));
		}
		for j in 0..(n + 1) {
			let mut it = w.iter();
			let mut ir = w.iter_rev();
			for _q in 0..j {
				it.next();
				ir.next();
			}
			rsx::check("iter.size_hint", it.size_hint() == (n - j, Some(n - j)));
			rsx::check("iter_rev.size_hint", ir.size_hint() == (n - j, Some(n - j)));
			if j < n {
				rsx::check("iter.last", rsx::bits_eq(*it.last().unwrap(), s[0]));
				rsx::check("iter_rev.last", rsx::bits_eq(*ir.last().unwrap(), s[n - 1]));
			} else {
				rsx::check("iter.last.none", it.last().is_none());
				rsx::check("iter_rev.last.none", ir.last().is_none());
			}
			let mut ic = w.iter();
			for _q in 0..j {
				ic.next();
			}
			rsx::check("iter.count", ic.count() == n - j);
		}
		if p < pushes {
			let x = rsx::val_i("x", p);
			let old = w.push(x);
			rsx::check("push.returns_oldest", rsx::bits_eq(old, s[0]));
			s.remove(0);
			s.push(x);
		}
	}
}
