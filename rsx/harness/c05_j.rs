//! Indicator harnesses (C05 values / C06 signals / C12 ranges), group J:
//! PriceChannelStrategy, RelativeStrengthIndex, RelativeVigorIndex, SMIErgodicIndicator,
//! StochasticOscillator, Trix, TrendStrengthIndex, TrueStrengthIndex, WoodiesCCI.
//! The reference formulas are written from the doc comments of the indicator files and the pages
//! they link; windows/extrema/sums/recurrences are evaluated on explicit histories kept by the
//! harness (prehistory = the first candle, as documented for every windowed method: "the window is
//! filled with the initial value"). Configurable moving averages are the crate's own instances.
use crate::reflib::*;
use crate::rsx;
use yata::core::{Action, IndicatorConfig, IndicatorInstance, Method, MovingAverageConstructor, Source, ValueType, OHLCV};
use yata::indicators::*;

/// history with `n` copies of the initial value as prehistory
fn c05j_hist(n: usize, v0: ValueType) -> Vec<ValueType> {
	let mut h = Vec::new();
	for _ in 0..n {
		h.push(v0);
	}
	h
}
/// grid > 0: restrict the close of a candle to the integers 1..=grid (the non-linear queries of the correlation-based
/// indicator then reduce to finitely many constant cases); grid = 0: no restriction
fn c05j_on_grid(c: &yata::core::Candle, grid: i64) {
	if grid > 0 {
		let mut any = false;
		for k in 1..=grid {
			any = any || c.close == (k as ValueType);
		}
		rsx::assume(any);
	}
}
/// prescribed usage: the first candle given to next() is the candle the instance was initialised with
fn c05j_first_is_init(i: usize, c: &yata::core::Candle, c0: &yata::core::Candle) {
	if i == 0 {
		rsx::assume(c.open == c0.open && c.high == c0.high && c.low == c0.low && c.close == c0.close && c.volume == c0.volume);
	}
}
fn c05j_b2i(b: bool) -> i8 {
	b as i8
}
/// one step of the exponential average with smoothing 2/(n+1)
fn c05j_ema(prev: ValueType, x: ValueType, n: usize) -> ValueType {
	let a = 2.0 / ((n as ValueType) + 1.0);
	prev + a * (x - prev)
}

// ------------------------------------------------------------------------------------------------
// PriceChannelStrategy: upper/lower = middle +- sigma * (highest high - middle), middle = (HH+LL)/2 over
// the last `period` candles; sigma = 1: upper = HH, lower = LL.
pub fn c05_price_channel_strategy() {
	let what = rsx::param_str("what");
	let t = rsx::param("t") as usize;
	let period = rsx::param("period") as usize;
	let sigma = (rsx::param("sigma_pct") as ValueType) / 100.0;
	let cfg = PriceChannelStrategy { period: period as yata::core::PeriodType, sigma };
	let c0 = valid_candle_i(1000);
	let mut ind = cfg.init(&c0).unwrap();
	let mut highs = c05j_hist(period, c0.high);
	let mut lows = c05j_hist(period, c0.low);
	for i in 0..t {
		let c = valid_candle_i(i);
		let r = ind.next(&c);
		highs.push(c.high);
		lows.push(c.low);
		let wh = r_last(&highs, period);
		let wl = r_last(&lows, period);
		let hh = r_highest(wh);
		let ll = r_lowest(wl);
		if what == "values" {
			let mid = (hh + ll) / 2.0;
			rsx::check("price_channel.nvalues", r.values().len() == 2);
			rsx::close("price_channel.upper", r.value(0), mid + sigma * (hh - mid), 64.0);
			rsx::close("price_channel.lower", r.value(1), mid - sigma * (hh - mid), 64.0);
			if sigma == 1.0 {
				rsx::close("price_channel.upper_is_highest_high", r.value(0), hh, 64.0);
				rsx::close("price_channel.lower_is_lowest_low", r.value(1), ll, 64.0);
			}
		}
		if what == "signals" {
			// documented: high touches upper => buy, low touches lower => sell, both or none => no signal
			let up = c.high >= r.value(0);
			let dn = c.low <= r.value(1);
			rsx::check("price_channel.nsignals", r.signals().len() == 1);
			rsx::check("price_channel.signal.touch", r.signal(0) == r_action(c05j_b2i(up) - c05j_b2i(dn)));
		}
		if what == "ranges" {
			rsx::check("price_channel.upper_ge_lower", r.value(0) >= r.value(1));
			rsx::check("price_channel.upper_le_highest_high", r.value(0) <= hh);
			rsx::check("price_channel.lower_ge_lowest_low", r.value(1) >= ll);
			if sigma == 1.0 {
				// the channel contains the highs and lows it is built from
				for k in 0..period {
					rsx::check("price_channel.contains_high", r.value(0) >= wh[k]);
					rsx::check("price_channel.contains_low", r.value(1) <= wl[k]);
					rsx::check("price_channel.contains_low_above", r.value(0) >= wl[k]);
					rsx::check("price_channel.contains_high_below", r.value(1) <= wh[k]);
				}
			}
		}
	}
}

// ------------------------------------------------------------------------------------------------
// RelativeStrengthIndex: U = max(change,0), D = max(-change,0) of the source, RSI = MA(U)/(MA(U)+MA(D))
// (= 1 - 1/(1+RS), RS = MA(U)/MA(D)), 1/2 when both averages are zero; averages start from 0.
pub fn c05_relative_strength_index() {
	let what = rsx::param_str("what");
	let kind = rsx::param_str("ma");
	let t = rsx::param("t") as usize;
	let p = 3;
	let zone = 0.3;
	let cfg = RelativeStrengthIndex { ma: ma_by_name(&kind, p), zone, source: Source::Close };
	let pre = rsx::param_str("pre");
	let c0 = valid_candle_i(1000);
	if pre != "nocancel" {
		rsx::assume(c0.close == 0.5 || c0.close == 1.0 || c0.close == 1.5 || c0.close == 2.0);
	}
	let mut ind = cfg.init(&c0).unwrap();
	let mut up = ma_by_name(&kind, p).init(0.0).unwrap();
	let mut dn = ma_by_name(&kind, p).init(0.0).unwrap();
	let mut dn_neg = ma_by_name(&kind, p).init(0.0).unwrap();
	let mut prev = c0.close;
	// the crossing detectors start as if the previous value had been 1/2
	let mut prev_du = 0.5 - (1.0 - zone);
	let mut prev_dl = 0.5 - zone;
	for i in 0..t {
		let c = valid_candle_i(i);
		let change = c.close - prev;
		prev = c.close;
		// U = upward change, D = downward change (both >= 0)
		let u = change.max(0.0);
		let d = r_max(-change, 0.0);
		let au = up.next(&u);
		let ad = dn.next(&d);
		// lemma (linear): the average of the downward changes is minus the average of min(change, 0);
		// the quotient below is written over that form so that the solver compares equal divisions
		let ad2 = dn_neg.next(&change.min(0.0)) * -1.0;
		// precondition (only restrictive for averaging kinds that can overshoot, where an average of non-negative
		// numbers may be negative): the two averages do not cancel exactly unless both are zero
		if pre == "nocancel" {
			rsx::assume(au + ad2 != 0.0 || (au == 0.0 && ad2 == 0.0));
		} else {
			// pre = "none": no precondition; closes on the grid 0.5, 1.0, .. 2.0 so that counterexamples are exactly
			// representable in f64
			rsx::assume(c.close == 0.5 || c.close == 1.0 || c.close == 1.5 || c.close == 2.0);
		}
		let r = ind.next(&c);
		if what == "values" {
			rsx::close("rsi.avg_down_is_minus_avg_of_negative_part", ad, ad2, 64.0);
			let rsi = if au == 0.0 && ad2 == 0.0 { 0.5 } else { au / (au + ad2) };
			rsx::check("rsi.nvalues", r.values().len() == 1);
			rsx::close("rsi.value", r.value(0), rsi, 64.0);
		}
		if what == "signals" {
			let v = r.value(0);
			let du = v - (1.0 - zone);
			let dl = v - zone;
			let xu = r_cross(prev_du, du);
			let xl = r_cross(prev_dl, dl);
			rsx::check("rsi.nsignals", r.signals().len() == 2);
			// #1 enters the over-zone: crosses the upper zone upwards => sell, the lower zone downwards => buy
			rsx::check("rsi.signal.enter_zone", r.signal(0) == r_action(c05j_b2i(xl < 0) - c05j_b2i(xu > 0)));
			// #2 leaves the over-zone: crosses the upper zone downwards => sell, the lower zone upwards => buy
			rsx::check("rsi.signal.leave_zone", r.signal(1) == r_action(c05j_b2i(xl > 0) - c05j_b2i(xu < 0)));
			prev_du = du;
			prev_dl = dl;
		}
		if what == "ranges" {
			rsx::check("rsi.range.ge0", r.value(0) >= 0.0);
			rsx::check("rsi.range.le1", r.value(0) <= 1.0);
		}
	}
}

// ------------------------------------------------------------------------------------------------
// StochasticOscillator: %K raw = (close - LL)/(HH - LL) over the last `period` candles, 1/2 on a zero
// range; main = MA1(%K raw), signal line = MA2(main); both averages start from the %K of the first candle.
pub fn c05_stochastic_oscillator() {
	let what = rsx::param_str("what");
	let kind = rsx::param_str("ma");
	let t = rsx::param("t") as usize;
	let period = rsx::param("period") as usize;
	let (p1, p2) = (2, 2);
	let zone = 0.2;
	let cfg = StochasticOscillator { period: period as yata::core::PeriodType, ma: ma_by_name(&kind, p1), signal: ma_by_name(&kind, p2), zone };
	let c0 = valid_candle_i(1000);
	let mut ind = cfg.init(&c0).unwrap();
	let k0 = if c0.high == c0.low { 0.5 } else { (c0.close - c0.low) / (c0.high - c0.low) };
	let mut ma1 = ma_by_name(&kind, p1).init(k0).unwrap();
	let mut ma2 = ma_by_name(&kind, p2).init(k0).unwrap();
	let mut highs = c05j_hist(period, c0.high);
	let mut lows = c05j_hist(period, c0.low);
	let mut hi_m = yata::methods::Highest::new(period as yata::core::PeriodType, &c0.high).unwrap();
	let mut lo_m = yata::methods::Lowest::new(period as yata::core::PeriodType, &c0.low).unwrap();
	if what == "ranges" {
		rsx::check("stochastic.k_raw.in_unit_interval", k0 >= 0.0 && k0 <= 1.0);
		rsx::assume(k0 >= 0.0 && k0 <= 1.0);
	}
	// all crossing detectors start from a zero difference
	let (mut pl1, mut pu1, mut pl2, mut pu2, mut px) = (0.0, 0.0, 0.0, 0.0, 0.0);
	for i in 0..t {
		let c = valid_candle_i(i);
		let r = ind.next(&c);
		highs.push(c.high);
		lows.push(c.low);
		if what == "values" {
			// extrema: the crate's Highest/Lowest trackers, proved equal to the maximum / minimum of the explicit window
			// (linear lemma); %K is then written over the trackers' outputs so that the solver compares equal divisions
			let hh = hi_m.next(&c.high);
			let ll = lo_m.next(&c.low);
			rsx::close("stochastic.highest_high_is_window_max", hh, r_highest(r_last(&highs, period)), 64.0);
			rsx::close("stochastic.lowest_low_is_window_min", ll, r_lowest(r_last(&lows, period)), 64.0);
			let k = if hh == ll { 0.5 } else { (c.close - ll) / (hh - ll) };
			let main = ma1.next(&k);
			let sig = ma2.next(&main);
			rsx::check("stochastic.nvalues", r.values().len() == 2);
			rsx::close("stochastic.main", r.value(0), main, 64.0);
			rsx::close("stochastic.signal_line", r.value(1), sig, 64.0);
		}
		if what == "signals" {
			let (f1, f2) = (r.value(0), r.value(1));
			let (dl1, du1, dl2, du2, dx) = (f1 - zone, f1 - (1.0 - zone), f2 - zone, f2 - (1.0 - zone), f1 - f2);
			rsx::check("stochastic.nsignals", r.signals().len() == 3);
			// #1 main crosses the lower bound upwards => buy, the upper bound downwards => sell
			rsx::check("stochastic.signal.main_zone", r.signal(0) == r_action(c05j_b2i(r_cross(pl1, dl1) > 0) - c05j_b2i(r_cross(pu1, du1) < 0)));
			// #2 the same for the signal line
			rsx::check("stochastic.signal.sigline_zone", r.signal(1) == r_action(c05j_b2i(r_cross(pl2, dl2) > 0) - c05j_b2i(r_cross(pu2, du2) < 0)));
			// #3 main crosses the signal line
			rsx::check("stochastic.signal.cross_signal_line", r.signal(2) == r_action(r_cross(px, dx)));
			pl1 = dl1;
			pu1 = du1;
			pl2 = dl2;
			pu2 = du2;
			px = dx;
		}
		if what == "ranges" {
			// step lemma, checked and then used: %K raw (written over the crate's trackers, as in "values") lies in [0, 1]
			// because low <= close <= high; the averages of such values are then bounded by linear reasoning
			let hh = hi_m.next(&c.high);
			let ll = lo_m.next(&c.low);
			let k = if hh == ll { 0.5 } else { (c.close - ll) / (hh - ll) };
			rsx::check("stochastic.k_raw.in_unit_interval", k >= 0.0 && k <= 1.0);
			rsx::assume(k >= 0.0 && k <= 1.0);
			rsx::check("stochastic.main.ge0", r.value(0) >= 0.0);
			rsx::check("stochastic.main.le1", r.value(0) <= 1.0);
			rsx::check("stochastic.signal_line.ge0", r.value(1) >= 0.0);
			rsx::check("stochastic.signal_line.le1", r.value(1) <= 1.0);
		}
	}
}

// ------------------------------------------------------------------------------------------------
// TSI (Wikipedia, quoted in src/methods/tsi.rs): m = x - x_prev;
// TSI = EMA(EMA(m, long), short) / EMA(EMA(|m|, long), short), all averages start from 0; 0 while the
// denominator is 0.
// The four exponential averages are the crate's EMA (their recurrence is C03); the harness decides the wiring.
struct C05jTsi {
	prev: ValueType,
	e11: yata::methods::EMA,
	e12: yata::methods::EMA,
	e21: yata::methods::EMA,
	e22: yata::methods::EMA,
	num: ValueType,
	den: ValueType,
}
fn c05j_tsi_new(short: usize, long: usize, x0: ValueType) -> C05jTsi {
	use yata::methods::EMA;
	let (s, l) = (short as yata::core::PeriodType, long as yata::core::PeriodType);
	C05jTsi { prev: x0, e11: EMA::new(l, &0.0).unwrap(), e12: EMA::new(s, &0.0).unwrap(), e21: EMA::new(l, &0.0).unwrap(), e22: EMA::new(s, &0.0).unwrap(), num: 0.0, den: 0.0 }
}
fn c05j_tsi_next(s: &mut C05jTsi, x: ValueType) -> ValueType {
	let m = x - s.prev;
	s.prev = x;
	let a = s.e11.next(&m);
	let num = s.e12.next(&a);
	let b = s.e21.next(&r_abs(m));
	let den = s.e22.next(&b);
	s.num = num;
	s.den = den;
	if den > 0.0 {
		num / den
	} else {
		0.0
	}
}
/// ranges aspect, step lemma (linear, checked and then used): the smoothed momentum is bounded by the smoothed absolute
/// momentum, |numerator| <= denominator; the quotient bound then needs one division step only
fn c05j_tsi_lemma(label: &str, s: &mut C05jTsi, x: ValueType) {
	let _ = c05j_tsi_next(s, x);
	let ok = s.num <= s.den && -s.num <= s.den;
	rsx::check(label, ok);
	rsx::assume(ok);
}

// TrueStrengthIndex: main = TSI(short = period2, long = period1) of the source, signal line = EMA(period3)
// of main starting from 0.
pub fn c05_true_strength_index() {
	let what = rsx::param_str("what");
	let t = rsx::param("t") as usize;
	let (p1, p2, p3) = (3, 2, 2);
	let zone = 0.25;
	let cfg = TrueStrengthIndex { period1: p1 as yata::core::PeriodType, period2: p2 as yata::core::PeriodType, period3: p3 as yata::core::PeriodType, zone, source: Source::Close };
	let c0 = valid_candle_i(1000);
	let mut ind = cfg.init(&c0).unwrap();
	let mut tsi = c05j_tsi_new(p2, p1, c0.close);
	let mut sig = yata::methods::EMA::new(p3 as yata::core::PeriodType, &0.0).unwrap();
	let (mut pz_lo, mut pz_up, mut p0, mut px) = (0.0, 0.0, 0.0, 0.0);
	for i in 0..t {
		let c = valid_candle_i(i);
		let r = ind.next(&c);
		if what == "values" {
			let v = c05j_tsi_next(&mut tsi, c.close);
			let s = sig.next(&v);
			rsx::check("true_strength.nvalues", r.values().len() == 2);
			rsx::close("true_strength.main", r.value(0), v, 64.0);
			rsx::close("true_strength.signal_line", r.value(1), s, 64.0);
		}
		if what == "signals" {
			let (v, s) = (r.value(0), r.value(1));
			let (d_lo, d_up, d0, dx) = (v + zone, v - zone, v, v - s);
			rsx::check("true_strength.nsignals", r.signals().len() == 3);
			// #1 crosses the upper zone upwards => sell, crosses -zone downwards => buy
			rsx::check("true_strength.signal.zone", r.signal(0) == r_action(c05j_b2i(r_cross(pz_lo, d_lo) < 0) - c05j_b2i(r_cross(pz_up, d_up) > 0)));
			rsx::check("true_strength.signal.cross_zero", r.signal(1) == r_action(r_cross(p0, d0)));
			rsx::check("true_strength.signal.cross_signal_line", r.signal(2) == r_action(r_cross(px, dx)));
			pz_lo = d_lo;
			pz_up = d_up;
			p0 = d0;
			px = dx;
		}
		if what == "ranges" {
			c05j_tsi_lemma("true_strength.lemma.abs_numerator_le_denominator", &mut tsi, c.close);
			rsx::check("true_strength.main.ge_m1", r.value(0) >= -1.0);
			rsx::check("true_strength.main.le_1", r.value(0) <= 1.0);
			// just checked on this path: usable for the later steps (the signal line averages these values)
			rsx::assume(r.value(0) >= -1.0 && r.value(0) <= 1.0);
			rsx::check("true_strength.signal_line.ge_m1", r.value(1) >= -1.0);
			rsx::check("true_strength.signal_line.le_1", r.value(1) <= 1.0);
		}
	}
}

// SMIErgodicIndicator: SMI = TSI(short = period2, long = period1), signal line = MA(SMI) starting from 0,
// oscillator = SMI - signal line.
pub fn c05_smi_ergodic_indicator() {
	let what = rsx::param_str("what");
	let kind = rsx::param_str("ma");
	let t = rsx::param("t") as usize;
	let (p1, p2, p3) = (3, 2, 2);
	let zone = 0.2;
	let cfg = SMIErgodicIndicator { period1: p1 as yata::core::PeriodType, period2: p2 as yata::core::PeriodType, signal: ma_by_name(&kind, p3), zone, source: Source::Close };
	let c0 = valid_candle_i(1000);
	let mut ind = cfg.init(&c0).unwrap();
	let mut tsi = c05j_tsi_new(p2 as usize, p1 as usize, c0.close);
	let mut ma = ma_by_name(&kind, p3).init(0.0).unwrap();
	let mut px = 0.0;
	for i in 0..t {
		let c = valid_candle_i(i);
		let r = ind.next(&c);
		if what == "values" {
			let v = c05j_tsi_next(&mut tsi, c.close);
			let s = ma.next(&v);
			rsx::check("smi_ergodic.nvalues", r.values().len() == 3);
			rsx::close("smi_ergodic.smi", r.value(0), v, 64.0);
			rsx::close("smi_ergodic.signal_line", r.value(1), s, 64.0);
			rsx::close("smi_ergodic.oscillator", r.value(2), v - s, 64.0);
		}
		if what == "signals" {
			let (v, s) = (r.value(0), r.value(1));
			let dx = v - s;
			let x = r_cross(px, dx);
			rsx::check("smi_ergodic.nsignals", r.signals().len() == 1);
			// signal line below -zone and SMI crosses it upwards => buy; above +zone and crosses downwards => sell
			rsx::check("smi_ergodic.signal.zone_cross", r.signal(0) == r_action(c05j_b2i(x > 0 && s < -zone) - c05j_b2i(x < 0 && s > zone)));
			px = dx;
		}
		if what == "ranges" {
			c05j_tsi_lemma("smi_ergodic.lemma.abs_numerator_le_denominator", &mut tsi, c.close);
			rsx::check("smi_ergodic.smi.ge_m1", r.value(0) >= -1.0);
			rsx::check("smi_ergodic.smi.le_1", r.value(0) <= 1.0);
			rsx::assume(r.value(0) >= -1.0 && r.value(0) <= 1.0);
			rsx::check("smi_ergodic.signal_line.ge_m1", r.value(1) >= -1.0);
			rsx::check("smi_ergodic.signal_line.le_1", r.value(1) <= 1.0);
			rsx::check("smi_ergodic.oscillator.ge_m2", r.value(2) >= -2.0);
			rsx::check("smi_ergodic.oscillator.le_2", r.value(2) <= 2.0);
		}
	}
}

// ------------------------------------------------------------------------------------------------
// RelativeVigorIndex (Investopedia): NUMERATOR = symmetric-weighted average (1,2,2,1) of (close - open),
// DENOMINATOR = the same of (high - low), RVI = SMA(NUMERATOR, period1) / SMA(DENOMINATOR, period1),
// signal line = MA(RVI). param def = "published": numerator input close - open;
// def = "close_to_close": close - previous close (what the crate computes; variable still named close_open).
fn c05j_swma_sma(h: &[ValueType], p_sma: usize, p_swma: usize) -> ValueType {
	// mean over the last p_sma positions of the symmetric-weighted average of length p_swma
	let mut s = 0.0;
	for j in 0..p_sma {
		let end = h.len() - j;
		s += r_swma(&h[end - p_swma..end]);
	}
	s / (p_sma as ValueType)
}
pub fn c05_relative_vigor_index() {
	let what = rsx::param_str("what");
	let kind = rsx::param_str("ma");
	let def = rsx::param_str("def");
	let t = rsx::param("t") as usize;
	let p1 = rsx::param("p1") as usize;
	let p2 = rsx::param("p2") as usize;
	let p3 = 2;
	let zone = 0.25;
	let cfg = RelativeVigorIndex { period1: p1 as yata::core::PeriodType, period2: p2 as yata::core::PeriodType, signal: ma_by_name(&kind, p3), zone };
	let c0 = valid_candle_i(1000);
	let mut ind = cfg.init(&c0).unwrap();
	// prehistory: no vigor (0) and the range of the first candle
	let mut num_h = c05j_hist(p1 + p2, 0.0);
	let mut den_h = c05j_hist(p1 + p2, c0.high - c0.low);
	let mut sig = ma_by_name(&kind, p3).init(0.0).unwrap();
	let (pp1, pp2) = (p1 as yata::core::PeriodType, p2 as yata::core::PeriodType);
	let hl0 = c0.high - c0.low;
	let mut swma_n = yata::methods::SWMA::new(pp2, &0.0).unwrap();
	let mut sma_n = yata::methods::SMA::new(pp1, &0.0).unwrap();
	let mut swma_d = yata::methods::SWMA::new(pp2, &hl0).unwrap();
	let mut sma_d = yata::methods::SMA::new(pp1, &hl0).unwrap();
	let mut prev_close = c0.close;
	let mut px = 0.0;
	for i in 0..t {
		let c = valid_candle_i(i);
		let r = ind.next(&c);
		if what == "values" {
			if def == "published" {
				num_h.push(c.close - c.open);
			} else {
				num_h.push(c.close - prev_close);
			}
			prev_close = c.close;
			den_h.push(c.high - c.low);
			// numerator / denominator from the crate's SWMA -> SMA chains, proved equal to the explicit window formulas
			// (linear lemmas); the quotient is written over the chains so that the solver compares equal divisions
			let a = num_h[num_h.len() - 1];
			let b = den_h[den_h.len() - 1];
			let num = sma_n.next(&swma_n.next(&a));
			let den = sma_d.next(&swma_d.next(&b));
			rsx::close("rvi.numerator_is_sma_of_swma_window", num, c05j_swma_sma(&num_h, p1, p2), 64.0);
			rsx::close("rvi.denominator_is_sma_of_swma_window", den, c05j_swma_sma(&den_h, p1, p2), 64.0);
			let rvi = if den == 0.0 { 0.0 } else { num / den };
			let s = sig.next(&rvi);
			rsx::check("rvi.nvalues", r.values().len() == 2);
			rsx::close("rvi.main", r.value(0), rvi, 64.0);
			rsx::close("rvi.signal_line", r.value(1), s, 64.0);
		}
		if what == "signals" {
			let (v, s) = (r.value(0), r.value(1));
			let dx = v - s;
			let x = r_cross(px, dx);
			rsx::check("rvi.nsignals", r.signals().len() == 2);
			rsx::check("rvi.signal.cross_signal_line", r.signal(0) == r_action(x));
			// #2 documented: main below -zone and crosses upwards => buy; above +zone and crosses downwards => sell
			rsx::check("rvi.signal.zone_cross", r.signal(1) == r_action(c05j_b2i(x > 0 && v < -zone) - c05j_b2i(x < 0 && v > zone)));
			// weaker: a zone signal never contradicts the direction of the crossing it reports
			rsx::check("rvi.signal.zone_cross_direction", r.signal(1) == Action::None || r.signal(1) == r_action(x));
			px = dx;
		}
		if what == "ranges" {
			// documented range of both values: [-0.5; 0.5]
			rsx::check("rvi.main.documented_range", r.value(0) >= -0.5 && r.value(0) <= 0.5);
			rsx::check("rvi.signal_line.documented_range", r.value(1) >= -0.5 && r.value(1) <= 0.5);
		}
	}
}

// ------------------------------------------------------------------------------------------------
// Trix (Wikipedia): triple exponential smoothing of the source (three chained EMAs of one period, all
// started from the first source value); TRIX = 1-period PERCENT rate of change of it:
// (TMA_t - TMA_{t-1}) / TMA_{t-1} (def = "published"); the crate returns the plain difference
// TMA_t - TMA_{t-1} (def = "difference"). Signal line = MA(TRIX) starting from 0.
pub fn c05_trix() {
	let what = rsx::param_str("what");
	let kind = rsx::param_str("ma");
	let def = rsx::param_str("def");
	let t = rsx::param("t") as usize;
	let (p1, p2) = (3, 2);
	let cfg = Trix { period1: p1 as yata::core::PeriodType, signal: ma_by_name(&kind, p2), source: Source::Close };
	let c0 = valid_candle_i(1000);
	let mut ind = cfg.init(&c0).unwrap();
	let (mut e1, mut e2, mut e3) = (c0.close, c0.close, c0.close);
	let mut sig = ma_by_name(&kind, p2).init(0.0).unwrap();
	let (mut px, mut p0) = (0.0, 0.0);
	// prehistory of the returned values for the direction-change rule: the TRIX of a constant history is 0
	let mut vals = c05j_hist(2, 0.0);
	for i in 0..t {
		let c = valid_candle_i(i);
		if what == "signals" {
			c05j_first_is_init(i, &c, &c0);
		}
		let r = ind.next(&c);
		if what == "values" {
			let prev3 = e3;
			e1 = c05j_ema(e1, c.close, p1);
			e2 = c05j_ema(e2, e1, p1);
			e3 = c05j_ema(e3, e2, p1);
			let v = if def == "published" { (e3 - prev3) / prev3 } else { e3 - prev3 };
			let s = sig.next(&v);
			rsx::check("trix.nvalues", r.values().len() == 2);
			rsx::close("trix.main", r.value(0), v, 64.0);
			rsx::close("trix.signal_line", r.value(1), s, 64.0);
		}
		if what == "signals" {
			let (v, s) = (r.value(0), r.value(1));
			vals.push(v);
			let n = vals.len();
			let (older, pivot, newer) = (vals[n - 3], vals[n - 2], vals[n - 1]);
			// #1 main value changes direction: the previous value is a local minimum => buy, a local maximum => sell
			// (tie rule of ReversalSignal(1,1): pivot <= older and pivot < newer; known one step later)
			let lo = pivot <= older && pivot < newer;
			let hi = pivot >= older && pivot > newer;
			rsx::check("trix.nsignals", r.signals().len() == 3);
			if i >= 3 {
				rsx::check("trix.signal.direction_change", r.signal(0) == r_action(c05j_b2i(lo) - c05j_b2i(hi)));
			} else if i >= 1 {
				// steps 2 and 3: the detector's window (3 values) still contains the prehistory (0, the TRIX of a constant history)
				rsx::check("trix.signal.direction_change_startup", r.signal(0) == r_action(c05j_b2i(lo) - c05j_b2i(hi)));
			} else {
				rsx::check("trix.signal.direction_change_first", r.signal(0) == Action::None);
			}
			let dx = v - s;
			rsx::check("trix.signal.cross_signal_line", r.signal(1) == r_action(r_cross(px, dx)));
			rsx::check("trix.signal.cross_zero", r.signal(2) == r_action(r_cross(p0, v)));
			px = dx;
			p0 = v;
		}
	}
}

// ------------------------------------------------------------------------------------------------
// TrendStrengthIndex: no formula is published ("seen somewhere a long time ago"); documented: an oscillator in
// [-1, 1]. Asserted (read from the code): Pearson correlation coefficient between the last `period` source
// values and their time index 1..period; 0 when the window has no variance.
pub fn c05_trend_strength_index() {
	let what = rsx::param_str("what");
	let t = rsx::param("t") as usize;
	let period = rsx::param("period") as usize;
	let off = rsx::param("offset") as usize;
	let zone = 0.75;
	let cfg = TrendStrengthIndex { period: period as yata::core::PeriodType, zone, reverse_offset: off as yata::core::PeriodType, source: Source::Close };
	let grid = rsx::param("grid");
	let c0 = valid_candle_i(1000);
	c05j_on_grid(&c0, grid);
	let mut ind = cfg.init(&c0).unwrap();
	let mut h = c05j_hist(period, c0.close);
	// previous value 0 for the zone crossings; prehistory 0 for the direction change
	let (mut pu, mut pl) = (0.0 - zone, 0.0 + zone);
	let mut vals = c05j_hist(4, 0.0);
	let n = period as ValueType;
	for i in 0..t {
		let c = valid_candle_i(i);
		c05j_on_grid(&c, grid);
		if what == "signals" {
			c05j_first_is_init(i, &c, &c0);
		}
		let r = ind.next(&c);
		h.push(c.close);
		if what == "values" {
			let w = r_last(&h, period);
			let (mut sx, mut sy, mut sxy, mut sxx, mut syy) = (0.0, 0.0, 0.0, 0.0, 0.0);
			for k in 0..period {
				let x = (k + 1) as ValueType;
				sx += x;
				sy += w[k];
				sxy += x * w[k];
				sxx += x * x;
				syy += w[k] * w[k];
			}
			let cov = sxy - sx * sy / n;
			let varx = sxx - sx * sx / n;
			let vary = syy - sy * sy / n;
			let v = r.value(0);
			rsx::check("trend_strength.nvalues", r.values().len() == 1);
			// v = cov / sqrt(varx * vary), compared without the root: same sign and equal squares
			if vary > 0.0 {
				rsx::close("trend_strength.value.squared", v * v * (varx * vary), cov * cov, 4096.0);
				rsx::check("trend_strength.value.sign", (v > 0.0) == (cov > 0.0) && (v < 0.0) == (cov < 0.0));
			} else {
				rsx::check("trend_strength.value.flat_window", v == 0.0);
			}
		}
		if what == "signals" {
			let v = r.value(0);
			vals.push(v);
			let m = vals.len();
			let (du, dl) = (v - zone, v + zone);
			rsx::check("trend_strength.nsignals", r.signals().len() == 2);
			// #1 documented: crosses the upper zone downwards => full negative; crosses the lower zone upwards => full positive
			rsx::check("trend_strength.signal.zone_cross", r.signal(0) == r_action(c05j_b2i(r_cross(pl, dl) > 0) - c05j_b2i(r_cross(pu, du) < 0)));
			// #2 documented: main value below the lower zone and changes direction upwards => positive; above the upper zone and
			// changes direction downwards => negative. Direction change = pivot of ReversalSignal(1,2): the value two steps
			// back is <= its predecessor and < both successors; "main value" = the value at the pivot
			if i >= 2 {
				let (older, pivot, n1, n2) = (vals[m - 4], vals[m - 3], vals[m - 2], vals[m - 1]);
				let lo = pivot <= older && pivot < n1 && pivot < n2;
				let hi = pivot >= older && pivot > n1 && pivot > n2;
				let want = r_action(c05j_b2i(lo && pivot <= -zone) - c05j_b2i(hi && pivot >= zone));
				let dir = r_action(c05j_b2i(lo) - c05j_b2i(hi));
				if i >= 4 {
					rsx::check("trend_strength.signal.reverse_in_zone", r.signal(1) == want);
					// weaker claim: a signal is never opposite to the direction change it reports
					rsx::check("trend_strength.signal.reverse_direction", r.signal(1) == Action::None || r.signal(1) == dir);
				} else {
					// the detector's window (4 values) still contains the prehistory
					rsx::check("trend_strength.signal.reverse_in_zone_startup", r.signal(1) == want);
					rsx::check("trend_strength.signal.reverse_direction_startup", r.signal(1) == Action::None || r.signal(1) == dir);
				}
			}
			pu = du;
			pl = dl;
		}
		if what == "ranges" {
			rsx::check("trend_strength.range.ge_m1", r.value(0) >= -1.0);
			rsx::check("trend_strength.range.le_1", r.value(0) <= 1.0);
		}
	}
}

// ------------------------------------------------------------------------------------------------
// WoodiesCCI: CCI(n) = (x - SMA_n(x)) / (0.015 * MeanAbsDev_n(x)) (the links' definition), here in units of 100
// (factor 1/1.5 instead of 1/0.015), 0 when the mean deviation is 0; turbo = CCI(period1), trend = CCI(period2).
/// (mean, mean absolute deviation) of a window
fn c05j_mean_mad(w: &[ValueType]) -> (ValueType, ValueType) {
	let m = r_mean(w);
	let mut d = 0.0;
	for a in w {
		d += r_abs(*a - m);
	}
	(m, d / (w.len() as ValueType))
}
/// one CCI value in units of 100; the mean and the mean deviation come from the crate's MeanAbsDev/SMA pair and are
/// proved equal to the window formulas (linear lemmas) so that the divisions compared are syntactically equal
fn c05j_cci_step(label_mean: &str, label_mad: &str, m: &mut yata::methods::MeanAbsDev, w: &[ValueType]) -> ValueType {
	use yata::helpers::Peekable;
	let x = w[w.len() - 1];
	let mad = m.next(&x);
	let mean = m.get_sma().peek();
	let (rm, rd) = c05j_mean_mad(w);
	rsx::close(label_mean, mean, rm, 64.0);
	rsx::close(label_mad, mad, rd, 64.0);
	if mad > 0.0 {
		(x - mean) / mad / 1.5
	} else {
		0.0
	}
}
pub fn c05_woodies_cci() {
	let what = rsx::param_str("what");
	let t = rsx::param("t") as usize;
	let lag = rsx::param("lag") as usize;
	let (p1, p2) = (2, 3);
	let cfg = WoodiesCCI { period1: p1 as yata::core::PeriodType, period2: p2 as yata::core::PeriodType, s1_lag: lag as yata::core::PeriodType, source: Source::Close };
	let c0 = valid_candle_i(1000);
	let mut ind = cfg.init(&c0).unwrap();
	let mut h = c05j_hist(p2, c0.close);
	let mut mad1 = yata::methods::MeanAbsDev::new(p1 as yata::core::PeriodType, &c0.close).unwrap();
	let mut mad2 = yata::methods::MeanAbsDev::new(p2 as yata::core::PeriodType, &c0.close).unwrap();
	let mut p0 = 0.0;
	let mut count: i64 = 0;
	for i in 0..t {
		let c = valid_candle_i(i);
		let r = ind.next(&c);
		h.push(c.close);
		if what == "values" {
			rsx::check("woodies_cci.nvalues", r.values().len() == 2);
			let turbo = c05j_cci_step("woodies_cci.turbo.mean", "woodies_cci.turbo.mean_abs_dev", &mut mad1, r_last(&h, p1));
			let trend = c05j_cci_step("woodies_cci.trend.mean", "woodies_cci.trend.mean_abs_dev", &mut mad2, r_last(&h, p2));
			rsx::close("woodies_cci.turbo", r.value(0), turbo, 64.0);
			rsx::close("woodies_cci.trend", r.value(1), trend, 64.0);
		}
		if what == "signals" {
			// documented: trend CCI stays above (below) zero for s1_lag bars => full buy (sell), otherwise none.
			// Counter (as in the code): a crossing of zero restarts it at +-1, otherwise it moves by the sign of trend CCI;
			// the signal is due on the bar where the counter reaches +-s1_lag
			let tr = r.value(1);
			let x = r_cross(p0, tr);
			p0 = tr;
			if x != 0 {
				count = x as i64;
			} else if tr > 0.0 {
				count += 1;
			} else if tr < 0.0 {
				count -= 1;
			}
			let due = c05j_b2i(count == lag as i64) - c05j_b2i(count == -(lag as i64));
			rsx::check("woodies_cci.nsignals", r.signals().len() == 1);
			rsx::check("woodies_cci.signal.stays_for_lag_bars", r.signal(0) == r_action(due));
		}
	}
}
