//! C04 — extremum / arg-extremum / median methods are exact selections (fp mode: order patterns
//! including signed zeros; values compared numerically, indices exactly).
use crate::reflib::*;
use crate::rsx;
use yata::core::{Method, PeriodType, ValueType};
use yata::helpers::Peekable;
use yata::methods::*;

fn c04_params() -> (PeriodType, usize) {
	(rsx::param("n") as PeriodType, rsx::param("t") as usize)
}

pub fn c04_smm() {
	let (n, t) = c04_params();
	let v0 = rsx::val("v0");
	let mut m = SMM::new(n, &v0).unwrap();
	let mut hist: Vec<ValueType> = vec![v0; n as usize];
	for i in 0..t {
		let x = rsx::val_i("x", i);
		hist.push(x);
		let y = m.next(&x);
		let r = r_median(r_last(&hist, n as usize));
		rsx::check("smm.next", y == r);
		rsx::check("smm.peek", m.peek() == r);
	}
}

pub fn c04_highest() {
	let (n, t) = c04_params();
	let v0 = rsx::val("v0");
	let mut m = Highest::new(n, &v0).unwrap();
	let mut hist: Vec<ValueType> = vec![v0; n as usize];
	for i in 0..t {
		let x = rsx::val_i("x", i);
		hist.push(x);
		let y = m.next(&x);
		let r = r_highest(r_last(&hist, n as usize));
		rsx::check("highest.next", y == r);
		rsx::check("highest.peek", m.peek() == r);
	}
}

pub fn c04_lowest() {
	let (n, t) = c04_params();
	let v0 = rsx::val("v0");
	let mut m = Lowest::new(n, &v0).unwrap();
	let mut hist: Vec<ValueType> = vec![v0; n as usize];
	for i in 0..t {
		let x = rsx::val_i("x", i);
		hist.push(x);
		let y = m.next(&x);
		let r = r_lowest(r_last(&hist, n as usize));
		rsx::check("lowest.next", y == r);
		rsx::check("lowest.peek", m.peek() == r);
	}
}

pub fn c04_delta() {
	let (n, t) = c04_params();
	let v0 = rsx::val("v0");
	let mut m = HighestLowestDelta::new(n, &v0).unwrap();
	let mut hist: Vec<ValueType> = vec![v0; n as usize];
	for i in 0..t {
		let x = rsx::val_i("x", i);
		hist.push(x);
		let y = m.next(&x);
		let w = r_last(&hist, n as usize);
		let r = r_highest(w) - r_lowest(w);
		rsx::check("delta.next", y == r);
		rsx::check("delta.peek", m.peek() == r);
	}
}

pub fn c04_highest_index() {
	let (n, t) = c04_params();
	let v0 = rsx::val("v0");
	let mut m = HighestIndex::new(n, &v0).unwrap();
	let mut hist: Vec<ValueType> = vec![v0; n as usize];
	for i in 0..t {
		let x = rsx::val_i("x", i);
		hist.push(x);
		let y = m.next(&x);
		let r = r_highest_age(r_last(&hist, n as usize)) as PeriodType;
		rsx::check("highest_index.next", y == r);
		rsx::check("highest_index.peek", m.peek() == r);
	}
}

pub fn c04_lowest_index() {
	let (n, t) = c04_params();
	let v0 = rsx::val("v0");
	let mut m = LowestIndex::new(n, &v0).unwrap();
	let mut hist: Vec<ValueType> = vec![v0; n as usize];
	for i in 0..t {
		let x = rsx::val_i("x", i);
		hist.push(x);
		let y = m.next(&x);
		let r = r_lowest_age(r_last(&hist, n as usize)) as PeriodType;
		rsx::check("lowest_index.next", y == r);
		rsx::check("lowest_index.peek", m.peek() == r);
	}
}
