//! Indicator harnesses (C05 values / C06 signals / C12 ranges), group H:
//! DonchianChannel, IchimokuCloud, Envelopes, CoppockCurve, DetrendedPriceOscillator, EaseOfMovement,
//! EldersForceIndex, FisherTransform, HullMovingAverage.
//! Convention for the history: the instance is built on candle #1000 and behaves as if that candle
//! had been repeated for ever before step 0 (the crate's documented convention for windows).
use crate::reflib::*;
use crate::rsx;
use yata::core::{Action, Candle, IndicatorConfig, IndicatorInstance, Method, MovingAverageConstructor, PeriodType, Source, ValueType, OHLCV};
use yata::indicators::*;

/// source selector by job parameter
fn c05h_source(name: &str) -> Source {
	match name {
		"close" => Source::Close,
		"open" => Source::Open,
		"high" => Source::High,
		"low" => Source::Low,
		"hl2" => Source::HL2,
		"tp" => Source::TP,
		_ => Source::Volume,
	}
}
/// the documented meaning of the source kinds, written on the candle fields
fn c05h_src(c: &Candle, name: &str) -> ValueType {
	match name {
		"close" => c.close,
		"open" => c.open,
		"high" => c.high,
		"low" => c.low,
		"hl2" => (c.high + c.low) * 0.5,
		"tp" => (c.high + c.low + c.close) / 3.0,
		_ => c.volume,
	}
}
fn c05h_le(a: ValueType, b: ValueType) -> bool {
	a <= b
}

// ------------------------------------------------------------------------------------------
// Donchian channel: lowest low / highest high of the last `period` candles, middle = their mean
pub fn c05_donchian_channel() {
	let what = rsx::param_str("what");
	let t = rsx::param("t") as usize;
	let n = rsx::param("n") as usize;
	let cfg = DonchianChannel { period: n as PeriodType };
	let c0 = valid_candle_i(1000);
	let mut ind = cfg.init(&c0).unwrap();
	let mut hs: Vec<ValueType> = vec![c0.high; n];
	let mut ls: Vec<ValueType> = vec![c0.low; n];
	for i in 0..t {
		let c = valid_candle_i(i);
		let r = ind.next(&c);
		hs.push(c.high);
		ls.push(c.low);
		if what == "values" {
			let hi = r_highest(r_last(&hs, n));
			let lo = r_lowest(r_last(&ls, n));
			rsx::check("donchian.nvalues", r.values().len() == 3);
			rsx::check("donchian.lower_is_lowest_low", r.value(0) == lo);
			rsx::close("donchian.middle_is_mean_of_bounds", r.value(1), (hi + lo) * 0.5, 64.0);
			rsx::check("donchian.upper_is_highest_high", r.value(2) == hi);
		}
		if what == "signals" {
			// documented rule on the returned bounds: high hits upper -> buy, low hits lower -> sell, both -> none
			let up = c.high >= r.value(2);
			let dn = c.low <= r.value(0);
			let w = ((up && !dn) as i8) - ((dn && !up) as i8);
			rsx::check("donchian.nsignals", r.signals().len() == 1);
			rsx::check("donchian.signal.bound_hit", r.signal(0) == r_action(w));
		}
		if what == "ranges" {
			// the channel contains every high and low it is built from (the last n candles)
			let wh = r_last(&hs, n);
			let wl = r_last(&ls, n);
			for k in 0..n {
				rsx::check("donchian.range.high_le_upper", wh[k] <= r.value(2));
				rsx::check("donchian.range.lower_le_low", r.value(0) <= wl[k]);
			}
			rsx::check("donchian.range.lower_le_cur_low", r.value(0) <= c.low);
			rsx::check("donchian.range.cur_high_le_upper", c.high <= r.value(2));
			rsx::check("donchian.range.lower_le_middle", r.value(0) <= r.value(1));
			rsx::check("donchian.range.middle_le_upper", r.value(1) <= r.value(2));
		}
	}
}

// ------------------------------------------------------------------------------------------
// Ichimoku: tenkan = midpoint of the l1 window, kijun = midpoint of the l2 window,
// span A = (tenkan + kijun)/2 of m steps ago, span B = midpoint of the l3 window of m steps ago
fn c05h_mid(hs: &[ValueType], ls: &[ValueType], end: usize, n: usize) -> ValueType {
	(r_highest(&hs[end - n..end]) + r_lowest(&ls[end - n..end])) * 0.5
}
pub fn c05_ichimoku_cloud() {
	let what = rsx::param_str("what");
	let sname = rsx::param_str("src");
	let t = rsx::param("t") as usize;
	let l1 = rsx::param("l1") as usize;
	let l2 = rsx::param("l2") as usize;
	let l3 = rsx::param("l3") as usize;
	let m = rsx::param("m") as usize;
	let cfg = IchimokuCloud { l1: l1 as PeriodType, l2: l2 as PeriodType, l3: l3 as PeriodType, m: m as PeriodType, source: c05h_source(&sname) };
	let c0 = valid_candle_i(1000);
	let mut ind = cfg.init(&c0).unwrap();
	// prehistory long enough for the l3 window of m steps ago
	let pre = l3 + m;
	let mut hs: Vec<ValueType> = vec![c0.high; pre];
	let mut ls: Vec<ValueType> = vec![c0.low; pre];
	let mut prev_d1 = 0.0;
	let mut prev_d2 = 0.0;
	for i in 0..t {
		let c = valid_candle_i(i);
		let r = ind.next(&c);
		hs.push(c.high);
		ls.push(c.low);
		let end = hs.len();
		if what == "values" {
			let tenkan = c05h_mid(&hs, &ls, end, l1);
			let kijun = c05h_mid(&hs, &ls, end, l2);
			let past = end - m;
			let span_a = (c05h_mid(&hs, &ls, past, l1) + c05h_mid(&hs, &ls, past, l2)) * 0.5;
			let span_b = c05h_mid(&hs, &ls, past, l3);
			rsx::check("ichimoku.nvalues", r.values().len() == 4);
			rsx::close("ichimoku.tenkan_sen", r.value(0), tenkan, 64.0);
			rsx::close("ichimoku.kijun_sen", r.value(1), kijun, 64.0);
			rsx::close("ichimoku.senkou_span_a_displaced_m", r.value(2), span_a, 64.0);
			rsx::close("ichimoku.senkou_span_b_displaced_m", r.value(3), span_b, 64.0);
		}
		if what == "signals" {
			let src = c05h_src(&c, &sname);
			let (tenkan, kijun, sa, sb) = (r.value(0), r.value(1), r.value(2), r.value(3));
			let d1 = tenkan - kijun;
			let d2 = src - kijun;
			let above = src > sa && src > sb && sa > sb;
			let below = src < sa && src < sb && sa < sb;
			let x1 = r_cross(prev_d1, d1);
			let x2 = r_cross(prev_d2, d2);
			let w1 = ((above && x1 > 0) as i8) - ((below && x1 < 0) as i8);
			let w2 = ((above && x2 > 0) as i8) - ((below && x2 < 0) as i8);
			rsx::check("ichimoku.nsignals", r.signals().len() == 2);
			rsx::check("ichimoku.signal.tenkan_x_kijun_confirmed_by_cloud", r.signal(0) == r_action(w1));
			rsx::check("ichimoku.signal.source_x_kijun_confirmed_by_cloud", r.signal(1) == r_action(w2));
			prev_d1 = d1;
			prev_d2 = d2;
		}
		if what == "ranges" {
			// every line lies between the lowest low and the highest high of the candles it is built from
			let lo1 = r_lowest(&ls[end - l1..end]);
			let hi1 = r_highest(&hs[end - l1..end]);
			let lo2 = r_lowest(&ls[end - l2..end]);
			let hi2 = r_highest(&hs[end - l2..end]);
			let past = end - m;
			let lo3 = r_lowest(&ls[past - l3..past]);
			let hi3 = r_highest(&hs[past - l3..past]);
			let lo2p = r_lowest(&ls[past - l2..past]);
			let hi2p = r_highest(&hs[past - l2..past]);
			rsx::check("ichimoku.range.tenkan_in_l1_window", lo1 <= r.value(0) && r.value(0) <= hi1);
			rsx::check("ichimoku.range.kijun_in_l2_window", lo2 <= r.value(1) && r.value(1) <= hi2);
			rsx::check("ichimoku.range.span_a_in_displaced_l2_window", lo2p <= r.value(2) && r.value(2) <= hi2p);
			rsx::check("ichimoku.range.span_b_in_displaced_l3_window", lo3 <= r.value(3) && r.value(3) <= hi3);
		}
	}
}

// ------------------------------------------------------------------------------------------
// Envelopes: bounds = MA(source) * (1 +- k); third value = raw source2
pub fn c05_envelopes() {
	let what = rsx::param_str("what");
	let kind = rsx::param_str("ma");
	let s1 = rsx::param_str("src");
	let s2 = rsx::param_str("src2");
	let t = rsx::param("t") as usize;
	let p = 3;
	let k = 0.25;
	let cfg = Envelopes { ma: ma_by_name(&kind, p), k, source: c05h_source(&s1), source2: c05h_source(&s2) };
	let c0 = valid_candle_i(1000);
	let mut ind = cfg.init(&c0).unwrap();
	let mut ma = ma_by_name(&kind, p).init(c05h_src(&c0, &s1)).unwrap();
	for i in 0..t {
		let c = valid_candle_i(i);
		let r = ind.next(&c);
		let mid = ma.next(&c05h_src(&c, &s1));
		if what == "values" {
			rsx::check("envelopes.nvalues", r.values().len() == 3);
			// percentage envelope around the average: ma +- k * |ma| (= ma * (1 +- k) for a positive average)
			rsx::close("envelopes.upper_is_ma_plus_k_percent", r.value(0), mid + k * mid.abs(), 64.0);
			rsx::close("envelopes.lower_is_ma_minus_k_percent", r.value(1), mid - k * mid.abs(), 64.0);
			rsx::close("envelopes.raw_source2", r.value(2), c05h_src(&c, &s2), 64.0);
		}
		if what == "signals" {
			// rule asserted (code; the doc says "crosses"): source2 strictly above the upper bound -> full sell,
			// strictly below the lower bound -> full buy, as a level condition on every step
			let x = r.value(2);
			let w = ((x < r.value(1)) as i8) - ((x > r.value(0)) as i8);
			rsx::check("envelopes.nsignals", r.signals().len() == 1);
			rsx::check("envelopes.signal.outside_bounds", r.signal(0) == r_action(w));
		}
		if what == "ranges" {
			rsx::check("envelopes.range.upper_ge_middle", r.value(0) >= mid);
			rsx::check("envelopes.range.middle_ge_lower", mid >= r.value(1));
			rsx::check("envelopes.range.upper_ge_lower", r.value(0) >= r.value(1));
		}
	}
}

// ------------------------------------------------------------------------------------------
// reversal points (pivots) of a series. `x` = the whole series, oldest first, INCLUDING `pre` leading
// copies of the detector's construction value (the prehistory); `i` = index of the newest element.
// A top at position p = i - r: x[p] >= each of the l older elements and > each of the r newer ones
// (newest of equal extrema wins); bottoms mirrored. Only real elements (index >= pre) can be pivots.
// Result: +1 bottom (buy), -1 top (sell), 0 none.
fn c05h_pivot(x: &[ValueType], pre: usize, l: usize, r: usize) -> i8 {
	let i = x.len() - 1;
	if i < pre + r {
		return 0;
	}
	let p = i - r;
	let mut top = true;
	let mut bottom = true;
	let mut j = p - l;
	while j < p {
		top = top && x[p] >= x[j];
		bottom = bottom && x[p] <= x[j];
		j += 1;
	}
	let mut j = p + 1;
	while j <= i {
		top = top && x[p] > x[j];
		bottom = bottom && x[p] < x[j];
		j += 1;
	}
	(bottom as i8) - (top as i8)
}

/// What the detectors do during their first l + r + 1 steps (i <= l + r), stated as a rule: the history is
/// clipped at step 0 and, until it is exceeded (ties included), the construction value `p` stands in for the
/// first value: for tops v[0] is replaced by max(p, v[0]), for bottoms by min(p, v[0]). `v` = values from step 0.
/// Result = (bottom as action) - (top as action).
fn c05h_pivot_warmup_as_coded(v: &[ValueType], p: ValueType, l: usize, r: usize) -> Action {
	let i = v.len() - 1;
	if i < r {
		return Action::None;
	}
	let q = i - r;
	let lo = if q >= l { q - l } else { 0 };
	let mut yt: Vec<ValueType> = v.to_vec();
	let mut yb: Vec<ValueType> = v.to_vec();
	yt[0] = r_max(p, v[0]);
	yb[0] = r_min(p, v[0]);
	let mut top = true;
	let mut bottom = true;
	let mut j = lo;
	while j < q {
		top = top && yt[q] >= yt[j];
		bottom = bottom && yb[q] <= yb[j];
		j += 1;
	}
	let mut j = q + 1;
	while j <= i {
		top = top && yt[q] > yt[j];
		bottom = bottom && yb[q] < yb[j];
		j += 1;
	}
	// a top and a bottom can coincide here (both stand-ins at position 0): bottom minus top = Buy(0), not None
	r_action(bottom as i8) - r_action(top as i8)
}

// ------------------------------------------------------------------------------------------
// Coppock curve: MA1( ROC_long(src) + ROC_short(src) ), signal line = MA2(main), both averages start from 0
pub fn c05_coppock_curve() {
	let what = rsx::param_str("what");
	let kind = rsx::param_str("ma");
	let sname = rsx::param_str("src");
	let t = rsx::param("t") as usize;
	let warm = rsx::param("warm") != 0;
	let (p1, ps, long, short) = (3, 2, 3usize, 2usize);
	let left = rsx::param("l") as usize;
	let right = rsx::param("r") as usize;
	let cfg = CoppockCurve {
		ma1: ma_by_name(&kind, p1),
		s3_ma: ma_by_name(&kind, ps),
		period2: long as PeriodType,
		period3: short as PeriodType,
		s2_left: left as PeriodType,
		s2_right: right as PeriodType,
		source: c05h_source(&sname),
	};
	let c0 = valid_candle_i(1000);
	let mut ind = cfg.init(&c0).unwrap();
	let mut xs: Vec<ValueType> = vec![c05h_src(&c0, &sname); long];
	let mut ma1 = ma_by_name(&kind, p1).init(0.0).unwrap();
	let mut ma2 = ma_by_name(&kind, ps).init(0.0).unwrap();
	let pre = left + right + 1;
	let mut vh: Vec<ValueType> = vec![0.0; pre];
	let mut prev_d1 = 0.0;
	let mut prev_d3 = 0.0;
	for i in 0..t {
		let c = valid_candle_i(i);
		let r = ind.next(&c);
		let x = c05h_src(&c, &sname);
		xs.push(x);
		let e = xs.len() - 1;
		if what == "values" {
			let roc_long = (x - xs[e - long]) / xs[e - long];
			let roc_short = (x - xs[e - short]) / xs[e - short];
			let main = ma1.next(&(roc_long + roc_short));
			let sig = ma2.next(&main);
			rsx::check("coppock.nvalues", r.values().len() == 2);
			rsx::close("coppock.main_is_ma_of_sum_of_two_roc", r.value(0), main, 64.0);
			rsx::close("coppock.signal_line_is_ma_of_main", r.value(1), sig, 64.0);
		}
		if what == "signals" {
			let d1 = r.value(0);
			let d3 = r.value(0) - r.value(1);
			vh.push(r.value(0));
			rsx::check("coppock.nsignals", r.signals().len() == 3);
			rsx::check("coppock.signal.main_x_zero", r.signal(0) == r_action(r_cross(prev_d1, d1)));
			// direction of signal 2 is not documented (sentence cut off): asserted as in the code, bottom -> buy, top -> sell
			if i > left + right {
				rsx::check("coppock.signal.reversal_of_main", r.signal(1) == r_action(c05h_pivot(&vh, pre, left, right)));
			} else if warm {
				// clean rule (prehistory = construction value 0) during the warm-up: KNOWN to fail, see the report
				rsx::check("coppock.signal.reversal_of_main_warmup", r.signal(1) == r_action(c05h_pivot(&vh, pre, left, right)));
			} else {
				rsx::check("coppock.signal.reversal_of_main_warmup_as_coded", r.signal(1) == c05h_pivot_warmup_as_coded(&vh[pre..], 0.0, left, right));
			}
			rsx::check("coppock.signal.main_x_signal_line", r.signal(2) == r_action(r_cross(prev_d3, d3)));
			prev_d1 = d1;
			prev_d3 = d3;
		}
	}
}

// ------------------------------------------------------------------------------------------
// Detrended price oscillator: price (period/2 + 1) steps ago minus MA(period) of the price
pub fn c05_detrended_price_oscillator() {
	let what = rsx::param_str("what");
	let kind = rsx::param_str("ma");
	let sname = rsx::param_str("src");
	let t = rsx::param("t") as usize;
	let p = rsx::param("p") as usize;
	let cfg = DetrendedPriceOscillator { ma: ma_by_name(&kind, p as PeriodType), source: c05h_source(&sname) };
	let c0 = valid_candle_i(1000);
	let mut ind = cfg.init(&c0).unwrap();
	let lag = p / 2 + 1;
	let mut xs: Vec<ValueType> = vec![c05h_src(&c0, &sname); lag];
	let mut ma = ma_by_name(&kind, p as PeriodType).init(c05h_src(&c0, &sname)).unwrap();
	for i in 0..t {
		let c = valid_candle_i(i);
		let r = ind.next(&c);
		let x = c05h_src(&c, &sname);
		xs.push(x);
		let avg = ma.next(&x);
		if what == "values" {
			rsx::check("dpo.nvalues", r.values().len() == 1);
			rsx::check("dpo.nsignals", r.signals().len() == 0);
			rsx::close("dpo.past_price_minus_ma", r.value(0), xs[xs.len() - 1 - lag] - avg, 64.0);
		}
	}
}

// ------------------------------------------------------------------------------------------
// Ease of movement: MA( midpoint move * (high - low) / volume ), 0 for a bar without volume; MA starts from 0
pub fn c05_ease_of_movement() {
	let what = rsx::param_str("what");
	let kind = rsx::param_str("ma");
	let t = rsx::param("t") as usize;
	let p2 = rsx::param("p2") as usize;
	let p = 3;
	let cfg = EaseOfMovement { ma: ma_by_name(&kind, p), period2: p2 as PeriodType };
	let c0 = valid_candle_i(1000);
	let mut ind = cfg.init(&c0).unwrap();
	let mut cs: Vec<Candle> = vec![c0; p2];
	let mut ma = ma_by_name(&kind, p).init(0.0).unwrap();
	let mut prev_d = 0.0;
	for i in 0..t {
		let c = valid_candle_i(i);
		let r = ind.next(&c);
		cs.push(c);
		let pc = cs[cs.len() - 1 - p2];
		if what == "values" {
			let mid_move = (c.high + c.low) * 0.5 - (pc.high + pc.low) * 0.5;
			let raw = if c.volume == 0.0 { 0.0 } else { mid_move * (c.high - c.low) / c.volume };
			let v = ma.next(&raw);
			rsx::check("eom.nvalues", r.values().len() == 1);
			rsx::close("eom.ma_of_midpoint_move_times_range_over_volume", r.value(0), v, 4096.0);
		}
		if what == "signals" {
			let d = r.value(0);
			rsx::check("eom.nsignals", r.signals().len() == 1);
			rsx::check("eom.signal.x_zero", r.signal(0) == r_action(r_cross(prev_d, d)));
			prev_d = d;
		}
	}
}

// ------------------------------------------------------------------------------------------
// Elder's force index: MA( (src - src p2 steps ago) * volume ), MA starts from 0. For p2 > 1 the code
// multiplies by the SUM of the volumes of the last p2 candles (doc silent) - asserted as such.
pub fn c05_elders_force_index() {
	let what = rsx::param_str("what");
	let kind = rsx::param_str("ma");
	let sname = rsx::param_str("src");
	let t = rsx::param("t") as usize;
	let p2 = rsx::param("p2") as usize;
	let p = 3;
	let cfg = EldersForceIndex { ma: ma_by_name(&kind, p), period2: p2 as PeriodType, source: c05h_source(&sname) };
	let c0 = valid_candle_i(1000);
	let mut ind = cfg.init(&c0).unwrap();
	let mut xs: Vec<ValueType> = vec![c05h_src(&c0, &sname); p2];
	let mut vs: Vec<ValueType> = vec![c0.volume; p2];
	let mut ma = ma_by_name(&kind, p).init(0.0).unwrap();
	let mut prev_d = 0.0;
	for i in 0..t {
		let c = valid_candle_i(i);
		let r = ind.next(&c);
		let x = c05h_src(&c, &sname);
		xs.push(x);
		vs.push(c.volume);
		if what == "values" {
			let vol = r_sum(r_last(&vs, p2));
			let force = (x - xs[xs.len() - 1 - p2]) * vol;
			let v = ma.next(&force);
			rsx::check("efi.nvalues", r.values().len() == 1);
			rsx::close("efi.ma_of_price_change_times_volume", r.value(0), v, 4096.0);
		}
		if what == "signals" {
			let d = r.value(0);
			rsx::check("efi.nsignals", r.signals().len() == 1);
			rsx::check("efi.signal.x_zero", r.signal(0) == r_action(r_cross(prev_d, d)));
			prev_d = d;
		}
	}
}

// ------------------------------------------------------------------------------------------
// Fisher transform: x = position of src in the [lowest, highest] of the last period1 values mapped to
// [-1, 1] and clamped to +-0.999; value = atanh(x) + prev value / 2 (0 + prev/2 on a flat window);
// signal line = MA(value) from 0. (The doc gives FT = atanh(x); the recursion and the clamp follow the code.)
pub fn c05_fisher_transform() {
	let what = rsx::param_str("what");
	let kind = rsx::param_str("ma");
	let sname = rsx::param_str("src");
	let t = rsx::param("t") as usize;
	let n = rsx::param("n") as usize;
	let ps = 2;
	let zone = 1.5;
	let cfg = FisherTransform { period1: n as PeriodType, zone, signal: ma_by_name(&kind, ps), source: c05h_source(&sname) };
	let c0 = valid_candle_i(1000);
	let mut ind = cfg.init(&c0).unwrap();
	let mut xs: Vec<ValueType> = vec![c05h_src(&c0, &sname); n];
	let mut ma = ma_by_name(&kind, ps).init(0.0).unwrap();
	let mut prev = 0.0;
	// signal state re-implemented
	let mut prev_value = 0.0;
	let mut prev_drev = 0.0;
	let mut prev_dma = 0.0;
	let mut last_reverse: i8 = 0;
	for i in 0..t {
		let c = valid_candle_i(i);
		let r = ind.next(&c);
		let x = c05h_src(&c, &sname);
		xs.push(x);
		if what == "values" {
			let hi = r_highest(r_last(&xs, n));
			let lo = r_lowest(r_last(&xs, n));
			let ft = if hi == lo {
				0.0
			} else {
				let pos = ((x - lo) / (hi - lo)) * 2.0 - 1.0;
				pos.clamp(-0.999, 0.999).atanh()
			};
			let value = ft + prev * 0.5;
			let sig = ma.next(&value);
			rsx::check("fisher.nvalues", r.values().len() == 2);
			rsx::close("fisher.value_is_atanh_of_position_plus_half_prev", r.value(0), value, 64.0);
			rsx::close("fisher.signal_line_is_ma_of_value", r.value(1), sig, 64.0);
			prev = value;
		}
		if what == "signals" {
			// rules asserted (doc is vague; these follow the code):
			// s1 = value/zone as a proportional action when the value turns up (crosses its previous value upwards)
			//      while negative, or turns down while positive; otherwise strength 0
			// s2 = signal_line/zone when the value crosses the signal line in the direction of the last turn and
			//      the signal line is on the matching side of zero; otherwise strength 0
			let value = r.value(0);
			let sline = r.value(1);
			let drev = value - prev_value;
			let reverse = r_cross(prev_drev, drev);
			let on1 = (value < 0.0 && reverse > 0) || (value > 0.0 && reverse < 0);
			let w1 = value / zone * (on1 as i8 as ValueType);
			let dma = value - sline;
			let crossed = r_cross(prev_dma, dma);
			if reverse != 0 {
				last_reverse = reverse;
			}
			let on2 = (sline < 0.0 && last_reverse > 0 && crossed > 0) || (sline > 0.0 && last_reverse < 0 && crossed < 0);
			let w2 = sline / zone * (on2 as i8 as ValueType);
			rsx::check("fisher.nsignals", r.signals().len() == 2);
			rsx::check("fisher.signal.turn_against_sign", r.signal(0) == Action::from(w1));
			rsx::check("fisher.signal.x_signal_line_after_turn", r.signal(1) == Action::from(w2));
			prev_value = value;
			prev_drev = drev;
			prev_dma = dma;
		}
	}
}

// ------------------------------------------------------------------------------------------
// Hull moving average: WMA_sqrt(n)( 2*WMA_{n/2}(src) - WMA_n(src) ); signal = reversal points of the value
pub fn c05_hull_moving_average() {
	let what = rsx::param_str("what");
	let sname = rsx::param_str("src");
	let t = rsx::param("t") as usize;
	let n = rsx::param("n") as usize;
	let warm = rsx::param("warm") != 0;
	let left = rsx::param("l") as usize;
	let right = rsx::param("r") as usize;
	let cfg = HullMovingAverage { period: n as PeriodType, left: left as PeriodType, right: right as PeriodType, source: c05h_source(&sname) };
	let c0 = valid_candle_i(1000);
	let mut ind = cfg.init(&c0).unwrap();
	let mut s = 1;
	while (s + 1) * (s + 1) <= n {
		s += 1;
	}
	let x0 = c05h_src(&c0, &sname);
	let mut xs: Vec<ValueType> = vec![x0; n + s + 1];
	let pre = left + right + 1;
	let mut vh: Vec<ValueType> = vec![x0; pre];
	for i in 0..t {
		let c = valid_candle_i(i);
		let r = ind.next(&c);
		xs.push(c05h_src(&c, &sname));
		if what == "values" {
			let a = r_wma_series(&xs, n / 2, s);
			let b = r_wma_series(&xs, n, s);
			let mut d = Vec::new();
			for k in 0..s {
				d.push(2.0 * a[k] - b[k]);
			}
			rsx::check("hull.nvalues", r.values().len() == 1);
			rsx::close("hull.value_is_wma_of_2wma_half_minus_wma_full", r.value(0), r_wma(&d), 64.0);
		}
		if what == "signals" {
			vh.push(r.value(0));
			rsx::check("hull.nsignals", r.signals().len() == 1);
			if i > left + right {
				rsx::check("hull.signal.reversal_of_value", r.signal(0) == r_action(c05h_pivot(&vh, pre, left, right)));
			} else if warm {
				// clean rule (prehistory = construction value) during the warm-up: KNOWN to fail, see the report
				rsx::check("hull.signal.reversal_of_value_warmup", r.signal(0) == r_action(c05h_pivot(&vh, pre, left, right)));
			} else {
				rsx::check("hull.signal.reversal_of_value_warmup_as_coded", r.signal(0) == c05h_pivot_warmup_as_coded(&vh[pre..], x0, left, right));
			}
		}
	}
}
