//! C17 (X part) — CollapseTimeframe (timing, fields, summed volume, large periods) and the Renko
//! brick algebra over the reals (contiguity, equal relative size, one direction per step, total volume,
//! at least one brick exactly when the next boundary has been reached).
use crate::reflib::*;
use crate::rsx;
use yata::core::{Candle, Method, Source, ValueType, OHLCV};
use yata::methods::*;

pub fn c17_collapse() {
	let period = rsx::param("period") as usize;
	let groups = rsx::param("groups") as usize;
	let c0 = candle_i(1000);
	let mut m = CollapseTimeframe::new(period, &c0).unwrap();
	let mut k = 0;
	for g in 0..groups {
		let mut first: Option<Candle> = None;
		let mut hi = 0.0;
		let mut lo = 0.0;
		let mut vol = 0.0;
		let mut last_close = 0.0;
		for q in 0..period {
			let c = candle_i(k);
			k += 1;
			match first {
				None => {
					first = Some(c);
					hi = c.high;
					lo = c.low;
					vol = c.volume;
				}
				Some(_) => {
					hi = r_max(hi, c.high);
					lo = r_min(lo, c.low);
					vol += c.volume;
				}
			}
			last_close = c.close;
			let out = m.next(&c);
			if q + 1 < period {
				rsx::check("collapse.silent_between", out.is_none());
			} else {
				rsx::check("collapse.emits_on_period", out.is_some());
				let o = out.unwrap();
				rsx::close("collapse.open", o.open, first.unwrap().open, 8.0);
				if period <= 16 {
					// (the extremum of hundreds of symbolic values is a deep ite chain; large periods check timing,
					// first open, last close and the summed volume)
					rsx::close("collapse.high", o.high, hi, 8.0);
					rsx::close("collapse.low", o.low, lo, 8.0);
				}
				rsx::close("collapse.close", o.close, last_close, 8.0);
				rsx::close("collapse.volume", o.volume, vol, (period + 8) as ValueType);
			}
		}
		let _ = g;
	}
}

pub fn c17_renko() {
	let t = rsx::param("t") as usize;
	let b = 1.0 / (rsx::param("b_den") as ValueType);
	let p0 = rsx::param("p0") as ValueType;
	let maxmul = rsx::param("maxmul") as ValueType;
	let c0 = Candle { open: p0, high: p0, low: p0, close: p0, volume: 0.0 };
	let mut m = Renko::new((b, Source::Close), &c0).unwrap();
	// edges of the last brick (initially the virtual brick centred on the first price)
	let mut top = p0 + p0 * b * 0.5;
	let mut bottom = p0 - p0 * b * 0.5;
	let mut pending_volume = 0.0;
	for i in 0..t {
		let v = rsx::val_i("x", i);
		let vol = rsx::val_i("q", i);
		rsx::assume(v > p0 / maxmul && v < p0 * maxmul);
		rsx::assume(vol >= 0.0);
		pending_volume += vol;
		let c = Candle { open: v, high: v, low: v, close: v, volume: vol };
		let o = m.next(&c);
		let reached_up = v >= top * (1.0 + b);
		let reached_down = v <= bottom * (1.0 - b);
		let n = o.len();
		rsx::check("renko.bricks_iff_boundary_reached", (n >= 1) == (reached_up || reached_down));
		if n >= 1 {
			let rising = o.is_rising();
			rsx::check("renko.direction", rising == reached_up && o.is_falling() == reached_down);
			let base = if rising { top } else { bottom };
			let step = if rising { b } else { -b };
			let mut total = 0.0;
			let mut k = 0;
			let mut last_open = 0.0;
			let mut last_close = 0.0;
			for blk in o {
				rsx::close("renko.contiguous_equal_open", blk.open, base * (1.0 + step * (k as ValueType)), 64.0);
				rsx::close("renko.contiguous_equal_close", blk.close, base * (1.0 + step * ((k + 1) as ValueType)), 64.0);
				total += blk.volume;
				last_open = blk.open;
				last_close = blk.close;
				k += 1;
			}
			rsx::check("renko.count", k == n);
			// as many bricks as fit: the last brick closes at or before the price, one more would pass it
			if rising {
				rsx::check("renko.maximal", last_close <= v && v < base * (1.0 + b * ((k + 1) as ValueType)));
			} else {
				rsx::check("renko.maximal", last_close >= v && v > base * (1.0 - b * ((k + 1) as ValueType)));
			}
			rsx::close("renko.volume", total, pending_volume, 64.0);
			pending_volume = 0.0;
			top = r_max(last_open, last_close);
			bottom = r_min(last_open, last_close);
		}
	}
}
