//! C12 (method level): dispersion measures are never negative, clv and TSI stay in [-1, 1],
//! every output is finite where defined (over the reals: no division by zero on any feasible path).
use crate::reflib::*;
use crate::rsx;
use yata::core::{Method, PeriodType, ValueType, OHLCV};
use yata::methods::*;

pub fn c12_dispersion() {
	let kind = rsx::param_str("kind");
	let n = rsx::param("n") as PeriodType;
	let t = rsx::param("t") as usize;
	let v0 = rsx::val("v0");
	rsx::strict_div();
	match kind.as_str() {
		"stdev" => {
			let mut m = StDev::new(n, &v0).unwrap();
			for i in 0..t {
				let y = m.next(&rsx::val_i("x", i));
				rsx::check("stdev.nonneg", y >= 0.0);
			}
		}
		"meanabsdev" => {
			let mut m = MeanAbsDev::new(n, &v0).unwrap();
			for i in 0..t {
				let y = m.next(&rsx::val_i("x", i));
				rsx::check("meanabsdev.nonneg", y >= 0.0);
			}
		}
		"medianabsdev" => {
			let mut m = MedianAbsDev::new(n, &v0).unwrap();
			for i in 0..t {
				let y = m.next(&rsx::val_i("x", i));
				rsx::check("medianabsdev.nonneg", y >= 0.0);
			}
		}
		"linvol" => {
			let mut m = LinearVolatility::new(n, &v0).unwrap();
			for i in 0..t {
				let y = m.next(&rsx::val_i("x", i));
				rsx::check("linvol.nonneg", y >= 0.0);
			}
		}
		"tsi" => {
			let mut m = TSI::new(n, n + 1, &v0).unwrap();
			for i in 0..t {
				let y = m.next(&rsx::val_i("x", i));
				rsx::check("tsi.range", y >= -1.0 && y <= 1.0);
			}
		}
		_ => {
			// true range and clv on valid candles
			let c0 = valid_candle_i(1000);
			let mut m = TR::new(&c0).unwrap();
			for i in 0..t {
				let c = valid_candle_i(i);
				rsx::check("tr.nonneg", m.next(&c) >= 0.0);
				let k = c.clv();
				rsx::check("clv.range", k >= -1.0 && k <= 1.0);
			}
		}
	}
}
