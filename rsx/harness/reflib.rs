//! From-scratch reference definitions (written from the crate's documentation, not from its
//! code): every function evaluates a documented formula over an explicit history slice, oldest
//! first. Used by the harnesses both symbolically (rsx) and natively (shim).
#![allow(dead_code)]
use crate::rsx;
use yata::core::{Candle, ValueType, OHLCV};

/// the last k elements of h
pub fn r_last(h: &[ValueType], k: usize) -> &[ValueType] {
	&h[h.len() - k..]
}
pub fn r_sum(w: &[ValueType]) -> ValueType {
	let mut s = 0.0;
	for a in w {
		s += *a;
	}
	s
}
pub fn r_mean(w: &[ValueType]) -> ValueType {
	r_sum(w) / (w.len() as ValueType)
}
/// linearly weighted mean, the newest element has the largest weight
pub fn r_wma(w: &[ValueType]) -> ValueType {
	let mut num = 0.0;
	let mut den = 0.0;
	let mut i = 0;
	while i < w.len() {
		let k = (i + 1) as ValueType;
		num += k * w[i];
		den += k;
		i += 1;
	}
	num / den
}
/// symmetric weights 1,2,..,2,1 (length 4: 1 2 2 1; length 5: 1 2 3 2 1)
pub fn r_swma(w: &[ValueType]) -> ValueType {
	let n = w.len();
	let mut num = 0.0;
	let mut den = 0.0;
	let mut i = 0;
	while i < n {
		let a = i + 1;
		let b = n - i;
		let k = (if a < b { a } else { b }) as ValueType;
		num += k * w[i];
		den += k;
		i += 1;
	}
	num / den
}
/// series of SMA(n) values over h for the last `count` positions
pub fn r_sma_series(h: &[ValueType], n: usize, count: usize) -> Vec<ValueType> {
	let mut out = Vec::new();
	let mut j = 0;
	while j < count {
		let end = h.len() - (count - 1 - j);
		out.push(r_mean(&h[end - n..end]));
		j += 1;
	}
	out
}
pub fn r_wma_series(h: &[ValueType], n: usize, count: usize) -> Vec<ValueType> {
	let mut out = Vec::new();
	let mut j = 0;
	while j < count {
		let end = h.len() - (count - 1 - j);
		out.push(r_wma(&h[end - n..end]));
		j += 1;
	}
	out
}
/// least-squares line through (0,w0)..(k-1,w_{k-1}) evaluated at the newest point k-1
pub fn r_linreg(w: &[ValueType]) -> ValueType {
	let n = w.len() as ValueType;
	let mut sx = 0.0;
	let mut sy = 0.0;
	let mut sxy = 0.0;
	let mut sxx = 0.0;
	let mut i = 0;
	while i < w.len() {
		let x = i as ValueType;
		sx += x;
		sy += w[i];
		sxy += x * w[i];
		sxx += x * x;
		i += 1;
	}
	let slope = (n * sxy - sx * sy) / (n * sxx - sx * sx);
	let intercept = (sy - slope * sx) / n;
	intercept + slope * (n - 1.0)
}
pub fn r_abs(x: ValueType) -> ValueType {
	x.abs()
}
pub fn r_max(a: ValueType, b: ValueType) -> ValueType {
	if a < b {
		b
	} else {
		a
	}
}
pub fn r_min(a: ValueType, b: ValueType) -> ValueType {
	if b < a {
		b
	} else {
		a
	}
}
pub fn r_highest(w: &[ValueType]) -> ValueType {
	let mut m = w[0];
	for a in w {
		m = r_max(m, *a);
	}
	m
}
pub fn r_lowest(w: &[ValueType]) -> ValueType {
	let mut m = w[0];
	for a in w {
		m = r_min(m, *a);
	}
	m
}
/// median of a window: sorted copy, mean of the two middle elements for even length
pub fn r_median(w: &[ValueType]) -> ValueType {
	let mut v: Vec<ValueType> = w.to_vec();
	let n = v.len();
	// insertion sort (comparison only)
	let mut i = 1;
	while i < n {
		let mut j = i;
		while j > 0 && v[j - 1] > v[j] {
			let t = v[j - 1];
			v[j - 1] = v[j];
			v[j] = t;
			j -= 1;
		}
		i += 1;
	}
	if n % 2 == 1 {
		v[n / 2]
	} else {
		(v[n / 2 - 1] + v[n / 2]) * 0.5
	}
}
pub fn r_clv(c: &Candle) -> ValueType {
	if c.high == c.low {
		0.0
	} else {
		((c.close - c.low) - (c.high - c.close)) / (c.high - c.low)
	}
}
/// a candle from five symbolic values with the given name suffix
pub fn candle_i(i: usize) -> Candle {
	Candle { open: rsx::val_i("o", i), high: rsx::val_i("h", i), low: rsx::val_i("l", i), close: rsx::val_i("c", i), volume: rsx::val_i("v", i) }
}
/// the documented validity predicate (positive ordered prices, non-negative volume)
pub fn assume_valid(c: &Candle) {
	rsx::assume(c.low > 0.0);
	rsx::assume(c.low <= c.open);
	rsx::assume(c.low <= c.close);
	rsx::assume(c.open <= c.high);
	rsx::assume(c.close <= c.high);
	rsx::assume(c.volume >= 0.0);
}
pub fn valid_candle_i(i: usize) -> Candle {
	let c = candle_i(i);
	assume_valid(&c);
	c
}

/// age (0 = newest) of the newest maximal element of the window (oldest first)
pub fn r_highest_age(w: &[ValueType]) -> usize {
	let n = w.len();
	let mut best = n - 1;
	let mut i = n - 1;
	while i > 0 {
		i -= 1;
		if w[i] > w[best] {
			best = i;
		}
	}
	n - 1 - best
}
pub fn r_lowest_age(w: &[ValueType]) -> usize {
	let n = w.len();
	let mut best = n - 1;
	let mut i = n - 1;
	while i > 0 {
		i -= 1;
		if w[i] < w[best] {
			best = i;
		}
	}
	n - 1 - best
}

/// moving-average constructor by name
pub fn ma_by_name(kind: &str, n: yata::core::PeriodType) -> yata::helpers::MA {
	use yata::helpers::MA;
	match kind {
		"sma" => MA::SMA(n),
		"wma" => MA::WMA(n),
		"hma" => MA::HMA(n),
		"rma" => MA::RMA(n),
		"ema" => MA::EMA(n),
		"dma" => MA::DMA(n),
		"dema" => MA::DEMA(n),
		"tma" => MA::TMA(n),
		"tema" => MA::TEMA(n),
		"wsma" => MA::WSMA(n),
		"smm" => MA::SMM(n),
		"swma" => MA::SWMA(n),
		"trima" => MA::TRIMA(n),
		"linreg" => MA::LinReg(n),
		_ => MA::Vidya(n),
	}
}

/// crossing rule on the difference value - base: +1 if it was negative on the previous step and is
/// non-negative now, -1 in the mirrored case, 0 otherwise
pub fn r_cross(prev_delta: ValueType, cur_delta: ValueType) -> i8 {
	let up = prev_delta < 0.0 && cur_delta >= 0.0;
	let down = prev_delta > 0.0 && cur_delta <= 0.0;
	(up as i8) - (down as i8)
}
/// full buy / full sell / none from a sign
pub fn r_action(sign: i8) -> yata::core::Action {
	yata::core::Action::from(sign)
}

/// i-th input of a stream following a shape pattern (one char per step, the last char repeats):
///   'f' free symbolic value, 'u' previous + a_i (a_i > 0), 'd' previous - a_i (a_i > 0),
///   '=' previous (plateau), 'r' the value two steps back (exact cancellation of the last move),
///   's' previous * 1024 (abrupt change of scale), 'z' zero
/// magnitudes stay symbolic; the pattern only fixes the shape the quantifier of the properties names
/// (plateaus, exact returns, monotone runs, scale jumps) so that the solver does not have to find it
pub fn shaped_input(pattern: &str, i: usize, hist: &[ValueType]) -> ValueType {
	let p: Vec<char> = pattern.chars().collect();
	let ch = if p.is_empty() { 'f' } else if i < p.len() { p[i] } else { p[p.len() - 1] };
	let prev = hist[hist.len() - 1];
	let prev2 = if hist.len() >= 2 { hist[hist.len() - 2] } else { prev };
	if ch == 'u' {
		let a = rsx::val_i("a", i);
		rsx::assume(a > 0.0);
		prev + a
	} else if ch == 'd' {
		let a = rsx::val_i("a", i);
		rsx::assume(a > 0.0);
		prev - a
	} else if ch == 'e' {
		prev
	} else if ch == 'r' {
		prev2
	} else if ch == 's' {
		prev * 1024.0
	} else if ch == 'z' {
		0.0
	} else {
		rsx::val_i("x", i)
	}
}

/// largest magnitude in a history (the scale M of the rounding allowance)
pub fn r_maxabs(h: &[ValueType]) -> ValueType {
	let mut m = 0.0;
	for a in h {
		m = r_max(m, (*a).abs());
	}
	m
}
