#![allow(unused)]
mod rsx;
include!("gen.rs");

fn json_escape(s: &str) -> String {
	s.replace('\\', "\\\\").replace('"', "\\\"").replace('\n', " ")
}

/// tiny parser for {"k":"v",...} flat string maps
fn parse_flat(s: &str) -> Vec<(String, String)> {
	let mut out = Vec::new();
	let b: Vec<char> = s.chars().collect();
	let mut i = 0;
	let mut strs = Vec::new();
	while i < b.len() {
		if b[i] == '"' {
			let mut j = i + 1;
			let mut cur = String::new();
			while j < b.len() && b[j] != '"' {
				if b[j] == '\\' {
					j += 1;
				}
				cur.push(b[j]);
				j += 1;
			}
			strs.push(cur);
			i = j + 1;
		} else {
			i += 1;
		}
	}
	let mut it = strs.into_iter();
	while let (Some(k), Some(v)) = (it.next(), it.next()) {
		out.push((k, v));
	}
	out
}

fn main() {
	let entry = std::env::var("RSX_ENTRY").expect("RSX_ENTRY");
	let inputs = match std::env::var("RSX_INPUTS_FILE") {
		Ok(f) => std::fs::read_to_string(f).expect("inputs file"),
		Err(_) => std::env::var("RSX_INPUTS").unwrap_or_else(|_| "{}".into()),
	};
	let params = std::env::var("RSX_PARAMS").unwrap_or_else(|_| "{}".into());
	rsx::ST.with(|s| {
		let mut s = s.borrow_mut();
		for (k, v) in parse_flat(&inputs) {
			s.inputs.insert(k, u64::from_str_radix(&v, 16).expect("hex"));
		}
		for (k, v) in parse_flat(&params) {
			s.params.insert(k, v);
		}
	});
	let r = std::panic::catch_unwind(|| dispatch(&entry));
	let panic_msg = match r {
		Ok(true) => None,
		Ok(false) => Some(format!("unknown entry {}", entry)),
		Err(e) => Some(if let Some(s) = e.downcast_ref::<String>() { s.clone() } else if let Some(s) = e.downcast_ref::<&str>() { s.to_string() } else { "panic".to_string() }),
	};
	rsx::ST.with(|s| {
		let s = s.borrow();
		let outs: Vec<String> = s.outputs.iter().map(|(k, v)| format!("[\"{}\",\"{}\"]", json_escape(k), json_escape(v))).collect();
		let fails: Vec<String> = s.failures.iter().map(|f| format!("\"{}\"", json_escape(f))).collect();
		let miss: Vec<String> = s.missing.iter().map(|f| format!("\"{}\"", json_escape(f))).collect();
		println!(
			"{{\"outputs\":[{}],\"failures\":[{}],\"missing\":[{}],\"panic\":{},\"assumption_violated\":{}}}",
			outs.join(","),
			fails.join(","),
			miss.join(","),
			match &panic_msg {
				Some(m) => format!("\"{}\"", json_escape(m)),
				None => "null".into(),
			},
			match &s.assumption_violated {
				Some(m) => format!("\"{}\"", json_escape(m)),
				None => "null".into(),
			}
		);
	});
}
