//! Native counterpart of the rsx:: intrinsics: the same harness files that rsx interprets
//! symbolically are compiled against the real crate and run on concrete inputs
//! (translator validation and counterexample replay).
#![allow(dead_code)]
use std::cell::RefCell;
use std::collections::HashMap;
use yata::core::ValueType;

pub struct State {
	pub inputs: HashMap<String, u64>,
	pub params: HashMap<String, String>,
	pub outputs: Vec<(String, String)>,
	pub failures: Vec<String>,
	pub assumption_violated: Option<String>,
	pub missing: Vec<String>,
	pub maxmag: f64,
}

thread_local! {
	pub static ST: RefCell<State> = RefCell::new(State { inputs: HashMap::new(), params: HashMap::new(), outputs: Vec::new(), failures: Vec::new(), assumption_violated: None, missing: Vec::new(), maxmag: 0.0 });
}

pub fn val(name: &str) -> ValueType {
	ST.with(|s| {
		let mut s = s.borrow_mut();
		match s.inputs.get(name).copied() {
			Some(b) => {
				let x = f64::from_bits(b);
				if x.abs() > s.maxmag {
					s.maxmag = x.abs();
				}
				x as ValueType
			}
			None => {
				s.missing.push(name.to_string());
				0.0
			}
		}
	})
}
pub fn val_i(name: &str, i: usize) -> ValueType {
	val(&format!("{}_{}", name, i))
}
pub fn fresh_bool(name: &str) -> bool {
	ST.with(|s| s.borrow().inputs.get(name).copied().unwrap_or(0) != 0)
}
pub fn param(name: &str) -> i64 {
	ST.with(|s| s.borrow().params.get(name).and_then(|v| v.parse().ok()).unwrap_or_else(|| panic!("missing parameter {}", name)))
}
pub fn param_or(name: &str, default: i64) -> i64 {
	ST.with(|s| s.borrow().params.get(name).and_then(|v| v.parse().ok()).unwrap_or(default))
}
pub fn param_str(name: &str) -> String {
	ST.with(|s| s.borrow().params.get(name).cloned().unwrap_or_else(|| panic!("missing parameter {}", name)))
}
pub fn assume(c: bool) {
	if !c {
		ST.with(|s| {
			let mut s = s.borrow_mut();
			if s.assumption_violated.is_none() {
				let n = s.outputs.len();
				s.assumption_violated = Some(format!("after {} outputs", n));
			}
		});
	}
}
fn active() -> bool {
	ST.with(|s| s.borrow().assumption_violated.is_none())
}
pub fn check(label: &str, c: bool) {
	if !active() {
		return;
	}
	ST.with(|s| {
		let mut s = s.borrow_mut();
		s.outputs.push((format!("check:{}", label), format!("{}", c)));
		if !c {
			s.failures.push(format!("check {} is false", label));
		}
	});
}
/// |a - b| within the rounding allowance of DESIGN.md §4: 16 * eps * scale * M (+ tiny floor), where
/// scale = kappa * (n + t + 8) is supplied by the harness and M is the largest input magnitude so far
pub fn close(label: &str, a: ValueType, b: ValueType, scale: ValueType) {
	if !active() {
		return;
	}
	ST.with(|s| {
		let mut s = s.borrow_mut();
		s.outputs.push((format!("close:{}", label), format!("{:016x}", (a as f64).to_bits())));
		let eps = ValueType::EPSILON as f64;
		let m = s.maxmag.max(1e-300);
		let tol = 16.0 * eps * (scale as f64).abs().max(1.0) * m.max((b as f64).abs()) + 1e-300;
		let d = (a as f64 - b as f64).abs();
		if !(d <= tol) {
			s.failures.push(format!("close {}: got {:e} expected {:e} |diff| {:e} > allowance {:e}", label, a, b, d, tol));
		}
	});
}
pub fn out(label: &str, v: ValueType) {
	ST.with(|s| s.borrow_mut().outputs.push((format!("out:{}", label), format!("{:016x}", (v as f64).to_bits()))));
}
pub fn bits_eq(a: ValueType, b: ValueType) -> bool {
	a.to_bits() == b.to_bits()
}
pub fn is_concrete() -> bool {
	true
}
pub fn mode_fp() -> bool {
	false
}
pub fn strict_div() {}
pub fn same_term<T: PartialEq>(a: T, b: T) -> bool {
	a == b
}

// ---------------------------------------------------------------- serde (feature "serde")
// native counterpart of the interpreter's serde model: a real round trip through the in-memory
// token format of the Kani crate (kani/src/tok.rs)
#[cfg(feature = "serde")]
#[path = "../../../kani/src/tok.rs"]
#[allow(unused, clippy::all)]
mod tok;

#[cfg(feature = "serde")]
pub fn serde_roundtrip<T: serde::Serialize + serde::de::DeserializeOwned>(x: &T) -> Option<T> {
	let s = Box::new(tok::to_tokens::<T, 16384>(x).ok()?);
	tok::from_tokens_by_name::<T>(s.toks()).ok()
}

/// adversarial serialized window {buf, index}: Some(window) when Window's Deserialize accepts it
#[cfg(feature = "serde")]
pub fn serde_from_parts(buf: &Vec<ValueType>, index: yata::core::PeriodType) -> Option<yata::core::Window<ValueType>> {
	#[derive(serde::Serialize)]
	#[serde(rename = "Window")]
	struct RawWindow<'a> {
		buf: &'a Vec<ValueType>,
		index: yata::core::PeriodType,
	}
	let raw = RawWindow { buf, index };
	let s = Box::new(tok::to_tokens::<RawWindow, 16384>(&raw).ok()?);
	tok::from_tokens_by_name::<yata::core::Window<ValueType>>(s.toks()).ok()
}
