"""Rules over `rsx scan` (item inventory of /repo/src parsed on this run)."""
import json
import os
import re

import driver as D
import rsxdrv as R

HAND_SERDE = {"Window", "SMM"}          # hand-written Serialize/Deserialize, decided by K harnesses (C13)
KNOWN_UNSAFE_FILES = ("core/window.rs", "methods/smm.rs")


def scan(features):
    cmd = [D.RSX_BIN, "scan", "--repo", os.path.join(D.REPO, "src")]
    feats = [R.FEAT[f] for f in features]
    if feats:
        cmd += ["--features", ",".join(feats)]
    rc, out, secs = D.run_cmd(cmd, D.RSX_DIR, 120, 8)
    for line in reversed(out.strip().splitlines()):
        if line.startswith("{"):
            return json.loads(line), out, secs
    return None, out, secs


def method_and_indicator_structs(inv):
    return [s for s in inv["structs"] if "/src/methods/" in s["file"] or "/src/indicators/" in s["file"] or s["file"].endswith("helpers/methods.rs")
            or s["file"].endswith("core/window.rs") or s["file"].endswith("core/candles.rs") or s["file"].endswith("helpers/history.rs")]


def rule_clone_is_deep(inv):
    bad = []
    items = 0
    for s in method_and_indicator_structs(inv):
        if s["name"] in ("WindowIterator", "ReversedWindowIterator", "RenkoOutput", "SerializableWindow", "DeserializedSMM"):
            continue
        items += 1
        if "Clone" not in s["derives"]:
            bad.append("%s does not derive Clone (%s)" % (s["name"], s["file"]))
    for e in inv["enums"]:
        if ("/src/methods/" in e["file"] or "/src/indicators/" in e["file"] or e["file"].endswith("helpers/methods.rs") or e["file"].endswith("core/action.rs") or e["file"].endswith("core/candles.rs")):
            items += 1
            if "Clone" not in e["derives"]:
                bad.append("enum %s does not derive Clone" % e["name"])
    for t, tr, f in inv["manual_impls"]:
        if tr == "Clone":
            bad.append("hand-written impl Clone for %s (%s): deep-copy assumption of the encoding is not discharged" % (t, f))
    for s in inv["suspicious"]:
        if "window.rs" in s or "smm.rs" in s:
            if any(k in s for k in ("*mut", "*const")):
                continue
        bad.append("shared-state construct: " + s)
    return items, bad


def rule_serde_is_derived(inv):
    bad = []
    items = 0
    for s in method_and_indicator_structs(inv) + [e for e in inv["enums"] if "/src/methods/" in e["file"] or "/src/indicators/" in e["file"] or e["file"].endswith("helpers/methods.rs") or e["file"].endswith("core/action.rs") or e["file"].endswith("core/candles.rs")]:
        if s["name"] in ("WindowIterator", "ReversedWindowIterator", "RenkoOutput", "SerializableWindow", "DeserializedSMM", "WithHistory", "WithLastValue", "RandomCandles", "RenkoBlock"):
            continue
        if s["file"].endswith("indicators/example.rs"):
            continue  # the documentation example indicator: not part of the shipped set, carries no serde derive
        items += 1
        if s["name"] in HAND_SERDE:
            continue
        if "Serialize" not in s["derives"] or "Deserialize" not in s["derives"]:
            bad.append("%s does not derive Serialize+Deserialize (%s)" % (s["name"], s["file"]))
        m = re.search(r"serde\s*\(([^)]*)\)", s.get("attrs", ""))
        for m in re.finditer(r"serde\s*\(([^)]*)\)", s.get("attrs", "")):
            if re.search(r"\b(skip|default|with|from|into|try_from|flatten|skip_serializing|skip_deserializing)\b", m.group(1)):
                bad.append("%s carries #[serde(%s)]" % (s["name"], m.group(1)))
    for t, tr, f in inv["manual_impls"]:
        if tr in ("Serialize", "Deserialize") and t not in HAND_SERDE and t not in ("SerializableWindow", "DeserializedSMM"):
            bad.append("hand-written impl %s for %s (%s) is not encoded" % (tr, t, f))
    return items, bad


def rule_unsafe_sites_known(inv):
    bad = []
    for u in inv["unsafe_sites"]:
        if not any(k in u for k in KNOWN_UNSAFE_FILES):
            bad.append("unencoded unsafe site: " + u)
    return len(inv["unsafe_sites"]), bad


RULES = {"clone_is_deep": (rule_clone_is_deep, ()), "serde_is_derived": (rule_serde_is_derived, ("serde",)), "unsafe_sites_known": (rule_unsafe_sites_known, ("up",))}


def run_scan(job):
    fn, feats = RULES[job.rule]
    inv, out, secs = scan(job.features or feats)
    r = {"job": job.id, "engine": "scan", "bounds": job.bounds, "core": True, "wall_s": round(secs, 2)}
    if inv is None:
        r["status"] = "error"
        r["detail"] = "rsx scan produced no inventory: " + out[-300:]
        return r, out
    items, bad = fn(inv)
    r["items"] = items
    if bad:
        r["status"] = "error"
        r["detail"] = "assumption of the encoding no longer holds: " + "; ".join(bad[:6])
    elif items == 0:
        r["status"] = "error"
        r["detail"] = "scan found no items (vacuous)"
    else:
        r["status"] = "pass"
    return r, out + "\n" + json.dumps(bad)
