"""Check driver for the yata solver-based verification (see /verif/DESIGN.md §3.3)."""
import concurrent.futures as cf
import hashlib
import json
import os
import re
import resource
import shutil
import signal
import subprocess
import sys
import tempfile
import threading
import time

VERIF = os.path.dirname(os.path.dirname(os.path.abspath(__file__)))
REPO = "/repo"
KANI_CRATE = os.path.join(VERIF, "kani")
RSX_DIR = os.path.join(VERIF, "rsx")
RSX_BIN = os.path.join(RSX_DIR, "target", "release", "rsx")
SCRATCH_ROOT = os.environ.get("VERIF_SCRATCH", "/var/tmp")

sys.path.insert(0, VERIF)

_print_lock = threading.Lock()


def say(*a):
    with _print_lock:
        print(*a, flush=True)


# --------------------------------------------------------------------------
# job descriptions


DEALLOC_MODEL = r" @ .*kani_lib\.c:\d+ in function __rust_dealloc"


class KaniJob:
    kind = "kani"

    def __init__(self, name, bounds, features=(), tier="q", timeout=600, mem_gb=16,
                 stubbing=False, core=True, allow=(), encodes=(), cost=10, extra=()):
        self.name = name  # module::harness
        self.bounds = bounds  # human text: the bound this harness decides
        self.features = tuple(features)
        self.tier = tier  # 'q' = quick and thorough, 't' = thorough only
        self.timeout = timeout
        self.mem_gb = mem_gb
        self.stubbing = stubbing
        self.core = core
        self.allow = tuple(allow)  # regexes of failed-check descriptions the property permits (panics)
        if "up" not in self.features:
            # Kani's C model of the deallocator (kani_lib.c: __rust_dealloc) reported size/validity failures for
            # harnesses over SAFE code (logging indicator behind Box<dyn ..>, over() on an empty slice) that depend
            # on the absolute path of the repository and whose playback trace cannot be replayed: an artefact of the
            # model, not of yata. Without the unsafe_performance feature the crate has no unsafe code, so these
            # model-internal checks carry no claim; they stay on for every unsafe_performance build (C19).
            self.allow += (DEALLOC_MODEL,)
        self.encodes = tuple(encodes)  # functions of /repo the harness drives
        self.cost = cost  # rough seconds, for scheduling longest-first
        self.extra = tuple(extra)

    @property
    def id(self):
        f = "+".join(self.features)
        return self.name + ("[" + f + "]" if f else "")


class RsxJob:
    kind = "rsx"

    def __init__(self, harness, args, bounds, tier="q", timeout=None, mem_gb=8, core=True,
                 encodes=(), cost=10, features=()):
        self.harness = harness
        self.args = dict(args)
        self.bounds = bounds
        self.tier = tier
        # a job that needs far longer than its measured cost is stuck (path explosion on changed code):
        # cap it so that the check stays usable; a capped core job makes the check inconclusive, never green
        self.timeout = timeout if timeout is not None else int(max(120, 40 * cost))
        self.mem_gb = mem_gb
        self.core = core
        self.encodes = tuple(encodes)
        self.cost = cost
        self.features = tuple(features)

    @property
    def id(self):
        a = ",".join("%s=%s" % kv for kv in sorted(self.args.items()))
        f = "+".join(self.features)
        return "rsx:" + self.harness + "(" + a + ")" + ("[" + f + "]" if f else "")

    @property
    def name(self):
        return self.id


class ScanJob:
    """static inventory of /repo/src through rsx's parser: discharges the syntactic assumptions that the
    solver-based obligations rest on (derive(Clone) is a deep copy, no unencoded unsafe site, ...).
    A failed scan is 'error' (exit 2: an assumption of the encoding no longer holds), never a VIOLATION."""
    kind = "scan"

    def __init__(self, rule, bounds, tier="q", features=()):
        self.rule = rule
        self.bounds = bounds
        self.tier = tier
        self.core = True
        self.cost = 1
        self.timeout = 120
        self.features = tuple(features)
        self.encodes = ("src/**/*.rs (item inventory: structs, derives, impls, unsafe sites)",)

    @property
    def id(self):
        return "scan:" + self.rule

    @property
    def name(self):
        return self.id


# --------------------------------------------------------------------------
# helpers


def _limits(mem_gb):
    def f():
        os.setsid()
        lim = int(mem_gb * (1 << 30))
        try:
            resource.setrlimit(resource.RLIMIT_AS, (lim, lim))
        except Exception:
            pass
    return f


def run_cmd(cmd, cwd, timeout, mem_gb, env=None, stdin=None):
    """returns (rc or None on timeout, output, seconds)"""
    e = dict(os.environ)
    e["CARGO_NET_OFFLINE"] = "true"
    e.pop("RUSTFLAGS", None)
    if env:
        e.update(env)
    t0 = time.time()
    p = subprocess.Popen(cmd, cwd=cwd, stdout=subprocess.PIPE, stderr=subprocess.STDOUT,
                         stdin=subprocess.PIPE if stdin is not None else subprocess.DEVNULL,
                         env=e, preexec_fn=_limits(mem_gb), text=True, errors="replace")
    try:
        out, _ = p.communicate(input=stdin, timeout=timeout)
        rc = p.returncode
    except subprocess.TimeoutExpired:
        try:
            os.killpg(p.pid, signal.SIGKILL)
        except Exception:
            pass
        out, _ = p.communicate()
        rc = None
    return rc, out, time.time() - t0


def src_hash(paths):
    h = hashlib.sha256()
    for p in sorted(paths):
        try:
            with open(p, "rb") as f:
                h.update(p.encode())
                h.update(f.read())
        except OSError:
            h.update(b"missing:" + p.encode())
    return h.hexdigest()[:16]


def repo_sources():
    res = []
    for d, _, fs in os.walk(os.path.join(REPO, "src")):
        for f in fs:
            if f.endswith(".rs"):
                res.append(os.path.join(d, f))
    res.append(os.path.join(REPO, "Cargo.toml"))
    return res


def load_known():
    p = os.path.join(VERIF, "known_findings.json")
    if not os.path.exists(p):
        return []
    with open(p) as f:
        return json.load(f)["findings"]


# --------------------------------------------------------------------------
# Kani

CHECK_RE = re.compile(
    r"^Check \d+: (?P<name>[^\n]+)\n\s+- Status: (?P<status>\w+)\n\s+- Description: \"(?P<desc>.*)\"\n(?:\s+- Location: (?P<loc>.*)\n)?",
    re.M)


def parse_kani(out):
    checks = [m.groupdict() for m in CHECK_RE.finditer(out)]
    res = {"checks_total": 0, "failed": [], "undetermined": 0, "covers_sat": 0, "covers_unsat": [],
           "mustnot_sat": [], "verdict": None, "verif_time": None}
    for c in checks:
        st = c["status"]
        is_cover = ".cover." in c["name"] or c["name"].startswith("cover")
        if st in ("SATISFIED", "UNSATISFIABLE", "UNREACHABLE") and is_cover or st in ("SATISFIED", "UNSATISFIABLE"):
            if c["desc"].startswith("MUSTNOT"):
                if st == "SATISFIED":
                    res["mustnot_sat"].append(c["desc"])
                else:
                    res["covers_sat"] += 0
            elif st == "SATISFIED":
                res["covers_sat"] += 1
            else:
                res["covers_unsat"].append(c["desc"])
            continue
        res["checks_total"] += 1
        if st == "FAILURE":
            res["failed"].append({"desc": norm_desc(c["desc"]), "loc": c.get("loc") or "", "name": c["name"]})
        elif st in ("UNDETERMINED", "ERROR"):
            res["undetermined"] += 1
    m = re.search(r"^VERIFICATION:- (\w+)(.*)$", out, re.M)
    if m:
        res["verdict"] = m.group(1)
        res["verdict_note"] = m.group(2).strip()
    m = re.search(r"^Verification Time: ([0-9.]+)s", out, re.M)
    if m:
        res["verif_time"] = float(m.group(1))
    res["stubs"] = re.findall(r"^\s*- Stub: (.*)$", out, re.M)
    return res


def kani_cmd(job, target_dir, playback=None):
    cmd = ["cargo", "kani", "--harness", job.name, "--exact", "--target-dir", target_dir]
    if job.stubbing:
        cmd += ["-Z", "stubbing"]
    if job.features:
        cmd += ["--features", ",".join(job.features)]
    if playback:
        cmd += ["-Z", "concrete-playback", "--concrete-playback=" + playback]
    cmd += list(job.extra)
    return cmd


def run_kani(job, scratch):
    td = tempfile.mkdtemp(prefix="k.", dir=scratch)
    try:
        rc, out, secs = run_cmd(kani_cmd(job, td), KANI_CRATE, job.timeout, job.mem_gb)
    finally:
        shutil.rmtree(td, ignore_errors=True)
    r = {"job": job.id, "engine": "kani", "bounds": job.bounds, "wall_s": round(secs, 2), "core": job.core}
    if rc is None:
        r["status"] = "timeout"
        r["detail"] = "no verdict within %ds" % job.timeout
        return r, out
    p = parse_kani(out)
    r.update({"properties_checked": p["checks_total"], "covers_satisfied": p["covers_sat"],
              "solver_s": p["verif_time"], "stubs": p["stubs"]})
    if p["verdict"] is None:
        r["status"] = "error"
        tail = out.strip().splitlines()[-15:]
        r["detail"] = "no verdict from Kani/CBMC (rc=%s): %s" % (rc, " | ".join(tail))
        return r, out
    if p["verdict"] != "SUCCESSFUL" and not p["failed"] and not p["mustnot_sat"] and not p["covers_unsat"]:
        r["status"] = "error"
        r["detail"] = "Kani verdict %s without a failed check (CBMC crash / out of memory?)" % p["verdict"]
        return r, out
    if job.stubbing and not p["stubs"]:
        r["status"] = "error"
        r["detail"] = "stubbing requested but no '- Stub:' line in the output"
        return r, out
    unwind = [f for f in p["failed"] if "unwinding assertion" in f["desc"]]
    if unwind or p["undetermined"] and not p["failed"]:
        r["status"] = "error"
        r["detail"] = "unwinding bound too small (%d unwinding assertions failed, %d undetermined)" % (
            len(unwind), p["undetermined"])
        return r, out
    failed = [f for f in p["failed"] if not any(re.search(a, f["desc"] + " @ " + f["loc"]) for a in job.allow)]
    r["allowed_panics"] = len(p["failed"]) - len(failed)
    if p["mustnot_sat"]:
        failed += [{"desc": d, "loc": "cover", "name": "cover"} for d in p["mustnot_sat"]]
    # a failing assertion ends its paths, so covers behind it may become unsatisfiable: counterexamples
    # take precedence, an unsatisfiable cover alone means a vacuous harness
    if p["covers_unsat"] and not failed:
        r["status"] = "error"
        r["detail"] = "vacuity: cover witness(es) not satisfiable: %s" % p["covers_unsat"]
        return r, out
    if failed:
        r["status"] = "cex"
        r["failed_checks"] = failed
    else:
        r["status"] = "pass"
    return r, out


PLAYBACK_RE = re.compile(
    r"Concrete playback unit test for `(?P<h>[^`]*)`:\n```\n(?P<text>.*?/// Check for `(?P<kind>[^`]*)`: \"(?P<desc>.*?)\"\s*\n.*?fn (?P<fn>\w+)\(\) \{\n.*?\n\}\n)```",
    re.S)


def norm_desc(d):
    return d.replace("\\", "").replace('"', "").strip()


def replay_kani(job, scratch, prop):
    """Concrete playback of a failing harness on the native build. Returns dict with
    'reproduced': list of check descriptions whose generated test fails natively (dev),
    'release': same for --release, 'tests': source text of generated tests."""
    work = tempfile.mkdtemp(prefix="pb.", dir=scratch)
    crate = os.path.join(work, "kani")
    shutil.copytree(KANI_CRATE, crate, ignore=shutil.ignore_patterns("target"))
    td = os.path.join(work, "t")
    res = {"reproduced": [], "release": [], "tests": "", "generated": 0}
    try:
        # producing the trace costs CBMC several times the plain verification run (measured 4x on a 300-step harness)
        # (and more memory: replays run one at a time)
        rc, out, _ = run_cmd(kani_cmd(job, td, playback="print"), crate, max(1800, job.timeout * 4), max(job.mem_gb, 24))
        if rc is None:
            res["detail"] = "Kani did not finish producing the playback test within %ds" % max(1800, job.timeout * 4)
        tests = list(PLAYBACK_RE.finditer(out))
        # two failed checks with the same concrete inputs yield the same test fn twice
        seen = set()
        tests = [m for m in tests if not (m.group("fn") in seen or seen.add(m.group("fn")))]
        res["generated"] = len(tests)
        res["tests"] = "\n".join(m.group("text") for m in tests)
        if not tests:
            res.setdefault("detail", "Kani produced no concrete playback test")
            return res
        mod = job.name.split("::")[0]
        with open(os.path.join(crate, "src", mod + ".rs"), "a") as f:
            f.write("\n" + res["tests"] + "\n")
        env = {"CARGO_TARGET_DIR": os.path.join(work, "tp")}
        for profile in ("dev", "release"):
            cmd = ["cargo", "kani", "playback", "-Z", "concrete-playback"]
            if job.features:
                cmd += ["--features", ",".join(job.features)]
            if profile == "release":
                cmd += ["--release"]
            cmd += ["--", "kani_concrete_playback", "--test-threads", "1"]
            rc, o, _ = run_cmd(cmd, crate, 900, 16, env=env)
            failedfns = set(re.findall(r"^test \S*?(kani_concrete_playback_\w+) \.\.\. FAILED", o, re.M))
            okfns = set(re.findall(r"^test \S*?(kani_concrete_playback_\w+) \.\.\. ok", o, re.M))
            # a test that dies inside Kani's playback library (value list exhausted: "Not enough det vals found",
            # or a violated kani::assume) did not replay the trace at all: not a reproduction
            bogus = playback_internal_failures(o)
            if failedfns & bogus:
                res["detail_" + profile] = "%d generated test(s) could not be replayed (failure inside Kani's playback library)" % len(failedfns & bogus)
            failedfns -= bogus
            if not failedfns and not okfns:
                res["detail_" + profile] = "playback did not run: " + " | ".join(o.strip().splitlines()[-8:])
            for m in tests:
                if m.group("fn") in failedfns:
                    res["reproduced" if profile == "dev" else "release"].append(norm_desc(m.group("desc")))
        return res
    finally:
        shutil.rmtree(work, ignore_errors=True)


def playback_internal_failures(o):
    """names of playback tests whose panic originates in library/kani (not in the harness or the crate)"""
    bad = set()
    for m in re.finditer(r"^---- \S*?(kani_concrete_playback_\w+) stdout ----\n(.*?)(?=^---- |\Z)", o, re.M | re.S):
        body = m.group(2)
        pm = re.search(r"panicked at ([^\n]*?):\d+:\d+:\n([^\n]*)", body)
        if not pm:
            continue
        loc, msg = pm.group(1), pm.group(2)
        inlib = loc.startswith("library/kani") or "/library/kani/src/" in loc
        # kani::assert(cond, "msg") (used where assert! would print an unexpanded concat!) panics from
        # library/kani/src/lib.rs with the harness's own message and `kani::assert` + the harness on the stack:
        # that IS the replayed check failing, not a failure of the playback machinery
        harness_assert = inlib and "concrete_playback" not in loc and (re.search(r"^\s+\d+: kani::assert\n", body, re.M) is not None or "stack backtrace:" not in body)
        if "det vals" in msg or "kani::assume" in msg or (inlib and not harness_assert):
            bad.add(m.group(1))
    return bad


def write_replay(prop, job, rep, failed):
    d = os.path.join(VERIF, "replays", prop)
    os.makedirs(d, exist_ok=True)
    path = os.path.join(d, re.sub(r"[^A-Za-z0-9_.+-]", "_", job.id) + ".playback.rs")
    hdr = {"engine": "kani", "harness": job.name, "features": list(job.features), "stubbing": job.stubbing,
           "failed_checks": failed, "reproduced_dev": rep["reproduced"], "reproduced_release": rep["release"]}
    with open(path, "w") as f:
        f.write("// REPLAY " + json.dumps(hdr) + "\n")
        f.write("// Concrete playback tests generated by Kani for the counterexample(s); re-run with\n")
        f.write("//   ./check %s --replay %s\n" % (prop, path))
        f.write(rep["tests"])
    return path


def do_replay_file(prop, path, scratch):
    txt = open(path).read()
    first = txt.splitlines()[0]
    if not first.startswith("// REPLAY "):
        say("not a replay file")
        return 2
    hdr = json.loads(first[len("// REPLAY "):])
    if hdr["engine"] == "rsx":
        from rsxdrv import replay_file as rf
        return rf(prop, path, hdr, scratch)
    work = tempfile.mkdtemp(prefix="rp.", dir=scratch)
    try:
        crate = os.path.join(work, "kani")
        shutil.copytree(KANI_CRATE, crate, ignore=shutil.ignore_patterns("target"))
        mod = hdr["harness"].split("::")[0]
        with open(os.path.join(crate, "src", mod + ".rs"), "a") as f:
            f.write("\n" + "\n".join(txt.splitlines()[3:]) + "\n")
        cmd = ["cargo", "kani", "playback", "-Z", "concrete-playback"]
        if hdr["features"]:
            cmd += ["--features", ",".join(hdr["features"])]
        cmd += ["--", "kani_concrete_playback", "--test-threads", "1"]
        rc, o, _ = run_cmd(cmd, crate, 900, 16, env={"CARGO_TARGET_DIR": os.path.join(work, "tp")})
        say(o[-6000:])
        failedfns = set(re.findall(r"^test \S*?(kani_concrete_playback_\w+) \.\.\. FAILED", o, re.M)) - playback_internal_failures(o)
        if failedfns:
            say("REPLAY reproduced: %d generated test(s) fail on the native build" % len(failedfns))
            return 1
        say("REPLAY did not reproduce")
        return 0
    finally:
        shutil.rmtree(work, ignore_errors=True)


# --------------------------------------------------------------------------
# main


def select_jobs(prop, tier, only):
    import registry
    jobs = registry.jobs_for(prop)
    sel = [j for j in jobs if tier == "thorough" or j.tier == "q"]
    if os.environ.get("VERIF_THOROUGH_ONLY"):
        # maintenance aid: only the obligations that the quick tier does not already run
        sel = [j for j in jobs if j.tier != "q"]
    if os.environ.get("VERIF_SKIP_DEEPENING"):
        sel = [j for j in sel if j.core]
    if only:
        sel = [j for j in sel if any(o in j.id for o in only)]
    return sel


def main(argv):
    import argparse
    ap = argparse.ArgumentParser()
    ap.add_argument("prop")
    ap.add_argument("--tier", default=os.environ.get("VERIF_TIER", "quick"), choices=["quick", "thorough"])
    ap.add_argument("--replay")
    ap.add_argument("--only", action="append")
    ap.add_argument("--jobs", type=int, default=int(os.environ.get("VERIF_JOBS", "14")))
    ap.add_argument("--keep-logs", action="store_true")
    ap.add_argument("--list", action="store_true")
    a = ap.parse_args(argv)
    prop = a.prop
    seed = int(os.environ.get("VERIF_SEED", "0") or 0)
    scratch = tempfile.mkdtemp(prefix="yv.", dir=SCRATCH_ROOT)
    try:
        if a.replay:
            return do_replay_file(prop, a.replay, scratch)
        return run_property(prop, a.tier, seed, scratch, a)
    finally:
        shutil.rmtree(scratch, ignore_errors=True)


REPLAY_CAP = 4


def run_property(prop, tier, seed, scratch, a):
    t_start = time.time()
    jobs = select_jobs(prop, tier, a.only)
    if a.list:
        for j in jobs:
            say(j.id, "|", j.bounds)
        return 0
    if not jobs:
        say("no obligations registered for %s in tier %s" % (prop, tier))
        return 2
    import random
    rnd = random.Random(seed)
    jobs = sorted(jobs, key=lambda j: (-j.cost, rnd.random()))
    known = [k for k in load_known() if k["property"] == prop]
    logdir = os.path.join(VERIF, "logs", prop)
    shutil.rmtree(logdir, ignore_errors=True)
    os.makedirs(logdir, exist_ok=True)

    results = []
    outs = {}

    def runner(job):
        try:
            if job.kind == "kani":
                r, out = run_kani(job, scratch)
            elif job.kind == "scan":
                from scanrules import run_scan
                r, out = run_scan(job)
            else:
                from rsxdrv import run_rsx
                r, out = run_rsx(job, scratch, seed)
        except Exception as e:  # an internal failure of the driver is inconclusive, never a crash
            import traceback
            r = {"job": job.id, "engine": job.kind, "bounds": job.bounds, "core": job.core, "wall_s": 0.0,
                 "status": "error", "detail": "driver exception: %r" % (e,)}
            out = traceback.format_exc()
        with open(os.path.join(logdir, re.sub(r"[^A-Za-z0-9_.+-]", "_", job.id)[:150] + ".log"), "w") as f:
            f.write(out)
        say("  [%s] %-70s %-8s %6.1fs" % (prop, job.id[:70], r["status"], r["wall_s"]))
        return job, r

    # rsx needs its binary
    if any(j.kind in ("rsx", "scan") for j in jobs):
        from rsxdrv import ensure_built
        err = ensure_built()
        if err:
            say("INCONCLUSIVE property=%s rsx does not build: %s" % (prop, err))
            return 2

    with cf.ThreadPoolExecutor(max_workers=a.jobs) as ex:
        for job, r in ex.map(runner, jobs):
            results.append((job, r))

    # Solver time caps and job timeouts are wall-clock: on a loaded machine a core obligation can come
    # back undecided ("unknown" from the non-linear core, job timeout). Each such job is run once more,
    # alone, with every cap scaled up; only the second verdict counts (a pass is a pass of the same
    # obligation, an undecided second run stays inconclusive).
    retry = [i for i, (job, r) in enumerate(results) if job.core and job.kind in ("rsx", "kani") and r["status"] in ("timeout", "error")
             and re.search(r"answered unknown|no result within|time-budget|timed out|timeout|out of memory|without a failed check", r.get("detail", "") + r["status"])]
    # a timeout is only worth a second attempt when the budget was tight relative to the measured cost
    # (machine load slows a job 3-4x; a job that used 8x its cost or more has exploded on changed code)
    retry = [i for i in retry if not (results[i][1]["status"] == "timeout" and results[i][0].timeout >= 8 * max(results[i][0].cost, 1))]
    for i in retry[:8]:
        job, r0 = results[i]
        say("  [%s] retrying alone with scaled time caps: %s (%s)" % (prop, job.id[:70], r0.get("detail", "")[:80]))
        old_to = job.timeout
        job.timeout = int(job.timeout * 2.5)
        try:
            if job.kind == "rsx":
                from rsxdrv import run_rsx
                r, out = run_rsx(job, scratch, seed, slow=True)
            else:
                r, out = run_kani(job, scratch)
        finally:
            job.timeout = old_to
        r["first_attempt"] = "%s %s" % (r0["status"], r0.get("detail", "")[:120])
        with open(os.path.join(logdir, re.sub(r"[^A-Za-z0-9_.+-]", "_", job.id)[:150] + ".retry.log"), "w") as f:
            f.write(out)
        say("  [%s] %-70s %-8s %6.1fs (retry)" % (prop, job.id[:70], r["status"], r["wall_s"]))
        results[i] = (job, r)

    violations = []
    known_lines = []
    inconclusive = []
    further = []
    replays_run = 0
    for job, r in results:
        if r["status"] == "pass":
            continue
        if r["status"] in ("timeout", "error", "unsupported"):
            if job.core:
                inconclusive.append("%s: %s %s" % (job.id, r["status"], r.get("detail", "")))
            else:
                r["note"] = "deepening obligation reached its bound without a verdict; neither pass nor failure"
            continue
        if r["status"] == "cex":
            if job.kind == "kani":
                failed = r["failed_checks"]

                def kn(f):
                    for k in known:
                        if k.get("status") == "open" and k["harness"] == job.name and re.search(k["label"], f["desc"] + " @ " + f["loc"]):
                            return k
                    return None
                unk = [f for f in failed if kn(f) is None]
                kns = [(f, kn(f)) for f in failed if kn(f) is not None]
                if len(violations) >= REPLAY_CAP:
                    # enough natively reproduced violations to report: further counterexamples are listed, not replayed
                    r["replay"] = {"skipped": "replay cap reached (%d reproduced violations already)" % len(violations)}
                    for f, k in kns:
                        known_lines.append("KNOWN-FINDING: property=%s %s [%s; harness %s, check \"%s\"; playback skipped]" % (prop, k["what"], k["id"], job.name, f["desc"]))
                    if unk:
                        further.append("%s: %s" % (job.id, "; ".join(f["desc"] for f in unk)[:200]))
                    continue
                rep = replay_kani(job, scratch, prop)
                replays_run += rep["generated"]
                r["replay"] = {k: rep[k] for k in ("reproduced", "release", "generated")}
                for f, k in kns:
                    known_lines.append("KNOWN-FINDING: property=%s %s [%s; harness %s, check \"%s\"%s]" % (
                        prop, k["what"], k["id"], job.name, f["desc"],
                        "" if f["desc"] in rep["reproduced"] else "; playback n/a"))
                if unk:
                    repro = [f for f in unk if f["desc"] in rep["reproduced"]]
                    # MUSTNOT covers and checks Kani makes no playback for: decide on any reproduced test
                    if repro or (rep["reproduced"] and all(f["loc"] == "cover" for f in unk)):
                        path = write_replay(prop, job, rep, unk)
                        violations.append((job, unk, path))
                    else:
                        inconclusive.append("%s: counterexample for %s did not reproduce on the native build (%s)" % (
                            job.id, [f["desc"] for f in unk], rep.get("detail", rep.get("detail_dev", "tests passed natively"))))
            else:
                if len(violations) >= REPLAY_CAP and not any(k.get("status") == "open" and k.get("harness") == job.harness for k in known):
                    r["replay"] = {"skipped": "replay cap reached (%d reproduced violations already)" % len(violations)}
                    further.append("%s: %s" % (job.id, "; ".join(sorted(set(e["label"] for e in r.get("sat", []))))[:200]))
                    continue
                from rsxdrv import triage_rsx
                v, kl, inc, nrep = triage_rsx(prop, job, r, known, scratch)
                replays_run += nrep
                violations += v
                known_lines += kl
                inconclusive += inc

    # evidence
    ev = build_evidence(prop, tier, seed, results, violations, known_lines, inconclusive, replays_run,
                        time.time() - t_start)
    os.makedirs(os.path.join(VERIF, "evidence"), exist_ok=True)
    with open(os.path.join(VERIF, "evidence", prop + ".json"), "w") as f:
        json.dump(ev, f, indent=1)
        f.write("\n")
    if not a.keep_logs and not violations and not inconclusive:
        shutil.rmtree(logdir, ignore_errors=True)

    for l in sorted(set(known_lines)):
        say(l)
    if violations:
        for job, failed, path in violations:
            say("  counterexample in %s: %s" % (job.id, "; ".join(f["desc"] for f in failed)[:400]))
            say("VIOLATION property=%s replay=%s" % (prop, path))
        for l in further[:40]:
            say("  further counterexample (not replayed, %d violations already reproduced): %s" % (len(violations), l))
        return 1
    if inconclusive:
        for l in inconclusive:
            say("INCONCLUSIVE property=%s %s" % (prop, l[:600]))
        return 2
    n_pass = sum(1 for _, r in results if r["status"] == "pass")
    say("OK property=%s tier=%s obligations=%d passed=%d known_findings=%d wall=%.0fs" % (
        prop, tier, len(results), n_pass, len(set(known_lines)), time.time() - t_start))
    return 0


def build_evidence(prop, tier, seed, results, violations, known_lines, inconclusive, replays_run, wall):
    import registry
    states = 0
    transitions = 0
    traces = replays_run
    samples = []
    encodes = set()
    solver_s = 0.0
    stubs = set()
    queries = 0
    nontrivial = 0
    for job, r in results:
        encodes.update(job.encodes)
        if r.get("engine") == "kani":
            states += 1
            transitions += r.get("properties_checked", 0) or 0
            queries += r.get("properties_checked", 0) or 0
            nontrivial += 1 if (r.get("properties_checked") or 0) > 0 else 0
            solver_s += r.get("solver_s") or 0.0
            stubs.update(r.get("stubs") or [])
        elif r.get("engine") == "scan":
            states += 1
            transitions += r.get("items", 0)
            queries += r.get("items", 0)
            nontrivial += 1
        else:
            states += r.get("paths", 0)
            transitions += r.get("obligations", 0)
            queries += r.get("queries", 0)
            nontrivial += r.get("nontrivial", 0)
            traces += r.get("validated", 0)
            solver_s += r.get("solver_s") or 0.0
    for job, r in results[:]:
        s = {k: v for k, v in r.items() if k in ("job", "engine", "bounds", "status", "wall_s", "solver_s",
                                                     "properties_checked", "covers_satisfied", "paths",
                                                     "obligations", "allowed_panics", "detail", "note",
                                                     "failed_checks", "replay", "sample_obligation", "core",
                                                     "validated", "sat", "cvc5_checked", "stubs", "mode", "items")}
        samples.append(s)
    info = registry.PROPS.get(prop, {})
    ev = {
        "property_id": prop,
        "tier": tier,
        "seed": seed,
        "level": "model_checking",
        "coverage": {
            "states": max(states, 0),
            "transitions": transitions,
            "traces_validated_against_impl": traces,
            "samples": samples,
            "evaluations": queries,
            "distinct_nontrivial": nontrivial,
            "rule": "K: one 'state' per Kani harness decided, one 'transition' per CBMC property checked in it (harness assertions + Kani's overflow/bounds/pointer checks), all with unwinding assertions on. X: one 'state' per feasible symbolic path of the interpreted source, one 'transition' per (path, assertion) obligation sent to z3 as PC & assumptions & not(assertion); non-trivial = negated assertion not syntactically false after simplification. traces_validated = concrete playbacks run natively (K) + interpreter-vs-native bit-equality comparisons (X translator validation).",
            "functions_encoded": sorted(encodes),
            "repo_source_hash": src_hash(repo_sources()),
            "solver_time_s": round(solver_s, 2),
            "queries_discharged": queries,
            "stubs": sorted(stubs),
            "obligations_total": len(results),
            "obligations_passed": sum(1 for _, r in results if r["status"] == "pass"),
            "obligations_without_verdict": [r["job"] for _, r in results if r["status"] in ("timeout", "error", "unsupported")],
            "known_findings_seen": sorted(set(known_lines)),
            "inconclusive": inconclusive,
            "bounds": info.get("bounds", {}).get(tier, info.get("bounds", "")),
            "outside_claim": info.get("outside", []),
            "exhaustive": False,
        },
        "assumptions": info.get("assumptions", []),
        "wall_s": round(wall, 1),
        "violations": len(violations),
    }
    if ev["coverage"]["states"] < 1:
        ev["coverage"]["states"] = 1 if results else 0
    return ev
