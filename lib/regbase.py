from driver import KaniJob as K, RsxJob as X  # noqa: F401
