from driver import KaniJob as K, RsxJob as X, ScanJob as S  # noqa: F401
