#!/usr/bin/env python3
"""Generates kani/src/c11_set.rs (C11 clause iii: IndicatorConfig::set) and the field table
reg/tab_c11.py from the indicator sources.

    python3 kani/gen_c11.py <repo> <verif-dir>

For every `pub struct <Cfg>` that implements IndicatorConfig the public fields and their types are
read from the source (NOT from the body of `set`: the point of the property is that `set` covers
every public field).  One harness per (config, field group); a field group is normally all fields of
the config; SPLIT lists configs whose fields get a harness of their own (used to isolate a defect
to the failing field and keep the complement passing).
"""
import glob
import os
import re
import sys

SPLIT = {"AwesomeOscillator": ["conseq_peaks"], "ChaikinOscillator": ["window"]}

MA_KINDS = ["sma", "wma", "hma", "rma", "ema", "dma", "tma", "dema", "tema", "wsma", "smm", "swma", "trima", "linreg", "vidya"]
MA_VARIANT = {"sma": "SMA", "wma": "WMA", "hma": "HMA", "rma": "RMA", "ema": "EMA", "dma": "DMA", "tma": "TMA", "dema": "DEMA",
              "tema": "TEMA", "wsma": "WSMA", "smm": "SMM", "swma": "SWMA", "trima": "TRIMA", "linreg": "LinReg", "vidya": "Vidya"}
SOURCES = {"close": "Close", "open": "Open", "high": "High", "low": "Low", "hl2": "HL2", "tp": "TP", "hlc3": "TP",
           "volume": "Volume", "volumed_price": "VolumedPrice"}


def parse_repo(repo):
    res = []
    for f in sorted(glob.glob(os.path.join(repo, "src/indicators/*.rs"))):
        b = os.path.basename(f)
        if b in ("mod.rs", "example.rs"):
            continue
        s = re.sub(r"^\s*//.*$", "", open(f).read(), flags=re.M)
        m = re.search(r"impl(?:<[^>]*>)?\s+IndicatorConfig for (\w+)", s)
        if not m:
            continue
        cfg = m.group(1)
        sm = re.search(r"pub struct %s(?:<[^>]*>)?\s*\{(.*?)\n\}" % cfg, s, re.S)
        fields = re.findall(r"^\s*(pub(?:\([a-z]+\))?\s+)?(\w+):\s*([^,\n]+),", sm.group(1), re.M)
        name = re.search(r"const NAME: &'static str = \"([^\"]*)\"", s).group(1)
        res.append({"cfg": cfg, "file": b, "name": name,
                    "fields": [(n, t.strip()) for p, n, t in fields if p.strip() == "pub"],
                    "private": [n for p, n, t in fields if p.strip() != "pub"]})
    return res


def slots_of(t):
    return 2 if t == "M" else 1


def literals(t):
    """(text, rust expression of the expected slot values | '@CONST' | None if the text must be rejected)"""
    if t in ("PeriodType", "u8"):
        acc = [("7", 7), ("0", 0), ("255", 255), ("+7", 7)]
        rej = ["x", "-1", "", "1.5", " 7"]
        r = [(a, "[%d, 0]" % v) for a, v in acc] + [(x, None) for x in rej]
        r.append(("256", None if t == "u8" else "@P256"))
        return r
    if t == "ValueType":
        lit = {"0.25": "0.25", "-1": "-1.0", "1e3": "1000.0", "0": "0.0"}
        rej = ["abc", "", "1,5"]
        return [(a, "[fb(%s), 0]" % v) for a, v in lit.items()] + [(x, None) for x in rej]
    if t == "bool":
        return [("true", "[1, 0]"), ("false", "[0, 0]")] + [(x, None) for x in ("1", "True", "")]
    if t == "Source":
        acc = [("HLC3", "TP"), ("close", "Close"), ("hl2", "HL2"), ("tp", "TP"), ("volumed_price", "VolumedPrice")]
        rej = ["ohlc4", "", "clos"]
        return [(a, "[Source::%s as u8 as u64, 0]" % v) for a, v in acc] + [(x, None) for x in rej]
    if t == "M":
        acc = [("ema-7", "ma2(&MA::EMA(7))"), ("sma-4", "ma2(&MA::SMA(4))"), ("linreg-255", "ma2(&MA::LinReg(255))"), ("vidya-0", "ma2(&MA::Vidya(0))")]
        rej = ["sma", "xyz-3", "sma-x", "SMA-3"]
        return acc + [(x, None) for x in rej] + [("sma-256", "@MA256")]
    raise SystemExit("unknown field type %r: extend gen_c11.py" % t)


# complete literal lists for the shared FromStr implementations (checked once, not per field)
def parse_lists():
    ma = [("%s-%d" % (k, 3 + i), "ma2(&MA::%s(%d))" % (MA_VARIANT[k], 3 + i)) for i, k in enumerate(MA_KINDS)]
    ma += [("sma-0", "ma2(&MA::SMA(0))"), ("ema-255", "ma2(&MA::EMA(255))"), ("sma-007", "ma2(&MA::SMA(7))"), ("sma-+7", "ma2(&MA::SMA(7))")]
    ma += [(x, None) for x in ["sma", "xyz-3", "sma-x", "sma-", "-3", "SMA-3", "sma-3-4", "", "sma 3", "sma--3", " sma-3", "sma-3 ", "lin_reg-3", "-", "sma-1.5"]]
    ma.append(("sma-256", "@MA256"))
    src = [(a, "[Source::%s as u8 as u64, 0]" % v) for a, v in list(SOURCES.items()) + [("Close", "Close"), ("HLC3", "TP"), ("Hl2", "HL2"), (" close ", "Close"), ("VOLUMED_PRICE", "VolumedPrice"), ("TP", "TP")]]
    src += [(x, None) for x in ["", "clos", "closee", "ohlc4", "hl3", "volumed price", "c", "cl ose", "hlc", "typical"]]
    return ma, src


def any_expr(t):
    return {"PeriodType": "kani::any::<PeriodType>()", "u8": "kani::any::<u8>()", "ValueType": "kani::any::<ValueType>()",
            "bool": "kani::any::<bool>()", "Source": "any_source()", "M": "any_ma()"}[t]


def snap_expr(n, t):
    return {"PeriodType": "[c.%s as u64]" % n, "u8": "[c.%s as u64]" % n, "ValueType": "[fb(c.%s)]" % n,
            "bool": "[c.%s as u64]" % n, "Source": "[c.%s as u8 as u64]" % n, "M": "ma2(&c.%s)" % n}[t]


def unknown_names(fields):
    """every field name with one character dropped / added, case changed; the empty name; 'foo'"""
    names = [n for n, _ in fields]
    cand = ["", "foo", " "]
    for n in names:
        cand += [n[:-1], n + "x", n[1:], n[0].upper() + n[1:]]
    out = []
    for c in cand:
        if c not in names and c not in out:
            out.append(c)
    return out


HEAD = '''//! C11 (iii) — `IndicatorConfig::set(name, text)`: GENERATED by kani/gen_c11.py from the public
//! fields of every indicator configuration struct — do not edit, regenerate.
//!
//! For every public field and every literal of the per-type literal set, from a fully symbolic
//! prior configuration: an accepted literal makes `set` return Ok, the named field holds the parsed
//! value and every other field is bitwise unchanged; a rejected literal or an unknown name returns
//! Err and leaves the whole configuration bitwise unchanged.  Texts and names are concrete (a
//! symbolic text is unaffordable: integer/float parsing of symbolic bytes), the configuration is
//! symbolic.  A configuration is observed as a vector of 64-bit slots (float: bits; MA: kind, length).
use yata::core::{IndicatorConfig, PeriodType, Source, ValueType};
use yata::helpers::MA;
use yata::indicators::*;

/// "256" / "sma-256": out of range for the default PeriodType = u8, a value for the wider ones
#[cfg(not(any(feature = "p16", feature = "p32", feature = "p64")))]
const P256: Option<[u64; 2]> = None;
#[cfg(any(feature = "p16", feature = "p32", feature = "p64"))]
const P256: Option<[u64; 2]> = Some([256, 0]);
#[cfg(not(any(feature = "p16", feature = "p32", feature = "p64")))]
const MA256: Option<[u64; 2]> = None;
#[cfg(any(feature = "p16", feature = "p32", feature = "p64"))]
const MA256: Option<[u64; 2]> = Some([0, 256]);

#[inline]
fn fb(x: ValueType) -> u64 {
	x.to_bits() as u64
}
/// (kind, length) of a moving average constructor, by an own match (not ma_type()/ma_period())
fn ma2(m: &MA) -> [u64; 2] {
	match *m {
		MA::SMA(n) => [0, n as u64],
		MA::WMA(n) => [1, n as u64],
		MA::HMA(n) => [2, n as u64],
		MA::RMA(n) => [3, n as u64],
		MA::EMA(n) => [4, n as u64],
		MA::DMA(n) => [5, n as u64],
		MA::TMA(n) => [6, n as u64],
		MA::DEMA(n) => [7, n as u64],
		MA::TEMA(n) => [8, n as u64],
		MA::WSMA(n) => [9, n as u64],
		MA::SMM(n) => [10, n as u64],
		MA::SWMA(n) => [11, n as u64],
		MA::TRIMA(n) => [12, n as u64],
		MA::LinReg(n) => [13, n as u64],
		MA::Vidya(n) => [14, n as u64],
		_ => [99, 0],
	}
}
pub(crate) fn any_ma() -> MA {
	let n: PeriodType = kani::any();
	let k: u8 = kani::any();
	match k {
		0 => MA::SMA(n),
		1 => MA::WMA(n),
		2 => MA::HMA(n),
		3 => MA::RMA(n),
		4 => MA::EMA(n),
		5 => MA::DMA(n),
		6 => MA::TMA(n),
		7 => MA::DEMA(n),
		8 => MA::TEMA(n),
		9 => MA::WSMA(n),
		10 => MA::SMM(n),
		11 => MA::SWMA(n),
		12 => MA::TRIMA(n),
		13 => MA::LinReg(n),
		_ => MA::Vidya(n),
	}
}
pub(crate) fn any_source() -> Source {
	let k: u8 = kani::any();
	match k {
		0 => Source::Close,
		1 => Source::Open,
		2 => Source::High,
		3 => Source::Low,
		4 => Source::HL2,
		5 => Source::TP,
		6 => Source::Volume,
		_ => Source::VolumedPrice,
	}
}
/// slots `lo..lo+w` of `after` hold `want`, every other slot equals `before` (symbolic slot index)
fn only_changed<const K: usize>(before: &[u64; K], after: &[u64; K], lo: usize, w: usize, want: [u64; 2]) -> bool {
	let q: usize = kani::any();
	kani::assume(q < K);
	if q >= lo && q < lo + w {
		after[q] == want[q - lo]
	} else {
		after[q] == before[q]
	}
}
fn unchanged<const K: usize>(before: &[u64; K], after: &[u64; K]) -> bool {
	let q: usize = kani::any();
	kani::assume(q < K);
	after[q] == before[q]
}
'''


def rs_str(s):
    return '"' + s.replace("\\", "\\\\").replace('"', '\\"') + '"'


QUICK_ACC = {"PeriodType": "7", "u8": "7", "ValueType": "0.25", "bool": "true", "Source": "HLC3", "M": "ema-7"}
QUICK_REJ = {"PeriodType": "256", "u8": "256", "ValueType": "abc", "bool": "1", "Source": "ohlc4", "M": "sma-256"}  # out-of-range numbers are the subtle rejected texts (a parse through a wider type accepts them)
WEIGHT = {"PeriodType": 1, "u8": 1, "ValueType": 1.5, "bool": 1, "Source": 3, "M": 3, "unknown": 1.5}
BUDGET = 12  # weight per harness (a harness with more set calls costs CBMC superlinearly: every free() lengthens the deallocation chain every later pointer check looks at)


def chunks(calls, budget):
    cur, w, res = [], 0, []
    for c, cw in calls:
        if cur and w + cw > budget:
            res.append(cur)
            cur, w = [], 0
        cur.append(c)
        w += cw
    if cur:
        res.append(cur)
    return res


def gen(table):
    out = [HEAD]
    harnesses = []
    for e in table:
        cfg, fields = e["cfg"], e["fields"]
        lc = cfg.lower()
        K = sum(slots_of(t) for _, t in fields)
        out.append("// " + "-" * 70 + "\n// %s (%s)\n" % (cfg, e["file"]))
        out.append("fn any_%s() -> %s {\n\t%s {\n%s\t}\n}\n" % (lc, cfg, cfg, "".join("\t\t%s: %s,\n" % (n, any_expr(t)) for n, t in fields)))
        snap = ["fn snap_%s(c: &%s) -> [u64; %d] {\n\tlet mut s = [0u64; %d];\n" % (lc, cfg, K, K)]
        offs = {}
        o = 0
        for n, t in fields:
            offs[n] = o
            w = slots_of(t)
            snap.append("\tlet v = %s;\n" % snap_expr(n, t))
            for k in range(w):
                snap.append("\ts[%d] = v[%d];\n" % (o + k, k))
            o += w
        snap.append("\ts\n}\n")
        out.append("".join(snap))
        for n, t in fields:
            out.append("fn set_%s_%s(c0: &%s, text: &str, want: Option<[u64; 2]>) {\n" % (lc, n, cfg) +
                       "\tlet before = snap_%s(c0);\n\tlet mut c = c0.clone();\n\tlet r = c.set(%s, text.to_string());\n\tlet after = snap_%s(&c);\n" % (lc, rs_str(n), lc) +
                       "\tmatch want {\n\t\tSome(want) => {\n\t\t\tassert!(r.is_ok(), \"set %s: a valid text is accepted\");\n" % n +
                       "\t\t\tassert!(only_changed(&before, &after, %d, %d, want), \"set %s: the field holds the parsed value, every other field unchanged\");\n\t\t}\n" % (offs[n], slots_of(t), n) +
                       "\t\tNone => {\n\t\t\tassert!(r.is_err(), \"set %s: an unparsable text is rejected\");\n" % n +
                       "\t\t\tassert!(unchanged(&before, &after), \"set %s: a rejected text leaves the configuration unchanged\");\n\t\t}\n\t}\n}\n" % n)
        out.append("fn unknown_%s(c0: &%s, name: &str) {\n\tlet before = snap_%s(c0);\n\tlet mut c = c0.clone();\n\tlet r = c.set(name, \"7\".to_string());\n\tlet after = snap_%s(&c);\n" % (lc, cfg, lc, lc) +
                   "\tassert!(r.is_err(), \"set: an unknown parameter name is rejected\");\n\tassert!(unchanged(&before, &after), \"set: an unknown name leaves the configuration unchanged\");\n}\n")

        def call(n, t, lit):
            text, want = lit
            w = want[1:] if want and want.startswith("@") else ("Some(%s)" % want if want else "None")
            return ("\tset_%s_%s(&c0, %s, %s);\n" % (lc, n, rs_str(text), w), WEIGHT[t])

        def emit(hname, doc, calls, failing, tier):
            body = "/// %s\n#[kani::proof]\n#[kani::unwind(26)]\nfn %s() {\n\tlet c0 = any_%s();\n" % (doc, hname, lc)
            if failing:
                body += "\tkani::cover!(snap_%s(&c0)[0] == 3, \"before the first call\");\n" % lc
            body += "".join(calls)
            if not failing:
                body += "\tkani::cover!(true, \"end reached\");\n"
            body += "}\n"
            out.append(body)
            harnesses.append({"harness": hname, "cfg": cfg, "file": e["file"], "calls": len(calls), "tier": tier, "doc": doc})

        split = SPLIT.get(cfg, [])
        unk = unknown_names(fields)
        unk_q = [u for u in unk if u == fields[0][0][:-1]] or unk[:1]
        groups = [("", [f for f in fields if f[0] not in split], True)] + [("_" + sn, [f for f in fields if f[0] == sn], False) for sn in split]
        for suffix, gfields, with_unknown in groups:
            if not gfields:
                continue
            failing = not with_unknown
            q, rest = [], []
            seen_types = set()
            for n, t in gfields:
                for lit in literals(t):
                    quick = lit[0] == QUICK_ACC[t] or lit[0] == QUICK_REJ[t]
                    (q if quick else rest).append(call(n, t, lit))
                seen_types.add(t)
            if with_unknown:
                q += [("\tunknown_%s(&c0, %s);\n" % (lc, rs_str(u)), WEIGHT["unknown"]) for u in unk_q]
                rest += [("\tunknown_%s(&c0, %s);\n" % (lc, rs_str(u)), WEIGHT["unknown"]) for u in unk if u not in unk_q]
            fl = ", ".join(n for n, _ in gfields)
            for k, ch in enumerate(chunks(q, BUDGET)):
                emit("c11_set_%s%s_q%d" % (lc, suffix, k), "%s::set, quick part %d: one accepted and one rejected text per field%s; fields %s" % (
                    cfg, k, ", one unknown name" if with_unknown else "", fl), ch, failing, "q")
            for k, ch in enumerate(chunks(rest, BUDGET)):
                emit("c11_set_%s%s_t%d" % (lc, suffix, k), "%s::set, remaining texts%s, part %d; fields %s" % (cfg, " and unknown names" if with_unknown else "", k, fl),
                     ch, failing, "t")
    # the shared FromStr implementations, complete literal lists
    ma, src = parse_lists()
    out.append("// " + "-" * 70 + "\n// shared parsers\n")
    out.append("fn parse_ma(text: &str, want: Option<[u64; 2]>) {\n\tlet r = text.parse::<MA>();\n\tmatch want {\n\t\tSome(w) => assert!(r.is_ok() && ma2(&r.unwrap()) == w, \"MA::from_str: value of a valid text\"),\n\t\tNone => assert!(r.is_err(), \"MA::from_str: an invalid text is rejected\"),\n\t}\n}\n")
    out.append("fn parse_source(text: &str, want: Option<[u64; 2]>) {\n\tlet r = text.parse::<Source>();\n\tmatch want {\n\t\tSome(w) => assert!(r.is_ok() && r.unwrap() as u8 as u64 == w[0], \"Source::from_str: value of a valid text\"),\n\t\tNone => assert!(r.is_err(), \"Source::from_str: an invalid text is rejected\"),\n\t}\n}\n")
    for nm, fn, lst in (("ma", "parse_ma", ma), ("source", "parse_source", src)):
        calls = [("\t%s(%s, %s);\n" % (fn, rs_str(t), w[1:] if w and w.startswith("@") else ("Some(%s)" % w if w else "None")), 1) for t, w in lst]
        for k, ch in enumerate(chunks(calls, 8)):
            hname = "c11_parse_%s_%d" % (nm, k)
            out.append("/// %s on the complete literal list, part %d\n#[kani::proof]\n#[kani::unwind(26)]\nfn %s() {\n%s\tkani::cover!(true, \"end reached\");\n}\n" % (fn, k, hname, "".join(ch)))
            harnesses.append({"harness": hname, "cfg": "", "file": "helpers/methods.rs" if nm == "ma" else "core/candles.rs", "calls": len(ch), "tier": "q" if k == 0 else "t",
                              "doc": "%s::from_str on the complete literal list, part %d: %s" % ("MA" if nm == "ma" else "Source", k, " ".join(repr(c.split('(')[1].split(',')[0]) for c in ch))})
    return "\n".join(out), harnesses


def main():
    repo, verif = sys.argv[1], sys.argv[2]
    table = parse_repo(repo)
    code, harnesses = gen(table)
    open(os.path.join(verif, "kani/src/c11_set.rs"), "w").write(code)
    with open(os.path.join(verif, "reg/tab_c11.py"), "w") as f:
        f.write("# GENERATED by kani/gen_c11.py — the public fields of every indicator configuration as read from the source\n")
        f.write("TABLE = %r\n" % [{"cfg": e["cfg"], "file": e["file"], "name": e["name"], "fields": e["fields"]} for e in table])
        f.write("SET_HARNESSES = %r\n" % harnesses)
        f.write("LITERALS = %r\n" % {t: [(a, b is not None) for a, b in literals(t)] for t in ("PeriodType", "u8", "ValueType", "bool", "Source", "M")})
    print("%d configurations, %d fields, %d set harnesses" % (len(table), sum(len(e["fields"]) for e in table), len(harnesses)))


if __name__ == "__main__":
    main()
