//! C14 — crossing and reversal detectors are definitional.
//!
//! Crossing: the whole state of CrossAbove / CrossUnder / Cross is the previous difference
//! `value - base`, and every such state is produced by `new((), &(a0, b0))`.  One `next`
//! (or `binary`) from that state therefore is the inductive step over all histories.  The
//! expected outputs are written with comparisons of the inputs (`a < b` instead of
//! `a - b < 0`, exact in IEEE arithmetic with gradual underflow), so no float operation
//! of the code under test is repeated in the harness.
//!
//! Reversal: comparison-only code; (left, right) concrete, `left+right+1+4` unrestricted
//! finite inputs, the first one being the construction value (the API prescribes that the
//! stream starts with the initial value).  Rule asserted at every step i (0-based), with
//! p = i - right the pivot position and the construction value as infinite prehistory:
//!   upper fires  iff  i >= right  and  x[p] >= x[j] for the `left` elements before p
//!                                 and  x[p] >  x[j] for the `right` elements after p
//!   lower fires  iff  the same with <= / <
//! i.e. the pivot is the extremum of its window of left+right+1 elements and of two equal
//! extrema the NEWEST wins (source: `>=` / `<=` in the code, and the expectations of
//! reversal::tests::test_reverse_low at positions 11, 14 and 16).  Both single detectors
//! answer BUY_ALL / None; ReversalSignal is lower - upper: BUY_ALL / SELL_ALL / None.
use crate::util::*;
use yata::core::{Action, Method, PeriodType, ValueType};
use yata::methods::{Cross, CrossAbove, CrossUnder, LowerReversalSignal, ReversalSignal, UpperReversalSignal};

fn same(a: Action, b: Action) -> bool {
	match (a, b) {
		(Action::Buy(x), Action::Buy(y)) | (Action::Sell(x), Action::Sell(y)) => x == y,
		(Action::None, Action::None) => true,
		_ => false,
	}
}

fn fire(b: bool) -> Action {
	if b {
		Action::BUY_ALL
	} else {
		Action::None
	}
}

// ---------------------------------------------------------------------------------------
// crossing detectors

/// CrossAbove::next: two steps from an arbitrary state (the second step checks that the
/// first one stored the new difference)
#[kani::proof]
#[kani::unwind(2)]
fn c14_cross_above_next() {
	let (a0, b0, a1, b1, a2, b2) = (any_val(), any_val(), any_val(), any_val(), any_val(), any_val());
	let mut m = CrossAbove::new((), &(a0, b0)).unwrap();
	let r1 = m.next(&(a1, b1));
	assert!(same(r1, fire(a0 < b0 && a1 >= b1)), "cross above next: fires iff below before and not below now");
	let r2 = m.next(&(a2, b2));
	assert!(same(r2, fire(a1 < b1 && a2 >= b2)), "cross above next: second step uses the first step's difference");
	kani::cover!(a0 < b0 && a1 == b1, "touch from below fires");
	kani::cover!(a1 == b1 && a2 > b2, "leaving a touch upwards does not fire");
	kani::cover!(a0 < b0 && a1 > b1 && a2 < b2, "up then down");
}

/// CrossAbove::binary: same as next, as bool
#[kani::proof]
#[kani::unwind(2)]
fn c14_cross_above_binary() {
	let (a0, b0, a1, b1, a2, b2) = (any_val(), any_val(), any_val(), any_val(), any_val(), any_val());
	let mut m = CrossAbove::new((), &(a0, b0)).unwrap();
	let r1 = m.binary(a1, b1);
	assert!(r1 == (a0 < b0 && a1 >= b1), "cross above binary: fires iff below before and not below now");
	let r2 = m.binary(a2, b2);
	assert!(r2 == (a1 < b1 && a2 >= b2), "cross above binary: second step uses the first step's difference");
	kani::cover!(r1 && !r2, "fire then silent");
	kani::cover!(!r1 && r2, "silent then fire");
}

/// CrossUnder::next, mirrored
#[kani::proof]
#[kani::unwind(2)]
fn c14_cross_under_next() {
	let (a0, b0, a1, b1, a2, b2) = (any_val(), any_val(), any_val(), any_val(), any_val(), any_val());
	let mut m = CrossUnder::new((), &(a0, b0)).unwrap();
	let r1 = m.next(&(a1, b1));
	assert!(same(r1, fire(a0 > b0 && a1 <= b1)), "cross under next: fires iff above before and not above now");
	let r2 = m.next(&(a2, b2));
	assert!(same(r2, fire(a1 > b1 && a2 <= b2)), "cross under next: second step uses the first step's difference");
	kani::cover!(a0 > b0 && a1 == b1, "touch from above fires");
	kani::cover!(a1 == b1 && a2 < b2, "leaving a touch downwards does not fire");
}

/// CrossUnder::binary
#[kani::proof]
#[kani::unwind(2)]
fn c14_cross_under_binary() {
	let (a0, b0, a1, b1, a2, b2) = (any_val(), any_val(), any_val(), any_val(), any_val(), any_val());
	let mut m = CrossUnder::new((), &(a0, b0)).unwrap();
	let r1 = m.binary(a1, b1);
	assert!(r1 == (a0 > b0 && a1 <= b1), "cross under binary: fires iff above before and not above now");
	let r2 = m.binary(a2, b2);
	assert!(r2 == (a1 > b1 && a2 <= b2), "cross under binary: second step uses the first step's difference");
	kani::cover!(r1 && !r2, "fire then silent");
	kani::cover!(!r1 && r2, "silent then fire");
}

fn cross_want(up: bool, down: bool) -> Action {
	if up {
		Action::BUY_ALL
	} else if down {
		Action::SELL_ALL
	} else {
		Action::None
	}
}

/// Cross::next = CrossAbove - CrossUnder, two steps from an arbitrary state
#[kani::proof]
#[kani::unwind(2)]
fn c14_cross_next() {
	let (a0, b0, a1, b1, a2, b2) = (any_val(), any_val(), any_val(), any_val(), any_val(), any_val());
	let mut m = Cross::new((), &(a0, b0)).unwrap();
	let r1 = m.next(&(a1, b1));
	let up1 = a0 < b0 && a1 >= b1;
	let dn1 = a0 > b0 && a1 <= b1;
	assert!(!(up1 && dn1), "cross: up and down exclude each other");
	assert!(same(r1, cross_want(up1, dn1)), "cross next: BUY_ALL on up-cross, SELL_ALL on down-cross, None otherwise");
	let r2 = m.next(&(a2, b2));
	assert!(same(r2, cross_want(a1 < b1 && a2 >= b2, a1 > b1 && a2 <= b2)), "cross next: second step uses the first step's difference");
	kani::cover!(up1 && a2 < b2, "up then down");
	kani::cover!(dn1 && a1 == b1 && a2 == b2, "down-touch then staying on the line");
	kani::cover!(a0 == b0 && a1 != b1, "leaving the line is no cross");
}

/// swapping the two series negates Cross (one step from an arbitrary state)
#[kani::proof]
#[kani::unwind(2)]
fn c14_cross_swap_negates() {
	let (a0, b0, a1, b1) = (any_val(), any_val(), any_val(), any_val());
	let mut m = Cross::new((), &(a0, b0)).unwrap();
	let mut s = Cross::new((), &(b0, a0)).unwrap();
	let r = m.next(&(a1, b1));
	let q = s.next(&(b1, a1));
	assert!(same(q, -r), "cross swap: swapping the series negates the output");
	assert!(q.analog() == -r.analog(), "cross swap: analog negated");
	kani::cover!(r.analog() == 1, "up-cross");
	kani::cover!(r.analog() == -1, "down-cross");
	kani::cover!(r.is_none() && a1 == b1, "silent on the line");
}

/// Default state is the state after equal values: nothing fires on the first step
#[kani::proof]
#[kani::unwind(2)]
fn c14_cross_default() {
	let (a1, b1) = (any_val(), any_val());
	let k: u8 = kani::any();
	let r = match k % 3 {
		0 => CrossAbove::default().next(&(a1, b1)),
		1 => CrossUnder::default().next(&(a1, b1)),
		_ => Cross::default().next(&(a1, b1)),
	};
	assert!(r.is_none(), "cross default: zero previous difference never fires");
	kani::cover!(a1 > b1 && k == 2, "Cross moving up from default");
}

/// stream of four pairs started with the construction pair; each base is either an
/// independent value or exactly the value (touch: difference exactly zero)
#[kani::proof]
#[kani::unwind(5)]
fn c14_cross_sequence() {
	let a = [any_val(), any_val(), any_val(), any_val()];
	let t: [bool; 4] = kani::any();
	let b = [
		if t[0] { a[0] } else { any_val() },
		if t[1] { a[1] } else { any_val() },
		if t[2] { a[2] } else { any_val() },
		if t[3] { a[3] } else { any_val() },
	];
	let mut c = Cross::new((), &(a[0], b[0])).unwrap();
	let mut u = CrossAbove::new((), &(a[0], b[0])).unwrap();
	let mut d = CrossUnder::new((), &(a[0], b[0])).unwrap();
	// step 0 repeats the construction pair: never a cross
	assert!(c.next(&(a[0], b[0])).is_none(), "cross sequence: first input (the construction pair) is silent");
	assert!(!u.binary(a[0], b[0]) && !d.binary(a[0], b[0]), "cross sequence: first input silent (binary)");
	let c1 = c.next(&(a[1], b[1]));
	let c2 = c.next(&(a[2], b[2]));
	let c3 = c.next(&(a[3], b[3]));
	let up = |i: usize| a[i - 1] < b[i - 1] && a[i] >= b[i];
	let dn = |i: usize| a[i - 1] > b[i - 1] && a[i] <= b[i];
	assert!(same(c1, cross_want(up(1), dn(1))), "cross sequence: step 1");
	assert!(same(c2, cross_want(up(2), dn(2))), "cross sequence: step 2");
	assert!(same(c3, cross_want(up(3), dn(3))), "cross sequence: step 3");
	let u1 = u.binary(a[1], b[1]);
	let u2 = u.binary(a[2], b[2]);
	let u3 = u.binary(a[3], b[3]);
	assert!(u1 == up(1) && u2 == up(2) && u3 == up(3), "cross sequence: CrossAbove steps");
	let d1 = d.binary(a[1], b[1]);
	let d2 = d.binary(a[2], b[2]);
	let d3 = d.binary(a[3], b[3]);
	assert!(d1 == dn(1) && d2 == dn(2) && d3 == dn(3), "cross sequence: CrossUnder steps");
	assert!(c1.analog() == u1 as i8 - d1 as i8 && c3.analog() == u3 as i8 - d3 as i8, "cross sequence: Cross is above minus under");
	kani::cover!(a[0] < b[0] && t[1] && t[2] && a[3] > b[3] && c1.analog() == 1 && c2.is_none() && c3.is_none(), "below, touch (fires), touch again, above: exactly one signal");
	kani::cover!(t[0] && t[1] && t[2] && t[3], "always on the line");
	kani::cover!(a[0] > b[0] && t[1] && a[2] > b[2] && c1.analog() == -1 && c2.is_none(), "touch from above counts as down-cross, bouncing back is silent");
	kani::cover!(c1.analog() == 1 && c2.analog() == -1 && c3.analog() == 1, "three crossings in a row");
}

// ---------------------------------------------------------------------------------------
// reversal detectors

/// the definitional rule on an explicit history (module doc)
fn upper_rule(x: &[ValueType], i: usize, l: usize, r: usize) -> bool {
	if i < r {
		return false;
	}
	let p = i - r;
	let lo = if p >= l { p - l } else { 0 };
	let mut ok = true;
	let mut j = lo;
	while j < p {
		ok &= x[p] >= x[j];
		j += 1;
	}
	let mut j = p + 1;
	while j <= i {
		ok &= x[p] > x[j];
		j += 1;
	}
	ok
}

fn lower_rule(x: &[ValueType], i: usize, l: usize, r: usize) -> bool {
	if i < r {
		return false;
	}
	let p = i - r;
	let lo = if p >= l { p - l } else { 0 };
	let mut ok = true;
	let mut j = lo;
	while j < p {
		ok &= x[p] <= x[j];
		j += 1;
	}
	let mut j = p + 1;
	while j <= i {
		ok &= x[p] < x[j];
		j += 1;
	}
	ok
}

macro_rules! reversal {
	($up:ident, $lo:ident, $sig:ident, $l:expr, $r:expr, $unw:expr) => {
		/// UpperReversalSignal: (left, right) concrete, left+right+1+4 unrestricted finite inputs
		#[kani::proof]
		#[kani::unwind($unw)]
		fn $up() {
			const L: usize = $l;
			const R: usize = $r;
			const T: usize = L + R + 1 + 4;
			let mut x = [0.0 as ValueType; T];
			let mut i = 0;
			while i < T {
				x[i] = any_finite();
				i += 1;
			}
			let mut m = UpperReversalSignal::new(L as PeriodType, R as PeriodType, &x[0]).unwrap();
			let mut n = 0;
			let mut i = 0;
			while i < T {
				let w = upper_rule(&x, i, L, R);
				let u = m.next(&x[i]);
				assert!(same(u, fire(w)), "reversal: upper fires exactly `right` steps after a window maximum (newest wins ties)");
				n += w as usize;
				i += 1;
			}
			kani::cover!(n >= 2, "two upper pivots");
			kani::cover!(x[R] == x[R - 1] && upper_rule(&x, 2 * R, L, R), "pivot that ties with its left neighbour");
			kani::cover!(upper_rule(&x, T - 1, L, R), "pivot reported at the last step");
		}

		/// LowerReversalSignal
		#[kani::proof]
		#[kani::unwind($unw)]
		fn $lo() {
			const L: usize = $l;
			const R: usize = $r;
			const T: usize = L + R + 1 + 4;
			let mut x = [0.0 as ValueType; T];
			let mut i = 0;
			while i < T {
				x[i] = any_finite();
				i += 1;
			}
			let mut m = LowerReversalSignal::new(L as PeriodType, R as PeriodType, &x[0]).unwrap();
			let mut n = 0;
			let mut i = 0;
			while i < T {
				let w = lower_rule(&x, i, L, R);
				let u = m.next(&x[i]);
				assert!(same(u, fire(w)), "reversal: lower fires exactly `right` steps after a window minimum (newest wins ties)");
				n += w as usize;
				i += 1;
			}
			kani::cover!(n >= 2, "two lower pivots");
			kani::cover!(x[R] == x[R - 1] && lower_rule(&x, 2 * R, L, R), "pivot that ties with its left neighbour");
			kani::cover!(lower_rule(&x, T - 1, L, R), "pivot reported at the last step");
		}

		/// ReversalSignal = lower - upper
		#[kani::proof]
		#[kani::unwind($unw)]
		fn $sig() {
			const L: usize = $l;
			const R: usize = $r;
			const T: usize = L + R + 1 + 4;
			let mut x = [0.0 as ValueType; T];
			let mut i = 0;
			while i < T {
				x[i] = any_finite();
				i += 1;
			}
			let mut m = ReversalSignal::new(L as PeriodType, R as PeriodType, &x[0]).unwrap();
			let mut ups = 0;
			let mut los = 0;
			let mut i = 0;
			while i < T {
				let wu = upper_rule(&x, i, L, R);
				let wl = lower_rule(&x, i, L, R);
				let s = m.next(&x[i]);
				assert!(!(wu && wl), "reversal: a pivot is not both");
				assert!(same(s, cross_want(wl, wu)), "reversal: ReversalSignal is lower minus upper (BUY_ALL / SELL_ALL / None)");
				ups += wu as usize;
				los += wl as usize;
				i += 1;
			}
			kani::cover!(ups >= 1 && los >= 1, "both kinds in one stream");
			kani::cover!(ups >= 2, "two upper pivots");
		}
	};
}

reversal!(c14_rev_up_l1_r1, c14_rev_lo_l1_r1, c14_rev_sig_l1_r1, 1, 1, 9);
reversal!(c14_rev_up_l1_r2, c14_rev_lo_l1_r2, c14_rev_sig_l1_r2, 1, 2, 10);
reversal!(c14_rev_up_l1_r3, c14_rev_lo_l1_r3, c14_rev_sig_l1_r3, 1, 3, 11);
reversal!(c14_rev_up_l2_r1, c14_rev_lo_l2_r1, c14_rev_sig_l2_r1, 2, 1, 10);
reversal!(c14_rev_up_l2_r2, c14_rev_lo_l2_r2, c14_rev_sig_l2_r2, 2, 2, 11);
reversal!(c14_rev_up_l2_r3, c14_rev_lo_l2_r3, c14_rev_sig_l2_r3, 2, 3, 12);
reversal!(c14_rev_up_l3_r1, c14_rev_lo_l3_r1, c14_rev_sig_l3_r1, 3, 1, 11);
reversal!(c14_rev_up_l3_r2, c14_rev_lo_l3_r2, c14_rev_sig_l3_r2, 3, 2, 12);
reversal!(c14_rev_up_l3_r3, c14_rev_lo_l3_r3, c14_rev_sig_l3_r3, 3, 3, 13);

/// parameter validation: left, right >= 1 and left+right+1 <= PeriodType::MAX, nothing else
#[cfg(not(any(feature = "p16", feature = "p32", feature = "p64")))]
#[kani::proof]
#[kani::unwind(2)]
fn c14_rev_params() {
	let l: PeriodType = kani::any();
	let r: PeriodType = kani::any();
	let v = any_finite();
	let bad = l == 0 || r == 0 || (l as usize + r as usize + 1) > PeriodType::MAX as usize;
	kani::assume(bad);
	let k: u8 = kani::any();
	let e = match k % 3 {
		0 => UpperReversalSignal::new(l, r, &v).is_err(),
		1 => LowerReversalSignal::new(l, r, &v).is_err(),
		_ => ReversalSignal::new(l, r, &v).is_err(),
	};
	assert!(e, "reversal params: zero side or window above PeriodType::MAX is rejected");
	kani::cover!(l == 200 && r == 200, "overflowing sum");
	kani::cover!(l as usize + r as usize == 255, "window of 256");
	kani::cover!(l == 0 && r == 5, "zero left");
}

// long streams, (left, right) = (1, 1): a concrete prefix of PRE inputs (see long_input)
// followed by SYM symbolic integer-valued inputs; the position
// counter of the detectors reaches PeriodType::MAX (u8: 255) inside the symbolic part.
// With a window of three the rule at step i reads x[i-2], x[i-1], x[i] only (and the
// construction value = x[0] as prehistory), so the explicit history kept by the harness
// is the pair (p2, p1) of the two previous inputs, started as (x[0], x[0]).
#[cfg(not(any(feature = "p16", feature = "p32", feature = "p64")))]
const PRE: usize = 250;
#[cfg(not(any(feature = "p16", feature = "p32", feature = "p64")))]
const SYM: usize = 8;
#[cfg(not(any(feature = "p16", feature = "p32", feature = "p64")))]
const LT: usize = PRE + SYM;

/// input i of the long stream: 0, 1, -2, 3, -4, ... (expanding zigzag: every input is a new
/// maximum or a new minimum, and every second step reports a pivot) for i < PRE, then
/// symbolic integer-valued floats
#[cfg(not(any(feature = "p16", feature = "p32", feature = "p64")))]
fn long_input(i: usize) -> ValueType {
	if i < PRE {
		if i % 2 == 1 {
			i as ValueType
		} else {
			-(i as ValueType)
		}
	} else {
		kani::any::<i16>() as ValueType
	}
}

/// (lower, upper) pivot rule for (left, right) = (1, 1) at step i
fn rule11(i: usize, p2: ValueType, p1: ValueType, cur: ValueType) -> (bool, bool) {
	(i >= 1 && p1 <= p2 && p1 < cur, i >= 1 && p1 >= p2 && p1 > cur)
}

// The 255 prefix steps run in a 16 x 16 loop nest so that the unwinding bound (which also
// bounds the recursion of Action::sub inside ReversalSignal::next) stays at 17.
#[cfg(not(any(feature = "p16", feature = "p32", feature = "p64")))]
macro_rules! reversal_long {
	($first:ident, $after:ident, $ty:ident, $want:expr) => {
		/// steps 0..=254 (the first 255 inputs): definitional
		#[kani::proof]
		#[kani::unwind(17)]
		fn $first() {
			let mut m = $ty::new(1, 1, &0.0).unwrap();
			let (mut p2, mut p1) = (0.0 as ValueType, 0.0 as ValueType);
			let mut n = 0;
			let mut last = (false, false);
			let mut a = 0;
			while a < 16 {
				let mut b = 0;
				while b < 16 {
					let i = a * 16 + b;
					if i < 255 {
						let v = long_input(i);
						let (wl, wu) = rule11(i, p2, p1, v);
						assert!(same(m.next(&v), $want(wl, wu)), "reversal long: inputs 1..=255");
						if i >= PRE {
							n += (wu || wl) as usize;
						}
						last = (wl, wu);
						p2 = p1;
						p1 = v;
					}
					b += 1;
				}
				a += 1;
			}
			kani::cover!(n >= 2, "two pivots in the symbolic part");
			kani::cover!(last.1, "upper pivot due at the 255th input");
			kani::cover!(last.0, "lower pivot due at the 255th input");
		}

		/// D2 class: steps 255.. (input 256 and later).  Covers sit before the assertions.
		#[kani::proof]
		#[kani::unwind(17)]
		fn $after() {
			let mut m = $ty::new(1, 1, &0.0).unwrap();
			let (mut p2, mut p1) = (0.0 as ValueType, 0.0 as ValueType);
			let mut a = 0;
			while a < 16 {
				let mut b = 0;
				while b < 16 {
					let i = a * 16 + b;
					if i < 255 {
						let v = long_input(i);
						let _ = m.next(&v);
						p2 = p1;
						p1 = v;
					}
					b += 1;
				}
				a += 1;
			}
			kani::cover!(p1 > p2, "rising into the 256th input");
			kani::cover!(p1 < p2, "falling into the 256th input");
			let mut i = 255;
			while i < LT {
				let v = long_input(i);
				let (wl, wu) = rule11(i, p2, p1, v);
				assert!(same(m.next(&v), $want(wl, wu)), "reversal long: input 256 and later");
				p2 = p1;
				p1 = v;
				i += 1;
			}
		}
	};
}

#[cfg(not(any(feature = "p16", feature = "p32", feature = "p64")))]
reversal_long!(c14_rev_long_up_first255, c14_rev_long_up_after255, UpperReversalSignal, |_wl: bool, wu: bool| fire(wu));
#[cfg(not(any(feature = "p16", feature = "p32", feature = "p64")))]
reversal_long!(c14_rev_long_lo_first255, c14_rev_long_lo_after255, LowerReversalSignal, |wl: bool, _wu: bool| fire(wl));
#[cfg(not(any(feature = "p16", feature = "p32", feature = "p64")))]
reversal_long!(c14_rev_long_sig_first255, c14_rev_long_sig_after255, ReversalSignal, |wl: bool, wu: bool| cross_want(wl, wu));
