//! C20 — PeriodType width is only a capacity choice (K part): the integer cast
//! sites and constructor boundaries, per width. Built with the default width and
//! with the harness-crate features p16 / p32 / p64 (see reg/c20.py). The Window
//! family itself is the C01/C19 harness set re-run at CAP = 300 under the wide types.
use crate::util::*;
use yata::core::{Method, PeriodType, ValueType, Window};
use yata::helpers::Peekable;
use yata::methods::{Conv, HighestIndex, LinReg, LowestIndex, HMA, SMA, WMA};

const WIDE: bool = cfg!(any(feature = "p16", feature = "p32", feature = "p64"));
/// largest length used for float-element containers
#[cfg(not(any(feature = "p16", feature = "p32", feature = "p64")))]
const CAP: usize = 254;
#[cfg(any(feature = "p16", feature = "p32", feature = "p64"))]
const CAP: usize = 300;

/// floor(sqrt(n)) by its definition
fn is_isqrt(r: u64, n: u64) -> bool {
	r * r <= n && (r + 1) * (r + 1) > n
}

// ---------------------------------------------------------------------------
// Window::from_parts: `slice.len() as PeriodType`

/// u8: a slice of 255..=300 elements is rejected by the length assert (it is
/// evaluated on the usize length, not on the truncated one), whatever the index
#[cfg(not(any(feature = "p16", feature = "p32", feature = "p64")))]
#[kani::proof]
#[kani::unwind(2)]
fn c20_from_parts_oversized_rejected() {
	let arr: [u8; 300] = kani::any();
	let n: usize = kani::any();
	kani::assume(255 <= n && n <= 300);
	let idx: PeriodType = kani::any();
	let _w = Window::from_parts(arr[..n].to_vec().into_boxed_slice(), idx);
	kani::cover!(true, "MUSTNOT from_parts accepted a slice of PeriodType::MAX or more elements");
}

/// every width: slices of 1..=CAP elements are accepted with the untruncated length
/// (wide types: 256..=300 keep their length; the ring semantics there is the C01 set)
#[kani::proof]
#[kani::unwind(2)]
fn c20_from_parts_len_kept() {
	let (w, arr, n, idx) = any_ring::<CAP>();
	assert!(w.len() as usize == n, "from_parts: len() is the slice length");
	assert!(w.as_slice().len() == n);
	assert!(w.iter().count() == n && w.iter_rev().len() == n, "iterators see the full length");
	assert!(w.get(n as PeriodType).is_none() && w.get((n - 1) as PeriodType).is_some(), "valid indices are exactly 0..len");
	assert!(*w.oldest() == arr[idx], "oldest is slice[index]");
	kani::cover!(n == CAP && idx == CAP - 1);
	kani::cover!(n == 1);
}

// ---------------------------------------------------------------------------
// Conv::new: `weights.len() as PeriodType`

/// LEN unit weights, symbolic construction value: Err above PeriodType::MAX, Ok below.
/// The length is concrete per call (a symbolic length makes the two LEN-iteration
/// fill/sum loops branch at every step: > 600 s).
/// (The window length of an accepted Conv is not observable without serde; a
/// Serialize length probe over 2 x 254 elements ran out of 16 GB. The guard
/// `1..=PeriodType::MAX` checked here is what keeps `len as PeriodType` lossless,
/// and Window::new(n) having n slots is c01_new_is_n_copies.)
fn conv_len<const LEN: usize>() -> Option<Conv> {
	let weights: Vec<ValueType> = vec![1.0; LEN];
	let v: ValueType = any_finite();
	match Conv::new(weights, &v) {
		Ok(c) => {
			assert!(LEN < PeriodType::MAX as usize, "Conv::new accepted more weights than PeriodType can count");
			Some(c)
		}
		Err(_) => {
			assert!(LEN > PeriodType::MAX as usize, "Conv::new rejected a representable weights length");
			None
		}
	}
}

/// weight vectors of 254, 256, 257 and 300 elements (PeriodType::MAX itself is C10's subject)
#[kani::proof]
#[kani::unwind(303)]
fn c20_conv_len_cast() {
	std::mem::forget(conv_len::<254>());
	std::mem::forget(conv_len::<256>());
	std::mem::forget(conv_len::<257>());
	std::mem::forget(conv_len::<300>());
	kani::cover!(true, "all four lengths classified");
}

// ---------------------------------------------------------------------------
// HMA::new: `(length as ValueType).sqrt() as PeriodType`

/// Model of the correctly rounded IEEE square root on integer-valued arguments
/// 0 <= x <= 2^24: exactly k for x = k*k, otherwise some value strictly between k
/// and k+1, k = floor(sqrt(x)) (the distance of sqrt(x) to the next integer is at
/// least 1/(2k+2) > 2^-13, far above half an ulp in f32 and f64). Replaces
/// f64::sqrt / f32::sqrt in the HMA harnesses: CBMC's bit-precise sqrt model
/// (two nondeterministic 53-bit multiplications) did not reach a verdict within
/// 600 s even for the 256 lengths of u8. Use outside the domain is an assertion failure.
macro_rules! sqrt_model {
	($name:ident, $f:ty) => {
		pub fn $name(x: $f) -> $f {
			assert!(x >= 0.0 && x <= 16777216.0, "sqrt model: argument outside 0..=2^24");
			let n = x as u64;
			assert!(n as $f == x, "sqrt model: argument is not an integer");
			let k: u64 = kani::any();
			kani::assume(k <= 4096 && k * k <= n && n < (k + 1) * (k + 1));
			if k * k == n {
				k as $f
			} else {
				let r: $f = kani::any();
				kani::assume(r > k as $f && r < (k + 1) as $f);
				r
			}
		}
	};
}
/// same model, fully concrete for a concrete argument (keeps the window lengths of
/// HMA::new(LEN) concrete): k by a loop, needs an unwind bound above sqrt(x)
macro_rules! sqrt_model_loop {
	($name:ident, $f:ty) => {
		pub fn $name(x: $f) -> $f {
			assert!(x >= 0.0 && x <= 16777216.0, "sqrt model: argument outside 0..=2^24");
			let n = x as u64;
			assert!(n as $f == x, "sqrt model: argument is not an integer");
			let mut k: u64 = 0;
			while (k + 1) * (k + 1) <= n {
				k += 1;
			}
			// non-squares: the representative k + 1/2 of the open interval (k, k+1)
			// (only the integer part is used by the cast under test)
			if k * k == n {
				k as $f
			} else {
				k as $f + 0.5
			}
		}
	};
}
sqrt_model_loop!(sqrt_loop_f64, f64);
sqrt_model_loop!(sqrt_loop_f32, f32);
sqrt_model!(sqrt_model_f64, f64);
sqrt_model!(sqrt_model_f32, f32);

/// the cast expression of src/methods/hma.rs:78 for every length of the width
/// (u8, u16: all values; u32/u64: lengths up to 2^24, exactly representable in
/// f32 and f64): equals floor(sqrt(length))
#[kani::proof]
#[kani::unwind(2)]
#[kani::stub(f64::sqrt, sqrt_model_f64)]
#[kani::stub(f32::sqrt, sqrt_model_f32)]
fn c20_hma_sqrt_cast_expr() {
	let length: PeriodType = kani::any();
	kani::assume((length as u64) <= (1u64 << 24));
	let r = (length as ValueType).sqrt() as PeriodType;
	assert!(is_isqrt(r as u64, length as u64), "sqrt cast is floor(sqrt(length))");
	kani::cover!(length == 0);
	kani::cover!(length as u64 == (PeriodType::MAX as u64).min(1 << 24));
	kani::cover!(length == 16 && r == 4, "perfect square");
	kani::cover!(length == 15 && r == 3, "one below a perfect square");
}

/// HMA::new(length) succeeds for every 2 <= length <= CAP (the third window has
/// floor(sqrt(length)) >= 1 slots, the first length/2 >= 1)
#[kani::proof]
#[kani::unwind(2)]
#[kani::stub(f64::sqrt, sqrt_model_f64)]
#[kani::stub(f32::sqrt, sqrt_model_f32)]
fn c20_hma_new_ok() {
	let length: usize = kani::any();
	kani::assume(length <= CAP);
	let r = HMA::new(length as PeriodType, &0.0);
	assert!(r.is_ok() == (length >= 2), "HMA::new is Ok exactly for length >= 2");
	kani::cover!(length == CAP);
	kani::cover!(length == 2);
	std::mem::forget(r);
}

/// the three window lengths of HMA::new(LEN), observed through the public Serialize
/// impl with a sequence-length probe: (LEN/2, LEN, floor(sqrt(LEN))). LEN is concrete
/// per call: the element loop of serde's slice impl runs LEN/2 + LEN + sqrt(LEN) times
/// and costs ~1 s of symbolic execution per iteration once its bound is symbolic.
#[cfg(feature = "serde")]
fn hma_window_lengths<const LEN: usize>() {
	use crate::tok::*;
	let h = match HMA::new(LEN as PeriodType, &0.0) {
		Ok(h) => h,
		Err(_) => {
			assert!(false, "HMA::new failed");
			return;
		}
	};
	let mut s = Ser::<3>::seq_probe();
	assert!(to_tokens_into(&h, &mut s).is_ok() && s.n == 3, "three windows serialized");
	assert!(s.t[0].is(K::Seq, (LEN / 2) as u64), "wma1 over length/2");
	assert!(s.t[1].is(K::Seq, LEN as u64), "wma2 over length");
	assert!(s.t[2].k == K::Seq && is_isqrt(s.t[2].a, LEN as u64), "wma3 over floor(sqrt(length))");
	std::mem::forget(h);
}

/// lengths 2 (smallest), 15, 16 (around a perfect square), 63, 64
#[cfg(feature = "serde")]
#[kani::proof]
#[kani::unwind(70)]
#[kani::stub(f64::sqrt, sqrt_loop_f64)]
#[kani::stub(f32::sqrt, sqrt_loop_f32)]
fn c20_hma_window_lengths() {
	hma_window_lengths::<2>();
	hma_window_lengths::<15>();
	hma_window_lengths::<16>();
	hma_window_lengths::<63>();
	hma_window_lengths::<64>();
	kani::cover!(true, "window lengths observed");
}

// ---------------------------------------------------------------------------
// HighestIndex / LowestIndex: `index as PeriodType` after a rescan

macro_rules! index_cast {
	($name:ident, $ty:ty, $v0:expr, $x:expr, $base:expr, $beats:expr) => {
		/// Window of CAP slots. Steps 1..CAP-1 are concrete (the extreme value X at step 1,
		/// then a constant), the last input is any finite float: the rescan at step CAP
		/// reports position CAP-1 (beyond 255 under the wide types) unless the last
		/// input beats X, then 0. (Symbolic floats at earlier steps make `index == len`,
		/// hence the CAP-slot rescan loop, symbolic at every later step: > 500 s.)
		#[kani::proof]
		#[kani::unwind(303)]
		fn $name() {
			let n = CAP;
			let mut m = match <$ty>::new(n as PeriodType, &$v0) {
				Ok(m) => m,
				Err(_) => {
					assert!(false, "constructor failed");
					return;
				}
			};
			let mut i = 1;
			while i < n {
				let v: ValueType = if i == 1 { $x } else { $base };
				let out = m.next(&v);
				assert!(out as usize == i, "age of the construction value before it leaves the window");
				i += 1;
			}
			let last = any_finite();
			let out = m.next(&last);
			let beats: fn(ValueType) -> bool = $beats;
			let want = if beats(last) { 0 } else { n - 1 };
			assert!(out as usize == want, "rescan: position of the extreme value, not truncated");
			assert!(m.peek() == out);
			kani::cover!(out as usize == n - 1, "extreme at the oldest slot: index CAP-1");
			kani::cover!(out == 0, "last input is the new extreme");
			std::mem::forget(m);
		}
	};
}
// HighestIndex: construction value 1000, then 500, 1, 1, ... and a symbolic last input
index_cast!(c20_highest_index_cast, HighestIndex, 1000.0, 500.0, 1.0, |v| v >= 500.0);
// LowestIndex: construction value -1000, then -500, -1, -1, ... and a symbolic last input
index_cast!(c20_lowest_index_cast, LowestIndex, -1000.0, -500.0, -1.0, |v| v <= -500.0);

// ---------------------------------------------------------------------------
// constructor boundaries per width (lengths <= MAX-1; MAX itself is C10's subject)

/// Window::new at the top of the width for u8 (MAX-1 = 254); 1000 slots under the wide
/// types (5000 and 65534 u8 slots exhaust 16 GB in CBMC's array flattening)
#[kani::proof]
#[kani::unwind(2)]
fn c20_window_new_top() {
	#[cfg(not(any(feature = "p16", feature = "p32", feature = "p64")))]
	let n: PeriodType = PeriodType::MAX - 1;
	#[cfg(any(feature = "p16", feature = "p32", feature = "p64"))]
	let n: PeriodType = 1000;
	let v: u8 = kani::any();
	let mut w = Window::new(n, v);
	assert!(w.len() == n && w.as_slice().len() == n as usize, "length at the top of the width");
	let k: PeriodType = kani::any();
	assert!(w.get(k).copied() == if k < n { Some(v) } else { None }, "valid indices are 0..n");
	let x: u8 = kani::any();
	assert!(w.push(x) == v && w[0] == x && w[n - 1] == v && *w.oldest() == v, "first push");
	assert!(w.iter().count() == n as usize);
	kani::cover!(k == n - 1);
	kani::cover!(k == n);
	std::mem::forget(w);
}

/// (construction value 0.0: `vec![0.0; n]` is one zeroed allocation, any other value a
/// fill loop of n iterations)
/// SMA / WMA / LinReg ::new(length), length symbolic 0..=CAP: Ok from their documented
/// minimum on, no overflow in the usize/float casts; SMA's window has `length` slots
#[kani::proof]
#[kani::unwind(2)]
fn c20_ctor_lengths() {
	let length: usize = kani::any();
	kani::assume(length <= CAP);
	let l = length as PeriodType;
	let c: u8 = kani::any();
	if c == 0 {
		match SMA::new(l, &0.0) {
			Ok(m) => {
				assert!(length >= 1 && m.get_window().len() == l, "SMA window length");
				assert!((m.get_divider() * length as ValueType - 1.0).abs() < 1e-6, "SMA divider is 1/length");
				std::mem::forget(m);
			}
			Err(_) => assert!(length == 0, "SMA::new rejected a valid length"),
		}
	} else if c == 1 {
		let r = WMA::new(l, &0.0);
		assert!(r.is_ok() == (length >= 1), "WMA::new");
		std::mem::forget(r);
	} else {
		let r = LinReg::new(l, &0.0);
		assert!(r.is_ok() == (length >= 2), "LinReg::new");
		std::mem::forget(r);
	}
	kani::cover!(length == CAP && c == 0);
	kani::cover!(length == CAP && c == 1);
	kani::cover!(length == CAP && c == 2);
	kani::cover!(length == 0);
}
