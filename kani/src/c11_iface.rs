//! C11 (i), (ii), (iv) — indicator interface contract: default configuration valid and
//! initialises, name() == NAME, result shape == size(), dynamic dispatch == static dispatch.
//!
//! (ii): the only impls of `IndicatorConfigDyn` / `IndicatorInstanceDyn` are the two blanket
//! impls in dd.rs, generic in the configuration / instance type: they can use it through the
//! static traits only.  They are driven with the logging indicator of C09 (symbolic labels,
//! every stream length 0..=5), which observes everything they do — this covers every indicator
//! and every input.  Per real indicator the boxed-dyn configuration is cross-checked (name, size,
//! validate, init, instance name/size/config) and, for the window-free ParabolicSAR, two results
//! bit-for-bit.  (Moving an instance that owns `Window`s into a `Box<dyn ..>` makes CBMC lose
//! the constant propagation of its pointers: `c11_dyn_aroon` with `next` through the box needs
//! 1.5M symex steps / 400 s, KnowSureThing > 900 s — measured, therefore not per indicator.)
//!
//! (i): per indicator the default configuration is run for two steps on CONCRETE valid candles
//! (constant folding; a symbolic choice among four concrete candles already makes the float
//! arithmetic symbolic: Aroon 467 s -> out of memory).  The shape does not depend on the values:
//! every `next` ends in `IndicatorResult::new(&[..], &[..])` with literal arities; the
//! truncation / accessor logic of `IndicatorResult` itself is proved on symbolic slices.
use crate::c09_comb::{
	candle5, check_exact_i, eq5, ind_any_candle, ind_any_cslice, ind_nlog, ind_setup, init_arg, init_calls, readout_i, res3, LogCfg,
};
use yata::core::{
	Candle, Error, IndicatorConfig, IndicatorConfigDyn, IndicatorInstance, IndicatorInstanceDyn, IndicatorResult, ValueType, OHLCV,
};
use yata::indicators::*;

/// four concrete valid candles with pairwise different prices and volumes
const CANDLES: [Candle; 4] = [
	Candle { open: 1.0, high: 1.5, low: 0.75, close: 1.25, volume: 10.0 },
	Candle { open: 1.25, high: 1.75, low: 1.125, close: 1.375, volume: 12.0 },
	Candle { open: 1.375, high: 1.4375, low: 0.875, close: 0.9375, volume: 7.0 },
	Candle { open: 0.9375, high: 1.0625, low: 0.5, close: 0.625, volume: 20.0 },
];
fn pick() -> Candle {
	let k: u8 = kani::any();
	kani::assume(k < 4);
	CANDLES[k as usize]
}
fn vb(x: ValueType) -> u64 {
	x.to_bits() as u64
}
/// structural identity of a signal (Action's own `==` identifies Buy(0) and Sell(0))
fn ab(a: yata::core::Action) -> (u8, u64) {
	match a {
		yata::core::Action::None => (0, 0),
		yata::core::Action::Buy(v) => (1, v as u64),
		yata::core::Action::Sell(v) => (2, v as u64),
	}
}
/// bit-level equality of two results (lengths, values by bits, signals)
fn same_result(a: &IndicatorResult, b: &IndicatorResult) -> bool {
	if a.size() != b.size() || a.values().len() != b.values().len() || a.signals().len() != b.signals().len() {
		return false;
	}
	let mut i = 0;
	while i < a.values().len() {
		if vb(a.values()[i]) != vb(b.values()[i]) {
			return false;
		}
		i += 1;
	}
	let mut i = 0;
	while i < a.signals().len() {
		if ab(a.signals()[i]) != ab(b.signals()[i]) {
			return false;
		}
		i += 1;
	}
	true
}
fn shape_ok(r: &IndicatorResult, size: (u8, u8)) -> bool {
	r.values().len() == size.0 as usize
		&& r.signals().len() == size.1 as usize
		&& r.size() == size
		&& r.values_length() == size.0
		&& r.signals_length() == size.1
}

// Stubs for libm-backed float functions CBMC cannot constant-fold (measured: one `mul_add` = CBMC's
// software fma model, 5M symex steps and 550 s for every EMA-based indicator on CONCRETE input;
// `log1p` behind `atanh` is unsupported by Kani).  The shape of a result does not depend on values.
fn mul_add_stub64(a: f64, b: f64, c: f64) -> f64 {
	a * b + c
}
fn mul_add_stub32(a: f32, b: f32, c: f32) -> f32 {
	a * b + c
}
/// 40 Newton steps from above (exact enough for `(length as f64).sqrt() as PeriodType` in HMA::new; used for
/// HullMovingAverage only, where CBMC's own sqrt leaves the window length symbolic -> out of memory;
/// elsewhere CBMC's sqrt is cheaper than this loop: BollingerBands 118 s vs 1484 s)
fn sqrt_stub64(x: f64) -> f64 {
	if !(x > 0.0) {
		return if x == 0.0 { x } else { f64::NAN };
	}
	let mut r = if x < 1.0 { 1.0 } else { x };
	let mut i = 0;
	while i < 40 {
		r = 0.5 * (r + x / r);
		i += 1;
	}
	r
}
fn sqrt_stub32(x: f32) -> f32 {
	sqrt_stub64(x as f64) as f32
}
/// round half away from zero through an integer cast (|x| < 2^62; used on values in 0..=255)
fn round_stub64(x: f64) -> f64 {
	if !(x.abs() < 4.0e18) {
		return x;
	}
	if x >= 0.0 {
		(x + 0.5) as i64 as f64
	} else {
		-((-x + 0.5) as i64 as f64)
	}
}
fn round_stub32(x: f32) -> f32 {
	round_stub64(x as f64) as f32
}
fn atanh_stub64(x: f64) -> f64 {
	x
}
fn atanh_stub32(x: f32) -> f32 {
	x
}

macro_rules! iface {
	($cfg:ty, $shape:ident, $dynh:ident $(, #[$extra:meta])*) => {
		/// default configuration: valid, initialises, name, size, shape of two results
		#[kani::proof]
		#[kani::unwind(56)]
		#[kani::stub(f64::mul_add, mul_add_stub64)]
		#[kani::stub(f32::mul_add, mul_add_stub32)]
		#[kani::stub(f64::round, round_stub64)]
		#[kani::stub(f32::round, round_stub32)]
		#[kani::stub(f64::atanh, atanh_stub64)]
		#[kani::stub(f32::atanh, atanh_stub32)]
		$(#[$extra])*
		fn $shape() {
			let cfg = <$cfg>::default();
			assert!(IndicatorConfig::validate(&cfg), "default configuration is valid");
			assert!(IndicatorConfig::name(&cfg) == <$cfg as IndicatorConfig>::NAME, "config name() is NAME");
			let size = IndicatorConfig::size(&cfg);
			assert!(size.0 <= 4 && size.1 <= 4, "size() fits the result arrays");
			let c0 = CANDLES[0];
			let r = IndicatorConfig::init(cfg, &c0);
			assert!(r.is_ok(), "default configuration initialises on a valid candle");
			let mut inst = r.unwrap();
			assert!(IndicatorInstance::name(&inst) == <$cfg as IndicatorConfig>::NAME, "instance name() is NAME");
			assert!(IndicatorInstance::size(&inst) == size, "instance size() is the config size()");
			let r1 = IndicatorInstance::next(&mut inst, &c0);
			assert!(shape_ok(&r1, size), "first result has size() values and signals");
			let c1 = CANDLES[1];
			let r2 = IndicatorInstance::next(&mut inst, &c1);
			assert!(shape_ok(&r2, size), "second result has size() values and signals");
			let dcfg: Box<dyn IndicatorConfigDyn<Candle>> = Box::new(<$cfg>::default());
			assert!(dcfg.name() == <$cfg as IndicatorConfig>::NAME, "boxed dyn config name");
			assert!(dcfg.size() == size, "boxed dyn config size");
			assert!(dcfg.validate(), "boxed dyn config validate");
			kani::cover!(true, "end reached");
		}

		/// boxed dyn configuration == static configuration: name, size, validate, init; dyn instance name, size, config
		#[kani::proof]
		#[kani::unwind(56)]
		#[kani::stub(f64::mul_add, mul_add_stub64)]
		#[kani::stub(f32::mul_add, mul_add_stub32)]
		#[kani::stub(f64::round, round_stub64)]
		#[kani::stub(f32::round, round_stub32)]
		#[kani::stub(f64::atanh, atanh_stub64)]
		#[kani::stub(f32::atanh, atanh_stub32)]
		$(#[$extra])*
		fn $dynh() {
			let cfg = <$cfg>::default();
			let dcfg: Box<dyn IndicatorConfigDyn<Candle>> = Box::new(cfg.clone());
			assert!(dcfg.name() == <$cfg as IndicatorConfig>::NAME, "dyn config name");
			assert!(dcfg.size() == IndicatorConfig::size(&cfg), "dyn config size");
			assert!(dcfg.validate() == IndicatorConfig::validate(&cfg), "dyn config validate");
			let c0 = CANDLES[0];
			let r = dcfg.init(&c0);
			assert!(r.is_ok(), "dyn config initialises");
			let di = r.unwrap();
			assert!(di.name() == <$cfg as IndicatorConfig>::NAME, "dyn instance name");
			assert!(di.size() == IndicatorConfig::size(&cfg), "dyn instance size");
			assert!(di.config().name() == dcfg.name() && di.config().size() == dcfg.size(), "dyn instance config");
			kani::cover!(true, "end reached");
		}
	};
}

iface!(Aroon, c11_shape_aroon, c11_dyn_aroon);
iface!(AverageDirectionalIndex, c11_shape_averagedirectionalindex, c11_dyn_averagedirectionalindex);
iface!(AwesomeOscillator, c11_shape_awesomeoscillator, c11_dyn_awesomeoscillator);
iface!(BollingerBands, c11_shape_bollingerbands, c11_dyn_bollingerbands);
iface!(ChaikinMoneyFlow, c11_shape_chaikinmoneyflow, c11_dyn_chaikinmoneyflow);
iface!(ChaikinOscillator, c11_shape_chaikinoscillator, c11_dyn_chaikinoscillator);
iface!(ChandeKrollStop, c11_shape_chandekrollstop, c11_dyn_chandekrollstop);
iface!(ChandeMomentumOscillator, c11_shape_chandemomentumoscillator, c11_dyn_chandemomentumoscillator);
iface!(CommodityChannelIndex, c11_shape_commoditychannelindex, c11_dyn_commoditychannelindex);
iface!(CoppockCurve, c11_shape_coppockcurve, c11_dyn_coppockcurve);
iface!(DetrendedPriceOscillator, c11_shape_detrendedpriceoscillator, c11_dyn_detrendedpriceoscillator);
iface!(DonchianChannel, c11_shape_donchianchannel, c11_dyn_donchianchannel);
iface!(EaseOfMovement, c11_shape_easeofmovement, c11_dyn_easeofmovement);
iface!(EldersForceIndex, c11_shape_eldersforceindex, c11_dyn_eldersforceindex);
iface!(Envelopes, c11_shape_envelopes, c11_dyn_envelopes);
iface!(FisherTransform, c11_shape_fishertransform, c11_dyn_fishertransform);
iface!(HullMovingAverage, c11_shape_hullmovingaverage, c11_dyn_hullmovingaverage, #[kani::stub(f64::sqrt, sqrt_stub64)], #[kani::stub(f32::sqrt, sqrt_stub32)]);
iface!(IchimokuCloud, c11_shape_ichimokucloud, c11_dyn_ichimokucloud);
iface!(Kaufman, c11_shape_kaufman, c11_dyn_kaufman);
iface!(KeltnerChannel, c11_shape_keltnerchannel, c11_dyn_keltnerchannel);
iface!(KlingerVolumeOscillator, c11_shape_klingervolumeoscillator, c11_dyn_klingervolumeoscillator);
iface!(KnowSureThing, c11_shape_knowsurething, c11_dyn_knowsurething);
iface!(MACD, c11_shape_macd, c11_dyn_macd);
iface!(MomentumIndex, c11_shape_momentumindex, c11_dyn_momentumindex);
iface!(MoneyFlowIndex, c11_shape_moneyflowindex, c11_dyn_moneyflowindex);
iface!(ParabolicSAR, c11_shape_parabolicsar, c11_dyn_parabolicsar);
iface!(PivotReversalStrategy, c11_shape_pivotreversalstrategy, c11_dyn_pivotreversalstrategy);
iface!(PriceChannelStrategy, c11_shape_pricechannelstrategy, c11_dyn_pricechannelstrategy);
iface!(RelativeStrengthIndex, c11_shape_relativestrengthindex, c11_dyn_relativestrengthindex);
iface!(RelativeVigorIndex, c11_shape_relativevigorindex, c11_dyn_relativevigorindex);
iface!(SMIErgodicIndicator, c11_shape_smiergodicindicator, c11_dyn_smiergodicindicator);
iface!(StochasticOscillator, c11_shape_stochasticoscillator, c11_dyn_stochasticoscillator);
iface!(TrendStrengthIndex, c11_shape_trendstrengthindex, c11_dyn_trendstrengthindex);
iface!(Trix, c11_shape_trix, c11_dyn_trix);
iface!(TrueStrengthIndex, c11_shape_truestrengthindex, c11_dyn_truestrengthindex);
iface!(WoodiesCCI, c11_shape_woodiescci, c11_dyn_woodiescci);

/// ParabolicSAR (no windows): static vs boxed dyn, symbolic choice among the four candles, two steps, bit-identical
#[kani::proof]
#[kani::unwind(10)]
fn c11_dyn_results_parabolicsar() {
	let cfg = ParabolicSAR::default();
	let dcfg: Box<dyn IndicatorConfigDyn<Candle>> = Box::new(cfg.clone());
	let c0 = pick();
	let c1 = pick();
	let mut si = IndicatorConfig::init(cfg, &c0).unwrap();
	let mut di = dcfg.init(&c0).unwrap();
	let (s1, d1) = (IndicatorInstance::next(&mut si, &c0), di.next(&c0));
	assert!(same_result(&s1, &d1), "dyn == static, first result");
	let (s2, d2) = (IndicatorInstance::next(&mut si, &c1), di.next(&c1));
	assert!(same_result(&s2, &d2), "dyn == static, second result");
	kani::cover!(true, "end reached");
}

/// IndicatorResult::new / accessors on slices of lengths (nv, 6 - nv), nv = 0..=6, with symbolic contents:
/// truncation to 4, values()/signals() are the prefixes, size()/values_length()/signals_length()
/// agree, value(i)/signal(i) index them.  (Lengths are enumerated: with a symbolic length CBMC's
/// model of the symbolic-size memcpy inside copy_from_slice yields a spurious counterexample.)
#[kani::proof]
#[kani::unwind(9)]
fn c11_result_new_shape() {
	// the two lengths are handled independently by `new`: every nv and every ns occurs once
	let mut nv = 0;
	while nv <= 6 {
		result_new_body(nv, 6 - nv);
		nv += 1;
	}
}
fn result_new_body(nv: usize, ns: usize) {
	let v: [ValueType; 6] = kani::any();
	let mut s = [yata::core::Action::None; 6];
	let mut i = 0;
	while i < 6 {
		let k: u8 = kani::any();
		s[i] = match k {
			0 => yata::core::Action::None,
			1 => yata::core::Action::Buy(kani::any()),
			_ => yata::core::Action::Sell(kani::any()),
		};
		i += 1;
	}
	let r = IndicatorResult::new(&v[..nv], &s[..ns]);
	let (ev, es) = (if nv < 4 { nv } else { 4 }, if ns < 4 { ns } else { 4 });
	assert!(r.values().len() == ev && r.signals().len() == es, "lengths are min(4, len)");
	assert!(r.size() == (ev as u8, es as u8) && r.values_length() == ev as u8 && r.signals_length() == es as u8, "size accessors agree");
	let k: usize = kani::any();
	if k < ev {
		assert!(vb(r.values()[k]) == vb(v[k]) && vb(r.value(k)) == vb(v[k]), "values are the prefix, bit-identical");
	}
	if k < es {
		assert!(ab(r.signals()[k]) == ab(s[k]) && ab(r.signal(k)) == ab(s[k]), "signals are the prefix");
	}
	let c = r;
	assert!(same_result(&c, &r), "Copy is identical");
	kani::cover!(nv == 6 && ns == 0, "truncated values, no signals");
	kani::cover!(nv == 0 && ns == 6 && k == 3, "no values, truncated signals");
}

// ---------------------------------------------------------------------------
// the blanket impls of the Dyn traits, driven with the logging indicator (generic argument)

const N: usize = 5;

fn dyn_config_body(n: usize) {
	ind_setup();
	let arr = ind_any_cslice();
	let cfg = LogCfg { tag: kani::any(), ok: kani::any() };
	let (tag, ok) = (cfg.tag, cfg.ok);
	let mut dcfg: Box<dyn IndicatorConfigDyn<Candle>> = Box::new(cfg.clone());
	assert!(dcfg.name() == "LogCfg", "dyn name is NAME");
	assert!(dcfg.size() == (1, tag & 3), "dyn size is the static size");
	assert!(dcfg.validate() == ok, "dyn validate is the static validate");
	let r = dcfg.over(&&arr[..n]);
	if n == 0 {
		assert!(r.is_ok() && r.unwrap().is_empty(), "dyn over on no candles is Ok(empty)");
		assert!(init_calls() == 0 && ind_nlog() == 0, "dyn over on no candles calls nothing");
	} else {
		assert!(init_calls() == 1 && eq5(init_arg(), candle5(&arr[0])), "dyn over: init gets the first candle");
		if ok {
			assert!(r.is_ok() && ind_nlog() == n, "dyn over: exactly n calls of next");
			let mut res = [(0u64, 0usize, 0usize); 8];
			assert!(readout_i(&r.unwrap(), &mut res, 0) == n, "dyn over: one result per candle");
			check_exact_i(&arr, n, &res, 0, tag);
		} else {
			assert!(r.is_err() && ind_nlog() == 0, "dyn over: failing init returned, no next");
		}
	}
	// set through the box is the static set
	let good: bool = kani::any();
	let r = if good { dcfg.set("tag", "7".to_string()) } else { dcfg.set("tug", "7".to_string()) };
	assert!(r.is_ok() == good, "dyn set forwards the result");
	assert!(dcfg.size() == (1, if good { 7 & 3 } else { tag & 3 }), "dyn set forwards the effect");
	kani::cover!(ok && good, "valid config, accepted set");
	kani::cover!(!ok && !good, "failing init, rejected set");
	// deallocation of the boxed trait object is not the subject (and CBMC's dealloc model produced a
	// spurious, non-replayable counterexample here after an unrelated change elsewhere in the crate)
	std::mem::forget(dcfg);
}

fn dyn_instance_body(n: usize) {
	let j = if n > 0 { 1 } else { 0 }; // first candle through next, the rest through over
	ind_setup();
	let arr = ind_any_cslice();
	let cfg = LogCfg { tag: kani::any(), ok: kani::any() };
	let (tag, ok) = (cfg.tag, cfg.ok);
	let dcfg: Box<dyn IndicatorConfigDyn<Candle>> = Box::new(cfg);
	let init = ind_any_candle();
	let r = dcfg.init(&init);
	assert!(init_calls() == 1 && eq5(init_arg(), candle5(&init)), "dyn init: init gets the candle");
	assert!(r.is_ok() == ok, "dyn init fails iff init fails");
	assert!(ind_nlog() == 0, "dyn init does not step");
	if let Ok(mut di) = r {
		assert!(di.name() == "LogCfg" && di.size() == (1, tag & 3), "dyn instance name / size");
		assert!(di.config().name() == "LogCfg" && di.config().size() == (1, tag & 3) && di.config().validate(), "dyn instance config");
		let mut res = [(0u64, 0usize, 0usize); 8];
		let mut i = 0;
		while i < j {
			res[i] = res3(&di.next(&arr[i]));
			i += 1;
		}
		assert!(ind_nlog() == j, "dyn next: one next per call");
		let l2 = readout_i(&di.over(&&arr[j..n]), &mut res, j);
		assert!(l2 == n - j && ind_nlog() == n, "dyn over: one next per candle");
		check_exact_i(&arr, n, &res, 0, tag);
		kani::cover!(true, "end reached");
		std::mem::forget(di);
	}
	kani::cover!(!ok, "failing init");
	std::mem::forget(dcfg);
}

macro_rules! per_len {
	($name:ident, $body:ident, $lo:expr, $hi:expr) => {
		#[kani::proof]
		#[kani::unwind(10)]
		fn $name() {
			let mut n = $lo;
			while n <= $hi {
				$body(n);
				n += 1;
			}
		}
	};
}
per_len!(c11_dyn_generic_config_n0to2, dyn_config_body, 0, 2);
per_len!(c11_dyn_generic_config_n3, dyn_config_body, 3, 3);
per_len!(c11_dyn_generic_config_n4, dyn_config_body, 4, 4);
per_len!(c11_dyn_generic_config_n5, dyn_config_body, 5, 5);
per_len!(c11_dyn_generic_instance_n0to1, dyn_instance_body, 0, 1);
per_len!(c11_dyn_generic_instance_n2, dyn_instance_body, 2, 2);
per_len!(c11_dyn_generic_instance_n3, dyn_instance_body, 3, 3);
per_len!(c11_dyn_generic_instance_n4, dyn_instance_body, 4, 4);
per_len!(c11_dyn_generic_instance_n5, dyn_instance_body, 5, 5);
