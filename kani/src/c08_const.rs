//! C08 (K part) — the construction value acts as an infinite constant prehistory, for
//! the kinds the statement makes EXACT: selections (Highest, Lowest, HighestLowestDelta,
//! HighestIndex, LowestIndex, Past) and signals (Cross, CrossAbove, CrossUnder,
//! UpperReversalSignal, LowerReversalSignal, ReversalSignal).
//!
//! (1) constant form: `new(p, &v)` then four `next(&v)` with the same unrestricted finite
//!     v: the four outputs are identical (floats bit for bit, indices and signals exactly).
//! (2) metamorphic form: streams `v^(1+e), s_1..s_S` and `v, s_1..s_S` (e = 1..=3 extra
//!     leading copies of the first element) give identical outputs on the common suffix
//!     `v, s_1..s_S`.
//! Arithmetic kinds are not asserted here (the statement grants them "up to rounding").
use crate::util::*;
use yata::core::{Action, Method, PeriodType, ValueType};
use yata::methods::{
	Cross, CrossAbove, CrossUnder, Highest, HighestIndex, HighestLowestDelta, Lowest, LowestIndex,
	LowerReversalSignal, Past, ReversalSignal, UpperReversalSignal,
};

/// more than half of the largest finite value: HUGE - (-HUGE) overflows
const HUGE: ValueType = ValueType::MAX / 1.5;
/// below the smallest normal value
const TINY: ValueType = ValueType::MIN_POSITIVE;

/// exact identity of outputs (not the crate's PartialEq)
trait Exact {
	fn same(&self, o: &Self) -> bool;
}
impl Exact for ValueType {
	fn same(&self, o: &Self) -> bool {
		self.to_bits() == o.to_bits()
	}
}
impl Exact for PeriodType {
	fn same(&self, o: &Self) -> bool {
		*self == *o
	}
}
impl Exact for Action {
	fn same(&self, o: &Self) -> bool {
		match (*self, *o) {
			(Action::None, Action::None) => true,
			(Action::Buy(a), Action::Buy(b)) => a == b,
			(Action::Sell(a), Action::Sell(b)) => a == b,
			_ => false,
		}
	}
}

trait AnyIn: Copy {
	fn any_in() -> Self;
}
impl AnyIn for ValueType {
	fn any_in() -> Self {
		any_finite()
	}
}
impl AnyIn for (ValueType, ValueType) {
	fn any_in() -> Self {
		(any_finite(), any_finite())
	}
}

/// new(p, &v), four next(&v): all four outputs identical; returns the first
fn constant4<M>(p: M::Params, v: M::Input) -> M::Output
where
	M: Method,
	M::Input: Sized,
	M::Output: Exact,
{
	let mut m = M::new(p, &v).unwrap();
	let o1 = m.next(&v);
	let o2 = m.next(&v);
	let o3 = m.next(&v);
	let o4 = m.next(&v);
	assert!(o1.same(&o2), "constant input: 2nd output differs from the 1st");
	assert!(o1.same(&o3), "constant input: 3rd output differs from the 1st");
	assert!(o1.same(&o4), "constant input: 4th output differs from the 1st");
	o1
}

/// i8-valued floats and -0.0 (see c04_select::any_small)
#[derive(Clone, Copy)]
struct Small(ValueType);
trait Gen<I> {
	fn gen() -> I;
}
struct Full;
impl<I: AnyIn> Gen<I> for Full {
	fn gen() -> I {
		I::any_in()
	}
}
impl Gen<ValueType> for Small {
	fn gen() -> ValueType {
		let i: i8 = kani::any();
		if i == 0 && kani::any() {
			-0.0
		} else {
			i as ValueType
		}
	}
}

/// `v^(1+e), s..` against `v, s..` on the common suffix `v, s..`
fn prefix_invariant<M, G, const S: usize>(p: M::Params, e: u8) -> bool
where
	M: Method,
	M::Params: Copy,
	M::Input: Copy,
	G: Gen<M::Input>,
	M::Output: Exact,
{
	let v = G::gen();
	let mut a = M::new(p, &v).unwrap();
	let mut b = M::new(p, &v).unwrap();
	// extra leading copies: only A sees them
	let _ = a.next(&v);
	if e >= 2 {
		let _ = a.next(&v);
	}
	if e >= 3 {
		let _ = a.next(&v);
	}
	let oa = a.next(&v);
	let ob = b.next(&v);
	assert!(oa.same(&ob), "extra leading copies change the output at the first element");
	let first = ob;
	let mut moved = false;
	let mut i = 0;
	while i < S {
		let s = G::gen();
		let oa = a.next(&s);
		let ob = b.next(&s);
		assert!(oa.same(&ob), "extra leading copies change a later output");
		// witness: at the LAST step the output is not the constant-stream output
		moved = !ob.same(&first);
		i += 1;
	}
	moved
}

fn any_extra() -> u8 {
	let e: u8 = kani::any();
	kani::assume(1 <= e && e <= 3);
	e
}

// ---------------------------------------------------------------- constant form

macro_rules! c08_const_lengths {
	($name:ident, $ty:ty) => {
		/// window lengths 1..=3
		#[kani::proof]
		#[kani::unwind(5)]
		fn $name() {
			let v = any_finite();
			let k: u8 = kani::any();
			let o = match k {
				0 => constant4::<$ty>(1, v),
				1 => constant4::<$ty>(2, v),
				_ => constant4::<$ty>(3, v),
			};
			kani::cover!(k == 2 && v < -HUGE, "length 3, huge negative v");
			kani::cover!(k == 1 && v.to_bits() == (-0.0 as ValueType).to_bits(), "length 2, v = -0.0");
			kani::cover!(k == 0 && v > 0.0 && v < TINY, "length 1, tiny v");
		}
	};
}
c08_const_lengths!(c08_const_max, Highest);
c08_const_lengths!(c08_const_min, Lowest);
c08_const_lengths!(c08_const_past, Past<ValueType>);
// HighestLowestDelta: its one subtraction v - v is the same operation at every step
c08_const_lengths!(c08_const_delta, HighestLowestDelta);
c08_const_lengths!(c08_const_highest_index, HighestIndex);
c08_const_lengths!(c08_const_lowest_index, LowestIndex);

/// Cross, CrossAbove, CrossUnder on a constant pair (a, b)
#[kani::proof]
#[kani::unwind(5)]
fn c08_const_cross_kinds() {
	let v = (any_finite(), any_finite());
	let k: u8 = kani::any();
	let o = match k {
		0 => constant4::<Cross>((), v),
		1 => constant4::<CrossAbove>((), v),
		_ => constant4::<CrossUnder>((), v),
	};
	kani::cover!(k == 0 && v.0 < v.1, "Cross, a below b");
	kani::cover!(k == 1 && v.0 > v.1, "CrossAbove, a above b");
	kani::cover!(k == 2 && v.0 == v.1, "CrossUnder, a equals b");
	kani::cover!(v.0 > HUGE && v.1 < -HUGE, "a - b overflows");
}

macro_rules! c08_const_reversal {
	($name:ident, $ty:ident) => {
		/// (left, right) in {1,2}^2
		#[kani::proof]
		#[kani::unwind(7)]
		fn $name() {
			let v = any_finite();
			let k: u8 = kani::any();
			let o = match k {
				0 => constant4::<$ty>((1, 1), v),
				1 => constant4::<$ty>((1, 2), v),
				2 => constant4::<$ty>((2, 1), v),
				_ => constant4::<$ty>((2, 2), v),
			};
			kani::cover!(k == 1 && v < 0.0, "(1,2), negative v");
			kani::cover!(k == 3 && v == 0.0, "(2,2), zero");
		}
	};
}
c08_const_reversal!(c08_const_reversal_upper, UpperReversalSignal);
c08_const_reversal!(c08_const_reversal_lower, LowerReversalSignal);
c08_const_reversal!(c08_const_reversal_both, ReversalSignal);

// ---------------------------------------------------------------- metamorphic form

macro_rules! c08_prefix {
	($name:ident, $ty:ty, $p:expr, $s:expr, $u:expr) => {
		c08_prefix!($name, $ty, Full, true, $p, $s, $u);
	};
	($name:ident, $ty:ty, $g:ty, $moves:expr, $p:expr, $s:expr, $u:expr) => {
		#[kani::proof]
		#[kani::unwind($u)]
		fn $name() {
			let e = any_extra();
			let moved = prefix_invariant::<$ty, $g, { $s }>($p, e) || !$moves;
			kani::cover!(e == 3 && moved, "three extra copies (and, where possible, the last output differs from the constant-stream output)");
			kani::cover!(e == 1 && moved, "one extra copy (and, where possible, the last output differs from the constant-stream output)");
		}
	};
}

// S = N + 2 later elements: the construction value and every copy leave the window
c08_prefix!(c08_prefix_highest_n1, Highest, 1, 3, 5);
c08_prefix!(c08_prefix_highest_n2, Highest, 2, 4, 6);
c08_prefix!(c08_prefix_highest_n3, Highest, 3, 5, 7);
c08_prefix!(c08_prefix_lowest_n1, Lowest, 1, 3, 5);
c08_prefix!(c08_prefix_lowest_n2, Lowest, 2, 4, 6);
c08_prefix!(c08_prefix_lowest_n3, Lowest, 3, 5, 7);
// HighestLowestDelta runs its subtraction in both instances: over unrestricted f64 only N <= 2 is
// feasible (N = 2: ~1300 s, N = 3: no verdict in 1500 s); N = 2, 3 also over the i8-valued domain
c08_prefix!(c08_prefix_delta_n1, HighestLowestDelta, Full, false, 1, 3, 5);
c08_prefix!(c08_prefix_delta_n2, HighestLowestDelta, 2, 4, 6);
c08_prefix!(c08_prefix_delta_small_n2, HighestLowestDelta, Small, true, 2, 4, 6);
c08_prefix!(c08_prefix_delta_small_n3, HighestLowestDelta, Small, true, 3, 5, 7);
c08_prefix!(c08_prefix_highest_index_n1, HighestIndex, Full, false, 1, 3, 5);
c08_prefix!(c08_prefix_highest_index_n2, HighestIndex, 2, 4, 6);
c08_prefix!(c08_prefix_highest_index_n3, HighestIndex, 3, 5, 7);
c08_prefix!(c08_prefix_lowest_index_n1, LowestIndex, Full, false, 1, 3, 5);
c08_prefix!(c08_prefix_lowest_index_n2, LowestIndex, 2, 4, 6);
c08_prefix!(c08_prefix_lowest_index_n3, LowestIndex, 3, 5, 7);
c08_prefix!(c08_prefix_past_n1, Past<ValueType>, 1, 3, 5);
c08_prefix!(c08_prefix_past_n2, Past<ValueType>, 2, 4, 6);
c08_prefix!(c08_prefix_past_n3, Past<ValueType>, 3, 5, 7);
c08_prefix!(c08_prefix_cross_both, Cross, (), 3, 5);
c08_prefix!(c08_prefix_cross_above, CrossAbove, (), 3, 5);
c08_prefix!(c08_prefix_cross_under, CrossUnder, (), 3, 5);
// reversal detectors: window = left + right + 1; S = window + 1 later elements
c08_prefix!(c08_prefix_reversal_upper_11, UpperReversalSignal, (1, 1), 4, 7);
c08_prefix!(c08_prefix_reversal_upper_12, UpperReversalSignal, (1, 2), 5, 7);
c08_prefix!(c08_prefix_reversal_upper_21, UpperReversalSignal, (2, 1), 5, 7);
c08_prefix!(c08_prefix_reversal_upper_22, UpperReversalSignal, (2, 2), 6, 8);
c08_prefix!(c08_prefix_reversal_lower_11, LowerReversalSignal, (1, 1), 4, 7);
c08_prefix!(c08_prefix_reversal_lower_12, LowerReversalSignal, (1, 2), 5, 7);
c08_prefix!(c08_prefix_reversal_lower_21, LowerReversalSignal, (2, 1), 5, 7);
c08_prefix!(c08_prefix_reversal_lower_22, LowerReversalSignal, (2, 2), 6, 8);
c08_prefix!(c08_prefix_reversal_both_11, ReversalSignal, (1, 1), 4, 7);
c08_prefix!(c08_prefix_reversal_both_12, ReversalSignal, (1, 2), 5, 7);
c08_prefix!(c08_prefix_reversal_both_21, ReversalSignal, (2, 1), 5, 7);
c08_prefix!(c08_prefix_reversal_both_22, ReversalSignal, (2, 2), 6, 8);
