//! C01 — Window is a faithful FIFO. One step from an arbitrary ring state.
use crate::util::*;
use yata::core::{PeriodType, Window};

#[cfg(not(any(feature = "p16", feature = "p32", feature = "p64")))]
const CAP: usize = 254;
#[cfg(any(feature = "p16", feature = "p32", feature = "p64"))]
const CAP: usize = 300;

const ICAP: usize = 32;

/// push returns the oldest element and the post-state is s[1..] ++ [x]
#[kani::proof]
#[kani::unwind(2)]
fn c01_push_step() {
	let (mut w, arr, n, idx) = any_ring::<CAP>();
	let x: u8 = kani::any();
	let old = w.push(x);
	assert!(old == seq(&arr, n, idx, 0), "push returns the oldest");
	assert!(*w.newest() == x, "newest is the pushed value");
	assert!(w.len() as usize == n, "len unchanged");
	let k: usize = kani::any();
	kani::assume(k < n);
	// k-th newest after the push: k == 0 -> x, else s[n-k] of the old sequence
	let want = if k == 0 { x } else { seq(&arr, n, idx, n - k) };
	assert!(w[k as PeriodType] == want, "index after push");
	assert!(*w.get(k as PeriodType).unwrap() == want, "get after push");
	let want_oldest = if n == 1 { x } else { seq(&arr, n, idx, 1) };
	assert!(*w.oldest() == want_oldest, "oldest after push");
	kani::cover!(n == CAP && idx == CAP - 1, "largest ring, last phase reachable");
	kani::cover!(n == 1, "ring of one reachable");
}

/// two consecutive pushes (wrap-around at any phase)
#[kani::proof]
#[kani::unwind(2)]
fn c01_push_twice() {
	let (mut w, arr, n, idx) = any_ring::<CAP>();
	let x: u8 = kani::any();
	let y: u8 = kani::any();
	let o1 = w.push(x);
	let o2 = w.push(y);
	assert!(o1 == seq(&arr, n, idx, 0));
	let want2 = if n == 1 { x } else { seq(&arr, n, idx, 1) };
	assert!(o2 == want2, "second push returns the second oldest");
	assert!(*w.newest() == y);
	let k: usize = kani::any();
	kani::assume(k < n);
	let want = if k == 0 {
		y
	} else if k == 1 {
		x
	} else {
		seq(&arr, n, idx, n - k + 1)
	};
	assert!(w[k as PeriodType] == want, "index after two pushes");
	kani::cover!(n > 2 && idx == n - 1, "wrap on first push");
	kani::cover!(n > 2 && idx == n - 2, "wrap on second push");
}

/// every single-call observer on an arbitrary ring
#[kani::proof]
#[kani::unwind(2)]
fn c01_observers() {
	let (w, arr, n, idx) = any_ring::<CAP>();
	assert!(w.len() as usize == n);
	assert!(!w.is_empty());
	assert!(*w.oldest() == seq(&arr, n, idx, 0), "oldest");
	assert!(*w.newest() == seq(&arr, n, idx, n - 1), "newest");
	let k: PeriodType = kani::any();
	if (k as usize) < n {
		let want = seq(&arr, n, idx, n - 1 - k as usize);
		assert!(w[k] == want, "w[k] is the k-th newest");
		assert!(w.get(k) == Some(&want), "get(k) is the k-th newest");
	} else {
		assert!(w.get(k).is_none(), "get outside 0..N is None");
	}
	// exported buffer is the ring storage unchanged
	let p: usize = kani::any();
	kani::assume(p < n);
	assert!(w.as_slice().len() == n);
	assert!(w.as_slice()[p] == arr[p], "as_slice exports the buffer");
	assert!(w.as_ref().len() == n);
	// first items / summary methods of both iterators
	assert!(w.iter().next() == Some(&seq(&arr, n, idx, n - 1)), "iter starts at newest");
	assert!(w.iter_rev().next() == Some(&seq(&arr, n, idx, 0)), "iter_rev starts at oldest");
	assert!(w.iter().size_hint() == (n, Some(n)));
	assert!(w.iter_rev().size_hint() == (n, Some(n)));
	assert!(w.iter().count() == n);
	assert!(w.iter_rev().count() == n);
	assert!(w.iter().len() == n);
	assert!(w.iter().last() == Some(&seq(&arr, n, idx, 0)), "iter().last() is the oldest");
	assert!(w.iter_rev().last() == Some(&seq(&arr, n, idx, n - 1)), "iter_rev().last() is the newest");
	assert!((&w).into_iter().next() == Some(&seq(&arr, n, idx, n - 1)));
	kani::cover!((k as usize) == n, "first out-of-range index reachable");
	kani::cover!((k as usize) == n - 1 && n == CAP, "last in-range index of the largest ring");
}

/// Index outside 0..N panics (never another element)
#[kani::proof]
#[kani::unwind(2)]
fn c01_index_oob_panics() {
	let (w, _arr, n, _idx) = any_ring::<CAP>();
	let k: PeriodType = kani::any();
	kani::assume(k as usize >= n);
	let _ = w[k];
	// the panic inside Index is the permitted outcome (driver: allow-list);
	// returning at all is not
	kani::cover!(true, "MUSTNOT Index outside 0..N returned an element");
}

/// Window::new(n, v): n earlier pushes of v; every n in 0..=CAP
#[kani::proof]
#[kani::unwind(2)]
fn c01_new_is_n_copies() {
	let n: usize = kani::any();
	kani::assume(n <= CAP);
	let v: u8 = kani::any();
	let mut w = Window::new(n as PeriodType, v);
	assert!(w.len() as usize == n);
	assert!(w.is_empty() == (n == 0));
	assert!(w.as_slice().len() == n);
	let k: PeriodType = kani::any();
	if (k as usize) < n {
		assert!(w[k] == v && w.get(k) == Some(&v));
	} else {
		assert!(w.get(k).is_none());
	}
	assert!(w.iter().count() == n && w.iter_rev().count() == n);
	if n > 0 {
		assert!(*w.newest() == v && *w.oldest() == v);
		let x: u8 = kani::any();
		assert!(w.push(x) == v, "first push returns the construction value");
		assert!(w[0] == x);
		if n > 1 {
			assert!(w[1] == v);
			assert!(*w.oldest() == v);
		}
	} else {
		assert!(w.iter().next().is_none() && w.iter_rev().next().is_none());
	}
	kani::cover!(n == CAP);
	kani::cover!(n == 0);
}

/// the empty window never yields an element
#[kani::proof]
#[kani::unwind(2)]
fn c01_empty_yields_nothing() {
	let w: Window<u8> = if kani::any() { Window::empty() } else { Window::default() };
	assert!(w.len() == 0 && w.is_empty());
	let k: PeriodType = kani::any();
	assert!(w.get(k).is_none());
	assert!(w.as_slice().is_empty());
	assert!(w.iter().next().is_none());
	assert!(w.iter_rev().next().is_none());
	assert!(w.iter().count() == 0 && w.iter_rev().count() == 0);
	assert!(w.iter().size_hint() == (0, Some(0)));
	assert!(w.iter_rev().size_hint() == (0, Some(0)));
}

/// last() on the iterators of an empty window: None or a panic, never an element
#[kani::proof]
#[kani::unwind(2)]
fn c01_empty_last() {
	let w: Window<u8> = Window::empty();
	if kani::any() {
		assert!(w.iter().last().is_none(), "empty iter().last()");
	} else {
		assert!(w.iter_rev().last().is_none(), "empty iter_rev().last()");
	}
}

/// empty window: Index panics
#[kani::proof]
#[kani::unwind(2)]
fn c01_empty_index_panics() {
	let w: Window<u8> = Window::empty();
	let k: PeriodType = kani::any();
	let _ = w[k];
	kani::cover!(true, "MUSTNOT Index on the empty window returned an element");
}

/// From<Vec>/From<Box<[T]>>: the vector is the sequence oldest-first
#[kani::proof]
#[kani::unwind(2)]
fn c01_from_vec() {
	let arr: [u8; ICAP] = kani::any();
	let n: usize = kani::any();
	kani::assume(1 <= n && n <= ICAP);
	let w: Window<u8> = if kani::any() {
		Window::from(arr[..n].to_vec())
	} else {
		Window::from(arr[..n].to_vec().into_boxed_slice())
	};
	let k: usize = kani::any();
	kani::assume(k < n);
	assert!(w[k as PeriodType] == arr[n - 1 - k]);
	assert!(*w.oldest() == arr[0] && *w.newest() == arr[n - 1]);
}

/// from_parts rejects an index outside the buffer
#[kani::proof]
#[kani::unwind(2)]
fn c01_from_parts_bad_index_panics() {
	let arr: [u8; 8] = kani::any();
	let n: usize = kani::any();
	kani::assume(n <= 8);
	let idx: PeriodType = kani::any();
	kani::assume(idx as usize >= n);
	let _w = Window::from_parts(arr[..n].to_vec().into_boxed_slice(), idx);
	kani::cover!(true, "MUSTNOT from_parts accepted an oldest-index outside the buffer");
}

macro_rules! iter_split {
	($name:ident, $cap:expr, $rev:expr) => {
		iter_split!($name, $cap, $rev, 34);
	};
	($name:ident, $cap:expr, $rev:expr, $unw:expr) => {
		/// iterator split into a consumed part of symbolic length j and the rest
		#[kani::proof]
		#[kani::unwind($unw)]
		fn $name() {
			let (w, arr, n, idx) = any_ring::<{ $cap }>();
			let j: usize = kani::any();
			kani::assume(j <= n);
			// element at position i of the iteration order
			let at = |i: usize| if $rev { seq(&arr, n, idx, i) } else { seq(&arr, n, idx, n - 1 - i) };
			if $rev {
				let mut it = w.iter_rev();
				let mut i = 0;
				while i < j {
					assert!(it.next() == Some(&at(i)), "consumed part in order");
					i += 1;
				}
				assert!(it.size_hint() == (n - j, Some(n - j)), "size_hint of the rest");
				assert!(it.len() == n - j);
				let c: u8 = kani::any();
				if c == 0 {
					assert!(it.count() == n - j, "count of the rest");
				} else if c == 1 {
					let want = if j < n { Some(at(n - 1)) } else { None };
					assert!(it.last().copied() == want, "last of the rest");
				} else {
					let want = if j < n { Some(at(j)) } else { None };
					assert!(it.next().copied() == want, "next of the rest");
					if j >= n {
						assert!(it.next().is_none(), "fused");
					}
				}
			} else {
				let mut it = w.iter();
				let mut i = 0;
				while i < j {
					assert!(it.next() == Some(&at(i)), "consumed part in order");
					i += 1;
				}
				assert!(it.size_hint() == (n - j, Some(n - j)), "size_hint of the rest");
				assert!(it.len() == n - j);
				let c: u8 = kani::any();
				if c == 0 {
					assert!(it.count() == n - j, "count of the rest");
				} else if c == 1 {
					let want = if j < n { Some(at(n - 1)) } else { None };
					assert!(it.last().copied() == want, "last of the rest");
				} else {
					let want = if j < n { Some(at(j)) } else { None };
					assert!(it.next().copied() == want, "next of the rest");
					if j >= n {
						assert!(it.next().is_none(), "fused");
					}
				}
			}
			kani::cover!(j == n && n == $cap, "fully consumed largest ring");
			kani::cover!(j == 0);
		}
	};
}

iter_split!(c01_iter_split32, 32, false);
iter_split!(c01_iter_rev_split32, 32, true);
iter_split!(c01_iter_split128, 128, false, 130);
iter_split!(c01_iter_rev_split128, 128, true, 130);

/// small rings (capacity 1..=8): the whole observable sequence after from_parts and after one push, with
/// concrete loops (cheap even if the implementation loops over the buffer)
#[kani::proof]
#[kani::unwind(10)]
fn c01_small_ring_sequence() {
	let (mut w, arr, n, idx) = any_ring::<8>();
	let mut k = 0;
	while k < n {
		assert!(w[k as PeriodType] == seq(&arr, n, idx, n - 1 - k), "small ring: w[k] is the k-th newest");
		k += 1;
	}
	let mut it = w.iter_rev();
	let mut j = 0;
	while j < n {
		assert!(it.next() == Some(&seq(&arr, n, idx, j)), "small ring: iter_rev yields oldest first");
		j += 1;
	}
	assert!(it.next().is_none());
	let x: u8 = kani::any();
	assert!(w.push(x) == seq(&arr, n, idx, 0), "small ring: push returns the oldest");
	let mut k = 1;
	while k < n {
		assert!(w[k as PeriodType] == seq(&arr, n, idx, n - k), "small ring: contents shifted by one after push");
		k += 1;
	}
	assert!(w[0] == x);
	kani::cover!(n == 8 && idx == 5, "largest small ring at a middle phase");
}

macro_rules! tiny_ring {
	($name:ident, $n:expr) => {
		/// concrete capacity, symbolic phase and contents: from_parts represents buf[(idx + j) % n] oldest first
		/// (cheap even when the implementation normalises / copies the buffer)
		#[kani::proof]
		#[kani::unwind(8)]
		fn $name() {
			let arr: [u8; $n] = kani::any();
			let idx: usize = kani::any();
			kani::assume(idx < $n);
			let mut w = Window::from_parts(arr.to_vec().into_boxed_slice(), idx as PeriodType);
			let mut k = 0;
			while k < $n {
				let p = idx + ($n - 1 - k);
				let want = arr[if p >= $n { p - $n } else { p }];
				assert!(w[k as PeriodType] == want, "tiny ring: w[k] is the k-th newest of the rebuilt window");
				k += 1;
			}
			assert!(*w.oldest() == arr[idx], "tiny ring: oldest is buf[index]");
			let x: u8 = kani::any();
			assert!(w.push(x) == arr[idx], "tiny ring: push returns buf[index]");
			assert!(w[0] == x && w.len() as usize == $n);
			kani::cover!(idx == $n - 1, "last phase reachable");
		}
	};
}
tiny_ring!(c01_tiny_ring2, 2);
tiny_ring!(c01_tiny_ring3, 3);
tiny_ring!(c01_tiny_ring5, 5);
