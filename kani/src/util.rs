use yata::core::{PeriodType, ValueType, Window};

/// Every valid ring of capacity 1..=C: symbolic capacity `n`, symbolic phase
/// `idx < n`, symbolic contents. Returns the window and its abstract content
/// description (arr, n, idx): the sequence oldest-first is
/// `s[j] = arr[(idx + j) % n]`.
pub fn any_ring<const C: usize>() -> (Window<u8>, [u8; C], usize, usize) {
	let arr: [u8; C] = kani::any();
	let n: usize = kani::any();
	kani::assume(1 <= n && n <= C);
	let idx: usize = kani::any();
	kani::assume(idx < n);
	let w = Window::from_parts(arr[..n].to_vec().into_boxed_slice(), idx as PeriodType);
	(w, arr, n, idx)
}

/// j-th oldest element (j < n) of the abstract sequence
#[inline]
pub fn seq<const C: usize>(arr: &[u8; C], n: usize, idx: usize, j: usize) -> u8 {
	let p = idx + j;
	arr[if p >= n { p - n } else { p }]
}

/// finite float inside the magnitude window of DESIGN.md §5
pub fn any_val() -> ValueType {
	let x: ValueType = kani::any();
	#[cfg(not(feature = "f32"))]
	kani::assume(x.is_finite() && x.abs() < 1e150 && (x == 0.0 || x.abs() > 1e-150));
	#[cfg(feature = "f32")]
	kani::assume(x.is_finite() && x.abs() < 1e15 && (x == 0.0 || x.abs() > 1e-15));
	x
}

/// any finite float
pub fn any_finite() -> ValueType {
	let x: ValueType = kani::any();
	kani::assume(x.is_finite());
	x
}
