//! C09 — streaming / batch / chunked evaluation agree (generic combinators, by
//! parametricity); Window clone independence; peek of comparison-only methods.
//!
//! The combinators (`Sequence::{call, apply}`, `Method::{over, apply, new_over,
//! new_apply, into_fn, new_fn, with_history, with_last_value}`, `WithHistory`,
//! `WithLastValue`, `IndicatorConfig::{over, init_fn}`, `IndicatorInstance::{over,
//! into_fn}`) are generic in the method / indicator: they can use it through the
//! trait only.  A *logging* method (state = call counter; `next` appends
//! `(counter, input bits)` to a global log and returns a pre-recorded arbitrary
//! label) therefore observes everything a combinator can do with any method.
//! Floats are opaque 64-bit labels here (`to_bits`), there is no arithmetic.
use crate::util::*;
use yata::core::{
	Action, Candle, Error, IndicatorConfig, IndicatorInstance, IndicatorResult, Method, PeriodType,
	Sequence, ValueType, Window, OHLCV,
};
use yata::helpers::{Buffered, Peekable, WithHistory, WithLastValue};
use yata::methods::{Highest, HighestIndex, HighestLowestDelta, Lowest, LowestIndex, Past};

const N: usize = 5; // longest slice
const L: usize = 8; // log capacity (N + priming call + slack: overflow of the log is an index-out-of-bounds failure)

static mut LOG: [(usize, u64); L] = [(0, 0); L];
static mut NLOG: usize = 0;
static mut OUT: [u64; L] = [0; L];
static mut NEW_ARG: u64 = 0;
static mut NEW_CALLS: usize = 0;
static mut NEW_FAIL: bool = false;

#[inline]
fn vb(x: ValueType) -> u64 {
	x.to_bits() as u64
}
#[inline]
fn bv(b: u64) -> ValueType {
	#[cfg(not(feature = "f32"))]
	return ValueType::from_bits(b);
	#[cfg(feature = "f32")]
	return ValueType::from_bits(b as u32);
}
/// arbitrary labels for the outputs, empty log
fn setup() {
	unsafe {
		NLOG = 0;
		NEW_CALLS = 0;
		NEW_ARG = 0;
		NEW_FAIL = false;
		// (f32 feature: labels are 32-bit so that they survive the round trip through ValueType)
		#[cfg(not(feature = "f32"))]
		let o: [u64; L] = kani::any();
		#[cfg(feature = "f32")]
		let o: [u64; L] = kani::any::<[u32; L]>().map(|x| x as u64);
		OUT = o;
		LOG = [(usize::MAX, 0); L];
	}
}
fn out(i: usize) -> u64 {
	unsafe { OUT[i] }
}
fn nlog() -> usize {
	unsafe { NLOG }
}
fn log(i: usize) -> (usize, u64) {
	unsafe { LOG[i] }
}
fn new_calls() -> usize {
	unsafe { NEW_CALLS }
}
fn new_arg() -> u64 {
	unsafe { NEW_ARG }
}

/// logging method over `ValueType` labels
#[derive(Debug, Clone)]
struct LogM {
	calls: usize,
}
impl Method for LogM {
	type Params = ();
	type Input = ValueType;
	type Output = ValueType;
	fn new(_: (), v: &ValueType) -> Result<Self, Error> {
		unsafe {
			NEW_CALLS += 1;
			NEW_ARG = vb(*v);
			if NEW_FAIL {
				return Err(Error::WrongMethodParameters);
			}
		}
		Ok(Self { calls: 0 })
	}
	fn next(&mut self, v: &ValueType) -> ValueType {
		unsafe {
			LOG[NLOG] = (self.calls, vb(*v));
			NLOG += 1;
			let o = OUT[self.calls];
			self.calls += 1;
			bv(o)
		}
	}
}

/// logging method over candles (the second `Sequence<T>` impl: `T: OHLCV`); all five fields are logged
static mut LOGC: [[u64; 5]; L] = [[0; 5]; L];
static mut OUTC: [[u64; 5]; L] = [[0; 5]; L];
fn c5(c: &Candle) -> [u64; 5] {
	[vb(c.open), vb(c.high), vb(c.low), vb(c.close), vb(c.volume)]
}
/// field-wise (array `==` is a 40-iteration memcmp loop under CBMC)
pub(crate) fn eq5(a: [u64; 5], b: [u64; 5]) -> bool {
	a[0] == b[0] && a[1] == b[1] && a[2] == b[2] && a[3] == b[3] && a[4] == b[4]
}
fn c_of(b: [u64; 5]) -> Candle {
	Candle { open: bv(b[0]), high: bv(b[1]), low: bv(b[2]), close: bv(b[3]), volume: bv(b[4]) }
}
fn any_candle_label() -> Candle {
	c_of([kani::any(), kani::any(), kani::any(), kani::any(), kani::any()])
}
fn setup_c() {
	setup();
	unsafe {
		#[cfg(not(feature = "f32"))]
		let o: [[u64; 5]; L] = kani::any();
		#[cfg(feature = "f32")]
		let o: [[u64; 5]; L] = kani::any::<[[u32; 5]; L]>().map(|y| y.map(|x| x as u64));
		OUTC = o;
	}
}
#[derive(Debug, Clone)]
struct LogC {
	calls: usize,
}
impl Method for LogC {
	type Params = ();
	type Input = Candle;
	type Output = Candle;
	fn new(_: (), v: &Candle) -> Result<Self, Error> {
		unsafe {
			NEW_CALLS += 1;
			NEW_ARG = vb(v.close);
			if NEW_FAIL {
				return Err(Error::WrongMethodParameters);
			}
		}
		Ok(Self { calls: 0 })
	}
	fn next(&mut self, v: &Candle) -> Candle {
		unsafe {
			LOG[NLOG] = (self.calls, vb(v.close));
			LOGC[NLOG] = c5(v);
			NLOG += 1;
			let o = OUTC[self.calls];
			self.calls += 1;
			c_of(o)
		}
	}
}

/// Results are read out of a `Vec` into a fixed array with *concrete* indices: a symbolic index
/// into a heap object of symbolic size costs CBMC 4x the rest of the harness (measured 80 s vs
/// 19 s); likewise no `to_vec`/`extend_from_slice` of symbolic length (memcpy) in the harness.
fn readout(v: &[ValueType], dst: &mut [u64; L], off: usize) -> usize {
	let mut i = 0;
	while i < N {
		if i < v.len() {
			dst[off + i] = vb(v[i]);
		}
		i += 1;
	}
	v.len()
}
/// owned copy of a slice of at most N labels without a symbolic-size memcpy
fn vec_of(s: &[ValueType]) -> Vec<ValueType> {
	let mut v = Vec::with_capacity(N);
	let mut i = 0;
	while i < N {
		if i < s.len() {
			v.push(s[i]);
		}
		i += 1;
	}
	v
}

/// the combinators under test, value-label flavour
#[derive(Clone, Copy, PartialEq)]
enum Comb {
	Over,     // Method::over(&slice)
	OverVec,  // Method::over(Vec)
	Call,     // Sequence::call
	ApplyM,   // Method::apply (in place)
	ApplyS,   // Sequence::apply (in place)
	NextLoop, // reference: next element by element (sanity of the logging method itself)
}

/// runs one combinator with an existing method over `s`; the produced outputs go to
/// `dst[off..]` in order; returns their number
fn run(c: Comb, m: &mut LogM, s: &mut [ValueType], dst: &mut [u64; L], off: usize) -> usize {
	match c {
		Comb::Over => readout(&m.over(&*s), dst, off),
		Comb::OverVec => readout(&m.over(vec_of(s)), dst, off),
		Comb::Call => readout(&(&*s).call(m), dst, off),
		Comb::ApplyM => {
			let mut r = &mut *s;
			m.apply(&mut r);
			readout(s, dst, off)
		}
		Comb::ApplyS => {
			let mut r = &mut *s;
			Sequence::apply(&mut r, m);
			readout(s, dst, off)
		}
		Comb::NextLoop => {
			let mut i = 0;
			while i < s.len() {
				dst[off + i] = vb(m.next(&s[i]));
				i += 1;
			}
			s.len()
		}
	}
}

/// "one next per element, in order, with exactly those input bits, nothing else" for calls
/// `base..base+n` of the method; outputs are exactly the recorded ones.  (`nlog() == base + n`
/// is asserted by the caller: together with this there is no other call.)
fn check_exact(inp: &[ValueType; N], n: usize, res: &[u64; L], base: usize) {
	let k: usize = kani::any();
	if k < n {
		assert!(log(base + k).0 == base + k, "k-th call is the k-th step of the one method instance");
		assert!(log(base + k).1 == vb(inp[k]), "k-th call gets the k-th input, bit-identical");
		assert!(res[k] == out(base + k), "k-th output is what the k-th next returned");
	}
}

/// Lengths and split points are enumerated concretely inside the one harness (every length
/// 0..=N, every split 0..=n; labels stay symbolic): with a symbolic length every allocation
/// inside collect() has a symbolic size, which costs CBMC 10-100x (measured: 90 s / out of
/// memory at 16 GB against 10 s).  This is "one harness per length" folded into one function;
/// every iteration starts from setup().
macro_rules! per_len {
	($name:ident, $body:ident, $lo:expr, $hi:expr, $doc:expr) => {
		#[doc = $doc]
		#[kani::proof]
		#[kani::unwind(10)]
		fn $name() {
			let mut n = $lo;
			while n <= $hi {
				$body(n);
				n += 1;
			}
		}
	};
	($body:ident, $doc:expr; $a:ident, $b:ident, $c:ident, $d:ident) => {
		per_len!($a, $body, 0, 2, $doc);
		per_len!($b, $body, 3, 3, $doc);
		per_len!($c, $body, 4, 4, $doc);
		per_len!($d, $body, 5, 5, $doc);
	};
}
macro_rules! per_split {
	($name:ident, $body:ident, $lo:expr, $hi:expr, $doc:expr) => {
		#[doc = $doc]
		#[kani::proof]
		#[kani::unwind(10)]
		fn $name() {
			let mut n = $lo;
			while n <= $hi {
				let mut j = 0;
				while j <= n {
					$body(n, j);
					j += 1;
				}
				n += 1;
			}
		}
	};
	($body:ident, $doc:expr; $a:ident, $b:ident, $c:ident, $d:ident) => {
		per_split!($a, $body, 0, 2, $doc);
		per_split!($b, $body, 3, 3, $doc);
		per_split!($c, $body, 4, 4, $doc);
		per_split!($d, $body, 5, 5, $doc);
	};
}

macro_rules! comb_whole {
	($name:ident, $c:expr) => {
		/// one call over the whole slice (every length 0..=5)
		#[kani::proof]
		#[kani::unwind(10)]
		fn $name() {
			let mut n = 0;
			while n <= N {
				whole_body($c, n);
				n += 1;
			}
		}
	};
}
fn whole_body(c: Comb, n: usize) {
	{
		{
			setup();
			let arr: [ValueType; N] = kani::any();
			let mut work = arr;
			let mut m = LogM { calls: 0 };
			let mut res = [0u64; L];
			let len = run(c, &mut m, &mut work[..n], &mut res, 0);
			assert!(len == n, "exactly one output per input");
			assert!(nlog() == n, "exactly n calls of next");
			assert!(m.calls == n, "the instance advanced n steps");
			check_exact(&arr, n, &res, 0);
			let q: usize = kani::any();
			if n <= q && q < N {
				assert!(vb(work[q]) == vb(arr[q]), "elements outside the slice untouched");
			}
			kani::cover!(n == N, "longest slice");
			kani::cover!(n == 0, "empty slice");
		}
	}
}
comb_whole!(c09_whole_over, Comb::Over);
comb_whole!(c09_whole_over_vec, Comb::OverVec);
comb_whole!(c09_whole_call, Comb::Call);
comb_whole!(c09_whole_apply_method, Comb::ApplyM);
comb_whole!(c09_whole_apply_sequence, Comb::ApplyS);
comb_whole!(c09_whole_nextloop, Comb::NextLoop);

macro_rules! comb_chunked {
	($c1:expr, $c2:expr; $a:ident, $b:ident, $c:ident, $d:ident) => {
		comb_chunked!($a, $c1, $c2, 0, 2);
		comb_chunked!($b, $c1, $c2, 3, 3);
		comb_chunked!($c, $c1, $c2, 4, 4);
		comb_chunked!($d, $c1, $c2, 5, 5);
	};
	($name:ident, $c1:expr, $c2:expr, $lo:expr, $hi:expr) => {
		/// two consecutive calls on the two parts of the slice at every split point
		/// (either part may be empty) = one pass
		#[kani::proof]
		#[kani::unwind(10)]
		fn $name() {
			let mut n = $lo;
			while n <= $hi {
				let mut j = 0;
				while j <= n {
					chunked_body($c1, $c2, n, j);
					j += 1;
				}
				n += 1;
			}
		}
	};
}
fn chunked_body(c1: Comb, c2: Comb, n: usize, j: usize) {
	{
		{
			setup();
			let arr: [ValueType; N] = kani::any();
			let mut work = arr;
			let mut m = LogM { calls: 0 };
			let mut res = [0u64; L];
			let (a, b) = work[..n].split_at_mut(j);
			let l1 = run(c1, &mut m, a, &mut res, 0);
			assert!(l1 == j && nlog() == j, "first chunk: j calls, j outputs");
			let l2 = run(c2, &mut m, b, &mut res, j);
			assert!(l2 == n - j && nlog() == n, "second chunk: the remaining calls");
			assert!(m.calls == n, "the instance advanced n steps");
			check_exact(&arr, n, &res, 0);
			kani::cover!(n > 0 && j > 0 && j < n, "proper split");
			kani::cover!(j == 0 && n > 0, "empty first chunk");
			kani::cover!(j == n && n > 0, "empty second chunk");
		}
	}
}
comb_chunked!(Comb::Over, Comb::Over; c09_chunk_over_n0to2, c09_chunk_over_n3, c09_chunk_over_n4, c09_chunk_over_n5);
comb_chunked!(Comb::Call, Comb::Call; c09_chunk_call_n0to2, c09_chunk_call_n3, c09_chunk_call_n4, c09_chunk_call_n5);
comb_chunked!(Comb::ApplyM, Comb::ApplyM; c09_chunk_apply_method_n0to2, c09_chunk_apply_method_n3, c09_chunk_apply_method_n4, c09_chunk_apply_method_n5);
comb_chunked!(Comb::Over, Comb::ApplyS; c09_chunk_over_then_apply_n0to2, c09_chunk_over_then_apply_n3, c09_chunk_over_then_apply_n4, c09_chunk_over_then_apply_n5);
comb_chunked!(Comb::NextLoop, Comb::Call; c09_chunk_next_then_call_n0to2, c09_chunk_next_then_call_n3, c09_chunk_next_then_call_n4, c09_chunk_next_then_call_n5);

fn c09_new_over_body(n: usize) {
	setup();
	let arr: [ValueType; N] = kani::any();
	let fail: bool = kani::any();
	unsafe { NEW_FAIL = fail };
	let r = if kani::any() { LogM::new_over((), &arr[..n]) } else { LogM::new_over((), vec_of(&arr[..n])) };
	if n == 0 {
		assert!(r.is_ok() && r.unwrap().is_empty(), "new_over on the empty slice is Ok(empty)");
		assert!(new_calls() == 0 && nlog() == 0, "new_over on the empty slice calls nothing");
	} else {
		assert!(new_calls() == 1, "new called exactly once");
		assert!(new_arg() == vb(arr[0]), "new gets the first element as initial value");
		if fail {
			assert!(r.is_err(), "error of new is returned");
			assert!(nlog() == 0, "no next after a failed new");
		} else {
			assert!(r.is_ok(), "new_over is Ok when new is");
			assert!(nlog() == n, "exactly n calls of next");
			let mut res = [0u64; L];
			assert!(readout(&r.unwrap(), &mut res, 0) == n, "exactly one output per input");
			check_exact(&arr, n, &res, 0);
		}
	}
	kani::cover!(n > 0 && !fail, "slice");
	kani::cover!(n > 0 && fail, "failing new");
}
per_len!(c09_new_over_body, "new_over: `new` gets the first element, then one pass; empty slice: Ok(empty), nothing called; failing `new`: the error is returned and `next` is never called"; c09_new_over_n0to2, c09_new_over_n3, c09_new_over_n4, c09_new_over_n5);

fn c09_new_apply_body(n: usize) {
	setup();
	let arr: [ValueType; N] = kani::any();
	let fail: bool = kani::any();
	unsafe { NEW_FAIL = fail };
	let mut work = arr;
	let r = {
		let mut s = &mut work[..n];
		LogM::new_apply((), &mut s)
	};
	if n == 0 {
		assert!(r.is_ok(), "new_apply on the empty slice is Ok");
		assert!(new_calls() == 0 && nlog() == 0, "new_apply on the empty slice calls nothing");
	} else {
		assert!(new_calls() == 1, "new called exactly once");
		assert!(new_arg() == vb(arr[0]), "new gets the first element as initial value");
		if fail {
			assert!(r.is_err(), "error of new is returned");
			assert!(nlog() == 0, "no next after a failed new");
			let k: usize = kani::any();
			if k < n {
				assert!(vb(work[k]) == vb(arr[k]), "sequence untouched after a failed new");
			}
		} else {
			assert!(r.is_ok(), "new_apply is Ok when new is");
			assert!(nlog() == n, "exactly n calls of next");
			let mut res = [0u64; L];
			readout(&work[..n], &mut res, 0);
			check_exact(&arr, n, &res, 0);
		}
	}
	// nothing outside the slice is written
	let q: usize = kani::any();
	if n <= q && q < N {
		assert!(vb(work[q]) == vb(arr[q]), "elements outside the slice untouched");
	}
	kani::cover!(n > 0 && !fail, "slice");
	kani::cover!(n > 0 && fail, "failing new");
}
per_len!(c09_new_apply_body, "new_apply: as new_over, in place"; c09_new_apply_n0to2, c09_new_apply_n3, c09_new_apply_n4, c09_new_apply_n5);

fn c09_into_fn_new_fn_body(n: usize) {
	setup();
	let arr: [ValueType; N] = kani::any();
	let init: ValueType = kani::any();
	let via_new: bool = kani::any();
	let fail: bool = kani::any();
	kani::assume(via_new || !fail);
	unsafe { NEW_FAIL = fail };
	let f = if via_new {
		let r = LogM::new_fn((), &init);
		assert!(new_calls() == 1 && new_arg() == vb(init), "new_fn: new gets the initial value");
		assert!(r.is_err() == fail, "new_fn fails iff new fails");
		r.ok()
	} else {
		Some(LogM { calls: 0 }.into_fn())
	};
	assert!(nlog() == 0, "building the closure calls no next");
	if let Some(mut f) = f {
		let mut res = [0u64; L];
		let mut i = 0;
		while i < n {
			res[i] = vb(f(&arr[i]));
			assert!(nlog() == i + 1, "one next per closure call");
			i += 1;
		}
		check_exact(&arr, n, &res, 0);
		kani::cover!(n > 0 && via_new, "new_fn, stream");
		kani::cover!(n > 0 && !via_new, "into_fn, stream");
	}
	kani::cover!(fail, "failing new");
}
per_len!(c09_into_fn_new_fn_body, "into_fn / new_fn: the boxed closure is `next`"; c09_into_fn_new_fn_n0to2, c09_into_fn_new_fn_n3, c09_into_fn_new_fn_n4, c09_into_fn_new_fn_n5);

/// Logging method for the WithHistory harnesses: no write to a static inside `new` (Kani 0.68
/// reports spurious pointer failures in `Vec::push` when `T::new` writes a static inside
/// `Self { instance: T::new(..)?, history: Vec::new() }`; measured, see report).  The initial
/// value is kept in the instance and logged by every `next` instead.
static mut LOGINIT: [u64; L] = [0; L];
#[derive(Debug, Clone)]
struct LogH {
	calls: usize,
	init: u64,
}
impl Method for LogH {
	type Params = ();
	type Input = ValueType;
	type Output = ValueType;
	fn new(_: (), v: &ValueType) -> Result<Self, Error> {
		if unsafe { NEW_FAIL } {
			return Err(Error::WrongMethodParameters);
		}
		Ok(Self { calls: 0, init: vb(*v) })
	}
	fn next(&mut self, v: &ValueType) -> ValueType {
		unsafe {
			LOG[NLOG] = (self.calls, vb(*v));
			LOGINIT[NLOG] = self.init;
			NLOG += 1;
			let o = OUT[self.calls];
			self.calls += 1;
			bv(o)
		}
	}
}

fn c09_with_history_body(n: usize) {
	let mut ctor = 0;
	while ctor < 2 {
		setup();
		let arr: [ValueType; N] = kani::any();
		let init: ValueType = kani::any();
		let r: Result<WithHistory<LogH, ValueType>, Error> =
			if ctor == 0 { LogH::with_history((), &init) } else { WithHistory::new((), &init) };
		assert!(r.is_ok(), "with_history is Ok when new is");
		assert!(nlog() == 0, "construction calls no next");
		let mut wh = r.unwrap();
		assert!(wh.get(0).is_none() && wh.iter().next().is_none(), "history starts empty");
		let mut res = [0u64; L];
		let mut i = 0;
		while i < n {
			res[i] = vb(wh.next(&arr[i]));
			i += 1;
		}
		assert!(nlog() == n, "exactly n calls of the inner next");
		check_exact(&arr, n, &res, 0);
		if n > 0 {
			assert!(unsafe { LOGINIT[0] } == vb(init), "inner new got the initial value");
		}
		// history: get(i) = i-th newest, nothing beyond
		let i: usize = kani::any();
		kani::assume(i <= N);
		let g = wh.get(i);
		if i < n {
			assert!(g.map(vb) == Some(out(n - 1 - i)), "get(i) is the i-th newest output");
			assert!(Buffered::get(&&wh, i).map(vb) == Some(out(n - 1 - i)), "Buffered for &T forwards");
		} else {
			assert!(g.is_none(), "get beyond the history is None");
		}
		// iter(): oldest first, one entry per input
		let mut cnt = 0;
		for x in wh.iter() {
			assert!(vb(*x) == out(cnt), "iter() is oldest first");
			cnt += 1;
		}
		assert!(cnt == n, "history has one entry per input");
		kani::cover!(n > 0 && i == n - 1 && ctor == 0, "with_history, oldest entry");
		kani::cover!(i == n && ctor == 1, "WithHistory::new, first index beyond the history");
		ctor += 1;
	}
}
per_len!(c09_with_history_body, "WithHistory (via `Method::with_history` and `Method::new`): transparent wrapper + complete history"; c09_with_history_n0to2, c09_with_history_n3, c09_with_history_n4, c09_with_history_n5);

/// WithHistory: a failing inner `new` is returned
#[kani::proof]
#[kani::unwind(10)]
fn c09_with_history_new_fails() {
	setup();
	unsafe { NEW_FAIL = true };
	let init: ValueType = kani::any();
	let r: Result<WithHistory<LogH, ValueType>, Error> =
		if kani::any() { LogH::with_history((), &init) } else { WithHistory::new((), &init) };
	assert!(r.is_err(), "with_history fails when new fails");
	assert!(nlog() == 0, "no next after a failed new");
	kani::cover!(true, "reached");
}

fn c09_with_history_over_clone_body(n: usize) {
	if n >= N {
		return;
	}
	setup();
	let arr: [ValueType; N] = kani::any();
	let init: ValueType = kani::any();
	let mut wh: WithHistory<LogH, ValueType> = WithHistory::new((), &init).unwrap();
	let mut res = [0u64; L];
	assert!(readout(&wh.over(&arr[..n]), &mut res, 0) == n, "exactly one output per input");
	assert!(nlog() == n, "exactly n calls of the inner next");
	check_exact(&arr, n, &res, 0);
	let snap = wh.clone();
	let x: ValueType = kani::any();
	let y = wh.next(&x);
	assert!(vb(y) == out(n) && log(n) == (n, vb(x)), "wrapper continues the same instance");
	assert!(wh.get(0).map(vb) == Some(out(n)), "newest after one more step");
	let mut cnt = 0;
	for x in &snap {
		assert!(vb(*x) == out(cnt), "&WithHistory into_iter is oldest first");
		cnt += 1;
	}
	assert!(cnt == n, "clone's history unaffected by the original");
	let mut cnt = 0;
	for x in snap {
		assert!(vb(x) == out(cnt), "owned into_iter is oldest first");
		cnt += 1;
	}
	assert!(cnt == n, "owned into_iter yields the history");
	kani::cover!(true, "end reached");
}
per_len!(c09_with_history_over_clone_n0to2, c09_with_history_over_clone_body, 0, 2, "WithHistory driven through Method::over; clone independence; both IntoIterator impls");
per_len!(c09_with_history_over_clone_n3to4, c09_with_history_over_clone_body, 3, 4, "WithHistory driven through Method::over; clone independence; both IntoIterator impls");
/// WithHistory fed in CHUNKS (next, then over, then over again; every split point, chunks may be empty): the
/// history afterwards holds every output of the whole stream, oldest first, and the outputs are those of one pass
fn c09_with_history_chunked_body(n: usize) {
	if n >= N {
		return;
	}
	let mut j = 0;
	while j <= n {
		setup();
		let arr: [ValueType; N] = kani::any();
		let init: ValueType = kani::any();
		let mut wh: WithHistory<LogH, ValueType> = WithHistory::new((), &init).unwrap();
		let mut res = [0u64; L];
		// first chunk: element-wise when it has one element, otherwise through over
		let k = if j == 1 {
			res[0] = vb(wh.next(&arr[0]));
			1
		} else {
			readout(&wh.over(&arr[..j]), &mut res, 0)
		};
		assert!(k == j, "first chunk: one output per input");
		assert!(readout(&wh.over(&arr[j..n]), &mut res, j) == n - j, "second chunk: one output per input");
		// a third, empty chunk must not disturb anything
		assert!(wh.over(&arr[n..n]).is_empty(), "empty chunk yields nothing");
		assert!(nlog() == n, "exactly n calls of the inner next");
		check_exact(&arr, n, &res, 0);
		let i: usize = kani::any();
		kani::assume(i <= n);
		if i < n {
			assert!(wh.get(i).map(vb) == Some(out(n - 1 - i)), "chunked: get(i) is the i-th newest output of the whole stream");
		} else {
			assert!(wh.get(i).is_none(), "chunked: nothing beyond the whole stream");
		}
		let mut cnt = 0;
		for x in wh.iter() {
			assert!(vb(*x) == out(cnt), "chunked: iter() is oldest first over the whole stream");
			cnt += 1;
		}
		assert!(cnt == n, "chunked: the history has one entry per input of the whole stream");
		j += 1;
	}
	kani::cover!(true, "end reached");
}
per_len!(c09_with_history_chunked_n1to2, c09_with_history_chunked_body, 1, 2, "WithHistory fed in chunks keeps the whole history");
per_len!(c09_with_history_chunked_n3, c09_with_history_chunked_body, 3, 3, "WithHistory fed in chunks keeps the whole history");
per_len!(c09_with_history_chunked_n4, c09_with_history_chunked_body, 4, 4, "WithHistory fed in chunks keeps the whole history");

fn c09_with_last_value_steps_body(n: usize) {
	setup();
	let arr: [ValueType; N] = kani::any();
	if n >= N {
		return;
	}
	let init: ValueType = kani::any();
	let fail: bool = kani::any();
	unsafe { NEW_FAIL = fail };
	let r: Result<WithLastValue<LogM, ValueType>, Error> =
		if kani::any() { LogM::with_last_value((), &init) } else { WithLastValue::new((), &init) };
	assert!(new_calls() == 1 && new_arg() == vb(init), "inner new gets the initial value");
	assert!(r.is_err() == fail, "with_last_value fails iff new fails");
	if let Ok(mut wl) = r {
		let base = nlog(); // calls made by the constructor
		assert!(base <= 1, "constructor: at most the priming call");
		if base == 1 {
			assert!(log(0) == (0, vb(init)), "priming call is next(initial value)");
			assert!(vb(wl.peek()) == out(0), "peek after new is the primed value");
		}
		let mut res = [0u64; L];
		let mut i = 0;
		while i < n {
			let y = wl.next(&arr[i]);
			assert!(vb(wl.peek()) == vb(y), "peek is the value most recently produced");
			assert!(vb(Peekable::peek(&&wl)) == vb(y), "Peekable for &T forwards");
			res[i] = vb(y);
			i += 1;
		}
		assert!(nlog() == base + n, "exactly one inner next per next");
		check_exact(&arr, n, &res, base);
		// clone independence
		let snap = wl.clone();
		let x: ValueType = kani::any();
		let y = wl.next(&x);
		if n > 0 {
			assert!(vb(snap.peek()) == res[n - 1], "clone unaffected by the original");
		}
		assert!(vb(wl.peek()) == vb(y), "peek after one more step");
		kani::cover!(true, "end reached");
	}
	kani::cover!(fail, "failing new");
}
per_len!(c09_with_last_value_steps_n0to2, c09_with_last_value_steps_body, 0, 2, "WithLastValue, the part that holds: every `next` is exactly one inner `next` with the same input, returns its output, and `peek` is the value most recently produced (after `new`: the output of the priming call).  The inner call counter is taken relative to its value after `new`.");
per_len!(c09_with_last_value_steps_n3to4, c09_with_last_value_steps_body, 3, 4, "WithLastValue, the part that holds: every `next` is exactly one inner `next` with the same input, returns its output, and `peek` is the value most recently produced (after `new`: the output of the priming call).  The inner call counter is taken relative to its value after `new`.");

fn c09_with_last_value_transparent_body(n: usize) {
	setup();
	let arr: [ValueType; N] = kani::any();
	if n >= N {
		return;
	}
	let init: ValueType = kani::any();
	let mut wl: WithLastValue<LogM, ValueType> = WithLastValue::new((), &init).unwrap();
	let mut res = [0u64; L];
	let mut i = 0;
	while i < n {
		res[i] = vb(wl.next(&arr[i]));
		i += 1;
	}
	kani::cover!(out(1) == 7, "assertion site reached");
	assert!(nlog() == n, "WithLastValue: inner method stepped exactly once per input");
	check_exact(&arr, n, &res, 0);
}
per_len!(c09_with_last_value_transparent_n0to2, c09_with_last_value_transparent_body, 0, 2, "WithLastValue, transparency: the wrapped method must see exactly the stream (what a bare method fed the same stream sees), so that wrapped and bare produce the same sequence.");
per_len!(c09_with_last_value_transparent_n3to4, c09_with_last_value_transparent_body, 3, 4, "WithLastValue, transparency: the wrapped method must see exactly the stream (what a bare method fed the same stream sees), so that wrapped and bare produce the same sequence.");

// ---------------------------------------------------------------------------
// candle flavour (Sequence<T> for T: OHLCV)

fn any_cslice() -> [Candle; N] {
	[any_candle_label(), any_candle_label(), any_candle_label(), any_candle_label(), any_candle_label()]
}
fn readout_c(v: &[Candle], dst: &mut [[u64; 5]; L], off: usize) -> usize {
	let mut i = 0;
	while i < N {
		if i < v.len() {
			dst[off + i] = c5(&v[i]);
		}
		i += 1;
	}
	v.len()
}
fn cvec_of(s: &[Candle]) -> Vec<Candle> {
	let mut v = Vec::with_capacity(N);
	let mut i = 0;
	while i < N {
		if i < s.len() {
			v.push(s[i]);
		}
		i += 1;
	}
	v
}
fn check_exact_c(inp: &[Candle; N], n: usize, res: &[[u64; 5]; L], base: usize) {
	let k: usize = kani::any();
	if k < n {
		assert!(log(base + k).0 == base + k, "k-th call is the k-th step (candles)");
		assert!(eq5(unsafe { LOGC[base + k] }, c5(&inp[k])), "k-th call gets the k-th candle, all fields bit-identical");
		assert!(eq5(res[k], unsafe { OUTC[base + k] }), "k-th output is what the k-th next returned (candles)");
	}
}

fn c09_candles_chunked_body(n: usize, j: usize) {
	setup_c();
	let arr = any_cslice();
	let mut work = arr;
	let mut m = LogC { calls: 0 };
	let sel: u8 = kani::any();
	kani::assume(sel < 3);
	let (a, b) = work[..n].split_at_mut(j);
	let mut res = [[0u64; 5]; L];
	let (l1, l2);
	if sel == 0 {
		l1 = readout_c(&m.over(&*a), &mut res, 0);
		l2 = readout_c(&(&*b).call(&mut m), &mut res, j);
	} else if sel == 1 {
		let mut ra = &mut *a;
		m.apply(&mut ra);
		let mut rb = &mut *b;
		Sequence::apply(&mut rb, &mut m);
		l1 = readout_c(a, &mut res, 0);
		l2 = readout_c(b, &mut res, j);
	} else {
		l1 = readout_c(&(&*a).call(&mut m), &mut res, 0);
		l2 = readout_c(&m.over(cvec_of(b)), &mut res, j);
	}
	assert!(l1 == j && l2 == n - j, "exactly one output per input (candles)");
	assert!(nlog() == n && m.calls == n, "exactly n calls of next (candles)");
	check_exact_c(&arr, n, &res, 0);
	kani::cover!(n > 0 && j > 0 && j < n && sel == 0, "over+call, proper split");
	kani::cover!(n > 0 && j > 0 && j < n && sel == 1, "apply, proper split");
	kani::cover!(n > 0 && j > 0 && j < n && sel == 2, "call+over(Vec), proper split");
}
per_split!(c09_candles_chunked_body, "over / call / apply on candle slices, chunked at a symbolic split point"; c09_candles_chunked_n0to2, c09_candles_chunked_n3, c09_candles_chunked_n4, c09_candles_chunked_n5);

fn c09_candles_new_body(n: usize) {
	setup_c();
	let arr = any_cslice();
	let mut work = arr;
	let inplace: bool = kani::any();
	let mut res = [[0u64; 5]; L];
	let len = if inplace {
		let mut s = &mut work[..n];
		let r = LogC::new_apply((), &mut s);
		assert!(r.is_ok(), "new_apply Ok (candles)");
		readout_c(&work[..n], &mut res, 0)
	} else {
		let r = LogC::new_over((), &arr[..n]);
		assert!(r.is_ok(), "new_over Ok (candles)");
		readout_c(&r.unwrap(), &mut res, 0)
	};
	assert!(len == n, "exactly one output per input (candles, new_*)");
	if n == 0 {
		assert!(new_calls() == 0 && nlog() == 0, "empty candle slice: nothing called");
	} else {
		assert!(new_calls() == 1 && new_arg() == vb(arr[0].close), "new gets the first candle");
		assert!(nlog() == n, "exactly n calls of next (candles, new_*)");
		check_exact_c(&arr, n, &res, 0);
	}
	kani::cover!(n > 0 && inplace, "new_apply");
	kani::cover!(n > 0 && !inplace, "new_over");
}
per_len!(c09_candles_new_body, "new_over / new_apply on candle slices"; c09_candles_new_n0to2, c09_candles_new_n3, c09_candles_new_n4, c09_candles_new_n5);

// ---------------------------------------------------------------------------
// indicator level: logging IndicatorConfig / IndicatorInstance

static mut INIT_CALLS: usize = 0;
static mut INIT_ARG: [u64; 5] = [0; 5];

#[derive(Debug, Clone)]
pub(crate) struct LogCfg {
	pub tag: u8,
	pub ok: bool,
}
#[derive(Debug, Clone)]
pub(crate) struct LogInst {
	cfg: LogCfg,
	pub calls: usize,
}
fn ohlcv5<T: OHLCV>(c: &T) -> [u64; 5] {
	[vb(c.open()), vb(c.high()), vb(c.low()), vb(c.close()), vb(c.volume())]
}
impl IndicatorConfig for LogCfg {
	type Instance = LogInst;
	const NAME: &'static str = "LogCfg";
	fn validate(&self) -> bool {
		self.ok
	}
	fn set(&mut self, name: &str, value: String) -> Result<(), Error> {
		match name {
			"tag" => match value.parse() {
				Ok(v) => self.tag = v,
				Err(_) => return Err(Error::ParameterParse(name.to_string(), value)),
			},
			_ => return Err(Error::ParameterParse(name.to_string(), value)),
		}
		Ok(())
	}
	fn size(&self) -> (u8, u8) {
		(1, (self.tag & 3))
	}
	fn init<T: OHLCV>(self, initial_value: &T) -> Result<LogInst, Error> {
		unsafe {
			INIT_CALLS += 1;
			INIT_ARG = ohlcv5(initial_value);
		}
		if !self.ok {
			return Err(Error::WrongConfig);
		}
		Ok(LogInst { cfg: self, calls: 0 })
	}
}
impl IndicatorInstance for LogInst {
	type Config = LogCfg;
	fn config(&self) -> &LogCfg {
		&self.cfg
	}
	fn next<T: OHLCV>(&mut self, candle: &T) -> IndicatorResult {
		unsafe {
			LOG[NLOG] = (self.calls, vb(candle.close()));
			LOGC[NLOG] = ohlcv5(candle);
			NLOG += 1;
			let o = OUT[self.calls];
			self.calls += 1;
			IndicatorResult::new(&[bv(o)], &[Action::None, Action::None, Action::None][..(self.cfg.tag & 3) as usize])
		}
	}
}
pub(crate) fn ind_setup() {
	setup();
	unsafe {
		INIT_CALLS = 0;
		INIT_ARG = [0; 5];
	}
}
pub(crate) fn ind_any_cslice() -> [Candle; N] {
	any_cslice()
}
pub(crate) fn ind_any_candle() -> Candle {
	any_candle_label()
}
pub(crate) fn init_calls() -> usize {
	unsafe { INIT_CALLS }
}
pub(crate) fn init_arg() -> [u64; 5] {
	unsafe { INIT_ARG }
}
pub(crate) fn ind_nlog() -> usize {
	nlog()
}
pub(crate) fn candle5(c: &Candle) -> [u64; 5] {
	c5(c)
}
/// (value label, number of values, number of signals) of the results, read with concrete indices
pub(crate) fn readout_i(v: &[IndicatorResult], dst: &mut [(u64, usize, usize); L], off: usize) -> usize {
	let mut i = 0;
	while i < N {
		if i < v.len() {
			dst[off + i] = res3(&v[i]);
		}
		i += 1;
	}
	v.len()
}
pub(crate) fn res3(r: &IndicatorResult) -> (u64, usize, usize) {
	(if r.values().len() > 0 { vb(r.values()[0]) } else { 0 }, r.values().len(), r.signals().len())
}
/// results are exactly the recorded ones, calls base..base+n got exactly the candles
pub(crate) fn check_exact_i(inp: &[Candle; N], n: usize, res: &[(u64, usize, usize); L], base: usize, tag: u8) {
	let k: usize = kani::any();
	if k < n {
		assert!(log(base + k).0 == base + k, "k-th call is the k-th step of the one instance");
		assert!(eq5(unsafe { LOGC[base + k] }, c5(&inp[k])), "k-th call gets the k-th candle, bit-identical");
		assert!(res[k] == (out(base + k), 1, (tag & 3) as usize), "k-th result is what the k-th next returned");
	}
}

fn c09_indicator_config_over_body(n: usize) {
	ind_setup();
	let arr = any_cslice();
	let cfg = LogCfg { tag: kani::any(), ok: kani::any() };
	let (tag, ok) = (cfg.tag, cfg.ok);
	let r = if kani::any() { cfg.over(&arr[..n]) } else { cfg.over(cvec_of(&arr[..n])) };
	if n == 0 {
		assert!(r.is_ok() && r.unwrap().is_empty(), "over on no candles is Ok(empty)");
		assert!(init_calls() == 0 && nlog() == 0, "over on no candles calls nothing");
	} else {
		assert!(init_calls() == 1 && eq5(init_arg(), c5(&arr[0])), "init gets the first candle");
		if ok {
			assert!(r.is_ok(), "over is Ok when init is");
			assert!(nlog() == n, "exactly n calls of next");
			let mut res = [(0u64, 0usize, 0usize); L];
			assert!(readout_i(&r.unwrap(), &mut res, 0) == n, "exactly one result per candle");
			check_exact_i(&arr, n, &res, 0, tag);
		} else {
			assert!(r.is_err() && nlog() == 0, "failing init: error returned, no next");
		}
	}
	kani::cover!(n > 0 && ok, "stream");
	kani::cover!(n > 0 && !ok, "failing init");
}
per_len!(c09_indicator_config_over_body, "IndicatorConfig::over: empty input is Ok(empty) without init; otherwise init(first) then one pass; a failing init is returned"; c09_indicator_config_over_n0to2, c09_indicator_config_over_n3, c09_indicator_config_over_n4, c09_indicator_config_over_n5);

fn c09_indicator_instance_over_chunked_body(n: usize, j: usize) {
	ind_setup();
	let arr = any_cslice();
	let cfg = LogCfg { tag: kani::any(), ok: true };
	let tag = cfg.tag;
	let init = any_candle_label();
	let mut inst = cfg.init(&init).unwrap();
	assert!(eq5(init_arg(), c5(&init)) && nlog() == 0, "init does not step");
	let mut res = [(0u64, 0usize, 0usize); L];
	let l1 = if kani::any() {
		readout_i(&IndicatorInstance::over(&mut inst, &arr[..j]), &mut res, 0)
	} else {
		let mut i = 0;
		while i < j {
			res[i] = res3(&IndicatorInstance::next(&mut inst, &arr[i]));
			i += 1;
		}
		j
	};
	assert!(l1 == j && nlog() == j, "first chunk: j calls, j results");
	let l2 = readout_i(&IndicatorInstance::over(&mut inst, cvec_of(&arr[j..n])), &mut res, j);
	assert!(l2 == n - j, "second chunk: one result per candle");
	assert!(nlog() == n && inst.calls == n, "exactly n calls of next");
	check_exact_i(&arr, n, &res, 0, tag);
	assert!(IndicatorInstance::size(&inst) == (1, tag & 3), "instance size is the config size");
	assert!(IndicatorInstance::name(&inst) == "LogCfg", "instance name is NAME");
	kani::cover!(n > 0 && j > 0 && j < n, "proper split");
	kani::cover!(j == 0 && n > 0, "empty first chunk");
	kani::cover!(j == n && n > 0, "empty second chunk");
}
per_split!(c09_indicator_instance_over_chunked_body, "IndicatorInstance::over chunked at a symbolic split point, mixed with element-wise next"; c09_indicator_instance_over_chunked_n0to2, c09_indicator_instance_over_chunked_n3, c09_indicator_instance_over_chunked_n4, c09_indicator_instance_over_chunked_n5);

fn c09_indicator_fn_body(n: usize) {
	ind_setup();
	let arr = any_cslice();
	let cfg = LogCfg { tag: kani::any(), ok: kani::any() };
	let (tag, ok) = (cfg.tag, cfg.ok);
	let init = any_candle_label();
	let via_cfg: bool = kani::any();
	kani::assume(via_cfg || ok);
	let f = if via_cfg {
		let r = cfg.init_fn(&init);
		assert!(r.is_ok() == ok, "init_fn fails iff init fails");
		r.ok()
	} else {
		Some(cfg.init(&init).unwrap().into_fn())
	};
	assert!(init_calls() == 1 && eq5(init_arg(), c5(&init)), "init gets the initial candle");
	assert!(nlog() == 0, "building the closure calls no next");
	if let Some(mut f) = f {
		let mut res = [(0u64, 0usize, 0usize); L];
		let mut i = 0;
		while i < n {
			res[i] = res3(&f(&arr[i]));
			assert!(nlog() == i + 1, "one next per closure call");
			i += 1;
		}
		check_exact_i(&arr, n, &res, 0, tag);
		kani::cover!(n > 0 && via_cfg, "init_fn, stream");
		kani::cover!(n > 0 && !via_cfg, "into_fn, stream");
	}
	kani::cover!(!ok, "failing init");
}
per_len!(c09_indicator_fn_body, "IndicatorConfig::init_fn / IndicatorInstance::into_fn: the boxed closure is `next`"; c09_indicator_fn_n0to2, c09_indicator_fn_n3, c09_indicator_fn_n4, c09_indicator_fn_n5);

// ---------------------------------------------------------------------------
// Clone is a deep copy for the one heap container every instance embeds

/// pushes into the original do not show in the clone, and vice versa
#[kani::proof]
#[kani::unwind(10)]
fn c09_window_clone_independent() {
	let (mut w, arr, n, idx) = any_ring::<8>();
	let mut c = w.clone();
	let k: usize = kani::any();
	kani::assume(k < n);
	let before = seq(&arr, n, idx, n - 1 - k); // k-th newest
	assert!(c[k as PeriodType] == before && c.len() as usize == n, "clone has the same content");
	// ... in the same storage order: MeanAbsDev / MedianAbsDev / CCI sum over as_slice() in raw buffer order, so a
	// clone that re-orders the buffer continues with a different rounding (not bit-identical)
	assert!(c.as_slice()[k] == w.as_slice()[k] && c.as_slice().len() == n, "clone keeps the storage order of the buffer");
	let x: u8 = kani::any();
	let y: u8 = kani::any();
	let into_original: bool = kani::any();
	let pushes: usize = kani::any();
	kani::assume(1 <= pushes && pushes <= 2);
	if into_original {
		w.push(x);
		if pushes == 2 {
			w.push(y);
		}
		assert!(c[k as PeriodType] == before, "clone unaffected by pushes into the original");
		assert!(*c.oldest() == seq(&arr, n, idx, 0) && *c.newest() == seq(&arr, n, idx, n - 1), "clone's ends unaffected");
		// and the clone continues like the original would have
		assert!(c.push(x) == seq(&arr, n, idx, 0), "clone continues from the snapshot");
	} else {
		c.push(x);
		if pushes == 2 {
			c.push(y);
		}
		assert!(w[k as PeriodType] == before, "original unaffected by pushes into the clone");
		assert!(*w.oldest() == seq(&arr, n, idx, 0) && *w.newest() == seq(&arr, n, idx, n - 1), "original's ends unaffected");
		assert!(w.push(x) == seq(&arr, n, idx, 0), "original continues from its own state");
	}
	kani::cover!(n == 8 && idx == 7 && into_original && pushes == 2, "largest ring, wrap, two pushes");
	kani::cover!(n == 1 && !into_original, "ring of one");
}

// ---------------------------------------------------------------------------
// peek = the value most recently produced (comparison-only / label methods)

macro_rules! past_peek {
	($name:ident, $len:expr, $steps:expr, $assume:expr) => {
		#[kani::proof]
		#[kani::unwind(8)]
		fn $name() {
			let init: u8 = kani::any();
			let mut p = Past::new($len, &init).unwrap();
			let mut i = 0;
			let mut y = init;
			let mut x = init;
			let mut all_eq = true; // every input so far equals the initial value
			while i < $steps {
				x = kani::any();
				all_eq = all_eq && x == init;
				y = p.next(&x);
				i += 1;
			}
			let f: fn(u8, u8, bool) -> bool = $assume;
			kani::assume(f(x, y, all_eq));
			kani::cover!(x == 200, "assertion site reached");
			assert!(p.peek() == y, "Past::peek is the value last returned by next");
		}
	};
}
// Split by input class (D8: `Past::peek` returns the newest *input*, not the value produced):
// the streams whose last input differs from the last output (fails, known finding) and the
// complement, where the two coincide (must pass); together: every stream.
past_peek!(c09_past_peek_len1_differ, 1, 2, |x, y, _| x != y);
past_peek!(c09_past_peek_len1_coincide, 1, 2, |x, y, _| x == y);
past_peek!(c09_past_peek_len3_differ, 3, 4, |x, y, _| x != y);
past_peek!(c09_past_peek_len3_coincide, 3, 4, |x, y, _| x == y);

macro_rules! hl_peek {
	($name:ident, $ty:ty, $len:expr, $steps:expr) => {
		#[kani::proof]
		#[kani::unwind(8)]
		fn $name() {
			let init = any_finite();
			let mut m = <$ty>::new($len, &init).unwrap();
			let mut i = 0;
			while i < $steps {
				let x = any_finite();
				let y = m.next(&x);
				assert!(m.peek() == y, "peek is the value last returned by next");
				assert!(Peekable::peek(&&m) == y, "Peekable for &T forwards");
				i += 1;
			}
			kani::cover!(true, "reachable");
		}
	};
}
hl_peek!(c09_peek_highest, Highest, 3, 4);
hl_peek!(c09_peek_lowest, Lowest, 3, 4);
hl_peek!(c09_peek_highest_index, HighestIndex, 3, 4);
hl_peek!(c09_peek_lowest_index, LowestIndex, 3, 4);




/// Per-method bulk paths: a method may override `Method::over`. Past(3) after j = 0..=3 single steps (every
/// rotation phase of its ring), then a chunk of 4 through `over` (longer than the window): the outputs are
/// those of `next` element by element on a clone, bit for bit.
#[kani::proof]
#[kani::unwind(8)]
fn c09_past_over_after_steps() {
	let init: ValueType = kani::any();
	let mut p = Past::new(3, &init).unwrap();
	let j: u8 = kani::any();
	kani::assume(j <= 3);
	let mut i = 0;
	while i < 3 {
		if i < j {
			let x: ValueType = kani::any();
			let _ = p.next(&x);
		}
		i += 1;
	}
	let mut q = p.clone();
	let xs: [ValueType; 4] = kani::any();
	let out = p.over(&xs[..]);
	assert!(out.len() == 4, "one output per input");
	let mut k = 0;
	while k < 4 {
		let y = q.next(&xs[k]);
		assert!(out[k].to_bits() == y.to_bits(), "Past::over equals next element by element");
		k += 1;
	}
	kani::cover!(j == 2, "ring rotated before the chunk");
}
