//! C18 — candle helper identities, validate, Candle + Candle, text forms of Source and MA.
//!
//! Float harnesses are written over `yata::core::ValueType` so that the same harness is
//! decided for the f32 build (`--features f32`, quick tier) and for the f64 build
//! (thorough tier).  Harnesses that take completely unrestricted floats (`kani::any()`)
//! let additions overflow to infinity: CBMC's float-overflow / NaN side checks are
//! allow-listed for them in reg/c18.py (IEEE overflow is not a panic; the identity is
//! still asserted on the overflowed value).
use crate::util::*;
use yata::core::{Candle, PeriodType, Sequence, Source, ValueType, OHLCV};
use yata::helpers::MA;

/// same float: identical bits, or both NaN (NaN payloads are not part of the property)
#[inline]
fn same(a: ValueType, b: ValueType) -> bool {
	a.to_bits() == b.to_bits() || (a.is_nan() && b.is_nan())
}

/// numerically equal (so +0 == -0), or both NaN
#[inline]
fn eqn(a: ValueType, b: ValueType) -> bool {
	a == b || (a.is_nan() && b.is_nan())
}

/// completely unrestricted candle: every field any bit pattern
fn any_candle() -> Candle {
	Candle {
		open: kani::any(),
		high: kani::any(),
		low: kani::any(),
		close: kani::any(),
		volume: kani::any(),
	}
}

const KINDS: usize = 8;
fn source_kind(i: usize) -> Source {
	match i {
		0 => Source::Close,
		1 => Source::Open,
		2 => Source::High,
		3 => Source::Low,
		4 => Source::HL2,
		5 => Source::TP,
		6 => Source::Volume,
		_ => Source::VolumedPrice,
	}
}

// ---------------------------------------------------------------------------------------
// accessors / conversions (comparison only)

/// tuples, arrays, Candle and the From conversions expose the same five numbers;
/// Candle equality is equality of the five bit patterns
#[kani::proof]
#[kani::unwind(2)]
fn c18_accessors() {
	let c = any_candle();
	let t5 = (c.open, c.high, c.low, c.close, c.volume);
	let a5 = [c.open, c.high, c.low, c.close, c.volume];
	assert!(t5.open().to_bits() == c.open.to_bits() && t5.high().to_bits() == c.high.to_bits(), "tuple open/high");
	assert!(t5.low().to_bits() == c.low.to_bits() && t5.close().to_bits() == c.close.to_bits(), "tuple low/close");
	assert!(t5.volume().to_bits() == c.volume.to_bits(), "tuple volume");
	assert!(a5.open().to_bits() == c.open.to_bits() && a5.high().to_bits() == c.high.to_bits(), "array open/high");
	assert!(a5.low().to_bits() == c.low.to_bits() && a5.close().to_bits() == c.close.to_bits(), "array low/close");
	assert!(a5.volume().to_bits() == c.volume.to_bits(), "array volume");
	assert!(OHLCV::open(&c).to_bits() == c.open.to_bits() && OHLCV::high(&c).to_bits() == c.high.to_bits(), "candle open/high");
	assert!(OHLCV::low(&c).to_bits() == c.low.to_bits() && OHLCV::close(&c).to_bits() == c.close.to_bits(), "candle low/close");
	assert!(OHLCV::volume(&c).to_bits() == c.volume.to_bits(), "candle volume");
	let f5: Candle = t5.into();
	assert!(f5 == c, "From<5-tuple> keeps every field");
	let f4: Candle = (c.open, c.high, c.low, c.close).into();
	assert!(
		f4.open.to_bits() == c.open.to_bits()
			&& f4.high.to_bits() == c.high.to_bits()
			&& f4.low.to_bits() == c.low.to_bits()
			&& f4.close.to_bits() == c.close.to_bits()
			&& f4.volume.is_nan(),
		"From<4-tuple> keeps prices, volume absent (NaN)"
	);
	let g = Candle::from(&a5);
	assert!(g == c, "Candle::from(&OHLCV) keeps every field");
	let d: &dyn OHLCV = &t5;
	let g2: Candle = d.into();
	assert!(g2 == c, "From<&dyn OHLCV> keeps every field");
	// equality by bits: reflexive also on NaN, and distinguishes every field
	assert!(c == c, "Candle eq is reflexive (NaN fields included)");
	let o = any_candle();
	let bits_equal = o.open.to_bits() == c.open.to_bits()
		&& o.high.to_bits() == c.high.to_bits()
		&& o.low.to_bits() == c.low.to_bits()
		&& o.close.to_bits() == c.close.to_bits()
		&& o.volume.to_bits() == c.volume.to_bits();
	assert!((o == c) == bits_equal, "Candle eq iff all five bit patterns equal");
	kani::cover!(c.volume.is_nan() && c.high.is_infinite(), "NaN volume, infinite high reachable");
	kani::cover!(o == c && c.open.is_nan(), "equal candles with NaN open reachable");
}

// ---------------------------------------------------------------------------------------
// single-candle formulas, bit-exact against the documented expression

/// tp == (high + low + close) / 3
#[kani::proof]
#[kani::unwind(2)]
fn c18_tp() {
	let c = any_candle();
	let want = (c.high + c.low + c.close) / 3.;
	assert!(same(c.tp(), want), "tp == (high + low + close) / 3");
	kani::cover!(c.tp().is_finite() && c.tp() != 0.0, "finite non-zero tp reachable");
	kani::cover!(c.tp().is_infinite() && c.high.is_finite() && c.low.is_finite() && c.close.is_finite(), "overflowing tp reachable");
}

/// hl2 == (high + low) / 2   (multiplication by 0.5 and division by 2 round identically)
#[kani::proof]
#[kani::unwind(2)]
fn c18_hl2() {
	let c = any_candle();
	assert!(same(c.hl2(), (c.high + c.low) * 0.5), "hl2 == (high + low) * 0.5");
	assert!(same(c.hl2(), (c.high + c.low) / 2.), "hl2 == (high + low) / 2");
	kani::cover!(c.hl2().is_finite() && c.hl2() != 0.0, "finite non-zero hl2 reachable");
	kani::cover!(c.hl2().is_nan(), "NaN hl2 reachable");
}

/// ohlc4 == (high + low + close + open) / 4
#[kani::proof]
#[kani::unwind(2)]
fn c18_ohlc4() {
	let c = any_candle();
	assert!(same(c.ohlc4(), (c.high + c.low + c.close + c.open) * 0.25), "ohlc4 == (high + low + close + open) * 0.25");
	kani::cover!(c.ohlc4().is_finite() && c.ohlc4() != 0.0, "finite non-zero ohlc4 reachable");
}

/// volumed_price == tp * volume == (high + low + close) / 3 * volume
#[kani::proof]
#[kani::unwind(2)]
fn c18_volumed_price() {
	let c = any_candle();
	let want = (c.high + c.low + c.close) / 3. * c.volume;
	assert!(same(c.volumed_price(), want), "volumed_price == (high + low + close) / 3 * volume");
	kani::cover!(c.volumed_price().is_finite() && c.volumed_price() != 0.0, "finite non-zero volumed price reachable");
}

/// source(kind) for the five plain fields
#[kani::proof]
#[kani::unwind(2)]
fn c18_source_fields() {
	let c = any_candle();
	assert!(c.source(Source::Open).to_bits() == c.open.to_bits(), "source(Open)");
	assert!(c.source(Source::High).to_bits() == c.high.to_bits(), "source(High)");
	assert!(c.source(Source::Low).to_bits() == c.low.to_bits(), "source(Low)");
	assert!(c.source(Source::Close).to_bits() == c.close.to_bits(), "source(Close)");
	assert!(c.source(Source::Volume).to_bits() == c.volume.to_bits(), "source(Volume)");
	kani::cover!(c.open.is_nan() && c.volume < 0.0, "NaN open, negative volume reachable");
}

/// source(kind) for the three derived kinds, against the documented formulas
#[kani::proof]
#[kani::unwind(2)]
fn c18_source_derived() {
	let c = any_candle();
	assert!(same(c.source(Source::HL2), (c.high + c.low) * 0.5), "source(HL2) == (high + low) / 2");
	assert!(same(c.source(Source::TP), (c.high + c.low + c.close) / 3.), "source(TP) == (high + low + close) / 3");
	assert!(
		same(c.source(Source::VolumedPrice), (c.high + c.low + c.close) / 3. * c.volume),
		"source(VolumedPrice) == (high + low + close) / 3 * volume"
	);
	kani::cover!(c.source(Source::HL2).is_finite() && c.source(Source::HL2) != 0.0, "HL2 reachable");
	kani::cover!(c.source(Source::TP).is_finite() && c.source(Source::TP) != 0.0, "TP reachable");
	kani::cover!(c.source(Source::VolumedPrice).is_finite() && c.source(Source::VolumedPrice) != 0.0, "VolumedPrice reachable");
}

// ---------------------------------------------------------------------------------------
// clv

/// zero range: clv is 0 (also for infinite high == low and for +0 == -0)
#[kani::proof]
#[kani::unwind(2)]
fn c18_clv_zero_range() {
	let c = any_candle();
	kani::assume(c.high == c.low);
	assert!(c.clv() == 0.0, "clv is 0 on a zero range");
	kani::cover!(c.high.is_infinite(), "infinite zero range reachable");
	kani::cover!(c.high.to_bits() != c.low.to_bits(), "+0/-0 zero range reachable");
	kani::cover!(c.close.is_nan(), "NaN close reachable");
}

/// non-zero range, bit-exact: clv == ((2*close - low) - high) / (high - low) with the first
/// two operations fused.  In real arithmetic (2c - l) - h == (c - l) - (h - c), i.e. this
/// is the textbook CLV with one rounding less in the numerator.
#[kani::proof]
#[kani::unwind(2)]
fn c18_clv_fused() {
	let c = any_candle();
	kani::assume(c.high != c.low);
	let two: ValueType = 2.;
	let want = (two.mul_add(c.close, -c.low) - c.high) / (c.high - c.low);
	assert!(same(c.clv(), want), "clv == ((2*close - low) - high) / (high - low)");
	kani::cover!(c.clv() > 0.5 && c.clv() < 1.0, "clv in (0.5, 1) reachable");
	kani::cover!(c.clv() == -1.0 && c.close == c.low, "close at the low gives -1");
	kani::cover!(c.clv().is_nan() && !c.high.is_nan() && !c.low.is_nan() && !c.close.is_nan(), "NaN clv from infinite fields reachable");
}

/// non-zero range: clv * (high - low) is the textbook numerator (close-low) - (high-close)
/// up to rounding: the code evaluates (2*close - low) - high with one fused operation, the
/// textbook form with three subtractions; each rounds relative to max(|high|,|low|,|close|),
/// 15 half-ulps in total for the two numerators plus 8 for the division and the
/// multiplication back  =>  12 eps * max|price| bounds the difference.
/// Deepening obligation only: neither this narrow window (prices in [1, 16), f32) nor the
/// full magnitude window reached a verdict (1200 s / 600 s, CaDiCaL and Kissat); the
/// numerator lemma alone (no division) did not finish in 900 s at f32 either.
#[kani::proof]
#[kani::unwind(2)]
fn c18_clv_formula_narrow() {
	let h: ValueType = kani::any();
	let l: ValueType = kani::any();
	let cl: ValueType = kani::any();
	kani::assume(1. <= h && h < 16. && 1. <= l && l < 16. && 1. <= cl && cl < 16.);
	kani::assume(h != l);
	let c = Candle { open: kani::any(), high: h, low: l, close: cl, volume: kani::any() };
	let clv = c.clv();
	kani::assume(clv.is_finite());
	let d = h - l;
	let textbook = (cl - l) - (h - cl);
	let m = h.abs().max(l.abs()).max(cl.abs());
	let tol = 12. * ValueType::EPSILON * m;
	let back = clv * d;
	assert!((back - textbook).abs() <= tol, "clv * (high - low) == (close - low) - (high - close) within 12 eps * max|price|");
	kani::cover!(clv > 0.5 && clv < 1.0, "clv in (0.5, 1) reachable");
	kani::cover!(clv < -1.0, "close below low reachable");
}

// ---------------------------------------------------------------------------------------
// true range: tr_close == max(high-low, |high-pc|, |low-pc|) whenever high >= low
//
// The monolithic identity (c18_tr_close) needs the solver to discover that IEEE subtraction
// is monotone through four bit-blasted adders; it does not finish (> 600 s at f32).  It is
// decided by cases instead — every (candle, pc) with high >= low falls into exactly one of
//   up:   pc > high          down: pc < low          in: neither (inside the range, or NaN)
// and per case:  c18_tr_select   the result is bit-identical to one of the three terms,
//                c18_tr_dom_*    neither of the other two terms exceeds it (one harness per
//                                case and term: two adders each),
//                c18_tr_glue     "equals one term, no term is greater, NaN only if all are"
//                                is the same as "equals the max of the three" (float max only).

/// monolithic form (deepening obligation)
#[kani::proof]
#[kani::unwind(2)]
fn c18_tr_close() {
	let c = any_candle();
	let pc: ValueType = kani::any();
	kani::assume(c.high >= c.low);
	let got = c.tr_close(pc);
	let want = (c.high - c.low).max((c.high - pc).abs()).max((c.low - pc).abs());
	assert!(eqn(got, want), "tr_close == max(high-low, |high-pc|, |low-pc|)");
	kani::cover!(pc > c.high && got.is_finite() && got > 0.0, "gap up reachable");
	kani::cover!(pc < c.low && got.is_finite() && got > 0.0, "gap down reachable");
	kani::cover!(pc >= c.low && pc <= c.high && got > 0.0, "previous close inside the range reachable");
	kani::cover!(pc.is_nan() && got.is_finite(), "NaN previous close reachable");
}

/// by position of the previous close the result is (numerically: the sign of a zero result is
/// not part of the formula) one of the three textbook terms; one harness per position
#[kani::proof]
#[kani::unwind(2)]
fn c18_tr_select_up() {
	let c = any_candle();
	let pc: ValueType = kani::any();
	kani::assume(c.high >= c.low && pc > c.high);
	let got = c.tr_close(pc);
	assert!(eqn(got, (c.low - pc).abs()), "gap up: tr_close == |low - pc|");
	kani::cover!(got.is_finite() && got > 0.0, "finite positive true range reachable");
	kani::cover!(got.is_infinite(), "infinite true range reachable");
}

#[kani::proof]
#[kani::unwind(2)]
fn c18_tr_select_down() {
	let c = any_candle();
	let pc: ValueType = kani::any();
	kani::assume(c.high >= c.low && pc < c.low);
	let got = c.tr_close(pc);
	assert!(eqn(got, (c.high - pc).abs()), "gap down: tr_close == |high - pc|");
	kani::cover!(got.is_finite() && got > 0.0, "finite positive true range reachable");
	kani::cover!(got.is_infinite(), "infinite true range reachable");
}

#[kani::proof]
#[kani::unwind(2)]
fn c18_tr_select_in() {
	let c = any_candle();
	let pc: ValueType = kani::any();
	kani::assume(c.high >= c.low && !(pc > c.high) && !(pc < c.low));
	let got = c.tr_close(pc);
	assert!(eqn(got, c.high - c.low), "inside (or NaN pc): tr_close == high - low");
	kani::cover!(got.is_finite() && got > 0.0, "finite positive true range reachable");
	kani::cover!(pc.is_nan() && got.is_finite(), "NaN previous close reachable");
	kani::cover!(got.is_nan(), "NaN true range (infinite equal high and low) reachable");
	kani::cover!(got == 0.0 && pc == c.high, "zero range reachable");
}

macro_rules! tr_dominates {
	($name:ident, $case:expr, $term:expr, $label:expr) => {
		#[kani::proof]
		#[kani::unwind(2)]
		fn $name() {
			let c = any_candle();
			let pc: ValueType = kani::any();
			kani::assume(c.high >= c.low);
			let up = pc > c.high;
			let down = pc < c.low;
			// case 0: gap up, 1: gap down, 2: inside the range or NaN
			kani::assume(if $case == 0 { up } else if $case == 1 { down } else { !up && !down });
			let got = c.tr_close(pc);
			// term 0: high - low, 1: |high - pc|, 2: |low - pc|
			let term = if $term == 0 {
				c.high - c.low
			} else if $term == 1 {
				(c.high - pc).abs()
			} else {
				(c.low - pc).abs()
			};
			assert!(!(term > got), $label);
			assert!(!got.is_nan() || term.is_nan(), "NaN only together");
			kani::cover!(got.is_finite() && got > 0.0 && term < got, "strictly smaller term reachable");
			kani::cover!(got.is_finite() && got > 0.0 && term == got, "equal term reachable");
		}
	};
}
tr_dominates!(c18_tr_dom_up_range, 0, 0, "gap up: high - low <= tr_close");
tr_dominates!(c18_tr_dom_up_high, 0, 1, "gap up: |high - pc| <= tr_close");
tr_dominates!(c18_tr_dom_down_range, 1, 0, "gap down: high - low <= tr_close");
tr_dominates!(c18_tr_dom_down_low, 1, 2, "gap down: |low - pc| <= tr_close");
tr_dominates!(c18_tr_dom_in_high, 2, 1, "inside: |high - pc| <= tr_close");
tr_dominates!(c18_tr_dom_in_low, 2, 2, "inside: |low - pc| <= tr_close");

/// glue (float max only): a value that equals one of three terms, is exceeded by none and is
/// NaN only if all are, is their (NaN-ignoring) maximum
#[kani::proof]
#[kani::unwind(2)]
fn c18_tr_glue() {
	let t1: ValueType = kani::any();
	let t2: ValueType = kani::any();
	let t3: ValueType = kani::any();
	let got: ValueType = kani::any();
	kani::assume(eqn(got, t1) || eqn(got, t2) || eqn(got, t3));
	kani::assume(!(t1 > got) && !(t2 > got) && !(t3 > got));
	kani::assume(!got.is_nan() || (t1.is_nan() && t2.is_nan() && t3.is_nan()));
	assert!(eqn(got, t1.max(t2).max(t3)), "selected, dominating term is the max of the three");
	kani::cover!(got.is_nan(), "all-NaN case reachable");
	kani::cover!(t2.is_nan() && t3.is_nan() && got.is_finite(), "NaN terms ignored");
	kani::cover!(got == t3 && t3 > t1 && t1 > t2, "third term largest");
}

/// tr(prev) is tr_close(prev.close())
#[kani::proof]
#[kani::unwind(2)]
fn c18_tr_is_tr_close() {
	let c = any_candle();
	let p = any_candle();
	assert!(same(c.tr(&p), c.tr_close(p.close)), "tr(prev) == tr_close(prev.close)");
	kani::cover!(c.tr(&p).is_finite() && c.tr(&p) > 0.0, "finite positive tr reachable");
}

// ---------------------------------------------------------------------------------------
// validate

/// docs (ohlcv.rs, `validate`): close cannot be more than high; low cannot be more than any
/// other value; statement: ordered, positive, finite prices, volume non-negative or absent.
/// The code does not compare `open` with high/low, the docs ("low cannot be more than any
/// other value of the candle") do: sandwich  S => validate() => N.
#[kani::proof]
#[kani::unwind(2)]
fn c18_validate_sandwich() {
	let c = any_candle();
	let (o, h, l, cl, v) = (c.open, c.high, c.low, c.close, c.volume);
	let prices = o.is_finite() && h.is_finite() && l.is_finite() && cl.is_finite() && o > 0. && h > 0. && l > 0. && cl > 0.;
	let n = l <= cl && cl <= h && l <= h && prices && (v.is_nan() || v >= 0.);
	let s = n && l <= o && o <= h && (v.is_nan() || v.is_finite());
	let got = c.validate();
	assert!(!s || got, "validate accepts ordered positive finite prices with volume >= 0 or absent");
	assert!(!got || n, "validate rejects unordered / non-positive / non-finite prices and negative volume");
	// the default method is shared: tuple and array views agree with Candle
	assert!(OHLCV::validate(&(o, h, l, cl, v)) == got, "tuple validate == candle validate");
	assert!(OHLCV::validate(&[o, h, l, cl, v]) == got, "array validate == candle validate");
	kani::cover!(got && v.is_nan(), "accepted with absent volume");
	kani::cover!(got && v == 0.0, "accepted with zero volume");
	kani::cover!(got && (o > h || o < l), "accepted although open is outside [low, high] (docs/code gap)");
	kani::cover!(!got && n, "MUSTNOT rejected although N holds");
	kani::cover!(!got && cl.is_nan(), "rejected NaN close");
	kani::cover!(!got && h.is_infinite() && h > 0., "rejected infinite high");
	kani::cover!(!got && v < 0., "rejected negative volume");
	kani::cover!(got && l == h, "accepted zero range");
}

// ---------------------------------------------------------------------------------------
// Candle + OHLCV

/// (a + b) + c and a + (b + c): first open, max high, min low, last close; both
/// associations give numerically equal prices; volume is the float sum in the respective
/// association (associativity of float + is not claimed)
#[kani::proof]
#[kani::unwind(2)]
fn c18_add_prices() {
	let a = any_candle();
	let b = any_candle();
	let c = any_candle();
	let ab = a + b;
	let l = ab + c;
	let r = a + (b + c);
	// one addition
	assert!(ab.open.to_bits() == a.open.to_bits(), "a+b: open of the first");
	assert!(ab.close.to_bits() == b.close.to_bits(), "a+b: close of the last");
	assert!(!(a.high > ab.high) && !(b.high > ab.high), "a+b: high is an upper bound");
	assert!(same(ab.high, a.high) || same(ab.high, b.high), "a+b: high is one of the highs");
	assert!(!ab.high.is_nan() || (a.high.is_nan() && b.high.is_nan()), "a+b: high is NaN only if both are");
	assert!(!(a.low < ab.low) && !(b.low < ab.low), "a+b: low is a lower bound");
	assert!(same(ab.low, a.low) || same(ab.low, b.low), "a+b: low is one of the lows");
	assert!(!ab.low.is_nan() || (a.low.is_nan() && b.low.is_nan()), "a+b: low is NaN only if both are");
	// right operand may be any OHLCV
	let ab2 = a + (b.open, b.high, b.low, b.close, b.volume);
	assert!(ab2.open.to_bits() == ab.open.to_bits() && eqn(ab2.high, ab.high) && eqn(ab2.low, ab.low) && ab2.close.to_bits() == ab.close.to_bits(), "a + tuple: same prices as a + candle");
	// three candles, both associations
	assert!(l.open.to_bits() == a.open.to_bits() && r.open.to_bits() == a.open.to_bits(), "assoc: open of the first");
	assert!(l.close.to_bits() == c.close.to_bits() && r.close.to_bits() == c.close.to_bits(), "assoc: close of the last");
	assert!(eqn(l.high, r.high), "assoc: high");
	assert!(eqn(l.low, r.low), "assoc: low");
	assert!(!(a.high > l.high) && !(b.high > l.high) && !(c.high > l.high), "assoc: high is an upper bound of the three");
	assert!(!(a.low < l.low) && !(b.low < l.low) && !(c.low < l.low), "assoc: low is a lower bound of the three");
	assert!(same(l.high, a.high) || same(l.high, b.high) || same(l.high, c.high), "assoc: high is one of the three");
	assert!(same(l.low, a.low) || same(l.low, b.low) || same(l.low, c.low), "assoc: low is one of the three");
	kani::cover!(l.high == b.high && b.high > a.high && b.high > c.high, "middle candle has the highest high");
	kani::cover!(l.low == c.low && c.low < a.low && c.low < b.low, "last candle has the lowest low");
	kani::cover!(a.high.is_nan() && l.high.is_finite(), "NaN high is ignored");
}

/// volume of a sum of candles is the float sum of the volumes, in the association used
#[kani::proof]
#[kani::unwind(2)]
fn c18_add_volume() {
	let a = any_candle();
	let b = any_candle();
	let c = any_candle();
	let ab = a + b;
	let l = ab + c;
	let r = a + (b + c);
	assert!(same(ab.volume, a.volume + b.volume), "a+b: volume is the sum");
	let ab2 = a + (b.open, b.high, b.low, b.close, b.volume);
	assert!(same(ab2.volume, a.volume + b.volume), "a + tuple: volume is the sum");
	assert!(same(l.volume, (a.volume + b.volume) + c.volume), "assoc: left volume is (a+b)+c");
	assert!(same(r.volume, a.volume + (b.volume + c.volume)), "assoc: right volume is a+(b+c)");
	kani::cover!(l.volume.is_finite() && l.volume > 0.0 && r.volume.is_finite(), "finite positive volume sums reachable");
	kani::cover!(l.volume.is_nan() && !a.volume.is_nan() && !b.volume.is_nan() && !c.volume.is_nan(), "inf - inf volume reachable");
}

// ---------------------------------------------------------------------------------------
// Sequence::validate

/// slices / arrays / Vec of <= 3 candles: valid iff every candle validates (empty: valid)
#[kani::proof]
#[kani::unwind(5)]
fn c18_seq_validate_candles() {
	let arr = [any_candle(), any_candle(), any_candle()];
	let k: usize = kani::any();
	kani::assume(k <= 3);
	let want = (k < 1 || arr[0].validate()) && (k < 2 || arr[1].validate()) && (k < 3 || arr[2].validate());
	let s = &arr[..k];
	assert!(Sequence::<Candle>::validate(&s) == want, "slice validate == every candle validates");
	if k == 3 {
		assert!(Sequence::<Candle>::validate(&arr) == want, "array validate == every candle validates");
	}
	kani::cover!(k == 0, "empty slice");
	kani::cover!(k == 3 && want, "three valid candles");
	kani::cover!(k == 3 && !want && arr[0].validate() && arr[1].validate(), "only the last candle invalid");
	kani::cover!(k == 2 && want && !arr[2].validate(), "invalid candle outside the slice is ignored");
}

/// slices of <= 3 values: valid iff every value is finite
#[kani::proof]
#[kani::unwind(5)]
fn c18_seq_validate_values() {
	let arr: [ValueType; 3] = [kani::any(), kani::any(), kani::any()];
	let k: usize = kani::any();
	kani::assume(k <= 3);
	let want = (k < 1 || arr[0].is_finite()) && (k < 2 || arr[1].is_finite()) && (k < 3 || arr[2].is_finite());
	let s = &arr[..k];
	assert!(Sequence::<ValueType>::validate(&s) == want, "value slice validate == every value finite");
	kani::cover!(k == 3 && want, "three finite values");
	kani::cover!(k == 3 && !want && arr[2].is_nan() && arr[0].is_finite() && arr[1].is_finite(), "NaN at the end");
	kani::cover!(k == 1 && !want && arr[0].is_infinite(), "single infinite value");
	kani::cover!(k == 0, "empty slice");
}

// ---------------------------------------------------------------------------------------
// text forms: Source

fn check_source_text(src: Source, want: &'static str) {
	let text: &'static str = src.into();
	assert!(text == want, "Source -> &str is the documented text");
	let owned: String = src.into();
	assert!(owned.as_str() == text, "Source -> String equals Source -> &str");
	let back: Result<Source, _> = text.parse();
	assert!(matches!(back, Ok(s) if s == src), "text parses back to the same kind");
	let back2 = <Source as core::convert::TryFrom<&str>>::try_from(text);
	assert!(matches!(back2, Ok(s) if s == src), "TryFrom<&str> gives the same kind");
	let back3 = <Source as core::convert::TryFrom<String>>::try_from(owned);
	assert!(matches!(back3, Ok(s) if s == src), "TryFrom<String> gives the same kind");
}

/// every kind -> &str / String -> parse / try_from gives the same kind; the texts are the
/// documented ones (candles::tests::test_source_to_string_str).  The kind is symbolic; the
/// harness branches on it so that each branch works on a literal text.
#[kani::proof]
#[kani::unwind(16)]
fn c18_source_roundtrip() {
	let k: usize = kani::any();
	kani::assume(k < KINDS);
	match k {
		0 => check_source_text(Source::Close, "close"),
		1 => check_source_text(Source::Open, "open"),
		2 => check_source_text(Source::High, "high"),
		3 => check_source_text(Source::Low, "low"),
		4 => check_source_text(Source::HL2, "hl2"),
		5 => check_source_text(Source::TP, "tp"),
		6 => check_source_text(Source::Volume, "volume"),
		_ => check_source_text(Source::VolumedPrice, "volumed_price"),
	}
	kani::cover!(k == 7, "volumed_price reachable");
	kani::cover!(k == 0, "close reachable");
}

#[inline]
fn is_ws(b: u8) -> bool {
	b == b' ' || (9 <= b && b <= 13)
}

#[inline]
fn lower(b: u8) -> u8 {
	if b'A' <= b && b <= b'Z' {
		b + 32
	} else {
		b
	}
}

/// does buf[a..e], ascii-lowercased, spell `w`?
fn spells<const N: usize>(buf: &[u8; N], a: usize, e: usize, w: &[u8]) -> bool {
	if e - a != w.len() {
		return false;
	}
	let mut i = 0;
	let mut ok = true;
	while i < w.len() {
		ok &= lower(buf[a + i]) == w[i];
		i += 1;
	}
	ok
}

/// every ASCII string of exactly N bytes, with t = the string trimmed and ascii-lowercased and
/// LIST = close/open/high/low/hl2/tp/hlc3/volume (volumed_price needs 13 bytes: round trip
/// harness):  t not in LIST => Err;  Ok(k) => k is the kind of t;  t in LIST and the string
/// carries no surrounding white space => Ok.  One harness per length (symbolic lengths blow up).
fn source_parse_case<const N: usize>() -> (Option<Source>, [u8; N]) {
	let buf: [u8; N] = kani::any();
	let mut i = 0;
	while i < N {
		kani::assume(buf[i] < 128);
		i += 1;
	}
	let s = unsafe { core::str::from_utf8_unchecked(&buf[..]) };
	let got: Result<Source, _> = s.parse();
	// specification: trim ASCII white space on both sides, compare case-insensitively
	let mut a = 0;
	while a < N && is_ws(buf[a]) {
		a += 1;
	}
	let mut e = N;
	while e > a && is_ws(buf[e - 1]) {
		e -= 1;
	}
	let want = if spells(&buf, a, e, b"close") {
		Some(Source::Close)
	} else if spells(&buf, a, e, b"open") {
		Some(Source::Open)
	} else if spells(&buf, a, e, b"high") {
		Some(Source::High)
	} else if spells(&buf, a, e, b"low") {
		Some(Source::Low)
	} else if spells(&buf, a, e, b"hl2") {
		Some(Source::HL2)
	} else if spells(&buf, a, e, b"tp") || spells(&buf, a, e, b"hlc3") {
		Some(Source::TP)
	} else if spells(&buf, a, e, b"volume") {
		Some(Source::Volume)
	} else {
		None
	};
	match (got, want) {
		(Ok(g), Some(w)) => assert!(g == w, "listed text parses to its kind"),
		(Err(_), None) => {}
		(Ok(_), None) => assert!(false, "text outside the list must be rejected"),
		// surrounding white space is tolerated by the code (trim) but documented nowhere:
		// nothing is demanded for padded texts beyond "if accepted, then as the right kind"
		(Err(_), Some(_)) => assert!(a > 0 || e < N, "listed text (any letter case) must be accepted"),
	}
	(want, buf)
}

macro_rules! source_parse_len {
	($name:ident, $n:expr, $unw:expr, $cov:expr, $txt:expr) => {
		#[kani::proof]
		#[kani::unwind($unw)]
		fn $name() {
			let (want, buf) = source_parse_case::<$n>();
			let cov: fn(Option<Source>, &[u8; $n]) -> bool = $cov;
			kani::cover!(cov(want, &buf), $txt);
			kani::cover!(want.is_none(), "rejected text reachable");
		}
	};
}
/// the empty text (the only string of length 0) is rejected
#[kani::proof]
#[kani::unwind(4)]
fn c18_source_parse_len0() {
	let got: Result<Source, _> = "".parse();
	assert!(got.is_err(), "text outside the list must be rejected");
	kani::cover!(got.is_err(), "empty text is rejected");
}
source_parse_len!(c18_source_parse_len1, 1, 4, |w, b| w.is_none() && b[0] == b' ', "blank text is rejected");
source_parse_len!(c18_source_parse_len2, 2, 5, |w, b| w == Some(Source::TP) && b[0] == b'T', "Tp / TP reachable");
source_parse_len!(c18_source_parse_len3, 3, 6, |w, b| w == Some(Source::HL2) && b[0] == b'H', "Hl2 reachable");
source_parse_len!(c18_source_parse_len4, 4, 7, |w, b| w == Some(Source::TP) && b[3] == b'3', "hlc3 reachable");
source_parse_len!(c18_source_parse_len5, 5, 8, |w, b| w == Some(Source::Low) && b[0] == b' ' && b[4] == b'\n', "padded low reachable");
source_parse_len!(c18_source_parse_len6, 6, 9, |w, b| w == Some(Source::Volume) && b[0] == b'V', "Volume reachable");

// ---------------------------------------------------------------------------------------
// text forms: MA

const MA_KINDS: usize = 15;
fn ma_name(i: usize) -> &'static [u8] {
	match i {
		0 => b"sma",
		1 => b"wma",
		2 => b"hma",
		3 => b"rma",
		4 => b"ema",
		5 => b"dma",
		6 => b"tma",
		7 => b"dema",
		8 => b"tema",
		9 => b"wsma",
		10 => b"smm",
		11 => b"swma",
		12 => b"trima",
		13 => b"linreg",
		_ => b"vidya",
	}
}
fn ma_kind(i: usize, n: PeriodType) -> MA {
	match i {
		0 => MA::SMA(n),
		1 => MA::WMA(n),
		2 => MA::HMA(n),
		3 => MA::RMA(n),
		4 => MA::EMA(n),
		5 => MA::DMA(n),
		6 => MA::TMA(n),
		7 => MA::DEMA(n),
		8 => MA::TEMA(n),
		9 => MA::WSMA(n),
		10 => MA::SMM(n),
		11 => MA::SWMA(n),
		12 => MA::TRIMA(n),
		13 => MA::LinReg(n),
		_ => MA::Vidya(n),
	}
}

/// "<kind>-<n>" with symbolic kind and symbolic n in 0..=255 (decimal, no sign, no leading
/// zeros) parses to that kind and length.  (Splitting by kind, by name length or by digit
/// count was measured and is not cheaper: 150-300 s per part.)
#[kani::proof]
#[kani::unwind(12)]
fn c18_ma_roundtrip() {
	let k: usize = kani::any();
	kani::assume(k < MA_KINDS);
	let n: u8 = kani::any();
	let name = ma_name(k);
	let mut buf = [0u8; 10];
	let mut p = 0;
	while p < name.len() {
		buf[p] = name[p];
		p += 1;
	}
	buf[p] = b'-';
	p += 1;
	if n >= 100 {
		buf[p] = b'0' + n / 100;
		p += 1;
	}
	if n >= 10 {
		buf[p] = b'0' + (n / 10) % 10;
		p += 1;
	}
	buf[p] = b'0' + n % 10;
	p += 1;
	let s = unsafe { core::str::from_utf8_unchecked(&buf[..p]) };
	let got: Result<MA, _> = s.parse();
	let want = ma_kind(k, n as PeriodType);
	assert!(matches!(got, Ok(m) if m == want), "\"<kind>-<n>\" parses to that kind and length");
	kani::cover!(k == 13 && n == 255, "linreg-255 reachable");
	kani::cover!(k == 0 && n == 0, "sma-0 reachable");
	kani::cover!(k == 12 && n == 42, "trima-42 reachable");
	kani::cover!(k == 14 && n == 7, "vidya-7 reachable");
}

/// every ASCII string of exactly N <= 6 bytes: with m = text before the first '-', d = text
/// after it:
///  * m a listed kind and d = one or more decimal digits  => Ok(kind(value of d))
///  * no '-', m not listed, or d not (optional '+' then digits) => Err
///  * Ok(x) only with x = kind(value of the digits)
/// (a leading '+' is what PeriodType's own FromStr tolerates; nothing is demanded for it
/// beyond the value).  One harness per length.
fn ma_parse_case<const N: usize>() -> MaSpec {
	let buf: [u8; N] = kani::any();
	let mut i = 0;
	while i < N {
		kani::assume(buf[i] < 128);
		i += 1;
	}
	let s = unsafe { core::str::from_utf8_unchecked(&buf[..]) };
	let got: Result<MA, _> = s.parse();
	// specification
	let mut dash = 0;
	while dash < N && buf[dash] != b'-' {
		dash += 1;
	}
	let has_dash = dash < N;
	// names are lower case only
	let is = |w: &[u8]| -> bool {
		if !has_dash || dash != w.len() {
			return false;
		}
		let mut ok = true;
		let mut q = 0;
		while q < w.len() {
			ok &= buf[q] == w[q];
			q += 1;
		}
		ok
	};
	// 5- and 6-letter kinds (trima, vidya, linreg) need >= 7 bytes with a length: within 6 bytes
	// they can only occur as "trima-" / "vidya-" (rejected: empty length)
	let kind = if is(b"sma") {
		0
	} else if is(b"wma") {
		1
	} else if is(b"hma") {
		2
	} else if is(b"rma") {
		3
	} else if is(b"ema") {
		4
	} else if is(b"dma") {
		5
	} else if is(b"tma") {
		6
	} else if is(b"dema") {
		7
	} else if is(b"tema") {
		8
	} else if is(b"wsma") {
		9
	} else if is(b"smm") {
		10
	} else if is(b"swma") {
		11
	} else if is(b"trima") {
		12
	} else if is(b"vidya") {
		14
	} else {
		MA_KINDS
	};
	let listed = kind < MA_KINDS;
	let d0 = dash + 1;
	let plus = has_dash && d0 < N && buf[d0] == b'+';
	let ds = if plus { d0 + 1 } else { d0 };
	let mut digits = has_dash && ds < N;
	let mut value: u32 = 0;
	let mut t = ds;
	while t < N {
		let b = buf[t];
		if b'0' <= b && b <= b'9' {
			value = value * 10 + (b - b'0') as u32;
		} else {
			digits = false;
		}
		t += 1;
	}
	let loose = listed && digits;
	let canonical = loose && !plus;
	match got {
		Ok(m) => {
			assert!(loose, "only \"<listed kind>-<digits>\" may be accepted");
			assert!(m == ma_kind(kind, value as PeriodType), "accepted text gives that kind and length");
		}
		Err(_) => assert!(!canonical, "\"<listed kind>-<digits>\" must be accepted"),
	}
	let sma_upper = N >= 5 && has_dash && dash == 3 && buf[0] == b'S' && buf[1] == b'M' && buf[2] == b'A';
	MaSpec { loose, canonical, plus, has_dash, listed, digits, kind, value, sma_upper }
}

struct MaSpec {
	loose: bool,
	canonical: bool,
	plus: bool,
	has_dash: bool,
	listed: bool,
	digits: bool,
	kind: usize,
	value: u32,
	sma_upper: bool,
}

macro_rules! ma_parse_len {
	($name:ident, $n:expr, $unw:expr) => {
		#[kani::proof]
		#[kani::unwind($unw)]
		fn $name() {
			let m = ma_parse_case::<$n>();
			kani::cover!(!m.loose, "rejected text reachable");
			kani::cover!(m.has_dash && !m.listed, "text with '-' but unlisted kind reachable");
		}
	};
}
/// the empty text is rejected
#[kani::proof]
#[kani::unwind(4)]
fn c18_ma_parse_len0() {
	let got: Result<MA, _> = "".parse();
	assert!(got.is_err(), "only \"<listed kind>-<digits>\" may be accepted");
	kani::cover!(got.is_err(), "empty text is rejected");
}
ma_parse_len!(c18_ma_parse_len1, 1, 7);
ma_parse_len!(c18_ma_parse_len2, 2, 7);
ma_parse_len!(c18_ma_parse_len3, 3, 7);

#[kani::proof]
#[kani::unwind(7)]
fn c18_ma_parse_len4() {
	let m = ma_parse_case::<4>();
	kani::cover!(!m.loose && m.listed, "listed kind without a length (\"sma-\") reachable");
	kani::cover!(!m.has_dash, "4 bytes without '-' reachable");
}

#[kani::proof]
#[kani::unwind(8)]
fn c18_ma_parse_len5() {
	let m = ma_parse_case::<5>();
	kani::cover!(m.canonical && m.kind == 0 && m.value == 7, "sma-7 reachable");
	kani::cover!(!m.loose && m.has_dash && m.listed, "listed kind with a malformed length reachable");
	kani::cover!(!m.loose && !m.listed && m.digits, "unlisted kind with a well-formed length reachable");
	kani::cover!(!m.loose && m.digits && m.sma_upper, "upper-case SMA-<d> is rejected");
}

#[kani::proof]
#[kani::unwind(9)]
fn c18_ma_parse_len6() {
	let m = ma_parse_case::<6>();
	kani::cover!(m.canonical && m.kind == 7 && m.value == 5, "dema-5 reachable");
	kani::cover!(m.canonical && m.kind == 0 && m.value == 42, "sma-42 reachable");
	kani::cover!(!m.loose && m.kind == 12, "\"trima-\" (no room for a length) is rejected");
	kani::cover!(m.loose && m.plus, "explicit '+' sign reachable");
	kani::cover!(!m.has_dash, "6 bytes without '-' reachable");
	kani::cover!(!m.loose && m.has_dash && m.listed, "listed kind with a malformed length reachable");
}

/// "sma-" followed by N symbolic ASCII bytes (N = 3, 4): the 7/8-byte texts the generic harnesses do
/// not reach.  The length text is accepted iff it is [+]digits whose value fits PeriodType (a value
/// that does not fit cannot parse back to itself and must be rejected, never wrapped); an accepted
/// text gives exactly that value.
fn ma_parse_sma_tail<const N: usize>() -> (bool, u32) {
	let tail: [u8; N] = kani::any();
	let mut buf = [0u8; 8];
	buf[0] = b's';
	buf[1] = b'm';
	buf[2] = b'a';
	buf[3] = b'-';
	let mut i = 0;
	while i < N {
		kani::assume(tail[i] < 128);
		buf[4 + i] = tail[i];
		i += 1;
	}
	let s = unsafe { core::str::from_utf8_unchecked(&buf[..4 + N]) };
	let got: Result<MA, _> = s.parse();
	let plus = tail[0] == b'+';
	let ds = if plus { 1 } else { 0 };
	let mut digits = ds < N;
	let mut value: u32 = 0;
	let mut t = ds;
	while t < N {
		let b = tail[t];
		if b'0' <= b && b <= b'9' {
			value = value * 10 + (b - b'0') as u32;
		} else {
			digits = false;
		}
		t += 1;
	}
	let fits = (value as u64) <= (PeriodType::MAX as u64);
	match got {
		Ok(m) => {
			assert!(digits && fits, "only a length that is [+]digits and fits PeriodType may be accepted");
			assert!(m == MA::SMA(value as PeriodType), "accepted text gives that length");
		}
		Err(_) => assert!(!(digits && fits && !plus), "\"sma-<digits>\" with a fitting length must be accepted"),
	}
	(digits, value)
}

#[kani::proof]
#[kani::unwind(10)]
fn c18_ma_parse_sma_tail3() {
	let (digits, value) = ma_parse_sma_tail::<3>();
	kani::cover!(digits && value == 255, "sma-255 reachable");
	kani::cover!(digits && value == 256, "sma-256 reachable");
	kani::cover!(digits && value == 999, "sma-999 reachable");
	kani::cover!(!digits, "malformed length reachable");
}

#[kani::proof]
#[kani::unwind(11)]
fn c18_ma_parse_sma_tail4() {
	let (digits, value) = ma_parse_sma_tail::<4>();
	kani::cover!(digits && value == 255, "sma-0255 / sma-+255 reachable");
	kani::cover!(digits && value == 9999, "sma-9999 reachable");
	kani::cover!(digits && value == 512, "sma-0512 reachable");
	kani::cover!(!digits, "malformed length reachable");
}
