//! C13 — serialized snapshots restore behaviourally identical instances.
//!
//! Everything goes through the in-harness token format of `crate::tok`
//! (kind-tagged values, structs as name-tagged fields, enums by variant index; see
//! the header of tok.rs). `alloc::fmt::format` is stubbed: yata's `Window::deserialize` builds
//! its error strings with `format!`, the text is not the subject.
use crate::tok::*;
use crate::util::*;
use yata::core::{PeriodType, ValueType, Window};

/// stub for `alloc::fmt::format` (error texts are dropped by `TokErr::custom`)
pub fn fmt_stub(_a: std::fmt::Arguments<'_>) -> String {
	String::new()
}

// ---------------------------------------------------------------------------
// (a) Window<u8>: hand-written Serialize + Deserialize round trip

macro_rules! window_rt {
	($name:ident, $cap:expr) => {
		/// ring of capacity $cap at any phase: serialized form is exactly
		/// {buf, index}; the restored window observes the same sequence and
		/// continues identically for two pushes
		#[kani::proof]
		#[kani::unwind(11)]
		#[kani::stub(std::fmt::format, fmt_stub)]
		fn $name() {
			const C: usize = $cap;
			// concrete capacity keeps every token position concrete; phase and contents symbolic
			let n: usize = C;
			let arr: [u8; C] = kani::any();
			let idx: usize = kani::any();
			kani::assume(idx < n);
			let mut w = Window::from_parts(arr.to_vec().into_boxed_slice(), idx as PeriodType);
			let s = match to_tokens::<_, { C + 5 }>(&w) {
				Ok(s) => s,
				Err(_) => {
					assert!(false, "serialization of a valid window failed");
					return;
				}
			};
			// serialized form: only the storage and the oldest-index
			let t = s.toks();
			assert!(t.len() == n + 5, "token count of a serialized window");
			assert!(t[0].is(K::Struct, 2) && t[1].is_str("buf") && t[2].is(K::Seq, n as u64), "header tokens");
			let mut p = 0;
			while p < C {
				assert!(t[3 + p].is(K::U64, arr[p] as u64), "buffer is written in storage order");
				p += 1;
			}
			assert!(t[3 + n].is_str("index") && t[4 + n].is(K::U64, idx as u64), "oldest-index is written");

			let mut v: Window<u8> = match from_tokens(t) {
				Ok(v) => v,
				Err(_) => {
					assert!(false, "own serialized form was rejected");
					return;
				}
			};
			assert!(v.len() as usize == n && !v.is_empty(), "restored length");
			let k: usize = kani::any();
			kani::assume(k < n);
			assert!(v[k as PeriodType] == seq(&arr, n, idx, n - 1 - k), "restored window: k-th newest");
			assert!(*v.oldest() == seq(&arr, n, idx, 0) && *v.newest() == seq(&arr, n, idx, n - 1), "restored ends");
			assert!(v.iter().next() == Some(&seq(&arr, n, idx, n - 1)), "restored iter");
			assert!(v.iter_rev().next() == Some(&seq(&arr, n, idx, 0)), "restored iter_rev");
			// continuation: two pushes on both
			let x: u8 = kani::any();
			let y: u8 = kani::any();
			let (a1, b1) = (w.push(x), v.push(x));
			assert!(a1 == b1 && b1 == seq(&arr, n, idx, 0), "first push after restore");
			let (a2, b2) = (w.push(y), v.push(y));
			assert!(a2 == b2 && b2 == if n == 1 { x } else { seq(&arr, n, idx, 1) }, "second push after restore");
			assert!(v[k as PeriodType] == w[k as PeriodType], "contents after two pushes");
			assert!(*v.oldest() == *w.oldest(), "oldest after two pushes");
			kani::cover!(idx == C - 1, "last phase");
			kani::cover!(idx == 0, "unrotated ring");
			kani::cover!(idx + 2 == n || n == 1, "wrap on the second push");
			std::mem::forget(v);
			std::mem::forget(w);
		}
	};
}

window_rt!(c13_window_rt_cap1, 1);
window_rt!(c13_window_rt_cap2, 2);
window_rt!(c13_window_rt_cap3, 3);
window_rt!(c13_window_rt_cap4, 4);
window_rt!(c13_window_rt_cap5, 5);
window_rt!(c13_window_rt_cap8, 8);

// ---------------------------------------------------------------------------
// (b) adversarial serialized forms of Window<u8>

macro_rules! window_adv {
	($name:ident, $swapped:ident, $len:expr) => {
		/// `{buf: [a0..a_{len-1}], index: i}`, len = $len, contents symbolic, i any u64:
		/// rejected iff i >= len (never a panic); otherwise the window from_parts builds
		#[kani::proof]
		#[kani::unwind(8)]
		#[kani::stub(std::fmt::format, fmt_stub)]
		fn $name() {
			const L: usize = $len;
			let arr: [u8; L] = kani::any();
			let i: u64 = kani::any();
			let mut t = [Tok::Unit; L + 5];
			t[0] = Tok::Struct(2);
			t[1] = Tok::Str("buf");
			t[2] = Tok::Seq(L);
			let mut j = 0;
			while j < L {
				t[3 + j] = Tok::U64(arr[j] as u64);
				j += 1;
			}
			t[3 + L] = Tok::Str("index");
			t[4 + L] = Tok::U64(i);
			check_adv::<L>(from_tokens(&t), &arr, i);
		}

		/// same with the fields in the other order (a self-describing format may reorder)
		#[kani::proof]
		#[kani::unwind(8)]
		#[kani::stub(std::fmt::format, fmt_stub)]
		fn $swapped() {
			const L: usize = $len;
			let arr: [u8; L] = kani::any();
			let i: u64 = kani::any();
			let mut t = [Tok::Unit; L + 5];
			t[0] = Tok::Struct(2);
			t[1] = Tok::Str("index");
			t[2] = Tok::U64(i);
			t[3] = Tok::Str("buf");
			t[4] = Tok::Seq(L);
			let mut j = 0;
			while j < L {
				t[5 + j] = Tok::U64(arr[j] as u64);
				j += 1;
			}
			// field names out of declaration order: the deserializer hands the struct
			// to the derived visitor as a map keyed by name
			check_adv::<L>(from_tokens_by_name(&t), &arr, i);
		}
	};
}

fn check_adv<const L: usize>(r: Result<Window<u8>, TokErr>, arr: &[u8; L], i: u64) {
	// the empty window serializes as (no elements, index 0): that form is the only accepted one of length 0
	let empty_form = L == 0 && i == 0;
	match r {
		Err(_) => {
			assert!(i >= L as u64 && !empty_form, "well-formed (buf, index) was rejected");
		}
		Ok(w) if empty_form => {
			assert!(w.is_empty() && w.len() == 0, "restored empty window is empty");
			assert!(w.get(0).is_none() && w.iter().next().is_none(), "restored empty window yields nothing");
			std::mem::forget(w);
		}
		Ok(w) => {
			assert!(i < L as u64, "oldest-index outside the buffer accepted");
			assert!(w.len() as usize == L, "accepted window: length");
			let k: usize = kani::any();
			kani::assume(k < L);
			let idx = i as usize;
			let p = idx + (L - 1 - k);
			assert!(w[k as PeriodType] == arr[if p >= L { p - L } else { p }], "accepted window equals from_parts(buf, index)");
			assert!(*w.oldest() == arr[idx], "accepted window: oldest is buf[index]");
			std::mem::forget(w);
		}
	}
	kani::cover!(i == 0, "index 0 (len 0: the serialized empty window)");
	kani::cover!(i == L as u64, "index == len");
	kani::cover!(i == (L as u64).wrapping_sub(1), "last valid index (len 0: u64::MAX)");
	kani::cover!(i > 255, "index that does not fit PeriodType");
	kani::cover!(i == 256, "index that truncates to 0");
}

window_adv!(c13_window_adv_len0, c13_window_advswap_len0, 0);
window_adv!(c13_window_adv_len1, c13_window_advswap_len1, 1);
window_adv!(c13_window_adv_len2, c13_window_advswap_len2, 2);
window_adv!(c13_window_adv_len3, c13_window_advswap_len3, 3);

macro_rules! window_big {
	($name:ident, $len:expr, $unw:expr) => {
		/// a buffer of $len equal elements (run-length token) with any index: Err
		/// whenever len >= PeriodType::MAX or index >= len, never a panic
		#[kani::proof]
		#[kani::unwind($unw)]
		#[kani::stub(std::fmt::format, fmt_stub)]
		fn $name() {
			const L: usize = $len;
			let i: u64 = kani::any();
			let e: u8 = kani::any();
			let t = [Tok::Struct(2), Tok::Str("buf"), Tok::Seq(L), Tok::Repeat(L), Tok::U64(e as u64), Tok::Str("index"), Tok::U64(i)];
			let r: Result<Window<u8>, TokErr> = from_tokens(&t);
			let must_reject = L >= PeriodType::MAX as usize || i >= L as u64;
			match r {
				Err(_) => assert!(must_reject, "acceptable large buffer was rejected"),
				Ok(w) => {
					assert!(!must_reject, "oversized buffer or outside index accepted");
					assert!(w.len() as usize == L, "accepted large window: length");
					let k: PeriodType = kani::any();
					assert!(w.get(k).copied() == if (k as usize) < L { Some(e) } else { None }, "accepted large window: contents");
					assert!(*w.oldest() == e && *w.newest() == e, "accepted large window: ends");
					std::mem::forget(w);
				}
			}
			kani::cover!(i == 0);
			kani::cover!(i == (L as u64) - 1);
			kani::cover!(i == L as u64);
			kani::cover!(i == 256 + 5, "index that truncates into the buffer");
		}
	};
}

#[cfg(not(any(feature = "p16", feature = "p32", feature = "p64")))]
window_big!(c13_window_adv_big254, 254, 258);
#[cfg(not(any(feature = "p16", feature = "p32", feature = "p64")))]
window_big!(c13_window_adv_big255, 255, 259);

/// A buffer of L zero-sized elements (`Window<()>`: the size/index validation of
/// `Window::deserialize` does not depend on T, and a Vec<()> costs no heap
/// writes), any index: Err iff L >= PeriodType::MAX or index >= L; never a panic
fn unit_len<const L: usize>() {
	let i: u64 = kani::any();
	let t = [Tok::Struct(2), Tok::Str("buf"), Tok::Seq(L), Tok::Repeat(L), Tok::Unit, Tok::Str("index"), Tok::U64(i)];
	let r: Result<Window<()>, TokErr> = from_tokens(&t);
	let must_reject = L >= PeriodType::MAX as usize || i >= L as u64;
	match r {
		Err(_) => assert!(must_reject, "acceptable buffer length/index was rejected"),
		Ok(w) => {
			assert!(!must_reject, "oversized buffer or outside index accepted");
			assert!(w.len() as usize == L && w.as_slice().len() == L, "accepted window: length");
			std::mem::forget(w);
		}
	}
	kani::cover!(i == 0, "index 0");
	kani::cover!(i == (L as u64) - 1, "last index of the buffer");
	kani::cover!(i == (L as u64) % 256 && i != L as u64 || L < 256, "index equal to the truncated length");
}

macro_rules! unit_len {
	($name:ident, $len:expr) => {
		#[cfg(not(any(feature = "p16", feature = "p32", feature = "p64")))]
		#[kani::proof]
		#[kani::unwind(303)]
		#[kani::stub(std::fmt::format, fmt_stub)]
		fn $name() {
			unit_len::<$len>();
		}
	};
}
// 254 (largest acceptable), 255 (PeriodType::MAX), 256 (truncates to 0), 300 (truncates to 44)
unit_len!(c13_window_adv_unit254, 254);
unit_len!(c13_window_adv_unit255, 255);
unit_len!(c13_window_adv_unit256, 256);
unit_len!(c13_window_adv_unit300, 300);

// ---------------------------------------------------------------------------
// (c) derived impls on small Copy types without a window: token-level idempotence
//     to_tokens(from_tokens(to_tokens(x))) == to_tokens(x), every field symbolic,
//     floats compared as bit patterns inside the tokens (no arithmetic compared)

use serde::{de::DeserializeOwned, Serialize};
use yata::core::{Action, Candle, IndicatorResult, Method, Source};
use yata::helpers::MA;

/// same static string (address and length): both token streams are produced by the
/// same `Serialize` code, so equal names are the same literal; comparing the
/// addresses avoids a memcmp over a symbolic choice of literals (enum variants)
fn same_lit(a: &'static str, b: &'static str) -> bool {
	a.len() == b.len() && std::ptr::eq(a.as_ptr(), b.as_ptr())
}

/// token equality: kind, numeric payload (floats as bit patterns), names
fn tok_same(a: Tok, b: Tok) -> bool {
	a.k == b.k && a.a == b.a && same_lit(a.s, b.s)
}

/// serialize, restore, serialize again; returns the restored value
fn idem<T: Serialize + DeserializeOwned, const N: usize>(x: &T) -> Option<T> {
	let mut a = Ser::<N>::new();
	if to_tokens_into(x, &mut a).is_err() {
		assert!(false, "serialization failed");
		return None;
	}
	let y: T = match from_tokens(a.toks()) {
		Ok(y) => y,
		Err(_) => {
			assert!(false, "own serialized form was rejected");
			return None;
		}
	};
	let mut b = Ser::<N>::new();
	if to_tokens_into(&y, &mut b).is_err() {
		assert!(false, "serialization of the restored value failed");
		return None;
	}
	assert!(a.n == b.n, "token count after the round trip");
	let mut i = 0;
	while i < N {
		if i < a.n {
			assert!(tok_same(a.t[i], b.t[i]), "token after the round trip");
		}
		i += 1;
	}
	kani::cover!(a.n > 0, "tokens were produced");
	Some(y)
}

/// symbolic field values + bit-level equality for config fields
trait Sym: Sized {
	fn sym() -> Self;
	fn same(&self, o: &Self) -> bool;
}
macro_rules! sym_int {
	($($t:ty),*) => {$(
		impl Sym for $t {
			fn sym() -> Self { kani::any() }
			fn same(&self, o: &Self) -> bool { *self == *o }
		}
	)*};
}
sym_int!(u8, u16, u32, u64, usize, bool);
impl Sym for f64 {
	fn sym() -> Self {
		kani::any()
	}
	fn same(&self, o: &Self) -> bool {
		self.to_bits() == o.to_bits()
	}
}
impl Sym for f32 {
	fn sym() -> Self {
		kani::any()
	}
	fn same(&self, o: &Self) -> bool {
		self.to_bits() == o.to_bits()
	}
}
const SOURCES: [Source; 8] = [
	Source::Close,
	Source::Open,
	Source::High,
	Source::Low,
	Source::HL2,
	Source::TP,
	Source::Volume,
	Source::VolumedPrice,
];
/// every variant of Source, symbolic choice
fn sym_source_all() -> Source {
	let i: usize = kani::any();
	kani::assume(i < SOURCES.len());
	SOURCES[i]
}
/// Source as a config field: concrete variant per field, rotating (see `impl Sym for MA`)
impl Sym for Source {
	fn sym() -> Self {
		let i = unsafe {
			let i = MA_NEXT;
			MA_NEXT = i.wrapping_add(1);
			i
		};
		SOURCES[(i % 8) as usize]
	}
	fn same(&self, o: &Self) -> bool {
		*self == *o
	}
}
/// every variant of MA (symbolic choice) with a symbolic length
fn sym_ma_all() -> MA {
	let i: u8 = kani::any();
	kani::assume(i < 15);
	ma_variant(i, kani::any())
}
/// MA as a config field: a concrete variant per field (rotating through all 15,
/// start set per harness) with a symbolic length. A symbolic variant costs ~100k
/// symex steps per field and grows faster than linearly with the number of
/// fields (MACD, three symbolic MAs: 2.2M variables, 216 s); all 15 variants with
/// symbolic choice are covered once by c13_idem_ma.
static mut MA_NEXT: u8 = 0;
fn ma_variant(i: u8, p: PeriodType) -> MA {
	match i % 15 {
		0 => MA::SMA(p),
		1 => MA::WMA(p),
		2 => MA::HMA(p),
		3 => MA::RMA(p),
		4 => MA::EMA(p),
		5 => MA::DMA(p),
		6 => MA::DEMA(p),
		7 => MA::TMA(p),
		8 => MA::TEMA(p),
		9 => MA::WSMA(p),
		10 => MA::SMM(p),
		11 => MA::SWMA(p),
		12 => MA::TRIMA(p),
		13 => MA::LinReg(p),
		_ => MA::Vidya(p),
	}
}
impl Sym for MA {
	fn sym() -> Self {
		let i = unsafe {
			let i = MA_NEXT;
			MA_NEXT = i.wrapping_add(1);
			i
		};
		ma_variant(i, kani::any())
	}
	fn same(&self, o: &Self) -> bool {
		*self == *o
	}
}
impl Sym for Action {
	fn sym() -> Self {
		let v: u8 = kani::any();
		let i: u8 = kani::any();
		match i {
			0 => Action::Buy(v),
			1 => Action::Sell(v),
			_ => Action::None,
		}
	}
	fn same(&self, o: &Self) -> bool {
		match (*self, *o) {
			(Action::Buy(a), Action::Buy(b)) => a == b,
			(Action::Sell(a), Action::Sell(b)) => a == b,
			(Action::None, Action::None) => true,
			_ => false,
		}
	}
}
fn sym_candle() -> Candle {
	Candle { open: Sym::sym(), high: Sym::sym(), low: Sym::sym(), close: Sym::sym(), volume: Sym::sym() }
}

fn idem_action() {
	let x = Action::sym();
	if let Some(y) = idem::<_, 2>(&x) {
		assert!(x.same(&y), "Action: same variant and value");
	}
	kani::cover!(matches!(x, Action::None));
	kani::cover!(matches!(x, Action::Sell(255)));
}

fn idem_source() {
	let x = sym_source_all();
	if let Some(y) = idem::<_, 2>(&x) {
		assert!(x == y, "Source: same variant");
	}
	kani::cover!(x == Source::VolumedPrice);
}

fn idem_ma_enum() {
	let x = sym_ma_all();
	if let Some(y) = idem::<_, 2>(&x) {
		assert!(x == y, "MA: same variant and length");
	}
	kani::cover!(matches!(x, MA::LinReg(_)));
	kani::cover!(matches!(x, MA::Vidya(p) if p == PeriodType::MAX));
}

fn idem_candle() {
	let x = sym_candle();
	if let Some(y) = idem::<_, 11>(&x) {
		assert!(x.open.same(&y.open) && x.high.same(&y.high) && x.low.same(&y.low), "Candle: open/high/low bits");
		assert!(x.close.same(&y.close) && x.volume.same(&y.volume), "Candle: close/volume bits");
	}
	kani::cover!(x.open.is_nan() && x.volume == 0.0 && x.volume.is_sign_negative(), "NaN and -0.0 payloads");
}

/// Action, Source, MA (all variants, symbolic choice), Candle (raw f64 bits incl. NaN, -0.0)
#[kani::proof]
#[kani::unwind(13)]
fn c13_idem_enums_candle() {
	idem_action();
	idem_source();
	idem_ma_enum();
	idem_candle();
}

/// IndicatorResult through its only constructor: 0..=4 values (raw bits), 0..=4 signals
#[kani::proof]
#[kani::unwind(26)]
fn c13_idem_indicator_result() {
	let v: [ValueType; 4] = [Sym::sym(), Sym::sym(), Sym::sym(), Sym::sym()];
	let s: [Action; 4] = [Sym::sym(), Sym::sym(), Sym::sym(), Sym::sym()];
	let nv: usize = kani::any();
	let ns: usize = kani::any();
	kani::assume(nv <= 4 && ns <= 4);
	let x = IndicatorResult::new(&v[..nv], &s[..ns]);
	// Struct(3) + signals: Str, Tuple(4), 4*(Variant + value|Unit) + values: Str, Tuple(4), 4*F64 + length: Str, Tuple(2), 2*U64
	if let Some(y) = idem::<_, 24>(&x) {
		assert!(y.values_length() as usize == nv && y.signals_length() as usize == ns, "IndicatorResult: lengths");
		let k: usize = kani::any();
		if k < nv {
			assert!(x.value(k).same(&y.value(k)), "IndicatorResult: value bits");
		}
		if k < ns {
			assert!(x.signal(k).same(&y.signal(k)), "IndicatorResult: signal");
		}
	}
	kani::cover!(nv == 4 && ns == 4);
	kani::cover!(nv == 0 && ns == 0);
}

use yata::methods::{Cross, CrossAbove, CrossUnder, HeikinAshi, CollapseTimeframe, Renko, DEMA, DMA, EMA, RMA, TEMA, TMA, TR, TSI, WSMA};

/// EMA family / RMA / WSMA: state = (coefficients from a symbolic length 1..=MAX-1,
/// value with symbolic bits). Lengths of MAX are left to C10 (constructor overflow).
macro_rules! idem_ma {
	($name:ident, $ty:ty, $n:expr) => {
		fn $name() {
			let len: PeriodType = kani::any();
			// 0 and MAX: constructor boundary behaviour is C10's subject (WSMA::new(0) underflows)
			kani::assume(0 < len && len < PeriodType::MAX);
			let v: ValueType = kani::any();
			match <$ty as Method>::new(len, &v) {
				Ok(x) => {
					let _ = idem::<$ty, $n>(&x);
					kani::cover!(len == 1);
					kani::cover!(len > 100);
					kani::cover!(v.is_nan(), "NaN state value");
				}
				Err(_) => {}
			}
		}
	};
}
idem_ma!(idem_ema, EMA, 5);
idem_ma!(idem_rma, RMA, 7);
idem_ma!(idem_wsma, WSMA, 6);
idem_ma!(idem_dma, DMA, 13);
idem_ma!(idem_dema, DEMA, 13);
idem_ma!(idem_tma, TMA, 21);
idem_ma!(idem_tema, TEMA, 19);

fn idem_tsi() {
	let p1: PeriodType = kani::any();
	let p2: PeriodType = kani::any();
	kani::assume(0 < p1 && p1 < PeriodType::MAX && 0 < p2 && p2 < PeriodType::MAX);
	let v: ValueType = kani::any();
	if let Ok(x) = TSI::new(p1, p2, &v) {
		// Struct(5): last_value (2) + 4 * (Str + Struct(2) + 2*(Str+F64)) = 1 + 2 + 4*6
		let _ = idem::<TSI, 27>(&x);
		kani::cover!(p1 == 1 && p2 == PeriodType::MAX - 1);
	}
}

/// EMA, RMA, WSMA (newtype struct)
#[kani::proof]
#[kani::unwind(12)]
fn c13_idem_ema_rma_wsma() {
	idem_ema();
	idem_rma();
	idem_wsma();
}

/// DMA, DEMA, TMA, TEMA, TSI (nested structs)
#[kani::proof]
#[kani::unwind(29)]
fn c13_idem_ema_nested() {
	idem_dma();
	idem_dema();
	idem_tma();
	idem_tema();
	idem_tsi();
}

fn val_candle() -> Candle {
	Candle { open: any_val(), high: any_val(), low: any_val(), close: any_val(), volume: any_val() }
}

fn idem_cross() {
	// constructors subtract the two inputs: magnitude-bounded values (DESIGN §5)
	let a = any_val();
	let b = any_val();
	let c: u8 = kani::any();
	if c == 0 {
		if let Ok(x) = Cross::new((), &(a, b)) {
			let _ = idem::<Cross, 9>(&x);
		}
	} else if c == 1 {
		if let Ok(x) = CrossAbove::new((), &(a, b)) {
			let _ = idem::<CrossAbove, 3>(&x);
		}
	} else {
		if let Ok(x) = CrossUnder::new((), &(a, b)) {
			let _ = idem::<CrossUnder, 3>(&x);
		}
	}
	kani::cover!(c == 0);
	kani::cover!(c == 1);
	kani::cover!(c == 2);
}

fn idem_tr_heikin() {
	if kani::any() {
		let cn = sym_candle();
		if let Ok(x) = TR::new(&cn) {
			let _ = idem::<TR, 3>(&x);
		}
	} else {
		let cn = val_candle();
		if let Ok(x) = HeikinAshi::new((), &cn) {
			let _ = idem::<HeikinAshi, 3>(&x);
		}
	}
}

/// CollapseTimeframe<Candle>, Option<Candle> state None (fresh, symbolic period)
fn idem_collapse_none() {
	let cn = sym_candle();
	let period: usize = kani::any();
	if let Ok(x) = CollapseTimeframe::<Candle>::new(period, &cn) {
		let _ = idem::<CollapseTimeframe<Candle>, 7>(&x);
		kani::cover!(period == 2);
	}
}

/// ... and Some (after one symbolic candle, concrete period 3: with a symbolic period
/// the Option's discriminant, hence every later token position, becomes symbolic: > 600 s)
fn idem_collapse_some() {
	let cn = sym_candle();
	if let Ok(mut x) = CollapseTimeframe::<Candle>::new(3, &cn) {
		let out = x.next(&cn);
		assert!(out.is_none(), "first candle of a period > 1 is held back");
		// Struct(3): current: Str + Some + Struct(5) + 10 ; index; period
		let _ = idem::<CollapseTimeframe<Candle>, 18>(&x);
	}
}

/// Renko: seven fields incl. a Source. The constructor multiplies/divides its
/// inputs (symbolic inputs: 4.5M variables), so the state is built from a concrete
/// candle and brick size, symbolic Source variant among the arithmetic-free ones
fn idem_renko() {
	let cn = Candle { open: 101.5, high: 104.25, low: 99.0, close: 102.75, volume: 1234.5 };
	let src = if kani::any() { Source::Close } else if kani::any() { Source::Low } else { Source::Volume };
	if let Ok(x) = Renko::new((0.0625, src), &cn) {
		let _ = idem::<Renko, 16>(&x);
		kani::cover!(src == Source::Volume);
	} else {
		assert!(false, "Renko::new rejected a valid brick size");
	}
}

/// Cross/CrossAbove/CrossUnder, TR, HeikinAshi, CollapseTimeframe (Option field), Renko
#[kani::proof]
#[kani::unwind(20)]
fn c13_idem_small_methods() {
	idem_cross();
	idem_tr_heikin();
	idem_collapse_none();
	idem_renko();
}

/// Cross / CrossAbove / CrossUnder: a restored instance *continues* like the original (a field left out of
/// the serialized form — e.g. a skipped inner detector — keeps the round trip idempotent but loses state):
/// new(a, b), one symbolic step, snapshot, then the same symbolic step fed to both gives the same action.
#[kani::proof]
#[kani::unwind(20)]
fn c13_cross_continues() {
	let a = any_val();
	let b = any_val();
	let s1 = (any_val(), any_val());
	let s2 = (any_val(), any_val());
	let c: u8 = kani::any();
	if c == 0 {
		if let Ok(mut x) = Cross::new((), &(a, b)) {
			let _ = x.next(&s1);
			if let Some(mut y) = idem::<Cross, 9>(&x) {
				let (p, q) = (x.next(&s2), y.next(&s2));
				kani::assert(p.analog() == q.analog(), "restored Cross continues like the original");
				kani::cover!(p.analog() == -1, "downward cross after the snapshot");
				kani::cover!(p.analog() == 1, "upward cross after the snapshot");
			}
		}
	} else if c == 1 {
		if let Ok(mut x) = CrossAbove::new((), &(a, b)) {
			let _ = x.next(&s1);
			if let Some(mut y) = idem::<CrossAbove, 3>(&x) {
				let (p, q) = (x.next(&s2), y.next(&s2));
				kani::assert(p.analog() == q.analog(), "restored CrossAbove continues like the original");
			}
		}
	} else {
		if let Ok(mut x) = CrossUnder::new((), &(a, b)) {
			let _ = x.next(&s1);
			if let Some(mut y) = idem::<CrossUnder, 3>(&x) {
				let (p, q) = (x.next(&s2), y.next(&s2));
				kani::assert(p.analog() == q.analog(), "restored CrossUnder continues like the original");
			}
		}
	}
}

/// CollapseTimeframe holding Some(candle) (Option field)
#[kani::proof]
#[kani::unwind(20)]
fn c13_idem_collapse_some() {
	idem_collapse_some();
}

// indicator configurations: every public field symbolic (MA fields: see `impl Sym for MA`),
// restored config equal field by field
macro_rules! idem_cfg {
	($name:ident, $ty:ty, $n:expr; $($f:ident),+) => {
		fn $name() {
			unsafe { MA_NEXT = ($n as u8).wrapping_mul(7) };
			let mut c = <$ty>::default();
			$( c.$f = Sym::sym(); )+
			if let Some(d) = idem::<$ty, $n>(&c) {
				// (kani::assert, not assert!: Kani's assert! prints a concat!(..) message unexpanded)
				$( kani::assert(c.$f.same(&d.$f), concat!("restored ", stringify!($ty), " field ", stringify!($f))); )+
			}
		}
	};
}
macro_rules! cfg_group {
	($name:ident, $unw:expr; $($f:ident),+) => {
		#[kani::proof]
		#[kani::unwind($unw)]
		fn $name() {
			$( $f(); )+
		}
	};
}
use yata::indicators as ind;
idem_cfg!(cfg_aroon, ind::Aroon, 7; period, signal_zone, over_zone_period);
idem_cfg!(cfg_adx, ind::AverageDirectionalIndex, 11; method1, method2, period1, zone);
idem_cfg!(cfg_awesome_oscillator, ind::AwesomeOscillator, 16; ma1, ma2, source, left, right, conseq_peaks);
idem_cfg!(cfg_bollinger_bands, ind::BollingerBands, 8; avg_size, sigma, source);
idem_cfg!(cfg_chaikin_money_flow, ind::ChaikinMoneyFlow, 3; size);
idem_cfg!(cfg_chaikin_oscillator, ind::ChaikinOscillator, 9; ma1, ma2, window);
idem_cfg!(cfg_chande_kroll_stop, ind::ChandeKrollStop, 11; ma, x, q, source);
idem_cfg!(cfg_chande_momentum_oscillator, ind::ChandeMomentumOscillator, 8; period, zone, source);
idem_cfg!(cfg_commodity_channel_index, ind::CommodityChannelIndex, 8; period, zone, source);
idem_cfg!(cfg_coppock_curve, ind::CoppockCurve, 18; ma1, s3_ma, period2, period3, s2_left, s2_right, source);
idem_cfg!(cfg_detrended_price_oscillator, ind::DetrendedPriceOscillator, 7; ma, source);
idem_cfg!(cfg_donchian_channel, ind::DonchianChannel, 3; period);
idem_cfg!(cfg_ease_of_movement, ind::EaseOfMovement, 6; ma, period2);
idem_cfg!(cfg_elders_force_index, ind::EldersForceIndex, 9; ma, period2, source);
idem_cfg!(cfg_envelopes, ind::Envelopes, 12; ma, k, source, source2);
idem_cfg!(cfg_fisher_transform, ind::FisherTransform, 11; period1, zone, signal, source);
idem_cfg!(cfg_hull_moving_average, ind::HullMovingAverage, 10; period, left, right, source);
idem_cfg!(cfg_ichimoku_cloud, ind::IchimokuCloud, 12; l1, l2, l3, m, source);
idem_cfg!(cfg_kaufman, ind::Kaufman, 16; period1, period2, period3, filter_period, square_smooth, k, source);
idem_cfg!(cfg_keltner_channel, ind::KeltnerChannel, 9; ma, sigma, source);
idem_cfg!(cfg_klinger_volume_oscillator, ind::KlingerVolumeOscillator, 10; ma1, ma2, signal);
idem_cfg!(cfg_know_sure_thing, ind::KnowSureThing, 24; period1, period2, period3, period4, ma1, ma2, ma3, ma4, signal);
idem_cfg!(cfg_macd, ind::MACD, 13; ma1, ma2, signal, source);
idem_cfg!(cfg_momentum_index, ind::MomentumIndex, 8; period1, period2, source);
idem_cfg!(cfg_money_flow_index, ind::MoneyFlowIndex, 5; period, zone);
idem_cfg!(cfg_parabolic_sar, ind::ParabolicSAR, 5; af_step, af_max);
idem_cfg!(cfg_pivot_reversal_strategy, ind::PivotReversalStrategy, 5; left, right);
idem_cfg!(cfg_price_channel_strategy, ind::PriceChannelStrategy, 5; period, sigma);
idem_cfg!(cfg_relative_strength_index, ind::RelativeStrengthIndex, 9; ma, zone, source);
idem_cfg!(cfg_relative_vigor_index, ind::RelativeVigorIndex, 10; period1, period2, signal, zone);
idem_cfg!(cfg_smi_ergodic_indicator, ind::SMIErgodicIndicator, 13; period1, period2, signal, zone, source);
idem_cfg!(cfg_stochastic_oscillator, ind::StochasticOscillator, 11; period, ma, signal, zone);
idem_cfg!(cfg_trend_strength_index, ind::TrendStrengthIndex, 10; period, zone, reverse_offset, source);
idem_cfg!(cfg_trix, ind::Trix, 9; period1, signal, source);
idem_cfg!(cfg_true_strength_index, ind::TrueStrengthIndex, 12; period1, period2, period3, zone, source);
idem_cfg!(cfg_woodies_cci, ind::WoodiesCCI, 10; period1, period2, s1_lag, source);

// unwind: max(token count, longest field name) + 2 within the group
cfg_group!(c13_cfg_group_a, 20; cfg_aroon, cfg_adx, cfg_awesome_oscillator, cfg_bollinger_bands, cfg_chaikin_money_flow, cfg_chaikin_oscillator);
cfg_group!(c13_cfg_group_b, 20; cfg_chande_kroll_stop, cfg_chande_momentum_oscillator, cfg_commodity_channel_index, cfg_coppock_curve, cfg_detrended_price_oscillator, cfg_donchian_channel);
cfg_group!(c13_cfg_group_c, 18; cfg_ease_of_movement, cfg_elders_force_index, cfg_envelopes, cfg_fisher_transform, cfg_hull_moving_average, cfg_ichimoku_cloud, cfg_kaufman);
cfg_group!(c13_cfg_group_d, 26; cfg_keltner_channel, cfg_klinger_volume_oscillator, cfg_know_sure_thing, cfg_macd, cfg_momentum_index, cfg_money_flow_index);
cfg_group!(c13_cfg_group_e, 16; cfg_parabolic_sar, cfg_pivot_reversal_strategy, cfg_price_channel_strategy, cfg_relative_strength_index, cfg_relative_vigor_index, cfg_smi_ergodic_indicator);
cfg_group!(c13_cfg_group_f, 16; cfg_stochastic_oscillator, cfg_trend_strength_index, cfg_trix, cfg_true_strength_index, cfg_woodies_cci);
