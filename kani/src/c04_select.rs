//! C04 (K part) — Highest, Lowest, HighestLowestDelta, HighestIndex, LowestIndex are
//! exact selections over the last `length` inputs (the construction value standing in
//! for inputs before the first one).
//!
//! Oracle: the explicit history `h = [v0; N] ++ [x_1 .. x_T]`; after step k the window
//! is `h[k .. k+N]` (newest = `h[k+N-1]`). The selection is stated declaratively
//! (upper bound of the window AND member of the window; for the index: no newer element
//! is >= / <=), not by re-running the implementation's fold. Values are compared
//! numerically (`==`, so -0.0 == +0.0: "up to the sign of zero"), indices exactly.
//! Inputs: unrestricted finite floats (comparison-only code). One harness per length.
use crate::util::*;
use yata::core::{Method, PeriodType, ValueType};
use yata::helpers::Peekable;
use yata::methods::{Highest, HighestIndex, HighestLowestDelta, Lowest, LowestIndex};

/// symbolic history: N copies of the construction value, then T inputs
fn any_history<const L: usize>(n: usize) -> [ValueType; L] {
	let v0 = any_finite();
	let mut h = [v0; L];
	let mut i = n;
	while i < L {
		h[i] = any_finite();
		i += 1;
	}
	h
}

/// is `r` the maximum of w (an upper bound that is a member)?
pub(crate) fn is_max(w: &[ValueType], r: ValueType) -> bool {
	let mut ub = true;
	let mut member = false;
	let mut j = 0;
	while j < w.len() {
		ub &= w[j] <= r;
		member |= w[j] == r;
		j += 1;
	}
	ub && member
}

pub(crate) fn is_min(w: &[ValueType], r: ValueType) -> bool {
	let mut lb = true;
	let mut member = false;
	let mut j = 0;
	while j < w.len() {
		lb &= w[j] >= r;
		member |= w[j] == r;
		j += 1;
	}
	lb && member
}

/// is `age` (0 = newest = last slot of w) the age of the NEWEST maximal element?
pub(crate) fn is_newest_argmax(w: &[ValueType], age: usize) -> bool {
	if age >= w.len() {
		return false;
	}
	let p = w.len() - 1 - age;
	let mut ok = true;
	let mut j = 0;
	while j < w.len() {
		// nothing is greater; nothing newer is equal
		ok &= if j > p { w[j] < w[p] } else { w[j] <= w[p] };
		j += 1;
	}
	ok
}

pub(crate) fn is_newest_argmin(w: &[ValueType], age: usize) -> bool {
	if age >= w.len() {
		return false;
	}
	let p = w.len() - 1 - age;
	let mut ok = true;
	let mut j = 0;
	while j < w.len() {
		ok &= if j > p { w[j] > w[p] } else { w[j] >= w[p] };
		j += 1;
	}
	ok
}

/// witnesses over one window, given its extremal value `r`:
/// (two members equal r, both +0.0 and -0.0 are members and r is zero)
fn tie_and_zeros(w: &[ValueType], r: ValueType) -> (bool, bool) {
	let mut cnt = 0;
	let mut pz = false;
	let mut nz = false;
	let mut j = 0;
	while j < w.len() {
		if w[j] == r {
			cnt += 1;
			pz |= w[j].to_bits() == (0.0 as ValueType).to_bits();
			nz |= w[j].to_bits() == (-0.0 as ValueType).to_bits();
		}
		j += 1;
	}
	(cnt >= 2, pz && nz)
}

/// the element that left the window at this step was strictly beyond everything that is left
fn extremum_left(left: ValueType, w: &[ValueType], hi: bool) -> bool {
	let mut ok = true;
	let mut j = 0;
	while j < w.len() {
		ok &= if hi { left > w[j] } else { left < w[j] };
		j += 1;
	}
	ok
}

macro_rules! c04_value {
	($name:ident, $ty:ident, $hi:expr, $n:expr, $t:expr, $u:expr) => {
		#[kani::proof]
		#[kani::unwind($u)]
		fn $name() {
			const N: usize = $n;
			const T: usize = $t;
			const L: usize = N + T;
			let h: [ValueType; L] = any_history::<L>(N);
			let mut m = $ty::new(N as PeriodType, &h[0]).unwrap();
			let (mut tie, mut zeros, mut gone) = (false, false, false);
			let mut k = 1;
			while k <= T {
				let r = m.next(&h[k + N - 1]);
				let w = &h[k..k + N];
				if $hi {
					assert!(is_max(w, r), "next: maximum of the last N inputs");
					assert!(is_max(w, m.peek()), "peek: maximum of the last N inputs");
				} else {
					assert!(is_min(w, r), "next: minimum of the last N inputs");
					assert!(is_min(w, m.peek()), "peek: minimum of the last N inputs");
				}
				let (t1, z1) = tie_and_zeros(w, r);
				tie |= t1;
				zeros |= z1;
				gone |= k > N && extremum_left(h[k - 1], w, $hi);
				k += 1;
			}
			kani::cover!(N == 1 || tie, "tie among the extremal elements of a window");
			kani::cover!(N == 1 || zeros, "both signed zeros extremal in one window");
			kani::cover!(gone, "the strict extremum (a real input) just left the window");
		}
	};
}

macro_rules! c04_index {
	($name:ident, $ty:ident, $hi:expr, $n:expr, $t:expr, $u:expr) => {
		#[kani::proof]
		#[kani::unwind($u)]
		fn $name() {
			const N: usize = $n;
			const T: usize = $t;
			const L: usize = N + T;
			let h: [ValueType; L] = any_history::<L>(N);
			let mut m = $ty::new(N as PeriodType, &h[0]).unwrap();
			let (mut tie, mut zeros, mut gone, mut oldest) = (false, false, false, false);
			let mut k = 1;
			while k <= T {
				let r = m.next(&h[k + N - 1]);
				let w = &h[k..k + N];
				if $hi {
					assert!(is_newest_argmax(w, r as usize), "next: age of the newest maximal element");
					assert!(is_newest_argmax(w, m.peek() as usize), "peek: age of the newest maximal element");
				} else {
					assert!(is_newest_argmin(w, r as usize), "next: age of the newest minimal element");
					assert!(is_newest_argmin(w, m.peek() as usize), "peek: age of the newest minimal element");
				}
				let (t1, z1) = tie_and_zeros(w, w[N - 1 - r as usize]);
				tie |= t1;
				zeros |= z1;
				gone |= k > N && extremum_left(h[k - 1], w, $hi);
				oldest |= r as usize == N - 1 && k > N;
				k += 1;
			}
			kani::cover!(N == 1 || tie, "tie among the extremal elements of a window");
			kani::cover!(N == 1 || zeros, "both signed zeros extremal in one window");
			kani::cover!(gone, "the strict extremum (a real input) just left the window");
			kani::cover!(oldest, "extremum at the oldest slot of a window of real inputs");
		}
	};
}

/// i8-valued float, zero with either sign: every order pattern, tie pattern and zero-sign
/// pattern of up to 256 values is realised by these, and their differences are exact
fn any_small() -> ValueType {
	let i: i8 = kani::any();
	if i == 0 && kani::any() {
		-0.0
	} else {
		i as ValueType
	}
}

/// HighestLowestDelta is the one member of the family with a float operation (one
/// subtraction per call). Measured: with the check at every step or at a symbolic step the
/// solver needs > 600 s already at N = 3, so the check is made after exactly T steps, one
/// harness per (N, T), T = 1..=N+2 (all warm-up positions and two steps beyond).
/// `$gen` = any_small (core) or any_finite (full f64; feasible for N <= 2 only).
/// `$peek`: check Peekable::peek instead of the value returned by next (separate harness:
/// a second subtraction in the same formula triples the time).
/// Oracle: w[a] - w[b] for ANY maximal member a and minimal member b (symbolic picks) —
/// one subtraction on the harness side.
macro_rules! c04_delta {
	($name:ident, $gen:ident, $peek:expr, $n:expr, $t:expr, $u:expr) => {
		#[kani::proof]
		#[kani::unwind($u)]
		fn $name() {
			const N: usize = $n;
			const T: usize = $t;
			const L: usize = N + T;
			let v0 = $gen();
			let mut h = [v0; L];
			let mut i = N;
			while i < L {
				h[i] = $gen();
				i += 1;
			}
			let mut m = HighestLowestDelta::new(N as PeriodType, &h[0]).unwrap();
			let mut r = 0.0;
			let mut k = 1;
			while k <= T {
				r = m.next(&h[k + N - 1]);
				k += 1;
			}
			if $peek {
				r = m.peek();
			}
			let w = &h[T..T + N];
			let a: usize = kani::any();
			let b: usize = kani::any();
			kani::assume(a < N && b < N);
			kani::assume(is_max(w, w[a]) && is_min(w, w[b]));
			let want = w[a] - w[b];
			assert!(r == want, "delta: highest - lowest of the last N inputs");
			assert!(r >= 0.0, "delta: non-negative");
			let (tie, zeros) = tie_and_zeros(w, w[a]);
			kani::cover!(N == 1 || r > 0.0, "positive delta");
			kani::cover!(N == 1 || tie, "tie among the maximal elements of the window");
			kani::cover!(N == 1 || zeros, "both signed zeros maximal in the window");
			kani::cover!(T <= N || extremum_left(h[T - 1], w, true), "the strict maximum (a real input) just left the window");
			kani::cover!(T <= N || extremum_left(h[T - 1], w, false), "the strict minimum (a real input) just left the window");
		}
	};
}

c04_value!(c04_highest_n1, Highest, true, 1, 4, 5);
c04_value!(c04_highest_n2, Highest, true, 2, 5, 6);
c04_value!(c04_highest_n3, Highest, true, 3, 6, 7);
c04_value!(c04_highest_n4, Highest, true, 4, 6, 7);
c04_value!(c04_lowest_n1, Lowest, false, 1, 4, 5);
c04_value!(c04_lowest_n2, Lowest, false, 2, 5, 6);
c04_value!(c04_lowest_n3, Lowest, false, 3, 6, 7);
c04_value!(c04_lowest_n4, Lowest, false, 4, 6, 7);
c04_index!(c04_highest_index_n1, HighestIndex, true, 1, 4, 5);
c04_index!(c04_highest_index_n2, HighestIndex, true, 2, 5, 6);
c04_index!(c04_highest_index_n3, HighestIndex, true, 3, 6, 7);
c04_index!(c04_highest_index_n4_t5, HighestIndex, true, 4, 5, 6);
c04_index!(c04_highest_index_n4_t6, HighestIndex, true, 4, 6, 7);
c04_index!(c04_lowest_index_n1, LowestIndex, false, 1, 4, 5);
c04_index!(c04_lowest_index_n2, LowestIndex, false, 2, 5, 6);
c04_index!(c04_lowest_index_n3, LowestIndex, false, 3, 6, 7);
c04_index!(c04_lowest_index_n4_t5, LowestIndex, false, 4, 5, 6);
c04_index!(c04_lowest_index_n4_t6, LowestIndex, false, 4, 6, 7);
c04_delta!(c04_delta_n1_t1, any_small, false, 1, 1, 2);
c04_delta!(c04_delta_n1_t2, any_small, false, 1, 2, 3);
c04_delta!(c04_delta_n1_t3, any_small, false, 1, 3, 4);
c04_delta!(c04_delta_peek_n1_t3, any_small, true, 1, 3, 4);
c04_delta!(c04_delta_n2_t1, any_small, false, 2, 1, 3);
c04_delta!(c04_delta_n2_t2, any_small, false, 2, 2, 3);
c04_delta!(c04_delta_n2_t3, any_small, false, 2, 3, 4);
c04_delta!(c04_delta_n2_t4, any_small, false, 2, 4, 5);
c04_delta!(c04_delta_peek_n2_t4, any_small, true, 2, 4, 5);
c04_delta!(c04_delta_n3_t1, any_small, false, 3, 1, 4);
c04_delta!(c04_delta_n3_t2, any_small, false, 3, 2, 4);
c04_delta!(c04_delta_n3_t3, any_small, false, 3, 3, 4);
c04_delta!(c04_delta_n3_t4, any_small, false, 3, 4, 5);
c04_delta!(c04_delta_n3_t5, any_small, false, 3, 5, 6);
c04_delta!(c04_delta_peek_n3_t5, any_small, true, 3, 5, 6);
c04_delta!(c04_delta_n4_t1, any_small, false, 4, 1, 5);
c04_delta!(c04_delta_n4_t2, any_small, false, 4, 2, 5);
c04_delta!(c04_delta_n4_t3, any_small, false, 4, 3, 5);
c04_delta!(c04_delta_n4_t4, any_small, false, 4, 4, 5);
c04_delta!(c04_delta_n4_t5, any_small, false, 4, 5, 6);
c04_delta!(c04_delta_n4_t6, any_small, false, 4, 6, 7);
c04_delta!(c04_delta_peek_n4_t6, any_small, true, 4, 6, 7);
c04_delta!(c04_delta_f64_n1_t1, any_finite, false, 1, 1, 2);
c04_delta!(c04_delta_f64_n1_t2, any_finite, false, 1, 2, 3);
c04_delta!(c04_delta_f64_n1_t3, any_finite, false, 1, 3, 4);
c04_delta!(c04_delta_f64_n2_t1, any_finite, false, 2, 1, 3);
c04_delta!(c04_delta_f64_n2_t2, any_finite, false, 2, 2, 3);
c04_delta!(c04_delta_f64_n2_t3, any_finite, false, 2, 3, 4);
c04_delta!(c04_delta_f64_n2_t4, any_finite, false, 2, 4, 5);
