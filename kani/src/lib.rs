//! Kani harnesses over the public API of yata (path dependency on /repo).
//! Every harness is bounded; the bound is in its name / doc line and in
//! /verif/harnesses.py, which is what the driver reads.
#![allow(clippy::all)]
#![allow(unused)]

#[cfg(kani)]
pub mod util;

#[cfg(kani)]
mod c01_window;
#[cfg(kani)]
mod c14_detectors;
#[cfg(kani)]
mod c16_action;
#[cfg(kani)]
mod c17_convert;
#[cfg(kani)]
mod c18_candles;
#[cfg(kani)]
mod c04_select;
#[cfg(kani)]
mod c07_long;
#[cfg(kani)]
mod c08_const;
#[cfg(kani)]
mod c10_ctor;
#[cfg(kani)]
mod c09_comb;
#[cfg(kani)]
mod c11_iface;
#[cfg(kani)]
mod c11_set;
#[cfg(kani)]
mod c19_unsafe;
#[cfg(feature = "serde")]
pub mod tok;
#[cfg(all(kani, feature = "serde"))]
mod c13_serde;
#[cfg(kani)]
mod c20_width;
