//! A small self-describing in-memory serde format for the C13 harnesses.
//!
//! No serde format crate is usable under Kani (allocation, formatting, UTF-8
//! scanning), so instances are serialized into a flat sequence of `Copy` tokens
//! held in a fixed-capacity array and deserialized from a token slice.
//!
//! * Every value is tagged with its kind (`K`); a typed request (`deserialize_u8`,
//!   `deserialize_seq`, ...) checks the tag and fails on a mismatch,
//!   `deserialize_any` dispatches on it.
//! * Structs are `Struct(n)` followed by n `(Str(field name), value)` pairs. By default
//!   the names must appear in declaration order: they are checked against the
//!   type's field list and the values are handed to `visit_seq` (the map-visitor of a
//!   derived struct costs 10x more under CBMC). `from_tokens_by_name` hands the
//!   struct to `visit_map` keyed by the names in the stream (any order).
//!   Unknown fields are an error.
//! * Enum variants are identified by their index; the name is carried along.
//! * `Repeat(n)` is a run-length marker for long sequences of equal scalars.
//! * Error messages are dropped (no formatting).
//!
//! Measured pitfalls that shaped this file: a token *enum* with integer and
//! pointer payloads is a union for CBMC (every copy is a byte-wise pointer
//! extraction: 10-20x); moving a token array by value is a byte-wise copy (hence
//! `to_tokens_into`); a symbolic token *position* (symbolic sequence length or an
//! Option whose tag is symbolic) makes every later read a symbolic array lookup.
use serde::de::{self, DeserializeSeed, Visitor};
use serde::ser::{self, Serialize};
use serde::Deserialize;

/// token kinds
#[derive(Clone, Copy, PartialEq, Eq, Debug)]
#[repr(u8)]
pub enum K {
	Bool,
	U64,
	I64,
	/// `a` = bit pattern of an f64
	F64,
	/// `a` = bit pattern of an f32
	F32,
	Char,
	/// `s` = a static string (struct field names)
	Str,
	None,
	Some,
	Unit,
	/// newtype struct marker, followed by the inner value
	Newtype,
	/// followed by `a` elements
	Seq,
	/// followed by `a` elements
	Tuple,
	/// followed by `a` (key, value) pairs
	Map,
	/// followed by `a` (Str(field name), value) pairs
	Struct,
	/// run-length marker: the following scalar token is read `a` >= 1 times
	Repeat,
	/// enum variant (`a` = index, `s` = name), followed by Unit | value | Tuple(n).. | Struct(n)..
	Variant,
}

/// One token. A flat struct on purpose (kind, number, name): an enum with
/// integer and pointer payloads becomes a union under CBMC, and every copy of
/// such a token costs byte-level pointer extraction (measured: 10-20x slower).
/// The constructor functions are named like enum variants.
#[derive(Clone, Copy, Debug)]
pub struct Tok {
	pub k: K,
	pub a: u64,
	pub s: &'static str,
}

#[allow(non_snake_case, non_upper_case_globals)]
impl Tok {
	const fn mk(k: K, a: u64) -> Tok {
		Tok { k, a, s: "" }
	}
	pub const None: Tok = Tok::mk(K::None, 0);
	pub const Some: Tok = Tok::mk(K::Some, 0);
	pub const Unit: Tok = Tok::mk(K::Unit, 0);
	pub const Newtype: Tok = Tok::mk(K::Newtype, 0);
	pub const fn Bool(v: bool) -> Tok {
		Tok::mk(K::Bool, v as u64)
	}
	pub const fn U64(v: u64) -> Tok {
		Tok::mk(K::U64, v)
	}
	pub const fn I64(v: i64) -> Tok {
		Tok::mk(K::I64, v as u64)
	}
	pub const fn F64(bits: u64) -> Tok {
		Tok::mk(K::F64, bits)
	}
	pub const fn F32(bits: u32) -> Tok {
		Tok::mk(K::F32, bits as u64)
	}
	pub const fn Char(c: char) -> Tok {
		Tok::mk(K::Char, c as u64)
	}
	pub const fn Str(s: &'static str) -> Tok {
		Tok { k: K::Str, a: 0, s }
	}
	pub const fn Seq(n: usize) -> Tok {
		Tok::mk(K::Seq, n as u64)
	}
	pub const fn Tuple(n: usize) -> Tok {
		Tok::mk(K::Tuple, n as u64)
	}
	pub const fn Map(n: usize) -> Tok {
		Tok::mk(K::Map, n as u64)
	}
	pub const fn Struct(n: usize) -> Tok {
		Tok::mk(K::Struct, n as u64)
	}
	pub const fn Repeat(n: usize) -> Tok {
		Tok::mk(K::Repeat, n as u64)
	}
	pub const fn Variant(idx: u32, name: &'static str) -> Tok {
		Tok { k: K::Variant, a: idx as u64, s: name }
	}
	/// kind `k` with number `a`
	#[inline]
	pub fn is(&self, k: K, a: u64) -> bool {
		self.k == k && self.a == a
	}
	/// name token with this content
	#[inline]
	pub fn is_str(&self, name: &str) -> bool {
		self.k == K::Str && self.s == name
	}
}

/// equality by content (names compared as strings)
impl PartialEq for Tok {
	fn eq(&self, o: &Tok) -> bool {
		self.k == o.k && self.a == o.a && self.s == o.s
	}
}

#[derive(Debug, Clone, Copy, PartialEq)]
pub struct TokErr;

impl std::fmt::Display for TokErr {
	fn fmt(&self, f: &mut std::fmt::Formatter<'_>) -> std::fmt::Result {
		f.write_str("token format error")
	}
}
impl std::error::Error for TokErr {}
impl ser::Error for TokErr {
	fn custom<T: std::fmt::Display>(_msg: T) -> Self {
		TokErr
	}
}
impl de::Error for TokErr {
	fn custom<T: std::fmt::Display>(_msg: T) -> Self {
		TokErr
	}
}

/// token sink of capacity N
pub struct Ser<const N: usize> {
	pub t: [Tok; N],
	pub n: usize,
	/// length-probe mode: only `Seq(len)` tokens are stored (used by C20 to observe
	/// the lengths of private windows through the public `Serialize` impl)
	pub only_seq: bool,
}

impl<const N: usize> Ser<N> {
	pub fn new() -> Self {
		Self { t: [Tok::Unit; N], n: 0, only_seq: false }
	}
	pub fn seq_probe() -> Self {
		Self { t: [Tok::Unit; N], n: 0, only_seq: true }
	}
	#[inline]
	fn put(&mut self, t: Tok) -> Result<(), TokErr> {
		if self.only_seq && t.k != K::Seq {
			return Ok(());
		}
		if self.n >= N {
			return Err(TokErr);
		}
		self.t[self.n] = t;
		self.n += 1;
		Ok(())
	}
	pub fn toks(&self) -> &[Tok] {
		&self.t[..self.n]
	}
}

/// serialize `x` into the sink (appends); the sink is never moved: moving an array
/// of structs with pointer fields is a byte-wise copy under CBMC
pub fn to_tokens_into<T: Serialize, const N: usize>(x: &T, s: &mut Ser<N>) -> Result<(), TokErr> {
	x.serialize(s)
}

/// serialize `x` into at most N tokens
pub fn to_tokens<T: Serialize, const N: usize>(x: &T) -> Result<Ser<N>, TokErr> {
	let mut s = Ser::<N>::new();
	x.serialize(&mut s)?;
	Ok(s)
}

/// deserialize a `T` from the whole token slice (trailing tokens are an error)
pub fn from_tokens<'de, T: Deserialize<'de>>(t: &'de [Tok]) -> Result<T, TokErr> {
	from_tokens_mode(t, false)
}

/// same, but structs are handed to the visitor as maps keyed by field name
/// (any field order is accepted); much more expensive under Kani
pub fn from_tokens_by_name<'de, T: Deserialize<'de>>(t: &'de [Tok]) -> Result<T, TokErr> {
	from_tokens_mode(t, true)
}

fn from_tokens_mode<'de, T: Deserialize<'de>>(t: &'de [Tok], by_name: bool) -> Result<T, TokErr> {
	let mut d = De { t, pos: 0, rep: 0, by_name };
	let v = T::deserialize(&mut d)?;
	if d.pos != t.len() {
		return Err(TokErr);
	}
	Ok(v)
}

impl<'a, const N: usize> ser::Serializer for &'a mut Ser<N> {
	type Ok = ();
	type Error = TokErr;
	type SerializeSeq = Self;
	type SerializeTuple = Self;
	type SerializeTupleStruct = Self;
	type SerializeTupleVariant = Self;
	type SerializeMap = Self;
	type SerializeStruct = Self;
	type SerializeStructVariant = Self;

	fn serialize_bool(self, v: bool) -> Result<(), TokErr> {
		self.put(Tok::Bool(v))
	}
	fn serialize_i8(self, v: i8) -> Result<(), TokErr> {
		self.put(Tok::I64(v as i64))
	}
	fn serialize_i16(self, v: i16) -> Result<(), TokErr> {
		self.put(Tok::I64(v as i64))
	}
	fn serialize_i32(self, v: i32) -> Result<(), TokErr> {
		self.put(Tok::I64(v as i64))
	}
	fn serialize_i64(self, v: i64) -> Result<(), TokErr> {
		self.put(Tok::I64(v))
	}
	fn serialize_u8(self, v: u8) -> Result<(), TokErr> {
		self.put(Tok::U64(v as u64))
	}
	fn serialize_u16(self, v: u16) -> Result<(), TokErr> {
		self.put(Tok::U64(v as u64))
	}
	fn serialize_u32(self, v: u32) -> Result<(), TokErr> {
		self.put(Tok::U64(v as u64))
	}
	fn serialize_u64(self, v: u64) -> Result<(), TokErr> {
		self.put(Tok::U64(v))
	}
	fn serialize_f32(self, v: f32) -> Result<(), TokErr> {
		self.put(Tok::F32(v.to_bits()))
	}
	fn serialize_f64(self, v: f64) -> Result<(), TokErr> {
		self.put(Tok::F64(v.to_bits()))
	}
	fn serialize_char(self, v: char) -> Result<(), TokErr> {
		self.put(Tok::Char(v))
	}
	// no type of yata serializes a run-time string or bytes
	fn serialize_str(self, _v: &str) -> Result<(), TokErr> {
		Err(TokErr)
	}
	fn serialize_bytes(self, _v: &[u8]) -> Result<(), TokErr> {
		Err(TokErr)
	}
	fn serialize_none(self) -> Result<(), TokErr> {
		self.put(Tok::None)
	}
	fn serialize_some<T: ?Sized + Serialize>(self, v: &T) -> Result<(), TokErr> {
		self.put(Tok::Some)?;
		v.serialize(self)
	}
	fn serialize_unit(self) -> Result<(), TokErr> {
		self.put(Tok::Unit)
	}
	fn serialize_unit_struct(self, _name: &'static str) -> Result<(), TokErr> {
		self.put(Tok::Unit)
	}
	fn serialize_unit_variant(self, _name: &'static str, idx: u32, variant: &'static str) -> Result<(), TokErr> {
		self.put(Tok::Variant(idx, variant))?;
		self.put(Tok::Unit)
	}
	fn serialize_newtype_struct<T: ?Sized + Serialize>(self, _name: &'static str, v: &T) -> Result<(), TokErr> {
		self.put(Tok::Newtype)?;
		v.serialize(self)
	}
	fn serialize_newtype_variant<T: ?Sized + Serialize>(
		self,
		_name: &'static str,
		idx: u32,
		variant: &'static str,
		v: &T,
	) -> Result<(), TokErr> {
		self.put(Tok::Variant(idx, variant))?;
		v.serialize(self)
	}
	fn serialize_seq(self, len: Option<usize>) -> Result<Self, TokErr> {
		match len {
			Some(n) => {
				self.put(Tok::Seq(n))?;
				Ok(self)
			}
			None => Err(TokErr),
		}
	}
	fn serialize_tuple(self, len: usize) -> Result<Self, TokErr> {
		self.put(Tok::Tuple(len))?;
		Ok(self)
	}
	fn serialize_tuple_struct(self, _name: &'static str, len: usize) -> Result<Self, TokErr> {
		self.put(Tok::Tuple(len))?;
		Ok(self)
	}
	fn serialize_tuple_variant(self, _name: &'static str, idx: u32, variant: &'static str, len: usize) -> Result<Self, TokErr> {
		self.put(Tok::Variant(idx, variant))?;
		self.put(Tok::Tuple(len))?;
		Ok(self)
	}
	fn serialize_map(self, len: Option<usize>) -> Result<Self, TokErr> {
		match len {
			Some(n) => {
				self.put(Tok::Map(n))?;
				Ok(self)
			}
			None => Err(TokErr),
		}
	}
	fn serialize_struct(self, _name: &'static str, len: usize) -> Result<Self, TokErr> {
		self.put(Tok::Struct(len))?;
		Ok(self)
	}
	fn serialize_struct_variant(self, _name: &'static str, idx: u32, variant: &'static str, len: usize) -> Result<Self, TokErr> {
		self.put(Tok::Variant(idx, variant))?;
		self.put(Tok::Struct(len))?;
		Ok(self)
	}
	fn is_human_readable(&self) -> bool {
		false
	}
}

macro_rules! compound {
	($tr:ident, $f:ident) => {
		impl<'a, const N: usize> ser::$tr for &'a mut Ser<N> {
			type Ok = ();
			type Error = TokErr;
			fn $f<T: ?Sized + Serialize>(&mut self, v: &T) -> Result<(), TokErr> {
				v.serialize(&mut **self)
			}
			fn end(self) -> Result<(), TokErr> {
				Ok(())
			}
		}
	};
}
compound!(SerializeSeq, serialize_element);
compound!(SerializeTuple, serialize_element);
compound!(SerializeTupleStruct, serialize_field);
compound!(SerializeTupleVariant, serialize_field);

impl<'a, const N: usize> ser::SerializeMap for &'a mut Ser<N> {
	type Ok = ();
	type Error = TokErr;
	fn serialize_key<T: ?Sized + Serialize>(&mut self, k: &T) -> Result<(), TokErr> {
		k.serialize(&mut **self)
	}
	fn serialize_value<T: ?Sized + Serialize>(&mut self, v: &T) -> Result<(), TokErr> {
		v.serialize(&mut **self)
	}
	fn end(self) -> Result<(), TokErr> {
		Ok(())
	}
}
impl<'a, const N: usize> ser::SerializeStruct for &'a mut Ser<N> {
	type Ok = ();
	type Error = TokErr;
	fn serialize_field<T: ?Sized + Serialize>(&mut self, key: &'static str, v: &T) -> Result<(), TokErr> {
		self.put(Tok::Str(key))?;
		v.serialize(&mut **self)
	}
	fn end(self) -> Result<(), TokErr> {
		Ok(())
	}
}
impl<'a, const N: usize> ser::SerializeStructVariant for &'a mut Ser<N> {
	type Ok = ();
	type Error = TokErr;
	fn serialize_field<T: ?Sized + Serialize>(&mut self, key: &'static str, v: &T) -> Result<(), TokErr> {
		self.put(Tok::Str(key))?;
		v.serialize(&mut **self)
	}
	fn end(self) -> Result<(), TokErr> {
		Ok(())
	}
}

/// token source
pub struct De<'de> {
	pub t: &'de [Tok],
	pub pos: usize,
	/// remaining reads of the token at `pos` (inside a `Repeat` run)
	pub rep: usize,
	/// false: a struct's field names must appear in declaration order; they are
	/// checked against the type's field list and the values go to `visit_seq`.
	/// true: structs go to `visit_map` keyed by the names in the stream.
	pub by_name: bool,
}

impl<'de> De<'de> {
	#[inline]
	fn take(&mut self) -> Result<Tok, TokErr> {
		if self.rep == 0 {
			if self.pos >= self.t.len() {
				return Err(TokErr);
			}
			let r = self.t[self.pos];
			if r.k == K::Repeat {
				// Repeat(n) must be followed by a scalar token
				let n = r.a as usize;
				if n == 0 || self.pos + 1 >= self.t.len() {
					return Err(TokErr);
				}
				self.pos += 1;
				self.rep = n;
			}
		}
		let t = self.t[self.pos];
		if self.rep > 1 {
			self.rep -= 1;
		} else {
			self.rep = 0;
			self.pos += 1;
		}
		Ok(t)
	}
}

impl<'de, 'a> de::Deserializer<'de> for &'a mut De<'de> {
	type Error = TokErr;

	fn deserialize_any<V: Visitor<'de>>(self, visitor: V) -> Result<V::Value, TokErr> {
		let t = self.take()?;
		let n = t.a as usize;
		match t.k {
			K::Bool => visitor.visit_bool(t.a != 0),
			K::U64 => visitor.visit_u64(t.a),
			K::I64 => visitor.visit_i64(t.a as i64),
			K::F64 => visitor.visit_f64(f64::from_bits(t.a)),
			K::F32 => visitor.visit_f32(f32::from_bits(t.a as u32)),
			K::Char => match char::from_u32(t.a as u32) {
				Some(c) => visitor.visit_char(c),
				None => Err(TokErr),
			},
			K::Str => visitor.visit_borrowed_str(t.s),
			K::None => visitor.visit_none(),
			K::Some => visitor.visit_some(self),
			K::Unit => visitor.visit_unit(),
			K::Newtype => visitor.visit_newtype_struct(self),
			K::Seq | K::Tuple => {
				let mut a = Elems { de: self, left: n };
				let v = visitor.visit_seq(&mut a)?;
				// a visitor that stops early leaves elements behind: malformed for its type
				if a.left != 0 {
					return Err(TokErr);
				}
				Ok(v)
			}
			K::Map | K::Struct => {
				let mut a = Elems { de: self, left: n };
				let v = visitor.visit_map(&mut a)?;
				if a.left != 0 {
					return Err(TokErr);
				}
				Ok(v)
			}
			K::Variant => visitor.visit_enum(Enum { de: self, idx: t.a as u32 }),
			K::Repeat => Err(TokErr),
		}
	}

	// Typed requests check the token kind first and hand exactly that kind to the
	// visitor (instead of going through the 17-way dispatch of deserialize_any:
	// the infeasible arms cost symbolic-execution time for every element read).
	serde::forward_to_deserialize_any! {
		i128 u128 str string bytes byte_buf
	}

	fn deserialize_bool<V: Visitor<'de>>(self, visitor: V) -> Result<V::Value, TokErr> {
		let t = self.take()?;
		if t.k == K::Bool { visitor.visit_bool(t.a != 0) } else { Err(TokErr) }
	}
	fn deserialize_u8<V: Visitor<'de>>(self, visitor: V) -> Result<V::Value, TokErr> {
		self.deserialize_u64(visitor)
	}
	fn deserialize_u16<V: Visitor<'de>>(self, visitor: V) -> Result<V::Value, TokErr> {
		self.deserialize_u64(visitor)
	}
	fn deserialize_u32<V: Visitor<'de>>(self, visitor: V) -> Result<V::Value, TokErr> {
		self.deserialize_u64(visitor)
	}
	/// every unsigned width is written as U64; the visitor range-checks
	fn deserialize_u64<V: Visitor<'de>>(self, visitor: V) -> Result<V::Value, TokErr> {
		let t = self.take()?;
		if t.k == K::U64 { visitor.visit_u64(t.a) } else { Err(TokErr) }
	}
	fn deserialize_i8<V: Visitor<'de>>(self, visitor: V) -> Result<V::Value, TokErr> {
		self.deserialize_i64(visitor)
	}
	fn deserialize_i16<V: Visitor<'de>>(self, visitor: V) -> Result<V::Value, TokErr> {
		self.deserialize_i64(visitor)
	}
	fn deserialize_i32<V: Visitor<'de>>(self, visitor: V) -> Result<V::Value, TokErr> {
		self.deserialize_i64(visitor)
	}
	fn deserialize_i64<V: Visitor<'de>>(self, visitor: V) -> Result<V::Value, TokErr> {
		let t = self.take()?;
		if t.k == K::I64 { visitor.visit_i64(t.a as i64) } else { Err(TokErr) }
	}
	fn deserialize_f32<V: Visitor<'de>>(self, visitor: V) -> Result<V::Value, TokErr> {
		let t = self.take()?;
		if t.k == K::F32 { visitor.visit_f32(f32::from_bits(t.a as u32)) } else { Err(TokErr) }
	}
	fn deserialize_f64<V: Visitor<'de>>(self, visitor: V) -> Result<V::Value, TokErr> {
		let t = self.take()?;
		if t.k == K::F64 { visitor.visit_f64(f64::from_bits(t.a)) } else { Err(TokErr) }
	}
	fn deserialize_char<V: Visitor<'de>>(self, visitor: V) -> Result<V::Value, TokErr> {
		let t = self.take()?;
		match (t.k, char::from_u32(t.a as u32)) {
			(K::Char, Some(c)) => visitor.visit_char(c),
			_ => Err(TokErr),
		}
	}
	fn deserialize_option<V: Visitor<'de>>(self, visitor: V) -> Result<V::Value, TokErr> {
		let t = self.take()?;
		match t.k {
			K::None => visitor.visit_none(),
			K::Some => visitor.visit_some(self),
			_ => Err(TokErr),
		}
	}
	fn deserialize_unit<V: Visitor<'de>>(self, visitor: V) -> Result<V::Value, TokErr> {
		let t = self.take()?;
		if t.k == K::Unit { visitor.visit_unit() } else { Err(TokErr) }
	}
	fn deserialize_unit_struct<V: Visitor<'de>>(self, _name: &'static str, visitor: V) -> Result<V::Value, TokErr> {
		self.deserialize_unit(visitor)
	}
	fn deserialize_newtype_struct<V: Visitor<'de>>(self, _name: &'static str, visitor: V) -> Result<V::Value, TokErr> {
		let t = self.take()?;
		if t.k == K::Newtype { visitor.visit_newtype_struct(self) } else { Err(TokErr) }
	}
	fn deserialize_seq<V: Visitor<'de>>(self, visitor: V) -> Result<V::Value, TokErr> {
		let t = self.take()?;
		if t.k != K::Seq {
			return Err(TokErr);
		}
		let mut a = Elems { de: self, left: t.a as usize };
		let v = visitor.visit_seq(&mut a)?;
		if a.left != 0 {
			return Err(TokErr);
		}
		Ok(v)
	}
	fn deserialize_tuple<V: Visitor<'de>>(self, len: usize, visitor: V) -> Result<V::Value, TokErr> {
		let t = self.take()?;
		if !t.is(K::Tuple, len as u64) {
			return Err(TokErr);
		}
		let mut a = Elems { de: self, left: len };
		let v = visitor.visit_seq(&mut a)?;
		if a.left != 0 {
			return Err(TokErr);
		}
		Ok(v)
	}
	fn deserialize_tuple_struct<V: Visitor<'de>>(self, _name: &'static str, len: usize, visitor: V) -> Result<V::Value, TokErr> {
		self.deserialize_tuple(len, visitor)
	}
	fn deserialize_map<V: Visitor<'de>>(self, visitor: V) -> Result<V::Value, TokErr> {
		let t = self.take()?;
		if t.k != K::Map {
			return Err(TokErr);
		}
		let mut a = Elems { de: self, left: t.a as usize };
		let v = visitor.visit_map(&mut a)?;
		if a.left != 0 {
			return Err(TokErr);
		}
		Ok(v)
	}
	fn deserialize_enum<V: Visitor<'de>>(
		self,
		_name: &'static str,
		_variants: &'static [&'static str],
		visitor: V,
	) -> Result<V::Value, TokErr> {
		let t = self.take()?;
		if t.k == K::Variant { visitor.visit_enum(Enum { de: self, idx: t.a as u32 }) } else { Err(TokErr) }
	}
	/// struct field names (by_name mode)
	fn deserialize_identifier<V: Visitor<'de>>(self, visitor: V) -> Result<V::Value, TokErr> {
		let t = self.take()?;
		if t.k == K::Str { visitor.visit_borrowed_str(t.s) } else { Err(TokErr) }
	}

	fn deserialize_struct<V: Visitor<'de>>(
		self,
		_name: &'static str,
		fields: &'static [&'static str],
		visitor: V,
	) -> Result<V::Value, TokErr> {
		if self.by_name {
			return self.deserialize_any(visitor);
		}
		if !self.take()?.is(K::Struct, fields.len() as u64) {
			return Err(TokErr);
		}
		let mut a = Fields { de: self, fields, i: 0 };
		let v = visitor.visit_seq(&mut a)?;
		if a.i != fields.len() {
			return Err(TokErr);
		}
		Ok(v)
	}

	/// Unknown struct fields are an error in this format (`IgnoredAny` would
	/// recurse through every token kind; no stream used here has extra fields).
	fn deserialize_ignored_any<V: Visitor<'de>>(self, _visitor: V) -> Result<V::Value, TokErr> {
		Err(TokErr)
	}

	fn is_human_readable(&self) -> bool {
		false
	}
}

struct Elems<'a, 'de> {
	de: &'a mut De<'de>,
	left: usize,
}

impl<'a, 'de> de::SeqAccess<'de> for Elems<'a, 'de> {
	type Error = TokErr;
	fn next_element_seed<S: DeserializeSeed<'de>>(&mut self, seed: S) -> Result<Option<S::Value>, TokErr> {
		if self.left == 0 {
			return Ok(None);
		}
		self.left -= 1;
		seed.deserialize(&mut *self.de).map(Some)
	}
	fn size_hint(&self) -> Option<usize> {
		Some(self.left)
	}
}

impl<'a, 'de> de::MapAccess<'de> for Elems<'a, 'de> {
	type Error = TokErr;
	fn next_key_seed<S: DeserializeSeed<'de>>(&mut self, seed: S) -> Result<Option<S::Value>, TokErr> {
		if self.left == 0 {
			return Ok(None);
		}
		self.left -= 1;
		seed.deserialize(&mut *self.de).map(Some)
	}
	fn next_value_seed<S: DeserializeSeed<'de>>(&mut self, seed: S) -> Result<S::Value, TokErr> {
		seed.deserialize(&mut *self.de)
	}
	fn size_hint(&self) -> Option<usize> {
		Some(self.left)
	}
}

/// the fields of a struct in declaration order, each preceded by its name token
struct Fields<'a, 'de> {
	de: &'a mut De<'de>,
	fields: &'static [&'static str],
	i: usize,
}

impl<'a, 'de> de::SeqAccess<'de> for Fields<'a, 'de> {
	type Error = TokErr;
	fn next_element_seed<S: DeserializeSeed<'de>>(&mut self, seed: S) -> Result<Option<S::Value>, TokErr> {
		if self.i >= self.fields.len() {
			return Ok(None);
		}
		if !self.de.take()?.is_str(self.fields[self.i]) {
			return Err(TokErr);
		}
		self.i += 1;
		seed.deserialize(&mut *self.de).map(Some)
	}
	fn size_hint(&self) -> Option<usize> {
		Some(self.fields.len() - self.i)
	}
}

struct Enum<'a, 'de> {
	de: &'a mut De<'de>,
	idx: u32,
}

/// answers the variant identifier with its index
struct Idx(u32);
impl<'de> de::Deserializer<'de> for Idx {
	type Error = TokErr;
	fn deserialize_any<V: Visitor<'de>>(self, visitor: V) -> Result<V::Value, TokErr> {
		visitor.visit_u64(self.0 as u64)
	}
	serde::forward_to_deserialize_any! {
		bool i8 i16 i32 i64 i128 u8 u16 u32 u64 u128 f32 f64 char str string
		bytes byte_buf option unit unit_struct newtype_struct seq tuple
		tuple_struct map struct enum identifier ignored_any
	}
}

impl<'a, 'de> de::EnumAccess<'de> for Enum<'a, 'de> {
	type Error = TokErr;
	type Variant = &'a mut De<'de>;
	fn variant_seed<S: DeserializeSeed<'de>>(self, seed: S) -> Result<(S::Value, Self::Variant), TokErr> {
		let v = seed.deserialize(Idx(self.idx))?;
		Ok((v, self.de))
	}
}

impl<'a, 'de> de::VariantAccess<'de> for &'a mut De<'de> {
	type Error = TokErr;
	fn unit_variant(self) -> Result<(), TokErr> {
		if self.take()?.k == K::Unit {
			Ok(())
		} else {
			Err(TokErr)
		}
	}
	fn newtype_variant_seed<S: DeserializeSeed<'de>>(self, seed: S) -> Result<S::Value, TokErr> {
		seed.deserialize(self)
	}
	fn tuple_variant<V: Visitor<'de>>(self, len: usize, visitor: V) -> Result<V::Value, TokErr> {
		de::Deserializer::deserialize_tuple(self, len, visitor)
	}
	fn struct_variant<V: Visitor<'de>>(self, fields: &'static [&'static str], visitor: V) -> Result<V::Value, TokErr> {
		de::Deserializer::deserialize_struct(self, "", fields, visitor)
	}
}

#[cfg(test)]
mod tests {
	use super::*;
	use yata::core::{Action, Candle, Method, PeriodType, Source, Window};
	use yata::helpers::MA;
	use yata::methods::{Cross, EMA, SMA, SMM, WMA};
	use yata::prelude::*;

	fn rt<T: Serialize + for<'de> Deserialize<'de>, const N: usize>(x: &T) -> (Ser<N>, T, Ser<N>) {
		let a = to_tokens::<T, N>(x).unwrap();
		let y: T = from_tokens(a.toks()).unwrap();
		let b = to_tokens::<T, N>(&y).unwrap();
		assert_eq!(a.toks(), b.toks());
		(a, y, b)
	}

	#[test]
	fn window_u8() {
		let mut w: Window<u8> = Window::new(3, 7);
		w.push(1);
		w.push(2);
		let (a, mut v, _) = rt::<_, 16>(&w);
		assert_eq!(
			a.toks(),
			&[Tok::Struct(2), Tok::Str("buf"), Tok::Seq(3), Tok::U64(1), Tok::U64(2), Tok::U64(7), Tok::Str("index"), Tok::U64(2)]
		);
		for k in 0..3 {
			assert_eq!(w[k], v[k]);
		}
		for x in [9u8, 10, 11, 12] {
			assert_eq!(w.push(x), v.push(x));
		}
	}

	#[test]
	fn window_malformed() {
		let bad = [Tok::Struct(2), Tok::Str("buf"), Tok::Seq(2), Tok::U64(1), Tok::U64(2), Tok::Str("index"), Tok::U64(2)];
		assert!(from_tokens::<Window<u8>>(&bad).is_err());
		let empty = [Tok::Struct(2), Tok::Str("buf"), Tok::Seq(0), Tok::Str("index"), Tok::U64(0)];
		assert!(from_tokens::<Window<u8>>(&empty).is_err());
		let good = [Tok::Struct(2), Tok::Str("buf"), Tok::Seq(2), Tok::U64(1), Tok::U64(2), Tok::Str("index"), Tok::U64(1)];
		let w = from_tokens::<Window<u8>>(&good).unwrap();
		assert_eq!((w[0], w[1]), (1, 2));
		// fields in the other order, and as a plain sequence
		let swapped = [Tok::Struct(2), Tok::Str("index"), Tok::U64(1), Tok::Str("buf"), Tok::Seq(2), Tok::U64(1), Tok::U64(2)];
		assert!(from_tokens::<Window<u8>>(&swapped).is_err());
		let w = from_tokens_by_name::<Window<u8>>(&swapped).unwrap();
		assert_eq!((w[0], w[1]), (1, 2));
		let rle = [Tok::Struct(2), Tok::Str("buf"), Tok::Seq(254), Tok::Repeat(254), Tok::U64(9), Tok::Str("index"), Tok::U64(253)];
		let w = from_tokens::<Window<u8>>(&rle).unwrap();
		assert_eq!((w.len(), w[0], w[253]), (254, 9, 9));
		let rle = [Tok::Struct(2), Tok::Str("buf"), Tok::Seq(255), Tok::Repeat(255), Tok::U64(9), Tok::Str("index"), Tok::U64(0)];
		assert!(from_tokens::<Window<u8>>(&rle).is_err());
		let rle = [Tok::Seq(3), Tok::Repeat(2), Tok::U64(9), Tok::U64(1)];
		assert_eq!(from_tokens::<Vec<u8>>(&rle).unwrap(), vec![9, 9, 1]);
		let trailing = [Tok::Struct(2), Tok::Str("buf"), Tok::Seq(1), Tok::U64(1), Tok::Str("index"), Tok::U64(0), Tok::Unit];
		assert!(from_tokens::<Window<u8>>(&trailing).is_err());
		let oversized_index = [Tok::Struct(2), Tok::Str("buf"), Tok::Seq(1), Tok::U64(1), Tok::Str("index"), Tok::U64(70000 * 70000 * 70000)];
		assert!(from_tokens::<Window<u8>>(&oversized_index).is_err());
	}

	#[test]
	fn methods_and_configs() {
		let mut sma = SMA::new(4, &1.5).unwrap();
		sma.next(&2.0);
		sma.next(&-0.0);
		let (_, mut s2, _) = rt::<_, 64>(&sma);
		for x in [3.0, 4.5, 1e300, -7.0, 0.1] {
			assert_eq!(sma.next(&x).to_bits(), s2.next(&x).to_bits());
		}
		let mut smm = SMM::new(4, &1.5).unwrap();
		smm.next(&2.0);
		smm.next(&-3.0);
		let (_, mut m2, _) = rt::<_, 64>(&smm);
		for x in [3.0, 4.5, 1e300, -7.0, 0.1, 0.0, -0.0] {
			assert_eq!(smm.next(&x).to_bits(), m2.next(&x).to_bits());
		}
		let ema = EMA::new(5, &1.25).unwrap();
		rt::<_, 16>(&ema);
		let _ = rt::<_, 8>(&Action::Buy(3.into()));
		let _ = rt::<_, 8>(&Action::None);
		let _ = rt::<_, 8>(&Source::VolumedPrice);
		let _ = rt::<_, 8>(&MA::LinReg(7));
		let _ = rt::<_, 8>(&MA::TMA(254));
		let _ = rt::<_, 32>(&Candle { open: 1.0, high: 2.0, low: 0.5, close: 1.5, volume: 10.0 });
		let _ = rt::<_, 32>(&Cross::new((), &(1.0, 2.0)).unwrap());
		let cfg = yata::indicators::MACD::default();
		let (_, c2, _) = rt::<_, 64>(&cfg);
		assert_eq!(cfg.ma1, c2.ma1);
		assert_eq!(cfg.signal, c2.signal);
		let cfg = yata::indicators::Aroon::default();
		let (_, c2, _) = rt::<_, 64>(&cfg);
		assert_eq!(cfg.period, c2.period);
		// an indicator instance
		let cfg = yata::indicators::RSI::default();
		let c = Candle { open: 1.0, high: 2.0, low: 0.5, close: 1.5, volume: 10.0 };
		let mut inst = cfg.init(&c).unwrap();
		let c1 = Candle { open: 1.5, high: 3.0, low: 1.0, close: 2.5, volume: 11.0 };
		inst.next(&c1);
		let (_, mut i2, _) = rt::<_, 512>(&inst);
		let c2 = Candle { open: 2.5, high: 2.6, low: 1.0, close: 1.1, volume: 9.0 };
		let (a, b) = (inst.next(&c2), i2.next(&c2));
		assert_eq!(a.values()[0].to_bits(), b.values()[0].to_bits());
		assert_eq!(a.signals(), b.signals());
	}
}
