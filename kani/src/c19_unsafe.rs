//! C19 — `unsafe_performance` stays in bounds and changes nothing observable.
//!
//! These harnesses are meant for `--features up` (the registry also runs them on
//! the default build: both builds are then equal to the same definitional oracle,
//! hence to each other). Under `up` every `get_unchecked{,_mut}` in
//! src/core/window.rs carries std's safety precondition (`index < len`), which
//! Kani checks together with pointer validity; a failing "safety precondition" /
//! "dereference" check is a C19 counterexample.
//!
//! Premise of the property: only call sequences on which the default build does
//! not panic — no push/newest/oldest/Index on the empty window, no Index outside
//! 0..N.
use crate::util::*;
use yata::core::{PeriodType, Window};

#[cfg(not(any(feature = "p16", feature = "p32", feature = "p64")))]
const CAP: usize = 254;
#[cfg(any(feature = "p16", feature = "p32", feature = "p64"))]
const CAP: usize = 300;

/// three pushes from an arbitrary ring (two wrap positions at least for n <= 3),
/// then every observer that goes through an unchecked access
#[kani::proof]
#[kani::unwind(2)]
fn c19_push3_observers() {
	let (mut w, arr, n, idx) = any_ring::<CAP>();
	let x: [u8; 3] = kani::any();
	let o0 = w.push(x[0]);
	let o1 = w.push(x[1]);
	let o2 = w.push(x[2]);
	// abstract sequence after the pushes, oldest first: s[3..] ++ x  (last n of it)
	let at = |j: usize| -> u8 {
		// j-th oldest of the new window, j < n
		if j + 3 < n {
			seq(&arr, n, idx, j + 3)
		} else {
			x[j + 3 - n]
		}
	};
	// returned values: j-th oldest of (s ++ x)
	let ret = |j: usize| -> u8 {
		if j < n {
			seq(&arr, n, idx, j)
		} else {
			x[j - n]
		}
	};
	assert!(o0 == ret(0), "first push returns s[0]");
	assert!(o1 == ret(1), "second push returns the next oldest");
	assert!(o2 == ret(2), "third push returns the next oldest");
	assert!(*w.newest() == x[2], "newest after three pushes");
	assert!(*w.oldest() == at(0), "oldest after three pushes");
	let k: PeriodType = kani::any();
	if (k as usize) < n {
		let want = at(n - 1 - k as usize);
		assert!(w[k] == want, "w[k] after three pushes");
		assert!(w.get(k) == Some(&want), "get(k) after three pushes");
	} else {
		assert!(w.get(k).is_none(), "get outside 0..N after three pushes");
	}
	assert!(w.iter().next() == Some(&x[2]), "iter().next after three pushes");
	assert!(w.iter_rev().next() == Some(&at(0)), "iter_rev().next after three pushes");
	assert!(w.iter().last() == Some(&at(0)), "iter().last after three pushes");
	assert!(w.iter_rev().last() == Some(&x[2]), "iter_rev().last after three pushes");
	assert!(w.iter().count() == n && w.iter_rev().count() == n);
	assert!(w.len() as usize == n && w.as_slice().len() == n);
	kani::cover!(n == 1, "ring of one: every push wraps");
	kani::cover!(n == 2 && idx == 1, "ring of two");
	kani::cover!(n == CAP && idx == CAP - 2, "largest ring, wrap on the second push");
	kani::cover!((k as usize) == n - 1 && n > 3, "oldest slot read through Index");
}

const XCAP: usize = 8;

/// both iterators consumed to the end (every slot read through the unchecked
/// path in iteration order), then asked again: fused, nothing is read
#[kani::proof]
#[kani::unwind(10)]
fn c19_iter_exhausted() {
	let (w, arr, n, idx) = any_ring::<XCAP>();
	let mut it = w.iter();
	let mut i = 0;
	while i < n {
		assert!(it.next() == Some(&seq(&arr, n, idx, n - 1 - i)), "iter: i-th newest");
		i += 1;
	}
	assert!(it.next().is_none(), "iter: exhausted");
	assert!(it.next().is_none(), "iter: fused");
	assert!(it.size_hint() == (0, Some(0)), "iter: size_hint after the end");
	assert!(it.len() == 0);
	if kani::any() {
		assert!(it.last().is_none(), "iter: last after the end");
	} else {
		assert!(it.count() == 0, "iter: count after the end");
	}
	let mut it = w.iter_rev();
	let mut i = 0;
	while i < n {
		assert!(it.next() == Some(&seq(&arr, n, idx, i)), "iter_rev: i-th oldest");
		i += 1;
	}
	assert!(it.next().is_none(), "iter_rev: exhausted");
	assert!(it.next().is_none(), "iter_rev: fused");
	assert!(it.size_hint() == (0, Some(0)), "iter_rev: size_hint after the end");
	if kani::any() {
		assert!(it.last().is_none(), "iter_rev: last after the end");
	} else {
		assert!(it.count() == 0, "iter_rev: count after the end");
	}
	kani::cover!(n == XCAP && idx == XCAP - 1, "largest ring, last phase");
	kani::cover!(n == 1);
}

const PCAP: usize = 6;

/// a pushed-into ring, then fully consumed iterators (phase reached by pushes,
/// not by from_parts)
#[kani::proof]
#[kani::unwind(9)]
fn c19_new_push_iter() {
	let n: usize = kani::any();
	kani::assume(1 <= n && n <= PCAP);
	let v: u8 = kani::any();
	let mut w = Window::new(n as PeriodType, v);
	let p: usize = kani::any();
	kani::assume(p <= PCAP + 1);
	let xs: [u8; PCAP + 1] = kani::any();
	let mut i = 0;
	while i < p {
		let old = w.push(xs[i]);
		assert!(old == if i < n { v } else { xs[i - n] }, "push returns the value pushed n steps earlier");
		i += 1;
	}
	// k-th newest: xs[p-1-k] while k < p, else v
	let mut it = w.iter();
	let mut k = 0;
	while k < n {
		let want = if k < p { xs[p - 1 - k] } else { v };
		assert!(it.next() == Some(&want), "iter after p pushes");
		assert!(w[k as PeriodType] == want, "index after p pushes");
		k += 1;
	}
	assert!(it.next().is_none());
	assert!(it.last().is_none(), "consumed iter: last");
	kani::cover!(p == PCAP + 1 && n == PCAP, "one more push than the capacity");
	kani::cover!(p == 0);
	kani::cover!(n == 1 && p == 3);
}

/// Window::new(n, v), n symbolic 0..=CAP (incl. the empty window): every
/// observer the default build answers without a panic for that n
#[kani::proof]
#[kani::unwind(2)]
fn c19_new_observers() {
	let n: usize = kani::any();
	kani::assume(n <= CAP);
	let v: u8 = kani::any();
	let w = Window::new(n as PeriodType, v);
	let k: PeriodType = kani::any();
	assert!(w.len() as usize == n && w.is_empty() == (n == 0));
	assert!(w.get(k).copied() == if (k as usize) < n { Some(v) } else { None }, "get on a fresh window");
	assert!(w.iter().count() == n && w.iter_rev().count() == n);
	let some = if n > 0 { Some(v) } else { None };
	assert!(w.iter().next().copied() == some, "iter().next on a fresh window");
	assert!(w.iter_rev().next().copied() == some, "iter_rev().next on a fresh window");
	assert!(w.iter().last().copied() == some, "iter().last on a fresh window");
	assert!(w.iter_rev().last().copied() == some, "iter_rev().last on a fresh window");
	let mut it = w.iter();
	let _ = it.next();
	let _ = it.next();
	assert!(it.len() == n.saturating_sub(2), "two steps into a fresh window");
	let mut it = w.iter_rev();
	let _ = it.next();
	let _ = it.next();
	assert!(it.len() == n.saturating_sub(2));
	if n > 0 {
		assert!(*w.newest() == v && *w.oldest() == v);
		if (k as usize) < n {
			assert!(w[k] == v, "Index on a fresh window");
		}
	}
	kani::cover!(n == 0, "empty window through Window::new(0, v)");
	kani::cover!(n == 1);
	kani::cover!(n == CAP && (k as usize) == CAP - 1);
}
