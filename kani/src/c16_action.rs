//! C16 — Action is a consistent signed-strength algebra.
//!
//! Every domain is finite and fully symbolic: an action is (variant, u8 payload); the
//! ratio of `Buy(v)` / `Sell(v)` is `+v/255` / `-v/255`, so everything that the property
//! states about ratios of results of `neg` / `sub` / `eq` is decided exactly on the signed
//! integer payload `sp(a)` in -255..=255 (no float miter).  Conversions from floats run on
//! unrestricted bit patterns (NaN, infinities, subnormals, both zeros).
use std::cmp::Ordering;
use yata::core::{Action, ValueType};

/// every one of the 513 actions: variant symbolic, payload symbolic
fn any_action() -> Action {
	let k: u8 = kani::any();
	let v: u8 = kani::any();
	kani::assume(k < 3);
	match k {
		0 => Action::Buy(v),
		1 => Action::Sell(v),
		_ => Action::None,
	}
}

/// any action with a signal
fn any_signal() -> Action {
	let v: u8 = kani::any();
	if kani::any() {
		Action::Buy(v)
	} else {
		Action::Sell(v)
	}
}

/// signed payload: ratio(a) * 255 as an exact integer; None when there is no signal
fn sp(a: Action) -> Option<i32> {
	match a {
		Action::Buy(v) => Some(v as i32),
		Action::Sell(v) => Some(-(v as i32)),
		Action::None => None,
	}
}

/// signed payload with "no signal counts as zero"
fn sp0(a: Action) -> i32 {
	sp(a).unwrap_or(0)
}

fn is_buy(a: Action) -> bool {
	matches!(a, Action::Buy(_))
}
fn is_sell(a: Action) -> bool {
	matches!(a, Action::Sell(_))
}
/// same variant and same payload (stronger than `==`, which identifies Buy(0) and Sell(0))
fn same(a: Action, b: Action) -> bool {
	match (a, b) {
		(Action::Buy(x), Action::Buy(y)) | (Action::Sell(x), Action::Sell(y)) => x == y,
		(Action::None, Action::None) => true,
		_ => false,
	}
}

fn sgn(x: i32) -> i8 {
	if x > 0 {
		1
	} else if x < 0 {
		-1
	} else {
		0
	}
}

// ---------------------------------------------------------------------------------------
// conversions from floats

macro_rules! from_float {
	($name:ident, $mono:ident, $t:ty) => {
		/// total, NaN -> None, sign, saturation: one unrestricted bit pattern
		#[kani::proof]
		#[kani::unwind(2)]
		fn $name() {
			let x: $t = kani::any();
			let a = Action::from(x);
			if x.is_nan() {
				assert!(a.is_none() && !a.is_some(), "from float: NaN is no signal");
				assert!(a.ratio().is_none() && a.sign().is_none() && a.analog() == 0, "from float: NaN has no ratio");
			} else {
				assert!(a.is_some() && !a.is_none(), "from float: every non-NaN value is a signal");
				let s = sp(a).unwrap();
				if x > 0.0 {
					assert!(is_buy(a) && s >= 0, "from float: positive input is Buy");
				}
				if x < 0.0 {
					assert!(is_sell(a) && s <= 0, "from float: negative input is Sell");
				}
				if x == 0.0 {
					assert!(s == 0, "from float: zero has zero strength");
					assert!(a == Action::Buy(0) && a == Action::Sell(0), "from float: zero equals Buy(0)");
				}
				if x >= 1.0 {
					assert!(same(a, Action::BUY_ALL), "from float: values >= 1 saturate to BUY_ALL");
				}
				if x <= -1.0 {
					assert!(same(a, Action::SELL_ALL), "from float: values <= -1 saturate to SELL_ALL");
				}
				assert!(a.analog() == sgn(s) && a.sign() == Some(sgn(s)), "from float: analog/sign follow the payload sign");
			}
			// the Option form
			let o: Option<$t> = if kani::any() { Some(x) } else { None };
			let c = Action::from(o);
			match o {
				Some(_) => assert!(same(c, a), "from Option<float>: Some(x) as x"),
				None => assert!(c.is_none(), "from Option<float>: None is no signal"),
			}
			// the reference form
			assert!(same(Action::from(&x), a), "from &float");
			kani::cover!(x.is_nan(), "NaN input");
			kani::cover!(x.is_infinite() && x < 0.0, "-inf input");
			kani::cover!(x == 0.0 && x.is_sign_negative(), "-0.0 input");
			kani::cover!(x != 0.0 && x.abs() < <$t>::MIN_POSITIVE, "subnormal input");
			kani::cover!(x > 0.0 && x < 1.0 && sp(a) == Some(255), "rounding up to full strength below 1.0");
			kani::cover!(x < 0.0 && x > -1.0 && sp(a) == Some(-128), "mid-strength sell");
		}

		/// monotone: two unrestricted bit patterns
		#[kani::proof]
		#[kani::unwind(2)]
		fn $mono() {
			let x: $t = kani::any();
			let y: $t = kani::any();
			kani::assume(x <= y); // excludes NaN on either side
			let a = Action::from(x);
			let b = Action::from(y);
			assert!(a.is_some() && b.is_some(), "from float monotone: both are signals");
			assert!(sp0(a) <= sp0(b), "from float: monotone");
			kani::cover!(x < y && x > 0.0 && y < 1.0 && sp(a) == sp(b), "two inputs in one bucket");
			kani::cover!(x < 0.0 && y > 0.0 && sp(a) == Some(-3) && sp(b) == Some(4), "across zero");
			kani::cover!(x == 0.0 && y == 0.0 && x.is_sign_positive() && y.is_sign_negative(), "+0.0 <= -0.0");
		}
	};
}

from_float!(c16_from_f64_total, c16_from_f64_monotone, f64);
from_float!(c16_from_f32_total, c16_from_f32_monotone, f32);

/// strength is a nearest integer to |x| * 255 (break points at the half values, as
/// action::tests::test_action_from_float_histogram expects): every f64 in [-1, 1]
#[kani::proof]
#[kani::unwind(2)]
fn c16_from_f64_nearest() {
	let x: f64 = kani::any();
	kani::assume(-1.0 <= x && x <= 1.0);
	let s = sp(Action::from(x)).unwrap();
	let y = x * 255.0;
	let d = y - s as f64;
	assert!(-0.5 <= d && d <= 0.5, "from float: strength is the nearest integer to |x|*255");
	kani::cover!(d == 0.5 && s == -8, "negative half value rounds away from zero");
	kani::cover!(d == -0.5 && s == 8, "positive half value rounds away from zero");
	kani::cover!(s == -254 && d < -0.49, "near the last break point");
}

/// From<f32> is From<f64> of the widened value (all 2^32 patterns)
#[kani::proof]
#[kani::unwind(2)]
fn c16_f32_widening() {
	let x: f32 = kani::any();
	let a = Action::from(x);
	let b = Action::from(x as f64);
	assert!(same(a, b), "from f32: same as from the widened f64");
	kani::cover!(a.is_none(), "NaN");
	kani::cover!(sp(a) == Some(-77), "some sell strength");
}

// ---------------------------------------------------------------------------------------
// ratio

/// ratio() of every action: range, sign, strictly monotone in the signed payload, exact ends
#[kani::proof]
#[kani::unwind(2)]
fn c16_ratio_range() {
	let a = any_action();
	let b = any_action();
	let ra = a.ratio();
	let conv: Option<ValueType> = a.into();
	assert!(ra == conv, "ratio: is the Into<Option<ValueType>> conversion");
	match sp(a) {
		None => assert!(ra.is_none(), "ratio: no signal has no ratio"),
		Some(s) => {
			assert!(ra.is_some(), "ratio: every signal has a ratio");
			let r = ra.unwrap();
			assert!(-1.0 <= r && r <= 1.0, "ratio: inside [-1, 1]");
			assert!((r > 0.0) == (s > 0) && (r < 0.0) == (s < 0) && (r == 0.0) == (s == 0), "ratio: sign is the payload sign");
			assert!((r == 1.0) == (s == 255) && (r == -1.0) == (s == -255), "ratio: +-1 exactly at full strength");
			if let Some(t) = sp(b) {
				let q = b.ratio().unwrap();
				assert!((s < t) == (r < q) && (s == t) == (r == q), "ratio: strictly monotone in the signed payload");
			}
		}
	}
	kani::cover!(sp(a) == Some(-255), "SELL_ALL");
	kani::cover!(sp(a) == Some(0) && is_sell(a), "Sell(0)");
	kani::cover!(a.is_none(), "None");
	kani::cover!(sp(a) == Some(3) && sp(b) == Some(4), "neighbours");
}

/// from(ratio(a)) == a for every action (ValueType path)
#[kani::proof]
#[kani::unwind(2)]
fn c16_ratio_roundtrip() {
	let a = any_action();
	let r = a.ratio();
	let b: Action = r.into();
	assert!(b == a && a == b, "roundtrip: from(ratio(a)) == a");
	assert!(sp(b) == sp(a), "roundtrip: same signed payload");
	if let Some(x) = r {
		let c: Action = x.into();
		assert!(c == a, "roundtrip: from(ratio(a).unwrap()) == a");
		if sp(a) != Some(0) {
			assert!(same(c, a), "roundtrip: same variant and payload");
		}
	}
	kani::cover!(sp(a) == Some(127), "Buy(127)");
	kani::cover!(sp(a) == Some(-254), "Sell(254)");
	kani::cover!(is_sell(a) && sp(a) == Some(0), "Sell(0)");
	kani::cover!(a.is_none(), "None");
}

// ---------------------------------------------------------------------------------------
// integers, bool, analog / sign / value

/// From<i8>, Option<i8>, bool, from_analog, &T: every i8
#[kani::proof]
#[kani::unwind(2)]
fn c16_from_int() {
	let s: i8 = kani::any();
	let t: i8 = kani::any();
	let a = Action::from(s);
	let want = if s > 0 {
		Action::BUY_ALL
	} else if s < 0 {
		Action::SELL_ALL
	} else {
		Action::None
	};
	assert!(same(a, want), "from i8: sign decides BUY_ALL / None / SELL_ALL");
	assert!(same(Action::from_analog(s), want), "from_analog");
	assert!(same(Action::from(&s), want), "from &i8");
	assert!(a.analog() == sgn(s as i32), "from i8: analog is the sign");
	if s <= t {
		assert!(sp0(a) <= sp0(Action::from(t)), "from i8: monotone");
	}
	let o: Option<i8> = if kani::any() { Some(s) } else { None };
	match o {
		Some(_) => assert!(same(Action::from(o), want), "from Option<i8>: Some"),
		None => assert!(Action::from(o).is_none(), "from Option<i8>: None"),
	}
	let f: bool = kani::any();
	assert!(same(Action::from(f), if f { Action::BUY_ALL } else { Action::None }), "from bool");
	assert!(Action::default().is_none(), "default is no signal");
	kani::cover!(s == i8::MIN, "i8::MIN");
	kani::cover!(s == 0, "zero");
	kani::cover!(s == 1, "one");
}

/// analog / sign / value / is_none / is_some of every action
#[kani::proof]
#[kani::unwind(2)]
fn c16_analog_sign() {
	let a = any_action();
	let an: i8 = a.into();
	let sg: Option<i8> = a.into();
	assert!(a.analog() == an && a.sign() == sg, "analog/sign are the Into conversions");
	match sp(a) {
		None => {
			assert!(a.analog() == 0, "analog: no signal is 0");
			assert!(a.sign().is_none(), "sign: no signal is None");
			assert!(a.value().is_none() && a.is_none() && !a.is_some(), "value: no signal");
		}
		Some(s) => {
			assert!(a.analog() == sgn(s), "analog: sign of the ratio");
			assert!(a.sign() == Some(sgn(s)), "sign: sign of the ratio");
			assert!(a.value() == Some(s.unsigned_abs() as u8), "value: the payload");
			assert!(a.is_some() && !a.is_none(), "is_some");
		}
	}
	// the sign of the float ratio, too
	if let Some(r) = a.ratio() {
		let want = if r > 0.0 {
			1
		} else if r < 0.0 {
			-1
		} else {
			0
		};
		assert!(a.analog() == want && a.sign() == Some(want), "analog/sign agree with the sign of ratio()");
	}
	kani::cover!(sp(a) == Some(0) && is_buy(a), "Buy(0)");
	kani::cover!(sp(a) == Some(-1), "Sell(1)");
	kani::cover!(a.is_none(), "None");
}

// ---------------------------------------------------------------------------------------
// negation

#[kani::proof]
#[kani::unwind(2)]
fn c16_neg() {
	let a = any_action();
	let n = -a;
	assert!(same(-n, a), "neg: involution");
	assert!(sp(n) == sp(a).map(|s| -s), "neg: negates the signed payload");
	assert!(n.is_none() == a.is_none(), "neg: no signal stays no signal");
	assert!(n.analog() == -a.analog(), "neg: negates analog");
	match (a.ratio(), n.ratio()) {
		(Some(x), Some(y)) => assert!(y == -x, "neg: negates the ratio"),
		(None, None) => {}
		_ => assert!(false, "neg: ratio exists iff it existed"),
	}
	kani::cover!(sp(a) == Some(200), "Buy(200)");
	kani::cover!(sp(a) == Some(0) && is_sell(a), "Sell(0)");
	kani::cover!(a.is_none(), "None");
}

// ---------------------------------------------------------------------------------------
// subtraction.  Expected: sp0(a - b) == clamp(sp0(a) - sp0(b), -255, 255)

fn clamp255(x: i32) -> i32 {
	if x > 255 {
		255
	} else if x < -255 {
		-255
	} else {
		x
	}
}

/// the class on which the rule holds: at least one side is None, or both sides have the
/// same direction, or the right side has zero strength
#[kani::proof]
#[kani::unwind(4)]
fn c16_sub_same_sign_or_none() {
	let a = any_action();
	let b = any_action();
	let mixed = (is_buy(a) && is_sell(b)) || (is_sell(a) && is_buy(b));
	kani::assume(!mixed || sp(b) == Some(0));
	let d = a - b;
	assert!(sp0(d) == clamp255(sp0(a) - sp0(b)), "sub: ratio of a-b is clamp(ratio a - ratio b)");
	if a.is_none() && b.is_none() {
		assert!(d.is_none(), "sub: none - none is none");
	} else {
		assert!(d.is_some(), "sub: a signal minus anything / anything minus a signal is a signal");
	}
	kani::cover!(sp(a) == Some(10) && sp(b) == Some(30), "Buy - larger Buy changes direction");
	kani::cover!(sp(a) == Some(-200) && sp(b) == Some(-10), "Sell - Sell");
	kani::cover!(a.is_none() && sp(b) == Some(-7), "None - Sell");
	kani::cover!(sp(a) == Some(5) && b.is_none(), "Buy - None");
	kani::cover!(mixed, "mixed directions with zero right side");
}

/// D3 class: opposite directions and a right side of non-zero strength
/// (covers sit before the assertion: on the unfixed code every input of the class fails)
#[kani::proof]
#[kani::unwind(4)]
fn c16_sub_mixed_sign() {
	let a = any_signal();
	let b = any_signal();
	kani::assume((is_buy(a) && is_sell(b)) || (is_sell(a) && is_buy(b)));
	kani::assume(sp(b) != Some(0));
	let d = a - b;
	kani::cover!(sp(a) == Some(100) && sp(b) == Some(-50), "Buy(100) - Sell(50)");
	kani::cover!(sp(a) == Some(-200) && sp(b) == Some(200), "saturating Sell - Buy");
	assert!(sp0(d) == clamp255(sp0(a) - sp0(b)), "sub mixed: ratio of a-b is clamp(ratio a - ratio b)");
}

/// what mixed-direction subtraction does guarantee even with D3: never panics, the result
/// is a signal and it equals the same-direction difference (documents the defect exactly)
#[kani::proof]
#[kani::unwind(4)]
fn c16_sub_mixed_sign_total() {
	let a = any_signal();
	let b = any_signal();
	kani::assume((is_buy(a) && is_sell(b)) || (is_sell(a) && is_buy(b)));
	let d = a - b;
	assert!(d.is_some(), "sub mixed: total, result is a signal");
	assert!(-255 <= sp0(d) && sp0(d) <= 255, "sub mixed: payload range");
	kani::cover!(sp(a) == Some(255) && sp(b) == Some(-255), "BUY_ALL - SELL_ALL");
}

// ---------------------------------------------------------------------------------------
// equality

/// PartialEq is an equivalence relation (three symbolic actions) and identifies exactly
/// the actions with the same ratio
#[kani::proof]
#[kani::unwind(2)]
fn c16_eq_equivalence() {
	let a = any_action();
	let b = any_action();
	let c = any_action();
	assert!(a == a, "eq: reflexive");
	assert!((a == b) == (b == a), "eq: symmetric");
	if a == b && b == c {
		assert!(a == c, "eq: transitive");
	}
	assert!((a != b) == !(a == b), "eq: ne is not eq");
	assert!((a == b) == (sp(a) == sp(b)), "eq: equal iff same ratio (Buy(0) == Sell(0), None only equals None)");
	kani::cover!(a == b && b == c && !same(a, c), "Buy(0) / Sell(0) chain");
	kani::cover!(a == b && a.is_none(), "None == None");
	kani::cover!(a != b && sp0(a) == 0 && sp0(b) == 0, "None vs zero strength");
}

// ---------------------------------------------------------------------------------------
// ordering vs equality.  Contract (std::cmp): a == b iff partial_cmp(a, b) == Some(Equal);
// cmp is a total order.

fn zero_pair(a: Action, b: Action) -> bool {
	(same(a, Action::Buy(0)) && same(b, Action::Sell(0))) || (same(a, Action::Sell(0)) && same(b, Action::Buy(0)))
}

/// total order laws of cmp on three symbolic actions; partial_cmp agrees with cmp
#[kani::proof]
#[kani::unwind(2)]
fn c16_ord_total_order() {
	let a = any_action();
	let b = any_action();
	let c = any_action();
	assert!(a.cmp(&a) == Ordering::Equal, "ord: reflexive");
	assert!(a.cmp(&b) == b.cmp(&a).reverse(), "ord: antisymmetric");
	if a.cmp(&b) != Ordering::Greater && b.cmp(&c) != Ordering::Greater {
		assert!(a.cmp(&c) != Ordering::Greater, "ord: transitive");
	}
	if a.cmp(&b) == Ordering::Equal && b.cmp(&c) == Ordering::Equal {
		assert!(a.cmp(&c) == Ordering::Equal, "ord: Equal is transitive");
	}
	assert!(a.partial_cmp(&b) == Some(a.cmp(&b)), "ord: partial_cmp is cmp");
	assert!((a < b) == (a.cmp(&b) == Ordering::Less) && (a <= b) == (a.cmp(&b) != Ordering::Greater), "ord: operators follow cmp");
	assert!((a > b) == (a.cmp(&b) == Ordering::Greater) && (a >= b) == (a.cmp(&b) != Ordering::Less), "ord: operators follow cmp (2)");
	kani::cover!(a.cmp(&b) == Ordering::Less && b.cmp(&c) == Ordering::Less, "chain of three");
	kani::cover!(a.cmp(&b) == Ordering::Equal && a.is_none(), "equal Nones");
}

/// consistency of the order with equality outside the Buy(0)/Sell(0) pair
#[kani::proof]
#[kani::unwind(2)]
fn c16_ord_eq_consistent() {
	let a = any_action();
	let b = any_action();
	let c = any_action();
	kani::assume(!zero_pair(a, b));
	assert!((a == b) == (a.cmp(&b) == Ordering::Equal), "ord: a == b iff cmp(a,b) is Equal");
	assert!((a == b) == (a.partial_cmp(&b) == Some(Ordering::Equal)), "ord: a == b iff partial_cmp(a,b) is Some(Equal)");
	if a == b {
		assert!(a.cmp(&c) == b.cmp(&c), "ord: equal actions compare alike against any third");
	}
	kani::cover!(a == b && is_sell(a), "equal sells");
	kani::cover!(a != b && sp0(a) == sp0(b), "None vs zero strength");
	kani::cover!(sp(a) == Some(0) && sp(b) == Some(0), "same-variant zeros");
}

/// D4 class: {a, b} = {Buy(0), Sell(0)}
/// (covers sit before the assertions: on the unfixed code every input of the class fails)
#[kani::proof]
#[kani::unwind(2)]
fn c16_ord_eq_zero_pair() {
	let (a, b) = if kani::any() { (Action::Buy(0), Action::Sell(0)) } else { (Action::Sell(0), Action::Buy(0)) };
	let c = any_action();
	assert!(a == b, "ord zero: Buy(0) == Sell(0)");
	kani::cover!(c.is_none(), "third is None");
	kani::cover!(is_sell(a), "Sell(0) first");
	if kani::any() {
		assert!(a.cmp(&b) == Ordering::Equal, "ord zero: a == b implies cmp(a,b) is Equal");
		assert!(a.partial_cmp(&b) == Some(Ordering::Equal), "ord zero: a == b implies partial_cmp(a,b) is Some(Equal)");
		assert!(!(a < b) && !(a > b), "ord zero: equal actions are neither less nor greater");
	} else {
		assert!(a.cmp(&c) == b.cmp(&c), "ord zero: equal actions compare alike against any third");
	}
}
