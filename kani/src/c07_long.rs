//! C07 part (a), K — nothing changes for the extremum / arg-extremum methods when the
//! stream gets longer than PeriodType::MAX (255) steps.
//!
//! Counters that exist in these methods (read from the source):
//!   HighestIndex/LowestIndex: `index: PeriodType` = age of the cached extremum; it is
//!     incremented once per step and reset to 0 / to the rescan result as soon as it
//!     reaches `window.len()`, so it never exceeds the window length (<= 254).
//!   Highest/Lowest/HighestLowestDelta: no counter of their own.
//!   All of them: `Window::index` (ring position, wraps at the window length).
//! There is therefore no counter that can reach 255 by itself; what the harnesses decide
//! is the statement of the property: after more than 255 steps the outputs still equal
//! the from-scratch definition on the last N inputs.
//! (A variant with the largest admissible window, 254, where the age counter runs up to
//! 253 -> 254, was tried: 2.7 M SAT variables, kani-driver ran out of memory under a 26 GB
//! limit after ~1200 s without a verdict; it is not registered.)
//!
//! Stream: PRE concrete inputs (a fixed non-monotone integer pattern: ties, ramps up and
//! down, constant-propagated by CBMC), then TAIL unrestricted finite symbolic inputs.
//! The definitional check is made at EVERY step (concrete ones fold away).
use crate::c04_select::{is_max, is_min, is_newest_argmax, is_newest_argmin};
use crate::util::*;
use yata::core::{Method, PeriodType, ValueType};
use yata::helpers::Peekable;
use yata::methods::{Highest, HighestIndex, Lowest, LowestIndex};

/// fixed pattern with ties, rises and falls: period 22, values -5..=5
fn pat(i: usize) -> ValueType {
	let p = i % 22;
	let q = if p < 11 { (p * 7) % 11 } else { 21 - p };
	(q as i32 - 5) as ValueType
}

macro_rules! c07_long {
	($name:ident, $ty:ident, $check:ident, $idx:expr, $n:expr, $pre:expr, $tail:expr, $u:expr) => {
		#[kani::proof]
		#[kani::unwind($u)]
		fn $name() {
			const N: usize = $n;
			const PRE: usize = $pre;
			const T: usize = $pre + $tail;
			const L: usize = N + T;
			let mut h = [pat(0); L];
			let mut m = $ty::new(N as PeriodType, &h[0]).unwrap();
			let (mut late_old, mut late_new) = (false, false);
			let mut k = 1;
			while k <= T {
				let x = if k <= PRE { pat(k) } else { any_finite() };
				h[k + N - 1] = x;
				let r = m.next(&x);
				let w = &h[k..k + N];
				assert!($check(w, r as _), "long stream: output equals the definition on the last N inputs");
				assert!($check(w, m.peek() as _), "long stream: peek equals the definition on the last N inputs");
				if k > 256 {
					if $idx {
						late_old |= r as usize == N - 1;
						late_new |= r as usize == 0;
					} else {
						late_old |= r as ValueType == w[0] && (N == 1 || w[0] != w[1]);
						late_new |= r as ValueType == w[N - 1] && (N == 1 || w[N - 1] != w[0]);
					}
				}
				k += 1;
			}
			kani::cover!(late_old, "after step 256: extremum at the oldest slot");
			kani::cover!(late_new, "after step 256: extremum at the newest slot");
		}
	};
}

c07_long!(c07_long_highest_index_n3, HighestIndex, is_newest_argmax, true, 3, 252, 10, 263);
c07_long!(c07_long_lowest_index_n3, LowestIndex, is_newest_argmin, true, 3, 252, 10, 263);
c07_long!(c07_long_highest_n3, Highest, is_max, false, 3, 252, 10, 263);
c07_long!(c07_long_lowest_n3, Lowest, is_min, false, 3, 252, 10, 263);
