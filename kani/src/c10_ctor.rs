//! C10 — invalid parameters are rejected with an error; constructors never panic.
//!
//! K part: every constructor with symbolic parameters.  The call has to RETURN
//! (panics, integer overflow and failed debug assertions are Kani's built-in
//! checks) and has to return `Err` for the lengths the constructor documents as
//! too small.  Where the real code panics for a value class (length 255, ...)
//! the class has its own harness (`*_255`, keyed in known_findings.json) and the
//! complement harness passes.
use crate::util::*;
use core::str::FromStr;
use yata::core::{
	Candle, Error, IndicatorConfig, Method, MovingAverageConstructor, PeriodType, Source, ValueType,
	Window, OHLCV,
};
use yata::helpers::MA;
use yata::methods::*;

const MAXP: PeriodType = PeriodType::MAX;

/// the concrete valid first candle used wherever a candle is an input, not a parameter
const CANDLE: Candle = Candle {
	open: 1.0,
	high: 1.5,
	low: 0.5,
	close: 1.2,
	volume: 10.0,
};

fn any_source() -> Source {
	let k: u8 = kani::any();
	kani::assume(k < 8);
	match k {
		0 => Source::Close,
		1 => Source::Open,
		2 => Source::High,
		3 => Source::Low,
		4 => Source::HL2,
		5 => Source::TP,
		6 => Source::Volume,
		_ => Source::VolumedPrice,
	}
}

/// valid candle with symbolic finite fields in [0.01, 1e6]
fn any_candle() -> Candle {
	let f = || {
		let x: ValueType = kani::any();
		kani::assume(x >= 0.01 && x <= 1e6);
		x
	};
	let c = Candle {
		open: f(),
		high: f(),
		low: f(),
		close: f(),
		volume: f(),
	};
	kani::assume(c.low <= c.open && c.low <= c.close && c.open <= c.high && c.close <= c.high);
	c
}

// ---------------------------------------------------------------------------
// 1. method constructors with one length parameter

/// `M::new(n, &input)` for every n in lo..=hi returns; n < minok => Err.
/// `okw` is a length inside lo..=hi for which Ok is witnessed (vacuity).
macro_rules! len_ctor {
	($name:ident, $M:ty, $lo:expr, $hi:expr, unwind $unw:expr, minok $minok:expr, okw $okw:expr, $inp:expr) => {
		#[kani::proof]
		#[kani::unwind($unw)]
		fn $name() {
			let n: PeriodType = kani::any();
			kani::assume($lo <= n && n <= $hi);
			let v = $inp;
			let r = <$M as Method>::new(n, &v);
			assert!(n >= $minok || r.is_err(), "documented too-small length is rejected");
			kani::cover!(n == $lo, "returned at the lower end of the range");
			kani::cover!(n == $hi, "returned at the upper end of the range");
			kani::cover!(n == $okw && r.is_ok(), "Ok witnessed");
		}
	};
	// range without any accepted length
	($name:ident, $M:ty, $lo:expr, $hi:expr, unwind $unw:expr, minok $minok:expr, nook, $inp:expr) => {
		#[kani::proof]
		#[kani::unwind($unw)]
		fn $name() {
			let n: PeriodType = kani::any();
			kani::assume($lo <= n && n <= $hi);
			let v = $inp;
			let r = <$M as Method>::new(n, &v);
			assert!(n >= $minok || r.is_err(), "documented too-small length is rejected");
			kani::cover!(n == $lo, "returned at the lower end of the range");
			kani::cover!(n == $hi, "returned at the upper end of the range");
		}
	};
}

/// the value class for which the real constructor currently does not return:
/// the witness is placed before the call (the class is not empty)
macro_rules! len_ctor_class {
	($name:ident, $M:ty, $n:expr, unwind $unw:expr, $inp:expr) => {
		#[kani::proof]
		#[kani::unwind($unw)]
		fn $name() {
			let n: PeriodType = $n;
			let v = $inp;
			kani::cover!(true, "value class reachable");
			let r = <$M as Method>::new(n, &v);
			// Ok or Err: both fine, it only has to come back
			let _ = r.is_ok();
		}
	};
}

// window-backed, `0 => Err`, no guard against PeriodType::MAX
len_ctor!(c10_sma_new_rng, SMA, 0, 254, unwind 256, minok 1, okw 254, any_val());
len_ctor_class!(c10_sma_new_255, SMA, 255, unwind 257, any_val());
len_ctor!(c10_wma_new_rng, WMA, 0, 254, unwind 256, minok 1, okw 254, any_val());
len_ctor_class!(c10_wma_new_255, WMA, 255, unwind 257, any_val());
// full range 0..=254 exceeds 16 GB: four chunks
len_ctor!(c10_smm_new_a, SMM, 0, 64, unwind 66, minok 1, okw 64, any_val());
len_ctor!(c10_smm_new_b, SMM, 65, 128, unwind 130, minok 1, okw 128, any_val());
len_ctor!(c10_smm_new_c, SMM, 129, 192, unwind 194, minok 1, okw 192, any_val());
len_ctor!(c10_smm_new_d, SMM, 193, 254, unwind 256, minok 1, okw 254, any_val());
len_ctor_class!(c10_smm_new_255, SMM, 255, unwind 257, any_val());
// symbolic first value only up to length 128 (129..=192 exceeds 16 GB, 193..=254 > 900 s);
// all lengths with first value 0.0: c10_z_hma_new
len_ctor!(c10_hma_new_a, HMA, 0, 64, unwind 66, minok 2, okw 64, any_val());
len_ctor!(c10_hma_new_b, HMA, 65, 128, unwind 130, minok 2, okw 128, any_val());
len_ctor_class!(c10_hma_new_255, HMA, 255, unwind 257, any_val());
len_ctor!(c10_linreg_new_rng, LinReg, 0, 254, unwind 256, minok 2, okw 254, any_val());
len_ctor_class!(c10_linreg_new_255, LinReg, 255, unwind 257, any_val());
len_ctor!(c10_swma_new_rng, SWMA, 0, 254, unwind 256, minok 1, okw 254, any_val());
len_ctor_class!(c10_swma_new_255, SWMA, 255, unwind 257, any_val());
len_ctor!(c10_trima_new_rng, TRIMA, 0, 254, unwind 256, minok 1, okw 254, any_val());
len_ctor_class!(c10_trima_new_255, TRIMA, 255, unwind 257, any_val());
len_ctor!(c10_vwma_new_rng, VWMA, 0, 254, unwind 256, minok 1, okw 254, (any_val(), any_val()));
len_ctor_class!(c10_vwma_new_255, VWMA, 255, unwind 257, (any_val(), any_val()));
len_ctor!(c10_momentum_new_rng, Momentum, 0, 254, unwind 256, minok 1, okw 254, any_val());
len_ctor_class!(c10_momentum_new_255, Momentum, 255, unwind 257, any_val());
len_ctor!(c10_roc_new_rng, RateOfChange, 0, 254, unwind 256, minok 1, okw 254, any_val());
len_ctor_class!(c10_roc_new_255, RateOfChange, 255, unwind 257, any_val());
len_ctor!(c10_derivative_new_rng, Derivative, 0, 254, unwind 256, minok 1, okw 254, any_val());
len_ctor_class!(c10_derivative_new_255, Derivative, 255, unwind 257, any_val());
len_ctor!(c10_stdev_new_rng, StDev, 0, 254, unwind 256, minok 2, okw 254, any_val());
len_ctor_class!(c10_stdev_new_255, StDev, 255, unwind 257, any_val());
len_ctor!(c10_meanabsdev_new_rng, MeanAbsDev, 0, 254, unwind 256, minok 1, okw 254, any_val());
len_ctor_class!(c10_meanabsdev_new_255, MeanAbsDev, 255, unwind 257, any_val());
// full range 0..=254 exceeds 16 GB: four chunks
len_ctor!(c10_medianabsdev_new_a, MedianAbsDev, 0, 64, unwind 66, minok 2, okw 64, any_val());
len_ctor!(c10_medianabsdev_new_b, MedianAbsDev, 65, 128, unwind 130, minok 2, okw 128, any_val());
len_ctor!(c10_medianabsdev_new_c, MedianAbsDev, 129, 192, unwind 194, minok 2, okw 192, any_val());
len_ctor!(c10_medianabsdev_new_d, MedianAbsDev, 193, 254, unwind 256, minok 2, okw 254, any_val());
len_ctor_class!(c10_medianabsdev_new_255, MedianAbsDev, 255, unwind 257, any_val());
len_ctor!(c10_cci_new_rng, CCI, 0, 254, unwind 256, minok 1, okw 254, any_val());
len_ctor_class!(c10_cci_new_255, CCI, 255, unwind 257, any_val());
len_ctor!(c10_linvol_new_rng, LinearVolatility, 0, 254, unwind 256, minok 1, okw 254, any_val());
len_ctor_class!(c10_linvol_new_255, LinearVolatility, 255, unwind 257, any_val());
len_ctor!(c10_highest_new_rng, Highest, 0, 254, unwind 256, minok 1, okw 254, any_val());
len_ctor_class!(c10_highest_new_255, Highest, 255, unwind 257, any_val());
len_ctor!(c10_lowest_new_rng, Lowest, 0, 254, unwind 256, minok 1, okw 254, any_val());
len_ctor_class!(c10_lowest_new_255, Lowest, 255, unwind 257, any_val());
len_ctor!(c10_hldelta_new_rng, HighestLowestDelta, 0, 254, unwind 256, minok 1, okw 254, any_val());
len_ctor_class!(c10_hldelta_new_255, HighestLowestDelta, 255, unwind 257, any_val());
len_ctor!(c10_highestindex_new_rng, HighestIndex, 0, 254, unwind 256, minok 1, okw 254, any_val());
len_ctor_class!(c10_highestindex_new_255, HighestIndex, 255, unwind 257, any_val());
len_ctor!(c10_lowestindex_new_rng, LowestIndex, 0, 254, unwind 256, minok 1, okw 254, any_val());
len_ctor_class!(c10_lowestindex_new_255, LowestIndex, 255, unwind 257, any_val());
len_ctor!(c10_past_new_rng, Past<ValueType>, 0, 254, unwind 256, minok 1, okw 254, any_val());
len_ctor_class!(c10_past_new_255, Past<ValueType>, 255, unwind 257, any_val());
// length 0 is documented as valid (windowless) for Integral and ADI
len_ctor!(c10_integral_new_rng, Integral, 0, 254, unwind 256, minok 0, okw 0, any_val());
len_ctor_class!(c10_integral_new_255, Integral, 255, unwind 257, any_val());
len_ctor!(c10_adi_new_rng, ADI, 0, 254, unwind 256, minok 0, okw 0, any_candle());
len_ctor_class!(c10_adi_new_255, ADI, 255, unwind 257, any_candle());
// Vidya guards both ends itself
len_ctor!(c10_vidya_new_rng, Vidya, 0, 255, unwind 257, minok 1, okw 254, any_val());

/// Vidya::new(PeriodType::MAX) is an Err (the only constructor that documents it in code)
#[kani::proof]
#[kani::unwind(2)]
fn c10_vidya_max_is_err() {
	let v = any_val();
	let r = Vidya::new(MAXP, &v);
	assert!(r.is_err(), "Vidya::new(PeriodType::MAX) is Err");
	kani::cover!(true, "returned");
}

// the same constructors with the first input value concrete +0.0: `vec![0.0; n]` takes
// the zero-fill path of the allocator (no per-element loop), everything that depends on
// the length is unchanged. These are the quick-tier versions of the heavy harnesses.
const ZC: Candle = Candle {
	open: 1.0,
	high: 1.5,
	low: 0.5,
	close: 1.2,
	volume: 0.0,
};
len_ctor!(c10_z_sma_new, SMA, 0, 254, unwind 3, minok 1, okw 254, 0.0);
len_ctor!(c10_z_wma_new, WMA, 0, 254, unwind 3, minok 1, okw 254, 0.0);
len_ctor!(c10_z_smm_new, SMM, 0, 254, unwind 3, minok 1, okw 254, 0.0);
len_ctor!(c10_z_hma_new, HMA, 0, 254, unwind 3, minok 2, okw 254, 0.0);
len_ctor!(c10_z_linreg_new, LinReg, 0, 254, unwind 3, minok 2, okw 254, 0.0);
len_ctor!(c10_z_swma_new, SWMA, 0, 254, unwind 3, minok 1, okw 254, 0.0);
len_ctor!(c10_z_trima_new, TRIMA, 0, 254, unwind 3, minok 1, okw 254, 0.0);
len_ctor!(c10_z_vwma_new, VWMA, 0, 254, unwind 3, minok 1, okw 254, (0.0, 0.0));
len_ctor!(c10_z_momentum_new, Momentum, 0, 254, unwind 3, minok 1, okw 254, 0.0);
len_ctor!(c10_z_roc_new, RateOfChange, 0, 254, unwind 3, minok 1, okw 254, 0.0);
len_ctor!(c10_z_derivative_new, Derivative, 0, 254, unwind 3, minok 1, okw 254, 0.0);
len_ctor!(c10_z_stdev_new, StDev, 0, 254, unwind 3, minok 2, okw 254, 0.0);
len_ctor!(c10_z_meanabsdev_new, MeanAbsDev, 0, 254, unwind 3, minok 1, okw 254, 0.0);
len_ctor!(c10_z_medianabsdev_new, MedianAbsDev, 0, 254, unwind 3, minok 2, okw 254, 0.0);
len_ctor!(c10_z_cci_new, CCI, 0, 254, unwind 3, minok 1, okw 254, 0.0);
len_ctor!(c10_z_highest_new, Highest, 0, 254, unwind 3, minok 1, okw 254, 0.0);
len_ctor!(c10_z_lowest_new, Lowest, 0, 254, unwind 3, minok 1, okw 254, 0.0);
len_ctor!(c10_z_hldelta_new, HighestLowestDelta, 0, 254, unwind 3, minok 1, okw 254, 0.0);
len_ctor!(c10_z_highestindex_new, HighestIndex, 0, 254, unwind 3, minok 1, okw 254, 0.0);
len_ctor!(c10_z_lowestindex_new, LowestIndex, 0, 254, unwind 3, minok 1, okw 254, 0.0);
len_ctor!(c10_z_past_new, Past<ValueType>, 0, 254, unwind 3, minok 1, okw 254, 0.0);
len_ctor!(c10_z_integral_new, Integral, 0, 254, unwind 3, minok 0, okw 0, 0.0);
len_ctor!(c10_z_adi_new, ADI, 0, 254, unwind 3, minok 0, okw 0, ZC);

// no window: exponential family. `length + 1` is evaluated for every length
len_ctor!(c10_ema_new_rng, EMA, 0, 254, unwind 2, minok 1, okw 254, any_val());
len_ctor_class!(c10_ema_new_255, EMA, 255, unwind 2, any_val());
len_ctor!(c10_dma_new_rng, DMA, 0, 254, unwind 2, minok 1, okw 254, any_val());
len_ctor_class!(c10_dma_new_255, DMA, 255, unwind 2, any_val());
len_ctor!(c10_tma_new_rng, TMA, 0, 254, unwind 2, minok 1, okw 254, any_val());
len_ctor_class!(c10_tma_new_255, TMA, 255, unwind 2, any_val());
len_ctor!(c10_dema_new_rng, DEMA, 0, 254, unwind 2, minok 1, okw 254, any_val());
len_ctor_class!(c10_dema_new_255, DEMA, 255, unwind 2, any_val());
len_ctor!(c10_tema_new_rng, TEMA, 0, 254, unwind 2, minok 1, okw 254, any_val());
len_ctor_class!(c10_tema_new_255, TEMA, 255, unwind 2, any_val());
len_ctor!(c10_rma_new_rng, RMA, 0, 255, unwind 2, minok 1, okw 255, any_val());
// WSMA: `length * 2 - 1` before the zero check
len_ctor!(c10_wsma_new_rng, WSMA, 1, 255, unwind 2, minok 1, okw 127, any_val());
len_ctor_class!(c10_wsma_new_0, WSMA, 0, unwind 2, any_val());

// ---------------------------------------------------------------------------
// two lengths

/// TSI::new(short, long): all pairs below PeriodType::MAX
#[kani::proof]
#[kani::unwind(2)]
fn c10_tsi_new_rng() {
	let s: PeriodType = kani::any();
	let l: PeriodType = kani::any();
	kani::assume(s != MAXP && l != MAXP);
	let v = any_val();
	let r = TSI::new(s, l, &v);
	assert!((s >= 1 && l >= 1) || r.is_err(), "TSI: zero period is rejected");
	let r2 = <TSI as Method>::new((s, l), &v);
	assert!(r2.is_ok() == r.is_ok(), "TSI: both constructors agree");
	kani::cover!(s == 254 && l == 254 && r.is_ok(), "largest accepted pair");
	kani::cover!(s == 0 && l == 1, "rejected pair");
}

/// TSI::new with a period equal to PeriodType::MAX (EMA::new(255): length + 1)
#[kani::proof]
#[kani::unwind(2)]
fn c10_tsi_new_255() {
	let s: PeriodType = kani::any();
	let l: PeriodType = kani::any();
	kani::assume(s == MAXP || l == MAXP);
	let v = any_val();
	kani::cover!(true, "value class reachable");
	let r = TSI::new(s, l, &v);
	let _ = r.is_ok();
}

/// reversal detectors: window of left + right + 1
macro_rules! rev_ctor {
	($name:ident, $name254:ident, $M:ty) => {
		/// all pairs except left, right >= 1 with left + right == 254
		#[kani::proof]
		#[kani::unwind(256)]
		fn $name() {
			let l: PeriodType = kani::any();
			let r_: PeriodType = kani::any();
			kani::assume(!(l >= 1 && r_ >= 1 && l as usize + r_ as usize == 254));
			let v = any_val();
			let r = <$M>::new(l, r_, &v);
			assert!((l >= 1 && r_ >= 1) || r.is_err(), "reversal: zero side is rejected");
			let sum = l as usize + r_ as usize;
			assert!(sum < MAXP as usize || r.is_err(), "reversal: left + right >= PeriodType::MAX is rejected");
			kani::cover!(l == 1 && r_ == 252 && r.is_ok(), "largest accepted window (254)");
			kani::cover!(l == 255 && r_ == 255, "both sides at PeriodType::MAX return");
			kani::cover!(l == 200 && r_ == 55, "sum exactly PeriodType::MAX returns");
			kani::cover!(l == 200 && r_ == 100, "sum above PeriodType::MAX returns");
		}

		/// left + right == 254: Window::new(255, _)
		#[kani::proof]
		#[kani::unwind(257)]
		fn $name254() {
			let l: PeriodType = kani::any();
			let r_: PeriodType = kani::any();
			kani::assume(l >= 1 && r_ >= 1 && l as usize + r_ as usize == 254);
			let v = any_val();
			kani::cover!(true, "value class reachable");
			let r = <$M>::new(l, r_, &v);
			let _ = r.is_ok();
		}
	};
}
rev_ctor!(c10_upper_reversal_new_rng, c10_upper_reversal_new_sum254, UpperReversalSignal);
rev_ctor!(c10_lower_reversal_new_rng, c10_lower_reversal_new_sum254, LowerReversalSignal);
rev_ctor!(c10_reversal_new_rng, c10_reversal_new_sum254, ReversalSignal);

// ---------------------------------------------------------------------------
// no numeric parameter: the input is the only argument

#[kani::proof]
#[kani::unwind(2)]
fn c10_cross_new() {
	let v = (any_val(), any_val());
	let a = <Cross as Method>::new((), &v);
	let b = <CrossAbove as Method>::new((), &v);
	let c = <CrossUnder as Method>::new((), &v);
	assert!(a.is_ok() && b.is_ok() && c.is_ok(), "Cross*: parameterless constructors accept");
	kani::cover!(v.0 < v.1, "returned");
}

#[kani::proof]
#[kani::unwind(2)]
fn c10_tr_heikinashi_new() {
	let c = Candle {
		open: any_val(),
		high: any_val(),
		low: any_val(),
		close: any_val(),
		volume: any_val(),
	};
	let a = TR::new(&c);
	let b = <HeikinAshi as Method>::new((), &c);
	assert!(a.is_ok() && b.is_ok(), "TR/HeikinAshi: parameterless constructors accept");
	kani::cover!(c.high < c.low, "returned (even for an unordered candle)");
}

/// CollapseTimeframe: the period is a usize
#[kani::proof]
#[kani::unwind(2)]
fn c10_collapse_new() {
	let p: usize = kani::any();
	let r = <CollapseTimeframe<Candle> as Method>::new(p, &CANDLE);
	assert!(p != 0 || r.is_err(), "CollapseTimeframe: period 0 is rejected");
	kani::cover!(p == usize::MAX && r.is_ok(), "largest period accepted");
	kani::cover!(p == 0, "zero returned");
}

// ---------------------------------------------------------------------------
// Conv: weight vector

/// weights of symbolic length 0..=4, symbolic finite weights
#[kani::proof]
#[kani::unwind(6)]
fn c10_conv_new_small() {
	let w: [ValueType; 4] = [any_val(), any_val(), any_val(), any_val()];
	let len: usize = kani::any();
	kani::assume(len <= 4);
	let v = any_val();
	let r = Conv::new(w[..len].to_vec(), &v);
	assert!(len != 0 || r.is_err(), "Conv: empty weights are rejected");
	kani::cover!(len == 4 && r.is_ok(), "four weights accepted");
	kani::cover!(len == 0, "empty returned");
}

macro_rules! conv_len {
	($name:ident, $len:expr, $unw:expr, $post:expr) => {
		#[kani::proof]
		#[kani::unwind($unw)]
		fn $name() {
			let v = any_val();
			// concrete weights: summing 254 symbolic floats costs > 500 s and cannot panic
			let x: ValueType = 0.5;
			kani::cover!(true, "value class reachable");
			let r = Conv::new(vec![x; $len], &v);
			let f: fn(bool) = $post;
			f(r.is_ok());
		}
	};
}
conv_len!(c10_conv_new_254, 254, 257, |ok| {
	kani::cover!(ok, "254 weights accepted");
});
conv_len!(c10_conv_new_255, 255, 258, |_ok| {});
conv_len!(c10_conv_new_256, 256, 259, |ok| {
	assert!(!ok, "Conv: more than PeriodType::MAX weights are rejected");
	kani::cover!(!ok, "256 weights rejected");
});

// ---------------------------------------------------------------------------
// Renko

/// constructor: any f64 brick size (NaN, inf, <= 0, >= 1 included), any source
#[kani::proof]
#[kani::unwind(2)]
fn c10_renko_new() {
	let b: ValueType = kani::any();
	let src = any_source();
	let r = <Renko as Method>::new((b, src), &CANDLE);
	let valid = b >= ValueType::EPSILON && b < 1.0;
	assert!(valid || r.is_err(), "Renko: brick size outside [EPSILON, 1) is rejected");
	kani::cover!(b.is_nan(), "NaN brick size returned");
	kani::cover!(b == ValueType::INFINITY, "inf brick size returned");
	kani::cover!(b == 0.01 && r.is_ok(), "Ok witnessed");
	kani::cover!(b < 0.0, "negative brick size returned");
}

macro_rules! renko_next {
	($name:ident, $brick:expr) => {
		/// accepted Renko, one `next` on a symbolic price in [0.01, 1e6]: the block count
		/// `((v - u) / u / b) as usize` must not be 0 when a boundary was reached (D9)
		#[kani::proof]
		#[kani::unwind(2)]
		fn $name() {
			let p = |x: ValueType| Candle {
				open: x,
				high: x,
				low: x,
				close: x,
				volume: 1.0,
			};
			let first: ValueType = kani::any();
			let second: ValueType = kani::any();
			kani::assume(first >= 0.01 && first <= 1e6);
			kani::assume(second >= 0.01 && second <= 1e6);
			let mut r = <Renko as Method>::new(($brick, Source::Close), &p(first)).unwrap();
			kani::cover!(true, "accepted instance reachable");
			let out = r.next(&p(second));
			kani::cover!(out.len() == 1, "one block produced");
			kani::cover!(out.len() == 0, "no block produced");
		}
	};
}
renko_next!(c10_renko_next_b0005, 0.0005);
renko_next!(c10_renko_next_b01, 0.01);
renko_next!(c10_renko_next_b05, 0.05);
renko_next!(c10_renko_next_b5, 0.5);

// ---------------------------------------------------------------------------
// 2. MA::init

fn ma_of(k: u8, n: PeriodType) -> MA {
	match k {
		0 => MA::SMA(n),
		1 => MA::WMA(n),
		2 => MA::HMA(n),
		3 => MA::RMA(n),
		4 => MA::EMA(n),
		5 => MA::DMA(n),
		6 => MA::TMA(n),
		7 => MA::DEMA(n),
		8 => MA::TEMA(n),
		9 => MA::WSMA(n),
		10 => MA::SMM(n),
		11 => MA::SWMA(n),
		12 => MA::TRIMA(n),
		13 => MA::LinReg(n),
		_ => MA::Vidya(n),
	}
}

/// smallest length the kind documents as valid
fn ma_minok(k: u8) -> PeriodType {
	match k {
		2 | 13 => 2,
		_ => 1,
	}
}

macro_rules! ma_init {
	($name:ident, $k:expr, $lo:expr, $hi:expr, unwind $unw:expr, okw $okw:expr) => {
		ma_init!($name, $k, $lo, $hi, unwind $unw, okw $okw, any_val());
	};
	($name:ident, $k:expr, $lo:expr, $hi:expr, unwind $unw:expr, okw $okw:expr, $val:expr) => {
		#[kani::proof]
		#[kani::unwind($unw)]
		fn $name() {
			let n: PeriodType = kani::any();
			kani::assume($lo <= n && n <= $hi);
			let v: ValueType = $val;
			let ma = ma_of($k, n);
			assert!(ma.ma_period() == n && ma.ma_type() == $k, "MA: period and type tag");
			let r = ma.init(v);
			assert!(n >= ma_minok($k) || r.is_err(), "MA::init: documented too-small length is rejected");
			kani::cover!(n == $lo, "returned at the lower end of the range");
			kani::cover!(n == $hi, "returned at the upper end of the range");
			kani::cover!(n == $okw && r.is_ok(), "Ok witnessed");
		}
	};
}
macro_rules! ma_init_class {
	($name:ident, $k:expr, $n:expr, unwind $unw:expr) => {
		#[kani::proof]
		#[kani::unwind($unw)]
		fn $name() {
			let v = any_val();
			let ma = ma_of($k, $n);
			kani::cover!(true, "value class reachable");
			let r = ma.init(v);
			let _ = r.is_ok();
		}
	};
}
ma_init!(c10_ma_init_sma_rng, 0, 0, 254, unwind 256, okw 254);
ma_init_class!(c10_ma_init_sma_255, 0, 255, unwind 257);
ma_init!(c10_ma_init_wma_rng, 1, 0, 254, unwind 256, okw 254);
ma_init_class!(c10_ma_init_wma_255, 1, 255, unwind 257);
ma_init_class!(c10_ma_init_hma_255, 2, 255, unwind 257);
ma_init!(c10_ma_init_rma_rng, 3, 0, 255, unwind 2, okw 255);
ma_init!(c10_ma_init_ema_rng, 4, 0, 254, unwind 2, okw 254);
ma_init_class!(c10_ma_init_ema_255, 4, 255, unwind 2);
ma_init!(c10_ma_init_dma_rng, 5, 0, 254, unwind 2, okw 254);
ma_init_class!(c10_ma_init_dma_255, 5, 255, unwind 2);
ma_init!(c10_ma_init_tma_rng, 6, 0, 254, unwind 2, okw 254);
ma_init_class!(c10_ma_init_tma_255, 6, 255, unwind 2);
ma_init!(c10_ma_init_dema_rng, 7, 0, 254, unwind 2, okw 254);
ma_init_class!(c10_ma_init_dema_255, 7, 255, unwind 2);
ma_init!(c10_ma_init_tema_rng, 8, 0, 254, unwind 2, okw 254);
ma_init_class!(c10_ma_init_tema_255, 8, 255, unwind 2);
ma_init!(c10_ma_init_wsma_rng, 9, 1, 255, unwind 2, okw 127);
ma_init_class!(c10_ma_init_wsma_0, 9, 0, unwind 2);
ma_init_class!(c10_ma_init_smm_255, 10, 255, unwind 257);
ma_init!(c10_ma_init_swma_rng, 11, 0, 254, unwind 256, okw 254);
ma_init_class!(c10_ma_init_swma_255, 11, 255, unwind 257);
ma_init!(c10_ma_init_trima_rng, 12, 0, 254, unwind 256, okw 254);
ma_init_class!(c10_ma_init_trima_255, 12, 255, unwind 257);
ma_init!(c10_ma_init_linreg_rng, 13, 0, 254, unwind 256, okw 254);
ma_init_class!(c10_ma_init_linreg_255, 13, 255, unwind 257);
ma_init!(c10_ma_init_vidya_rng, 14, 0, 255, unwind 257, okw 254);
// window-backed kinds with the first value +0.0 (quick tier; HMA and SMM only this way:
// with a symbolic first value the full range exceeds 16 GB, see c10_hma_new_* / c10_smm_new_*)
ma_init!(c10_z_ma_init_sma, 0, 0, 254, unwind 3, okw 254, 0.0);
ma_init!(c10_z_ma_init_wma, 1, 0, 254, unwind 3, okw 254, 0.0);
ma_init!(c10_z_ma_init_hma, 2, 0, 254, unwind 3, okw 254, 0.0);
ma_init!(c10_z_ma_init_smm, 10, 0, 254, unwind 3, okw 254, 0.0);
ma_init!(c10_z_ma_init_swma, 11, 0, 254, unwind 3, okw 254, 0.0);
ma_init!(c10_z_ma_init_trima, 12, 0, 254, unwind 3, okw 254, 0.0);
ma_init!(c10_z_ma_init_linreg, 13, 0, 254, unwind 3, okw 254, 0.0);

// ---------------------------------------------------------------------------
// quick-tier class harnesses: the driver replays every counterexample natively (one Kani
// run and two native builds each), so the quick tier decides all known value classes of
// the method constructors / of MA::init in ONE harness each (symbolic selector); the
// per-constructor class harnesses above (`*_255`, `*_0`, `*_sum254`) are thorough-tier.

/// every method constructor at the value class for which it is known not to return:
/// window-backed constructors at 255, the EMA family and TSI at 255, SWMA at 255,
/// WSMA at 0, the reversal detectors at left + right == 254. First value +0.0.
#[kani::proof]
#[kani::unwind(130)]
fn c10_q_class_methods() {
	let k: u8 = kani::any();
	kani::assume(k < 37);
	let v: ValueType = 0.0;
	let l: PeriodType = kani::any();
	kani::assume(l >= 1 && l <= 253);
	let r_ = 254 - l;
	let other: PeriodType = kani::any();
	kani::cover!(k == 0, "value class reachable");
	kani::cover!(k == 36, "last selector value reachable");
	let _ok = match k {
		0 => SMA::new(MAXP, &v).is_ok(),
		1 => WMA::new(MAXP, &v).is_ok(),
		2 => SMM::new(MAXP, &v).is_ok(),
		3 => HMA::new(MAXP, &v).is_ok(),
		4 => LinReg::new(MAXP, &v).is_ok(),
		5 => TRIMA::new(MAXP, &v).is_ok(),
		6 => VWMA::new(MAXP, &(v, v)).is_ok(),
		7 => Momentum::new(MAXP, &v).is_ok(),
		8 => RateOfChange::new(MAXP, &v).is_ok(),
		9 => Derivative::new(MAXP, &v).is_ok(),
		10 => StDev::new(MAXP, &v).is_ok(),
		11 => MeanAbsDev::new(MAXP, &v).is_ok(),
		12 => MedianAbsDev::new(MAXP, &v).is_ok(),
		13 => CCI::new(MAXP, &v).is_ok(),
		14 => LinearVolatility::new(MAXP, &v).is_ok(),
		15 => Highest::new(MAXP, &v).is_ok(),
		16 => Lowest::new(MAXP, &v).is_ok(),
		17 => HighestLowestDelta::new(MAXP, &v).is_ok(),
		18 => HighestIndex::new(MAXP, &v).is_ok(),
		19 => LowestIndex::new(MAXP, &v).is_ok(),
		20 => <Past<ValueType> as Method>::new(MAXP, &v).is_ok(),
		21 => Integral::new(MAXP, &v).is_ok(),
		22 => <ADI as Method>::new(MAXP, &ZC).is_ok(),
		23 => EMA::new(MAXP, &v).is_ok(),
		24 => DMA::new(MAXP, &v).is_ok(),
		25 => TMA::new(MAXP, &v).is_ok(),
		26 => DEMA::new(MAXP, &v).is_ok(),
		27 => TEMA::new(MAXP, &v).is_ok(),
		28 => TSI::new(MAXP, other, &v).is_ok(),
		29 => TSI::new(other, MAXP, &v).is_ok(),
		30 => SWMA::new(MAXP, &v).is_ok(),
		31 => WSMA::new(0, &v).is_ok(),
		32 => UpperReversalSignal::new(l, r_, &v).is_ok(),
		33 => LowerReversalSignal::new(l, r_, &v).is_ok(),
		34 => ReversalSignal::new(l, r_, &v).is_ok(),
		35 => ReversalSignal::new(1, 253, &v).is_ok(),
		_ => ReversalSignal::new(253, 1, &v).is_ok(),
	};
}

/// MA::init at the value classes for which it is known not to return: every kind except
/// RMA, WSMA and Vidya at 255; WSMA at 0. First value +0.0.
#[kani::proof]
#[kani::unwind(130)]
fn c10_q_class_ma_init() {
	let k: u8 = kani::any();
	kani::assume(k < 15 && k != 3 && k != 14);
	let n: PeriodType = if k == 9 { 0 } else { MAXP };
	let ma = ma_of(k, n);
	kani::cover!(k == 0, "value class reachable");
	kani::cover!(k == 13, "last kind of the class reachable");
	let r = ma.init(0.0);
	let _ = r.is_ok();
}

// ---------------------------------------------------------------------------
// 3. parsing

/// symbolic ASCII text of length 0..=L
fn any_ascii<const L: usize>() -> ([u8; L], usize) {
	let b: [u8; L] = kani::any();
	let len: usize = kani::any();
	kani::assume(len <= L);
	let mut i = 0;
	while i < L {
		kani::assume(b[i] < 128);
		i += 1;
	}
	(b, len)
}

macro_rules! parse_ma {
	($name:ident, $L:expr, $unw:expr, $w:pat) => {
		#[kani::proof]
		#[kani::unwind($unw)]
		fn $name() {
			let (b, len) = any_ascii::<$L>();
			let s = core::str::from_utf8(&b[..len]).unwrap();
			let r = s.parse::<MA>();
			let r2 = MA::from_str(s);
			assert!(r.is_ok() == r2.is_ok(), "parse and from_str agree");
			if let Ok(ma) = r {
				assert!(len >= 5, "MA text shorter than 5 bytes is rejected");
			}
			kani::cover!(r.is_err() && len == $L, "Err witnessed at full length");
			kani::cover!(len == 0, "empty text returned");
			kani::cover!(matches!(r, Ok($w)), "Ok witnessed");
		}
	};
}
parse_ma!(c10_parse_ma_len5, 5, 8, MA::SMA(7));
parse_ma!(c10_parse_ma_len6, 6, 9, MA::EMA(12));

/// non-ASCII text: a concrete ASCII head, `$free` symbolic ASCII bytes, then one symbolic multi-byte character of
/// `$mb` bytes (any valid 2-/3-/4-byte UTF-8 sequence of that length class) and one symbolic ASCII tail byte:
/// the parser must return (Ok or Err), never panic — byte-offset slicing of `&str` panics inside a character
macro_rules! parse_ma_utf8 {
	($name:ident, $head:expr, $free:expr, $mb:expr, $unw:expr) => {
		#[kani::proof]
		#[kani::unwind($unw)]
		fn $name() {
			const H: usize = $head.len();
			const N: usize = H + $free + $mb + 1;
			let mut b = [0u8; N];
			let mut i = 0;
			while i < H {
				b[i] = $head[i];
				i += 1;
			}
			while i < H + $free {
				let c: u8 = kani::any();
				kani::assume(c < 128);
				b[i] = c;
				i += 1;
			}
			// lead byte of the length class, then continuation bytes 0x80..=0xBF (over-long / surrogate forms excluded)
			let lead: u8 = kani::any();
			if $mb == 2 {
				kani::assume(lead >= 0xC2 && lead <= 0xDF);
			} else if $mb == 3 {
				kani::assume(lead >= 0xE1 && lead <= 0xEC);
			} else {
				kani::assume(lead >= 0xF1 && lead <= 0xF3);
			}
			b[i] = lead;
			i += 1;
			while i < H + $free + $mb {
				let c: u8 = kani::any();
				kani::assume(c >= 0x80 && c <= 0xBF);
				b[i] = c;
				i += 1;
			}
			let tail: u8 = kani::any();
			kani::assume(tail < 128);
			b[i] = tail;
			let s = unsafe { core::str::from_utf8_unchecked(&b[..]) };
			let r = s.parse::<MA>();
			assert!(r.is_err(), "a length with a non-ASCII character is rejected");
			kani::cover!(true, "parser returned");
		}
	};
}
parse_ma_utf8!(c10_parse_ma_utf8_2byte_at6, b"ema-", 2, 2, 12);
parse_ma_utf8!(c10_parse_ma_utf8_3byte_at5, b"ema-", 1, 3, 12);
parse_ma_utf8!(c10_parse_ma_utf8_3byte_at6, b"sma-", 2, 3, 12);
parse_ma_utf8!(c10_parse_ma_utf8_4byte_at6, b"linreg", 0, 4, 14);
parse_ma_utf8!(c10_parse_ma_utf8_2byte_at7, b"trima-", 1, 2, 12);
parse_ma_utf8!(c10_parse_ma_utf8_2byte_at3, b"sm", 1, 2, 10);

/// exact length L (a symbolic length makes `to_ascii_lowercase` + `trim` run out of
/// 16 GB already at L <= 3): one harness per length
macro_rules! parse_source {
	($name:ident, $L:expr, $unw:expr, $w:pat, $isok:expr) => {
		#[kani::proof]
		#[kani::unwind($unw)]
		fn $name() {
			let b: [u8; $L] = kani::any();
			let mut i = 0;
			while i < $L {
				kani::assume(b[i] < 128);
				i += 1;
			}
			let s = core::str::from_utf8(&b).unwrap();
			let r = Source::from_str(s);
			if r.is_ok() {
				assert!($L >= 2, "Source text shorter than 2 bytes is rejected");
			}
			let r2 = Source::try_from(s);
			assert!(r.is_ok() == r2.is_ok(), "from_str and try_from agree");
			kani::cover!(r.is_err(), "Err witnessed");
			kani::cover!(matches!(r, Ok($w)) == $isok, "Ok witnessed (where a name of this length exists)");
		}
	};
}
parse_source!(c10_parse_source_l0, 0, 4, Source::Low, false);

// ---------------------------------------------------------------------------
// 4. indicator configurations
use yata::indicators::*;

/// remembers whether a period field took the value PeriodType::MAX
struct Trk {
	saw_max: bool,
}

/// how the fields of a configuration are chosen
trait Gen {
	/// a period field
	fn p(t: &mut Trk) -> PeriodType;
	/// a moving-average field (`dk`: tag of the kind the indicator uses by default)
	fn ma(dk: u8, t: &mut Trk) -> MA;
	/// a float field: any f64 whatsoever (NaN, +-inf, subnormals, -0.0 included)
	fn f() -> ValueType {
		kani::any()
	}
	fn b() -> bool {
		kani::any()
	}
	fn src() -> Source {
		any_source()
	}
}

fn note(x: PeriodType, t: &mut Trk) -> PeriodType {
	if x == MAXP {
		t.saw_max = true;
	}
	x
}

/// every value of every field, every MA kind
struct GAll;
impl Gen for GAll {
	fn p(t: &mut Trk) -> PeriodType {
		note(kani::any(), t)
	}
	fn ma(_dk: u8, t: &mut Trk) -> MA {
		let k: u8 = kani::any();
		kani::assume(k < 15);
		ma_of(k, note(kani::any(), t))
	}
}

/// periods 0..=254; MA fields: the kind the indicator uses by default (every kind with
/// every period is decided on MA::init itself, c10_ma_init_*; a symbolic kind in four MA
/// fields costs > 350 s of symbolic execution alone)
struct GS254;
impl Gen for GS254 {
	fn p(_t: &mut Trk) -> PeriodType {
		let x: PeriodType = kani::any();
		kani::assume(x < MAXP);
		x
	}
	fn ma(dk: u8, t: &mut Trk) -> MA {
		ma_of(dk, Self::p(t))
	}
}

/// periods 0..=255, default MA kinds (the harness assumes `saw_max`)
struct GSAny;
impl Gen for GSAny {
	fn p(t: &mut Trk) -> PeriodType {
		note(kani::any(), t)
	}
	fn ma(dk: u8, t: &mut Trk) -> MA {
		ma_of(dk, Self::p(t))
	}
}

/// periods in {0,1,2,3,4}, default MA kinds
struct GB4;
impl Gen for GB4 {
	fn p(_t: &mut Trk) -> PeriodType {
		let x: PeriodType = kani::any();
		kani::assume(x <= 4);
		x
	}
	fn ma(dk: u8, t: &mut Trk) -> MA {
		ma_of(dk, Self::p(t))
	}
}

/// periods in {0,1,2,3,4,255}, default MA kinds (the harness assumes `saw_max`)
struct GB255;
impl Gen for GB255 {
	fn p(t: &mut Trk) -> PeriodType {
		let x: PeriodType = kani::any();
		kani::assume(x <= 4 || x == MAXP);
		note(x, t)
	}
	fn ma(dk: u8, t: &mut Trk) -> MA {
		ma_of(dk, Self::p(t))
	}
}

/// periods 0..=254, the MA kind the indicator uses by default, real Window::new
struct GF254;
impl Gen for GF254 {
	fn p(_t: &mut Trk) -> PeriodType {
		let x: PeriodType = kani::any();
		kani::assume(x < MAXP);
		x
	}
	fn ma(dk: u8, t: &mut Trk) -> MA {
		ma_of(dk, Self::p(t))
	}
}

/// Window::new replaced in the `*_init_s*` harnesses: checks the documented
/// precondition (the real function's debug assertion) and returns a window of at most
/// one element. Constructors never read the window they have just created.
fn window_new_stub<T: Clone>(size: PeriodType, value: T) -> Window<T> {
	assert!(size <= (PeriodType::MAX - 1), "Window::new precondition: PeriodType overflow");
	if size == 0 {
		Window::empty()
	} else {
		Window::from_parts(vec![value].into_boxed_slice(), 0)
	}
}

const K_SMA: u8 = 0;
const K_WMA: u8 = 1;
const K_RMA: u8 = 3;
const K_EMA: u8 = 4;
const K_SWMA: u8 = 11;

fn mk_aroon<G: Gen>(t: &mut Trk) -> Aroon {
	Aroon {
		period: G::p(t),
		signal_zone: G::f(),
		over_zone_period: G::p(t),
	}
}
fn mk_adx<G: Gen>(t: &mut Trk) -> AverageDirectionalIndex {
	AverageDirectionalIndex {
		method1: G::ma(K_RMA, t),
		method2: G::ma(K_RMA, t),
		period1: G::p(t),
		zone: G::f(),
	}
}
fn mk_awesome<G: Gen>(t: &mut Trk) -> AwesomeOscillator {
	AwesomeOscillator {
		ma1: G::ma(K_SMA, t),
		ma2: G::ma(K_SMA, t),
		source: G::src(),
		left: G::p(t),
		right: G::p(t),
		conseq_peaks: kani::any(),
	}
}
fn mk_bollinger<G: Gen>(t: &mut Trk) -> BollingerBands {
	BollingerBands {
		avg_size: G::p(t),
		sigma: G::f(),
		source: G::src(),
	}
}
fn mk_cmf<G: Gen>(t: &mut Trk) -> ChaikinMoneyFlow {
	ChaikinMoneyFlow { size: G::p(t) }
}
fn mk_chaikin_osc<G: Gen>(t: &mut Trk) -> ChaikinOscillator {
	ChaikinOscillator {
		ma1: G::ma(K_EMA, t),
		ma2: G::ma(K_EMA, t),
		window: G::p(t),
	}
}
fn mk_chande_kroll<G: Gen>(t: &mut Trk) -> ChandeKrollStop {
	ChandeKrollStop {
		ma: G::ma(K_SMA, t),
		x: G::f(),
		q: G::p(t),
		source: G::src(),
	}
}
fn mk_cmo<G: Gen>(t: &mut Trk) -> ChandeMomentumOscillator {
	ChandeMomentumOscillator {
		period: G::p(t),
		zone: G::f(),
		source: G::src(),
	}
}
fn mk_cci<G: Gen>(t: &mut Trk) -> CommodityChannelIndex {
	CommodityChannelIndex {
		period: G::p(t),
		zone: G::f(),
		source: G::src(),
	}
}
fn mk_coppock<G: Gen>(t: &mut Trk) -> CoppockCurve {
	CoppockCurve {
		ma1: G::ma(K_WMA, t),
		s3_ma: G::ma(K_EMA, t),
		period2: G::p(t),
		period3: G::p(t),
		s2_left: G::p(t),
		s2_right: G::p(t),
		source: G::src(),
	}
}
fn mk_dpo<G: Gen>(t: &mut Trk) -> DetrendedPriceOscillator {
	DetrendedPriceOscillator {
		ma: G::ma(K_SMA, t),
		source: G::src(),
	}
}
fn mk_donchian<G: Gen>(t: &mut Trk) -> DonchianChannel {
	DonchianChannel { period: G::p(t) }
}
fn mk_eom<G: Gen>(t: &mut Trk) -> EaseOfMovement {
	EaseOfMovement {
		ma: G::ma(K_SMA, t),
		period2: G::p(t),
	}
}
fn mk_efi<G: Gen>(t: &mut Trk) -> EldersForceIndex {
	EldersForceIndex {
		ma: G::ma(K_EMA, t),
		period2: G::p(t),
		source: G::src(),
	}
}
fn mk_envelopes<G: Gen>(t: &mut Trk) -> Envelopes {
	Envelopes {
		ma: G::ma(K_SMA, t),
		k: G::f(),
		source: G::src(),
		source2: G::src(),
	}
}
fn mk_fisher<G: Gen>(t: &mut Trk) -> FisherTransform {
	FisherTransform {
		period1: G::p(t),
		zone: G::f(),
		signal: G::ma(K_SMA, t),
		source: G::src(),
	}
}
fn mk_hull<G: Gen>(t: &mut Trk) -> HullMovingAverage {
	HullMovingAverage {
		period: G::p(t),
		left: G::p(t),
		right: G::p(t),
		source: G::src(),
	}
}
fn mk_ichimoku<G: Gen>(t: &mut Trk) -> IchimokuCloud {
	IchimokuCloud {
		l1: G::p(t),
		l2: G::p(t),
		l3: G::p(t),
		m: G::p(t),
		source: G::src(),
	}
}
fn mk_kaufman<G: Gen>(t: &mut Trk) -> Kaufman {
	Kaufman {
		period1: G::p(t),
		period2: G::p(t),
		period3: G::p(t),
		filter_period: G::p(t),
		square_smooth: G::b(),
		k: G::f(),
		source: G::src(),
	}
}
fn mk_keltner<G: Gen>(t: &mut Trk) -> KeltnerChannel {
	KeltnerChannel {
		ma: G::ma(K_EMA, t),
		sigma: G::f(),
		source: G::src(),
	}
}
fn mk_kvo<G: Gen>(t: &mut Trk) -> KlingerVolumeOscillator {
	KlingerVolumeOscillator {
		ma1: G::ma(K_EMA, t),
		ma2: G::ma(K_EMA, t),
		signal: G::ma(K_EMA, t),
	}
}
fn mk_kst<G: Gen>(t: &mut Trk) -> KnowSureThing {
	KnowSureThing {
		period1: G::p(t),
		period2: G::p(t),
		period3: G::p(t),
		period4: G::p(t),
		ma1: G::ma(K_SMA, t),
		ma2: G::ma(K_SMA, t),
		ma3: G::ma(K_SMA, t),
		ma4: G::ma(K_SMA, t),
		signal: G::ma(K_SMA, t),
	}
}
fn mk_macd<G: Gen>(t: &mut Trk) -> MACD {
	MACD {
		ma1: G::ma(K_EMA, t),
		ma2: G::ma(K_EMA, t),
		signal: G::ma(K_EMA, t),
		source: G::src(),
	}
}
fn mk_momentum_index<G: Gen>(t: &mut Trk) -> MomentumIndex {
	MomentumIndex {
		period1: G::p(t),
		period2: G::p(t),
		source: G::src(),
	}
}
fn mk_mfi<G: Gen>(t: &mut Trk) -> MoneyFlowIndex {
	MoneyFlowIndex {
		period: G::p(t),
		zone: G::f(),
	}
}
fn mk_psar<G: Gen>(_t: &mut Trk) -> ParabolicSAR {
	ParabolicSAR {
		af_step: G::f(),
		af_max: G::f(),
	}
}
fn mk_pivot<G: Gen>(t: &mut Trk) -> PivotReversalStrategy {
	PivotReversalStrategy {
		left: G::p(t),
		right: G::p(t),
	}
}
fn mk_price_channel<G: Gen>(t: &mut Trk) -> PriceChannelStrategy {
	PriceChannelStrategy {
		period: G::p(t),
		sigma: G::f(),
	}
}
fn mk_rsi<G: Gen>(t: &mut Trk) -> RelativeStrengthIndex {
	RelativeStrengthIndex {
		ma: G::ma(K_EMA, t),
		zone: G::f(),
		source: G::src(),
	}
}
fn mk_rvi<G: Gen>(t: &mut Trk) -> RelativeVigorIndex {
	RelativeVigorIndex {
		period1: G::p(t),
		period2: G::p(t),
		signal: G::ma(K_SWMA, t),
		zone: G::f(),
	}
}
fn mk_smi<G: Gen>(t: &mut Trk) -> SMIErgodicIndicator {
	SMIErgodicIndicator {
		period1: G::p(t),
		period2: G::p(t),
		signal: G::ma(K_EMA, t),
		zone: G::f(),
		source: G::src(),
	}
}
fn mk_stochastic<G: Gen>(t: &mut Trk) -> StochasticOscillator {
	StochasticOscillator {
		period: G::p(t),
		ma: G::ma(K_SMA, t),
		signal: G::ma(K_SMA, t),
		zone: G::f(),
	}
}
fn mk_trix<G: Gen>(t: &mut Trk) -> Trix {
	Trix {
		period1: G::p(t),
		signal: G::ma(K_EMA, t),
		source: G::src(),
	}
}
fn mk_trend_si<G: Gen>(t: &mut Trk) -> TrendStrengthIndex {
	TrendStrengthIndex {
		period: G::p(t),
		zone: G::f(),
		reverse_offset: G::p(t),
		source: G::src(),
	}
}
fn mk_true_si<G: Gen>(t: &mut Trk) -> TrueStrengthIndex {
	TrueStrengthIndex {
		period1: G::p(t),
		period2: G::p(t),
		period3: G::p(t),
		zone: G::f(),
		source: G::src(),
	}
}
fn mk_woodies<G: Gen>(t: &mut Trk) -> WoodiesCCI {
	WoodiesCCI {
		period1: G::p(t),
		period2: G::p(t),
		s1_lag: G::p(t),
		source: G::src(),
	}
}

/// complement harness body: init returns; !validate() => Err
macro_rules! init_body {
	($mk:ident, $G:ty, $excl:expr) => {{
		let mut t = Trk { saw_max: false };
		let cfg = $mk::<$G>(&mut t);
		kani::assume(!($excl)(&cfg));
		let valid = cfg.validate();
		let r = cfg.init(&CANDLE);
		assert!(valid || r.is_err(), "init: !validate() => Err");
		kani::cover!(r.is_ok(), "Ok witnessed");
		kani::cover!(!valid, "rejected configuration returned");
	}};
}
/// class harness body (a period field is PeriodType::MAX): witness before the call
macro_rules! init_class_body {
	($mk:ident, $G:ty) => {{
		let mut t = Trk { saw_max: false };
		let cfg = $mk::<$G>(&mut t);
		kani::assume(t.saw_max);
		let valid = cfg.validate();
		kani::cover!(true, "value class reachable");
		let r = cfg.init(&CANDLE);
		assert!(valid || r.is_err(), "init: !validate() => Err");
	}};
}

/// class harness body for a stated configuration class (`$cls`): witness before the call
macro_rules! init_cls_body {
	($mk:ident, $G:ty, $cls:expr) => {{
		let mut t = Trk { saw_max: false };
		let cfg = $mk::<$G>(&mut t);
		kani::assume(($cls)(&cfg));
		let valid = cfg.validate();
		kani::cover!(valid, "accepted configuration in the class");
		let r = cfg.init(&CANDLE);
		assert!(valid || r.is_err(), "init: !validate() => Err");
	}};
}

/// no configuration excluded
macro_rules! indicator {
	($mk:ident, $val:ident, $is:ident, $is255:ident, $ib:ident, $ib255:ident, $if_:ident) => {
		indicator!($mk, $val, $is, $is255, $ib, $ib255, $if_, excl | _c | false, u255 11);
	};
	($mk:ident, $val:ident, $is:ident, $is255:ident, $ib:ident, $ib255:ident, $if_:ident, excl $excl:expr) => {
		indicator!($mk, $val, $is, $is255, $ib, $ib255, $if_, excl $excl, u255 11);
	};
	($mk:ident, $val:ident, $is:ident, $is255:ident, $ib:ident, $ib255:ident, $if_:ident, excl $excl:expr, u255 $u255:expr) => {
		/// validate() on every value of every field returns
		#[kani::proof]
		#[kani::unwind(2)]
		fn $val() {
			let mut t = Trk { saw_max: false };
			let cfg = $mk::<GAll>(&mut t);
			let v = cfg.validate();
			kani::cover!(v, "accepted configuration exists");
			kani::cover!(!v, "rejected configuration exists");
		}

		/// init, Window::new stubbed by its precondition, periods 0..=254
		#[kani::proof]
		#[kani::unwind(3)]
		#[kani::stub(yata::core::Window::new, window_new_stub)]
		fn $is() {
			init_body!($mk, GS254, $excl)
		}

		/// init, Window::new stubbed by its precondition, some period == 255
		#[kani::proof]
		#[kani::unwind(3)]
		#[kani::stub(yata::core::Window::new, window_new_stub)]
		fn $is255() {
			init_class_body!($mk, GSAny)
		}

		/// init, real code, periods in {0,1,2,3,4}
		#[kani::proof]
		#[kani::unwind(11)]
		fn $ib() {
			init_body!($mk, GB4, $excl)
		}

		/// init, real code, periods in {0,1,2,3,4,255}, some period == 255
		#[kani::proof]
		#[kani::unwind($u255)]
		fn $ib255() {
			init_class_body!($mk, GB255)
		}

		/// init, real code, periods 0..=254, default MA kinds
		#[kani::proof]
		#[kani::unwind(256)]
		fn $if_() {
			init_body!($mk, GF254, $excl)
		}
	};
}

/// a configuration class with its own harness (Window::new stubbed; the real Window::new for
/// the class is driven by the method-level harnesses c10_*reversal_new_sum254)
macro_rules! indicator_cls {
	($mk:ident, $is:ident, $cls:expr) => {
		#[kani::proof]
		#[kani::unwind(3)]
		#[kani::stub(yata::core::Window::new, window_new_stub)]
		fn $is() {
			init_cls_body!($mk, GS254, $cls)
		}
	};
}

indicator!(mk_aroon, c10_aroon_validate, c10_aroon_init_s254, c10_aroon_init_s255, c10_aroon_init_b4, c10_aroon_init_b255, c10_aroon_init_f254);
indicator!(mk_adx, c10_adx_validate, c10_adx_init_s254, c10_adx_init_s255, c10_adx_init_b4, c10_adx_init_b255, c10_adx_init_f254);
indicator!(mk_awesome, c10_awesome_validate, c10_awesome_init_s254, c10_awesome_init_s255, c10_awesome_init_b4, c10_awesome_init_b255, c10_awesome_init_f254, excl |c: &AwesomeOscillator| c.left as usize + c.right as usize == 254);
indicator_cls!(mk_awesome, c10_awesome_init_s_sum254, |c: &AwesomeOscillator| c.left as usize + c.right as usize == 254);
indicator!(mk_bollinger, c10_bollinger_validate, c10_bollinger_init_s254, c10_bollinger_init_s255, c10_bollinger_init_b4, c10_bollinger_init_b255, c10_bollinger_init_f254);
indicator!(mk_cmf, c10_cmf_validate, c10_cmf_init_s254, c10_cmf_init_s255, c10_cmf_init_b4, c10_cmf_init_b255, c10_cmf_init_f254);
indicator!(mk_chaikin_osc, c10_chaikinosc_validate, c10_chaikinosc_init_s254, c10_chaikinosc_init_s255, c10_chaikinosc_init_b4, c10_chaikinosc_init_b255, c10_chaikinosc_init_f254);
indicator!(mk_chande_kroll, c10_chandekroll_validate, c10_chandekroll_init_s254, c10_chandekroll_init_s255, c10_chandekroll_init_b4, c10_chandekroll_init_b255, c10_chandekroll_init_f254);
indicator!(mk_cmo, c10_cmo_validate, c10_cmo_init_s254, c10_cmo_init_s255, c10_cmo_init_b4, c10_cmo_init_b255, c10_cmo_init_f254);
indicator!(mk_cci, c10_ccindex_validate, c10_ccindex_init_s254, c10_ccindex_init_s255, c10_ccindex_init_b4, c10_ccindex_init_b255, c10_ccindex_init_f254);
indicator!(mk_coppock, c10_coppock_validate, c10_coppock_init_s254, c10_coppock_init_s255, c10_coppock_init_b4, c10_coppock_init_b255, c10_coppock_init_f254, excl |c: &CoppockCurve| c.s2_left as usize + c.s2_right as usize == 254);
indicator_cls!(mk_coppock, c10_coppock_init_s_sum254, |c: &CoppockCurve| c.s2_left as usize + c.s2_right as usize == 254);
indicator!(mk_dpo, c10_dpo_validate, c10_dpo_init_s254, c10_dpo_init_s255, c10_dpo_init_b4, c10_dpo_init_b255, c10_dpo_init_f254);
indicator!(mk_donchian, c10_donchian_validate, c10_donchian_init_s254, c10_donchian_init_s255, c10_donchian_init_b4, c10_donchian_init_b255, c10_donchian_init_f254);
indicator!(mk_eom, c10_eom_validate, c10_eom_init_s254, c10_eom_init_s255, c10_eom_init_b4, c10_eom_init_b255, c10_eom_init_f254);
indicator!(mk_efi, c10_efi_validate, c10_efi_init_s254, c10_efi_init_s255, c10_efi_init_b4, c10_efi_init_b255, c10_efi_init_f254);
indicator!(mk_envelopes, c10_envelopes_validate, c10_envelopes_init_s254, c10_envelopes_init_s255, c10_envelopes_init_b4, c10_envelopes_init_b255, c10_envelopes_init_f254);
indicator!(mk_fisher, c10_fisher_validate, c10_fisher_init_s254, c10_fisher_init_s255, c10_fisher_init_b4, c10_fisher_init_b255, c10_fisher_init_f254);
// u255 130: HMA::new(255) allocates WMA(127) before WMA(255) fails
indicator!(mk_hull, c10_hull_validate, c10_hull_init_s254, c10_hull_init_s255, c10_hull_init_b4, c10_hull_init_b255, c10_hull_init_f254, excl |c: &HullMovingAverage| c.left as usize + c.right as usize == 254, u255 130);
indicator_cls!(mk_hull, c10_hull_init_s_sum254, |c: &HullMovingAverage| c.left as usize + c.right as usize == 254);
indicator!(mk_ichimoku, c10_ichimoku_validate, c10_ichimoku_init_s254, c10_ichimoku_init_s255, c10_ichimoku_init_b4, c10_ichimoku_init_b255, c10_ichimoku_init_f254);
indicator!(mk_kaufman, c10_kaufman_validate, c10_kaufman_init_s254, c10_kaufman_init_s255, c10_kaufman_init_b4, c10_kaufman_init_b255, c10_kaufman_init_f254);
indicator!(mk_keltner, c10_keltner_validate, c10_keltner_init_s254, c10_keltner_init_s255, c10_keltner_init_b4, c10_keltner_init_b255, c10_keltner_init_f254);
indicator!(mk_kvo, c10_kvo_validate, c10_kvo_init_s254, c10_kvo_init_s255, c10_kvo_init_b4, c10_kvo_init_b255, c10_kvo_init_f254);
indicator!(mk_kst, c10_kst_validate, c10_kst_init_s254, c10_kst_init_s255, c10_kst_init_b4, c10_kst_init_b255, c10_kst_init_f254);
indicator!(mk_macd, c10_macd_validate, c10_macd_init_s254, c10_macd_init_s255, c10_macd_init_b4, c10_macd_init_b255, c10_macd_init_f254);
indicator!(mk_momentum_index, c10_momentumindex_validate, c10_momentumindex_init_s254, c10_momentumindex_init_s255, c10_momentumindex_init_b4, c10_momentumindex_init_b255, c10_momentumindex_init_f254);
indicator!(mk_mfi, c10_mfi_validate, c10_mfi_init_s254, c10_mfi_init_s255, c10_mfi_init_b4, c10_mfi_init_b255, c10_mfi_init_f254);
indicator!(mk_psar, c10_psar_validate, c10_psar_init_s254, c10_psar_init_s255, c10_psar_init_b4, c10_psar_init_b255, c10_psar_init_f254);
indicator!(mk_pivot, c10_pivot_validate, c10_pivot_init_s254, c10_pivot_init_s255, c10_pivot_init_b4, c10_pivot_init_b255, c10_pivot_init_f254, excl |c: &PivotReversalStrategy| c.left as usize + c.right as usize == 254);
indicator_cls!(mk_pivot, c10_pivot_init_s_sum254, |c: &PivotReversalStrategy| c.left as usize + c.right as usize == 254);
indicator!(mk_price_channel, c10_pricechannel_validate, c10_pricechannel_init_s254, c10_pricechannel_init_s255, c10_pricechannel_init_b4, c10_pricechannel_init_b255, c10_pricechannel_init_f254);
indicator!(mk_rsi, c10_rsi_validate, c10_rsi_init_s254, c10_rsi_init_s255, c10_rsi_init_b4, c10_rsi_init_b255, c10_rsi_init_f254);
indicator!(mk_rvi, c10_rvi_validate, c10_rvi_init_s254, c10_rvi_init_s255, c10_rvi_init_b4, c10_rvi_init_b255, c10_rvi_init_f254);
indicator!(mk_smi, c10_smi_validate, c10_smi_init_s254, c10_smi_init_s255, c10_smi_init_b4, c10_smi_init_b255, c10_smi_init_f254);
indicator!(mk_stochastic, c10_stochastic_validate, c10_stochastic_init_s254, c10_stochastic_init_s255, c10_stochastic_init_b4, c10_stochastic_init_b255, c10_stochastic_init_f254);
indicator!(mk_trix, c10_trix_validate, c10_trix_init_s254, c10_trix_init_s255, c10_trix_init_b4, c10_trix_init_b255, c10_trix_init_f254);
indicator!(mk_trend_si, c10_trendsi_validate, c10_trendsi_init_s254, c10_trendsi_init_s255, c10_trendsi_init_b4, c10_trendsi_init_b255, c10_trendsi_init_f254);
indicator!(mk_true_si, c10_truesi_validate, c10_truesi_init_s254, c10_truesi_init_s255, c10_truesi_init_b4, c10_truesi_init_b255, c10_truesi_init_f254);
indicator!(mk_woodies, c10_woodies_validate, c10_woodies_init_s254, c10_woodies_init_s255, c10_woodies_init_b4, c10_woodies_init_b255, c10_woodies_init_f254);

// ---------------------------------------------------------------------------
// accepted instances: one `next` (the stream half of C10 belongs to the X engine; these
// two are here because validate() accepts a zero period that the field documents as out
// of range and the very first `next` then pushes into an empty window)
use yata::core::IndicatorInstance;

/// MoneyFlowIndex, period 1 (the complement of c10_mfi_next_p0 at its smallest value; a
/// symbolic period 1..=4 exceeds 13 GB): accepted, one next() returns
#[kani::proof]
#[kani::unwind(4)]
fn c10_mfi_next_p1() {
	let cfg = MoneyFlowIndex { period: 1, zone: 0.2 };
	let mut i = cfg.init(&CANDLE).unwrap();
	let _ = i.next(&CANDLE);
	kani::cover!(true, "returned for period 1");
}

/// MoneyFlowIndex { period: 0 }: either rejected (validate() false and init Err) or the accepted
/// instance survives its first next() (value class of a repaired finding: push into an empty window)
#[kani::proof]
#[kani::unwind(7)]
fn c10_mfi_next_p0() {
	let cfg = MoneyFlowIndex { period: 0, zone: 0.2 };
	let ok = cfg.validate();
	match cfg.init(&CANDLE) {
		Ok(mut i) => {
			assert!(ok, "init accepts only what validate() accepts");
			let _ = i.next(&CANDLE);
		}
		Err(_) => {}
	}
	kani::cover!(true, "end reachable");
}

/// IchimokuCloud l1 1, l2 2, l3 3, m 1 (complement of c10_ichimoku_next_m0 at its smallest
/// value): accepted, one next() returns
#[kani::proof]
#[kani::unwind(6)]
fn c10_ichimoku_next_m1() {
	let cfg = IchimokuCloud { l1: 1, l2: 2, l3: 3, m: 1, source: Source::Close };
	let mut i = cfg.init(&CANDLE).unwrap();
	let _ = i.next(&CANDLE);
	kani::cover!(true, "returned for m 1");
}

/// IchimokuCloud { m: 0 }: either rejected or the accepted instance survives its first next()
/// (value class of a repaired finding: push into an empty window)
#[kani::proof]
#[kani::unwind(7)]
fn c10_ichimoku_next_m0() {
	let cfg = IchimokuCloud { l1: 1, l2: 2, l3: 3, m: 0, source: Source::Close };
	let ok = cfg.validate();
	match cfg.init(&CANDLE) {
		Ok(mut i) => {
			assert!(ok, "init accepts only what validate() accepts");
			let _ = i.next(&CANDLE);
		}
		Err(_) => {}
	}
	kani::cover!(true, "end reachable");
}
