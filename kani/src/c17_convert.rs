//! C17 — timeseries converters, K part: CollapseTimeframe (timing + open/high/low/close),
//! HeikinAshi (recursion, validity of the output), RenkoOutput iterator protocol.
//! Volume sums of CollapseTimeframe for period > 1 and the Renko brick algebra are decided
//! by the other engine; Renko::next at the brick boundary is a separate harness family.
use crate::util::*;
use yata::core::{Candle, Method, Sequence, Source, ValueType, OHLCV};
use yata::methods::renko::{RenkoBlock, RenkoOutput};
use yata::methods::{CollapseTimeframe, HeikinAshi, Renko};

/// same float: identical bits, or both NaN
#[inline]
fn same(a: ValueType, b: ValueType) -> bool {
	a.to_bits() == b.to_bits() || (a.is_nan() && b.is_nan())
}

/// candle with five arbitrary finite fields (no ordering, any sign)
fn fin_candle() -> Candle {
	Candle {
		open: any_finite(),
		high: any_finite(),
		low: any_finite(),
		close: any_finite(),
		volume: any_finite(),
	}
}

// ---------------------------------------------------------------------------------------
// CollapseTimeframe

/// `N = 2 * P + 1` symbolic finite candles through `CollapseTimeframe::new(P, _)`:
/// `next` is `Some` exactly on every P-th call; the emitted candle has the first open, the
/// greatest high, the least low and the last close of the P collapsed inputs and agrees on
/// these four fields, bit for bit, with `Sequence::collapse_timeframe(P, false)`
/// (`continuous = false`: consecutive, non-overlapping windows).
fn collapse_case<const P: usize, const N: usize>() {
	let mut cs = [Candle::default(); N];
	let mut i = 0;
	while i < N {
		cs[i] = fin_candle();
		i += 1;
	}
	let mut m = CollapseTimeframe::<Candle>::new(P, &cs[0]).unwrap();
	let mut outs: [Option<Candle>; N] = [None; N];
	let mut i = 0;
	while i < N {
		outs[i] = m.next(&cs[i]);
		i += 1;
	}
	let batch: Vec<Candle> = Sequence::<Candle>::collapse_timeframe(&cs, P, false);
	assert!(batch.len() == N / P, "batch collapse yields one candle per complete window");
	let mut i = 0;
	while i < N {
		if (i + 1) % P == 0 {
			assert!(outs[i].is_some(), "a candle is emitted on every period-th input");
			let o = outs[i].unwrap();
			let g = (i + 1) / P - 1;
			let first = g * P;
			assert!(o.open.to_bits() == cs[first].open.to_bits(), "emitted open is the first open");
			assert!(o.close.to_bits() == cs[i].close.to_bits(), "emitted close is the last close");
			let mut hi_is_input = false;
			let mut lo_is_input = false;
			let mut j = first;
			while j <= i {
				assert!(cs[j].high <= o.high, "emitted high is not below any collapsed high");
				assert!(cs[j].low >= o.low, "emitted low is not above any collapsed low");
				hi_is_input |= cs[j].high.to_bits() == o.high.to_bits();
				lo_is_input |= cs[j].low.to_bits() == o.low.to_bits();
				j += 1;
			}
			assert!(hi_is_input, "emitted high is one of the collapsed highs");
			assert!(lo_is_input, "emitted low is one of the collapsed lows");
			let b = batch[g];
			assert!(
				b.open.to_bits() == o.open.to_bits()
					&& b.high.to_bits() == o.high.to_bits()
					&& b.low.to_bits() == o.low.to_bits()
					&& b.close.to_bits() == o.close.to_bits(),
				"streaming and batch collapse agree on open/high/low/close"
			);
			if P == 1 {
				assert!(o == cs[i], "period 1 is the identity (volume included)");
				assert!(b == cs[i], "batch collapse with size 1 is the identity (volume included)");
			}
		} else {
			assert!(outs[i].is_none(), "nothing is emitted between period boundaries");
		}
		i += 1;
	}
	let last = outs[2 * P - 1].unwrap();
	kani::cover!(last.high > cs[P].high && last.high > cs[2 * P - 1].high || P < 3, "highest high strictly inside the second window");
	kani::cover!(last.low < last.open && last.high > last.close, "emitted candle with a real range");
	kani::cover!(last.high.to_bits() != cs[2 * P - 1].high.to_bits() || P == 1, "emitted high differs from the last high");
}

macro_rules! collapse_period {
	($name:ident, $p:expr, $unw:expr) => {
		#[kani::proof]
		#[kani::unwind($unw)]
		fn $name() {
			collapse_case::<$p, { 2 * $p + 1 }>();
		}
	};
}
collapse_period!(c17_collapse_p1, 1, 5);
collapse_period!(c17_collapse_p2, 2, 7);
collapse_period!(c17_collapse_p3, 3, 9);
collapse_period!(c17_collapse_p4, 4, 11);

/// period 0 is rejected by the constructor ("period must be > 0")
#[kani::proof]
#[kani::unwind(2)]
fn c17_collapse_p0_rejected() {
	let c = fin_candle();
	let r = CollapseTimeframe::<Candle>::new(0, &c);
	assert!(r.is_err(), "period 0 is rejected");
	let p: usize = kani::any();
	kani::assume(p >= 1);
	assert!(CollapseTimeframe::<Candle>::new(p, &c).is_ok(), "every period >= 1 is accepted");
	kani::cover!(p == usize::MAX, "largest period reachable");
}

// ---------------------------------------------------------------------------------------
// HeikinAshi

#[inline]
fn ohlc4_of(c: &Candle) -> ValueType {
	(c.high + c.low + c.close + c.open) * 0.25
}

fn raw_candle() -> Candle {
	Candle { open: kani::any(), high: kani::any(), low: kani::any(), close: kani::any(), volume: kani::any() }
}

/// recursion, bit-exact, two steps after `new(first)` on unrestricted floats:
///   open_0 = ohlc4(first), open_{t+1} = (open_t + close_t) / 2, close_t = ohlc4(input_t)
#[kani::proof]
#[kani::unwind(2)]
fn c17_ha_recursion() {
	let first = raw_candle();
	let c1 = raw_candle();
	let c2 = raw_candle();
	let mut ha = HeikinAshi::new((), &first).unwrap();
	let o1 = ha.next(&c1);
	let o2 = ha.next(&c2);
	assert!(same(o1.open, ohlc4_of(&first)), "first open is ohlc4 of the initial candle");
	assert!(same(o1.close, ohlc4_of(&c1)), "close is ohlc4 of the input (step 1)");
	assert!(same(o2.open, (o1.open + o1.close) * 0.5), "open is the mean of the previous open and close");
	assert!(same(o2.close, ohlc4_of(&c2)), "close is ohlc4 of the input (step 2)");
	kani::cover!(o2.open.is_finite() && o2.open != o1.open && o2.open > 0.0, "moving open reachable");
	kani::cover!(o2.close.is_finite() && o2.close != o1.close, "moving close reachable");
}

/// high_t = max(input high, open_t, close_t), low_t = min(input low, open_t, close_t), volume passes through
/// (selections only; two steps, unrestricted floats)
#[kani::proof]
#[kani::unwind(2)]
fn c17_ha_selection() {
	let first = raw_candle();
	let c1 = raw_candle();
	let c2 = raw_candle();
	let mut ha = HeikinAshi::new((), &first).unwrap();
	let o1 = ha.next(&c1);
	let o2 = ha.next(&c2);
	assert!(o1.volume.to_bits() == c1.volume.to_bits() && o2.volume.to_bits() == c2.volume.to_bits(), "volume passes through");
	// the Heikin-Ashi high/low are the extremes of the input high/low, the HA open and the HA close
	assert!(!(c2.high > o2.high) && !(o2.open > o2.high) && !(o2.close > o2.high), "high is not below the input high, the open or the close");
	assert!(same(o2.high, c2.high) || same(o2.high, o2.open) || same(o2.high, o2.close), "high is the input high, the open or the close");
	assert!(!(c2.low < o2.low) && !(o2.open < o2.low) && !(o2.close < o2.low), "low is not above the input low, the open or the close");
	assert!(same(o2.low, c2.low) || same(o2.low, o2.open) || same(o2.low, o2.close), "low is the input low, the open or the close");
	assert!(!(c1.high > o1.high) && !(o1.open > o1.high) && !(o1.close > o1.high) && (same(o1.high, c1.high) || same(o1.high, o1.open) || same(o1.high, o1.close)), "step 1 high is max(input high, open, close)");
	assert!(!(c1.low < o1.low) && !(o1.open < o1.low) && !(o1.close < o1.low) && (same(o1.low, c1.low) || same(o1.low, o1.open) || same(o1.low, o1.close)), "step 1 low is min(input low, open, close)");
	kani::cover!(o2.high > c2.high && o2.open.is_finite(), "open widens the high");
	kani::cover!(o2.low < c2.low && o2.open.is_finite(), "open widens the low");
	kani::cover!(o2.high == c2.high && o2.low == c2.low && o2.open > c2.low && o2.open < c2.high, "open inside the input range");
}

/// valid in the documented sense: `validate()` and open inside [low, high] (docs of
/// `OHLCV::validate`: "low cannot be more than any other value of the candle"); prices inside
/// the magnitude window so that the four-term sum cannot overflow
fn valid_candle() -> Candle {
	let c = Candle { open: any_val(), high: any_val(), low: any_val(), close: any_val(), volume: kani::any() };
	kani::assume(c.validate());
	kani::assume(c.low <= c.open && c.open <= c.high);
	c
}

/// one step: initial candle and input valid (open inside the range)  =>  output validates
#[kani::proof]
#[kani::unwind(2)]
fn c17_ha_valid_step1() {
	let first = valid_candle();
	let c1 = valid_candle();
	let mut ha = HeikinAshi::new((), &first).unwrap();
	let o1 = ha.next(&c1);
	assert!(o1.validate(), "output of a valid input is valid");
	assert!(o1.low <= o1.open && o1.open <= o1.high, "output open lies inside [low, high] (docs reading of valid)");
	kani::cover!(o1.high > c1.high, "open above the input high reachable");
	kani::cover!(o1.low < c1.low, "open below the input low reachable");
	kani::cover!(c1.volume.is_nan(), "absent volume reachable");
}

/// two steps
#[kani::proof]
#[kani::unwind(2)]
fn c17_ha_valid_step2() {
	let first = valid_candle();
	let c1 = valid_candle();
	let c2 = valid_candle();
	let mut ha = HeikinAshi::new((), &first).unwrap();
	let o1 = ha.next(&c1);
	let o2 = ha.next(&c2);
	assert!(o1.validate(), "output of a valid input is valid (step 1)");
	assert!(o2.validate(), "output of a valid input is valid (step 2)");
	assert!(o1.low <= o1.open && o1.open <= o1.high, "output open lies inside [low, high] (step 1)");
	assert!(o2.low <= o2.open && o2.open <= o2.high, "output open lies inside [low, high] (step 2)");
	kani::cover!(o2.high > c2.high, "open above the input high reachable");
	kani::cover!(o2.low < c2.low, "open below the input low reachable");
}

/// the input class the docs and `validate()` disagree on: `validate()` accepts the input but
/// its open lies outside [low, high].  (isolated: the output is NOT always valid here)
#[kani::proof]
#[kani::unwind(2)]
fn c17_ha_valid_open_outside() {
	let first = valid_candle();
	let c1 = Candle { open: any_val(), high: any_val(), low: any_val(), close: any_val(), volume: kani::any() };
	kani::assume(c1.validate());
	kani::assume(c1.open > c1.high || c1.open < c1.low);
	let mut ha = HeikinAshi::new((), &first).unwrap();
	let o1 = ha.next(&c1);
	assert!(o1.validate(), "output of an input accepted by validate() with open outside [low, high] is valid");
	kani::cover!(o1.validate(), "valid output reachable in this class too");
}

// ---------------------------------------------------------------------------------------
// RenkoOutput iterator protocol
//
// `RenkoOutput` has private fields, no constructor and no `Deserialize`: through the public
// API it cannot be built from arbitrary field values.  The harnesses below therefore range
// over the outputs of one `Renko::next` call: brick size 0.25, first price 100 (bricks
// [87.5, 112.5], thresholds 65.625 / 140.625 — all exact in f32 and f64), symbolic next
// price in [30, 253): 0 bricks, 1..=2 falling bricks or 1..=4 rising bricks.

const RENKO_MAX: usize = 4;

fn renko_output() -> RenkoOutput {
	let first = Candle { close: 100.0, ..Candle::default() };
	let mut r = Renko::new((0.25, Source::Close), &first).unwrap();
	let w: ValueType = kani::any();
	kani::assume(w >= 30.0 && w < 253.0);
	let out = r.next(&Candle { close: w, volume: 8.0, ..Candle::default() });
	// bound used for unwinding (not an assertion about Renko's arithmetic)
	kani::assume(out.len() <= RENKO_MAX);
	out
}

#[inline]
fn same_block(a: &RenkoBlock, b: &RenkoBlock) -> bool {
	same(a.open, b.open) && same(a.close, b.close) && same(a.volume, b.volume)
}

/// size_hint / len / count / is_empty / next / last agree before and after j <= len steps;
/// the iterator is fused
#[kani::proof]
#[kani::unwind(7)]
fn c17_renko_iter_protocol() {
	let out = renko_output();
	let n = out.len();
	assert!(out.size_hint() == (n, Some(n)), "size_hint is exact");
	assert!(out.is_empty() == (n == 0), "is_empty iff no block");
	assert!(out.clone().count() == n, "count == len");
	let j: usize = kani::any();
	kani::assume(j <= n);
	let mut it = out.clone();
	let mut i = 0;
	while i < j {
		assert!(it.next().is_some(), "next yields while blocks remain");
		i += 1;
	}
	let rem = n - j;
	assert!(it.len() == rem, "len after j steps");
	assert!(it.size_hint() == (rem, Some(rem)), "size_hint after j steps");
	assert!(it.clone().count() == rem, "count after j steps");
	let l = it.clone().last();
	assert!(l.is_some() == (rem > 0), "last of the rest is Some iff blocks remain");
	let mut rest = it.clone();
	let mut cnt = 0;
	let mut lb: Option<RenkoBlock> = None;
	while cnt <= RENKO_MAX {
		match rest.next() {
			Some(b) => {
				lb = Some(b);
				cnt += 1;
			}
			None => break,
		}
	}
	assert!(cnt == rem, "next yields exactly len blocks");
	assert!(
		match (l, lb) {
			(Some(a), Some(b)) => same_block(&a, &b),
			(None, None) => true,
			_ => false,
		},
		"last() is the last block next() yields"
	);
	assert!(rest.next().is_none() && rest.next().is_none(), "fused: None after the end");
	assert!(rest.len() == 0 && rest.size_hint() == (0, Some(0)), "exhausted iterator has length 0");
	kani::cover!(n == RENKO_MAX && j == 2 && out.is_rising(), "four rising blocks, two consumed");
	kani::cover!(n == 2 && out.is_falling() && j == 0, "two falling blocks");
	kani::cover!(n == 0, "no block");
	kani::cover!(n == 1 && j == 1, "single block consumed");
}

/// nth(k) with k < remaining is the (k+1)-th next()
#[kani::proof]
#[kani::unwind(7)]
fn c17_renko_iter_nth_within() {
	let out = renko_output();
	let n = out.len();
	let j: usize = kani::any();
	kani::assume(j <= n);
	let mut it = out.clone();
	let mut i = 0;
	while i < j {
		let _ = it.next();
		i += 1;
	}
	let rem = n - j;
	let k: usize = kani::any();
	kani::assume(k < rem);
	let mut by_next = it.clone();
	let mut b: Option<RenkoBlock> = None;
	let mut i = 0;
	while i <= k {
		b = by_next.next();
		i += 1;
	}
	let got = it.nth(k);
	assert!(
		match (got, b) {
			(Some(x), Some(y)) => same_block(&x, &y),
			_ => false,
		},
		"nth(k) inside the rest is the (k+1)-th block"
	);
	assert!(it.len() == rem - k - 1, "nth(k) consumes k+1 blocks");
	kani::cover!(n == RENKO_MAX && j == 1 && k == 2, "nth(2) of three remaining");
	kani::cover!(k == 0 && rem == 1, "nth(0) of one remaining");
}

/// nth(k) with k >= remaining is None and leaves an exhausted iterator
#[kani::proof]
#[kani::unwind(7)]
fn c17_renko_iter_nth_beyond() {
	let out = renko_output();
	let n = out.len();
	let j: usize = kani::any();
	kani::assume(j <= n);
	let mut it = out.clone();
	let mut i = 0;
	while i < j {
		let _ = it.next();
		i += 1;
	}
	let rem = n - j;
	let k: usize = kani::any();
	kani::assume(k >= rem);
	let got = it.nth(k);
	assert!(got.is_none(), "nth beyond the end is None");
	assert!(it.next().is_none(), "nth beyond the end leaves the iterator exhausted");
	kani::cover!(rem == 0 && k == 0, "nth(0) on an exhausted iterator");
	kani::cover!(rem == 2 && k == 2, "nth(len) of two remaining");
}
