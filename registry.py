"""Obligations per property: one module per property under /verif/reg (cNN.py),
each defining PROP = {"id", "jobs": callable -> [K|X jobs], "bounds", "outside",
"assumptions"}.  K = Kani harness (module::fn in /verif/kani/src), X = rsx job.
tier 'q' = quick+thorough, 't' = thorough only.  core obligations must reach a
verdict; deepening ones (core=False) are best effort."""
import importlib
import os
import sys

HERE = os.path.dirname(os.path.abspath(__file__))
sys.path.insert(0, os.path.join(HERE, "lib"))
sys.path.insert(0, os.path.join(HERE, "reg"))

PROPS = {}
for f in sorted(os.listdir(os.path.join(HERE, "reg"))):
    if f.startswith("c") and f.endswith(".py") and not f.endswith("_k.py") and not f.endswith("_extra.py"):
        m = importlib.import_module(f[:-3])
        if hasattr(m, "PROP"):
            PROPS[m.PROP["id"]] = m.PROP


def jobs_for(prop):
    if prop not in PROPS:
        return []
    return PROPS[prop]["jobs"]()
