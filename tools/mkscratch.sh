#!/bin/bash
# tools/mkscratch.sh <dir>: private copy of /verif + worktree of /repo at <dir>, with every /repo path
# redirected, so that seeded changes can be evaluated without touching /repo itself.
D=$1
rm -rf $D; mkdir -p $D
git -C /repo worktree prune
git -C /repo worktree add -q --detach $D/repo HEAD
rsync -a --exclude target --exclude logs --exclude replays --exclude .git --exclude evidence /verif/ $D/verif/
mkdir -p $D/verif/evidence
sed -i "s#path = \"/repo\"#path = \"$D/repo\"#" $D/verif/kani/Cargo.toml $D/verif/rsx/shim/Cargo.toml
sed -i "s#^REPO = \"/repo\"#REPO = \"$D/repo\"#" $D/verif/lib/driver.py
# reuse the built rsx binary
mkdir -p $D/verif/rsx/target/release && cp /verif/rsx/target/release/rsx $D/verif/rsx/target/release/ 2>/dev/null
echo $D
