#!/usr/bin/env python3
"""tools/evalmut2.py <sandbox> <seeded id>: apply a seeded change in the sandbox, run the property's quick check
restricted to the obligations that name the changed file/struct first (fast path); if that does not report a
violation, run the whole quick check. Prints one result line 'seeded/<id>: rc=.. n violation lines; ...'."""
import os, re, subprocess, sys
sb, sid = sys.argv[1], sys.argv[2]
prop = sid.split("_")[0]
patch = "/verif/seeded/%s/patch.diff" % sid
txt = open(patch).read()
files = sorted(set(re.findall(r"^\+\+\+ b/(\S+)", txt, re.M)))
keys = []
for f in files:
    base = os.path.basename(f)[:-3]
    keys.append(base)
    try:
        src = open(os.path.join(sb, "repo", f)).read()
        for m in re.finditer(r"pub struct (\w+)", src):
            n = m.group(1)
            if not n.endswith("Instance"):
                keys += [n, n.lower()]
    except OSError:
        pass
    keys.append(base.replace("_", ""))
keys = [k for k in dict.fromkeys(keys) if len(k) >= 3][:12]
repo = os.path.join(sb, "repo")
verif = os.path.join(sb, "verif")
if subprocess.run(["git", "diff", "--quiet"], cwd=repo).returncode != 0:
    print("seeded/%s: sandbox repo dirty" % sid); sys.exit(9)
if subprocess.run(["git", "apply", patch], cwd=repo).returncode != 0:
    print("seeded/%s: patch does not apply" % sid); sys.exit(9)
try:
    def run(extra, tag):
        log = "/var/tmp/evlog/evalmut2.%s.%s.log" % (sid, tag)
        with open(log, "w") as f:
            rc = subprocess.run(["timeout", "5400", "./check", prop, "--jobs", os.environ.get("EV_JOBS", "8")] + extra, cwd=verif, stdout=f, stderr=subprocess.STDOUT).returncode
        lines = [l.strip() for l in open(log, errors="replace") if l.startswith(("VIOLATION", "INCONCLUSIVE", "OK "))]
        return rc, lines
    only = []
    for k in keys:
        only += ["--only", k]
    rc, lines = run(only, "fast")
    phase = "restricted to obligations naming %s" % "/".join(keys[:6])
    if rc != 1:
        rc, lines = run([], "full")
        phase = "full quick check"
    nv = sum(l.startswith("VIOLATION") for l in lines)
    print("seeded/%s: rc=%d %d violation lines; [%s] %s" % (sid, rc, nv, phase, " ".join(lines[:3])[:600]))
finally:
    subprocess.run(["git", "checkout", "--", "."], cwd=repo)
