#!/bin/bash
# tools/evalmut.sh <PROP> <patch.diff> [extra check args]   — apply a seeded change to /repo, run the check, undo it.
P=$1; PATCH=$2; shift 2
cd ${EVAL_ROOT:-}/repo || exit 9
if ! git diff --quiet; then echo "/repo has uncommitted changes"; exit 9; fi
git apply "$PATCH" || { echo "patch does not apply"; exit 9; }
cd ${EVAL_ROOT:-}/verif
timeout 3000 ./check $P "$@" > /var/tmp/evlog/evalmut.$P.$$.log 2>&1
rc=$?
git -C ${EVAL_ROOT:-}/repo checkout -- .
echo "rc=$rc $(grep -c '^VIOLATION' /var/tmp/evlog/evalmut.$P.$$.log) violation lines; $(grep '^VIOLATION\|^INCONCLUSIVE\|^OK' /var/tmp/evlog/evalmut.$P.$$.log | head -3 | cut -c1-220)"
exit $rc
