#!/usr/bin/env python3
"""Regenerate /verif/MANIFEST.json from the registry modules (reg/cNN.py) and properties.jsonl."""
import json, os, sys
HERE = os.path.dirname(os.path.dirname(os.path.abspath(__file__)))
sys.path.insert(0, HERE)
import registry

props = [json.loads(l) for l in open(os.path.join(HERE, "properties.jsonl"))]
NA = {}
na_file = os.path.join(HERE, "reg", "not_applicable.json")
if os.path.exists(na_file):
    NA = json.load(open(na_file))
checks = []
not_app = []
serves = {"K": [], "X": []}
for p in props:
    pid = p["id"]
    info = registry.PROPS.get(pid)
    if info is None or not info.get("claimed", True):
        not_app.append({"property_id": pid, "reason": NA.get(pid, "check not built yet in this round (planned, see DESIGN.md §7)")})
        continue
    jobs = info["jobs"]()
    kinds = sorted(set(j.kind for j in jobs))
    eng = "+".join({"kani": "K", "rsx": "X"}[k] for k in kinds if k != "scan") or "X"
    for k in kinds:
        if k != "scan":
            serves[{"kani": "K", "rsx": "X"}[k]].append(pid)
    b = info.get("bounds", {})
    text = info.get("claim") or ("Bounded, solver-decided: no counterexample within the bounds. quick: %s. thorough: %s." % (b.get("quick", ""), b.get("thorough", "")))
    tech = info.get("technique") or {
        "K": "bounded model checking of the compiled crate with Kani/CBMC (symbolic inputs, unwinding assertions on)",
        "X": "symbolic execution of the crate's source (rsx) with SMT (z3, cvc5) deciding every path obligation; counterexamples replayed natively",
        "K+X": "Kani/CBMC bounded model checking of the compiled crate + source-level symbolic execution (rsx) decided by z3/cvc5",
    }[eng]
    checks.append({
        "property_id": pid,
        "quick_cmd": "./check %s --tier quick" % pid,
        "thorough_cmd": "./check %s --tier thorough" % pid,
        "evidence_file": "/verif/evidence/%s.json" % pid,
        "replay_cmd_template": "./check %s --replay {path}" % pid,
        "engine": eng,
        "level_claimed": {"category": "model_checking", "text": text, "design_ref": "DESIGN.md §7 %s" % pid},
        "level_note": info.get("note") or ("Trusted base: " + "; ".join(info.get("assumptions", [])[:4]) + ". Outside the claim: " + "; ".join(info.get("outside", [])[:4])),
        "technique": tech,
    })
m = {
    "version": 1,
    "setup_cmd": "cd /verif/rsx && cargo build --release --offline",
    "hooks": {"guard": "none", "enable": "no source hooks: the Kani harness crate and the native replay shim depend on /repo by path; rsx parses /repo/src on every run",
              "baseline_off_cmd": "cd /repo && cargo test --workspace --no-fail-fast --offline", "source_commits": [], "add_only": True},
    "engines": [
        {"name": "K", "path": "/verif/kani", "serves_properties": serves["K"], "kind_free_text": "Kani 0.68 / CBMC 6.11 harness crate over the public API of /repo (path dependency): bounded model checking of the compiled code, unwinding assertions on, counterexamples replayed through cargo kani playback"},
        {"name": "X", "path": "/verif/rsx", "serves_properties": serves["X"], "kind_free_text": "rsx: symbolic executor for the crate's Rust source (syn parser, concrete integers, floats as SMT reals or (real, zero-sign) pairs), z3 incremental + standalone z3/cvc5 for non-linear queries, DFS by replay with merging of pure branches; translator validation against the native build on every job; counterexamples replayed natively"},
    ],
    "checks": checks,
    "notes": "Genuine defects found and repaired upstream are listed in /verif/known_findings.json (status fixed); open findings there produce KNOWN-FINDING lines. Exit 2 of a check = inconclusive (never a VIOLATION line).",
    "not_applicable": not_app,
}
json.dump(m, open(os.path.join(HERE, "MANIFEST.json"), "w"), indent=1)
print("checks:", [c["property_id"] for c in checks], "not_applicable:", [n["property_id"] for n in not_app])
