#!/bin/bash
# tools/confirmmut.sh <dir with patch_k.diff demo_k.rs> <k> : confirm in a scratch worktree that the
# (FEAT='--features period_type_u16' for demos that need a feature)
# patched crate builds, passes the suite, and that the demo fails with / passes without the patch
D=$1; K=$2
W=$(mktemp -d /tmp/cm.XXXX)
git -C /repo worktree add -q --detach $W/wt HEAD
cd $W/wt && mkdir -p tests && cp $D/demo_$K.rs tests/demo_$K.rs
export CARGO_TARGET_DIR=$W/target
cargo test --offline $FEAT --test demo_$K > $W/clean.log 2>&1; c=$?
git apply $D/patch_$K.diff || echo "APPLY FAILED"
cargo test --offline --lib > $W/suite.log 2>&1; s=$?
cargo test --offline $FEAT --test demo_$K > $W/mut.log 2>&1; m=$?
echo "k=$K demo_on_clean_rc=$c suite_with_patch_rc=$s ($(grep 'test result' $W/suite.log | head -1)) demo_with_patch_rc=$m"
cd /; git -C /repo worktree remove --force $W/wt; rm -rf $W
