#!/bin/bash
# tools/syncscratch.sh <dir>: bring a scratch made by mkscratch.sh up to date with /verif and /repo HEAD
D=$1
git -C $D/repo checkout -q -- . && git -C $D/repo checkout -q --detach $(git -C /repo rev-parse HEAD)
rsync -a --exclude target --exclude logs --exclude replays --exclude .git --exclude evidence --exclude __pycache__ /verif/ $D/verif/
sed -i "s#path = \"/repo\"#path = \"$D/repo\"#" $D/verif/kani/Cargo.toml $D/verif/rsx/shim/Cargo.toml
sed -i "s#^REPO = \"/repo\"#REPO = \"$D/repo\"#" $D/verif/lib/driver.py
cp /verif/rsx/target/release/rsx $D/verif/rsx/target/release/ 2>/dev/null
echo synced $D at $(git -C $D/repo rev-parse --short HEAD)
