#!/bin/bash
# tools/round2collect.sh: gather /var/tmp/evlog/round2.<id>.result into seeded/eval/round2.results and regenerate seeded/RESULTS.md
cd /verif
: > seeded/eval/round2.results
for f in /var/tmp/evlog/round2.*.result; do
  id=$(basename $f .result); id=${id#round2.}
  [ -s $f ] || continue
  [ -d seeded/$id ] || continue
  { printf "seeded/%s: " $id; cat $f; } >> seeded/eval/round2.results
done
[ -s /var/tmp/evlog/c07_1_new.result ] && { printf "seeded/C07_1: "; cat /var/tmp/evlog/c07_1_new.result; } >> seeded/eval/round2.results
python3 tools/mutsummary.py seeded/eval/*.results
