#!/bin/bash
# tools/round2.sh <PROP> <k> <sandbox>: second-round seeded change delivered in /tmp/mw/<PROP>/out:
# confirm (tools/confirmmut.sh), store as seeded/<PROP>_<k>/, evaluate with the quick check in <sandbox>.
P=$1; K=$2; SB=$3
O=/tmp/mw/$P/out
cp $O/patch.diff $O/patch_$K.diff; cp $O/demo.rs $O/demo_$K.rs
c=$(FEAT="$FEAT" /verif/tools/confirmmut.sh $O $K 2>&1 | tail -1)
echo "CONFIRM $P_$K: $c"
case "$c" in *"demo_on_clean_rc=0 suite_with_patch_rc=0"*"demo_with_patch_rc=101"*) ;; *) echo "NOT CONFIRMED"; exit 3;; esac
mkdir -p /verif/seeded/${P}_$K
cp $O/patch.diff $O/demo.rs /verif/seeded/${P}_$K/
python3 - $O/meta.json /verif/seeded/${P}_$K/meta.json "$c" <<'PY'
import json,sys
m=json.load(open(sys.argv[1])); m["confirmed"]="tools/confirmmut.sh: "+sys.argv[3]; m["round"]=2
json.dump(m,open(sys.argv[2],"w"),indent=1)
PY
EVAL_ROOT=$SB /verif/tools/evalmut.sh $P /verif/seeded/${P}_$K/patch.diff --jobs ${JOBS:-8} | tee /var/tmp/evlog/round2.${P}_$K.result
