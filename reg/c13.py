from regbase import K, X, S

W = "src/core/window.rs: "
WSER = [W + "impl Serialize for Window<T>", W + "impl Deserialize for Window<T>", W + "SerializableWindow (derive Deserialize)",
        W + "Window::from_parts", W + "Window::push", W + "Index<PeriodType>::index", W + "Window::oldest", W + "Window::newest"]
WDE = [W + "impl Deserialize for Window<T>", W + "SerializableWindow (derive Deserialize)", W + "Window::from_parts"]
F = ["serde"]
TOK = "in-harness token format (kani/src/tok.rs); "

COST_G = {"a": 140, "b": 125, "c": 175, "d": 215, "e": 100, "f": 110}
CFG_GROUPS = {
    "a": "Aroon, AverageDirectionalIndex, AwesomeOscillator, BollingerBands, ChaikinMoneyFlow, ChaikinOscillator",
    "b": "ChandeKrollStop, ChandeMomentumOscillator, CommodityChannelIndex, CoppockCurve, DetrendedPriceOscillator, DonchianChannel",
    "c": "EaseOfMovement, EldersForceIndex, Envelopes, FisherTransform, HullMovingAverage, IchimokuCloud, Kaufman",
    "d": "KeltnerChannel, KlingerVolumeOscillator, KnowSureThing, MACD, MomentumIndex, MoneyFlowIndex",
    "e": "ParabolicSAR, PivotReversalStrategy, PriceChannelStrategy, RelativeStrengthIndex, RelativeVigorIndex, SMIErgodicIndicator",
    "f": "StochasticOscillator, TrendStrengthIndex, Trix, TrueStrengthIndex, WoodiesCCI",
}


def c13():
    j = [S("serde_is_derived", "every method / indicator / config struct and enum other than Window and SMM derives Serialize and Deserialize under the serde feature without field attributes (skip/default/with/...) and without a hand-written impl: their serialized form is the field-wise one decided by the K harnesses", features=("serde",))]
    # (a) hand-written Window impls: round trip
    for cap, cost, tier in ((1, 45, "q"), (2, 50, "q"), (3, 55, "q"), (4, 60, "t"), (5, 65, "t"), (8, 70, "t")):
        j.append(K("c13_serde::c13_window_rt_cap%d" % cap,
                   TOK + "Window<u8> capacity %d, symbolic phase and contents: serialized form is exactly {buf (storage order), index}; from_tokens(to_tokens(w)) observes the same sequence (Index at symbolic k, oldest, newest, iter, iter_rev) and continues identically for two pushes" % cap,
                   features=F, stubbing=True, encodes=WSER, cost=cost, timeout=600, tier=tier))
    # (b) adversarial serialized forms
    for n in (0, 1, 2, 3):
        j.append(K("c13_serde::c13_window_adv_len%d" % n,
                   TOK + "hand-built {buf: %d symbolic u8 elements, index: any u64}: Err iff index >= len (len 0: only index 0, the serialized empty window, is accepted), never a panic; Ok => equals from_parts(buf, index)" % n,
                   features=F, stubbing=True, encodes=WDE, cost=30, timeout=600))
        j.append(K("c13_serde::c13_window_advswap_len%d" % n,
                   TOK + "same with the fields in the order {index, buf} (struct handed to the derived visitor as a map keyed by name), len %d" % n,
                   features=F, stubbing=True, encodes=WDE, cost=30, timeout=600, tier="q" if n in (0, 2) else "t"))
    for n, tier in ((254, "q"), (255, "q"), (256, "t"), (300, "q")):
        j.append(K("c13_serde::c13_window_adv_unit%d" % n,
                   TOK + "Window<()> buffer of %d zero-sized elements (the validation does not depend on T), index any u64: Err iff len >= PeriodType::MAX or index >= len, never a panic, no truncated length" % n,
                   features=F, stubbing=True, encodes=WDE, cost=75, timeout=900, tier=tier))
    for n in (254, 255):
        j.append(K("c13_serde::c13_window_adv_big%d" % n,
                   TOK + "Window<u8> buffer of %d equal symbolic elements, index any u64: Err iff len >= 255 or index >= len; accepted window has that content" % n,
                   features=F, stubbing=True, encodes=WDE, cost=900, timeout=3000, tier="t", core=False))
    # (c) derived impls, token-level idempotence
    IDEM = "to_tokens(from_tokens(to_tokens(x))) == to_tokens(x) token by token (floats as bit patterns) and field-wise equality; "
    j.append(K("c13_serde::c13_idem_enums_candle", IDEM + "Action (3 variants, symbolic value), Source (8 variants), MA (15 variants, symbolic length), Candle (5 raw f64 incl. NaN/-0.0)",
               features=F, encodes=["src/core/action.rs: derive(Serialize, Deserialize) Action", "src/core/candles.rs: derive Source, Candle", "src/helpers/methods.rs: derive MA"], cost=70, timeout=900))
    j.append(K("c13_serde::c13_idem_indicator_result", IDEM + "IndicatorResult::new with 0..=4 symbolic values and 0..=4 symbolic signals",
               features=F, encodes=["src/core/indicator/result.rs: derive IndicatorResult"], cost=115, timeout=1200, tier="t"))
    j.append(K("c13_serde::c13_idem_ema_rma_wsma", IDEM + "EMA, RMA, WSMA (newtype struct) ::new(len symbolic 1..=MAX-1, value any f64 bits)",
               features=F, encodes=["src/methods/ema.rs: derive EMA", "src/methods/rma.rs: derive RMA", "src/methods/wsma.rs: derive WSMA"], cost=55, timeout=900))
    j.append(K("c13_serde::c13_idem_ema_nested", IDEM + "DMA, DEMA, TMA, TEMA ::new(len symbolic 1..=MAX-1, value any bits), TSI::new(p1, p2 symbolic 1..=MAX-1, value any bits) (nested structs)",
               features=F, encodes=["src/methods/ema.rs: derive DMA, TMA, DEMA, TEMA", "src/methods/tsi.rs: derive TSI"], cost=175, timeout=1800, tier="t"))
    j.append(K("c13_serde::c13_idem_small_methods", IDEM + "Cross/CrossAbove/CrossUnder::new (bounded-magnitude inputs), TR::new (raw candle), HeikinAshi::new, CollapseTimeframe::new (state None, symbolic period), Renko (one concrete state per arithmetic-free Source)",
               features=F, encodes=["src/methods/cross.rs: derive Cross, CrossAbove, CrossUnder", "src/methods/tr.rs: derive TR", "src/methods/heikin_ashi.rs: derive HeikinAshi", "src/methods/collapse_timeframe.rs: derive CollapseTimeframe", "src/methods/renko.rs: derive Renko"], cost=150, timeout=1200))
    j.append(K("c13_serde::c13_cross_continues", "a restored instance continues like the original: Cross/CrossAbove/CrossUnder::new(a, b), one symbolic step, token round trip, then one more symbolic step fed to the original and to the restored instance gives the same action (bounded-magnitude inputs; covers: upward and downward cross after the snapshot)",
               features=F, encodes=["src/methods/cross.rs: derive Cross, CrossAbove, CrossUnder; Cross/CrossAbove/CrossUnder::{new,next}"], cost=60, timeout=1200))
    j.append(K("c13_serde::c13_idem_collapse_some", IDEM + "CollapseTimeframe<Candle> holding Some(symbolic candle), period 3",
               features=F, encodes=["src/methods/collapse_timeframe.rs: derive CollapseTimeframe"], cost=25, timeout=900, tier="t"))
    for g, names in CFG_GROUPS.items():
        j.append(K("c13_serde::c13_cfg_group_" + g, IDEM + "configs " + names + ": every public field symbolic (PeriodType, ValueType raw bits, bool, u8; MA fields: concrete variant per field rotating through the 15, symbolic length; Source fields: concrete variant rotating through the 8 — all variants with symbolic choice are decided in c13_idem_enums_candle)",
                   features=F, encodes=["src/indicators/*.rs: derive(Serialize, Deserialize) on " + names], cost=COST_G[g], timeout=1500))
    return j


X_ENC = ["src/core/window.rs: impl Serialize for Window, impl Deserialize for Window (interpreted from source), Window::from_parts/push/index",
         "src/methods/smm.rs: impl Serialize for SMM, impl Deserialize for SMM (interpreted from source)", "src/methods/*.rs: new/next of the named method"]


def x_jobs():
    import c09
    j = []
    F = ("serde",)
    for m in c09.METHODS + c09.SELECT + ["MedianAbsDev"]:
        n = 2 if m in ("HMA", "LinReg", "StDev") else 1
        mode = {"mode": "fp"} if m in c09.SELECT else {}
        for (nn, jj, t) in ((max(n, 3), 2, 4), (max(n, 2), 3, 5)):
            a = {"kind": m, "n": nn, "j": jj, "t": t}
            a.update(mode)
            j.append(X("c13_method", a, "%s length %d: snapshot after %d symbolic steps (ring phase %d), real Window Serialize/Deserialize bodies interpreted, derived impls field-wise; original and restored instance agree bit for bit on %d further symbolic steps" % (m, nn, jj, jj % nn, t - jj),
                       features=F, cost=5, encodes=X_ENC))
    for (n, jj, t, c) in ((1, 1, 3, 2), (2, 2, 4, 5), (3, 3, 5, 40), (3, 1, 4, 30), (4, 2, 5, 200)):
        j.append(X("c13_smm", {"n": n, "j": jj, "t": t, "mode": "fp", "max_paths": 400000},
                   "SMM length %d (fp mode: every order pattern incl. ties and +-0): snapshot after %d steps; the hand-written Deserialize (re-sort with total_cmp, middle indices) restores an instance whose peek and %d further outputs are bit-identical" % (n, jj, t - jj),
                   features=F, cost=c, tier="q" if c <= 60 else "t", core=c <= 60, encodes=X_ENC))
    for n in (0, 1, 2, 3, 4):
        for idx in sorted(set([0, 1, n - 1, n, n + 1, 255]) - set([-1])):
            j.append(X("c13_window_adversarial", {"n": n, "idx": idx}, "serialized Window<ValueType> {buf: %d symbolic values, index: %d}: accepted iff index < len or it is the serialized empty window (0 values, index 0); an accepted window has that length, oldest-first order from index, push returns the oldest" % (n, idx),
                       features=F, cost=1, encodes=X_ENC[:1]))
    for ind in c09.INDICATORS:
        j.append(X("c13_indicator", {"kind": ind, "j": 2, "t": 3, "max_paths": 20000}, "%s (default configuration): snapshot of the instance after 2 valid symbolic candles; original and restored instance return bit-identical values and equal signals on the next candle" % ind,
                   features=F, cost=15, timeout=1200, encodes=X_ENC + ["src/indicators/*.rs: %s::{init,next}" % ind]))
    return j


def c13_all():
    return c13() + x_jobs()


PROP = {
    "id": "C13",
    "jobs": c13_all,
    "bounds": {
        "quick": "Window<u8> round trip at capacity 1..=3 (every phase, symbolic contents, two continuation pushes); adversarial {buf, index} with 0..=3 elements and any u64 index in both field orders, buffers of 254/255 elements; token-level idempotence + field equality for Action, Source, MA, Candle, EMA, RMA, WSMA, Cross*, TR, HeikinAshi, CollapseTimeframe, Renko and all 36 indicator configuration structs",
        "thorough": "as quick plus Window<u8> capacity 4, 5 and 8, IndicatorResult, DMA/DEMA/TMA/TEMA/TSI, buffers of 256/300 elements, u8-element buffers of 254/255 (best effort), CollapseTimeframe holding a candle",
    },
    "outside": ["instances that contain a Window<ValueType> (every windowed method, every indicator instance): a behavioural round trip is out of Kani's reach (OOM/timeouts in probes); for them the claim rests on (1) Window<T> round-trips (decided here, T = u8 label type, the impls are parametric in T), (2) the derive writes and reads back every field with its own impl (decided here for the window-less types and all configs), (3) X's source check that the remaining types still derive both traits without serde attributes or manual impls",
                "SMM (hand-written Deserialize that re-sorts the window): not attempted under Kani (SMM alone needs 38 GB in a probe: fn-pointer recursion + sort_unstable_by + copy_within); its post-processing is decided by the X engine",
                "other serde formats: the token format is one self-describing format (structs as name-tagged fields in declaration order, or as maps in the advswap harnesses; enums by variant index; unknown fields are an error)",
                "Window capacities above 8 in the round trip; continuation beyond two pushes (C01 decides push from any ring state, so equal state after restore carries over)",
                "constructor boundary lengths 0 and PeriodType::MAX of the methods (WSMA::new(0) underflows, EMA::new(255) overflows: C10's subject)"],
    "assumptions": ["Kani 0.68 / CBMC 6.11 model of rustc MIR (dev profile); serde 1.0.229 + serde_derive as in Cargo.lock",
                    "alloc::fmt::format is stubbed in the Window harnesses (Window::deserialize builds error strings with format!; texts are dropped by the harness error type)",
                    "token equality compares names by address+length (both streams come from the same Serialize code, i.e. the same literals)",
                    "label type u8 (and () for the 254..300-element buffers) stands for every element type"],
}
