from regbase import K, X

ENC = ["src/methods/*.rs (new/next of the named method)", "src/core/window.rs", "src/helpers/methods.rs"]
MEM = {"sma": lambda n: n, "wma": lambda n: n, "swma": lambda n: n, "linreg": lambda n: n, "trima": lambda n: 2 * n - 1,
       "hma": lambda n: n + int(n ** 0.5) - 1, "smm": lambda n: n}


def x_jobs():
    j = []
    for (l, r, n, pre) in ((1, 1, 3, 300), (2, 1, 2, 270), (1, 2, 4, 260)):
        j.append(X("c07_long_stream", {"pre": pre, "t": 4, "left": l, "right": r, "n": n, "mode": "fp", "max_paths": 100000},
                   "position counters far beyond PeriodType::MAX: Upper/Lower/ReversalSignal (%d,%d) and Highest/LowestIndex(%d) fed %d concrete zig-zag inputs, then 4 symbolic inputs (all order patterns incl. ties): outputs equal the definitional pivot rule / age on the explicit history at the last 8 steps" % (l, r, n, pre),
                   cost=120, timeout=1500, encodes=["src/methods/reversal.rs: Upper/Lower/ReversalSignal::{new,next}", "src/methods/highest_lowest_index.rs: HighestIndex/LowestIndex::{new,next}", "src/core/window.rs"]))
    j.append(X("c07_long_stream", {"pre": 4096, "t": 5, "left": 2, "right": 2, "n": 2, "mode": "fp", "max_paths": 400000, "max_steps": 20000000000},
               "position counters across step 4096 (2^12): reversal detectors (2,2) and arg-extremum trackers(2) fed 4096 concrete zig-zag inputs (the last one, at position 4095, a local low), then 5 symbolic inputs at positions 4096..4100 (all order patterns incl. ties): outputs equal the definitional pivot rule / age on the explicit history at the last 9 steps",
               cost=200, timeout=2400, encodes=["src/methods/reversal.rs: Upper/Lower/ReversalSignal::{new,next}", "src/methods/highest_lowest_index.rs: HighestIndex/LowestIndex::{new,next}", "src/core/window.rs"]))
    j.append(X("c07_long_stream", {"pre": 4094, "t": 8, "left": 2, "right": 2, "n": 2, "mode": "fp", "max_paths": 400000, "max_steps": 20000000000},
               "position counters across step 4096: reversal detectors (2,2) and arg-extremum trackers(2) fed 4094 concrete zig-zag inputs, then 8 symbolic inputs (deepening; best effort)", tier="t", core=False, cost=3000, timeout=14000,
               encodes=["src/methods/reversal.rs", "src/methods/highest_lowest_index.rs"]))
    for down in (0, 1):
        j.append(X("c07_psar_long", {"pre": 300, "t": 2, "step_den": 2048, "ratio": 400, "down": down, "no_merge": 1},
                   "ParabolicSAR's per-trend step counter beyond 255: af_step 1/2048, af_max 400 steps, one uninterrupted %s trend of 300 concrete bars each making a new extreme, then 2 symbolic valid candles (continuation or stop-and-reverse): SAR and trend equal Wilder's state machine at steps 255, 256 and the last 5" % ("falling" if down else "rising"),
                   cost=30, timeout=1200, encodes=["src/indicators/parabolic_sar.rs: ParabolicSAR::init, ParabolicSARInstance::next"]))
    for k in ("sma", "wma", "swma", "linreg", "trima", "hma"):
        for n in (2, 3, 4):
            if k == "hma" and n < 2:
                continue
            w = MEM[k](n)
            for p in (2, 6):
                j.append(X("c07_ma_forgets", {"kind": k, "n": n, "p": p, "w": w, "k": n + 2},
                           "%s length %d: instance with %d arbitrary past values vs fresh instance, both primed with the same %d values (the method's memory): equal outputs on the next %d inputs (over the reals)" % (k, n, p, w, n + 2), encodes=ENC))
    for n in (1, 2):
        j.append(X("c07_ma_forgets", {"kind": "smm", "n": n, "p": 2, "w": n, "k": 2, "mode": "fp", "max_paths": 200000}, "SMM length %d: long past forgotten, exact (order patterns incl. +-0)" % n, cost=40, encodes=ENC))
    j.append(X("c07_ma_forgets", {"kind": "smm", "n": 3, "p": 2, "w": 3, "k": 2, "mode": "fp", "max_paths": 400000}, "SMM length 3 (deepening)", tier="t", core=False, cost=600, timeout=2400, encodes=ENC))
    for k in ("integral", "derivative", "stdev", "meanabsdev", "momentum", "linvol"):
        for n in (2, 3, 4):
            w = n + 1 if k == "linvol" else n
            j.append(X("c07_method_forgets", {"kind": k, "n": n, "p": 5, "w": w, "k": n + 2}, "%s length %d: 5 arbitrary past values are forgotten after priming with %d values" % (k, n, w), encodes=ENC))
    return j


def jobs():
    j = x_jobs()
    try:
        import c07_k
        j += c07_k.k_jobs()
    except ImportError:
        pass
    return j


PROP = {
    "id": "C07",
    "jobs": jobs,
    "bounds": {
        "quick": "X/fp: reversal detectors and arg-extremum trackers after 260-300 concrete steps (position counters beyond 255) + 4 symbolic steps; X/real: a finite-window instance with an arbitrary symbolic past (2 or 6 values) equals a fresh instance primed with the last window, lengths 2..4; K: see harness list",
        "thorough": "as quick plus SMM length 3",
    },
    "outside": ["the 10^7 horizon itself: the solver never executes 10^7 steps; what is decided is (a) that nothing changes when position counters pass PeriodType::MAX and (b) that the state of finite-window methods is a function of the last window only, from which independence of the length of the past follows by induction (argument in DESIGN.md, not a solver result)",
                "the growth law of the rounding allowance (linear in t) is an argument of DESIGN.md §4",
                "recursive methods (EMA family, Vidya) and indicators with carried scalars: their state after a long past is not a function of a finite window; covered only through C03/C08"],
    "assumptions": ["floats are SMT reals (real mode) or (value, zero-sign) pairs (fp mode)", "translator validation per job; native replay before VIOLATION"],
}
