"""Indicator rows, group J (harness file rsx/harness/c05_j.rs)."""
CONVEX = ["sma", "wma", "ema", "rma", "dma", "tma", "wsma", "swma", "trima"]   # weights >= 0 summing to 1: cannot overshoot
OVERSHOOT = ["hma", "dema", "tema", "linreg"]

SLOW = {"_tier": "t", "_core": False}


def _p(base, extra=None):
    d = dict(base)
    if extra:
        d.update(extra)
    return d


ROWS = [
    # ------------------------------------------------------------------ PriceChannelStrategy
    {"entry": "c05_price_channel_strategy", "indicator": "PriceChannelStrategy", "aspects": ["values", "signals", "ranges"],
     "params": [{"period": 2, "sigma_pct": 100, "t": 4}, {"period": 3, "sigma_pct": 100, "t": 5}, {"period": 3, "sigma_pct": 50, "t": 5},
                {"period": 4, "sigma_pct": 100, "t": 6}, {"period": 4, "sigma_pct": 25, "t": 6},
                {"period": 8, "sigma_pct": 100, "t": 10}, _p({"period": 10, "sigma_pct": 100, "t": 12}, SLOW)],
     "bound": "sigma = sigma_pct/100, valid symbolic candles, prehistory = first candle; reference: highest high HH / lowest low LL of the explicit window of the last `period` "
              "candles, upper/lower = middle +- sigma*(HH - middle), middle = (HH+LL)/2 (sigma = 1: upper = HH, lower = LL); signals: high >= returned upper => buy, "
              "low <= returned lower => sell, both or none => none; ranges: upper >= lower, LL <= lower, upper <= HH and for sigma = 1 the channel contains every high and low of its window",
     "cost": 5},
    # ------------------------------------------------------------------ RelativeStrengthIndex
    {"entry": "c05_relative_strength_index", "indicator": "RelativeStrengthIndex", "aspects": ["values", "signals"],
     "params": [{"ma": m, "t": 4, "pre": "nocancel"} for m in CONVEX + OVERSHOOT] + [_p({"ma": "ema", "t": 5, "pre": "nocancel"}, SLOW), _p({"ma": "sma", "t": 5, "pre": "nocancel"}, SLOW), {"ma": "smm", "t": 3, "pre": "nocancel"}],
     "bound": "MA period 3 (the minimum accepted), zone 0.3, source close; reference: U = max(change, 0), D = max(-change, 0) of the close, RSI = MA(U)/(MA(U)+MA(D)) with the crate's "
              "moving averages started from 0, 1/2 when both averages are 0; stated precondition (restrictive only for kinds that can overshoot - hma, dema, tema, linreg - where an average of non-negative numbers can be negative): MA(U)+MA(D) != 0 unless both are 0 (otherwise the code divides by zero / trips its debug_assert); the quotient is "
              "compared over -MA(min(change,0)), proved equal to MA(D) as a separate linear lemma; signals on the returned value: #1 = crossing of zone downwards (buy) / of 1-zone upwards (sell), "
              "#2 = crossing of zone upwards (buy) / of 1-zone downwards (sell), detectors started from the value 1/2",
     "cost": 20},
    {"entry": "c05_relative_strength_index", "indicator": "RelativeStrengthIndex", "aspects": ["ranges"],
     "params": [{"ma": m, "t": 4, "pre": "nocancel"} for m in CONVEX] + [_p({"ma": "ema", "t": 5, "pre": "nocancel"}, SLOW)],
     "bound": "MA period 3, zone 0.3, source close, averaging kinds with non-negative weights only (kinds that overshoot - hma, dema, tema, linreg - can leave the interval and are not claimed): value in [0, 1]",
     "cost": 20},
    {"entry": "c05_relative_strength_index", "indicator": "RelativeStrengthIndex", "aspects": ["ranges"],
     "params": [{"ma": "linreg", "t": 3, "pre": "none"}, {"ma": "dema", "t": 3, "pre": "none"}],
     "bound": "MA period 3, zone 0.3, an averaging kind that can overshoot, NO precondition, closes on the grid {0.5, 1, 1.5, 2} (so that counterexamples are exact in f64): the documented range [0, 1] "
              "(the doc states it for every MA) and no panic / division by zero",
     "cost": 5},
    # ------------------------------------------------------------------ StochasticOscillator
    {"entry": "c05_stochastic_oscillator", "indicator": "StochasticOscillator", "aspects": ["values", "signals"],
     "aspect_params": {"signals": [{"ma": m, "period": 2, "t": 3} for m in ["sma", "ema", "rma", "dema"]] + [_p({"ma": "wma", "period": 2, "t": 3}, SLOW), _p({"ma": "sma", "period": 2, "t": 4}, SLOW)]},
     "params": [{"ma": m, "period": 2, "t": 3} for m in CONVEX + ["dema"]] + [_p({"ma": m, "period": 2, "t": 3}, SLOW) for m in ["hma", "tema", "linreg"]] + [_p({"ma": "sma", "period": 2, "t": 4}, SLOW)],
     "bound": "smoothing periods (2,2), zone 0.2; reference: %K raw = (close - LL)/(HH - LL) over the last `period` candles, 1/2 on a zero range, main = MA1(%K raw), signal line = MA2(main), both "
              "averages (the crate's) started from the %K of the first candle; HH/LL are taken from the crate's Highest/Lowest trackers which are proved equal to the maximum/minimum of the explicit "
              "window (separate linear lemma) so that the divisions compared are syntactically equal; signals on the returned values: #1/#2 = main / signal line crossing zone upwards (buy), 1-zone "
              "downwards (sell), #3 = main crossing the signal line; all detectors started from a zero difference (doc silent, taken from the code)",
     "cost": 60},
    {"entry": "c05_stochastic_oscillator", "indicator": "StochasticOscillator", "aspects": ["ranges"],
     "params": [{"ma": m, "period": 2, "t": 3} for m in CONVEX] + [_p({"ma": "sma", "period": 2, "t": 4}, SLOW)],
     "bound": "smoothing periods (2,2), averaging kinds with non-negative weights: %K raw in [0,1] at every step (checked, then used as a lemma), main and signal line in [0,1]",
     "cost": 30},
    # ------------------------------------------------------------------ TrueStrengthIndex
    {"entry": "c05_true_strength_index", "indicator": "TrueStrengthIndex", "aspects": ["values", "signals", "ranges"],
     "params": [{"t": 3}, _p({"t": 4}, SLOW)], "aspect_params": {"ranges": [{"t": 3}]},
     "bound": "periods long 3 / short 2 / signal 2, zone 0.25, source close; reference (Wikipedia, quoted in src/methods/tsi.rs): m = change of the close, TSI = EMA_short(EMA_long(m)) / "
              "EMA_short(EMA_long(|m|)), 0 while the denominator is 0, signal line = EMA(TSI) from 0; the EMAs are the crate's (C03), the harness decides the wiring (which period where, |m|, guard); "
              "signals on the returned values: #1 crossing of +zone upwards (sell) / of -zone downwards (buy), #2 zero crossing, #3 crossing of the signal line; ranges: |numerator| <= denominator (linear lemma, checked then used), both values in [-1, 1]",
     "cost": 10},
    # ------------------------------------------------------------------ SMIErgodicIndicator
    {"entry": "c05_smi_ergodic_indicator", "indicator": "SMIErgodicIndicator", "aspects": ["values", "signals"],
     "params": [{"ma": m, "t": 3} for m in CONVEX + OVERSHOOT],
     "bound": "periods long 3 / short 2, signal MA period 2, zone 0.2, source close; reference: SMI = TSI(short, long) of the close as for TrueStrengthIndex, signal line = MA(SMI) from 0 "
              "(the crate's average), oscillator = SMI - signal line; signal on the returned values: SMI crosses the signal line upwards while the signal line < -zone => buy, downwards while > zone => sell",
     "cost": 10},
    {"entry": "c05_smi_ergodic_indicator", "indicator": "SMIErgodicIndicator", "aspects": ["ranges"],
     "params": [{"ma": m, "t": 3} for m in CONVEX],
     "bound": "periods long 3 / short 2, signal MA period 2, averaging kinds with non-negative weights: |numerator| <= denominator of the TSI (linear lemma, checked then used), SMI and signal line in [-1, 1], oscillator in [-2, 2]",
     "cost": 10},
    # ------------------------------------------------------------------ RelativeVigorIndex
    {"entry": "c05_relative_vigor_index", "indicator": "RelativeVigorIndex", "aspects": ["values"],
     "params": [{"ma": m, "def": "close_to_close", "p1": 2, "p2": 3, "t": 3} for m in ["sma", "ema", "wma", "rma", "dema"]]
               + [{"ma": "swma", "def": "close_to_close", "p1": 2, "p2": 3, "t": 4}, {"ma": "swma", "def": "close_to_close", "p1": 3, "p2": 4, "t": 4}, {"ma": "swma", "def": "published", "p1": 2, "p2": 3, "t": 2}],
     "bound": "period1 = p1 (SMA), period2 = p2 (symmetric weights 1,2,..,2,1), signal MA period 2, zone 0.25; prehistory: vigor 0, range of the first candle; reference (Investopedia): "
              "RVI = SMA_p1(SWMA_p2(a)) / SMA_p1(SWMA_p2(high - low)), 0 on a zero denominator, signal line = MA(RVI) from 0; numerator and denominator are taken from the crate's SWMA->SMA chains, proved equal to the explicit window formulas as separate linear lemmas, so that the divisions compared are syntactically equal; def=published: a = close - open "
              "(the linked definition); def=close_to_close: a = close - previous close (what the crate computes; the published numerator is NOT what is implemented)",
     "cost": 15},
    {"entry": "c05_relative_vigor_index", "indicator": "RelativeVigorIndex", "aspects": ["signals"],
     "params": [{"ma": m, "def": "x", "p1": 2, "p2": 3, "t": 3} for m in ["swma", "ema"]],
     "bound": "periods (2,3), signal MA period 2, zone 0.25; on the returned values: #1 = main crossing the signal line (detector started from a zero difference); #2 as documented = upward crossing "
              "while main < -zone => buy, downward crossing while main > +zone => sell, plus the weaker claim that #2 never contradicts the direction of #1",
     "cost": 30},
    {"entry": "c05_relative_vigor_index", "indicator": "RelativeVigorIndex", "aspects": ["ranges"],
     "params": [{"ma": "swma", "def": "x", "p1": 2, "p2": 3, "t": 2}],
     "bound": "periods (2,3): the DOCUMENTED range [-0.5, 0.5] of both values",
     "cost": 50},
    # ------------------------------------------------------------------ Trix
    {"entry": "c05_trix", "indicator": "Trix", "aspects": ["values"],
     "params": [{"ma": m, "def": "difference", "t": 5} for m in CONVEX + OVERSHOOT] + [{"ma": "ema", "def": "published", "t": 2}],
     "bound": "period1 3 (minimum), signal MA period 2, source close; reference: three chained EMA(period1) recurrences written in the harness, all started from the first close; def=published "
              "(Wikipedia, the linked definition): TRIX = (TMA_t - TMA_{t-1}) / TMA_{t-1}; def=difference: TRIX = TMA_t - TMA_{t-1} (what the crate computes); signal line = MA(TRIX) from 0 (crate's average)",
     "cost": 5},
    {"entry": "c05_trix", "indicator": "Trix", "aspects": ["signals"],
     "params": [{"ma": "ema", "def": "difference", "t": 5}, {"ma": "sma", "def": "difference", "t": 5}, _p({"ma": "ema", "def": "difference", "t": 6}, SLOW)],
     "bound": "period1 3, signal MA period 2, prescribed usage: the first candle given to next() equals the init candle (otherwise the ReversalSignal(1,1) inside, built from the value 0, mis-reports during its "
              "first 3 inputs - construction value treated as a phantom element at stream index 0); on the returned values: #1 direction change = the previous value is a local minimum (buy) / maximum (sell) with the tie rule of ReversalSignal(1,1) "
              "(<= the older, < the newer neighbour), prehistory of the values = 0 (TRIX of a constant history); steps 2..3 where the detector window still holds prehistory carry the label "
              "'direction_change_startup'; #2 crossing of the signal line, #3 crossing of zero, detectors started from a zero difference",
     "cost": 60},
    # ------------------------------------------------------------------ TrendStrengthIndex
    {"entry": "c05_trend_strength_index", "indicator": "TrendStrengthIndex", "aspects": ["values"],
     "params": [{"period": 2, "offset": 1, "t": 2, "grid": 0}, {"period": 3, "offset": 2, "t": 4, "grid": 3}],
     "bound": "zone 0.75, source close; grid = 0: free valid symbolic candles; grid = g > 0: closes restricted to the integers 1..g (the correlation makes every query non-linear with a square root; on a "
              "grid they reduce to finitely many constant cases); NO formula is published (doc: 'seen somewhere a long time ago', range [-1,1]); asserted (read from the code): Pearson correlation between "
              "the last `period` closes and their time index, compared without the root (equal squares and equal sign), 0 on a window without variance",
     "cost": 60, "timeout": 900},
    {"entry": "c05_trend_strength_index", "indicator": "TrendStrengthIndex", "aspects": ["ranges"],
     "params": [{"period": 2, "offset": 1, "t": 2, "grid": 0}, {"period": 2, "offset": 1, "t": 4, "grid": 3}],
     "bound": "zone 0.75, source close, free valid symbolic candles (grid = 0) or closes on the integers 1..grid: value in [-1, 1] (period 2 only: with period 3 the Cauchy-Schwarz step is not decided by the solvers within the budget)",
     "cost": 40, "timeout": 900},
    {"entry": "c05_trend_strength_index", "indicator": "TrendStrengthIndex", "aspects": ["signals"],
     "params": [{"period": 2, "offset": 1, "t": 3, "grid": 3}, _p({"period": 2, "offset": 1, "t": 4, "grid": 3}, SLOW)],
     "bound": "zone 0.75, closes restricted to the integers 1..grid (see values), prescribed usage: the first candle given to next() equals the init candle (otherwise the ReversalSignal inside, built from the value 0, "
              "mis-reports during its first left+right+1 inputs); on the returned values: #1 as documented = crossing of +zone downwards => full sell, of -zone upwards => full buy (detectors "
              "started from the value 0); #2 as documented = the value two steps back is a local minimum (ReversalSignal(1,2) tie rule) and <= -zone => buy, a local maximum and >= +zone => sell; steps 3..4 where "
              "the detector window still holds prehistory are labelled '_startup' (the steady-state labels need t >= 5)",
     "cost": 100, "timeout": 1500},
    # ------------------------------------------------------------------ WoodiesCCI
    {"entry": "c05_woodies_cci", "indicator": "WoodiesCCI", "aspects": ["values"],
     "params": [{"lag": 2, "t": 5}, _p({"lag": 2, "t": 7}, SLOW)],
     "bound": "periods turbo 2 / trend 3, source close; reference: CCI_n = (x - mean_n) / (1.5 * mean absolute deviation_n) (the linked definition with 0.015, in units of 100), 0 on a zero deviation, over the "
              "explicit window; mean and deviation are taken from the crate's MeanAbsDev/SMA pair, proved equal to the window formulas as separate linear lemmas",
     "cost": 10},
    {"entry": "c05_woodies_cci", "indicator": "WoodiesCCI", "aspects": ["signals"],
     "params": [{"lag": 1, "t": 3}, {"lag": 2, "t": 4}, _p({"lag": 3, "t": 5}, SLOW)],
     "bound": "periods (2,3), s1_lag = lag; documented: trend CCI stays above (below) zero for s1_lag bars => full buy (sell); counter re-implemented as in the code (a zero crossing restarts it at +-1, "
              "otherwise it moves by the sign of trend CCI), the signal is due on the bar where it reaches +-s1_lag",
     "cost": 160},
]
