from regbase import K, X

ACC = ["sma", "wma", "swma", "trima", "hma", "linreg", "vwma", "integral", "derivative", "momentum", "roc", "past", "linvol", "adi"]
NAMES = {"sma": "SMA", "wma": "WMA", "swma": "SWMA", "trima": "TRIMA", "hma": "HMA", "linreg": "LinReg", "vwma": "VWMA",
         "integral": "Integral (windowed)", "derivative": "Derivative", "momentum": "Momentum", "roc": "RateOfChange", "past": "Past",
         "linvol": "LinearVolatility", "adi": "ADI (windowed)", "conv": "Conv", "stdev": "StDev", "meanabsdev": "MeanAbsDev",
         "medianabsdev": "MedianAbsDev", "cci": "CCI"}
MIN2 = {"hma", "linreg", "stdev", "medianabsdev"}
QUICK_N = list(range(1, 17)) + [31, 32, 63, 64, 127, 128, 253, 254]


def job(m, n, t, tier="q", core=True, cost=None, timeout=None, shape=None):
    what = "%s length %d, %d steps: symbolic construction value and inputs over the reals; next() and peek() equal the documented formula evaluated from scratch on the explicit history at every step" % (NAMES[m], n, t)
    args = {"n": n, "t": t}
    if shape is not None:
        args["shape"] = shape
        if shape != "f":
            what += "; shaped stream '%s' (u up, d down, e equal, r return, s x1024, z zero, f free; symbolic magnitudes)" % shape
    return X("c02_" + m, args, what, tier=tier, core=core, cost=cost or (1 + n * n / 4000.0), timeout=timeout,
             encodes=["src/methods/*.rs: %s::{new,next,peek}" % NAMES[m].split()[0], "src/core/window.rs: Window::{new,push,...}"])


def jobs():
    j = []
    for m in ACC:
        for n in QUICK_N:
            if n < 2 and m in MIN2:
                continue
            heavy = m in ("trima", "hma") and n > 128
            j.append(job(m, n, n + 3, tier="t" if heavy else "q", core=not heavy, cost=300 if heavy else None))
        # thorough: every length, t = 2n+2 (deepening: the largest completed length is what is claimed)
        for n in range(1, 255):
            if n < 2 and m in MIN2:
                continue
            j.append(job(m, n, 2 * n + 2, tier="t", core=False, cost=1 + n * n / 1500.0, timeout=1800))
    for n in range(1, 9):
        j.append(job("conv", n, n + 3, cost=5 + n))
    for n in range(9, 17):
        j.append(job("conv", n, n + 3, tier="t", core=False, cost=30))
    for n in range(2, 9):
        j.append(job("stdev", n, n + 3, cost=5 + 2 * n))
    for n in range(9, 33):
        j.append(job("stdev", n, n + 3, tier="t", core=False, cost=30 + n))
    for m in ("meanabsdev", "cci"):
        for n in range(1, 9):
            j.append(job(m, n, n + 3, cost=2 + n, shape="f" if m == "cci" else None))
        for n in range(9, 13):
            j.append(job(m, n, n + 3, tier="t", core=False, cost=30, shape="f" if m == "cci" else None))
    for sh in ("ure", "uuedd", "ues", "eeu", "zzf"):
        for n in (2, 3, 5):
            j.append(job("cci", n, n + 4, cost=5 + n, shape=sh))
    for n in (2, 3):
        j.append(job("medianabsdev", n, n + 2, cost=20 * n))
    j.append(job("medianabsdev", 4, 6, tier="t", core=False, cost=600, timeout=2400))
    return j


PROP = {
    "id": "C02",
    "jobs": jobs,
    "bounds": {
        "quick": "identity with the from-scratch definition over the reals at every step: accumulator kinds (SMA WMA SWMA TRIMA HMA LinReg VWMA Integral Derivative Momentum RateOfChange Past LinearVolatility ADI) at lengths 1..16, 31, 32, 63, 64, 127, 128, 253, 254 with t = n+3; TRIMA/HMA up to 128; Conv (symbolic weights) n <= 8; StDev n <= 8; MeanAbsDev/CCI n <= 8; MedianAbsDev n <= 3",
        "thorough": "accumulator kinds at every length 1..=254 with t = 2n+2 (best effort; completed lengths are listed in the samples); Conv n <= 16; StDev n <= 32; MeanAbsDev/CCI n <= 12; MedianAbsDev n <= 4",
    },
    "outside": ["IEEE rounding beyond the algebraic identity: the allowance of DESIGN.md §4 is applied only when a solver witness is replayed natively",
                "streams longer than the stated t", "lengths above the per-method bounds",
                "VWMA/CCI/RateOfChange at points where their documented denominator is (within 1e-3 of) zero; Conv with |sum of weights| <= 1e-3"],
    "assumptions": ["floats are SMT reals (exact algebra); sqrt is an uninterpreted function constrained by s >= 0 and s*s = x",
                    "robust witnesses only: a counterexample must differ by more than 2^-30 (1+scale) with inputs in [-1024, 1024], then it is replayed natively against the allowance",
                    "translator validation on two concrete input sets per job (interpreter in f64 mode vs native build, bit-equal)",
                    "non-linear queries (Conv, StDev, VWMA) are decided by standalone z3 / cvc5 runs on the same script when the incremental z3 core answers unknown"],
}
