from regbase import K, X


def jobs():
    j = []
    for n in (1, 2, 3, 5):
        j.append(X("c02_sma", {"n": n, "t": n + 3}, "SMA n=%d, t=n+3 symbolic real inputs: next and peek equal sum/n over the explicit history" % n, cost=2))
    return j


PROP = {
    "id": "C02",
    "claimed": False,
    "jobs": jobs,
    "bounds": {"quick": "wip", "thorough": "wip"},
    "outside": [],
    "assumptions": [],
}
