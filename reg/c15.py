from regbase import K, X

ALL = ["sma", "wma", "hma", "rma", "ema", "dma", "dema", "tma", "tema", "wsma", "smm", "swma", "trima", "linreg", "vidya"]
NONNEG = ["sma", "wma", "swma", "trima", "ema", "dma", "tma", "rma", "wsma", "smm", "vidya"]
LINEAR = ["sma", "wma", "swma", "trima", "hma", "linreg", "ema", "dma", "tma", "dema", "tema", "rma", "wsma"]
MIN2 = {"hma", "linreg"}
ENC = ["src/helpers/methods.rs: MA::init, MAInstance::next", "src/methods/*.rs: the selected moving average's new/next", "src/core/window.rs"]


def xj(e, kind, n, t, extra, what, tier="q", core=True, cost=2, timeout=None):
    a = {"kind": kind, "n": n, "t": t}
    a.update(extra)
    return X("c15_" + e, a, what, tier=tier, core=core, cost=cost, timeout=timeout, encodes=ENC)


def jobs():
    j = []
    for k in ALL:
        ns = [1, 2, 3, 4, 5, 6, 7, 8, 12]
        if k == "smm":
            ns = [1, 2, 3]
        if k == "vidya":
            ns = [1]
        for n in ns:
            if n < 2 and k in MIN2:
                continue
            t = n + 3 if k != "smm" else n + 2
            for (an, ad) in ((-3, 2), (2, 1)):
                heavy = k == "smm" and n == 3
                j.append(xj("affine", k, n, t, {"a_num": an, "a_den": ad},
                            "%s length %d, %d steps: averaging a*x+b (a = %d/%d, b symbolic) gives a*average+b" % (k, n, t, an, ad), cost=200 if heavy else 2,
                            tier="t" if (heavy and an == 2) else "q", core=not (heavy and an == 2)))
        if k in LINEAR:
            for n in (2, 3):
                j.append(xj("affine", k, n, n + 2, {"a_num": 0, "a_den": 1}, "%s length %d: affine equivariance with SYMBOLIC a and b (polynomial identity)" % (k, n), cost=5))
        for n in (1, 2, 3, 5, 8, 16, 64, 254):
            if n < 2 and k in MIN2 or (k == "wsma" and n > 127):
                continue
            j.append(xj("constant", k, n, min(n, 40) + 2, {}, "%s length %d: a constant stream is reproduced exactly (over the reals)" % (k, n), cost=1 + n / 50.0))
    for k in NONNEG:
        ns = range(1, 9)
        if k == "smm":
            ns = [1, 2, 3]
        if k == "vidya":
            ns = [1]
        for n in ns:
            t = n + 3 if k != "smm" else n + 2
            j.append(xj("range", k, n, t, {}, "%s length %d, %d steps: output within [min, max] of the values given so far (incl. the construction value)" % (k, n, t), cost=30 if k == "smm" and n == 3 else 2))
    for k in LINEAR:
        for n in (1, 2, 3, 4, 5, 8, 12):
            if n < 2 and k in MIN2:
                continue
            j.append(xj("superposition", k, n, n + 3, {}, "%s length %d: average of x+y equals average of x plus average of y" % (k, n)))
    qn = list(range(1, 17)) + [31, 32, 63, 64, 127, 128, 253, 254]
    for k in ("sma", "wma", "swma", "trima"):
        for n in range(1, 255):
            t = (2 * n + 1) if k == "trima" else n + 2
            q = n in qn and not (k == "trima" and n > 64)
            j.append(xj("impulse", k, n, t, {}, "%s length %d: impulse response on a symbolic background equals the documented weight profile, incl. the step after the impulse has left" % (k, n),
                        tier="q" if q else "t", core=q, cost=1 + n * n / 3000.0))
    for k in ("ema", "rma", "wsma"):
        for n in range(1, 255):
            if k == "wsma" and n > 127:
                continue
            q = n in qn
            j.append(xj("impulse", k, n, 24, {}, "%s length %d: impulse response alpha(1-alpha)^j for j < 24" % (k, n), tier="q" if q else "t", core=q))
    for n in (1, 2, 3, 4):
        j.append(X("c15_conv", {"n": n, "t": n + 2, "a_num": -3, "a_den": 2}, "Conv with %d symbolic non-negative weights: affine equivariance (a=-3/2), superposition, range containment" % n, cost=10 + 5 * n, encodes=["src/methods/conv.rs: Conv::{new,next,peek}"]))
        j.append(X("c15_vwma", {"n": n, "t": n + 2, "a_num": -3, "a_den": 2}, "VWMA length %d with symbolic positive volumes: affine equivariance in the price (a=-3/2), range containment" % n, cost=20 + 10 * n, encodes=["src/methods/vwma.rs: VWMA::{new,next,peek}"]))
    return j


PROP = {
    "id": "C15",
    "jobs": jobs,
    "bounds": {
        "quick": "every MA kind of the MA constructor, over the reals: affine equivariance with a in {-3/2, 2} and symbolic b at lengths 1..8, 12 (SMM <= 3, Vidya 1), with symbolic a at lengths 2, 3 for the linear kinds; constants at lengths up to 254; range containment for the non-negative-weight kinds at lengths 1..8 (SMM <= 3, Vidya 1); superposition for the linear kinds at lengths <= 12; impulse response vs the documented weight profile for SMA/WMA/SWMA/TRIMA/EMA/RMA/WSMA at lengths 1..16, 31, 32, 63, 64, 127, 128, 253, 254; Conv / VWMA with symbolic weights / volumes at lengths <= 4",
        "thorough": "impulse response at EVERY length 1..=254 (best effort per length; completed lengths are in the samples)",
    },
    "outside": ["Vidya beyond length 1: its equivariance / containment are rational identities in which the adaptive factor multiplies symbolic inputs; z3 and cvc5 answer unknown from length 2 on (measured: > 150 s)",
                "SMM beyond length 3 (order patterns)", "the adaptive factor of Vidya leaving [0,1] through IEEE residue after a flat stretch (not decidable here, see C12)",
                "impulse responses of HMA / LinReg / DMA / TMA / DEMA / TEMA are covered through C02 / C03 (identity with the definition) plus superposition, not through a closed-form profile"],
    "assumptions": ["floats are SMT reals", "translator validation on two concrete input sets per job", "robust witnesses + native replay before any VIOLATION"],
}
