from regbase import K, X

M = "src/core/method.rs: "
S = "src/core/sequence.rs: "
H = "src/helpers/history.rs: "
IC = "src/core/indicator/config.rs: "
II = "src/core/indicator/instance.rs: "

F_SEQ = [S + "Sequence::call", S + "Sequence::apply", S + "Sequence::get_initial_value"]
F_METH = [M + "Method::over", M + "Method::apply", M + "Method::new_over", M + "Method::new_apply",
          M + "Method::into_fn", M + "Method::new_fn", M + "Method::with_history", M + "Method::with_last_value"]
F_HIST = [H + "WithHistory::{new,next,get,iter}", H + "Buffered for WithHistory", H + "IntoIterator for WithHistory / &WithHistory",
          H + "WithLastValue::{new,next}", H + "Peekable for WithLastValue", H + "Peekable for &T", H + "Buffered for &T"]
F_IND = [IC + "IndicatorConfig::over", IC + "IndicatorConfig::init_fn", II + "IndicatorInstance::over",
         II + "IndicatorInstance::into_fn", II + "IndicatorInstance::size", II + "IndicatorInstance::name"]

LOGM = ("logging Method (state = call counter; next logs (counter, input bits) and returns a recorded arbitrary label); "
        "labels symbolic 64-bit; ")
RANGES = (("n0to2", "slice lengths 0,1,2", 12), ("n3", "slice length 3", 14), ("n4", "slice length 4", 18), ("n5", "slice length 5", 25))


def per(name, text, enc, costs=None, ranges=RANGES, tiers=None, **kw):
    r = []
    for i, (suf, rt, c) in enumerate(ranges):
        cost = costs[i] if costs else c
        r.append(K("c09_comb::%s_%s" % (name, suf), LOGM + rt + "; " + text, encodes=enc,
                   cost=cost, timeout=max(900, 6 * cost), tier=(tiers[i] if tiers else "q"), **kw))
    return r


def k_jobs():
    j = []
    for nm, what in (("over", "Method::over(&[T])"), ("over_vec", "Method::over(Vec<T>)"), ("call", "Sequence::call"),
                     ("apply_method", "Method::apply (in place)"), ("apply_sequence", "Sequence::apply (in place)"),
                     ("nextloop", "reference: next element by element")):
        j.append(K("c09_comb::c09_whole_" + nm, LOGM + "every slice length 0..=5 (enumerated in the harness); " + what +
                   ": exactly one next per element, in order, bit-identical inputs, outputs returned in order, nothing outside the slice written",
                   encodes=F_SEQ + F_METH, cost=18))
    for nm, what in (("over", "over; over"), ("call", "call; call"), ("apply_method", "Method::apply; Method::apply"),
                     ("over_then_apply", "over; Sequence::apply"), ("next_then_call", "element-wise next; Sequence::call")):
        j += per("c09_chunk_" + nm, "every split point 0..=n (either chunk may be empty): two consecutive calls (" + what +
                 ") = one pass", F_SEQ + F_METH, costs=(30, 28, 36, 50))
    j += per("c09_new_over", "Method::new_over on &[T] / Vec<T>: new gets the first element, one pass; empty: Ok(empty), nothing called; failing new: Err, no next",
             F_METH + F_SEQ)
    j += per("c09_new_apply", "Method::new_apply: as new_over, in place; failing new leaves the sequence untouched", F_METH + F_SEQ)
    j += per("c09_into_fn_new_fn", "Method::into_fn / new_fn: the boxed closure is next (one next per call), new_fn passes the initial value and propagates Err",
             F_METH)
    j += per("c09_with_history", "WithHistory via with_history/new: transparent (one inner next per next, same input, same output); get(i) i-th newest for symbolic i<=5, None beyond; iter() oldest first",
             F_METH + F_HIST)
    for suf, rt, c, tier in (("n1to2", "stream lengths 1,2", 40, "q"), ("n3", "stream length 3", 50, "q"), ("n4", "stream length 4", 80, "t")):
        j.append(K("c09_comb::c09_with_history_chunked_" + suf, LOGM + rt + "; WithHistory fed in chunks (next / over, then over, then an empty over; every split point): outputs are those of one pass and the history afterwards holds every output of the whole stream, oldest first (get at a symbolic index, iter)",
                   encodes=F_METH + F_HIST, cost=c, timeout=900, tier=tier))
    j.append(K("c09_comb::c09_with_history_new_fails", LOGM + "with_history / WithHistory::new: a failing inner new is returned, no next", encodes=F_METH + F_HIST, cost=6))
    R34 = (("n0to2", "stream lengths 0,1,2", 14), ("n3to4", "stream lengths 3,4", 25))
    j += per("c09_with_history_over_clone", "WithHistory driven through Method::over; clone unaffected by a further step of the original; both IntoIterator impls",
             F_METH + F_HIST, ranges=R34)
    j += per("c09_with_last_value_steps", "WithLastValue: relative to the state after new (one priming next(initial)), one inner next per next, same input/output; peek() == value last returned (also through &T); clone independent",
             F_METH + F_HIST, ranges=R34)
    j += per("c09_with_last_value_transparent", "WithLastValue::new must not step the wrapped method: inner method sees exactly the stream (wrapped == bare)",
             F_METH + F_HIST, ranges=R34)
    j += per("c09_candles_chunked", "candle-label flavour (Sequence<T: OHLCV>), all five fields logged: over+call / Method::apply+Sequence::apply / call+over(Vec) at every split point",
             F_SEQ + F_METH, costs=(110, 100, 140, 180), tiers=("q", "t", "t", "t"))
    j += per("c09_candles_new", "candle-label flavour: new_over / new_apply", F_SEQ + F_METH, costs=(75, 60, 60, 65), tiers=("q", "t", "t", "q"))
    LOGI = "logging IndicatorConfig/IndicatorInstance pair (implemented outside the crate); "
    j += per("c09_indicator_config_over", LOGI + "IndicatorConfig::over on &[Candle] / Vec<Candle>: empty -> Ok(empty) without init; init(first) then exactly one next per candle; failing init returned", F_IND, costs=(95, 70, 75, 85), tiers=("q", "t", "t", "q"))
    j += per("c09_indicator_instance_over_chunked", LOGI + "IndicatorInstance::over / element-wise next on the first chunk, over(Vec) on the second, every split point; size()/name() forward to the config",
             F_IND, costs=(95, 110, 160, 230), tiers=("q", "t", "t", "t"))
    j += per("c09_indicator_fn", LOGI + "IndicatorConfig::init_fn / IndicatorInstance::into_fn: the boxed closure is next", F_IND, costs=(95, 55, 60, 65), tiers=("q", "t", "t", "q"))

    j.append(K("c09_comb::c09_past_over_after_steps", "per-method bulk path: Past(3) (any f64 bits) after 0..=3 single steps (every rotation phase of the ring), then a chunk of 4 symbolic values through Method::over equals next element by element on a clone, bit for bit",
               encodes=["src/methods/past.rs: Past::{new,next} (+ over if overridden)", "src/core/method.rs: Method::over", "src/core/window.rs"], cost=30, timeout=900))
    j.append(K("c09_comb::c09_window_clone_independent", "Window<u8>::clone at symbolic capacity 1..=8, phase, contents: 1-2 pushes into the original do not show in the clone (symbolic observer index) and vice versa; each continues from its own state",
               encodes=["src/core/window.rs: Clone for Window", "src/core/window.rs: Window::push"], cost=15))
    P = ["src/methods/past.rs: Past::{new,next}", "src/methods/past.rs: Peekable for Past"]
    for ln, st in ((1, 2), (3, 4)):
        j.append(K("c09_comb::c09_past_peek_len%d_differ" % ln, "Past<u8 label>, length %d, %d symbolic steps, streams whose last input != last output: peek() == value returned by the last next (D8 class)" % (ln, st), encodes=P, cost=6))
        j.append(K("c09_comb::c09_past_peek_len%d_coincide" % ln, "Past<u8 label>, length %d, %d symbolic steps, streams whose last input == last output (complement of the D8 class)" % (ln, st), encodes=P, cost=6))
    HL = "src/methods/highest_lowest.rs: "
    HI = "src/methods/highest_lowest_index.rs: "
    for nm, enc in (("highest", HL + "Highest"), ("lowest", HL + "Lowest"), ("highest_index", HI + "HighestIndex"), ("lowest_index", HI + "LowestIndex")):
        j.append(K("c09_comb::c09_peek_" + nm, "length 3, 4 symbolic finite inputs (comparison only): peek() == value returned by next after every step, also through &T",
                   encodes=[enc + "::{new,next}", "Peekable for " + enc.split(": ")[1]], cost=15))
    return j


