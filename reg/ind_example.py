MA_ALL = ["sma", "wma", "hma", "rma", "ema", "dma", "dema", "tma", "tema", "wsma", "swma", "trima", "linreg"]
ROWS = [
    {"entry": "c05_macd", "indicator": "MACD", "aspects": ["values", "signals"],
     "params": [{"ma": m, "t": 5} for m in MA_ALL] + [{"ma": "smm", "t": 3}, {"ma": "vidya", "t": 3, "_core": False}],
     "bound": "periods (2,3,2), source close, valid symbolic candles; reference: the documented formula over the crate's own moving averages of the close (difference of two averages, signal line = average of the difference starting from 0); signals: crossing rule on the returned values",
     "cost": 3},
]
