from regbase import X


def jobs():
    j = []
    enc = ["src/methods/st_dev.rs", "src/methods/mean_abs_dev.rs", "src/methods/median_abs_dev.rs", "src/methods/volatility.rs", "src/methods/tsi.rs", "src/methods/tr.rs", "src/core/ohlcv.rs: clv, tr_close"]
    for k, ns in (("stdev", (2, 3, 4)), ("meanabsdev", (1, 2, 3, 4, 6)), ("linvol", (1, 2, 3, 4, 6)), ("tsi", (1, 2, 3)), ("candle", (1,))):
        for n in ns:
            j.append(X("c12_dispersion", {"kind": k, "n": n, "t": n + 3}, "%s length %d, %d symbolic steps: documented sign / range holds at every step, no division by zero on any feasible path (over the reals)" % (k, n, n + 3), cost=5 + 3 * n, encodes=enc))
    for n in (2, 3):
        j.append(X("c12_dispersion", {"kind": "medianabsdev", "n": n, "t": n + 2}, "MedianAbsDev length %d: never negative" % n, cost=60, encodes=enc))
    return j
