from regbase import K, X

C = "src/methods/cross.rs: "
R = "src/methods/reversal.rs: "
CROSS = [C + f for f in ("Cross::new", "Cross::next", "CrossAbove::new", "CrossAbove::binary", "CrossAbove::next",
                         "CrossUnder::new", "CrossUnder::binary", "CrossUnder::next")]
UP = [R + f for f in ("UpperReversalSignal::new", "UpperReversalSignal::next")]
LO = [R + f for f in ("LowerReversalSignal::new", "LowerReversalSignal::next")]
SIG = [R + f for f in ("ReversalSignal::new", "ReversalSignal::next")] + ["src/core/action.rs: Sub for Action"]

# measured seconds (4 harnesses in parallel) by window = left+right+1
UPLO_COST = {3: 20, 4: 40, 5: 65, 6: 115, 7: 210}
SIG_COST = {3: 55, 4: 95, 5: 220, 6: 350, 7: 400}

ST = "one step from an arbitrary state (= any previous difference value-base, via new((), &(a0,b0))) plus a second step; a,b finite, 0 or 1e-150<|x|<1e150"


def c14():
    j = []
    m = "c14_detectors::"
    j.append(K(m + "c14_cross_above_next", "CrossAbove::next, " + ST, encodes=CROSS, cost=8, timeout=300))
    j.append(K(m + "c14_cross_above_binary", "CrossAbove::binary, " + ST, encodes=CROSS, cost=8, timeout=300))
    j.append(K(m + "c14_cross_under_next", "CrossUnder::next, " + ST, encodes=CROSS, cost=8, timeout=300))
    j.append(K(m + "c14_cross_under_binary", "CrossUnder::binary, " + ST, encodes=CROSS, cost=8, timeout=300))
    j.append(K(m + "c14_cross_next", "Cross::next is BUY_ALL on up-cross, SELL_ALL on down-cross, None otherwise; " + ST, encodes=CROSS, cost=10, timeout=300))
    j.append(K(m + "c14_cross_swap_negates", "Cross on the swapped series returns the negation; one step from an arbitrary state", encodes=CROSS, cost=12, timeout=300))
    j.append(K(m + "c14_cross_default", "Default state of all three detectors: first step is silent", encodes=CROSS, cost=3, timeout=300))
    j.append(K(m + "c14_cross_sequence", "stream of 4 pairs started with the construction pair, every base either free or exactly the value (touch), Cross + CrossAbove::binary + CrossUnder::binary",
               encodes=CROSS, cost=38, timeout=600))
    j.append(K(m + "c14_cross_next", "ValueType=f32 (0 or 1e-15<|x|<1e15): Cross::next, " + ST, features=("f32",), encodes=CROSS, cost=12, timeout=300))
    j.append(K(m + "c14_cross_swap_negates", "ValueType=f32: Cross on the swapped series returns the negation", features=("f32",), encodes=CROSS, cost=12, timeout=300))
    j.append(K(m + "c14_rev_up_l2_r1", "ValueType=f32: UpperReversalSignal (2,1), 8 unrestricted finite inputs", features=("f32",), encodes=UP, cost=25, timeout=600))
    j.append(K(m + "c14_rev_lo_l1_r2", "PeriodType=u16: LowerReversalSignal (1,2), 8 unrestricted finite inputs", features=("p16",), encodes=LO, cost=30, timeout=600))
    for l in (1, 2, 3):
        for r in (1, 2, 3):
            w = l + r + 1
            b = "(left,right)=(%d,%d), %d unrestricted finite inputs started with the construction value, output checked at every step against the pivot rule (newest of equal extrema wins)" % (l, r, w + 4)
            tier_ul = "q" if w <= 6 else "t"
            tier_s = "q" if w <= 4 else "t"
            j.append(K(m + "c14_rev_up_l%d_r%d" % (l, r), "UpperReversalSignal " + b, encodes=UP, cost=UPLO_COST[w], timeout=max(600, 4 * UPLO_COST[w]), tier=tier_ul))
            j.append(K(m + "c14_rev_lo_l%d_r%d" % (l, r), "LowerReversalSignal " + b, encodes=LO, cost=UPLO_COST[w], timeout=max(600, 4 * UPLO_COST[w]), tier=tier_ul))
            j.append(K(m + "c14_rev_sig_l%d_r%d" % (l, r), "ReversalSignal (lower minus upper) " + b, encodes=SIG + UP + LO, cost=SIG_COST[w], timeout=max(600, 4 * SIG_COST[w]), tier=tier_s))
    j.append(K(m + "c14_rev_params", "all (left,right) in u8 x u8 with a zero side or left+right+1 > 255: new() of the three detectors is Err", encodes=UP + LO + SIG, cost=20, timeout=600))
    lb = "(1,1), PeriodType=u8: 250 concrete inputs 0,1,-2,3,-4,... then symbolic i16-valued inputs; "
    for t, enc, c in (("up", UP, 40), ("lo", LO, 40), ("sig", SIG + UP + LO, 170)):
        tier = "q" if t != "sig" else "t"
        j.append(K(m + "c14_rev_long_%s_first255" % t, lb + "outputs of inputs 1..=255 (5 symbolic)", encodes=enc, cost=c, timeout=900, tier=tier))
        j.append(K(m + "c14_rev_long_%s_after255" % t, lb + "outputs of inputs 256..=258 (8 symbolic inputs) [known finding D2 class]", encodes=enc, cost=c, timeout=900, tier=tier))
    return j


PROP = {
    "id": "C14",
    "jobs": c14,
    "bounds": {
        "quick": "crossing detectors: one and two steps from an arbitrary state (all histories), floats finite with 0 or 1e-150<|x|<1e150, 4-pair streams with exact touches. Reversal detectors: streams of left+right+5 unrestricted finite f64 from construction, Upper/Lower for (left,right) in {1,2,3}^2 except (3,3), ReversalSignal for left+right <= 3; (1,1) on a 258-input stream (250 concrete + 8 symbolic) for Upper/Lower; PeriodType u8, ValueType f64",
        "thorough": "as quick plus Upper/Lower (3,3), ReversalSignal for all of {1,2,3}^2 and on the 258-input stream",
    },
    "outside": ["reversal windows above 7 and streams longer than left+right+5 from construction (except the (1,1) 258-input stream); long streams in general are C07(a)",
                "streams whose first input differs from the construction value (the API prescribes they are equal)",
                "non-finite inputs; crossing inputs outside the magnitude window (value-base may overflow or be NaN)",
                "period_type_u16/u32/u64 builds for the long-stream harnesses (the counter saturates at PeriodType::MAX, out of reach there)"],
    "assumptions": ["Kani 0.68 / CBMC 6.11 model of rustc MIR and IEEE-754 binary64",
                    "crossing rule written with comparisons of the inputs: value-base < 0 iff value < base (exact in IEEE arithmetic with gradual underflow; the solver proves it as part of each harness)",
                    "reversal tie rule (docs are silent): pivot >= every element of the `left` older ones and > every element of the `right` newer ones, i.e. the newest of equal extrema wins; taken from the >= / <= in the code and from reversal::tests::test_reverse_low (positions 11, 14, 16). Prehistory = construction value",
                    "Upper and Lower both answer BUY_ALL when they fire (as documented by the examples); ReversalSignal = lower - upper is BUY_ALL / SELL_ALL / None"],
}
