import glob
import os
import re

from regbase import K, X
from driver import REPO
import tab_c11 as T

IND = "src/indicators/"
# measured wall seconds of c11_shape_<indicator> (7 parallel jobs on a loaded 16-core machine; unloaded about a third); default 60
SHAPE_COST = {"stochasticoscillator": 220, "ichimokucloud": 210, "awesomeoscillator": 200, "trendstrengthindex": 180, "knowsurething": 170,
              "keltnerchannel": 160, "chandekrollstop": 157, "coppockcurve": 130, "bollingerbands": 120, "averagedirectionalindex": 120,
              "relativevigorindex": 110, "detrendedpriceoscillator": 100}


def source_fields():
    """public fields of every IndicatorConfig struct as the current source has them"""
    res = {}
    for f in sorted(glob.glob(os.path.join(REPO, "src/indicators/*.rs"))):
        b = os.path.basename(f)
        if b in ("mod.rs", "example.rs"):
            continue
        s = re.sub(r"^\s*//.*$", "", open(f).read(), flags=re.M)
        m = re.search(r"impl(?:<[^>]*>)?\s+IndicatorConfig for (\w+)", s)
        if not m:
            continue
        cfg = m.group(1)
        sm = re.search(r"pub struct %s(?:<[^>]*>)?\s*\{(.*?)\n\}" % cfg, s, re.S)
        fields = re.findall(r"^\s*(pub(?:\([a-z]+\))?\s+)?(\w+):\s*([^,\n]+),", sm.group(1), re.M)
        res[cfg] = [(n, t.strip()) for p, n, t in fields if p.strip() == "pub"]
    return res


def c11():
    j = []
    # the generated harnesses encode the field list of the source they were generated from: a
    # configuration or public field that is not in the table is NOT covered -> an obligation that
    # cannot pass (reported as inconclusive, never as success)
    now = source_fields()
    tab = {e["cfg"]: [tuple(x) for x in e["fields"]] for e in T.TABLE}
    for cfg in sorted(set(now) | set(tab)):
        if now.get(cfg) != tab.get(cfg):
            j.append(K("c11_set::UNENCODED_%s" % cfg, "public fields of %s changed (source: %s, table: %s): regenerate with kani/gen_c11.py" % (
                cfg, now.get(cfg), tab.get(cfg)), encodes=[], cost=1))
    lit = "; ".join("%s: %s" % (t, " ".join(repr(a) + ("" if ok else "(rejected)") for a, ok in T.LITERALS[t])) for t in ("PeriodType", "ValueType", "bool", "Source", "M"))
    for h in T.SET_HARNESSES:
        if h["cfg"]:
            enc = [IND + h["file"] + ": " + h["cfg"] + "::set"]
            text = "fully symbolic prior configuration (MA: any kind and length, Source: any variant, floats: any bits); %d concrete set calls; %s" % (h["calls"], h["doc"])
        else:
            enc = ["src/" + h["file"] + (": MA::from_str" if "ma" in h["harness"] else ": Source::from_str")]
            text = h["doc"]
        cost = 8 + 6 * h["calls"]
        j.append(K("c11_set::" + h["harness"], text, encodes=enc, cost=cost, timeout=900, tier=h["tier"]))

    DD = "src/core/indicator/dd.rs: "
    RS = "src/core/indicator/result.rs: "
    CF = "src/core/indicator/config.rs: IndicatorConfig::name"
    IN = ["src/core/indicator/instance.rs: IndicatorInstance::name", "src/core/indicator/instance.rs: IndicatorInstance::size"]
    for e in T.TABLE:
        lc = e["cfg"].lower()
        f = IND + e["file"] + ": "
        j.append(K("c11_iface::c11_shape_" + lc, "%s::default(): validate(), init on a valid candle is Ok, name() == NAME (config, instance, boxed dyn config), instance size() == config size() == (values().len(), signals().len()) of the results of 2 steps on CONCRETE valid candles (constant folding; the shape is value-independent: literal arities in next); f64::mul_add / sqrt / round / atanh stubbed (CBMC cannot fold its fma model: 5M steps per EMA; log1p unsupported)" % e["cfg"],
                   encodes=[f + e["cfg"] + "::{default,validate,size,init}", f + e["cfg"] + "Instance::next", CF] + IN + [RS + "IndicatorResult::{new,values,signals,size}"], cost=SHAPE_COST.get(lc, 60), timeout=1800, stubbing=True, tier="q"))
        j.append(K("c11_iface::c11_dyn_" + lc, "%s::default() boxed as dyn IndicatorConfigDyn<Candle>: name/size/validate equal the static ones, init through the box is Ok, dyn instance name/size/config() equal (concrete candle)" % e["cfg"],
                   encodes=[DD + "IndicatorConfigDyn for C", DD + "IndicatorInstanceDyn for I"], cost=120, timeout=1800, tier="t", stubbing=True))
    j.append(K("c11_iface::c11_result_new_shape", "IndicatorResult::new on slices of lengths (nv, 6-nv), nv = 0..=6, symbolic values (any bits) and signals (any variant/strength): lengths min(4, len), values()/signals()/value(i)/signal(i) are the prefixes bit-for-bit (symbolic i), size accessors agree, Copy identical",
               encodes=[RS + "IndicatorResult::{new,values,signals,value,signal,size,values_length,signals_length}"], cost=45))
    j.append(K("c11_iface::c11_dyn_results_parabolicsar", "ParabolicSAR::default(): static vs boxed dyn, symbolic choice among 4 concrete candles per step, 2 steps: results bit-identical (values by bits, signals structurally)",
               encodes=[DD + "IndicatorConfigDyn for C", DD + "IndicatorInstanceDyn for I", IND + "parabolic_sar.rs: ParabolicSARInstance::next"], cost=110, timeout=1200))
    LOGI = "blanket impls of the Dyn traits driven with the logging IndicatorConfig/IndicatorInstance of C09 (generic in the configuration: covers every indicator), symbolic labels; "
    for suf, rt, c, tier in (("n0to2", "stream lengths 0,1,2", 60, "q"), ("n3", "stream length 3", 50, "t"), ("n4", "stream length 4", 55, "t"), ("n5", "stream length 5", 60, "q")):
        j.append(K("c11_iface::c11_dyn_generic_config_" + suf, LOGI + rt + "; Box<dyn IndicatorConfigDyn>: name/size/validate/set forward; over = init(first) + one next per candle, results passed through; empty -> Ok(empty); failing init returned",
                   encodes=[DD + "IndicatorConfigDyn for C::{init,over,name,validate,set,size}"], cost=c, timeout=900, tier=tier))
    for suf, rt, c, tier in (("n0to1", "stream lengths 0,1", 80, "q"), ("n2", "stream length 2", 80, "t"), ("n3", "stream length 3", 90, "t"), ("n4", "stream length 4", 100, "t"), ("n5", "stream length 5", 110, "q")):
        j.append(K("c11_iface::c11_dyn_generic_instance_" + suf, LOGI + rt + "; Box<dyn IndicatorInstanceDyn> from dyn init: name/size/config() forward; first candle through next, the rest through over: exactly one static next per candle, same candle bits, results passed through",
                   encodes=[DD + "IndicatorConfigDyn for C::init", DD + "IndicatorInstanceDyn for I::{next,over,config,size,name}"], cost=c, timeout=1200, tier=tier))
    return j


def c11_all():
    """K jobs + X: every indicator on SYMBOLIC valid candles (default configuration, 3 steps, every feasible path incl.
    zero-volume and flat candles): the result carries exactly size() values and signals"""
    import c09
    j = c11()
    for ind in c09.INDICATORS:
        j.append(X("ind_stream_dispatch", {"kind": ind, "t": 3, "max_paths": 20000}, "%s (default configuration), 3 valid symbolic candles (zero volume, flat candles, ties included): on every feasible path every result has exactly size() values and signals" % ind,
                   cost=15, timeout=1200, encodes=[IND + "*.rs: %s::{init,next,size}" % ind, "src/core/indicator/result.rs: IndicatorResult::{new,values,signals}"]))
        if ind == "MoneyFlowIndex":
            # typical price * volume makes the path conditions non-linear: 3 steps are decided on an idle machine only
            j[-1].core = False
            j[-1].tier = "t"
            import copy
            q = copy.copy(j[-1])
            q.args = dict(q.args, t=3, cvol=1)
            q.core, q.tier = True, "q"
            q.bounds = q.bounds + " — volumes fixed to 1, 2, 3, .. (price * volume stays linear)"
            j.append(q)
    return j


PROP = {
    "id": "C11",
    "jobs": c11_all,
    "bounds": {
        "quick": "shape/name/default: every indicator, default configuration, 2 steps on concrete candles; IndicatorResult::new on symbolic slices; dyn: blanket impls with a logging indicator (symbolic labels, stream lengths 0-2 and 5), ParabolicSAR results static vs dyn; set: every public field of every indicator configuration (36 configurations, 131 fields, read from the source), fully symbolic prior configuration; per field one accepted and one rejected text, one unknown name per configuration; MA::from_str / Source::from_str on the complete literal lists",
        "thorough": "as quick, plus dyn blanket impls at stream lengths 3 and 4, per indicator init through Box<dyn IndicatorConfigDyn>, and for every field the per-type literal set (" + "; ".join(
            "%s: %s" % (t, " ".join(repr(a) + ("" if ok else "(rejected)") for a, ok in T.LITERALS[t])) for t in ("PeriodType", "ValueType", "bool", "Source", "M")) +
            ") and every field name with one character dropped / appended / first letter capitalised, '', ' ', 'foo'",
    },
    "outside": ["result shape on non-default configurations (default configuration: decided on symbolic candles by the X jobs)",
                "per-indicator static-vs-dyn result equality beyond ParabolicSAR (covered by the generic blanket-impl harnesses; boxing an instance with Windows costs CBMC > 400 s)",
                "symbolic (arbitrary) value texts: integer/float parsing of symbolic bytes is not affordable under CBMC; texts outside the literal sets",
                "unknown names outside the generated set"],
    "assumptions": ["Kani 0.68 / CBMC 6.11 model of rustc MIR",
                    "a configuration is observed through its public fields (floats by bits, MA by kind and length)",
                    "the field table reg/tab_c11.py is checked against the current source at every run; a mismatch is an obligation that cannot pass"],
}
