"""Indicator table, agent I: Kaufman, KeltnerChannel, KlingerVolumeOscillator, KnowSureThing, MomentumIndex,
MoneyFlowIndex, ParabolicSAR, PivotReversalStrategy (harness file rsx/harness/c05_i.rs).
Params that select a REFERENCE variant (never the code under test):
  KeltnerChannel  order=code       positions of (source, upper, lower) in the returned values (the documentation lists this order since 860c3d6)
  MoneyFlowIndex  flow=published|volume   raw money flow tp*volume (published formula) / bare volume (what the code
                                   did before the repair); vol=sym|const: symbolic volumes / concrete volumes 1,2,3..
  PivotReversal   rule=doc|code    documented plain-pivot rule (known finding I7) / the latch the code implements
  Kaufman         symat=-1|j       all candles symbolic / only candle j symbolic after a concrete zig-zag prefix
"""
MA_MAIN = ["sma", "wma", "rma", "ema", "dema", "hma", "linreg"]
MA_MORE = ["dma", "tma", "tema", "wsma", "swma", "trima"]

_KELT = "period n, sigma 0.5, source src, valid symbolic candles; reference: middle = the crate's moving average of the source, " \
        "true range = max(high-low, |high-prev close|, |prev close-low|) written out, ATR = plain mean of the last n true ranges " \
        "(prehistory: n copies of high-low of the first candle), bounds = middle +- sigma*ATR"
_KLING = "periods (2,4,3), valid symbolic candles; the crate documents no formula and implements the SIMPLIFIED oscillator " \
         "(signed volume = sign(tp - previous tp) * volume, KO = MA1 - MA2 of it, signal line = MA3(KO), averages started at 0), " \
         "NOT Klinger's original volume force V*|2*dm/cm-1|*T*100: the simplified formula is what is asserted; " \
         "signals: crossing rule on the returned values (slot 0: KO vs 0, slot 1: KO vs signal line)"
_KST = "ROC periods (1,2,3,4), MA periods (2,3,2,3), signal 4, valid symbolic candles; reference: ROC_k = (close - close[k ago])/close[k ago] " \
       "from the close history, KST = 1*MA(ROC1)+2*MA(ROC2)+3*MA(ROC3)+4*MA(ROC4) over the crate's averages started at 0 (not scaled by 100), " \
       "signal line = MA(KST); signal: crossing rule on the returned values"
_MOM = "periods (3,1), valid symbolic candles; values (x - x[3 ago], x - x[1 ago]) from the source history; signal: both positive => buy, both negative => sell on the returned values"
_MFI = "period n, zone 0.25, valid symbolic candles (vol=const: volumes fixed to 1,2,3.. to keep tp*volume linear); reference: typical price (h+l+c)/3, " \
       "raw flow = tp*volume (published) summed over the last n bars separately for rising / falling tp, MFI = 1 - 1/(1 + pos/neg) in [0,1]; " \
       "no negative flow but positive flow => 1; no flow at all => 0.5 (undefined by the formula, rule read from the code); " \
       "flows within 0.001 of zero but not zero are exempt (rounding allowance of the quotient); " \
       "signals: slot 0 enters a zone (lower bound downwards => buy, upper bound upwards => sell), slot 1 leaves a zone, crossing rule on the returned values, detectors start neutral"
_PSAR = "af_step 0.125, af_max 0.3 (cap reached after 2 new extremes), valid symbolic candles, state merging off (no_merge); reference: Wilder's state machine written out " \
        "(first bar: up trend, SAR = its low, EP = its high; new extreme => EP, AF += step capped; low < SAR (high > SAR) => flip, SAR = EP incl. the current bar, EP = bar's other extreme, AF = step; " \
        "next SAR = SAR + AF*(EP - SAR) clamped by the lows (highs) of the current and the previous bar); the returned SAR is the one valid for the current bar; " \
        "signal: change of the returned trend value (0 before the first step, so the first step always signals its trend: read from the code); " \
        "ranges: trend in {-1,1}, up trend => SAR <= low, down trend => SAR >= high"
_KAUF = "periods (2,2,4) [per=b] or (2,1,3) [per=a], k = k10/10; reference: ER = |x - x[2 ago]| / sum of the last 2 absolute one-step changes (0 if the sum is 0; sums within 0.001 of zero exempt), " \
        "SC = ER*(fastest-slowest)+slowest (squared if square=1), KAMA += SC*(x - KAMA) from the first source value; " \
        "filter_period < 2: signal = crossing of source and KAMA on the returned value (fully symbolic candles); " \
        "filter_period >= 2: latch read from the code (a crossing is remembered with the KAMA value and emits nothing; later, without a new crossing, " \
        "|KAMA - remembered| > k*StDev(KAMA, filter_period) emits it once), the StDev is the crate's over the returned values; " \
        "symat=j: ONLY candle j (the last one) is symbolic after a fixed concrete zig-zag 10,12,8,11,10,10.125,10.5,9,9.75 (a fully symbolic history " \
        "with the square root of StDev is beyond the solvers), symat=-1: all candles symbolic"
_PIV = "left/right as given, valid symbolic candles; a pivot 'happens' on the step where the crate's Upper/LowerReversalSignal(left,right) over the highs/lows confirms it " \
       "(the detectors themselves are C14); rule=doc: low pivot => buy, high pivot => sell, otherwise none; rule=code: the latch the code implements instead " \
       "(le = high pivot now or high <= last pivot high, se = low pivot now or low >= last pivot low, remembered prices start at 0, signal = se - le)"


def _kelt(ma, n, t, src="close", order="code", shape="free"):
    return {"ma": ma, "n": n, "t": t, "src": src, "order": order, "shape": shape}


def _kauf(what_t, filt, symat, per, k10=5, square=1, src="close", **kw):
    d = {"t": what_t, "filter": filt, "symat": symat, "per": per, "k10": k10, "square": square, "src": src}
    d.update(kw)
    return d


ROWS = [
    # ---------------------------------------------------------------- KeltnerChannel (named by C05 / C12)
    {"entry": "c05_keltner_channel", "indicator": "KeltnerChannel", "aspects": ["values", "signals", "ranges"],
     "params": [_kelt(m, 3, 5) for m in MA_MAIN] + [_kelt(m, 2, 4) for m in MA_MAIN + MA_MORE]
               + [_kelt("ema", 3, 5, src="hl2"), _kelt("sma", 3, 5, src="open"), _kelt("ema", 4, 6)],
     "bound": _KELT + "; values are read in the order the code returns them (source, upper, lower); signals: source crossing above the upper bound => buy, "
              "under the lower bound => sell (documented polarity, asserted on steps where no deciding difference is within 0.001 of its threshold), detectors start neutral; "
              "labels .fires/.full/.none_without_event do not depend on the polarity; ranges: upper >= reference middle >= lower",
     "cost": 15},
    {"entry": "c05_keltner_channel", "indicator": "KeltnerChannel", "aspects": ["signals"],
     "params": [_kelt(m, 2, 3, shape="flat") for m in ["sma", "ema", "wma", "rma", "dema", "hma", "linreg"]] + [_kelt("ema", 3, 4, shape="flat"), _kelt("sma", 3, 4, shape="flat")],
     "bound": _KELT + "; shape=flat: after the symbolic first candle (close p) every candle is exactly flat at p, so the true ranges die out and on step n the band collapses onto the source: "
              "both events (above upper, under lower) happen at once and the documented result is no signal (Action::None)",
     "cost": 3},
    # ---------------------------------------------------------------- MoneyFlowIndex (named by C05 / C12)
    {"entry": "c05_money_flow_index", "indicator": "MoneyFlowIndex", "aspects": ["values", "signals", "ranges"],
     "params": [{"n": 2, "t": 3, "flow": "published", "vol": "const"}],
     "aspect_params": {
         # vol=sym with n=2 is registered as a deepening job: before the repair of the flow (known finding I4) the search for the
         # counterexample is non-linear and the solver's models may be unusable (INCONCLUSIVE); after the repair the code computes
         # tp*volume itself and the jobs pass (measured with the repair applied locally: t=2 2 s, t=3 175 s)
         "values": [{"n": 2, "t": 3, "flow": "published", "vol": "const"}, {"n": 1, "t": 3, "flow": "published", "vol": "sym"},
                    {"n": 3, "t": 4, "flow": "published", "vol": "const"},
                    {"n": 2, "t": 2, "flow": "published", "vol": "sym", "_tier": "t", "_core": False},
                    {"n": 2, "t": 3, "flow": "published", "vol": "sym", "_tier": "t", "_core": False}],
         "signals": [{"n": 2, "t": 3, "flow": "published", "vol": "sym"}, {"n": 2, "t": 4, "flow": "published", "vol": "const"}],
         "ranges": [{"n": 2, "t": 3, "flow": "published", "vol": "sym"}, {"n": 2, "t": 4, "flow": "published", "vol": "const"}],
     },
     "bound": _MFI, "cost": 60, "timeout": 1800},
    # ---------------------------------------------------------------- ParabolicSAR (named by C05 / C06 / C12)
    {"entry": "c05_parabolic_sar", "indicator": "ParabolicSAR", "aspects": ["values", "signals", "ranges"],
     "params": [{"t": 4, "no_merge": 1}, {"t": 5, "no_merge": 1}, {"t": 6, "no_merge": 1, "_tier": "t", "_core": False}],
     "bound": _PSAR, "cost": 15},
    # ---------------------------------------------------------------- KlingerVolumeOscillator
    {"entry": "c05_klinger_volume_oscillator", "indicator": "KlingerVolumeOscillator", "aspects": ["values", "signals"],
     "params": [{"ma": m, "t": 5} for m in MA_MAIN + MA_MORE],
     "bound": _KLING, "cost": 20},
    # ---------------------------------------------------------------- KnowSureThing
    {"entry": "c05_know_sure_thing", "indicator": "KnowSureThing", "aspects": ["values", "signals"],
     "params": [{"ma": m, "t": 6} for m in MA_MAIN + MA_MORE],
     "bound": _KST, "cost": 20},
    # ---------------------------------------------------------------- MomentumIndex
    {"entry": "c05_momentum_index", "indicator": "MomentumIndex", "aspects": ["values", "signals"],
     "params": [{"t": 6, "src": s} for s in ["close", "hl2", "open"]],
     "bound": _MOM, "cost": 2},
    # ---------------------------------------------------------------- Kaufman
    {"entry": "c05_kaufman", "indicator": "Kaufman", "aspects": ["values", "signals"],
     "params": [],
     "aspect_params": {
         "values": [_kauf(4, 0, -1, "b"), _kauf(4, 1, -1, "b", square=0, src="hl2"), _kauf(5, 0, -1, "a", square=0),
                    _kauf(4, 2, 3, "a"), _kauf(6, 3, 5, "a", k10=15)],
         "signals": [_kauf(4, 0, -1, "b"), _kauf(4, 1, -1, "b", square=0, src="hl2")]
                    + [_kauf(j + 1, 2, j, "a") for j in range(1, 8)] + [_kauf(j + 1, 3, j, "a", k10=15) for j in (3, 4, 6, 7)],
     },
     "bound": _KAUF, "cost": 10},
    # ---------------------------------------------------------------- PivotReversalStrategy
    {"entry": "c05_pivot_reversal_strategy", "indicator": "PivotReversalStrategy", "aspects": ["values", "signals"],
     "params": [],
     "aspect_params": {
         "values": [{"t": 3, "left": 1, "right": 1, "rule": "doc"}],
         "signals": [{"t": 4, "left": 1, "right": 1, "rule": "doc"}, {"t": 5, "left": 2, "right": 1, "rule": "doc"},
                     {"t": 4, "left": 1, "right": 1, "rule": "code"}, {"t": 5, "left": 2, "right": 1, "rule": "code"},
                     {"t": 5, "left": 1, "right": 2, "rule": "code"}, {"t": 6, "left": 2, "right": 2, "rule": "code"}],
     },
     "bound": _PIV, "cost": 15},
]
