from regbase import K, X, S
import c10_k
import c09

IND = c09.INDICATORS


def x_jobs():
    j = []
    for ind in IND:
        j.append(X("ind_stream_dispatch", {"kind": ind, "t": 3, "max_paths": 20000}, "%s (default configuration): an accepted instance processes 3 valid symbolic candles without a panic event on any feasible path (dev-profile semantics: overflow checks, debug assertions, index/unwrap panics)" % ind, cost=15, timeout=1200,
                   encodes=["src/indicators/*.rs: %s::{init,next}" % ind, "src/methods/*.rs", "src/core/window.rs"]))
        if ind == "MoneyFlowIndex":
            # typical price * volume makes the path conditions non-linear: 3 steps are decided on an idle machine only
            j[-1].core = False
            j[-1].tier = "t"
            import copy
            q = copy.copy(j[-1])
            q.args = dict(q.args, t=3, cvol=1)
            q.core, q.tier = True, "q"
            q.bounds = q.bounds + " — volumes fixed to 1, 2, 3, .. (price * volume stays linear)"
            j.append(q)
    for down in (0, 1):
        j.append(X("c10_awesome_long", {"pre": 600, "t": 1, "down": down}, "AwesomeOscillator{SMA(3), SMA(2), left 1, right 1, conseq_peaks 255} (accepted): 600 concrete candles whose oscillator value is a %s saw-tooth that never crosses zero (a confirmed peak every second bar: the u8 peak counter passes 255), then 1 symbolic valid candle: no panic event (dev-profile overflow checks), result shape, and the twin-peaks signal keeps firing after 255 peaks" % ("negative" if down else "positive"),
                   cost=5, encodes=["src/indicators/awesome_oscillator.rs: AwesomeOscillator::init, AwesomeOscillatorInstance::next", "src/methods/reversal.rs"]))
    for m in ("sma", "wma", "swma", "hma", "linreg", "trima", "integral", "derivative", "momentum", "stdev", "linvol", "vwma", "adi"):
        j.append(X("c02_" + m, {"n": 254, "t": 257} if m not in ("hma", "trima", "stdev", "vwma", "adi") else {"n": 16, "t": 19}, "%s at its largest covered length: no panic event on any feasible path of a symbolic stream (and the output equals the definition)" % m, cost=30,
                   encodes=["src/methods/*.rs: %s" % m, "src/core/window.rs"]))
    return j


def jobs():
    return c10_k.c10() + x_jobs()


PROP = dict(c10_k.PROP)
PROP["jobs"] = jobs
PROP["bounds"] = dict(PROP["bounds"])
PROP["bounds"]["quick"] += "; X: accepted indicator instances (29 indicators, default configuration) and 13 methods process symbolic valid streams without a panic event"
