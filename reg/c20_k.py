from regbase import K, X
import c19_k as _c19

W = "src/core/window.rs: "
WIN_FNS = _c19.WIN_FNS
WIDTHS = (["p16"], "q"), (["p32"], "t"), (["p64"], "t")
CAPTXT = "capacity symbolic 1..=300 under %s, phase symbolic, contents symbolic u8"

# C01 observer/push family at CAP = 300 (kani/src/c01_window.rs switches CAP under p16/p32/p64);
# the iterator-split harnesses stay at capacity <= 32
C01_WIDE = [
    ("c01_window::c01_push_step", CAPTXT + "; one push from an arbitrary ring, symbolic observer index", 40, True, ()),
    ("c01_window::c01_push_twice", CAPTXT + "; two pushes (wrap at any phase)", 40, True, ()),
    ("c01_window::c01_observers", CAPTXT + "; every single-call observer, symbolic index over the whole PeriodType", 60, True, ()),
    ("c01_window::c01_index_oob_panics", CAPTXT + "; Index with k >= N never returns", 10, False, (r"Window index \{index\} is out of range",)),
    ("c01_window::c01_new_is_n_copies", "Window::new(n, v), n symbolic 0..=300 under %s, one push", 15, True, ()),
    ("c01_window::c01_empty_yields_nothing", "empty()/default() under %s: every non-panicking observer, symbolic index over the whole PeriodType", 3, False, ()),
    ("c01_window::c01_from_vec", "From<Vec>/From<Box<[T]>> under %s, length symbolic 1..=32", 12, False, ()),
    ("c01_window::c01_iter_split32", "capacity symbolic 1..=32 under %s, iter() split after symbolic j <= N items", 85, False, ()),
    ("c01_window::c01_iter_rev_split32", "capacity symbolic 1..=32 under %s, iter_rev() split after symbolic j <= N items", 65, False, ()),
]

CAST = "src/methods/"
# (harness, text, cost, features sets [(features, tier)], encodes, stubbing, allow)
ALLW = (([], "q"), (["p16"], "q"), (["p32"], "t"), (["p64"], "t"))


QUICK = {
    # Window beyond 255 (u16)
    "c01_window::c01_push_step[p16]", "c01_window::c01_observers[p16]", "c01_window::c01_new_is_n_copies[p16]",
    # cast sites
    "c20_width::c20_from_parts_oversized_rejected",
    "c20_width::c20_from_parts_len_kept", "c20_width::c20_from_parts_len_kept[p16]",
    "c20_width::c20_hma_sqrt_cast_expr", "c20_width::c20_hma_sqrt_cast_expr[p16]",
    "c20_width::c20_hma_new_ok[p16]",
    "c20_width::c20_highest_index_cast[p16]",
    # constructor boundaries
    "c20_width::c20_window_new_top", "c20_width::c20_window_new_top[p16]", "c20_width::c20_ctor_lengths[p16]",
    # unsafe_performance + u16
    "c01_window::c01_push_step[up+p16]", "c01_window::c01_observers[up+p16]", "c19_unsafe::c19_push3_observers[up+p16]",
    "c19_unsafe::c19_iter_exhausted[up+p16]", "c19_unsafe::c19_new_observers[up+p16]",
}


def k_jobs():
    j = []
    # 1. Window beyond 255
    for feats, tier in WIDTHS:
        for name, txt, cost, heavy, allow in C01_WIDE:
            t = tier if (heavy or feats == ["p16"]) else "t"
            j.append(K(name, "definitional equalities beyond 255: " + (txt % "+".join(feats)), features=feats, tier=t,
                       allow=allow, encodes=WIN_FNS, cost=cost, timeout=max(600, 6 * cost)))
    # 2. cast sites
    j.append(K("c20_width::c20_from_parts_oversized_rejected",
               "default width (u8): from_parts on a slice of 255..=300 elements (symbolic length, any index) never returns: the length assert is evaluated on the usize length before the truncated `len as PeriodType` is used",
               allow=[r"The length of the slice is too large"], encodes=[W + "Window::from_parts (slice.len() as PeriodType)"], cost=10))
    for feats, tier in ALLW:
        f = "+".join(feats) or "u8"
        cap = 254 if not feats else 300
        j.append(K("c20_width::c20_from_parts_len_kept", "%s: from_parts on 1..=%d elements keeps the untruncated length (len, as_slice, iterators, valid index range)" % (f, cap),
                   features=feats, tier=tier, encodes=[W + "Window::from_parts (slice.len() as PeriodType)"], cost=20))
        j.append(K("c20_width::c20_conv_len_cast", "%s: Conv::new with 254, 256, 257, 300 unit weights (concrete lengths, symbolic finite construction value; PeriodType::MAX itself: C10): Err exactly above PeriodType::MAX" % f,
                   features=feats, tier=tier, encodes=[CAST + "conv.rs: Conv::new (weights.len() as PeriodType)"], cost=280, timeout=1500))
        j.append(K("c20_width::c20_hma_sqrt_cast_expr", "%s: the expression `(length as ValueType).sqrt() as PeriodType` of hma.rs:78 (replicated) equals floor(sqrt(length)) for every length of the type%s; sqrt through the integer-argument model (see assumptions)" % (f, "" if f in ("u8", "p16") else " up to 2^24"),
                   features=feats, tier=tier, stubbing=True, encodes=[CAST + "hma.rs: HMA::new (sqrt as PeriodType), expression replicated in the harness"], cost=10))
        j.append(K("c20_width::c20_hma_new_ok", "%s: HMA::new(length), length symbolic 0..=%d: Ok exactly for length >= 2" % (f, cap),
                   features=feats, tier=tier, stubbing=True, encodes=[CAST + "hma.rs: HMA::new", CAST + "wma.rs: WMA::new"], cost=100, timeout=900))
        j.append(K("c20_width::c20_hma_window_lengths", "%s+serde: window lengths of HMA::new(length) for length in {2, 15, 16, 63, 64} observed through Serialize with a sequence-length probe: (length/2, length, floor(sqrt(length)))" % f,
                   features=feats + ["serde"], tier=tier, stubbing=True, encodes=[CAST + "hma.rs: HMA::new (sqrt as PeriodType)", CAST + "wma.rs: WMA::new", W + "impl Serialize for Window<T>"], cost=150, timeout=1500))
        for nm, ty in (("highest", "HighestIndex"), ("lowest", "LowestIndex")):
            j.append(K("c20_width::c20_%s_index_cast" % nm, "%s: %s over %d slots: %d concrete inputs (extreme value first), last input any finite float: the rescan reports position %d (`index as PeriodType` not truncated) or 0 if the last input is the new extreme" % (f, ty, cap, cap - 1, cap - 1),
                       features=feats, tier=tier if nm == "highest" else "t", encodes=[CAST + "highest_lowest_index.rs: %s::next (index as PeriodType)" % ty], cost=150, timeout=1500))
        # 3. constructor boundaries per width
        j.append(K("c20_width::c20_window_new_top", "%s: Window::new(%s, v): length, valid index range, first push" % (f, "PeriodType::MAX-1 = 254" if f == "u8" else "1000"),
                   features=feats, tier=tier, encodes=[W + "Window::new", W + "Window::push", W + "Window::get"], cost=30, timeout=900))
        j.append(K("c20_width::c20_ctor_lengths", "%s: SMA/WMA/LinReg::new(length), length symbolic 0..=%d: Ok from the documented minimum on, no overflow in the usize/float casts, SMA window has `length` slots" % (f, cap),
                   features=feats, tier=tier, encodes=[CAST + "sma.rs: SMA::new", CAST + "wma.rs: WMA::new", CAST + "lin_reg.rs: LinReg::new (usize arithmetic)"], cost=100, timeout=900))
    # 4. combinations with unsafe_performance: the C19 memory-safety set
    j += _c19.jobs_up(["up", "p16"], tier="q", wide=True)
    j += _c19.jobs_up(["up", "p32"], tier="t", wide=True)
    j += _c19.jobs_up(["up", "p64"], tier="t", wide=True)
    # the quick tier is an explicit subset (everything else: thorough only)
    for job in j:
        job.tier = "q" if job.id in QUICK else "t"
    return j


