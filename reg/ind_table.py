"""Indicator harness table shared by C05 (values), C06 (signals), C12 (ranges).
Each reg/ind_*.py module (not this one) defines ROWS = [ {
   "entry": "c05_macd", "indicator": "MACD", "aspects": ["values", "signals"],   # which `what` values the entry implements
   "params": [ {"ma": "ema", "t": 5}, ... ],                                      # one job per parameter set and aspect
   "bound": "periods (2,3,2), t steps of valid symbolic candles",                 # bound text (job params are appended)
   "cost": 3, "tier": "q", "core": True, "timeout": 900, "mode": "real" } ]
Rows may give per-aspect overrides: "aspect_params": {"signals": [ ... ]}."""
import importlib
import os

from regbase import X

HERE = os.path.dirname(os.path.abspath(__file__))
ASPECT_PROP = {"values": "C05", "signals": "C06", "ranges": "C12"}


def rows():
    out = []
    for f in sorted(os.listdir(HERE)):
        if f.startswith("ind_") and f.endswith(".py") and f != "ind_table.py":
            m = importlib.import_module(f[:-3])
            out += list(m.ROWS)
    return out


def jobs_for_aspect(aspect):
    j = []
    for r in rows():
        if aspect not in r["aspects"]:
            continue
        plist = r.get("aspect_params", {}).get(aspect, r["params"])
        for p in plist:
            a = dict(p)
            a["what"] = aspect
            if r.get("mode"):
                a["mode"] = r["mode"]
            tier = p.get("_tier", r.get("tier", "q"))
            core = p.get("_core", r.get("core", True))
            a.pop("_tier", None)
            a.pop("_core", None)
            j.append(X(r["entry"], a, "%s %s: %s" % (r["indicator"], aspect, r["bound"]), tier=tier, core=core,
                       cost=r.get("cost", 5), timeout=r.get("timeout"),
                       encodes=["src/indicators/*.rs: %s::{init,next}" % r["indicator"], "src/helpers/methods.rs: MA::init, MAInstance::next",
                                "src/methods/*.rs (inner methods)", "src/core/indicator/result.rs", "src/core/action.rs", "src/methods/cross.rs"]))
    return j


def covered(aspect):
    return sorted(set(r["indicator"] for r in rows() if aspect in r["aspects"]))
