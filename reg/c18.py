from regbase import K, X

O = "src/core/ohlcv.rs: "
C = "src/core/candles.rs: "
ACC = [O + "OHLCV for (V,V,V,V,V)", O + "OHLCV for [V; 5]", C + "OHLCV for Candle", C + "Candle::from", C + "From<&dyn OHLCV> for Candle",
       C + "From<(V,V,V,V)> for Candle", C + "From<(V,V,V,V,V)> for Candle", C + "PartialEq for Candle"]
SRC_TXT = [C + "FromStr for Source", C + "TryFrom<&str> for Source", C + "TryFrom<String> for Source",
           C + "From<Source> for &'static str", C + "From<Source> for String"]
MA_TXT = ["src/helpers/methods.rs: FromStr for MA"]
SEQ = ["src/core/sequence.rs: Sequence<T: OHLCV>::validate", "src/core/sequence.rs: Sequence<ValueType>::validate", O + "OHLCV::validate"]
ADD = [C + "Add<T: OHLCV> for Candle::add"]

# IEEE: inf + -inf, 0 * inf, inf / inf ... inside the code under test are not panics; the
# identities are asserted on the NaN results as well.  CBMC's fma model raises FE_INVALID
# through feraiseexcept() for the same operand classes.
NAN_OPS = r"^NaN on (addition|subtraction|multiplication|division) @"
FE = r"^floating-point exception @ <builtin-library-feraiseexcept>"
CVC5 = ("--solver", "cvc5")
M = "c18_candles::"
ANY = "all five fields (and the previous close) any bit pattern incl. NaN/inf/subnormal/negative"


def c18():
    j = []
    j.append(K(M + "c18_accessors", "one candle, " + ANY + ": tuple/array/Candle accessors, From<4-tuple>/<5-tuple>/<&dyn OHLCV>, Candle::from, equality by bits",
               encodes=ACC, cost=2))

    # --- formulas, bit-exact against the documented expression (same expression in the harness; cvc5/FPA decides the identity)
    for feat, ft in (((), "f64"), (("f32",), "f32")):
        for name, text, fn, cost in (
                ("c18_tp", "tp == (high + low + close) / 3", "OHLCV::tp", 10),
                ("c18_hl2", "hl2 == (high + low) * 0.5 == (high + low) / 2", "OHLCV::hl2", 10),
                ("c18_ohlc4", "ohlc4 == (high + low + close + open) * 0.25", "OHLCV::ohlc4", 5),
                ("c18_volumed_price", "volumed_price == (high + low + close) / 3 * volume", "OHLCV::volumed_price", 10),
                ("c18_source_derived", "source(HL2 | TP | VolumedPrice) equal their formulas", "OHLCV::source", 20),
                ("c18_clv_fused", "high != low: clv == ((2*close - low) - high) / (high - low), multiply-subtract fused (real-arithmetic equal to the textbook numerator (close-low)-(high-close))", "OHLCV::clv", 20),
                ("c18_tr_is_tr_close", "tr(prev) == tr_close(prev.close), two candles", "OHLCV::tr", 5),
                ("c18_add_volume", "three candles: volume of a + b, a + tuple, (a+b)+c, a+(b+c) is the float sum in that association", ADD[0], 10)):
            j.append(K(M + name, "%s build, %s: %s, bit-exact (cvc5 back-end)" % (ft, ANY, text), features=feat, allow=[NAN_OPS, FE],
                       encodes=[fn if fn.startswith("src/") else O + fn], cost=cost, timeout=600, extra=CVC5))
    j.append(K(M + "c18_source_fields", "one candle, " + ANY + ": source(Open|High|Low|Close|Volume) is that field, bit-exact", encodes=[O + "OHLCV::source"], cost=2))
    j.append(K(M + "c18_clv_zero_range", "one candle, " + ANY + ", high == low (incl. +0/-0 and infinite): clv == 0", allow=[NAN_OPS, FE], encodes=[O + "OHLCV::clv"], cost=3))
    clvtol = "clv * (high - low) within 12 eps * max|price| of the textbook numerator (close-low)-(high-close); high != low, quotient finite; "
    j.append(K(M + "c18_clv_formula_narrow", "f32 build: " + clvtol + "prices in [1, 16) (no verdict within 1200 s when measured: deepening)", features=["f32"],
               tier="t", core=False, encodes=[O + "OHLCV::clv"], cost=1500, timeout=2400))

    # --- true range by cases
    TR = [O + "OHLCV::tr_close"]
    trb = "high >= low, otherwise " + ANY
    for case, txt in (("up", "pc > high: tr_close == |low - pc|"), ("down", "pc < low: tr_close == |high - pc|"),
                      ("in", "pc inside [low, high] or NaN: tr_close == high - low")):
        j.append(K(M + "c18_tr_select_" + case, "f32 build, %s, %s (numerically; NaN only together)" % (trb, txt), features=["f32"], allow=[NAN_OPS],
                   encodes=TR, cost=20, timeout=600))
        j.append(K(M + "c18_tr_select_" + case, "f64 build, %s, %s (numerically; NaN only together)" % (trb, txt), allow=[NAN_OPS],
                   encodes=TR, cost=120, timeout=1200))
    for h, txt in (("up_range", "pc > high: high - low <= tr_close"), ("up_high", "pc > high: |high - pc| <= tr_close"),
                   ("down_range", "pc < low: high - low <= tr_close"), ("down_low", "pc < low: |low - pc| <= tr_close"),
                   ("in_high", "pc inside or NaN: |high - pc| <= tr_close"), ("in_low", "pc inside or NaN: |low - pc| <= tr_close")):
        j.append(K(M + "c18_tr_dom_" + h, "f32 build, %s, %s (no term exceeds the result; NaN only together)" % (trb, txt), features=["f32"],
                   allow=[NAN_OPS], encodes=TR, cost=70, timeout=900))
        j.append(K(M + "c18_tr_dom_" + h, "f64 build, %s, %s (monotonicity of binary64 subtraction: no verdict within 900 s when measured: deepening)" % (trb, txt),
                   tier="t", core=False, allow=[NAN_OPS], encodes=TR, cost=1800, timeout=1800))
    j.append(K(M + "c18_tr_glue", "four unrestricted f64: equal to one of three terms + exceeded by none + NaN only if all are  ==>  equal to max(t1, t2, t3) (float max only; joins c18_tr_select_* and c18_tr_dom_*)",
               encodes=TR, cost=2))
    j.append(K(M + "c18_tr_close", "f32 build, %s: monolithic tr_close == max(high-low, |high-pc|, |low-pc|) (no verdict within 600 s when measured: deepening)" % trb,
               features=["f32"], tier="t", core=False, allow=[NAN_OPS], encodes=TR, cost=1800, timeout=1800))

    # --- validate, aggregation, sequences
    j.append(K(M + "c18_validate_sandwich", "one candle, " + ANY + ": S => validate() => N with N = low<=close<=high, low<=high, four prices finite > 0, volume NaN or >= 0; S = N and low<=open<=high and volume NaN or finite; tuple/array views agree",
               encodes=[O + "OHLCV::validate"], cost=15))
    j.append(K(M + "c18_add_prices", "three candles, " + ANY + ": a+b, a+tuple, (a+b)+c, a+(b+c): first open, last close bit-exact; high/low numerically equal in both associations, upper/lower bound of and one of the inputs; NaN ignored",
               allow=[NAN_OPS], encodes=ADD, cost=10))
    j.append(K(M + "c18_seq_validate_candles", "slice &arr[..k] of 3 unrestricted candles, k symbolic 0..=3, and the array itself: Sequence::validate == every candle validates", encodes=SEQ, cost=35, timeout=600))
    j.append(K(M + "c18_seq_validate_values", "slice &arr[..k] of 3 unrestricted floats, k symbolic 0..=3: Sequence::validate == every value finite", encodes=SEQ, cost=3))

    # --- text
    j.append(K(M + "c18_source_roundtrip", "all 8 Source kinds (symbolic kind): Into<&str> is the documented text, Into<String> equal, parse / TryFrom<&str> / TryFrom<String> give the kind back",
               encodes=SRC_TXT, cost=55, timeout=600))
    costs = [3, 10, 20, 25, 35, 50, 70]
    for n in range(7):
        j.append(K(M + "c18_source_parse_len%d" % n, "every ASCII string of exactly %d bytes (symbolic bytes < 128): Ok(kind) iff trimmed + ascii-lowercased it is close/open/high/low/hl2/tp/hlc3/volume, else Err" % n,
                   encodes=SRC_TXT[:1], cost=costs[n], timeout=600))
    j.append(K(M + "c18_ma_roundtrip", "all 15 MA kinds (symbolic) x every length 0..=255 (symbolic u8 rendered to 1-3 decimal digits): \"<kind>-<n>\" parses to that kind and length",
               encodes=MA_TXT, cost=250, timeout=1200))
    costs = [6, 30, 35, 40, 45, 60, 140]
    for n in range(7):
        j.append(K(M + "c18_ma_parse_len%d" % n, "every ASCII string of exactly %d bytes: \"<listed kind>-<digits>\" => Ok(kind(value)); no '-', unlisted (or upper-case) kind, or length not [+]digits => Err; Ok only with the right value" % n,
                   encodes=MA_TXT, cost=costs[n], timeout=900))
    for n, c in ((3, 40), (4, 60)):
        j.append(K(M + "c18_ma_parse_sma_tail%d" % n, "\"sma-\" + every %d symbolic ASCII bytes (7/8-byte texts): accepted iff the tail is [+]digits whose value fits PeriodType (values 256..9999 rejected with the default u8, never wrapped), accepted text gives exactly that length" % n,
                   encodes=MA_TXT, cost=c, timeout=900))
    return j


PROP = {
    "id": "C18",
    "jobs": c18,
    "bounds": {
        "quick": "single candles / candle triples with completely unrestricted fields; formulas bit-exact at f32 and f64; true range == max of the three textbook terms decided by cases (selection at f32 and f64, dominance at f32, glue); validate as a sandwich; Sequence::validate on <= 3 elements; Source texts: all kinds round trip, every ASCII string of <= 6 bytes; MA texts: every kind x every u8 length round trip, every ASCII string of <= 6 bytes",
        "thorough": "as quick; true-range dominance at f64, monolithic true-range identity and the clv tolerance form at f32 are best-effort (no verdict when measured)",
    },
    "outside": ["clv against the textbook expression with three subtractions: only the real-arithmetic-equal fused form is decided bit-exactly (plus the zero-range branch); the rounding-tolerance form did not reach a verdict",
                "true range: the 'no term exceeds the result' half (monotonicity of IEEE subtraction) is decided for binary32 only",
                "associativity of the float volume sum (not claimed by the statement as decided here; X engine over reals)",
                "Source / MA strings longer than 6 bytes other than the canonical texts; non-ASCII strings; PeriodType other than u8 for the MA length",
                "Sequence::validate on more than 3 elements"],
    "assumptions": ["Kani 0.68 / CBMC 6.11 model of rustc MIR and of IEEE-754 binary32/binary64 arithmetic (round to nearest even); mul_add is CBMC's fma model",
                    "identities of the form 'code == same expression' are decided with the cvc5 back-end (CBMC --smt2, FPA theory); NaN payloads are not compared (identical bits or both NaN)",
                    "CBMC's NaN side checks (inf + -inf, 0 * inf, ...) and the FE_INVALID raise of its fma model inside the code under test are allow-listed: IEEE NaN results are not panics and the identities are asserted on them as well",
                    "validate(): the docs and the code disagree on whether open must lie inside [low, high]; the harness asserts the sandwich S => validate() => N and is satisfied by either reading",
                    "the sign of a zero true range / of a zero high or low after Candle + Candle is not part of the property (numeric equality)"],
}
