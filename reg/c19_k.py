from regbase import K, X

W = "src/core/window.rs: "
WIN_FNS = [W + f for f in ("Window::new", "Window::empty", "Window::from_parts", "From<Vec<T>>", "From<Box<[T]>>",
                           "Window::push", "Window::newest", "Window::oldest", "Window::get", "Window::slice_index",
                           "Index<PeriodType>::index", "Window::len", "Window::is_empty", "Window::as_slice",
                           "Window::iter", "Window::iter_rev", "WindowIterator::{next,size_hint,count,last}",
                           "ReversedWindowIterator::{next,size_hint,count,last}", "IntoIterator for &Window")]
UNSAFE_SITES = [W + s for s in ("push: buf.get_unchecked_mut(index)", "newest: buf.get_unchecked(index-1 | s_1)",
                                "oldest: buf.get_unchecked(index)", "Index::index: buf.get_unchecked(slice_index)",
                                "WindowIterator::next: buf.get_unchecked(index)",
                                "ReversedWindowIterator::next: buf.get_unchecked(index)")]

UP = "unsafe_performance build: Kani checks std's get_unchecked safety precondition (index < len) and pointer validity at every unchecked access; "

# (harness, bound text, cost default width, cost at CAP=300, wide-capable)
# C01 harnesses whose premise "the default build does not panic" holds.  Left out on
# purpose: c01_index_oob_panics, c01_empty_index_panics, c01_from_parts_bad_index_panics
# (the default build panics there, so the property is silent).
CAPTXT = "capacity symbolic 1..=%d, phase symbolic, contents symbolic u8"
C01_SET = [
    ("c01_window::c01_push_step", CAPTXT + "; one push from an arbitrary ring, symbolic observer index", 25, 40),
    ("c01_window::c01_push_twice", CAPTXT + "; two pushes (wrap at any phase)", 20, 40),
    ("c01_window::c01_observers", CAPTXT + "; every single-call observer, symbolic index over the whole PeriodType", 35, 60),
    ("c01_window::c01_new_is_n_copies", "Window::new(n, v), n symbolic 0..=%d, one push", 10, 15),
    ("c01_window::c01_empty_yields_nothing", "empty()/default(): every non-panicking observer, symbolic index%.0s", 3, 3),
    ("c01_window::c01_empty_last", "empty(): iter().last()/iter_rev().last() is None (default build does not panic since 2ae1e8b)%.0s", 3, 3),
    ("c01_window::c01_from_vec", "From<Vec>/From<Box<[T]>>, length symbolic 1..=32%.0s", 12, 12),
    ("c01_window::c01_iter_split32", "capacity symbolic 1..=32, iter() split after symbolic j <= N items: next/size_hint/len/count/last of the rest, fused%.0s", 85, 85),
    ("c01_window::c01_iter_rev_split32", "capacity symbolic 1..=32, iter_rev() split after symbolic j <= N items%.0s", 65, 65),
]
C19_SET = [
    ("c19_unsafe::c19_push3_observers", CAPTXT + "; three pushes, then every observer that reads through an unchecked access", 40, 70),
    ("c19_unsafe::c19_iter_exhausted", "capacity symbolic 1..=8, any phase; both iterators consumed to the end, then next/next/size_hint/last|count again (fused)%.0s", 15, 15),
    ("c19_unsafe::c19_new_push_iter", "Window::new(n, v), n symbolic 1..=6, p symbolic 0..=7 pushes, full iteration + Index of every slot, consumed iter().last()%.0s", 30, 30),
    ("c19_unsafe::c19_new_observers", "Window::new(n, v), n symbolic 0..=%d (incl. the empty window): every observer the default build answers without a panic for that n", 10, 15),
]


def jobs_up(features, tier="q", wide=False, only_mem=False):
    """The memory-safety set for one feature combination (used by C20 for up+p16/p32/p64 too)."""
    j = []
    cap = 300 if wide else 254
    for name, txt, c8, c300 in C01_SET + C19_SET:
        cost = c300 if wide else c8
        j.append(K(name, UP + (txt % cap), features=features, tier=tier, encodes=WIN_FNS + UNSAFE_SITES,
                   cost=cost, timeout=max(600, 6 * cost)))
    return j


def k_jobs():
    j = jobs_up(["up"])
    # the c19-specific sequences also on the default build: both builds equal the same oracle
    for name, txt, c8, _ in C19_SET:
        j.append(K(name, "default build (oracle side of the two-build comparison): " + (txt % 254),
                   encodes=WIN_FNS, cost=c8, timeout=max(600, 6 * c8)))
    return j


