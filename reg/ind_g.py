"""Group G indicator rows (harness rsx/harness/c05_g.rs). Costs were measured on a heavily loaded machine (load ~40 on 16 cores)."""
MA5 = ["ema", "sma", "wma", "rma", "dema"]
MA_MORE = ["tema", "hma", "linreg", "dma", "tma", "wsma", "swma", "trima"]


def _ma(kinds, **kw):
    return [dict(kw, ma=m) for m in kinds]


ROWS = [
    # ---------------------------------------------------------------- Aroon
    {"entry": "c05_aroon", "indicator": "Aroon", "aspects": ["values", "signals", "ranges"],
     "params": [{"n": 2, "z": 50, "ozp": 2, "t": 5}, {"n": 3, "z": 30, "ozp": 2, "t": 6}, {"n": 4, "z": 25, "ozp": 3, "t": 6, "_tier": "t", "_core": False}],
     "bound": "period n, signal_zone z/100 (z = 50 with n = 2 and z = 25 with n = 4 put the zone borders on attainable values), over_zone_period ozp, t steps of valid symbolic candles (windows pre-filled with the initial candle); "
              "reference: up/down = (period - age of the NEWEST highest high / lowest low among the last `period` highs / lows)/period, range [0,1]; "
              "signals evaluated on the returned values: #0 crossing of up over down (previous difference 0 before the first step), "
              "#1 = (up == 1) - (down == 1) on every step (code rule; the doc says 'rises up to 1.0'), "
              "#2 = Action((length of the current run with up >= 1-zone and down <= zone  -  length of the mirrored run)/over_zone_period)",
     "cost": 15},
    # ---------------------------------------------------------------- Bollinger bands
    {"entry": "c05_bollinger_bands", "indicator": "BollingerBands", "aspects": ["values", "ranges"],
     "params": [{"n": 3, "src": "close", "t": 5}, {"n": 4, "src": "close", "t": 4}, {"n": 3, "src": "hl2", "t": 3}, {"n": 3, "src": "tp", "t": 2},
                # deepening: decided in ~60 s on an idle machine, 'unknown' from the non-linear core under load
                {"n": 3, "src": "hl2", "t": 4, "_tier": "t", "_core": False}, {"n": 3, "src": "tp", "t": 3, "_tier": "t", "_core": False}],
     "bound": "avg_size n, sigma 1.125, t steps (hl2 / tp sources only 4 / 3 steps: deeper non-linear queries are not decided by the solvers); "
              "reference: middle = mean of the last n sources, upper - middle >= 0, ((upper-middle)/sigma)^2 = sample variance (divisor n-1, the crate's StDev definition) of the last n sources, "
              "middle - lower = upper - middle; ranges: upper >= middle >= lower",
     "cost": 15},
    {"entry": "c05_bollinger_bands", "indicator": "BollingerBands", "aspects": ["signals"],
     "params": [{"n": 3, "src": "close", "t": 2, "touch": 1}, {"n": 3, "src": "hl2", "t": 2, "touch": 1},
                {"n": 3, "src": "close", "t": 5, "touch": 0}, {"n": 3, "src": "hl2", "t": 3, "touch": 0}, {"n": 3, "src": "tp", "t": 3, "touch": 0}],
     "bound": "avg_size 3, sigma 1.125 (below (n-1)/sqrt(n) so that band touches exist); signal = Action(2*(src-lower)/(upper-lower) - 1) on the returned bounds, 0.5 -> none-strength when the band has zero width (code); "
              "touch=1 additionally: the position is >= 1 when src >= upper and <= -1 when src <= lower (full buy / full sell after Action's clamping; only 2 steps: the quotient makes the query non-linear)",
     "cost": 10},
    # ---------------------------------------------------------------- Chaikin money flow
    {"entry": "c05_chaikin_money_flow", "indicator": "ChaikinMoneyFlow", "aspects": ["values", "signals", "ranges"],
     "params": [{"n": 2, "t": 4}, {"n": 3, "t": 5}, {"n": 4, "t": 6}],
     "bound": "size n, t steps; precondition stated in the harness: total volume of the window > 0.001 at every step (the code divides by it unguarded); "
              "reference: sum(clv*volume)/sum(volume) over the last n candles (window pre-filled with the initial candle), clv = ((c-l)-(h-c))/(h-l), 0 when h = l; range [-1,1]; "
              "signal: crossing of zero by the returned value (previous value 0 before the first step)",
     "cost": 10},
    # ---------------------------------------------------------------- Chande momentum oscillator
    {"entry": "c05_chande_momentum_oscillator", "indicator": "ChandeMomentumOscillator", "aspects": ["values", "signals", "ranges"],
     "params": [{"n": 2, "src": "close", "t": 4}, {"n": 3, "src": "tp", "t": 5}, {"n": 3, "src": "hl2", "t": 6, "_tier": "t", "_core": False}],
     "aspect_params": {"values": [{"n": 2, "src": "close", "t": 4}, {"n": 3, "src": "tp", "t": 5}, {"n": 2, "src": "hl2", "t": 5}]},
     "bound": "period n, zone 0.5, t steps; reference: (Su - Sd)/(Su + Sd) with Su/Sd the sums of the up/down moves of the source over the last n steps (no move before the initial candle), 0 when Su + Sd = 0; range [-1,1]; "
              "signal (code rule for the documented zones): full buy when value+zone was > 0 and is <= 0, full sell when value-zone was < 0 and is >= 0 (previous differences 0 before the first step)",
     "cost": 15},
    # ---------------------------------------------------------------- ADX
    {"entry": "c05_average_directional_index", "indicator": "AverageDirectionalIndex", "aspects": ["values", "signals"],
     "params": _ma(MA5 + MA_MORE, n1=2, n2=3, p1=1, t=4) + [{"ma": "sma", "n1": 3, "n2": 3, "p1": 2, "t": 4}, {"ma": "rma", "n1": 2, "n2": 3, "p1": 1, "t": 5}],
     "bound": "method1 = ma(n1), method2 = ma(n2), period1 p1, zone 0.2; precondition stated in the harness: the smoothed true range is != 0 at every step (then the code's early return never fires); "
              "reference (Wilder): +DM = up if up > down and up > 0 else 0 with up = high - high[p1 steps ago], down = low[p1 ago] - low (mirrored for -DM); +DI = ma1(+DM)/ma1(TR), -DI likewise, "
              "ADX = ma2(|+DI - -DI|/(+DI + -DI)), 0 for a zero sum; TR = max(h-l, |h-prev close|, |l-prev close|); seeds from the code (undocumented): TR average from the range of the first candle, the other averages from 0; "
              "signals on the returned values: #0 = sign(+DI - -DI) when ADX > zone else none, #1 = Action(+DI - -DI)",
     "cost": 60},
    {"entry": "c05_average_directional_index", "indicator": "AverageDirectionalIndex", "aspects": ["ranges"],
     "params": _ma(["sma", "wma", "ema", "rma"], n1=2, n2=2, p1=1, t=2) + [{"ma": "sma", "n1": 3, "n2": 3, "p1": 2, "t": 2}]
               + [dict(p, _tier="t", _core=False) for p in _ma(["sma", "wma"], n1=2, n2=2, p1=1, t=3)],
     "bound": "documented ranges ADX, +DI, -DI in [0,1] for averaging kinds with non-negative weights, smoothed true range != 0; period1 = 1: all six bounds; "
              "period1 = 2: the upper bound of +DI/-DI has its own label (adx.DI.range.documented.period1>1), it does NOT hold (known finding), all other bounds are still checked; 2 steps in the core jobs (the quotient-heavy queries of 3 steps are decided only when the machine is idle: deepening jobs)",
     "cost": 30},
    # ---------------------------------------------------------------- Awesome oscillator
    {"entry": "c05_awesome_oscillator", "indicator": "AwesomeOscillator", "aspects": ["values", "signals"],
     "params": _ma(MA5 + MA_MORE, src="hl2", cp=2, t=6) + [{"ma": "ema", "src": "close", "cp": 2, "t": 6}, {"ma": "sma", "src": "hl2", "cp": 1, "t": 5}],
     "bound": "ma1 = ma(3) slow, ma2 = ma(2) fast, left = right = 1, conseq_peaks cp; reference: value = fast average - slow average of the source (crate's moving averages); "
              "signals: #1 crossing of zero; #0 'twin peaks' follows the CODE (the doc text is ambiguous): pivots of the returned values found by the crate's ReversalSignal(1,1) (C04), local maxima are counted until a step "
              "with value > 0 has passed, local minima until a step with value < 0 has passed, the n-th (n >= conseq_peaks) counted local maximum gives full buy, the n-th counted local minimum full sell; "
              "documented side condition (own label ao.signal0.documented.side_of_zero): full buy only with value <= 0, full sell only with value >= 0 - holds for conseq_peaks = 2, does NOT hold for conseq_peaks = 1 (known finding)",
     "cost": 30},
    # ---------------------------------------------------------------- Chaikin oscillator
    {"entry": "c05_chaikin_oscillator", "indicator": "ChaikinOscillator", "aspects": ["values", "signals"],
     "params": _ma(MA5 + MA_MORE, w=0, t=4) + _ma(["ema", "sma"], w=2, t=5) + [{"ma": "ema", "w": 3, "t": 5}],
     "bound": "ma1 = ma(2), ma2 = ma(3), ADI window w (0 = windowless); reference: short average - long average (crate's moving averages) of ADI = sum of clv*volume over all steps since the initial candle (w = 0, the initial candle "
              "is not accumulated) / over the last w candles (window pre-filled with the initial candle); signal: crossing of zero by the returned value",
     "cost": 5},
    {"entry": "c05_chaikin_oscillator", "indicator": "ChaikinOscillator", "aspects": ["ranges"],
     "params": [{"ma": "ema", "w": 0, "t": 2}],
     "bound": "the doc comment's 'Range in [-1.0; 1.0]' of the value (label chaikin_osc.range.documented): does NOT hold, the value is in volume units (known finding)",
     "cost": 3},
    # ---------------------------------------------------------------- Chande Kroll stop
    {"entry": "c05_chande_kroll_stop", "indicator": "ChandeKrollStop", "aspects": ["values", "signals"],
     "params": _ma(MA5, p=2, q=2, src="close", t=4, doc=0) + [{"ma": "sma", "p": 2, "q": 3, "src": "hl2", "t": 4, "doc": 0}, {"ma": "sma", "p": 3, "q": 2, "src": "close", "t": 5, "doc": 0, "_tier": "t", "_core": False}],
     "aspect_params": {"signals": _ma(MA5, p=2, q=2, src="close", t=4, doc=0) + [{"ma": "sma", "p": 2, "q": 3, "src": "hl2", "t": 4, "doc": 0}, {"ma": "sma", "p": 2, "q": 2, "src": "close", "t": 1, "doc": 1}]},
     "bound": "ma = ma(p), x 1.5, q; reference (TradingView): stop_short = highest over q of (highest high over p - x*ATR), stop_long = lowest over q of (lowest low over p + x*ATR), ATR = crate's ma(p) of the true range "
              "seeded with the range of the first candle, windows pre-filled from the initial candle; values [stop_long, source, stop_short]; "
              "signals on the returned values: #0 = Action((src - mid)/(mid - stop_long)), mid = mean of the stops, 0 when they coincide; "
              "#1 = sign((stop_short - previous) + (stop_long - previous)) on the step where stop_long - stop_short was < 0 and is now > 0, else none; "
              "doc=1 additionally asserts the documented sentences 'above stop short => full buy, below stop long => full sell' where the source is beyond BOTH stops (own label cks.signal0.documented.beyond_both_stops): does NOT hold (known finding)",
     "cost": 40},
    # ---------------------------------------------------------------- CCI
    {"entry": "c05_commodity_channel_index", "indicator": "CommodityChannelIndex", "aspects": ["values", "signals"],
     "params": [{"n": 2, "src": "close", "t": 4}, {"n": 3, "src": "tp", "t": 5}, {"n": 4, "src": "hl2", "t": 6}],
     "bound": "period n, zone 0.5; reference: (src - mean)/(1.5 * mean absolute deviation) over the last n sources (window pre-filled), 0 when the deviation is 0; "
              "signal on consecutive returned values (previous value 0 before the first step): full sell when v > zone and prev <= zone, full buy when v < -zone and prev >= -zone "
              "(the code's extra last_signal latch is thereby shown to have no effect)",
     "cost": 10},
]
