from regbase import K, X

EMA_FAMILY = ["ema", "dma", "tma", "dema", "tema", "rma"]
NAMES = {"ema": "EMA", "dma": "DMA", "tma": "TMA", "dema": "DEMA", "tema": "TEMA", "rma": "RMA", "wsma": "WSMA"}


def job(e, args, what, tier="q", core=True, cost=2, timeout=None, enc=None):
    return X("c03_" + e, args, what, tier=tier, core=core, cost=cost, timeout=timeout, encodes=enc or ["src/methods: %s::{new,next,peek}" % e])


def jobs():
    j = []
    qn = list(range(1, 17)) + [127, 254]
    for e in EMA_FAMILY:
        for n in qn:
            j.append(job(e, {"n": n, "t": 12, "shape": "f"} if e == "ema" else {"n": n, "t": 12}, "%s length %d, 12 steps: next and peek equal the documented recurrence (alpha = %s) at every step, over the reals" % (NAMES[e], n, "1/n" if e == "rma" else "2/(n+1)"), enc=["src/methods/ema.rs, src/methods/rma.rs: %s::{new,next,peek}" % NAMES[e]]))
        for n in range(1, 255):
            if n in qn:
                continue
            j.append(job(e, {"n": n, "t": 24, "shape": "f"} if e == "ema" else {"n": n, "t": 24}, "%s length %d, 24 steps (thorough: every length)" % (NAMES[e], n), tier="t", core=False))
    for n in list(range(1, 17)) + [64, 127]:
        j.append(job("wsma", {"n": n, "t": 12}, "WSMA length %d, 12 steps: smoothing 1/n (EMA over 2n-1)" % n, enc=["src/methods/wsma.rs: WSMA::{new,next,peek}", "src/methods/ema.rs: EMA"]))
    for n in range(17, 128):
        if n in (64, 127):
            continue
        j.append(job("wsma", {"n": n, "t": 24}, "WSMA length %d, 24 steps" % n, tier="t", core=False))
    for s in range(1, 5):
        for l in range(1, 5):
            j.append(job("tsi", {"s": s, "l": l, "t": 6, "shape": "f"}, "TSI (short %d, long %d), 6 steps: ratio of double-smoothed momentum to double-smoothed |momentum| (0 when the denominator is 0); steps with denominator in (0, 1e-3] exempt" % (s, l), cost=5, enc=["src/methods/tsi.rs: TSI::{new,next,peek}", "src/methods/ema.rs: EMA"]))
    for s in range(1, 9):
        for l in range(1, 9):
            if s <= 4 and l <= 4:
                continue
            j.append(job("tsi", {"s": s, "l": l, "t": 8, "shape": "f"}, "TSI (%d, %d), 8 steps" % (s, l), tier="t", core=False, cost=10))
    for n in range(1, 7):
        j.append(job("vidya", {"n": n, "t": n + 4, "shape": "f"}, "Vidya length %d, n+4 steps: EMA whose smoothing 2/(n+1) is scaled by |CMO| of the last n changes; output = input when there was no change; steps with up+dn in (0, 1e-3] exempt" % n, cost=10 + 5 * n, enc=["src/methods/vidya.rs: Vidya::{new,next,peek}"]))
    for n in range(7, 17):
        j.append(job("vidya", {"n": n, "t": n + 4, "shape": "f"}, "Vidya length %d" % n, tier="t", core=False, cost=120, timeout=1800))
    # shaped streams (plateaus, exact returns, monotone runs, scale jumps with symbolic magnitudes): the shapes the
    # quantifier names, fixed by construction so that the solver does not have to find them in a rational query
    SHAPES = ["ure", "uuedd", "udud", "ues", "ddrr", "zzf", "eeu", "uer"]
    for sh in SHAPES:
        for n in (2, 3, 5):
            j.append(job("vidya", {"n": n, "t": n + 5, "shape": sh}, "Vidya length %d on the shaped stream '%s' (u up, d down, e equal, r return two steps back, s x1024, z zero, f free; magnitudes symbolic), %d steps" % (n, sh, n + 5), cost=15, enc=["src/methods/vidya.rs: Vidya::{new,next,peek}"]))
        j.append(job("tsi", {"s": 2, "l": 3, "t": 8, "shape": sh}, "TSI (2,3) on the shaped stream '%s', 8 steps" % sh, cost=5, enc=["src/methods/tsi.rs: TSI::{new,next,peek}"]))
        j.append(job("ema", {"n": 3, "t": 8, "shape": sh}, "EMA(3) on the shaped stream '%s', 8 steps" % sh, cost=2, enc=["src/methods/ema.rs: EMA::{new,next,peek}"]))
    j.append(job("tr", {"t": 5}, "TR, 5 valid symbolic candles: next and OHLCV::tr_close equal max(h-l, |h-pc|, |l-pc|)", enc=["src/methods/tr.rs: TR::{new,next}", "src/core/ohlcv.rs: OHLCV::tr_close"]))
    j.append(job("heikin_ashi", {"t": 5}, "HeikinAshi, 5 valid symbolic candles: open/close recursion, high/low selections, volume; valid in => valid out", enc=["src/methods/heikin_ashi.rs: HeikinAshi::{new,next}", "src/core/ohlcv.rs: OHLCV::ohlc4"]))
    j.append(job("integral0", {"t": 12}, "windowless Integral, 12 steps: cumulative sum of the inputs", enc=["src/methods/integral.rs: Integral::{new,next,peek}"]))
    j.append(job("adi0", {"t": 8}, "windowless ADI, 8 valid symbolic candles: cumulative sum of clv*volume", enc=["src/methods/adi.rs: ADI::{new,next,peek}", "src/core/ohlcv.rs: OHLCV::clv"]))
    j.append(job("candle_helpers", {}, "one valid symbolic candle: clv, ohlc4, tp, hl2, volumed_price equal their formulas; clv in [-1,1]", enc=["src/core/ohlcv.rs: OHLCV::{clv,ohlc4,tp,hl2,volumed_price}"]))
    return j


PROP = {
    "id": "C03",
    "jobs": jobs,
    "bounds": {
        "quick": "recurrences over the reals at every step: EMA DMA TMA DEMA TEMA RMA at lengths 1..16, 127, 254 (12 steps); WSMA 1..16, 64, 127; TSI all (short,long) <= 4 (6 steps); Vidya n <= 6 (n+4 steps); TR, HeikinAshi, windowless Integral/ADI, candle helpers",
        "thorough": "EMA family and RMA at every length 1..=254 (24 steps), WSMA 1..=127, TSI all pairs <= 8, Vidya n <= 16",
    },
    "outside": ["IEEE rounding beyond the algebraic identity (allowance only applied on native replay of a witness)",
                "Vidya / TSI at steps where their denominator is in (0, 1e-3] (quotient not determined at that precision), and their behaviour when the denominator is rounding residue",
                "streams longer than the stated number of steps (the state of these methods is O(1), so a step from the reached states is representative but not a proof)"],
    "assumptions": ["floats are SMT reals; products/quotients of symbolic terms are first abstracted to uninterpreted functions (unsat is final), otherwise decided exactly by standalone z3/cvc5",
                    "translator validation on two concrete input sets per job", "robust witnesses + native replay before any VIOLATION"],
}
