from regbase import K, X

HL = "src/methods/highest_lowest.rs: "
HLI = "src/methods/highest_lowest_index.rs: "
WIN = ["src/core/window.rs: Window::new", "src/core/window.rs: Window::push", "src/core/window.rs: Window::iter",
       "src/core/window.rs: Window::iter_rev", "src/core/window.rs: Window::oldest"]

ENC = {
    "Highest": [HL + "Highest::new", HL + "Highest::next"],
    "Lowest": [HL + "Lowest::new", HL + "Lowest::next"],
    "HighestLowestDelta": [HL + "HighestLowestDelta::new", HL + "HighestLowestDelta::next"],
    "HighestIndex": [HLI + "HighestIndex::new", HLI + "HighestIndex::next"],
    "LowestIndex": [HLI + "LowestIndex::new", HLI + "LowestIndex::next"],
    "Past": ["src/methods/past.rs: Past::new", "src/methods/past.rs: Past::next"],
    "Cross": ["src/methods/cross.rs: Cross::new", "src/methods/cross.rs: Cross::next", "src/methods/cross.rs: CrossAbove::binary",
              "src/methods/cross.rs: CrossUnder::binary"],
    "CrossAbove": ["src/methods/cross.rs: CrossAbove::new", "src/methods/cross.rs: CrossAbove::next", "src/methods/cross.rs: CrossAbove::binary"],
    "CrossUnder": ["src/methods/cross.rs: CrossUnder::new", "src/methods/cross.rs: CrossUnder::next", "src/methods/cross.rs: CrossUnder::binary"],
    "UpperReversalSignal": ["src/methods/reversal.rs: UpperReversalSignal::new", "src/methods/reversal.rs: UpperReversalSignal::next"],
    "LowerReversalSignal": ["src/methods/reversal.rs: LowerReversalSignal::new", "src/methods/reversal.rs: LowerReversalSignal::next"],
    "ReversalSignal": ["src/methods/reversal.rs: ReversalSignal::new", "src/methods/reversal.rs: ReversalSignal::next",
                       "src/methods/reversal.rs: UpperReversalSignal::next", "src/methods/reversal.rs: LowerReversalSignal::next",
                       "src/core/action.rs: Sub for Action"],
}

CONST = "new(p, &v) then four next(&v), v any finite f64: the four outputs are identical (floats bit for bit, indices/signals exactly)"
PREFIX = ("streams v^(1+e), s_1..s_%d and v, s_1..s_%d (e = 1..3 extra leading copies; v and all s_i unrestricted finite f64): "
          "identical outputs on the common suffix v, s_1..s_%d")


PREFIX_S = ("streams v^(1+e), s_1..s_%d and v, s_1..s_%d (e = 1..3 extra leading copies): "
            "identical outputs on the common suffix v, s_1..s_%d")


def k_jobs():
    j = []
    M = "c08_const::"
    for h, ty, cost in (("c08_const_max", "Highest", 45), ("c08_const_min", "Lowest", 45), ("c08_const_past", "Past", 30),
                        ("c08_const_delta", "HighestLowestDelta", 130), ("c08_const_highest_index", "HighestIndex", 45),
                        ("c08_const_lowest_index", "LowestIndex", 45)):
        j.append(K(M + h, "%s, window lengths 1..=3; %s" % (ty, CONST), encodes=ENC[ty] + WIN, cost=cost, timeout=900))
    j.append(K(M + "c08_const_cross_kinds", "Cross, CrossAbove, CrossUnder on a constant pair (a, b) of finite f64; " + CONST,
               encodes=ENC["Cross"] + ENC["CrossAbove"] + ENC["CrossUnder"], cost=30, timeout=900))
    for h, ty in (("c08_const_reversal_upper", "UpperReversalSignal"), ("c08_const_reversal_lower", "LowerReversalSignal"),
                  ("c08_const_reversal_both", "ReversalSignal")):
        j.append(K(M + h, "%s, (left, right) in {1,2}^2; %s" % (ty, CONST), encodes=ENC[ty] + WIN, cost=60, timeout=900))
    for ty, stem in (("Highest", "highest"), ("Lowest", "lowest"), ("HighestIndex", "highest_index"),
                     ("LowestIndex", "lowest_index"), ("Past", "past")):
        for n in (1, 2, 3):
            s = n + 2
            cost = {1: 30, 2: 50, 3: 160}[n] if ty != "Past" else 15
            j.append(K(M + "c08_prefix_%s_n%d" % (stem, n), "%s(%d); " % (ty, n) + PREFIX % (s, s, s),
                       encodes=ENC[ty] + WIN, cost=cost, timeout=1500))
    # HighestLowestDelta: both instances run the float subtraction; unrestricted f64 is feasible for N <= 2 only
    D = "HighestLowestDelta"
    j.append(K(M + "c08_prefix_delta_n1", D + "(1); " + PREFIX % (3, 3, 3), encodes=ENC[D] + WIN, cost=30, timeout=900))
    j.append(K(M + "c08_prefix_delta_small_n2", D + "(2); v and s_i over the i8-valued floats plus -0.0; " + PREFIX_S % (4, 4, 4),
               encodes=ENC[D] + WIN, cost=150, timeout=1500))
    j.append(K(M + "c08_prefix_delta_small_n3", D + "(3); v and s_i over the i8-valued floats plus -0.0; " + PREFIX_S % (5, 5, 5),
               encodes=ENC[D] + WIN, cost=730, timeout=2700, tier="t"))
    j.append(K(M + "c08_prefix_delta_n2", D + "(2); " + PREFIX % (4, 4, 4), encodes=ENC[D] + WIN, cost=2900, timeout=9000,
               tier="t", core=False))
    for ty, stem in (("Cross", "cross_both"), ("CrossAbove", "cross_above"), ("CrossUnder", "cross_under")):
        j.append(K(M + "c08_prefix_" + stem, "%s, inputs are pairs of finite f64; " % ty + PREFIX % (3, 3, 3),
                   encodes=ENC[ty], cost=40, timeout=900))
    for ty, stem in (("UpperReversalSignal", "upper"), ("LowerReversalSignal", "lower"), ("ReversalSignal", "both")):
        for l, r in ((1, 1), (1, 2), (2, 1), (2, 2)):
            s = l + r + 2
            heavy = ty == "ReversalSignal" and (l, r) != (1, 1)
            cost = {2: 35, 3: 60, 4: 120}[l + r] * (4 if ty == "ReversalSignal" else 1)
            j.append(K(M + "c08_prefix_reversal_%s_%d%d" % (stem, l, r), "%s(%d,%d); " % (ty, l, r) + PREFIX % (s, s, s),
                       encodes=ENC[ty] + WIN, cost=cost, timeout=1800, tier="t" if heavy else "q"))
    return j


PROP = {
    "id": "C08",
    "jobs": k_jobs,
    "bounds": {
        "quick": "K (exact kinds only: Highest, Lowest, HighestLowestDelta, HighestIndex, LowestIndex, Past, Cross, CrossAbove, CrossUnder, "
                 "Upper/Lower/ReversalSignal): constant form 4 steps, window lengths 1..3 / (left,right) in {1,2}^2, any finite f64 v; "
                 "metamorphic form with 1..3 extra leading copies and window+2 (reversal: window+1) arbitrary later elements "
                 "(unrestricted finite f64; HighestLowestDelta: N=1 over f64, N=2 over the i8-valued floats with both zeros; ReversalSignal: (1,1))",
        "thorough": "as quick plus ReversalSignal (1,2), (2,1), (2,2) metamorphic, HighestLowestDelta(3) metamorphic over the i8-valued domain, "
                    "HighestLowestDelta(2) metamorphic over unrestricted f64 (deepening)",
    },
    "outside": ["K: arithmetic kinds and indicators (constant only up to rounding: served by X/real)",
                "K: window lengths above 3, more than 3 extra copies, longer suffixes",
                "K: HighestLowestDelta metamorphic form over unrestricted f64 for N >= 3 (two copies of its float subtraction: no verdict in 1500 s)",
                "K: more than four repetitions of v in the constant form (a 5th.. repetition is covered for these kinds by the metamorphic form only up to e = 3)"],
    "assumptions": ["Kani 0.68 / CBMC 6.11 model of rustc MIR and IEEE-754 (dev profile)",
                    "outputs are compared structurally (f64::to_bits, PeriodType ==, Action variant and payload), not with the crate's PartialEq",
                    "NaN/infinite v is outside (constructors reject it / methods assert)"],
}
