from regbase import K, X

HL = "src/methods/highest_lowest.rs: "
HLI = "src/methods/highest_lowest_index.rs: "
WIN = ["src/core/window.rs: Window::new", "src/core/window.rs: Window::push", "src/core/window.rs: Window::iter",
       "src/core/window.rs: WindowIterator::next"]

LONG = ("%s(3), 262 steps: 252 concrete inputs (fixed pattern with ties, rises and falls) then 10 unrestricted finite symbolic f64; "
        "next and peek equal the from-scratch definition on the last 3 inputs at every step (steps 253..262 symbolic, 256 crossed)")


def k_jobs():
    j = []
    M = "c07_long::"
    for h, ty, f in (("c07_long_highest_index_n3", "HighestIndex", HLI), ("c07_long_lowest_index_n3", "LowestIndex", HLI),
                     ("c07_long_highest_n3", "Highest", HL), ("c07_long_lowest_n3", "Lowest", HL)):
        j.append(K(M + h, LONG % ty, encodes=[f + ty + "::new", f + ty + "::next", f + ty + "::peek"] + WIN,
                   cost=180, timeout=1800))
    return j


PROP = {
    "id": "C07",
    "jobs": k_jobs,
    "bounds": {
        "quick": "K part (a), extremum/arg-extremum methods: window 3, 262 steps (252 concrete + 10 symbolic), definitional check at every step",
        "thorough": "as quick",
    },
    "outside": ["K: streams longer than 262 steps; fully symbolic long streams",
                "reversal detectors (registered by their own harness module)",
                "parts (b) and (c) of the design: X engine"],
    "assumptions": ["Kani 0.68 / CBMC 6.11 model of rustc MIR and IEEE-754 comparisons (dev profile)",
                    "the concrete prefix is one fixed stream; what is quantified is the symbolic tail after it",
                    "HighestIndex/LowestIndex's age counter is bounded by the window length (<= 254) by construction, so no counter of these "
                    "methods can reach PeriodType::MAX; the harness decides the property's observable claim (outputs unchanged beyond 255 steps)"],
}
