from regbase import K, X

HL = "src/methods/highest_lowest.rs: "
HLI = "src/methods/highest_lowest_index.rs: "
WIN = ["src/core/window.rs: Window::new", "src/core/window.rs: Window::push", "src/core/window.rs: Window::iter",
       "src/core/window.rs: WindowIterator::next"]


def _enc(f, ty):
    return [f + ty + "::new", f + ty + "::next", f + ty + "::peek"] + WIN


F64 = "unrestricted finite f64 construction value and inputs (all symbolic)"
SMALL = "construction value and inputs symbolic over the i8-valued floats plus -0.0 (every order/tie/zero-sign pattern of the N+T values; differences exact)"


def k_jobs():
    j = []
    M = "c04_select::"
    # (harness, type, file, N, T, cost, tier)
    val = [("c04_highest_n1", "Highest", 1, 4, 21, "q"), ("c04_highest_n2", "Highest", 2, 5, 40, "q"),
           ("c04_highest_n3", "Highest", 3, 6, 60, "q"), ("c04_highest_n4", "Highest", 4, 6, 90, "q"),
           ("c04_lowest_n1", "Lowest", 1, 4, 21, "q"), ("c04_lowest_n2", "Lowest", 2, 5, 40, "q"),
           ("c04_lowest_n3", "Lowest", 3, 6, 66, "q"), ("c04_lowest_n4", "Lowest", 4, 6, 90, "q")]
    for h, ty, n, t, cost, tier in val:
        j.append(K(M + h, "%s(%d), %d steps from construction, %s; next and peek at every step = max/min of the last N inputs (numeric equality)"
                   % (ty, n, t, F64), encodes=_enc(HL, ty), cost=cost, tier=tier, timeout=900))
    idx = [("c04_highest_index_n1", "HighestIndex", 1, 4, 25, "q"), ("c04_highest_index_n2", "HighestIndex", 2, 5, 60, "q"),
           ("c04_highest_index_n3", "HighestIndex", 3, 6, 130, "q"), ("c04_highest_index_n4_t5", "HighestIndex", 4, 5, 100, "q"),
           ("c04_highest_index_n4_t6", "HighestIndex", 4, 6, 190, "t"),
           ("c04_lowest_index_n1", "LowestIndex", 1, 4, 25, "q"), ("c04_lowest_index_n2", "LowestIndex", 2, 5, 60, "q"),
           ("c04_lowest_index_n3", "LowestIndex", 3, 6, 130, "q"), ("c04_lowest_index_n4_t5", "LowestIndex", 4, 5, 100, "q"),
           ("c04_lowest_index_n4_t6", "LowestIndex", 4, 6, 240, "t")]
    for h, ty, n, t, cost, tier in idx:
        j.append(K(M + h, "%s(%d), %d steps from construction, %s; next and peek at every step = age of the NEWEST maximal/minimal element of the last N inputs (exact)"
                   % (ty, n, t, F64), encodes=_enc(HLI, ty), cost=cost, tier=tier, timeout=1200))
    # HighestLowestDelta: one harness per (N, T); the check is made after exactly T steps
    for n in (1, 2, 3, 4):
        for t in range(1, n + 3):
            cost = {1: 15, 2: 30, 3: 15 * t, 4: 32 * t}[n]
            j.append(K(M + "c04_delta_n%d_t%d" % (n, t),
                       "HighestLowestDelta(%d), value returned by the %d-th next after construction = max - min of the last N inputs; %s"
                       % (n, t, SMALL), encodes=_enc(HL, "HighestLowestDelta"), cost=cost,
                       tier="q" if n <= 3 else "t", timeout=1200))
        t = n + 2
        j.append(K(M + "c04_delta_peek_n%d_t%d" % (n, t),
                   "HighestLowestDelta(%d), peek after %d steps = max - min of the last N inputs; %s" % (n, t, SMALL),
                   encodes=_enc(HL, "HighestLowestDelta"), cost={1: 20, 2: 30, 3: 65, 4: 170}[n],
                   tier="q" if n <= 3 else "t", timeout=1200))
    for n, t, cost, tier, core in ((1, 1, 10, "q", True), (1, 2, 10, "q", True), (1, 3, 15, "q", True),
                                   (2, 1, 155, "t", True), (2, 2, 350, "t", False), (2, 3, 280, "t", False), (2, 4, 550, "t", False)):
        j.append(K(M + "c04_delta_f64_n%d_t%d" % (n, t),
                   "HighestLowestDelta(%d), value returned by the %d-th next = max - min of the last N inputs; %s" % (n, t, F64),
                   encodes=_enc(HL, "HighestLowestDelta"), cost=cost, tier=tier, core=core, timeout=2400))
    # the same claims on the f32 build (value_type_f32)
    for h, ty, f, n, t in (("c04_highest_n3", "Highest", HL, 3, 6), ("c04_lowest_n3", "Lowest", HL, 3, 6),
                           ("c04_highest_index_n3", "HighestIndex", HLI, 3, 6), ("c04_lowest_index_n3", "LowestIndex", HLI, 3, 6)):
        j.append(K(M + h, "%s(%d), %d steps, unrestricted finite f32 (feature value_type_f32)" % (ty, n, t),
                   features=("f32",), encodes=_enc(f, ty), cost=60, tier="t", timeout=1200))
    return j


PROP = {
    "id": "C04",
    "jobs": k_jobs,
    "bounds": {
        "quick": "K: Highest/Lowest N=1..4 and HighestIndex/LowestIndex N=1..4, N+1..N+3 steps from construction, unrestricted finite f64, "
                 "checked at every step (next and peek); HighestLowestDelta N=1..3 at every position 1..N+2 (i8-valued floats and both zeros), "
                 "N=1 also over unrestricted finite f64",
        "thorough": "K: as quick plus HighestIndex/LowestIndex N=4 with 6 steps, HighestLowestDelta N=4 (positions 1..6, small domain), "
                    "HighestLowestDelta(2) over unrestricted f64 (first step core, steps 2..4 deepening), N=3 value/index kinds on the f32 build",
    },
    "outside": ["K: window lengths above 4 and streams longer than N+3 steps (X/fp goes further; long streams: C07)",
                "K: SMM and the median of MedianAbsDev (38 GB under CBMC: served by X/fp)",
                "K: HighestLowestDelta over unrestricted f64 beyond N=2 (the float subtraction makes the SAT problem > 600 s at N=3)",
                "NaN/infinite inputs (rejected by the methods' own asserts / constructors)"],
    "assumptions": ["Kani 0.68 / CBMC 6.11 model of rustc MIR and of IEEE-754 comparisons/subtraction (dev profile)",
                    "the construction value stands for the inputs before the first one (history = N copies of it, then the inputs; it is symbolic and independent of the first input)",
                    "values are compared numerically (-0.0 == +0.0, as the statement allows), indices exactly",
                    "for HighestLowestDelta the i8-valued domain (with both zeros) realises every relative order, tie and zero-sign pattern of the at most 10 values in a run; the code only compares, bit-compares and subtracts once"],
}
