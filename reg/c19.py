from regbase import K, X, S

ENC = ["src/methods/smm.rs: SMM::{new,next,peek}, get (unsafe get_unchecked), ptr::copy branch of next", "src/core/window.rs: every cfg!(feature = \"unsafe_performance\") branch"]


def x_jobs():
    j = [S("unsafe_sites_known", "unsafe code occurs only in src/core/window.rs and src/methods/smm.rs (the two files whose unchecked accesses are encoded); a new unsafe site elsewhere makes this check inconclusive", features=("up",))]
    for n in (1, 2, 3):
        j.append(X("c04_smm", {"n": n, "t": n + 2, "mode": "fp", "max_paths": 400000},
                   "SMM length %d with unsafe_performance: the ptr::copy / get_unchecked branch executed with bounds-checked models on every order pattern (incl. +-0) of %d steps: no out-of-bounds access on any feasible path, and the result equals the definition (as the default build does under C04, hence both builds agree)" % (n, n + 2),
                   features=("up",), cost={1: 2, 2: 10, 3: 150}[n], encodes=ENC))
    j.append(X("c04_smm", {"n": 4, "t": 5, "mode": "fp", "max_paths": 400000}, "SMM length 4 with unsafe_performance (deepening)", features=("up",), tier="t", core=False, cost=900, timeout=3000, encodes=ENC))
    for e in ("highest", "lowest", "delta", "highest_index", "lowest_index"):
        j.append(X("c04_" + e, {"n": 3, "t": 5, "mode": "fp"}, "%s length 3 with unsafe_performance (Window's get_unchecked branches): definitional on every order pattern, no out-of-bounds access" % e, features=("up",), cost=15, encodes=ENC))
    for m in ("sma", "wma", "swma", "linreg", "integral", "stdev"):
        j.append(X("c02_" + m, {"n": 3, "t": 6}, "%s length 3 with unsafe_performance: identity with the definition and no out-of-bounds unchecked access (the same obligation holds for the default build under C02: both builds agree)" % m, features=("up",), cost=5, encodes=ENC))
    import c01_extra
    for x in c01_extra.jobs():
        if x.args["n"] in (3, 8, 200, 254):
            j.append(X(x.harness, x.args, x.bounds + " — with unsafe_performance: identical results and no out-of-bounds unchecked access", features=("up",), cost=x.cost, encodes=ENC))
    return j


def jobs():
    j = x_jobs()
    try:
        import c19_k
        j += c19_k.k_jobs()
    except ImportError:
        pass
    return j


PROP = {
    "id": "C19",
    "jobs": jobs,
    "bounds": {"quick": "X (feature unsafe_performance): SMM's ptr::copy branch at lengths 1..3 on every order pattern; Window's unchecked branches through the selection methods (length 3) and six arithmetic methods; K: every Window observer at all capacities with Kani's pointer / get_unchecked-precondition checks (see harness list)", "thorough": "SMM length 4"},
    "outside": ["observable equality between the two builds is decided indirectly: each build is shown equal to the same definitional oracle on the same inputs (C01/C02/C04 obligations re-run with the feature on)",
                "methods/indicators other than through Window and SMM (the feature touches only these two files: checked by the scan job)", "serde calls"],
    "assumptions": ["unchecked accesses (get_unchecked, get_unchecked_mut, ptr::copy, pointer add) are interpreted with bounds checks; an out-of-bounds access is a UB event, confirmed by a concrete checked re-run",
                    "premise of the statement (the default build does not panic) holds for every registered call sequence: the same harnesses pass without the feature"],
}
